/-
Invariants of the pipeline model (`Pyr.Pipeline`): a small program logic over the model's exception/state
monad (`Inv`: a computation started with the request on top of the stack leaves the stack as it was, logs only
chain-stage events with `current request = self`, and the two callback deques grow exactly by the registrations
it logged), the exact behaviour of the callback loops, and the mutual induction over the request tree.
Core Lean only.
-/
import PyramidModel.Pipeline

namespace Pyr.Pipeline

/-! ### log vocabulary (spec side) -/

/-- events that carry a "current request is self" observation have it true -/
def Ev.curOk : Ev → Bool
  | .hook _ c _ => c
  | .cb _ _ c _ => c
  | .resume c _ => c
  | _ => true

/-- what may be logged while the tween chain runs: hooks other than NewResponse, registrations, view resumptions,
subrequest markers — no callback, no chain marker -/
def Ev.isStage : Ev → Bool
  | .hook p _ _ => p != .newResponse
  | .reg _ _ => true
  | .resume _ _ => true
  | .sub _ => true
  | .cb _ _ _ _ => false
  | .chain _ => false

def regId (k : CbKind) : Ev → Option Nat
  | .reg k' i => if k' = k then some i else none
  | _ => none

/-- ids of the callbacks of kind `k` registered in a log, in order -/
def regsOf (k : CbKind) (evs : List Ev) : List Nat := evs.filterMap (regId k)

def Ev.isReg : Ev → Bool
  | .reg _ _ => true
  | _ => false

def Ev.isFinCb : Ev → Bool
  | .cb .fin _ _ _ => true
  | _ => false

def finId : Ev → Option Nat
  | .cb .fin i _ _ => some i
  | _ => none

/-- ids of the finished callbacks run in a log, in order -/
def finIds (evs : List Ev) : List Nat := evs.filterMap finId

/-- the response phase of a log: `some i` = response callback `i` ran, `none` = the NewResponse event -/
def respItem : Ev → Option (Option Nat)
  | .cb .resp i _ _ => some (some i)
  | .hook .newResponse _ _ => some none
  | _ => none

def respTrace (evs : List Ev) : List (Option Nat) := evs.filterMap respItem

def cbFaulty (cfg : Cfg) (i : Nat) : Bool := (cbFault cfg i).isSome

/-- the callbacks a deque run reaches: up to and including the first one that fails -/
def throughFault (cfg : Cfg) : List Nat → List Nat
  | [] => []
  | i :: rest => if cbFaulty cfg i then [i] else i :: throughFault cfg rest

/-- what the statement demands after a response left the chain: each registered response callback, in order, up to
a failing one; then NewResponse iff none failed -/
def expectedResp (cfg : Cfg) : List Nat → List (Option Nat)
  | [] => [none]
  | i :: rest => if cbFaulty cfg i then [some i] else some i :: expectedResp cfg rest

theorem regsOf_append (k : CbKind) (a b : List Ev) : regsOf k (a ++ b) = regsOf k a ++ regsOf k b := by
  simp [regsOf, List.filterMap_append]

theorem throughFault_of_none (cfg : Cfg) (ids : List Nat) (h : ∀ i ∈ ids, cbFaulty cfg i = false) :
    throughFault cfg ids = ids := by
  induction ids with
  | nil => rfl
  | cons i rest ih =>
    simp only [throughFault, h i (List.mem_cons_self)]
    simp
    exact ih (fun j hj => h j (List.mem_cons_of_mem _ hj))

/-! ### the program logic -/

@[simp] theorem bind_def {α β} (m : M α) (f : α → M β) : (m >>= f) = M.bind m f := rfl
@[simp] theorem pure_def {α} (a : α) : (pure a : M α) = M.pure a := rfl

/-- `s'` is reached from `s` by logging `evs` -/
structure Step (s s' : St) (evs : List Ev) : Prop where
  stack : s'.stack = s.stack
  log : s'.log = s.log ++ evs
  respQ : s'.respQ = s.respQ ++ regsOf .resp evs
  finQ : s'.finQ = s.finQ ++ regsOf .fin evs
  good : ∀ e ∈ evs, e.isStage = true ∧ e.curOk = true

theorem Step.refl (s : St) : Step s s [] :=
  ⟨rfl, by simp, by simp [regsOf], by simp [regsOf], by simp⟩

theorem Step.trans {s s' s'' : St} {e1 e2 : List Ev} (h1 : Step s s' e1) (h2 : Step s' s'' e2) :
    Step s s'' (e1 ++ e2) := by
  refine ⟨h2.stack.trans h1.stack, ?_, ?_, ?_, ?_⟩
  · rw [h2.log, h1.log, List.append_assoc]
  · rw [h2.respQ, h1.respQ, regsOf_append, List.append_assoc]
  · rw [h2.finQ, h1.finQ, regsOf_append, List.append_assoc]
  · intro e he
    rcases List.mem_append.mp he with h | h
    · exact h1.good e h
    · exact h2.good e h

/-- started with `self` on top of the stack, `m` (whatever its outcome) is a `Step` -/
structure Inv {α} (me : Path) (m : M α) : Prop where
  run : ∀ s, s.stack.head? = some me → ∃ evs, Step s (m s).st evs

theorem Inv_pure {α} (self : Path) (a : α) : Inv self (M.pure a) :=
  ⟨fun s _ => ⟨[], Step.refl s⟩⟩

theorem Inv_throw {α} (self : Path) (e : Exc) : Inv self (throw e : M α) :=
  ⟨fun s _ => ⟨[], Step.refl s⟩⟩

theorem Inv_bind {α β} {self : Path} {m : M α} {f : α → M β} (hm : Inv self m) (hf : ∀ a, Inv self (f a)) :
    Inv self (M.bind m f) := by
  refine ⟨fun s hs => ?_⟩
  obtain ⟨e1, h1⟩ := hm.run s hs
  simp only [M.bind]
  cases hms : m s with
  | ok a s' =>
    rw [hms] at h1
    simp only [R.st] at h1
    obtain ⟨e2, h2⟩ := (hf a).run s' (by rw [h1.stack]; exact hs)
    exact ⟨e1 ++ e2, h1.trans h2⟩
  | err e s' =>
    rw [hms] at h1
    exact ⟨e1, h1⟩

theorem Inv_tryCatch {α} {self : Path} {m : M α} {h : Exc → M α} (hm : Inv self m) (hh : ∀ e, Inv self (h e)) :
    Inv self (tryCatch m h) := by
  refine ⟨fun s hs => ?_⟩
  obtain ⟨e1, h1⟩ := hm.run s hs
  simp only [tryCatch]
  cases hms : m s with
  | ok a s' => rw [hms] at h1; exact ⟨e1, h1⟩
  | err e s' =>
    rw [hms] at h1
    simp only [R.st] at h1
    obtain ⟨e2, h2⟩ := (hh e).run s' (by rw [h1.stack]; exact hs)
    exact ⟨e1 ++ e2, h1.trans h2⟩

theorem Inv_tryFinally {α} {self : Path} {m : M α} {f : M Unit} (hm : Inv self m) (hf : Inv self f) :
    Inv self (tryFinally m f) := by
  refine ⟨fun s hs => ?_⟩
  obtain ⟨e1, h1⟩ := hm.run s hs
  simp only [tryFinally]
  cases hms : m s with
  | ok a s' =>
    rw [hms] at h1
    simp only [R.st] at h1
    obtain ⟨e2, h2⟩ := hf.run s' (by rw [h1.stack]; exact hs)
    refine ⟨e1 ++ e2, ?_⟩
    cases hfs : f s' with
    | ok u s'' => rw [hfs] at h2; simp only [hfs]; exact h1.trans h2
    | err e s'' => rw [hfs] at h2; simp only [hfs]; exact h1.trans h2
  | err e s' =>
    rw [hms] at h1
    simp only [R.st] at h1
    obtain ⟨e2, h2⟩ := hf.run s' (by rw [h1.stack]; exact hs)
    refine ⟨e1 ++ e2, ?_⟩
    cases hfs : f s' with
    | ok u s'' => rw [hfs] at h2; simp only [hfs]; exact h1.trans h2
    | err e' s'' => rw [hfs] at h2; simp only [hfs]; exact h1.trans h2

theorem Inv_ite {α} {self : Path} {c : Prop} [Decidable c] {a b : M α} (ha : Inv self a) (hb : Inv self b) :
    Inv self (if c then a else b) := by
  split <;> assumption

/-! ### primitives -/

/-- `register` logs exactly the registrations it appends to the deques -/
theorem register_spec (stage : Point) (regs : List Reg) (i : Nat) (s : St) :
    ∃ evs s', register stage regs i s = .ok () s' ∧ (∀ e ∈ evs, e.isReg = true) ∧
      s'.stack = s.stack ∧ s'.log = s.log ++ evs ∧ s'.respQ = s.respQ ++ regsOf .resp evs ∧
      s'.finQ = s.finQ ++ regsOf .fin evs ∧ s'.kids = s.kids := by
  induction regs generalizing i s with
  | nil => exact ⟨[], s, rfl, by simp, rfl, by simp, by simp [regsOf], by simp [regsOf], rfl⟩
  | cons r rest ih =>
    simp only [register]
    split
    · cases hk : r.kind with
      | resp =>
        obtain ⟨evs, s', h1, h2, h3, h4, h5, h6, h7⟩ := ih (i + 1)
          { s with log := s.log ++ [Ev.reg .resp i], respQ := s.respQ ++ [i] }
        refine ⟨Ev.reg .resp i :: evs, s', h1, ?_, h3, ?_, ?_, ?_, h7⟩
        · intro e he
          rcases List.mem_cons.mp he with h | h
          · subst h; rfl
          · exact h2 e h
        · rw [h4]; simp
        · rw [h5]; simp [regsOf, regId]
        · rw [h6]; simp [regsOf, regId]
      | fin =>
        obtain ⟨evs, s', h1, h2, h3, h4, h5, h6, h7⟩ := ih (i + 1)
          { s with log := s.log ++ [Ev.reg .fin i], finQ := s.finQ ++ [i] }
        refine ⟨Ev.reg .fin i :: evs, s', h1, ?_, h3, ?_, ?_, ?_, h7⟩
        · intro e he
          rcases List.mem_cons.mp he with h | h
          · subst h; rfl
          · exact h2 e h
        · rw [h4]; simp
        · rw [h5]; simp [regsOf, regId]
        · rw [h6]; simp [regsOf, regId]
    · exact ih (i + 1) s

theorem isReg_good {e : Ev} (h : e.isReg = true) : e.isStage = true ∧ e.curOk = true := by
  cases e <;> simp_all [Ev.isReg, Ev.isStage, Ev.curOk]

/-- what a hook does to the state, whatever its outcome -/
theorem hook_spec (cfg : Cfg) (self : Path) (p : Point) (s : St) :
    ∃ evs, (∀ e ∈ evs, e.isReg = true) ∧
      (hook cfg self p s).st.stack = s.stack ∧
      (hook cfg self p s).st.log = s.log ++ Ev.hook p (s.stack.head? == some self) s.stack.length :: evs ∧
      (hook cfg self p s).st.respQ = s.respQ ++ regsOf .resp evs ∧
      (hook cfg self p s).st.finQ = s.finQ ++ regsOf .fin evs := by
  obtain ⟨evs, s', h1, h2, h3, h4, h5, h6, _⟩ := register_spec p cfg.regs 0
    { s with log := s.log ++ [Ev.hook p (s.stack.head? == some self) s.stack.length] }
  refine ⟨evs, h2, ?_⟩
  have hst : (hook cfg self p s).st = s' := by
    simp only [hook, bind_def, pure_def, M.bind, getStack, emit, h1]
    cases faultOf cfg p with
    | none => rfl
    | some k =>
      cases k with
      | plain => rfl
      | http => rfl
      | soft =>
        simp only
        split <;> rfl
  rw [hst]
  refine ⟨h3, ?_, h5, h6⟩
  rw [h4]; simp

theorem Inv_hook (cfg : Cfg) (self : Path) (p : Point) (hp : p ≠ .newResponse) : Inv self (hook cfg self p) := by
  refine ⟨fun s hs => ?_⟩
  obtain ⟨evs, h1, h2, h3, h4, h5⟩ := hook_spec cfg self p s
  refine ⟨Ev.hook p (s.stack.head? == some self) s.stack.length :: evs, h2, h3, ?_, ?_, ?_⟩
  · rw [h4]; simp only [regsOf]; rw [List.filterMap_cons_none (by rfl)]
  · rw [h5]; simp only [regsOf]; rw [List.filterMap_cons_none (by rfl)]
  · intro e he
    rcases List.mem_cons.mp he with h | h
    · subst h
      simp [Ev.isStage, Ev.curOk, hs, hp]
    · exact isReg_good (h1 e h)

theorem Inv_resume (self : Path) : Inv self (resume self) := by
  refine ⟨fun s hs => ?_⟩
  refine ⟨[Ev.resume (s.stack.head? == some self) s.stack.length], rfl, rfl, by simp [resume, bind_def, M.bind, getStack, emit, R.st, regsOf, regId], by simp [resume, bind_def, M.bind, getStack, emit, R.st, regsOf, regId], ?_⟩
  intro e he
  simp at he; subst he
  simp [Ev.isStage, Ev.curOk, hs]

/-- `invoke_exception_view`: the extra frame it pushes is the request itself and is popped on every path -/
theorem invokeExcView_step (xv : Bool) (cfg : Cfg) (self : Path) (e : Exc) (s : St) :
    ∃ evs, Step s (invokeExcView xv cfg self e s).st evs := by
  simp only [invokeExcView, bind_def, M.bind, push, tryFinally, pop]
  cases xv with
  | false =>
    refine ⟨[], ?_⟩
    simp only [Bool.false_eq_true, ↓reduceIte, pure_def, M.pure, R.st]
    exact ⟨by simp, by simp, by simp [regsOf], by simp [regsOf], by simp⟩
  | true =>
    simp only [↓reduceIte, bind_def, pure_def, M.bind]
    obtain ⟨evs, hin⟩ := (Inv_hook cfg self .excView (by decide)).run { s with stack := self :: s.stack } (by simp)
    refine ⟨evs, ?_⟩
    cases hh : hook cfg self .excView { s with stack := self :: s.stack } with
    | ok a s' =>
      rw [hh] at hin
      simp only [R.st] at hin
      simp only [M.pure, R.st]
      exact ⟨by simp [hin.stack], hin.log, hin.respQ, hin.finQ, hin.good⟩
    | err e' s' =>
      rw [hh] at hin
      simp only [R.st] at hin
      simp only [R.st]
      exact ⟨by simp [hin.stack], hin.log, hin.respQ, hin.finQ, hin.good⟩

theorem Inv_invokeExcView (xv : Bool) (cfg : Cfg) (self : Path) (e : Exc) :
    Inv self (invokeExcView xv cfg self e) :=
  ⟨fun s _ => invokeExcView_step xv cfg self e s⟩

/-- the explicit invocation for another request leaves the caller's stack and deques alone and logs, in the caller's
own log, only the marker and the resumption (with the caller current again) -/
theorem Inv_invokeOther (xv : Bool) (t : Kind × Option Kind × Bool) (self : Path) : Inv self (invokeOther xv t self) := by
  refine ⟨fun s hs => ?_⟩
  obtain ⟨evs, hst⟩ := invokeExcView_step (if t.2.2 then !xv else xv) (otherCfg t.2.1) (self ++ [otherId]) (excOf t.1)
    { stack := s.stack }
  have hstack := hst.stack
  simp only at hstack
  refine ⟨[Ev.sub otherId, Ev.resume (s.stack.head? == some self) s.stack.length], ?_⟩
  have key : ∀ (r : R Bool), r.st.stack = s.stack →
      Step s (match (match r with
                      | .ok true _ => Outcome.resp
                      | .ok false _ => Outcome.raised .http
                      | .err e _ => Outcome.raised e) with
              | .resp => (R.ok () { s with
                  log := s.log ++ [Ev.sub otherId, Ev.resume (r.st.stack.head? == some self) r.st.stack.length],
                  stack := r.st.stack,
                  kids := s.kids ++ [Tr.node r.st.log (match r with
                      | .ok true _ => Outcome.resp
                      | .ok false _ => Outcome.raised .http
                      | .err e _ => Outcome.raised e) r.st.stack.length []] } : R Unit)
              | .raised e => R.err e { s with
                  log := s.log ++ [Ev.sub otherId, Ev.resume (r.st.stack.head? == some self) r.st.stack.length],
                  stack := r.st.stack,
                  kids := s.kids ++ [Tr.node r.st.log (match r with
                      | .ok true _ => Outcome.resp
                      | .ok false _ => Outcome.raised .http
                      | .err e _ => Outcome.raised e) r.st.stack.length []] }).st
        [Ev.sub otherId, Ev.resume (s.stack.head? == some self) s.stack.length] := by
    intro r hr
    have hgood : ∀ e ∈ [Ev.sub otherId, Ev.resume (s.stack.head? == some self) s.stack.length],
        e.isStage = true ∧ e.curOk = true := by
      intro e he
      simp at he
      rcases he with h | h <;> subst h <;> simp [Ev.isStage, Ev.curOk, hs]
    cases r with
    | ok b s' =>
      simp only [R.st] at hr
      cases b <;> simp only [R.st, hr] <;>
        exact ⟨rfl, rfl, by simp [regsOf, regId], by simp [regsOf, regId], hgood⟩
    | err e s' =>
      simp only [R.st] at hr
      simp only [R.st, hr]
      exact ⟨rfl, rfl, by simp [regsOf, regId], by simp [regsOf, regId], hgood⟩
  exact key _ hstack

/-! ### the chain, given that the subrequests are a `Step` -/

/-- structural proof search over the combinators; facts about sub-computations are taken from the context -/
macro "inv_auto" : tactic => `(tactic| repeat (first
  | assumption
  | exact Inv_pure _ _
  | exact Inv_throw _ _
  | exact Inv_resume _
  | exact Inv_invokeExcView _ _ _ _
  | exact Inv_invokeOther _ _ _
  | (apply Inv_hook; decide)
  | (apply Inv_hook; split <;> decide)
  | apply Inv_tryFinally
  | apply Inv_tryCatch
  | apply Inv_bind
  | apply Inv_ite
  | intro _
  | split))

theorem Inv_viewBody {xv : Bool} {cfg : Cfg} {self : Path} {subsM : M Unit} (hs : Inv self subsM) :
    Inv self (viewBody xv cfg self subsM) := by
  unfold viewBody
  simp only [bind_def, pure_def]
  inv_auto

theorem Inv_callView {xv : Bool} {cfg : Cfg} {self : Path} {subsM : M Unit} (hs : Inv self subsM) :
    Inv self (callView xv cfg self subsM) := by
  have := Inv_viewBody (xv := xv) (cfg := cfg) hs
  unfold callView
  simp only [bind_def, pure_def]
  inv_auto

theorem Inv_handleRequest {xv : Bool} {cfg : Cfg} {self : Path} {subsM : M Unit} (hs : Inv self subsM) :
    Inv self (handleRequest xv cfg self subsM) := by
  have := Inv_callView (xv := xv) (cfg := cfg) hs
  unfold handleRequest
  simp only [bind_def, pure_def]
  inv_auto

theorem Inv_tweenUnder {xv : Bool} {cfg : Cfg} {self : Path} {subsM : M Unit} (hs : Inv self subsM) :
    Inv self (tweenUnder xv cfg self subsM) := by
  have := Inv_handleRequest (xv := xv) (cfg := cfg) hs
  unfold tweenUnder
  simp only [bind_def, pure_def]
  inv_auto

theorem Inv_excviewTween {xv : Bool} {cfg : Cfg} {self : Path} {subsM : M Unit} (hs : Inv self subsM) :
    Inv self (excviewTween xv cfg self subsM) := by
  have := Inv_tweenUnder (xv := xv) (cfg := cfg) hs
  unfold excviewTween
  simp only [bind_def, pure_def]
  inv_auto

theorem Inv_tweenOver {xv : Bool} {cfg : Cfg} {self : Path} {subsM : M Unit} (hs : Inv self subsM) :
    Inv self (tweenOver xv cfg self subsM) := by
  have := Inv_excviewTween (xv := xv) (cfg := cfg) hs
  unfold tweenOver
  simp only [bind_def, pure_def]
  inv_auto

theorem Inv_chain {xv : Bool} {cfg : Cfg} {self : Path} {useTw : Bool} {subsM : M Unit} (hs : Inv self subsM) :
    Inv self (chain xv cfg self useTw subsM) := by
  have := Inv_tweenOver (xv := xv) (cfg := cfg) hs
  have := Inv_handleRequest (xv := xv) (cfg := cfg) hs
  unfold chain
  inv_auto

/-! ### the callback loops -/

def cbEvs (k : CbKind) (cur : Bool) (d : Nat) (ids : List Nat) : List Ev := ids.map fun i => Ev.cb k i cur d

def allOk (cfg : Cfg) (q : List Nat) : Bool := q.all fun i => !cbFaulty cfg i

/-- `_process_*_callbacks`: runs the deque from the left through the first failing callback; fails iff one fails -/
theorem runCbs_spec (cfg : Cfg) (self : Path) (k : CbKind) (q : List Nat) (s : St) :
    (allOk cfg q = true → runCbs cfg self k q s =
        .ok () { s with log := s.log ++ cbEvs k (s.stack.head? == some self) s.stack.length (throughFault cfg q) }) ∧
    (allOk cfg q = false → ∃ e, runCbs cfg self k q s =
        .err e { s with log := s.log ++ cbEvs k (s.stack.head? == some self) s.stack.length (throughFault cfg q) }) := by
  induction q generalizing s with
  | nil => simp [allOk, runCbs, throughFault, cbEvs, M.pure]
  | cons i rest ih =>
    simp only [runCbs, bind_def, M.bind, getStack, emit, allOk, List.all_cons, throughFault, cbFaulty]
    rcases Option.eq_none_or_eq_some (cbFault cfg i) with hf | ⟨f, hf⟩
    · simp only [hf, Option.isSome_none, Bool.not_false, Bool.true_and, Bool.false_eq_true, ↓reduceIte]
      have ih' := ih { s with log := s.log ++ [Ev.cb k i (s.stack.head? == some self) s.stack.length] }
      simp only [allOk] at ih'
      constructor
      · intro h
        rw [ih'.1 h]
        simp [cbEvs]
      · intro h
        obtain ⟨e, he⟩ := ih'.2 h
        exact ⟨e, by rw [he]; simp [cbEvs]⟩
    · simp [hf, throw, cbEvs]

theorem regsOf_cbEvs (k' k : CbKind) (c : Bool) (d : Nat) (ids : List Nat) : regsOf k' (cbEvs k c d ids) = [] := by
  induction ids with
  | nil => rfl
  | cons i rest ih => simpa [regsOf, cbEvs, regId] using ih

theorem finIds_cbEvs_fin (c : Bool) (d : Nat) (ids : List Nat) : finIds (cbEvs .fin c d ids) = ids := by
  induction ids with
  | nil => rfl
  | cons i rest ih => simp [finIds, cbEvs, finId] at ih ⊢; exact ih

theorem respTrace_regs {evs : List Ev} (h : ∀ e ∈ evs, e.isReg = true) : respTrace evs = [] := by
  induction evs with
  | nil => rfl
  | cons e rest ih =>
    have he := h e List.mem_cons_self
    cases e <;> simp_all [Ev.isReg, respTrace, respItem]

/-- the response phase as the statement reads it -/
theorem respTrace_phase (cfg : Cfg) (c : Bool) (d : Nat) (q : List Nat) (c' : Bool) (d' : Nat) (regEvs : List Ev)
    (hr : ∀ e ∈ regEvs, e.isReg = true) :
    respTrace (cbEvs .resp c d (throughFault cfg q) ++
      (if allOk cfg q = true then Ev.hook .newResponse c' d' :: regEvs else [])) = expectedResp cfg q := by
  induction q with
  | nil =>
    simp only [throughFault, cbEvs, allOk, List.all_nil, List.map_nil, List.nil_append, ↓reduceIte, expectedResp]
    simp only [respTrace, List.filterMap_cons, respItem]
    have := respTrace_regs hr
    simp only [respTrace] at this
    rw [this]
  | cons i rest ih =>
    simp only [throughFault, expectedResp, allOk, List.all_cons]
    rcases Bool.eq_false_or_eq_true (cbFaulty cfg i) with hf | hf
    · simp [hf, cbEvs, respTrace, respItem]
    · simp only [hf, Bool.false_eq_true, ↓reduceIte, Bool.not_false, Bool.true_and]
      simp only [allOk] at ih
      simp only [cbEvs, List.map_cons, List.cons_append, respTrace, List.filterMap_cons, respItem]
      simp only [cbEvs, respTrace] at ih
      exact congrArg (some i :: ·) ih

/-! ### the shape of one request's own log -/

def Ev.isChain : Ev → Bool
  | .chain _ => true
  | _ => false

theorem st_ok {α} (a : α) (s : St) : (R.ok a s).st = s := rfl
theorem st_err {α} (e : Exc) (s : St) : (R.err e s : R α).st = s := rfl

theorem tryFinally_st {α} (m : M α) (f : M Unit) (s : St) : (tryFinally m f s).st = (f (m s).st).st := by
  simp only [tryFinally]
  cases m s with
  | ok a s' => simp only [R.st]; cases f s' <;> rfl
  | err e s' => simp only [R.st]; cases f s' <;> rfl

theorem probed_eq (xv : Bool) (cfg : Cfg) (self : Path) (useTw : Bool) (subsM : M Unit) (s : St) :
    probed xv cfg self useTw subsM s =
      match chain xv cfg self useTw subsM s with
      | .ok _ s1 => .ok () { s1 with log := s1.log ++ [Ev.chain true] }
      | .err e s1 => .err e { s1 with log := s1.log ++ [Ev.chain false] } := by
  simp only [probed, tryCatch, bind_def, M.bind, emit, throw]
  cases chain xv cfg self useTw subsM s <;> rfl

theorem finPhase_spec (cfg : Cfg) (self : Path) (s : St) :
    (finPhase cfg self s).st.stack = s.stack ∧
    (finPhase cfg self s).st.log =
      s.log ++ cbEvs .fin (s.stack.head? == some self) s.stack.length (throughFault cfg s.finQ) := by
  simp only [finPhase, bind_def, M.bind, takeFinQ]
  have h := runCbs_spec cfg self .fin s.finQ { s with finQ := [] }
  rcases Bool.eq_false_or_eq_true (allOk cfg s.finQ) with ha | ha
  · rw [h.1 ha]; exact ⟨rfl, rfl⟩
  · obtain ⟨e, he⟩ := h.2 ha
    rw [he]; exact ⟨rfl, rfl⟩

theorem cbEvs_mem {k : CbKind} {c : Bool} {d : Nat} {ids : List Nat} {e : Ev} (h : e ∈ cbEvs k c d ids) :
    ∃ i, e = Ev.cb k i c d := by
  simp only [cbEvs, List.mem_map] at h
  obtain ⟨i, _, hi⟩ := h
  exact ⟨i, hi.symm⟩

/-- what follows the chain inside the `try`: the response callbacks through the first failing one, then (iff none
failed) NewResponse and the registrations its subscribers make -/
theorem respPhase_spec (cfg : Cfg) (self : Path) (s : St) (hs : s.stack.head? = some self) :
    ∃ post, (respPhase cfg self s).st.stack = s.stack ∧
      (respPhase cfg self s).st.log = s.log ++ post ∧
      (respPhase cfg self s).st.finQ = s.finQ ++ regsOf .fin post ∧
      respTrace post = expectedResp cfg s.respQ ∧
      (∀ e ∈ post, e.isFinCb = false ∧ e.isChain = false ∧ e.curOk = true) := by
  simp only [respPhase, bind_def, pure_def, M.bind, takeRespQ]
  have h := runCbs_spec cfg self .resp s.respQ { s with respQ := [] }
  rcases Bool.eq_false_or_eq_true (allOk cfg s.respQ) with ha | ha
  · rw [h.1 ha]
    simp only
    obtain ⟨regEvs, hr, h2, h3, _, h5⟩ := hook_spec cfg self .newResponse
      { s with respQ := [], log := s.log ++ cbEvs .resp (s.stack.head? == some self) s.stack.length (throughFault cfg s.respQ) }
    refine ⟨cbEvs .resp (s.stack.head? == some self) s.stack.length (throughFault cfg s.respQ) ++
        Ev.hook .newResponse (s.stack.head? == some self) s.stack.length :: regEvs, ?_, ?_, ?_, ?_, ?_⟩
    · cases hh : hook cfg self .newResponse _ with
      | ok a s' => rw [hh] at h2; simpa [R.st, M.pure] using h2
      | err e s' => rw [hh] at h2; simpa [R.st] using h2
    · cases hh : hook cfg self .newResponse _ with
      | ok a s' => rw [hh] at h3; simpa [R.st, M.pure] using h3
      | err e s' => rw [hh] at h3; simpa [R.st] using h3
    · have : regsOf .fin (cbEvs .resp (s.stack.head? == some self) s.stack.length (throughFault cfg s.respQ) ++
          Ev.hook .newResponse (s.stack.head? == some self) s.stack.length :: regEvs) = regsOf .fin regEvs := by
        rw [regsOf_append, regsOf_cbEvs]
        simp only [regsOf, List.nil_append]
        rw [List.filterMap_cons_none (by rfl)]
      rw [this]
      cases hh : hook cfg self .newResponse _ with
      | ok a s' => rw [hh] at h5; simpa [R.st, M.pure] using h5
      | err e s' => rw [hh] at h5; simpa [R.st] using h5
    · have := respTrace_phase cfg (s.stack.head? == some self) s.stack.length s.respQ
        (s.stack.head? == some self) s.stack.length regEvs hr
      simpa [ha] using this
    · intro e he
      rcases List.mem_append.mp he with h | h
      · obtain ⟨i, hi⟩ := cbEvs_mem h
        subst hi; simp [Ev.isFinCb, Ev.isChain, Ev.curOk, hs]
      · rcases List.mem_cons.mp h with h | h
        · subst h; simp [Ev.isFinCb, Ev.isChain, Ev.curOk, hs]
        · have := hr e h
          cases e <;> simp_all [Ev.isReg, Ev.isFinCb, Ev.isChain, Ev.curOk]
  · obtain ⟨e, he⟩ := h.2 ha
    rw [he]
    refine ⟨cbEvs .resp (s.stack.head? == some self) s.stack.length (throughFault cfg s.respQ), rfl, rfl, ?_, ?_, ?_⟩
    · simp [R.st, regsOf_cbEvs]
    · have := respTrace_phase cfg (s.stack.head? == some self) s.stack.length s.respQ true 0 [] (by simp)
      simpa [ha] using this
    · intro e he
      obtain ⟨i, hi⟩ := cbEvs_mem he
      subst hi; simp [Ev.isFinCb, Ev.isChain, Ev.curOk, hs]

/-- Everything the statement says about one request's own log: the events before the chain marker are chain-stage
events; after the marker comes the response phase exactly when the chain responded; the finished callbacks are a
suffix of the log and are the registered ones, in order, through the first failing one; every observation of the
current request sees the request itself. -/
def LogShape (cfg : Cfg) (own : List Ev) : Prop :=
  ∃ pre b post tail, own = pre ++ Ev.chain b :: (post ++ tail) ∧
    (∀ e ∈ pre, e.isStage = true ∧ e.curOk = true) ∧
    respTrace post = (if b = true then expectedResp cfg (regsOf .resp pre) else []) ∧
    (∀ e ∈ post, e.isFinCb = false ∧ e.isChain = false ∧ e.curOk = true) ∧
    (∀ e ∈ tail, e.isFinCb = true ∧ e.curOk = true) ∧
    finIds tail = throughFault cfg (regsOf .fin (pre ++ post))

theorem invokeRequest_shape {xv : Bool} {cfg : Cfg} {self : Path} {useTw : Bool} {subsM : M Unit}
    (hsub : Inv self subsM) (s0 : St) (h0 : s0.stack.head? = some self)
    (hl : s0.log = []) (hr : s0.respQ = []) (hf : s0.finQ = []) :
    (invokeRequest xv cfg self useTw subsM s0).st.stack = s0.stack ∧
    LogShape cfg (invokeRequest xv cfg self useTw subsM s0).st.log := by
  obtain ⟨pre, h1⟩ := (Inv_chain (xv := xv) (cfg := cfg) (useTw := useTw) hsub).run s0 h0
  simp only [invokeRequest, tryFinally_st, bind_def, M.bind, probed_eq]
  cases hc : chain xv cfg self useTw subsM s0 with
  | ok u s1 =>
    rw [hc] at h1
    simp only [R.st] at h1
    simp only
    have hs1 : ({ s1 with log := s1.log ++ [Ev.chain true] } : St).stack.head? = some self := by
      simp [h1.stack, h0]
    obtain ⟨post, p1, p2, p3, p4, p5⟩ := respPhase_spec cfg self { s1 with log := s1.log ++ [Ev.chain true] } hs1
    obtain ⟨f1, f2⟩ := finPhase_spec cfg self (respPhase cfg self { s1 with log := s1.log ++ [Ev.chain true] }).st
    generalize (respPhase cfg self { s1 with log := s1.log ++ [Ev.chain true] }).st = sR at p1 p2 p3 f1 f2 ⊢
    refine ⟨by rw [f1, p1]; exact h1.stack, ?_⟩
    refine ⟨pre, true, post, cbEvs .fin (sR.stack.head? == some self) sR.stack.length (throughFault cfg sR.finQ),
      ?_, h1.good, ?_, p5, ?_, ?_⟩
    · rw [f2, p2]; simp only [h1.log, hl]; simp
    · simp only [↓reduceIte]
      rw [p4]; simp [h1.respQ, hr]
    · intro e he
      obtain ⟨i, hi⟩ := cbEvs_mem he
      subst hi
      simp only [Ev.isFinCb, Ev.curOk, true_and]
      rw [p1]; simp [h1.stack, h0]
    · rw [finIds_cbEvs_fin, p3]
      simp [h1.finQ, hf, regsOf_append]
  | err e s1 =>
    rw [hc] at h1
    simp only [R.st] at h1
    simp only [st_err]
    obtain ⟨f1, f2⟩ := finPhase_spec cfg self { s1 with log := s1.log ++ [Ev.chain false] }
    refine ⟨by rw [f1]; exact h1.stack, ?_⟩
    refine ⟨pre, false, [], cbEvs .fin (s1.stack.head? == some self) s1.stack.length (throughFault cfg s1.finQ),
      ?_, h1.good, by simp [respTrace], by simp, ?_, ?_⟩
    · rw [f2]; simp only [h1.log, hl]; simp
    · intro e he
      obtain ⟨i, hi⟩ := cbEvs_mem he
      subst hi
      simp [Ev.isFinCb, Ev.curOk, h1.stack, h0]
    · rw [finIds_cbEvs_fin]
      simp [h1.finQ, hf]

/-! ### the request tree -/

def Tr.own : Tr → List Ev
  | .node o _ _ _ => o
def Tr.out : Tr → Outcome
  | .node _ o _ _ => o
def Tr.depthAfter : Tr → Nat
  | .node _ _ d _ => d
def Tr.kids : Tr → List Tr
  | .node _ _ _ k => k

theorem runReq_eq (xv top : Bool) (cfg : Cfg) (subs : Reqs) (self : Path) (stack0 : List Path) :
    runReq xv top (.mk cfg subs) self stack0 =
      let r := invokeRequest xv cfg self (top || cfg.useTweens) (runSubs xv subs self 0) { stack := self :: stack0 }
      (.node r.st.log (outcomeOf r) r.st.stack.tail.length r.st.kids, outcomeOf r, r.st.stack.tail) := by
  rw [runReq]

mutual
  /-- a request (WSGI call or subrequest at any depth) gives the stack back exactly as it found it, and its own
  log has the shape the statement describes -/
  theorem runReq_props (xv top : Bool) : ∀ (r : Req) (self : Path) (stack0 : List Path),
      (runReq xv top r self stack0).2.2 = stack0 ∧ LogShape r.cfg (runReq xv top r self stack0).1.own
    | .mk cfg subs, self, stack0 => by
      have hsub := runSubs_inv xv subs self 0
      have h := invokeRequest_shape (xv := xv) (cfg := cfg) (useTw := (top || cfg.useTweens)) hsub
        { stack := self :: stack0 } (by simp) rfl rfl rfl
      rw [runReq_eq]
      simp only [Tr.own, Req.cfg]
      refine ⟨?_, h.2⟩
      rw [h.1]; rfl

  theorem runSubs_inv (xv : Bool) : ∀ (rs : Reqs) (self : Path) (i : Nat), Inv self (runSubs xv rs self i)
    | .nil, self, i => by
      refine ⟨fun s _ => ⟨[], ?_⟩⟩
      rw [runSubs]
      exact Step.refl s
    | .cons r rs, self, i => by
      refine ⟨fun s hs => ?_⟩
      have hr := (runReq_props xv false r (self ++ [i]) s.stack).1
      have hrest := runSubs_inv xv rs self (i + 1)
      rw [runSubs]
      simp only
      generalize hres : runReq xv false r (self ++ [i]) s.stack = res at hr
      obtain ⟨tr, out, stack'⟩ := res
      simp only at hr
      subst hr
      simp only
      have hstep : Step s { s with log := s.log ++ [Ev.sub i] ++ [Ev.resume (s.stack.head? == some self) s.stack.length],
                                   kids := s.kids ++ [tr] }
          [Ev.sub i, Ev.resume (s.stack.head? == some self) s.stack.length] := by
        refine ⟨rfl, by simp, by simp [regsOf, regId], by simp [regsOf, regId], ?_⟩
        intro e he
        simp at he
        rcases he with h | h <;> subst h <;> simp [Ev.isStage, Ev.curOk, hs]
      cases out with
      | resp =>
        simp only
        obtain ⟨evs, h2⟩ := hrest.run { s with log := s.log ++ [Ev.sub i] ++ [Ev.resume (s.stack.head? == some self) s.stack.length],
                                               kids := s.kids ++ [tr] } hs
        exact ⟨_, hstep.trans h2⟩
      | raised e =>
        simp only [st_err]
        exact ⟨_, hstep⟩
end

/-! ### small facts about the spec-side projections -/

theorem regsOf_chain (k : CbKind) (b : Bool) (l : List Ev) : regsOf k (Ev.chain b :: l) = regsOf k l := by
  simp only [regsOf]; rw [List.filterMap_cons_none (by rfl)]

theorem respTrace_of_stage {l : List Ev} (h : ∀ e ∈ l, e.isStage = true ∧ e.curOk = true) : respTrace l = [] := by
  induction l with
  | nil => rfl
  | cons e rest ih =>
    have he := (h e List.mem_cons_self).1
    have := ih (fun x hx => h x (List.mem_cons_of_mem _ hx))
    simp only [respTrace] at this ⊢
    cases e with
    | hook p c d =>
      cases p <;> simp_all [Ev.isStage, respItem]
    | cb k i c d => simp [Ev.isStage] at he
    | chain b => simp [Ev.isStage] at he
    | reg k i => simpa [respItem] using this
    | resume c d => simpa [respItem] using this
    | sub i => simpa [respItem] using this

theorem respTrace_of_fin {l : List Ev} (h : ∀ e ∈ l, e.isFinCb = true ∧ e.curOk = true) : respTrace l = [] := by
  induction l with
  | nil => rfl
  | cons e rest ih =>
    have he := (h e List.mem_cons_self).1
    have := ih (fun x hx => h x (List.mem_cons_of_mem _ hx))
    simp only [respTrace] at this ⊢
    cases e with
    | cb k i c d => cases k <;> simp_all [Ev.isFinCb, respItem]
    | _ => simp [Ev.isFinCb] at he

theorem expectedResp_of_none (cfg : Cfg) (ids : List Nat) (h : ∀ i ∈ ids, cbFaulty cfg i = false) :
    expectedResp cfg ids = ids.map some ++ [none] := by
  induction ids with
  | nil => rfl
  | cons i rest ih =>
    simp only [expectedResp, h i List.mem_cons_self]
    simp
    exact ih (fun j hj => h j (List.mem_cons_of_mem _ hj))

end Pyr.Pipeline
