import PyramidModel.Lemmas.SecurityTrace
/-!
C05 helper lemmas, part 3: the invariant for the router's two phases and for `render_view_to_response`, and the
index-form consequences of the invariant that the property theorems are stated with.
-/
namespace Pyr.Security

theorem mainPhase_inv {ch : List Layer} (hch : securedFirst ch = true) (views : List DView) (w : World) (q : Req) :
    Inv views w.pol none (mainPhase ch views w q) := by
  have h := callView_inv hch (views := views) (w := w) (wrapIfaces := q.wrapIfaces) (truePreds := q.preds)
    (fuelFor views) false q.ifaces q.sro q.name q.ctx
  simp only [mainPhase]
  split
  · next hn => exact Inv.outcome (o := Outcome.none) (by rw [← hn]; exact h) (by intro h; cases h)
  · next hn => exact Inv.outcome (o := Outcome.mismatch) (by rw [← hn]; exact h) (by intro h; cases h)
  · exact h

theorem excPhase_inv {ch : List Layer} (hch : securedFirst ch = true) (views : List DView) (w : World) (q : Req) (k : Nat) :
    Inv views w.pol none (excPhase ch views w q k) := by
  have h := callView_inv hch (views := views) (w := w) (wrapIfaces := q.wrapIfaces) (truePreds := q.preds)
    (fuelFor views) true q.excIfaces (w.excSro k) 0 (excCtx k)
  simp only [excPhase]
  split
  · next hn => exact Inv.outcome (o := Outcome.none) (by rw [← hn]; exact h) (by intro h; cases h)
  · next hn => exact Inv.outcome (o := Outcome.mismatch) (by rw [← hn]; exact h) (by intro h; cases h)
  · next k' hn =>
    split
    · next hnf =>
      refine Inv.outcome (o := Outcome.raised k') (by rw [← hn]; exact h) ?_
      intro hk; injection hk with hk; subst hk
      simp [isNotFoundFamily, kForbidden, kNotFound, kPredMismatch] at hnf
    · exact h
  · exact h

theorem render_inv {ch : List Layer} (hch : securedFirst ch = true) (views : List DView) (w : World) (q : Req) :
    Inv views w.pol none (render ch views w q true) := by
  have h := callView_inv hch (views := views) (w := w) (wrapIfaces := q.wrapIfaces) (truePreds := q.preds)
    (fuelFor views) false q.ifaces q.sro q.name q.ctx
  simp only [render]
  split
  · next hn => exact Inv.outcome (o := Outcome.mismatch) (by rw [← hn]; exact h) (by intro h; cases h)
  · exact h

/-! ### index forms -/

def Event.isDeco : Event → Bool
  | .deco .. => true
  | _ => false

/-- every event passes `okStep` against the event before it -/
theorem okFrom_step : ∀ (l : List Event) (prev : Option Event) (i : Nat) (e : Event),
    okFrom prev l = true → l[i]? = some e →
    okStep (match i with | 0 => prev | k + 1 => l[k]?) e = true := by
  intro l
  induction l with
  | nil => intro prev i e _ h; simp at h
  | cons x xs ih =>
    intro prev i e hok hi
    simp only [okFrom, Bool.and_eq_true] at hok
    cases i with
    | zero =>
      simp only [List.getElem?_cons_zero, Option.some.injEq] at hi
      subst hi; exact hok.1
    | succ i =>
      simp only [List.getElem?_cons_succ] at hi
      have := ih (some x) i e hok.2 hi
      cases i with
      | zero => simpa using this
      | succ k => simpa using this

/-- a guarded piece of user code of a view — its decorator or its body — stands after the granting `permits` event,
with nothing but that view's decorator events in between -/
theorem okFrom_user {c p tag : Nat} (l : List Event) (hok : okFrom none l = true) :
    ∀ (i : Nat) (e : Event), l[i]? = some e → (e = .deco tag c (some p) ∨ ∃ x, e = .body tag x c (some p)) →
    ∃ j, j < i ∧ l[j]? = some (.permits c p true) ∧ ∀ k, j < k → k < i → ∀ e', l[k]? = some e' → e'.isDeco = true := by
  intro i
  induction i with
  | zero =>
    intro e hi he
    have := okFrom_step l none 0 e hok hi
    rcases he with rfl | ⟨x, rfl⟩ <;> simp [okStep] at this
  | succ i ih =>
    intro e hi he
    have hs := okFrom_step l none (i + 1) e hok hi
    have hprev : l[i]? = some (.permits c p true) ∨ l[i]? = some (.deco tag c (some p)) := by
      rcases he with rfl | ⟨x, rfl⟩ <;> simpa [okStep] using hs
    rcases hprev with h | h
    · exact ⟨i, by omega, h, fun k h1 h2 => by omega⟩
    · obtain ⟨j, hj, hjl, hbetween⟩ := ih _ h (Or.inl rfl)
      refine ⟨j, by omega, hjl, ?_⟩
      intro k h1 h2 e' he'
      by_cases hk : k = i
      · subst hk; rw [h] at he'; injection he' with he'; subst he'; rfl
      · exact hbetween k h1 (by omega) e' he'

/-- a refusal is the last event of its run, and the run ends in HTTPForbidden -/
theorem tight_refusal {o : Outcome} : ∀ (l : List Event) (i : Nat) (e : Event),
    tight l o = true → l[i]? = some e → e.isRefusal = true → i + 1 = l.length ∧ o = .raised kForbidden := by
  intro l
  induction l with
  | nil => intro i e _ h; simp at h
  | cons x xs ih =>
    intro i e ht hi hr
    simp only [tight] at ht
    cases i with
    | zero =>
      simp only [List.getElem?_cons_zero, Option.some.injEq] at hi
      subst hi
      simp only [hr, if_true, Bool.and_eq_true, beq_iff_eq, List.isEmpty_iff] at ht
      exact ⟨by simp [ht.1], ht.2⟩
    | succ i =>
      simp only [List.getElem?_cons_succ] at hi
      by_cases hx : x.isRefusal = true
      · simp only [hx, if_true, Bool.and_eq_true, List.isEmpty_iff] at ht
        rw [ht.1] at hi; simp at hi
      · simp only [hx] at ht
        have := ih i e ht hi hr
        exact ⟨by simp [this.1], this.2⟩

theorem truthful_at {pol : Nat → Nat → Bool} {l : List Event} {j c p : Nat} {a : Bool}
    (h : truthful pol l = true) (hj : l[j]? = some (.permits c p a)) : a = pol c p := by
  have hm : Event.permits c p a ∈ l := List.mem_of_getElem? hj
  simp only [truthful, List.all_eq_true] at h
  have := h _ hm
  simpa [truthfulEv] using this

theorem isBody_of_isDeco {e : Event} (h : e.isDeco = true) : e.isBody = false := by
  cases e <;> simp [Event.isDeco] at h <;> rfl

/-- the mediation statement in index form, for any trace that satisfies the invariant parts -/
theorem mediated_of_good {views : List DView} {pol : Nat → Nat → Bool} {l : List Event}
    (hg : okFrom none l = true) (ht : truthful pol l = true) (hs : FromViews views l)
    (i tag : Nat) (exc : Bool) (c : Nat) (g : Option Nat) (hi : l[i]? = some (.body tag exc c g)) :
    (∃ d ∈ views, d.tag = tag ∧ d.exc = exc ∧ d.guard = g) ∧
    (∀ p, g = some p → ∃ j, j < i ∧ l[j]? = some (.permits c p true) ∧ pol c p = true ∧
      ∀ k, j < k → k < i → ∀ e, l[k]? = some e → e.isBody = false) := by
  refine ⟨hs tag exc c g (List.mem_of_getElem? hi), ?_⟩
  intro p hp
  subst hp
  obtain ⟨j, hj, hjl, hb⟩ := okFrom_user l hg i _ hi (Or.inr ⟨exc, rfl⟩)
  exact ⟨j, hj, hjl, (truthful_at ht hjl).symm, fun k h1 h2 e he => isBody_of_isDeco (hb k h1 h2 e he)⟩

/-- user decorator code of a guarded view is entered only after the grant -/
theorem decorator_of_good {pol : Nat → Nat → Bool} {l : List Event}
    (hg : okFrom none l = true) (ht : truthful pol l = true)
    (i tag c p : Nat) (hi : l[i]? = some (.deco tag c (some p))) :
    ∃ j, j < i ∧ l[j]? = some (.permits c p true) ∧ pol c p = true ∧
      ∀ k, j < k → k < i → ∀ e, l[k]? = some e → e.isBody = false := by
  obtain ⟨j, hj, hjl, hb⟩ := okFrom_user l hg i _ hi (Or.inl rfl)
  exact ⟨j, hj, hjl, (truthful_at ht hjl).symm, fun k h1 h2 e he => isBody_of_isDeco (hb k h1 h2 e he)⟩

/-! ### the whole request: main phase, marker, exception phase -/

theorem handle_parts {ch : List Layer} (hch : securedFirst ch = true) (views : List DView) (w : World) (q : Req) :
    okFrom none (handle ch views w q).1 = true ∧ truthful w.pol (handle ch views w q).1 = true ∧
    FromViews views (handle ch views w q).1 ∧ AskedFor views (handle ch views w q).1 := by
  have hm := mainPhase_inv hch views w q
  simp only [handle]
  split
  · next k hk =>
    have he := excPhase_inv hch views w q k
    refine ⟨?_, ?_, ?_, ?_⟩
    · apply okFrom_append hm.good
      simp only [okFrom, okStep, Bool.true_and]
      exact okFrom_of_none he.good
    · show truthful w.pol (_ ++ _ :: _) = true
      rw [truthful_append]
      simp only [truthful, List.all_cons, truthfulEv, Bool.true_and, Bool.and_eq_true]
      exact ⟨hm.tru, he.tru⟩
    · apply hm.src.append
      intro tag exc c g hmem
      rcases List.mem_cons.mp hmem with h | h
      · cases h
      · exact he.src tag exc c g h
    · apply hm.asked.append
      intro c p a hmem
      rcases List.mem_cons.mp hmem with h | h
      · cases h
      · exact he.asked c p a h
  · exact ⟨hm.good, hm.tru, hm.src, hm.asked⟩

/-- how `handle` is put together: the main phase, and — when it raised — the marker and the exception phase for
exactly the raised kind -/
theorem handle_eq (ch : List Layer) (views : List DView) (w : World) (q : Req) :
    (∃ k, (mainPhase ch views w q).2 = .raised k ∧
      handle ch views w q =
        ((mainPhase ch views w q).1 ++ .mainRaised k :: (excPhase ch views w q k).1, (excPhase ch views w q k).2)) ∨
    ((∀ k, (mainPhase ch views w q).2 ≠ .raised k) ∧ handle ch views w q = mainPhase ch views w q) := by
  simp only [handle]
  split
  · next k hk => exact Or.inl ⟨k, hk, rfl⟩
  · next hne => exact Or.inr ⟨fun k hk => hne k hk, rfl⟩

end Pyr.Security
