import PyramidModel.TopoSort
/-! Helper lemmas for C18: the Kahn loop of `TopologicalSorter.sorted` (invariant, termination, outcome). -/
namespace Pyr.Topo

/-- `a` occurs strictly before an occurrence of `b` in `l` -/
def Precedes (a b : Nat) (l : List Nat) : Prop := ∃ l1 l2, l = l1 ++ b :: l2 ∧ a ∈ l1

theorem Precedes.append_right {a b : Nat} {l : List Nat} (h : Precedes a b l) (m : List Nat) :
    Precedes a b (l ++ m) := by
  obtain ⟨l1, l2, rfl, ha⟩ := h
  exact ⟨l1, l2 ++ m, by simp, ha⟩

theorem precedes_snoc {a b : Nat} {l : List Nat} (ha : a ∈ l) : Precedes a b (l ++ [b]) :=
  ⟨l, [], rfl, ha⟩

/-! ### the `for child in children` loop -/

theorem processChildren_spec (cs : List Nat) :
    ∀ (roots : List Nat) (indeg : Nat → Nat), (∀ c ∈ cs, cs.count c ≤ indeg c) →
      (∀ v, (processChildren cs (roots, indeg)).2 v = indeg v - cs.count v) ∧
      (∀ v, v ∈ (processChildren cs (roots, indeg)).1 ↔ v ∈ roots ∨ (v ∈ cs ∧ indeg v = cs.count v)) ∧
      (roots.Nodup → (∀ c ∈ cs, c ∉ roots) → (processChildren cs (roots, indeg)).1.Nodup) := by
  induction cs with
  | nil => intro roots indeg _; simp [processChildren]
  | cons c cs ih =>
    intro roots indeg hpos
    have hc : cs.count c + 1 ≤ indeg c := by
      have := hpos c List.mem_cons_self
      simpa [List.count_cons_self] using this
    have hpos' : ∀ d ∈ cs, cs.count d ≤ upd indeg c (indeg c - 1) d := by
      intro d hd
      by_cases hdc : d = c
      · subst hdc; simp only [upd, if_true]; omega
      · have := hpos d (List.mem_cons_of_mem _ hd)
        simp only [upd, hdc, if_false]
        rw [List.count_cons_of_ne (Ne.symm hdc)] at this
        exact this
    simp only [processChildren]
    obtain ⟨h1, h2, h3⟩ := ih (if indeg c - 1 = 0 then c :: roots else roots) (upd indeg c (indeg c - 1)) hpos'
    refine ⟨?_, ?_, ?_⟩
    · intro v
      rw [h1 v]
      by_cases hv : v = c
      · subst hv; simp only [upd, if_true, List.count_cons_self]; omega
      · simp only [upd, hv, if_false]; rw [List.count_cons_of_ne (Ne.symm hv)]
    · intro v
      rw [h2 v]
      by_cases hv : v = c
      · subst hv
        simp only [upd, if_true, List.count_cons_self, List.mem_cons, true_or, true_and]
        constructor
        · rintro (h | ⟨_, h⟩)
          · split at h
            · right; rename_i hk
              have : cs.count v = 0 := by omega
              omega
            · left; exact h
          · right; omega
        · rintro (h | h)
          · left; split
            · exact List.mem_cons_of_mem _ h
            · exact h
          · by_cases hz : cs.count v = 0
            · left
              have : indeg v - 1 = 0 := by omega
              simp [this]
            · right
              exact ⟨List.count_pos_iff.mp (by omega), by omega⟩
      · simp only [upd, hv, if_false, List.mem_cons, false_or]
        rw [List.count_cons_of_ne (Ne.symm hv)]
        constructor
        · rintro (h | h)
          · split at h
            · simp only [List.mem_cons] at h
              rcases h with h | h
              · exact absurd h hv
              · left; exact h
            · left; exact h
          · right; exact h
        · rintro (h | h)
          · left; split
            · exact List.mem_cons_of_mem _ h
            · exact h
          · right; exact h
    · intro hnd hdis
      apply h3
      · split
        · exact List.nodup_cons.mpr ⟨hdis c List.mem_cons_self, hnd⟩
        · exact hnd
      · intro d hd
        have hdr := hdis d (List.mem_cons_of_mem _ hd)
        split
        · rename_i hk
          simp only [List.mem_cons, not_or]
          refine ⟨?_, hdr⟩
          intro hdc; subst hdc
          have h0 : cs.count d = 0 := by omega
          have hp := List.count_pos_iff.mpr hd
          omega
        · exact hdr

/-! ### the loop invariant -/

/-- number of arcs entering `v` from a node that is still in the graph -/
def liveIn (E : List (Nat × Nat)) (alive : List Nat) (v : Nat) : Nat :=
  E.countP fun e => e.2 == v && alive.contains e.1

structure KInv (V : List Nat) (E : List (Nat × Nat)) (st : KState) : Prop where
  perm : (st.out ++ st.alive).Perm V
  roots_iff : ∀ v, v ∈ st.roots ↔ (v ∈ st.alive ∧ st.indeg v = 0)
  roots_nodup : st.roots.Nodup
  indeg_eq : ∀ v ∈ st.alive, st.indeg v = liveIn E st.alive v
  ordered : ∀ e ∈ E, e.2 ∈ st.out → Precedes e.1 e.2 st.out

theorem countP_split {α : Type} (l : List α) (p p1 p2 : α → Bool)
    (h : ∀ x ∈ l, p x = (p1 x || p2 x) ∧ ¬ (p1 x = true ∧ p2 x = true)) :
    l.countP p = l.countP p1 + l.countP p2 := by
  induction l with
  | nil => simp
  | cons x l ih =>
    have hx := h x List.mem_cons_self
    have ih' := ih fun y hy => h y (List.mem_cons_of_mem _ hy)
    simp only [List.countP_cons, ih', hx.1]
    cases h1 : p1 x <;> cases h2 : p2 x <;> simp_all <;> omega

/-- arcs from `r` to `v`, counted -/
def arcCount (E : List (Nat × Nat)) (r v : Nat) : Nat := E.countP fun e => e.2 == v && e.1 == r

theorem count_childrenOf (E : List (Nat × Nat)) (r v : Nat) :
    (childrenOf E r).count v = arcCount E r v := by
  induction E with
  | nil => simp [childrenOf, arcCount]
  | cons e E ih =>
    simp only [childrenOf, arcCount, List.filter_cons, List.countP_cons] at ih ⊢
    by_cases h1 : e.1 = r
    · by_cases h2 : e.2 = v
      · simp [h1, h2, ih]
      · simp only [h1, decide_true, if_true, List.map_cons]
        rw [List.count_cons_of_ne h2]
        simp [h2, ih]
    · simp [h1, ih]

theorem liveIn_erase (E : List (Nat × Nat)) (alive : List Nat) (hnd : alive.Nodup) (r : Nat)
    (hr : r ∈ alive) (v : Nat) :
    liveIn E alive v = liveIn E (alive.erase r) v + arcCount E r v := by
  apply countP_split
  intro e _
  have hmem : ∀ x, x ∈ alive.erase r ↔ (x ≠ r ∧ x ∈ alive) := fun x => hnd.mem_erase_iff
  by_cases h2 : e.2 = v <;> by_cases h1 : e.1 = r
  · have : e.1 ∉ alive.erase r := by rw [hmem]; simp [h1]
    simp [h1, h2, hr, this]
    simpa [h1] using this
  · by_cases ha : e.1 ∈ alive
    · have : e.1 ∈ alive.erase r := (hmem _).mpr ⟨h1, ha⟩
      simp [h1, h2, ha, this]
    · have : e.1 ∉ alive.erase r := fun hh => ha ((hmem _).mp hh).2
      simp [h1, h2, ha, this]
  · have : (e.2 == v) = false := by simpa using h2
    simp [this]
  · have : (e.2 == v) = false := by simpa using h2
    simp [this]

theorem kahn_step_inv {V : List Nat} {E : List (Nat × Nat)} (hV : V.Nodup)
    (hE : ∀ e ∈ E, e.1 ∈ V ∧ e.2 ∈ V) {st : KState} (inv : KInv V E st) {r : Nat} {rs : List Nat}
    (hroots : st.roots = r :: rs) :
    KInv V E { roots := (processChildren (childrenOf E r) (rs, st.indeg)).1,
               alive := st.alive.erase r,
               indeg := (processChildren (childrenOf E r) (rs, st.indeg)).2,
               out := st.out ++ [r] } := by
  have hr_root : r ∈ st.roots := by rw [hroots]; exact List.mem_cons_self
  obtain ⟨hr_alive, hr_zero⟩ := (inv.roots_iff r).mp hr_root
  have hnd_all : (st.out ++ st.alive).Nodup := inv.perm.nodup_iff.mpr hV
  have hnd_alive : st.alive.Nodup := (List.nodup_append.mp hnd_all).2.1
  have hr_out : r ∉ st.out := by
    intro h
    exact (List.nodup_append.mp hnd_all).2.2 r h r hr_alive rfl
  have hrs_nodup : rs.Nodup := by
    have := inv.roots_nodup; rw [hroots] at this; exact (List.nodup_cons.mp this).2
  have hr_rs : r ∉ rs := by
    have := inv.roots_nodup; rw [hroots] at this; exact (List.nodup_cons.mp this).1
  -- no arc enters r from a live node
  have hno_in : ∀ e ∈ E, e.2 = r → e.1 ∉ st.alive := by
    intro e he h2 h1
    have := inv.indeg_eq r hr_alive
    rw [hr_zero, liveIn] at this
    have hz := List.countP_eq_zero.mp this.symm e he
    simp [h2, h1] at hz
  have hr_not_child : r ∉ childrenOf E r := by
    intro h
    simp only [childrenOf, List.mem_map, List.mem_filter] at h
    obtain ⟨e, ⟨he, h1⟩, h2⟩ := h
    have h1' : e.1 = r := by simpa using h1
    exact hno_in e he h2 (h1' ▸ hr_alive)
  -- every child is alive and its stored in-degree covers the arcs from r
  have hchild_alive : ∀ c ∈ childrenOf E r, c ∈ st.alive := by
    intro c hc
    simp only [childrenOf, List.mem_map, List.mem_filter] at hc
    obtain ⟨e, ⟨he, h1⟩, h2⟩ := hc
    have h1' : e.1 = r := by simpa using h1
    have hcV : c ∈ V := h2 ▸ (hE e he).2
    have : c ∈ st.out ++ st.alive := inv.perm.mem_iff.mpr hcV
    rcases List.mem_append.mp this with h | h
    · -- c already output: then r = e.1 precedes it in out, contradiction with r ∉ out
      have := inv.ordered e he (h2 ▸ h)
      obtain ⟨l1, l2, hl, ha⟩ := this
      exact absurd (hl ▸ List.mem_append_left _ (h1' ▸ ha)) hr_out
    · exact h
  have hpos : ∀ c ∈ childrenOf E r, (childrenOf E r).count c ≤ st.indeg c := by
    intro c hc
    rw [inv.indeg_eq c (hchild_alive c hc), count_childrenOf, liveIn_erase E st.alive hnd_alive r hr_alive c]
    omega
  obtain ⟨p2, p1, p3⟩ := processChildren_spec (childrenOf E r) rs st.indeg hpos
  have hmem_erase : ∀ v, v ∈ st.alive.erase r ↔ (v ≠ r ∧ v ∈ st.alive) := fun v => hnd_alive.mem_erase_iff
  refine ⟨?_, ?_, ?_, ?_, ?_⟩
  · -- perm
    have h1 : (st.out ++ [r] ++ st.alive.erase r).Perm (st.out ++ (r :: st.alive.erase r)) := by
      simp
    have h2 : (r :: st.alive.erase r).Perm st.alive := (List.perm_cons_erase hr_alive).symm
    exact (h1.trans (List.Perm.append_left _ h2)).trans inv.perm
  · -- roots_iff
    intro v
    show v ∈ (processChildren (childrenOf E r) (rs, st.indeg)).1 ↔
      (v ∈ st.alive.erase r ∧ (processChildren (childrenOf E r) (rs, st.indeg)).2 v = 0)
    rw [p1 v, p2 v, hmem_erase v]
    have hroot_v : v ∈ rs ↔ (v ≠ r ∧ v ∈ st.alive ∧ st.indeg v = 0) := by
      have := inv.roots_iff v
      rw [hroots, List.mem_cons] at this
      constructor
      · intro h
        have hne : v ≠ r := fun hh => hr_rs (hh ▸ h)
        exact ⟨hne, this.mp (Or.inr h)⟩
      · rintro ⟨hne, h⟩
        rcases this.mpr h with hh | hh
        · exact absurd hh hne
        · exact hh
    constructor
    · rintro (h | ⟨hc, hcnt⟩)
      · obtain ⟨hne, ha, hz⟩ := hroot_v.mp h
        exact ⟨⟨hne, ha⟩, by omega⟩
      · have hne : v ≠ r := fun hh => hr_not_child (hh ▸ hc)
        exact ⟨⟨hne, hchild_alive v hc⟩, by omega⟩
    · rintro ⟨⟨hne, ha⟩, hz⟩
      by_cases hc : v ∈ childrenOf E r
      · right
        refine ⟨hc, ?_⟩
        have := hpos v hc
        omega
      · left
        have : (childrenOf E r).count v = 0 := List.count_eq_zero.mpr hc
        exact hroot_v.mpr ⟨hne, ha, by omega⟩
  · -- roots nodup
    apply p3 hrs_nodup
    intro c hc hcr
    have hcroot : c ∈ st.roots := by rw [hroots]; exact List.mem_cons_of_mem _ hcr
    have hz := ((inv.roots_iff c).mp hcroot).2
    have := hpos c hc
    have hcpos : 0 < (childrenOf E r).count c := List.count_pos_iff.mpr hc
    omega
  · -- indeg_eq
    intro v hv
    show (processChildren (childrenOf E r) (rs, st.indeg)).2 v = liveIn E (st.alive.erase r) v
    have hva : v ∈ st.alive := ((hmem_erase v).mp hv).2
    rw [p2 v, inv.indeg_eq v hva, count_childrenOf, liveIn_erase E st.alive hnd_alive r hr_alive v]
    omega
  · -- ordered
    intro e he h2
    show Precedes e.1 e.2 (st.out ++ [r])
    rcases List.mem_append.mp h2 with h | h
    · exact (inv.ordered e he h).append_right _
    · have h2r : e.2 = r := by simpa using h
      have hna := hno_in e he h2r
      have h1V : e.1 ∈ V := (hE e he).1
      have : e.1 ∈ st.out ++ st.alive := inv.perm.mem_iff.mpr h1V
      rcases List.mem_append.mp this with hh | hh
      · rw [h2r]; exact precedes_snoc hh
      · exact absurd hh hna

theorem kahn_inv {V : List Nat} {E : List (Nat × Nat)} (hV : V.Nodup)
    (hE : ∀ e ∈ E, e.1 ∈ V ∧ e.2 ∈ V) (fuel : Nat) :
    ∀ st, KInv V E st → st.alive.length ≤ fuel →
      KInv V E (kahn E fuel st) ∧ (kahn E fuel st).roots = [] := by
  induction fuel with
  | zero =>
    intro st inv hlen
    simp only [kahn]
    refine ⟨inv, ?_⟩
    have : st.alive = [] := List.length_eq_zero_iff.mp (by omega)
    cases hr : st.roots with
    | nil => rfl
    | cons r rs =>
      have := ((inv.roots_iff r).mp (by rw [hr]; exact List.mem_cons_self)).1
      rw [‹st.alive = []›] at this; exact absurd this List.not_mem_nil
  | succ fuel ih =>
    intro st inv hlen
    simp only [kahn]
    cases hr : st.roots with
    | nil => exact ⟨inv, hr⟩
    | cons r rs =>
      simp only
      have hra := ((inv.roots_iff r).mp (by rw [hr]; exact List.mem_cons_self)).1
      apply ih _ (kahn_step_inv hV hE inv hr)
      simp only [List.length_erase_of_mem hra]
      have : 0 < st.alive.length := List.length_pos_of_mem hra
      omega

theorem initState_inv {V : List Nat} {E : List (Nat × Nat)} (hV : V.Nodup)
    (hE : ∀ e ∈ E, e.1 ∈ V ∧ e.2 ∈ V) : KInv V E (initState V E) := by
  refine ⟨by simp [initState], ?_, ?_, ?_, ?_⟩
  · intro v
    simp only [initState, List.mem_filter, Bool.not_eq_eq_eq_not, Bool.not_true, List.any_eq_false,
      decide_eq_true_eq, List.length_eq_zero_iff, List.filter_eq_nil_iff]
  · exact hV.filter _
  · intro v _
    simp only [initState, liveIn]
    rw [← List.countP_eq_length_filter]
    apply List.countP_congr
    intro e he
    simp [(hE e he).1]
  · intro e _ h; simp [initState] at h

/-- Outcome of the loop from the initial state: it stops with no roots; what was output precedes
correctly; whatever is left has an incoming arc from something that is left. -/
theorem kahn_outcome {V : List Nat} {E : List (Nat × Nat)} (hV : V.Nodup)
    (hE : ∀ e ∈ E, e.1 ∈ V ∧ e.2 ∈ V) :
    let fin := kahn E V.length (initState V E)
    (fin.out ++ fin.alive).Perm V ∧
    (∀ e ∈ E, e.2 ∈ fin.out → Precedes e.1 e.2 fin.out) ∧
    (∀ v ∈ fin.alive, ∃ e ∈ E, e.2 = v ∧ e.1 ∈ fin.alive) := by
  intro fin
  obtain ⟨inv, hroots⟩ := kahn_inv hV hE V.length (initState V E) (initState_inv hV hE) (by simp [initState])
  refine ⟨inv.perm, inv.ordered, ?_⟩
  intro v hv
  have hnz : fin.indeg v ≠ 0 := by
    intro hz
    have : v ∈ fin.roots := (inv.roots_iff v).mpr ⟨hv, hz⟩
    rw [hroots] at this; exact absurd this List.not_mem_nil
  have := inv.indeg_eq v hv
  rw [this, liveIn] at hnz
  obtain ⟨e, he, hp⟩ := List.countP_pos_iff.mp (Nat.pos_of_ne_zero hnz)
  simp only [Bool.and_eq_true, beq_iff_eq, List.contains_eq_mem, decide_eq_true_eq] at hp
  exact ⟨e, he, hp.1, hp.2⟩

theorem split_unique (v : Nat) : ∀ (l1 m1 l2 m2 : List Nat),
    l1 ++ v :: l2 = m1 ++ v :: m2 → v ∉ l1 → v ∉ m1 → l1 = m1 := by
  intro l1
  induction l1 with
  | nil =>
    intro m1 l2 m2 h _ hm
    cases m1 with
    | nil => rfl
    | cons y m1 =>
      simp only [List.nil_append, List.cons_append, List.cons.injEq] at h
      exact absurd (h.1 ▸ List.mem_cons_self) hm
  | cons x l1 ih =>
    intro m1 l2 m2 h hl hm
    cases m1 with
    | nil =>
      simp only [List.nil_append, List.cons_append, List.cons.injEq] at h
      exact absurd (h.1 ▸ List.mem_cons_self) hl
    | cons y m1 =>
      simp only [List.cons_append, List.cons.injEq] at h
      rw [h.1, ih m1 l2 m2 h.2 (fun hh => hl (List.mem_cons_of_mem _ hh))
        (fun hh => hm (List.mem_cons_of_mem _ hh))]

/-- `l` is a topological order of the graph `(V, E)` -/
def TopoOrder (V : List Nat) (E : List (Nat × Nat)) (l : List Nat) : Prop :=
  l.Perm V ∧ ∀ e ∈ E, Precedes e.1 e.2 l

/-- A non-empty set of nodes each of which has an incoming arc from the set (what the loop leaves
behind) rules out every topological order: the constraints are cyclic. -/
theorem no_topo_of_closed {V : List Nat} {E : List (Nat × Nat)} (S : List Nat) (hS : S ≠ [])
    (hSV : ∀ v ∈ S, v ∈ V) (hclosed : ∀ v ∈ S, ∃ e ∈ E, e.2 = v ∧ e.1 ∈ S) (hV : V.Nodup) :
    ¬ ∃ l, TopoOrder V E l := by
  rintro ⟨l, hperm, hord⟩
  have hl_nd : l.Nodup := hperm.nodup_iff.mpr hV
  -- the first element of l that belongs to S
  obtain ⟨s0, hs0⟩ := List.exists_mem_of_ne_nil _ hS
  have hs0l : s0 ∈ l := hperm.mem_iff.mpr (hSV s0 hs0)
  cases hf : l.find? (fun x => decide (x ∈ S)) with
  | none =>
    have := List.find?_eq_none.mp hf s0 hs0l
    simp [hs0] at this
  | some v =>
    have hvS : v ∈ S := by simpa using List.find?_some hf
    obtain ⟨e, he, h2, h1⟩ := hclosed v hvS
    obtain ⟨l1, l2, hl, ha⟩ := hord e he
    rw [h2] at hl
    -- everything before the found element is outside S
    obtain ⟨m1, m2, hm, hbefore⟩ := List.find?_eq_some_iff_append.mp hf |>.2
    -- both decompositions split l at its unique occurrence of v
    have : l1 = m1 := by
      have hnd1 : v ∉ l1 := by
        intro hv
        have : (l1 ++ v :: l2).Nodup := hl ▸ hl_nd
        have := (List.nodup_append.mp this).2.2 v hv v List.mem_cons_self
        exact this rfl
      have hnd2 : v ∉ m1 := by
        intro hv
        have : (m1 ++ v :: m2).Nodup := hm ▸ hl_nd
        have := (List.nodup_append.mp this).2.2 v hv v List.mem_cons_self
        exact this rfl
      exact split_unique v l1 m1 l2 m2 (hl.symm.trans hm) hnd1 hnd2
    subst this
    have := hbefore e.1 ha
    simp [h1] at this

end Pyr.Topo
