import PyramidModel.Lemmas.Prefix
/-! X08 helper lemmas: configuration programs — the prefix attribute is restored, and state-threading execution is the
lexically scoped reading. -/
namespace Pyr.Prefix

/-- whether a leaf raises does not depend on the registry state -/
theorem leaf_err_indep (cur : Pfx) (st st' : St) (s : Stmt) : (leaf cur st s).2 = (leaf cur st' s).2 := by
  cases s <;> simp only [leaf]
  · split <;> rfl
  · split <;> rfl

mutual
theorem exec_cur (cur : Pfx) (st : St) : ∀ s, (exec cur st s).1 = cur
  | .ctx _ _ => by simp [exec]
  | .inc _ _ => by simp [exec]
  | .try_ body => by simp only [exec]; exact execL_cur cur st body
  | .route _ _ _ _ => by simp [exec]
  | .static _ => by simp [exec]
  | .raise => by simp [exec]
  | .probe => by simp [exec]
theorem execL_cur (cur : Pfx) (st : St) : ∀ l, (execL cur st l).1 = cur
  | [] => by simp [execL]
  | s :: ss => by
    simp only [execL]
    split
    · exact exec_cur cur st s
    · rw [exec_cur cur st s]; exact execL_cur cur _ ss
end

theorem replay_append (top : Pfx) : ∀ (xs ys : List Scoped) (st : St),
    replay top st (xs ++ ys) = replay top (replay top st xs) ys
  | [], _, _ => rfl
  | (_, _) :: rest, ys, st => by simp only [List.cons_append, replay]; exact replay_append top rest ys _

/-- a statement that is a leaf: not a block -/
def Stmt.isLeaf : Stmt → Bool
  | .ctx _ _ | .inc _ _ | .try_ _ => false
  | _ => true

mutual
theorem exec_trace (top : Pfx) (stack : List Pfx) (st : St) : ∀ s,
    (exec (prefixAt top stack) st s).2.1 = replay top st (trace (leafFails top) stack s).1 ∧
    (exec (prefixAt top stack) st s).2.2.isSome = (trace (leafFails top) stack s).2
  | .ctx p body => by
    simp only [exec, trace]
    rw [← prefixAt_append]
    exact execL_trace top (stack ++ [p]) st body
  | .inc p body => by
    simp only [exec, trace]
    rw [← prefixAt_append]
    exact execL_trace top (stack ++ [p]) st body
  | .try_ body => by
    simp only [exec, trace]
    exact ⟨(execL_trace top stack st body).1, rfl⟩
  | .route n p i s => by
    simp only [exec, trace, replay, leafFails, true_and]
    rw [leaf_err_indep _ st {}]
  | .static n => by
    simp only [exec, trace, replay, leafFails, true_and]
    rw [leaf_err_indep _ st {}]
  | .raise => by
    simp only [exec, trace, replay, leafFails, true_and]
    rw [leaf_err_indep _ st {}]
  | .probe => by
    simp only [exec, trace, replay, leafFails, true_and]
    rw [leaf_err_indep _ st {}]
theorem execL_trace (top : Pfx) (stack : List Pfx) (st : St) : ∀ l,
    (execL (prefixAt top stack) st l).2.1 = replay top st (traceL (leafFails top) stack l).1 ∧
    (execL (prefixAt top stack) st l).2.2.isSome = (traceL (leafFails top) stack l).2
  | [] => by simp [execL, traceL, replay]
  | s :: ss => by
    have h := exec_trace top stack st s
    have hc := exec_cur (prefixAt top stack) st s
    simp only [execL, traceL]
    cases he : (exec (prefixAt top stack) st s).2.2 with
    | some e =>
      have ht : (trace (leafFails top) stack s).2 = true := by rw [← h.2, he]; rfl
      simp only [ht, ite_true]
      exact ⟨h.1, by simp⟩
    | none =>
      have ht : (trace (leafFails top) stack s).2 = false := by rw [← h.2, he]; rfl
      simp only [ht, Bool.false_eq_true, ite_false]
      rw [hc]
      have h2 := execL_trace top stack (exec (prefixAt top stack) st s).2.1 ss
      rw [replay_append, ← h.1]
      exact h2
end

end Pyr.Prefix
