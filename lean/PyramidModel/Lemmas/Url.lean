import PyramidModel.Lemmas.PctCode
import PyramidModel.Lemmas.Traversal
import PyramidModel.Url
/-
Helper lemmas for C17, part 1: the standard parser (`cut`, `urlsplit`) on text assembled as
`scheme://authority` + path + `?query` + `#fragment`.
-/
namespace Pyr.Url
open Pyr Pyr.Trav Pyr.Pct

theorem char_eq_iff (c d : Char) : c = d ↔ c.toNat = d.toNat :=
  ⟨fun h => by rw [h], fun h => Char.toNat_inj.mp h⟩

/-! ### `cut` -/

theorem cut_no_sep (sep : Char) (a : Text) (h : sep ∉ a) : cut sep a = (a, none) := by
  induction a with
  | nil => rfl
  | cons c r ih =>
    have hc : c ≠ sep := fun e => h (by simp [e])
    have := ih (fun m => h (by simp [m]))
    simp [cut, hc, this]

theorem cut_append_sep (sep : Char) (a b : Text) (h : sep ∉ a) : cut sep (a ++ sep :: b) = (a, some b) := by
  induction a with
  | nil => simp [cut]
  | cons c r ih =>
    have hc : c ≠ sep := fun e => h (by simp [e])
    have := ih (fun m => h (by simp [m]))
    simp [cut, hc, this]

/-- optional component with its delimiter: `'' ` or `delim + text` -/
def optPre (d : Char) : Option Text → Text
  | none => []
  | some t => d :: t

theorem cut_optPre (sep : Char) (a : Text) (o : Option Text) (h : sep ∉ a) :
    cut sep (a ++ optPre sep o) = (a, o) := by
  cases o with
  | none => simpa [optPre] using cut_no_sep sep a h
  | some t => simpa [optPre] using cut_append_sep sep a t h

/-! ### character facts -/

theorem pathC_gt (c : Char) (h : isPathC c = true ∨ c = '%' ∨ isHexC c = true) :
    32 < c.toNat ∧ c ≠ '?' ∧ c ≠ '#' ∧ c ≠ '[' ∧ c ≠ ']' := by
  simp only [isPathC, isPcharC, isUnreservedC, isAlnum, isSubDelim, isHexC, Bool.or_eq_true, Bool.and_eq_true,
    decide_eq_true_eq, char_eq_iff, Char.reduceToNat, ne_eq] at h ⊢
  omega

theorem queryC_gt (c : Char) (h : isQueryC c = true ∨ c = '%' ∨ isHexC c = true) :
    32 < c.toNat ∧ c ≠ '#' ∧ c ≠ '[' ∧ c ≠ ']' := by
  simp only [isQueryC, isPcharC, isUnreservedC, isAlnum, isSubDelim, isHexC, Bool.or_eq_true, Bool.and_eq_true,
    decide_eq_true_eq, char_eq_iff, Char.reduceToNat, ne_eq] at h ⊢
  omega

theorem schemeChar_facts (c : Char) (h : isSchemeChar c = true) :
    32 < c.toNat ∧ c ≠ ':' ∧ isUrlC c = true := by
  simp only [isSchemeChar, isUrlC, isUnreservedC, isAlnum, isSubDelim, isGenDelim, Bool.or_eq_true, Bool.and_eq_true,
    decide_eq_true_eq, char_eq_iff, Char.reduceToNat, ne_eq] at h ⊢
  omega

theorem pathC_urlC (c : Char) (h : isPathC c = true ∨ c = '%' ∨ isHexC c = true) : isUrlC c = true := by
  simp only [isPathC, isPcharC, isUrlC, isUnreservedC, isAlnum, isSubDelim, isGenDelim, isHexC, Bool.or_eq_true,
    Bool.and_eq_true, decide_eq_true_eq, char_eq_iff, Char.reduceToNat] at h ⊢
  omega

theorem queryC_urlC (c : Char) (h : isQueryC c = true ∨ c = '%' ∨ isHexC c = true) : isUrlC c = true := by
  simp only [isQueryC, isPcharC, isUrlC, isUnreservedC, isAlnum, isSubDelim, isGenDelim, isHexC, Bool.or_eq_true,
    Bool.and_eq_true, decide_eq_true_eq, char_eq_iff, Char.reduceToNat] at h ⊢
  omega

theorem urlC_gt (c : Char) (h : isUrlC c = true) : 32 < c.toNat := by
  simp only [isUrlC, isUnreservedC, isAlnum, isSubDelim, isGenDelim, Bool.or_eq_true, Bool.and_eq_true,
    decide_eq_true_eq, char_eq_iff, Char.reduceToNat] at h
  omega

theorem pathC_queryC (c : Char) (h : isPathC c = true) : isQueryC c = true := by
  simp only [isPathC, isQueryC, Bool.or_eq_true] at h ⊢
  rcases h with h | h
  · exact .inl (.inl h)
  · exact .inl (.inr h)

/-! ### the shape `scheme://authority` the parser recognises -/

/-- a scheme `urlsplit` accepts (ASCII letter first, then letters, digits, `+ - .`) and an authority without
`/ ? #`, made of URL characters, that passes the parser's bracket rules (`netlocOk`) -/
structure OriginOk (sch auth : Text) : Prop where
  first : startsAlpha sch = true
  schemeChars : sch.all isSchemeChar = true
  authChars : ∀ c ∈ auth, isUrlC c = true ∧ notNetlocDelim c = true
  brackets : netlocOk auth = true

/-- a path text: empty or starting with `/`, and obeying the grammar `( pchar | "/" | pct-encoded )*` -/
structure BodyOk (body : Text) : Prop where
  lead : body = [] ∨ ∃ r, body = '/' :: r
  wf : pctWF isPathC body = true

theorem strip_id (u : Text) (h : ∀ c ∈ u, 32 < c.toNat) :
    (u.dropWhile isC0OrSpace).filter (fun c => !isTabNl c) = u := by
  have h1 : u.dropWhile isC0OrSpace = u := by
    cases u with
    | nil => rfl
    | cons c r =>
      have := h c (by simp)
      have hc : isC0OrSpace c = false := by simp [isC0OrSpace]; omega
      simp [List.dropWhile, hc]
  rw [h1]
  apply List.filter_eq_self.mpr
  intro c hc
  have := h c hc
  simp only [isTabNl, Bool.not_eq_true', Bool.or_eq_false_iff, decide_eq_false_iff_not, char_eq_iff, Char.reduceToNat]
  omega

theorem takeWhile_stop (p : Char → Bool) (a rest : Text) (ha : ∀ c ∈ a, p c = true)
    (hr : rest = [] ∨ ∃ d r, rest = d :: r ∧ p d = false) :
    (a ++ rest).takeWhile p = a ∧ (a ++ rest).dropWhile p = rest := by
  induction a with
  | nil =>
    rcases hr with e | ⟨d, r, e, hd⟩
    · subst e; simp
    · subst e; simp [hd]
  | cons c r ih =>
    have hc := ha c (by simp)
    have := ih (fun d hd => ha d (by simp [hd]))
    simp [hc, this.1, this.2]

/-- **the parser on an assembled URL**: for a recognised `scheme://authority`, a path text, an optional query
without `#` and an optional fragment, `urlsplit` returns exactly those five components. -/
theorem urlsplit_assembled (sch auth body : Text) (q f : Option Text)
    (ho : OriginOk sch auth) (hb : BodyOk body)
    (hq : ∀ t, q = some t → ∀ c ∈ t, 32 < c.toNat ∧ c ≠ '#')
    (hf : ∀ t, f = some t → ∀ c ∈ t, 32 < c.toNat) :
    urlsplit (sch ++ colonSlashSlash ++ auth ++ body ++ optPre '?' q ++ optPre '#' f)
      = some ⟨sch.map lowerC, auth, body, q.getD [], f.getD []⟩ := by
  have hbody : ∀ c ∈ body, 32 < c.toNat ∧ c ≠ '?' ∧ c ≠ '#' ∧ c ≠ '[' ∧ c ≠ ']' :=
    fun c hc => pathC_gt c (mem_of_pctWF _ _ hb.wf c hc)
  have hsch : ∀ c ∈ sch, 32 < c.toNat ∧ c ≠ ':' ∧ isUrlC c = true :=
    fun c hc => schemeChar_facts c (List.all_eq_true.mp ho.schemeChars c hc)
  -- 0. nothing is stripped
  have hall : ∀ c ∈ sch ++ colonSlashSlash ++ auth ++ body ++ optPre '?' q ++ optPre '#' f, 32 < c.toNat := by
    intro c hc
    simp only [List.mem_append] at hc
    rcases hc with ((((hc | hc) | hc) | hc) | hc) | hc
    · exact (hsch c hc).1
    · simp [colonSlashSlash] at hc; rcases hc with e | e <;> subst e <;> decide
    · exact urlC_gt c (ho.authChars c hc).1
    · exact (hbody c hc).1
    · cases q with
      | none => simp [optPre] at hc
      | some t =>
        simp only [optPre, List.mem_cons] at hc
        rcases hc with e | m
        · subst e; decide
        · exact (hq t rfl c m).1
    · cases f with
      | none => simp [optPre] at hc
      | some t =>
        simp only [optPre, List.mem_cons] at hc
        rcases hc with e | m
        · subst e; decide
        · exact hf t rfl c m
  unfold urlsplit
  simp only [strip_id _ hall]
  -- 1. the scheme
  have hcolon : ':' ∉ sch := fun m => (hsch ':' m).2.1 rfl
  have e1 : sch ++ colonSlashSlash ++ auth ++ body ++ optPre '?' q ++ optPre '#' f
      = sch ++ ':' :: ('/' :: '/' :: (auth ++ (body ++ optPre '?' q ++ optPre '#' f))) := by
    simp [colonSlashSlash, List.append_assoc]
  have hs : splitScheme (sch ++ colonSlashSlash ++ auth ++ body ++ optPre '?' q ++ optPre '#' f)
      = (sch.map lowerC, '/' :: '/' :: (auth ++ (body ++ optPre '?' q ++ optPre '#' f))) := by
    unfold splitScheme
    rw [e1, cut_append_sep ':' sch _ hcolon]
    simp only [ho.first, ho.schemeChars, Bool.and_self, if_true]
  simp only [hs]
  -- 2. the netloc
  have hrest : (body ++ optPre '?' q ++ optPre '#' f) = [] ∨
      ∃ d r, (body ++ optPre '?' q ++ optPre '#' f) = d :: r ∧ notNetlocDelim d = false := by
    rcases hb.lead with e | ⟨r, e⟩
    · subst e
      cases q with
      | some t => exact .inr ⟨'?', t ++ optPre '#' f, by simp [optPre], by decide⟩
      | none =>
        cases f with
        | some t => exact .inr ⟨'#', t, by simp [optPre], by decide⟩
        | none => exact .inl (by simp [optPre])
    · subst e
      exact .inr ⟨'/', r ++ optPre '?' q ++ optPre '#' f, by simp, by decide⟩
  have hn := takeWhile_stop notNetlocDelim auth _ (fun c hc => (ho.authChars c hc).2) hrest
  simp only [splitNetloc, hn.1, hn.2]
  -- 3. brackets
  simp only [ho.brackets, Bool.not_true, Bool.false_eq_true, if_false]
  -- 4. fragment, 5. query
  have hnohash : '#' ∉ body ++ optPre '?' q := by
    intro m
    rcases List.mem_append.mp m with m | m
    · exact (hbody '#' m).2.2.1 rfl
    · cases q with
      | none => simp [optPre] at m
      | some t =>
        simp only [optPre, List.mem_cons] at m
        rcases m with e | m
        · exact absurd e (by decide)
        · exact (hq t rfl '#' m).2 rfl
  have hnoq : '?' ∉ body := fun m => (hbody '?' m).2.1 rfl
  rw [cut_optPre '#' _ f hnohash]
  simp only [cut_optPre '?' body q hnoq]

end Pyr.Url
