import PyramidModel.Lemmas.Static
/-! Asset overrides in the serving model (C16): what "declared for it" means, well-formedness of the configuration,
and the lemmas behind the extended containment theorem of `Props/C16.lean` §6. -/
namespace Pyr.Static

open Pyr.Trav (Seg Bytes splitOn joinWith splitPathInfo decodePathInfo splitOn_append_sep splitOn_joinWith
  mem_splitOn_no_sep splitOn_ne_nil)

/-! ### spec side -/

/-- the directory an override source was declared with (for a file override: see `InOverride`) -/
def Source.home : Source → Text
  | .fs pfx => rstripSlash pfx
  | .pkg base pfx => if rstripSlash pfx = [] then base else base ++ '/' :: rstripSlash pfx

/-- `p` is what override `o` was declared with, or lies strictly inside the directory it was declared with -/
def InOverride (o : Override) (p : Text) : Prop := p = o.src.osPath [] ∨ Under o.src.home p

/-- the root of a package-relative view, also for a package-root spec (`pkg:`, empty docroot) -/
def pkgRoot (v : View) : Text := if rstripSlash v.docroot = [] then v.base else v.base ++ '/' :: rstripSlash v.docroot

def GoodBase (b : Text) : Prop := b ≠ [] ∧ b.getLast? ≠ some '/'

/-- a directory source: a file-system directory spelled with at most one trailing slash, or a package directory
(`pkg:` or `pkg:dir/…/`) -/
def SourceWf : Source → Prop
  | .fs pfx => rstripSlash pfx ≠ [] ∧ (pfx = rstripSlash pfx ∨ pfx = rstripSlash pfx ++ ['/'])
  | .pkg base pfx => GoodBase base ∧
      (pfx = [] ∨ (pfx = rstripSlash pfx ++ ['/'] ∧ ∀ c ∈ splitOn '/' (rstripSlash pfx), c ≠ []))

/-- an override as `override_asset` registers it: the overridden path is relative (`static/`, `static/a.css`, `''`),
and a directory override has a well-formed directory source -/
def OverrideWf (o : Override) : Prop :=
  o.path.head? ≠ some '/' ∧ ((o.path = [] ∨ o.path.getLast? = some '/') → SourceWf o.src)

/-- a package-relative view with overrides: package directory, docroot components, index, extensions -/
def OvWf (w : OvView) : Prop :=
  w.v.pkg = true ∧ GoodBase w.v.base ∧
  (rstripSlash w.v.docroot = [] ∨ ∀ c ∈ splitOn '/' (rstripSlash w.v.docroot), Proper c) ∧
  Proper w.v.index ∧ (∀ e ∈ w.v.encs, ∀ x ∈ e.2, '/' ∉ x ∧ '\x00' ∉ x) ∧ ∀ o ∈ w.ovs, OverrideWf o

instance (b : Text) : Decidable (GoodBase b) := by unfold GoodBase; infer_instance
instance (s : Source) : Decidable (SourceWf s) := by cases s <;> (unfold SourceWf; infer_instance)
instance (o : Override) : Decidable (OverrideWf o) := by unfold OverrideWf; infer_instance
instance (w : OvView) : Decidable (OvWf w) := by unfold OvWf; infer_instance

/-! ### `os.path.join(base, *name.split('/'))` on the names that occur -/

def GoodComps (cs : List Seg) : Prop := ∀ c ∈ cs, c ≠ [] ∧ '/' ∉ c

theorem goodComps_of_proper (cs : List Seg) (h : ∀ c ∈ cs, Proper c) : GoodComps cs :=
  fun c hc => proper_comp (h c hc)

/-- joining below a base that ends with ONE slash (an empty component came before) -/
theorem foldl_pjoin_slash (X : Text) (cs : List Seg) (hX : GoodBase X) (hne : cs ≠ []) (h : GoodComps cs) :
    cs.foldl pjoin (X ++ ['/']) = below X cs := by
  cases cs with
  | nil => exact absurd rfl hne
  | cons c r =>
    obtain ⟨c1, c2⟩ := h c (by simp)
    have hh : c.head? ≠ some '/' := fun e => c2 (List.mem_of_head? e)
    have hstep : pjoin (X ++ ['/']) c = X ++ '/' :: c := by
      simp [pjoin, hh]
    rw [List.foldl_cons, hstep, below_cons]
    have := below_ne_last X [c] hX.1 hX.2 (fun x hx => by simp at hx; subst hx; exact ⟨c1, c2⟩)
    simp only [below_cons, below_nil] at this
    exact foldl_pjoin_below _ _ this.1 this.2 (fun x hx => h x (by simp [hx]))

theorem joinWith_ne_nil (cs : List Seg) (hne : cs ≠ []) (h : GoodComps cs) : joinWith '/' cs ≠ [] :=
  (getLast?_joinWith_ne cs hne h).2

theorem resourceFilename_join (b : Text) (cs : List Seg) (hb : GoodBase b) (hne : cs ≠ []) (h : GoodComps cs) :
    resourceFilename b (joinWith '/' cs) = below b cs := by
  unfold resourceFilename
  simp only [joinWith_ne_nil cs hne h, if_false]
  rw [splitOn_joinWith '/' cs hne (fun s m => (h s m).2)]
  exact foldl_pjoin_below b cs hb.1 hb.2 h

theorem pjoin_nil (b : Text) (hb : GoodBase b) : pjoin b [] = b ++ ['/'] := by
  simp [pjoin, hb.1, hb.2]

/-- a name with a leading slash (`'/index.html'` at a package root) resolves like the name without it -/
theorem resourceFilename_lead (b : Text) (cs : List Seg) (hb : GoodBase b) (hne : cs ≠ []) (h : GoodComps cs) :
    resourceFilename b ('/' :: joinWith '/' cs) = below b cs := by
  unfold resourceFilename
  simp only [List.cons_ne_nil, if_false]
  rw [Pyr.Trav.splitOn_cons_sep, splitOn_joinWith '/' cs hne (fun s m => (h s m).2), List.foldl_cons, pjoin_nil b hb]
  exact foldl_pjoin_slash b cs hb hne h

/-- `prefix/` + name, and `prefix/` + `/name` -/
theorem resourceFilename_prefixed (b : Text) (ds cs : List Seg) (lead : Bool) (hb : GoodBase b) (hd : ds ≠ [])
    (hds : GoodComps ds) (hne : cs ≠ []) (h : GoodComps cs) :
    resourceFilename b (joinWith '/' ds ++ '/' :: ((if lead then ['/'] else []) ++ joinWith '/' cs))
      = below (below b ds) cs := by
  cases lead with
  | false =>
    simp only [Bool.false_eq_true, if_false, List.nil_append]
    rw [← joinWith_append '/' ds cs hd hne, resourceFilename_join b (ds ++ cs) hb (by simp [hd]), below_append]
    intro c hc
    rcases List.mem_append.mp hc with m | m
    · exact hds c m
    · exact h c m
  | true =>
    simp only [if_true, List.cons_append, List.nil_append]
    unfold resourceFilename
    have hn : joinWith '/' ds ++ '/' :: '/' :: joinWith '/' cs ≠ [] := by simp
    simp only [hn, if_false]
    rw [splitOn_append_sep, splitOn_joinWith '/' ds hd (fun s m => (hds s m).2), Pyr.Trav.splitOn_cons_sep,
      splitOn_joinWith '/' cs hne (fun s m => (h s m).2), List.foldl_append, foldl_pjoin_below b ds hb.1 hb.2 hds,
      List.foldl_cons]
    have hX := below_ne_last b ds hb.1 hb.2 hds
    rw [pjoin_nil _ ⟨hX.1, hX.2⟩]
    exact foldl_pjoin_slash _ cs ⟨hX.1, hX.2⟩ hne h

/-! ### what a directory source makes of the rest of a name -/

theorem lstripSlash_join (cs : List Seg) (hne : cs ≠ []) (h : GoodComps cs) (lead : Bool) :
    lstripSlash ((if lead then ['/'] else []) ++ joinWith '/' cs) = joinWith '/' cs := by
  have hh := head?_joinWith cs hne h
  have hnn := joinWith_ne_nil cs hne h
  have key : lstripSlash (joinWith '/' cs) = joinWith '/' cs := by
    cases hj : joinWith '/' cs with
    | nil => exact absurd hj hnn
    | cons c r =>
      rw [hj] at hh
      have : c ≠ '/' := by simpa using hh
      simp [lstripSlash, List.dropWhile_cons, this]
  cases lead with
  | false => simpa using key
  | true =>
    simp only [if_true, List.cons_append, List.nil_append]
    have : lstripSlash ('/' :: joinWith '/' cs) = lstripSlash (joinWith '/' cs) := by
      simp [lstripSlash, List.dropWhile_cons]
    rw [this, key]

/-- what `rstrip('/')` leaves does not end with a slash -/
theorem rstripSlash_last (t : Text) : (rstripSlash t).getLast? ≠ some '/' := by
  unfold rstripSlash
  rw [List.getLast?_reverse]
  have := List.head?_dropWhile_not (fun x => decide (x = '/')) t.reverse
  cases h : (List.dropWhile (fun x => decide (x = '/')) t.reverse).head? with
  | none => simp
  | some x =>
    rw [h] at this
    simp only [decide_eq_false_iff_not] at this
    simpa using this

/-- a well-formed directory source resolves `[/]c₁/…/cₙ` strictly inside its home -/
theorem source_under (s : Source) (hs : SourceWf s) (cs : List Seg) (hne : cs ≠ []) (h : ∀ c ∈ cs, Proper c)
    (lead : Bool) : Under s.home (s.osPath ((if lead then ['/'] else []) ++ joinWith '/' cs)) := by
  have hg := goodComps_of_proper cs h
  have hrest : (if lead then ['/'] else []) ++ joinWith '/' cs ≠ [] := by
    cases lead <;> simp [joinWith_ne_nil cs hne hg]
  cases s with
  | fs pfx =>
    obtain ⟨hn, hform⟩ := hs
    simp only [Source.osPath, hrest, if_false, Source.home]
    rw [lstripSlash_join cs hne hg lead]
    have hhead := head?_joinWith cs hne hg
    have hlast := rstripSlash_last pfx
    generalize rstripSlash pfx = d at hn hform hlast ⊢
    refine ⟨cs, hne, h, ?_⟩
    rcases hform with e | e
    · subst e
      rw [pjoin_rel _ _ hn hlast hhead, below_eq _ _ hne]
    · subst e
      have hp : pjoin (d ++ ['/']) (joinWith '/' cs) = d ++ '/' :: joinWith '/' cs := by
        simp [pjoin, hhead]
      rw [hp, below_eq _ _ hne]
  | pkg base pfx =>
    obtain ⟨hb, hform⟩ := hs
    simp only [Source.osPath, Source.home]
    rcases hform with e | ⟨e, hcomps⟩
    · subst e
      simp only [rstripSlash, List.reverse_nil, List.dropWhile_nil, if_true, List.nil_append]
      refine ⟨cs, hne, h, ?_⟩
      cases lead with
      | false => simpa using resourceFilename_join base cs hb hne hg
      | true => simpa using resourceFilename_lead base cs hb hne hg
    · have hdn : rstripSlash pfx ≠ [] := by
        intro e0
        have := hcomps [] (by rw [e0]; simp [splitOn])
        exact this rfl
      simp only [hdn, if_false]
      have hds : GoodComps (splitOn '/' (rstripSlash pfx)) :=
        fun c hc => ⟨hcomps c hc, mem_splitOn_no_sep '/' _ c hc⟩
      have hdne := splitOn_ne_nil '/' (rstripSlash pfx)
      have hjoin := joinWith_splitOn '/' (rstripSlash pfx)
      refine ⟨cs, hne, h, ?_⟩
      have := resourceFilename_prefixed base (splitOn '/' (rstripSlash pfx)) cs lead hb hdne hds hne hg
      rw [hjoin] at this
      have e2 : pfx ++ ((if lead then ['/'] else []) ++ joinWith '/' cs) =
          rstripSlash pfx ++ '/' :: ((if lead then ['/'] else []) ++ joinWith '/' cs) := by
        conv => lhs; rw [e]
        simp
      rw [e2, this, below_eq base _ hdne, hjoin]

/-! ### the names a package-relative view asks about -/

def leadOf (lead : Bool) : Text := if lead then ['/'] else []

/-- the docroot components of a view (none for a package-root spec) -/
def dcomps (v : View) : List Seg := if rstripSlash v.docroot = [] then [] else splitOn '/' (rstripSlash v.docroot)

theorem dcomps_proper (w : OvView) (hw : OvWf w) : ∀ c ∈ dcomps w.v, Proper c := by
  unfold dcomps
  rcases hw.2.2.1 with h | h
  · simp [h]
  · intro c hc
    split at hc
    · simp at hc
    · exact h c hc

theorem pkgRoot_eq (w : OvView) (hw : OvWf w) : pkgRoot w.v = below w.v.base (dcomps w.v) := by
  unfold pkgRoot dcomps
  by_cases h : rstripSlash w.v.docroot = []
  · simp [h, below]
  · simp only [h, if_false]
    rw [below_eq _ _ (splitOn_ne_nil _ _), joinWith_splitOn]

/-- what an override makes of a good name is inside what the override was declared with -/
theorem apply_inOverride (o : Override) (ho : OverrideWf o) (lead : Bool) (cs : List Seg) (hne : cs ≠ [])
    (h : ∀ c ∈ cs, Proper c) (s : Source) (rest : Text)
    (ha : o.apply (leadOf lead ++ joinWith '/' cs) = some (s, rest)) : InOverride o (s.osPath rest) := by
  have hg := goodComps_of_proper cs h
  unfold Override.apply at ha
  by_cases hdir : o.path = [] ∨ o.path.getLast? = some '/'
  · simp only [hdir, if_true] at ha
    by_cases hpre : o.path.isPrefixOf (leadOf lead ++ joinWith '/' cs) = true
    · simp only [hpre, if_true, Option.some.injEq, Prod.mk.injEq] at ha
      obtain ⟨e1, e2⟩ := ha
      subst e1
      have hsw := ho.2 hdir
      right
      rcases hdir with hp | hp
      · -- the whole name goes to the source
        rw [hp] at e2
        simp only [List.length_nil, List.drop_zero] at e2
        subst e2
        exact source_under o.src hsw cs hne h lead
      · obtain ⟨q, hq⟩ := List.getLast?_eq_some_iff.mp hp
        obtain ⟨t, ht⟩ := List.isPrefixOf_iff_prefix.mp hpre
        have hrest : rest = t := by rw [← e2, ← ht, List.drop_left' rfl]
        subst hrest
        cases lead with
        | true =>
          -- a relative override path is not a prefix of a name with a leading slash
          exfalso
          have hh := ho.1
          rw [hq] at ht hh
          cases q with
          | nil => simp [leadOf] at ht hh
          | cons c q' =>
            simp only [leadOf, if_true, List.cons_append, List.nil_append, List.cons.injEq] at ht
            simp only [List.cons_append, List.head?_cons, ne_eq, Option.some.injEq] at hh
            exact hh ht.1
        | false =>
          simp only [leadOf, Bool.false_eq_true, if_false, List.nil_append] at ht
          rw [hq] at ht
          have hsplit : splitOn '/' q ++ splitOn '/' rest = cs := by
            have := congrArg (splitOn '/') ht
            rw [List.append_assoc, List.singleton_append, splitOn_append_sep,
              splitOn_joinWith '/' cs hne (fun s m => (hg s m).2)] at this
            exact this
          have hprop : ∀ c ∈ splitOn '/' rest, Proper c := fun c hc => h c (by rw [← hsplit]; simp [hc])
          have := source_under o.src hsw (splitOn '/' rest) (splitOn_ne_nil _ _) hprop false
          simpa [joinWith_splitOn] using this
    · simp [hpre] at ha
  · simp only [hdir, if_false] at ha
    split at ha
    · simp only [Option.some.injEq, Prod.mk.injEq] at ha
      obtain ⟨e1, e2⟩ := ha
      subst e1; subst e2
      exact .inl rfl
    · simp at ha

theorem ovFirst_some (fs : Fs) (ovs : List Override) (name p : Text) (h : ovFirst fs ovs name = some p) :
    ∃ o ∈ ovs, ∃ s rest, o.apply name = some (s, rest) ∧ p = s.osPath rest := by
  unfold ovFirst at h
  obtain ⟨sr, hm, hf⟩ := List.exists_of_findSome?_eq_some h
  obtain ⟨o, ho, ha⟩ := List.mem_filterMap.mp hm
  refine ⟨o, ho, sr.1, sr.2, ha, ?_⟩
  split at hf
  · simpa using hf.symm
  · simp at hf

/-- where `resource_filename` of a good name lies -/
theorem pkgFilename_where (fs : Fs) (w : OvView) (hw : OvWf w) (lead : Bool) (rcs : List Seg) (hne : rcs ≠ [])
    (h : ∀ c ∈ rcs, Proper c) :
    Under (pkgRoot w.v) (pkgFilename fs w (leadOf lead ++ joinWith '/' (dcomps w.v ++ rcs))) ∨
    ∃ o ∈ w.ovs, InOverride o (pkgFilename fs w (leadOf lead ++ joinWith '/' (dcomps w.v ++ rcs))) := by
  have hall : ∀ c ∈ dcomps w.v ++ rcs, Proper c := by
    intro c hc
    rcases List.mem_append.mp hc with m | m
    · exact dcomps_proper w hw c m
    · exact h c m
  have hne' : dcomps w.v ++ rcs ≠ [] := by simp [hne]
  unfold pkgFilename
  cases ho : ovFirst fs w.ovs (leadOf lead ++ joinWith '/' (dcomps w.v ++ rcs)) with
  | some p =>
    obtain ⟨o, hom, s, rest, ha, hp⟩ := ovFirst_some fs w.ovs _ p ho
    right
    refine ⟨o, hom, ?_⟩
    simp only [Option.getD_some]
    rw [hp]
    exact apply_inOverride o (hw.2.2.2.2.2 o hom) lead _ hne' hall s rest ha
  | none =>
    left
    simp only [Option.getD_none]
    have hg := goodComps_of_proper _ hall
    have e : resourceFilename w.v.base (leadOf lead ++ joinWith '/' (dcomps w.v ++ rcs)) =
        below (pkgRoot w.v) rcs := by
      rw [pkgRoot_eq w hw, ← below_append]
      cases lead with
      | false => simpa [leadOf] using resourceFilename_join w.v.base _ hw.2.1 hne' hg
      | true => simpa [leadOf] using resourceFilename_lead w.v.base _ hw.2.1 hne' hg
    rw [e]
    exact ⟨rcs, hne, h, rfl⟩

theorem joinWith_concat_ext (xs : List Seg) (l ext : Text) :
    joinWith '/' (xs ++ [l]) ++ ext = joinWith '/' (xs ++ [l ++ ext]) := by
  cases xs with
  | nil => simp [joinWith]
  | cons x r => rw [joinWith_append '/' _ _ (by simp) (by simp), joinWith_append '/' _ _ (by simp) (by simp)]; simp [joinWith]

/-- a good name with an extension appended is a good name -/
theorem goodName_ext (lead : Bool) (ds rcs : List Seg) (hne : rcs ≠ []) (h : ∀ c ∈ rcs, Proper c) (ext : Text)
    (h1 : '/' ∉ ext) (h2 : '\x00' ∉ ext) :
    ∃ rcs', rcs' ≠ [] ∧ (∀ c ∈ rcs', Proper c) ∧
      (leadOf lead ++ joinWith '/' (ds ++ rcs)) ++ ext = leadOf lead ++ joinWith '/' (ds ++ rcs') := by
  rcases List.eq_nil_or_concat rcs with e | ⟨init, l, e⟩
  · exact absurd e hne
  · rw [List.concat_eq_append] at e
    subst e
    refine ⟨init ++ [l ++ ext], by simp, ?_, ?_⟩
    · intro c hc
      rcases List.mem_append.mp hc with m | m
      · exact h c (by simp [m])
      · simp only [List.mem_singleton] at m
        subst m
        exact proper_append_ext l ext (h l (by simp)) h1 h2
    · rw [List.append_assoc, ← List.append_assoc ds, joinWith_concat_ext, List.append_assoc]

/-- the resource names `get_resource_name` forms are good names -/
theorem resourceNameOv_good (fs : Fs) (w : OvView) (hw : OvWf w)
    (hroot : pkgIsDir fs w (pkgResourcePath w.v.docroot []) = true) (slash : Bool) (segs : List Seg) (n : Text)
    (h : resourceNameOv fs w slash segs = .name n) :
    ∃ lead rcs, rcs ≠ [] ∧ (∀ c ∈ rcs, Proper c) ∧ n = leadOf lead ++ joinWith '/' (dcomps w.v ++ rcs) := by
  unfold resourceNameOv at h
  simp only [hw.1, if_true] at h
  cases hsec : securePath segs with
  | none => simp [hsec] at h
  | some path =>
    obtain ⟨hs, hp⟩ := (securePath_eq_some_iff segs path).mp hsec
    subst hp
    simp only [hsec] at h
    by_cases hraise : pkgRaises fs w (pkgResourcePath w.v.docroot (joinWith '/' segs)) = true
    · rw [if_pos hraise] at h; simp at h
    rw [if_neg hraise] at h
    have hg := goodComps_of_proper segs hs
    have hdg := goodComps_of_proper _ (dcomps_proper w hw)
    -- the resource path for a non-empty tuple
    have hrp : segs ≠ [] → pkgResourcePath w.v.docroot (joinWith '/' segs) = joinWith '/' (dcomps w.v ++ segs) := by
      intro hsn
      unfold pkgResourcePath dcomps
      by_cases hd : rstripSlash w.v.docroot = []
      · simp [hd]
      · simp only [hd, if_false]
        rw [joinWith_append '/' _ _ (splitOn_ne_nil _ _) hsn, joinWith_splitOn]
    by_cases hsn : segs = []
    · subst hsn
      simp only [joinWith, hroot, if_true] at h
      cases slash with
      | false => simp at h
      | true =>
        simp only [Bool.not_true, Bool.false_eq_true, if_false, NameOutcome.name.injEq] at h
        subst h
        unfold pkgResourcePath dcomps
        by_cases hd : rstripSlash w.v.docroot = []
        · refine ⟨true, [w.v.index], by simp, fun c hc => by simp at hc; subst hc; exact hw.2.2.2.1, ?_⟩
          simp only [hd, if_true]
          have e0 : rstripSlash ([] : Text) = [] := by simp [rstripSlash]
          simp [e0, leadOf, joinWith]
        · refine ⟨false, [w.v.index], by simp, fun c hc => by simp at hc; subst hc; exact hw.2.2.2.1, ?_⟩
          simp only [hd, if_false, leadOf, Bool.false_eq_true, List.nil_append]
          have e : rstripSlash w.v.docroot ++ '/' :: ([] : Text) = rstripSlash w.v.docroot ++ ['/'] := rfl
          rw [e, rstripSlash_append_slash, rstripSlash_of_last _ (rstripSlash_last _),
            joinWith_append '/' _ _ (splitOn_ne_nil _ _) (by simp), joinWith_splitOn]
          simp [joinWith]
    · rw [hrp hsn] at h
      have hall : GoodComps (dcomps w.v ++ segs) := by
        intro c hc
        rcases List.mem_append.mp hc with m | m
        · exact hdg c m
        · exact hg c m
      by_cases hdir : pkgIsDir fs w (joinWith '/' (dcomps w.v ++ segs)) = true
      · simp only [hdir, if_true] at h
        cases slash with
        | false => simp at h
        | true =>
          simp only [Bool.not_true, Bool.false_eq_true, if_false, NameOutcome.name.injEq] at h
          subst h
          refine ⟨false, segs ++ [w.v.index], by simp, ?_, ?_⟩
          · intro c hc
            rcases List.mem_append.mp hc with m | m
            · exact hs c m
            · simp only [List.mem_singleton] at m; subst m; exact hw.2.2.2.1
          · have hl := (getLast?_joinWith_ne _ (by simp [hsn]) hall).1
            rw [rstripSlash_of_last _ hl]
            simp only [leadOf, Bool.false_eq_true, if_false, List.nil_append]
            rw [← List.append_assoc, joinWith_append '/' (dcomps w.v ++ segs) [w.v.index] (by simp [hsn]) (by simp)]
            simp [joinWith]
      · have hdir' : pkgIsDir fs w (joinWith '/' (dcomps w.v ++ segs)) = false := by simpa using hdir
        simp only [hdir', Bool.false_eq_true, if_false, NameOutcome.name.injEq] at h
        subst h
        exact ⟨false, segs, hsn, hs, by simp [leadOf]⟩

theorem findResourcePathOv_some (fs : Fs) (w : OvView) (hp : w.v.pkg = true) (name p : Text)
    (h : findResourcePathOv fs w name = some p) : p = pkgFilename fs w name ∧ pkgIsDir fs w name = false := by
  unfold findResourcePathOv at h
  simp only [hp, if_true] at h
  by_cases h1 : pkgRaises fs w name = true
  · rw [if_pos h1] at h; simp at h
  rw [if_neg h1] at h
  by_cases h2 : (pkgExists fs w name && !pkgIsDir fs w name) = true
  · rw [if_pos h2] at h
    simp only [Option.some.injEq] at h
    simp only [Bool.and_eq_true, Bool.not_eq_true'] at h2
    exact ⟨h.symm, h2.2⟩
  · rw [if_neg h2] at h; simp at h

theorem mem_candidatesOv (fs : Fs) (w : OvView) (hp : w.v.pkg = true) (n : Text) (c : Cand)
    (h : c ∈ candidatesOv fs w n) :
    (c.path = pkgFilename fs w n ∧ pkgIsDir fs w n = false) ∨
    ∃ e ∈ w.v.encs, ∃ x ∈ e.2, c.path = pkgFilename fs w (n ++ x) ∧ pkgIsDir fs w (n ++ x) = false := by
  unfold candidatesOv at h
  rcases List.mem_append.mp h with m | m
  · left
    cases hf : findResourcePathOv fs w n with
    | none => simp [hf] at m
    | some p =>
      simp only [hf, List.mem_singleton] at m
      subst m
      exact findResourcePathOv_some fs w hp n p hf
  · right
    obtain ⟨⟨e, exts⟩, he, hc⟩ := List.mem_flatMap.mp m
    obtain ⟨x, hx, hf⟩ := List.mem_filterMap.mp hc
    refine ⟨(e, exts), he, x, hx, ?_⟩
    cases hq : findResourcePathOv fs w (n ++ x) with
    | none => simp [hq] at hf
    | some p =>
      simp only [hq, Option.map_some, Option.some.injEq] at hf
      subst hf
      exact findResourcePathOv_some fs w hp (n ++ x) p hq

/-- the file a package-relative view opens is never a directory (what `resource_isdir` says of a name is what the
file system says of the path `resource_filename` gives for it) -/
theorem pkgIsDir_filename (fs : Fs) (w : OvView) (name : Text) : pkgIsDir fs w name = fs.isDir (pkgFilename fs w name) := by
  unfold pkgIsDir pkgFilename
  cases ovFirst fs w.ovs name <;> rfl

/-- **Extended containment** (package-relative view with asset overrides): whatever `static_view.__call__` opens
lies strictly inside the static root, or inside what one of the declared overrides was declared with. -/
theorem staticViewOv_where (fs : Fs) (w : OvView) (hw : OvWf w)
    (hroot : pkgIsDir fs w (pkgResourcePath w.v.docroot []) = true) (ae : Option (List Enc)) (slash : Bool)
    (segs : List Seg) (p : Text)
    (h : (∃ e b, staticViewOv fs w ae slash segs = .file p e b) ∨ staticViewOv fs w ae slash segs = .isADirectory p) :
    Under (pkgRoot w.v) p ∨ ∃ o ∈ w.ovs, InOverride o p := by
  unfold staticViewOv at h
  cases hn : resourceNameOv fs w slash segs with
  | notFound => simp [hn] at h
  | redirect => simp [hn] at h
  | name n =>
    simp only [hn] at h
    obtain ⟨lead, rcs, hne, hpr, hname⟩ := resourceNameOv_good fs w hw hroot slash segs n hn
    rw [findBestMatch_eq_find] at h
    cases hf : (sortBySize fs.size (candidatesOv fs w n)).find? (accepts ae) with
    | none => simp [hf] at h
    | some c =>
      simp only [hf] at h
      have hm : c ∈ candidatesOv fs w n := (mem_sortBySize _ _ _).mp (List.mem_of_find?_eq_some hf)
      have hpath : p = c.path := by
        by_cases hd : fs.isDir c.path = true
        · simp only [hd, if_true, reduceCtorEq, exists_false, Outcome.isADirectory.injEq, false_or] at h
          exact h.symm
        · simp only [hd, if_false, Outcome.file.injEq, reduceCtorEq, or_false] at h
          obtain ⟨_, _, e1, _, _⟩ := h
          exact e1.symm
      rw [hpath]
      rcases mem_candidatesOv fs w hw.1 n c hm with ⟨e, _⟩ | ⟨e, he, x, hx, ex, _⟩
      · rw [e, hname]
        exact pkgFilename_where fs w hw lead rcs hne hpr
      · obtain ⟨x1, x2⟩ := hw.2.2.2.2.1 e he x hx
        obtain ⟨rcs', hne', hpr', hn'⟩ := goodName_ext lead (dcomps w.v) rcs hne hpr x x1 x2
        rw [ex, hname, hn']
        exact pkgFilename_where fs w hw lead rcs' hne' hpr'

/-- a package-relative view with the override layer never hands a directory to `open()` -/
theorem staticViewOv_not_isADirectory (fs : Fs) (w : OvView) (hp : w.v.pkg = true) (ae : Option (List Enc)) (slash : Bool)
    (segs : List Seg) (p : Text) : staticViewOv fs w ae slash segs ≠ .isADirectory p := by
  intro h
  unfold staticViewOv at h
  cases hn : resourceNameOv fs w slash segs with
  | notFound => simp [hn] at h
  | redirect => simp [hn] at h
  | name n =>
    simp only [hn] at h
    rw [findBestMatch_eq_find] at h
    cases hf : (sortBySize fs.size (candidatesOv fs w n)).find? (accepts ae) with
    | none => simp [hf] at h
    | some c =>
      simp only [hf] at h
      have hm : c ∈ candidatesOv fs w n := (mem_sortBySize _ _ _).mp (List.mem_of_find?_eq_some hf)
      have hnd : fs.isDir c.path = false := by
        rcases mem_candidatesOv fs w hp n c hm with ⟨e, hd⟩ | ⟨_, _, x, _, e, hd⟩
        · rw [e, ← pkgIsDir_filename]; exact hd
        · rw [e, ← pkgIsDir_filename]; exact hd
      simp [hnd] at h

/-- the view with the override layer answers 404, a redirect, or a file — nothing else -/
theorem staticViewOv_cases (fs : Fs) (w : OvView) (hp : w.v.pkg = true) (ae : Option (List Enc)) (slash : Bool)
    (segs : List Seg) :
    staticViewOv fs w ae slash segs = .notFound ∨ staticViewOv fs w ae slash segs = .redirect ∨
      ∃ p e b, staticViewOv fs w ae slash segs = .file p e b := by
  have hnd := staticViewOv_not_isADirectory fs w hp ae slash segs
  unfold staticViewOv at hnd ⊢
  cases hn : resourceNameOv fs w slash segs with
  | notFound => exact .inl rfl
  | redirect => exact .inr (.inl rfl)
  | name n =>
    simp only [hn] at hnd ⊢
    cases hf : findBestMatch ae (sortBySize fs.size (candidatesOv fs w n)) with
    | none => exact .inl rfl
    | some c =>
      simp only [hf] at hnd ⊢
      by_cases hd : fs.isDir c.path = true
      · exact absurd (by simp [hd]) (hnd c.path)
      · exact .inr (.inr ⟨c.path, c.enc, decide ((sortBySize fs.size (candidatesOv fs w n)).length > 1), by simp [hd]⟩)

theorem staticViewOv_file_not_dir (fs : Fs) (w : OvView) (hp : w.v.pkg = true) (ae : Option (List Enc)) (slash : Bool)
    (segs : List Seg) (p : Text) (e : Option Enc) (b : Bool) (h : staticViewOv fs w ae slash segs = .file p e b) :
    fs.isDir p = false := by
  unfold staticViewOv at h
  cases hn : resourceNameOv fs w slash segs with
  | notFound => simp [hn] at h
  | redirect => simp [hn] at h
  | name n =>
    simp only [hn] at h
    cases hf : findBestMatch ae (sortBySize fs.size (candidatesOv fs w n)) with
    | none => simp [hf] at h
    | some c =>
      simp only [hf] at h
      by_cases hd : fs.isDir c.path = true
      · simp [hd] at h
      · rw [if_neg hd] at h
        simp only [Outcome.file.injEq] at h
        rw [← h.1]; simpa using hd

end Pyr.Static
