import PyramidModel.Lemmas.ResourceUrlQuote
/-! C07 helper lemmas, part 2: path texts as lists of segments, the lineage loop, the walk.
Property theorems are in `Props/C07.lean`. -/
namespace Pyr.ResUrl
open Pyr.Trav

deriving instance DecidableEq for Except

/-! ### the lineage loop -/

theorem prefixes_ne_nil (p : List Seg) : prefixes p ≠ [] := by
  cases p <;> simp [prefixes]

theorem nameOf_cons (x : Seg) (q : List Seg) : nameOf (x :: q) = if q = [] then x else nameOf q := by
  cases q with
  | nil => simp [nameOf]
  | cons y r => simp [nameOf, List.getLast?_cons_cons]

/-- names of the prefixes, shortest first: `''` for the root, then the names of the position -/
theorem map_nameOf_prefixes (p : List Seg) : (prefixes p).map nameOf = [] :: p := by
  induction p with
  | nil => simp [prefixes, nameOf]
  | cons x xs ih =>
    simp only [prefixes, List.map_cons, List.map_map]
    have h0 : nameOf [] = [] := by simp [nameOf]
    rw [h0]
    congr 1
    -- the prefixes of xs are [] followed by non-empty lists whose names are xs
    cases xs with
    | nil => simp [prefixes, nameOf]
    | cons y ys =>
      simp only [prefixes, List.map_cons, List.map_map] at ih ⊢
      have ih' := (List.cons.inj ih).2
      simp only [Function.comp_def] at ih' ⊢
      rw [nameOf_cons]
      simp only [if_true]
      congr 1

/-- `_resource_path_list` yields `''`, the names of the position, then the extra elements -/
theorem resourcePathList_eq (p els : List Seg) : resourcePathList p els = [] :: p ++ els := by
  simp only [resourcePathList, lineage, List.map_reverse, List.reverse_reverse, map_nameOf_prefixes]

/-! ### texts made of segments -/

/-- every segment followed by a slash -/
def slashed (xs : List Text) : Text := xs.flatMap (· ++ ['/'])

theorem slashed_nil : slashed [] = [] := rfl
theorem slashed_cons (x : Text) (xs : List Text) : slashed (x :: xs) = x ++ '/' :: slashed xs := by
  simp [slashed]
theorem slashed_append (xs ys : List Text) : slashed (xs ++ ys) = slashed xs ++ slashed ys := by
  simp [slashed]

theorem pathOf_eq (p : List Seg) : pathOf p = '/' :: slashed (p.map quoteSegment) := by
  simp [pathOf, slashed, List.flatMap_map]

theorem joinWith_cons_cons (x y : Text) (r : List Text) :
    joinWith '/' (x :: y :: r) = x ++ '/' :: joinWith '/' (y :: r) := rfl

theorem joinWith_slash (xs : List Text) (h : xs ≠ []) : joinWith '/' xs ++ ['/'] = slashed xs := by
  induction xs with
  | nil => exact absurd rfl h
  | cons x r ih =>
    cases r with
    | nil => simp [joinWith, slashed]
    | cons y r' =>
      rw [joinWith_cons_cons, slashed_cons, ← ih (by simp)]
      simp

theorem splitOn_slashed (xs : List Text) (t : Text) (h : ∀ s ∈ xs, '/' ∉ s) :
    splitOn '/' (slashed xs ++ t) = xs ++ splitOn '/' t := by
  induction xs with
  | nil => simp [slashed]
  | cons x r ih =>
    rw [slashed_cons, List.append_assoc, List.cons_append, splitOn_append_sep,
      splitOn_no_sep '/' x (h x (by simp)), ih (fun s hs => h s (by simp [hs]))]
    simp

theorem foldl_normStep_filter (segs st : List Seg) (h : ∀ s ∈ segs, s = [] ∨ Clean s) :
    segs.foldl normStep st = (segs.filter (· ≠ [])).reverse ++ st := by
  induction segs generalizing st with
  | nil => simp
  | cons x r ih =>
    simp only [List.foldl_cons]
    rcases h x (by simp) with e | hc
    · subst e
      rw [normStep_skip st [] (.inl rfl), ih st (fun s hs => h s (by simp [hs]))]
      simp
    · rw [normStep_clean st x hc, ih _ (fun s hs => h s (by simp [hs]))]
      have : x ≠ [] := hc.1
      simp [this]

/-- empty segments are dropped, proper ones kept -/
theorem normSegs_filter (segs : List Seg) (h : ∀ s ∈ segs, s = [] ∨ Clean s) :
    normSegs segs = segs.filter (· ≠ []) := by
  simp [normSegs, foldl_normStep_filter segs [] h]

theorem filter_ne_nil_of_all (xs : List Seg) (h : ∀ s ∈ xs, s ≠ []) : xs.filter (· ≠ []) = xs := by
  apply List.filter_eq_self.mpr
  intro s hs
  simpa using h s hs

theorem filter_replicate_nil (k : Nat) : (List.replicate k ([] : Seg)).filter (· ≠ []) = [] := by
  induction k with
  | zero => rfl
  | succ k ih => simp [List.replicate_succ]

/-! ### admissible names -/

theorem AdmissibleName.clean {n : Seg} (h : AdmissibleName n) : Clean n := ⟨h.1, h.2.2.1, h.2.2.2.1⟩
theorem AdmissibleName.noSlash {n : Seg} (h : AdmissibleName n) : '/' ∉ n := h.2.1
theorem AdmissibleName.notSel {n : Seg} (h : AdmissibleName n) : isSel n = false := by
  have := h.2.2.2.2
  simp [isSel, this]

/-- the decoded text `/a/b/` splits into the names -/
theorem split_slashed (p : List Seg) (h : ∀ n ∈ p, AdmissibleName n) :
    splitPathInfo ('/' :: slashed p) = p := by
  have e : ('/' :: slashed p : Text) = slashed ([] :: p) ++ [] := by simp [slashed_cons]
  rw [splitPathInfo_eq, e, splitOn_slashed _ _ (by
    intro s hs
    rcases List.mem_cons.mp hs with e | m
    · subst e; simp
    · exact (h s m).noSlash)]
  rw [normSegs_filter _ (by
    intro s hs
    simp only [splitOn, List.cons_append, List.mem_cons, List.mem_append] at hs
    rcases hs with e | m | e
    · exact .inl e
    · exact .inr (h s m).clean
    · exact .inl (by simpa using e))]
  simp only [splitOn, List.cons_append, List.filter_cons, List.filter_append]
  simp
  exact fun a ha => (h a ha).1

/-- the decoded text `/a/b` (and `/` for the root) splits into the names -/
theorem split_joined (p : List Seg) (h : ∀ n ∈ p, AdmissibleName n) :
    splitPathInfo ('/' :: joinWith '/' p) = p ∧ splitPathInfo (joinWith '/' p) = p := by
  cases p with
  | nil => simp only [joinWith]; decide
  | cons x xs =>
    have hs := splitOn_joinWith '/' (x :: xs) (by simp) (fun s hs => (h s hs).noSlash)
    have hf : normSegs (x :: xs) = x :: xs := normSegs_of_clean _ (fun s hs => (h s hs).clean)
    refine ⟨?_, ?_⟩
    · rw [splitPathInfo_eq, splitOn_cons_sep, hs]
      have := normSegs_replicate_nil_append 1 (x :: xs)
      simp only [List.replicate_one, List.singleton_append] at this
      rw [this, hf]
    · rw [splitPathInfo_eq, hs, hf]

/-! ### the walk -/

theorem deepest_of_walkable (t : Tree) (segs : List Seg) (h : Walkable t segs = true) :
    deepest t segs = segs.length := by
  have h1 := deepest_max t segs segs.length (Nat.le_refl _) (by simpa using h)
  have h2 := deepest_le t segs
  omega

theorem deepest_lt_of_not_walkable (t : Tree) (segs : List Seg) (h : Walkable t segs = false) :
    deepest t segs < segs.length := by
  have h2 := deepest_le t segs
  by_cases e : deepest t segs = segs.length
  · have := walkable_take_deepest t segs
    rw [e, List.take_length] at this
    rw [this] at h
    exact absurd h (by simp)
  · omega

/-- the position `a ++ q` exists iff `a` does and `q` can be walked from there -/
theorem walkable_append (t : Tree) (a q : List Seg) :
    Walkable t (a ++ q) = true ↔ Walkable t a = true ∧ ∃ c, t.resolve a = some c ∧ Walkable c q = true := by
  induction a generalizing t with
  | nil => simp [Walkable, Tree.resolve]
  | cons s rest ih =>
    simp only [List.cons_append, Walkable, Tree.resolve, Bool.and_eq_true]
    cases hc : t.lookup s with
    | none => simp
    | some c =>
      simp only []
      rw [ih c]
      constructor
      · rintro ⟨h1, h2, h3⟩; exact ⟨⟨h1, h2⟩, h3⟩
      · rintro ⟨⟨h1, h2⟩, h3⟩; exact ⟨h1, h2, h3⟩

/-- The traverser on a `PATH_INFO` that is the UTF-8 encoding of a text, no virtual root, no match dictionary:
the walk over the text's segments. -/
theorem traverser_plain (t : Tree) (T : Text) :
    traverser t { pathInfo := some (utf8Enc T), vroot := none, matchdict := none } =
      .ok (walkLoop (splitPathInfo T) [] [] 0 (splitPathInfo T) 0 t []) := by
  simp only [traverser, requestPath, Option.getD_some, decodePathInfo, utf8Dec_utf8Enc, traverseText]
  by_cases h : T = []
  · subst h
    have : splitPathInfo ['/'] = splitPathInfo [] := by decide
    simp [this]
  · simp [h]

/-- what the walk gives when every name is admissible: all found ⇒ that position and an empty view name;
otherwise a non-empty view name -/
theorem walk_admissible (t : Tree) (segs : List Seg) (h : ∀ n ∈ segs, AdmissibleName n) :
    let r := walkLoop segs [] [] 0 segs 0 t []
    (Walkable t segs = true → r = { context := segs, viewName := [], subpath := [], traversed := segs,
                                     virtualRoot := [], virtualRootPath := [] }) ∧
    (Walkable t segs = false → r.viewName ≠ []) := by
  simp only [walk_outcome]
  refine ⟨?_, ?_⟩
  · intro hw
    have := deepest_of_walkable t segs hw
    simp [this]
  · intro hw
    have hlt := deepest_lt_of_not_walkable t segs hw
    cases hd : segs.drop (deepest t segs) with
    | nil =>
      have := List.drop_eq_nil_iff.mp hd
      omega
    | cons s rest =>
      simp only []
      have hs : s ∈ segs := List.mem_of_mem_drop (by rw [hd]; simp)
      have ha := h s hs
      simp only [viewNameOf, ha.notSel]
      exact ha.1

end Pyr.ResUrl
