/-
C09 helper lemmas, part 2: codecs.  UTF-8 decode∘encode, unquote∘quote, base64 decode∘encode.
-/
import PyramidModel.AuthTkt

namespace Pyr.AuthTkt

theorem toNat_byteOfNat {n : Nat} (h : n < 256) : (byteOfNat n).toNat = n := by
  unfold byteOfNat
  simp [UInt8.toNat_ofNat', Nat.mod_eq_of_lt h]

theorem byteOfNat_toNat (b : UInt8) : byteOfNat b.toNat = b := by
  unfold byteOfNat; exact UInt8.ofNat_toNat

theorem charOfNat_toNat {n : Nat} (hv : n.isValidChar) : (Char.ofNat n).toNat = n := by
  simp [Char.ofNat, hv, Char.ofNatAux, Char.toNat]

theorem char_valid (c : Char) : c.toNat < 0xD800 ∨ (0xDFFF < c.toNat ∧ c.toNat < 0x110000) := c.valid

/-! ### UTF-8 -/

/-- the decoder's step reads back exactly the character that was encoded, whatever follows -/
theorem utf8Step_enc (c : Char) (rest : Bytes) :
    ∃ b0 tl, utf8EncChar c ++ rest = b0 :: tl ∧
      ∃ k, utf8Step b0 tl = (some c, k) ∧ tl.drop k = rest := by
  have hv := char_valid c
  have hc : Char.ofNat c.toNat = c := Char.ofNat_toNat c
  generalize hn : c.toNat = n at hv hc
  unfold utf8EncChar
  simp only [hn]
  by_cases h1 : n < 0x80
  · refine ⟨byteOfNat n, rest, by simp [h1], 0, ?_, rfl⟩
    unfold utf8Step
    simp [toNat_byteOfNat (show n < 256 by omega), h1, hc]
  by_cases h2 : n < 0x800
  · refine ⟨byteOfNat (0xC0 + n / 64), byteOfNat (0x80 + n % 64) :: rest, by simp [h1, h2], 1, ?_, rfl⟩
    have e0 := toNat_byteOfNat (show 0xC0 + n / 64 < 256 by omega)
    have e1 := toNat_byteOfNat (show 0x80 + n % 64 < 256 by omega)
    unfold utf8Step
    simp only [e0, e1, isCont]
    have a1 : ¬ (192 + n / 64 < 128) := by omega
    have a2 : ¬ (192 + n / 64 < 194) := by omega
    have a3 : 192 + n / 64 < 224 := by omega
    have a4 : (decide (128 ≤ 128 + n % 64) && decide (128 + n % 64 < 192)) = true := by
      simp; omega
    simp only [a1, a2, a3, a4, if_true, if_false]
    have : (192 + n / 64 - 192) * 64 + (128 + n % 64 - 128) = n := by omega
    rw [this, hc]
  by_cases h3 : n < 0x10000
  · refine ⟨byteOfNat (0xE0 + n / 4096), byteOfNat (0x80 + n / 64 % 64) :: byteOfNat (0x80 + n % 64) :: rest,
      by simp [h1, h2, h3], 2, ?_, rfl⟩
    have e0 := toNat_byteOfNat (show 0xE0 + n / 4096 < 256 by omega)
    have e1 := toNat_byteOfNat (show 0x80 + n / 64 % 64 < 256 by omega)
    have e2 := toNat_byteOfNat (show 0x80 + n % 64 < 256 by omega)
    unfold utf8Step
    simp only [e0, e1, e2, isCont]
    have a1 : ¬ (224 + n / 4096 < 128) := by omega
    have a2 : ¬ (224 + n / 4096 < 194) := by omega
    have a3 : ¬ (224 + n / 4096 < 224) := by omega
    have a4 : 224 + n / 4096 < 240 := by omega
    have a5 : (decide ((if 224 + n / 4096 = 224 then 160 else 128) ≤ 128 + n / 64 % 64) &&
        decide (128 + n / 64 % 64 < if 224 + n / 4096 = 237 then 160 else 192)) = true := by
      simp only [Bool.and_eq_true, decide_eq_true_eq]
      constructor
      · split <;> omega
      · split <;> omega
    have a6 : (decide (128 ≤ 128 + n % 64) && decide (128 + n % 64 < 192)) = true := by
      simp; omega
    simp only [a1, a2, a3, a4, a5, a6, if_true, if_false]
    have : (224 + n / 4096 - 224) * 4096 + (128 + n / 64 % 64 - 128) * 64 + (128 + n % 64 - 128) = n := by omega
    rw [this, hc]
  · refine ⟨byteOfNat (0xF0 + n / 262144), byteOfNat (0x80 + n / 4096 % 64) :: byteOfNat (0x80 + n / 64 % 64) ::
      byteOfNat (0x80 + n % 64) :: rest, by simp [h1, h2, h3], 3, ?_, rfl⟩
    have e0 := toNat_byteOfNat (show 0xF0 + n / 262144 < 256 by omega)
    have e1 := toNat_byteOfNat (show 0x80 + n / 4096 % 64 < 256 by omega)
    have e2 := toNat_byteOfNat (show 0x80 + n / 64 % 64 < 256 by omega)
    have e3 := toNat_byteOfNat (show 0x80 + n % 64 < 256 by omega)
    unfold utf8Step
    simp only [e0, e1, e2, e3, isCont]
    have a1 : ¬ (240 + n / 262144 < 128) := by omega
    have a2 : ¬ (240 + n / 262144 < 194) := by omega
    have a3 : ¬ (240 + n / 262144 < 224) := by omega
    have a4 : ¬ (240 + n / 262144 < 240) := by omega
    have a4' : 240 + n / 262144 < 245 := by omega
    have a5 : (decide ((if 240 + n / 262144 = 240 then 144 else 128) ≤ 128 + n / 4096 % 64) &&
        decide (128 + n / 4096 % 64 < if 240 + n / 262144 = 244 then 144 else 192)) = true := by
      simp only [Bool.and_eq_true, decide_eq_true_eq]
      constructor
      · split <;> omega
      · split <;> omega
    have a6 : (decide (128 ≤ 128 + n / 64 % 64) && decide (128 + n / 64 % 64 < 192)) = true := by
      simp; omega
    have a7 : (decide (128 ≤ 128 + n % 64) && decide (128 + n % 64 < 192)) = true := by
      simp; omega
    simp only [a1, a2, a3, a4, a4', a5, a6, a7, if_true, if_false]
    have : (240 + n / 262144 - 240) * 262144 + (128 + n / 4096 % 64 - 128) * 4096 + (128 + n / 64 % 64 - 128) * 64
        + (128 + n % 64 - 128) = n := by omega
    rw [this, hc]

theorem utf8Enc_cons (c : Char) (t : Text) : utf8Enc (c :: t) = utf8EncChar c ++ utf8Enc t := by
  simp [utf8Enc]

theorem utf8Enc_append (a b : Text) : utf8Enc (a ++ b) = utf8Enc a ++ utf8Enc b := by
  simp [utf8Enc]

/-- strict decoding of an encoding (followed by nothing) gives the text back -/
theorem utf8DecStrict_enc (t : Text) : utf8DecStrict (utf8Enc t) = some t := by
  induction t with
  | nil => simp [utf8Enc, utf8DecStrict]
  | cons c t ih =>
    obtain ⟨b0, tl, h, k, hs, hd⟩ := utf8Step_enc c (utf8Enc t)
    rw [utf8Enc_cons, h, utf8DecStrict, hs]
    simp [hd, ih]

theorem utf8DecReplace_enc (t : Text) : utf8DecReplace (utf8Enc t) = t := by
  induction t with
  | nil => simp [utf8Enc, utf8DecReplace]
  | cons c t ih =>
    obtain ⟨b0, tl, h, k, hs, hd⟩ := utf8Step_enc c (utf8Enc t)
    rw [utf8Enc_cons, h, utf8DecReplace, hs]
    simp [hd, ih]

theorem utf8Enc_injective {a b : Text} (h : utf8Enc a = utf8Enc b) : a = b := by
  have := congrArg utf8DecStrict h
  simpa [utf8DecStrict_enc] using this

/-! ### quote / unquote -/

theorem upHex_facts : ∀ d : Fin 16, hexVal (upHexChar d.val) = some d.val ∧ (upHexChar d.val).toNat < 128 := by
  decide

theorem unquoteItems_quoteBytes (bs : Bytes) : unquoteItems (quoteBytes bs) = bs.map .byte := by
  induction bs with
  | nil => simp [quoteBytes, unquoteItems]
  | cons b bs ih =>
    have hb := UInt8.toNat_lt b
    by_cases hs : quoteSafe b = true
    · have hq : quoteBytes (b :: bs) = Char.ofNat b.toNat :: quoteBytes bs := by
        simp [quoteBytes, hs]
      rw [hq]
      have hlt : b.toNat < 128 ∧ b.toNat ≠ 37 := by
        simp [quoteSafe] at hs; omega
      have hv : (Char.ofNat b.toNat).toNat = b.toNat := charOfNat_toNat (Or.inl (by omega))
      have hne : Char.ofNat b.toNat ≠ '%' := by
        intro h
        have := congrArg Char.toNat h
        rw [hv] at this
        have h37 : ('%' : Char).toNat = 37 := by decide
        omega
      unfold unquoteItems
      simp only [hv, ge_iff_le, hne, if_false]
      have : ¬ (128 ≤ b.toNat) := by omega
      simp [this, byteOfNat_toNat, ih]
    · have hq : quoteBytes (b :: bs) =
          '%' :: upHexChar (b.toNat / 16) :: upHexChar (b.toNat % 16) :: quoteBytes bs := by
        simp [quoteBytes, hs]
      rw [hq]
      have f1 := upHex_facts ⟨b.toNat / 16, by omega⟩
      have f2 := upHex_facts ⟨b.toNat % 16, by omega⟩
      simp only at f1 f2
      unfold unquoteItems
      have h37 : ¬ (('%' : Char).toNat ≥ 128) := by decide
      simp only [h37, if_false, if_true, pctByte]
      rw [f1.1, f2.1]
      have : b.toNat / 16 * 16 + b.toNat % 16 = b.toNat := by omega
      simp [this, byteOfNat_toNat, ih]

theorem decodeItems_bytes (bs acc : Bytes) :
    decodeItems (bs.map .byte) acc = utf8DecReplace (acc.reverse ++ bs) := by
  induction bs generalizing acc with
  | nil => simp [decodeItems]
  | cons b bs ih => simp [decodeItems, ih]

/-- `unquote(quote(u)) == u` for every text -/
theorem unquote_quote (u : Text) : unquote (quoteBytes (utf8Enc u)) = u := by
  simp [unquote, unquoteItems_quoteBytes, decodeItems_bytes, utf8DecReplace_enc]

/-- a quoted text contains no `!` and no `"` (they are not in the safe set) -/
theorem quoteBytes_chars (bs : Bytes) : ∀ c ∈ quoteBytes bs, c ≠ '!' ∧ c ≠ '"' := by
  have hup : ∀ d : Fin 16, upHexChar d.val ≠ '!' ∧ upHexChar d.val ≠ '"' := by decide
  intro c hc
  simp only [quoteBytes, List.mem_flatMap] at hc
  obtain ⟨b, _, hc⟩ := hc
  have hb := UInt8.toNat_lt b
  split at hc
  · rename_i hs
    simp at hc
    subst hc
    have hlt : b.toNat < 128 ∧ b.toNat ≠ 33 ∧ b.toNat ≠ 34 := by
      simp [quoteSafe] at hs; omega
    have hv : (Char.ofNat b.toNat).toNat = b.toNat := charOfNat_toNat (Or.inl (by omega))
    constructor
    · intro h
      have := congrArg Char.toNat h
      rw [hv] at this
      have : ('!' : Char).toNat = 33 := by decide
      omega
    · intro h
      have := congrArg Char.toNat h
      rw [hv] at this
      have : ('"' : Char).toNat = 34 := by decide
      omega
  · simp at hc
    rcases hc with rfl | rfl | rfl
    · decide
    · exact hup ⟨b.toNat / 16, by omega⟩
    · exact hup ⟨b.toNat % 16, by omega⟩

/-! ### base64 -/

theorem b64_facts : ∀ n : Fin 64, b64Val (b64Char n.val).toNat = some n.val ∧ (b64Char n.val).toNat ≠ 61 ∧
    (b64Char n.val).toNat < 128 ∧ (b64Char n.val).toNat ≠ 0 ∧ b64Char n.val ≠ '!' ∧ b64Char n.val ≠ '"' := by
  decide

/-- ASCII codes of a text, as bytes (`bytes_` of an ASCII str) -/
def asciiBytes (t : Text) : Bytes := t.map fun c => byteOfNat c.toNat

theorem b64dec_step (v : Nat) (hv : v < 64) (r : Bytes) (quad left pads : Nat) (out : Bytes) :
    b64decLoop (byteOfNat (b64Char v).toNat :: r) quad left pads out =
      match quad with
      | 0 => b64decLoop r 1 v 0 out
      | 1 => b64decLoop r 2 (v % 16) 0 (byteOfNat (left * 4 + v / 16) :: out)
      | 2 => b64decLoop r 3 (v % 4) 0 (byteOfNat (left * 16 + v / 4) :: out)
      | _ => b64decLoop r 0 0 0 (byteOfNat (left * 64 + v) :: out) := by
  have f := b64_facts ⟨v, hv⟩
  simp only at f
  have e := toNat_byteOfNat (show (b64Char v).toNat < 256 by omega)
  rw [b64decLoop]
  simp only [e, f.2.1, if_false, f.1]
  rcases quad with _ | _ | _ | q <;> rfl

theorem b64dec_step0 (v : Nat) (hv : v < 64) (r : Bytes) (left pads : Nat) (out : Bytes) :
    b64decLoop (byteOfNat (b64Char v).toNat :: r) 0 left pads out = b64decLoop r 1 v 0 out := by
  rw [b64dec_step v hv]
  rfl

theorem b64dec_step1 (v : Nat) (hv : v < 64) (r : Bytes) (left pads : Nat) (out : Bytes) :
    b64decLoop (byteOfNat (b64Char v).toNat :: r) 1 left pads out =
      b64decLoop r 2 (v % 16) 0 (byteOfNat (left * 4 + v / 16) :: out) := by
  rw [b64dec_step v hv]
  rfl

theorem b64dec_step2 (v : Nat) (hv : v < 64) (r : Bytes) (left pads : Nat) (out : Bytes) :
    b64decLoop (byteOfNat (b64Char v).toNat :: r) 2 left pads out =
      b64decLoop r 3 (v % 4) 0 (byteOfNat (left * 16 + v / 4) :: out) := by
  rw [b64dec_step v hv]
  rfl

theorem b64dec_step3 (v : Nat) (hv : v < 64) (r : Bytes) (left pads : Nat) (out : Bytes) :
    b64decLoop (byteOfNat (b64Char v).toNat :: r) 3 left pads out =
      b64decLoop r 0 0 0 (byteOfNat (left * 64 + v) :: out) := by
  rw [b64dec_step v hv]
  rfl

theorem b64dec_pad (r : Bytes) (quad left pads : Nat) (out : Bytes) :
    b64decLoop (byteOfNat ('=' : Char).toNat :: r) quad left pads out =
      if quad ≥ 2 && quad + (pads + 1) ≥ 4 then some out.reverse
      else b64decLoop r quad left (if quad ≥ 2 then pads + 1 else pads) out := by
  have h61 : (byteOfNat ('=' : Char).toNat).toNat = 61 := by decide
  rw [b64decLoop]
  simp only [h61, if_true]

/-- decoding an encoding gives the bytes back, from a clean state and whatever was already produced -/
theorem b64decLoop_enc (bs out : Bytes) :
    b64decLoop (asciiBytes (b64enc bs)) 0 0 0 out = some (out.reverse ++ bs) := by
  induction bs using b64enc.induct generalizing out with
  | case1 => simp [b64enc, asciiBytes, b64decLoop]
  | case2 a =>
    have ha := UInt8.toNat_lt a
    simp only [b64enc, asciiBytes, List.map]
    rw [b64dec_step0 _ (by omega), b64dec_step1 _ (by omega), b64dec_pad, b64dec_pad]
    have : a.toNat / 4 * 4 + a.toNat % 4 * 16 / 16 = a.toNat := by omega
    rw [this]
    simp [byteOfNat_toNat]
  | case3 a b =>
    have ha := UInt8.toNat_lt a
    have hb := UInt8.toNat_lt b
    simp only [b64enc, asciiBytes, List.map]
    rw [b64dec_step0 _ (by omega), b64dec_step1 _ (by omega), b64dec_step2 _ (by omega), b64dec_pad]
    have h1 : a.toNat / 4 * 4 + (a.toNat % 4 * 16 + b.toNat / 16) / 16 = a.toNat := by omega
    have h2 : (a.toNat % 4 * 16 + b.toNat / 16) % 16 * 16 + b.toNat % 16 * 4 / 4 = b.toNat := by omega
    rw [h1, h2]
    simp [byteOfNat_toNat]
  | case4 a b c r ih =>
    have ha := UInt8.toNat_lt a
    have hb := UInt8.toNat_lt b
    have hc := UInt8.toNat_lt c
    simp only [b64enc, asciiBytes, List.map]
    rw [b64dec_step0 _ (by omega), b64dec_step1 _ (by omega), b64dec_step2 _ (by omega), b64dec_step3 _ (by omega)]
    have h1 : a.toNat / 4 * 4 + (a.toNat % 4 * 16 + b.toNat / 16) / 16 = a.toNat := by omega
    have h2 : (a.toNat % 4 * 16 + b.toNat / 16) % 16 * 16 + (b.toNat % 16 * 4 + c.toNat / 64) / 4 = b.toNat := by omega
    have h3 : (b.toNat % 16 * 4 + c.toNat / 64) % 4 * 64 + c.toNat % 64 = c.toNat := by omega
    rw [h1, h2, h3]
    have := ih (byteOfNat c.toNat :: byteOfNat b.toNat :: byteOfNat a.toNat :: out)
    simp only [asciiBytes] at this
    rw [this]
    simp [byteOfNat_toNat]

theorem b64dec_enc (bs : Bytes) : b64dec (asciiBytes (b64enc bs)) = some bs := by
  simp [b64dec, b64decLoop_enc]

/-- base64 text is ASCII without NUL, `!`, `"` -/
theorem b64enc_chars (bs : Bytes) : ∀ c ∈ b64enc bs, c.toNat < 128 ∧ c.toNat ≠ 0 ∧ c ≠ '!' ∧ c ≠ '"' := by
  have hpad : ('=' : Char).toNat < 128 ∧ ('=' : Char).toNat ≠ 0 ∧ ('=' : Char) ≠ '!' ∧ ('=' : Char) ≠ '"' := by decide
  have hch : ∀ v, v < 64 → (b64Char v).toNat < 128 ∧ (b64Char v).toNat ≠ 0 ∧ b64Char v ≠ '!' ∧ b64Char v ≠ '"' := by
    intro v hv
    have f := b64_facts ⟨v, hv⟩
    exact ⟨f.2.2.1, f.2.2.2.1, f.2.2.2.2.1, f.2.2.2.2.2⟩
  induction bs using b64enc.induct with
  | case1 => simp [b64enc]
  | case2 a =>
    have ha := UInt8.toNat_lt a
    intro c hc
    simp only [b64enc, List.mem_cons, List.mem_nil_iff, or_false] at hc
    rcases hc with rfl | rfl | rfl | rfl
    · exact hch _ (by omega)
    · exact hch _ (by omega)
    · exact hpad
    · exact hpad
  | case3 a b =>
    have ha := UInt8.toNat_lt a
    have hb := UInt8.toNat_lt b
    intro c hc
    simp only [b64enc, List.mem_cons, List.mem_nil_iff, or_false] at hc
    rcases hc with rfl | rfl | rfl | rfl
    · exact hch _ (by omega)
    · exact hch _ (by omega)
    · exact hch _ (by omega)
    · exact hpad
  | case4 a b c r ih =>
    have ha := UInt8.toNat_lt a
    have hb := UInt8.toNat_lt b
    have hc' := UInt8.toNat_lt c
    intro x hx
    simp only [b64enc, List.mem_cons] at hx
    rcases hx with rfl | rfl | rfl | rfl | hx
    · exact hch _ (by omega)
    · exact hch _ (by omega)
    · exact hch _ (by omega)
    · exact hch _ (by omega)
    · exact ih x hx

end Pyr.AuthTkt
