import PyramidModel.Lemmas.Csrf
/-!
C12 — lemmas relating the model (`Csrf.lean`) to the spec (`Lemmas/Csrf.lean`).
-/
namespace Pyr.Csrf

/-! ## token comparison -/

theorem stringsDiffer_eq (a b : List UInt8) : stringsDiffer a b = !(a == b) := by
  unfold stringsDiffer
  by_cases hl : a.length = b.length
  · by_cases hab : a = b
    · subst hab; simp
    · simp [hl, hab]
  · have hab : a ≠ b := fun h => hl (by rw [h])
    simp [hl, hab]

theorem utf8_inj {a b : Text} :
    (String.ofList a).toByteArray.data.toList = (String.ofList b).toByteArray.data.toList ↔ a = b := by
  constructor
  · intro h
    have h1 : (String.ofList a).toByteArray.data = (String.ofList b).toByteArray.data := Array.toList_inj.mp h
    have h2 : (String.ofList a).toByteArray = (String.ofList b).toByteArray := ByteArray.ext h1
    exact String.ofList_injective (String.toByteArray_inj.mp h2)
  · intro h; rw [h]

theorem encode_utf8_beq (a b : Text) :
    ((String.ofList a).toByteArray.data.toList == (String.ofList b).toByteArray.data.toList) = decide (a = b) := by
  by_cases h : a = b
  · subst h; rw [decide_eq_true rfl]; exact beq_self_eq_true _
  · rw [decide_eq_false h]
    exact beq_eq_false_iff_ne.mpr (fun hh => h (utf8_inj.mp hh))

theorem policyCheck_eq (st : Storage) (r : Req) (sup : Text) :
    policyCheck st r sup = .ok (decide (heldToken st r = sup)) := by
  unfold policyCheck policyCheckWith tokenCodec encode
  show Except.ok (!stringsDiffer _ _) = _
  rw [stringsDiffer_eq, Bool.not_not, encode_utf8_beq]

theorem heldToken_eq_spec (st : Storage) (r : Req) : heldToken st r = specHeld st r := by
  unfold heldToken specHeld
  cases hs : r.stored with
  | none => rfl
  | some t => cases t <;> cases st <;> simp

/-! ## dictionaries -/

theorem lookup_append (k : Text) (a b : List (Text × Text)) :
    lookup k (a ++ b) = match lookup k a with | some v => some v | none => lookup k b := by
  induction a with
  | nil => simp [lookup]
  | cons x xs ih =>
    obtain ⟨k', v⟩ := x
    simp only [List.cons_append, lookup]
    split
    · rfl
    · exact ih

theorem lookupLast_eq (k : Text) (l : List (Text × Text)) :
    lookupLast k l = match (l.filter fun kv => kv.1 == k).getLast? with | some kv => some kv.2 | none => none := by
  unfold lookupLast
  induction l with
  | nil => rfl
  | cons x xs ih =>
    obtain ⟨k', v⟩ := x
    rw [List.reverse_cons, lookup_append, ih]
    by_cases hk : k' = k
    · subst hk
      rw [List.filter_cons_of_pos (by simp)]
      cases hf : List.filter (fun kv : Text × Text => kv.1 == k') xs with
      | nil => simp [lookup]
      | cons y ys =>
        rw [List.getLast?_cons_cons]
        cases hg : (y :: ys).getLast? with
        | none => simp at hg
        | some z => rfl
    · have hne : ((k', v).1 == k) = false := by simpa using hk
      rw [List.filter_cons_of_neg (by simp [hne])]
      cases hf : (List.filter (fun kv : Text × Text => kv.1 == k) xs).getLast? with
      | none => simp only [lookup]; simp at hne; simp [hne]
      | some y => rfl

theorem postVars_eq (r : Req) : postVars r = if isFormSubmission r then r.form else [] := by
  have hA : s "application/x-www-form-urlencoded" ≠ [] := by decide
  have hB : s "multipart/form-data" ≠ [] := by decide
  have hAB : s "application/x-www-form-urlencoded" ≠ s "multipart/form-data" := by decide
  have hP : r.method = s "POST" → upper r.method ≠ s "GET" ∧ upper r.method ≠ s "HEAD" := by
    intro h; rw [h]; decide
  unfold postVars isFormSubmission
  generalize contentType r = ct at *
  generalize upper r.method = um at *
  by_cases h1 : ct = [] <;> by_cases h2 : r.method = s "POST" <;>
    by_cases h3 : ct = s "application/x-www-form-urlencoded" <;> by_cases h4 : ct = s "multipart/form-data" <;>
    by_cases h5 : um = s "GET" <;> by_cases h6 : um = s "HEAD" <;> simp_all

theorem suppliedToken_eq_spec (token hdr : Option Text) (r : Req) :
    suppliedToken token hdr r = specSupplied token hdr r := by
  unfold suppliedToken specSupplied
  cases hdr with
  | none =>
    simp only [Option.bind_none, List.isEmpty_nil, ite_true]
    cases token with
    | none => rfl
    | some t =>
      simp only [postVars_eq, lookupLast_eq]
      by_cases hf : isFormSubmission r
      · simp only [hf, ite_true]
        cases (List.filter (fun kv : Text × Text => kv.1 == t) r.form).getLast? <;> rfl
      · simp [hf, lookupLast, lookup]
  | some h =>
    simp only [Option.bind_some]
    cases hh : header r h with
    | none =>
      simp only [Option.getD_none, List.isEmpty_nil, ite_true]
      cases token with
      | none => rfl
      | some t =>
        simp only [postVars_eq, lookupLast_eq]
        by_cases hf : isFormSubmission r
        · simp only [hf, ite_true]
          cases (List.filter (fun kv : Text × Text => kv.1 == t) r.form).getLast? <;> rfl
        · simp [hf]
    | some v =>
      cases v with
      | nil =>
        simp only [Option.getD_some, List.isEmpty_nil, ite_true]
        cases token with
        | none => rfl
        | some t =>
          simp only [postVars_eq, lookupLast_eq]
          by_cases hf : isFormSubmission r
          · simp only [hf, ite_true]
            cases (List.filter (fun kv : Text × Text => kv.1 == t) r.form).getLast? <;> rfl
          · simp [hf]
      | cons c cs => simp

/-- `check_csrf_token`: passes exactly when the supplied token IS the held token; otherwise `False` / BadCSRFToken -/
theorem checkToken_eq (st : Storage) (token hdr : Option Text) (raises : Bool) (r : Req) :
    checkToken st token hdr raises r =
      if specTokenOk st token hdr r then .ok true else (if raises then .error .badToken else .ok false) := by
  unfold checkToken specTokenOk
  rw [policyCheck_eq, suppliedToken_eq_spec, heldToken_eq_spec]
  by_cases h : specHeld st r = specSupplied token hdr r
  · simp [h]
  · have h' : ¬ specSupplied token hdr r = specHeld st r := fun e => h e.symm
    simp [h, h']

/-! ## host patterns -/

theorem lower_eq_nil {t : Text} : lower t = [] ↔ t = [] := by simp [lower]

theorem hasDotSuffix_eq (host d : Text) : hasDotSuffix host d = ('.' :: d).isSuffixOf host := by
  unfold hasDotSuffix
  by_cases h : ('.' :: d).isSuffixOf host = true
  · rw [h]
    have hs := List.isSuffixOf_iff_suffix.mp h
    have hd := List.suffix_iff_eq_drop.mp hs
    have hl := hs.length_le
    simp only [List.length_cons] at hl hd
    simp [hl, ← hd]
  · have hf : ('.' :: d).isSuffixOf host = false := Bool.eq_false_iff.mpr h
    rw [hf]
    by_cases hl : d.length + 1 ≤ host.length
    · have : ¬ (List.drop (host.length - (d.length + 1)) host = '.' :: d) := by
        intro e
        apply h
        apply List.isSuffixOf_iff_suffix.mpr
        rw [← e]; exact List.drop_suffix _ _
      simp [hl, this]
    · simp [hl]

theorem beq_comm_text (a b : Text) : (a == b) = (b == a) := by
  by_cases h : a = b
  · subst h; rfl
  · have h' : ¬ b = a := fun e => h e.symm
    rw [beq_eq_false_iff_ne.mpr h, beq_eq_false_iff_ne.mpr h']

theorem isSameDomain_eq (host pattern : Text) : isSameDomain host pattern = matchesPattern host pattern := by
  unfold isSameDomain matchesPattern endsWith
  cases hp : pattern with
  | nil => simp [lower]
  | cons c cs =>
    have hne : lower (c :: cs) ≠ [] := by simp [lower]
    generalize lower (c :: cs) = p at *
    cases p with
    | nil => exact absurd rfl hne
    | cons a as =>
      simp only [List.isEmpty_cons, Bool.false_eq_true, ite_false, List.head?_cons, List.tail_cons]
      by_cases ha : a = '.'
      · subst ha
        show _ = (host == as || hasDotSuffix host as)
        rw [hasDotSuffix_eq]
        by_cases h1 : ('.' :: as).isSuffixOf host = true
        · simp [h1]
        · have h1f : ('.' :: as).isSuffixOf host = false := Bool.eq_false_iff.mpr h1
          have h2 : ('.' :: as == host) = false := by
            apply beq_eq_false_iff_ne.mpr
            intro e; apply h1; rw [← e]
            exact List.isSuffixOf_iff_suffix.mpr (List.suffix_refl _)
          rw [h1f, h2]; simp
      · have h0 : (some a == some '.') = false := by simpa using ha
        rw [h0, Bool.false_and, Bool.false_or]
        split
        · next heq => simp at heq
        · next d heq => simp at heq; exact absurd heq.1 ha
        · exact beq_comm_text _ _

/-- a leading-dot pattern only ever admits the bare domain or names that end in `.domain`: the match is at
a label boundary, never inside a label -/
theorem hasDotSuffix_iff (host d : Text) : hasDotSuffix host d = true ↔ ∃ sub, host = sub ++ '.' :: d := by
  rw [hasDotSuffix_eq, List.isSuffixOf_iff_suffix]
  constructor
  · rintro ⟨t, ht⟩; exact ⟨t, ht.symm⟩
  · rintro ⟨t, ht⟩; exact ⟨t, ht.symm⟩

/-! ## reading the origin -/

theorem isAsciiAlpha_of_toLower (c : Char) (h : isAsciiAlpha c.toLower = true) : isAsciiAlpha c = true := by
  unfold Char.toLower at h
  split at h
  · next hc =>
    unfold isAsciiAlpha
    have h1 : ('A' ≤ c) := hc.1
    have h2 : (c ≤ 'Z') := hc.2
    simp [h1, h2]
  · exact h

theorem takeWhile_append_stop {α} (p : α → Bool) (a : List α) (x : α) (b : List α)
    (ha : ∀ c ∈ a, p c = true) (hx : p x = false) :
    (a ++ x :: b).takeWhile p = a ∧ (a ++ x :: b).dropWhile p = x :: b := by
  induction a with
  | nil => simp [List.takeWhile, List.dropWhile, hx]
  | cons y ys ih =>
    have hy : p y = true := ha y (by simp)
    have := ih (fun c hc => ha c (by simp [hc]))
    simp [List.takeWhile, List.dropWhile, hy, this]

theorem mem_takeWhile_holds {α} (p : α → Bool) (l : List α) : ∀ x ∈ l.takeWhile p, p x = true := by
  intro x hx
  induction l with
  | nil => simp at hx
  | cons a as ih =>
    simp only [List.takeWhile] at hx
    split at hx
    · next h => simp at hx; rcases hx with rfl | hx; exact h; exact ih hx
    · simp at hx

theorem dropWhile_head_false {α} (p : α → Bool) (l : List α) (x : α) (xs : List α)
    (h : l.dropWhile p = x :: xs) : p x = false := by
  induction l with
  | nil => simp at h
  | cons y ys ih =>
    simp only [List.dropWhile] at h
    split at h
    · exact ih h
    · next hy => simp at h; rw [← h.1]; simpa using hy

/-- the scheme split of urlsplit yields `https` exactly when the value starts with the five letters (any case)
followed by a colon; the rest is what follows the colon -/
theorem splitScheme_https (u : Text) :
    ((splitScheme u).1 = s "https" ↔ (lower (u.take 5) = s "https" ∧ (u.drop 5).take 1 = [':'])) ∧
    ((splitScheme u).1 = s "https" → (splitScheme u).2 = u.drop 6) := by
  have hdecomp := @List.takeWhile_append_dropWhile _ (fun c : Char => c != ':') u
  have key : ∀ pre : Text, lower pre = s "https" →
      pre.length = 5 ∧ (∀ c ∈ pre, (c != ':') = true ∧ isSchemeChar c = true ∧ isAsciiAlpha c = true) := by
    intro pre hp
    refine ⟨by have := congrArg List.length hp; simpa [lower, s] using this, ?_⟩
    intro c hc
    have hm : c.toLower ∈ s "https" := by rw [← hp]; exact List.mem_map_of_mem hc
    have ha : isAsciiAlpha c.toLower = true := by
      have hall : ∀ x ∈ s "https", isAsciiAlpha x = true := by decide
      exact hall _ hm
    have hc' := isAsciiAlpha_of_toLower c ha
    refine ⟨?_, by simp [isSchemeChar, hc'], hc'⟩
    have : c ≠ ':' := by intro e; rw [e] at hc'; exact absurd hc' (by decide)
    simpa using this
  constructor
  · constructor
    · -- model says https ⇒ prefix form
      intro h
      unfold splitScheme at h
      generalize hpre : u.takeWhile (fun c : Char => c != ':') = pre at h hdecomp
      generalize hpost : u.dropWhile (fun c : Char => c != ':') = post at h hdecomp
      cases post with
      | nil => simp only at h; exact absurd h (by decide)
      | cons x rest =>
        cases pre with
        | nil => simp only at h; exact absurd h (by decide)
        | cons c cs =>
          simp only at h
          split at h
          · simp only at h
            have hk := key _ h
            have hx : x = ':' := by
              have := dropWhile_head_false _ u x rest hpost
              simpa using this
            subst hx
            rw [← hdecomp]
            refine ⟨by rw [List.take_left' hk.1]; exact h, ?_⟩
            rw [List.drop_left' hk.1]; rfl
          · simp only at h; exact absurd h (by decide)
    · -- prefix form ⇒ model says https
      rintro ⟨h5, hcolon⟩
      have hk := key _ h5
      have hu : u = u.take 5 ++ u.drop 5 := (List.take_append_drop 5 u).symm
      cases hd : u.drop 5 with
      | nil => rw [hd] at hcolon; simp at hcolon
      | cons x rest =>
        rw [hd] at hcolon hu
        have hx : x = ':' := by simpa using hcolon
        subst hx
        have hs := takeWhile_append_stop (fun c : Char => c != ':') (u.take 5) ':' rest
          (fun c hc => (hk.2 c hc).1) (by simp)
        rw [← hu] at hs
        unfold splitScheme
        rw [hs.1, hs.2]
        cases ht : u.take 5 with
        | nil => rw [ht] at hk; simp at hk
        | cons c cs =>
          rw [ht] at hk h5
          have hc := (hk.2 c (by simp)).2.2
          have hall : (c :: cs).all isSchemeChar = true := by
            rw [List.all_eq_true]; intro y hy; exact (hk.2 y hy).2.1
          simp only [hc, hall, Bool.and_self, ite_true]
          exact h5
  · intro h
    unfold splitScheme at h ⊢
    generalize hpre : u.takeWhile (fun c : Char => c != ':') = pre at h hdecomp
    generalize hpost : u.dropWhile (fun c : Char => c != ':') = post at h hdecomp
    cases post with
    | nil => simp only at h; exact absurd h (by decide)
    | cons x rest =>
      cases pre with
      | nil => simp only at h; exact absurd h (by decide)
      | cons c cs =>
        simp only at h ⊢
        split at h
        · next hcond =>
          simp only at h
          have hk := key _ h
          simp only [hcond, ite_true]
          rw [← hdecomp]
          have : (c :: cs ++ x :: rest).drop 6 = rest := by
            have h6 : (c :: cs ++ x :: rest) = (c :: cs ++ [x]) ++ rest := by simp
            rw [h6]
            exact List.drop_left' (by have := hk.1; simp at this ⊢; omega)
          exact this.symm
        · simp only at h; exact absurd h (by decide)

theorem netlocOf_eq (rest : Text) :
    netlocOf rest = if rest.take 2 == s "//" then (rest.drop 2).takeWhile (fun c => !isNetlocDelim c) else [] := by
  unfold netlocOf
  match rest with
  | [] => rfl
  | [a] => simp [s]
  | a :: b :: r =>
    by_cases ha : a = '/'
    · by_cases hb : b = '/'
      · subst ha; subst hb; simp [s]
      · split
        · next heq => simp at heq; exact absurd heq.2.1 hb
        · simp [s, hb]
    · split
      · next heq => simp at heq; exact absurd heq.1 ha
      · simp [s, ha]

/-- `urlparse` raises exactly when the netloc is not accepted; otherwise it returns the split -/
theorem urlparse_eq (o : Text) (br nf : Bool) :
    urlparse o br nf =
      if netlocAccepted (netlocOf (splitScheme (urlClean o)).2) br nf
      then .ok ⟨(splitScheme (urlClean o)).1, netlocOf (splitScheme (urlClean o)).2⟩
      else .error .valueError := by
  unfold urlparse netlocAccepted
  simp only []
  generalize netlocOf (splitScheme (urlClean o)).2 = n
  have hempty : n.isEmpty = true → n.all (fun c => decide (c.toNat < 128)) = true := by
    intro h; have : n = [] := by simpa using h
    subst this; rfl
  cases h1 : n.contains '[' <;> cases h2 : n.contains ']' <;> cases br <;> cases nf <;>
    cases h3 : n.all (fun c => decide (c.toNat < 128)) <;> cases h4 : n.isEmpty <;> simp_all

theorem httpsNetloc_eq (o : Text) :
    httpsNetloc o =
      if (splitScheme (urlClean o)).1 = s "https" then some (netlocOf (splitScheme (urlClean o)).2) else none := by
  unfold httpsNetloc
  have hs := splitScheme_https (urlClean o)
  generalize urlClean o = u at *
  by_cases h : (splitScheme u).1 = s "https"
  · have hp := hs.1.mp h
    rw [hs.2 h, netlocOf_eq]
    have e8 : List.drop 8 u = List.drop 2 (List.drop 6 u) := by simp
    simp only [h, ite_true, hp.1, hp.2, BEq.rfl, Bool.and_self, e8]
    split <;> rfl
  · have hn : ¬ (lower (u.take 5) = s "https" ∧ (u.drop 5).take 1 = [':']) := fun hh => h (hs.1.mpr hh)
    simp only [h, ite_false]
    by_cases a : lower (u.take 5) = s "https"
    · have b : ¬ (u.drop 5).take 1 = [':'] := fun bb => hn ⟨a, bb⟩
      simp [a, b]
    · simp [a]

/-! ## check_csrf_origin = spec -/

theorem failOrigin_ne_ok_true (raises : Bool) : failOrigin raises ≠ .ok true := by
  cases raises <;> simp [failOrigin]

theorem any_isSameDomain (n : Text) (pats : List Text) :
    (pats.any fun h => isSameDomain n h) = pats.any (matchesPattern n) := by
  induction pats with
  | nil => rfl
  | cons p ps ih => simp only [List.any_cons, ih, isSameDomain_eq]

/-- the verdict of `check_csrf_origin` is the spec's; a refusal is `False` / BadCSRFOrigin and nothing else -/
theorem checkOrigin_eq_spec (tl : List Text) (allowNo raises : Bool) (r : Req) :
    checkOrigin tl allowNo raises r = if specOriginOk tl allowNo r then .ok true else failOrigin raises := by
  unfold checkOrigin checkOriginSt checkOriginCore specOriginOk catchesValueError pickOrigin
  by_cases hs : r.scheme = s "https"
  · simp only [hs, bne_self_eq_false, Bool.false_eq_true, ite_false]
    have viaUrl : ∀ o : Text,
        (match urlparse o r.brHostOk r.nfkcOk with
          | .error e => (if true = true then failOrigin raises else .error e, tl)
          | .ok p =>
            if (p.scheme != s "https") = true then (failOrigin raises, tl)
            else if (!(tl ++ [ownHost r]).any fun h => isSameDomain p.netloc h) = true then (failOrigin raises, tl)
            else (.ok true, tl)).1 =
        if (match httpsNetloc o with
            | some n => netlocAccepted n r.brHostOk r.nfkcOk && (tl ++ [ownHost r]).any (matchesPattern n)
            | none => false) = true then .ok true else failOrigin raises := by
      intro o
      rw [urlparse_eq, httpsNetloc_eq]
      by_cases hacc : netlocAccepted (netlocOf (splitScheme (urlClean o)).2) r.brHostOk r.nfkcOk = true
      · simp only [hacc, ite_true]
        rw [any_isSameDomain]
        by_cases hsch : (splitScheme (urlClean o)).1 = s "https"
        · simp only [hsch, ite_true, hacc, Bool.true_and, bne_self_eq_false, Bool.false_eq_true, ite_false]
          generalize (tl ++ [ownHost r]).any (matchesPattern (netlocOf (splitScheme (urlClean o)).2)) = b
          cases b <;> simp
        · have hne : ((splitScheme (urlClean o)).1 != s "https") = true := by simpa using hsch
          simp only [hsch, ite_false, hne, ite_true]
          simp
      · have hf : netlocAccepted (netlocOf (splitScheme (urlClean o)).2) r.brHostOk r.nfkcOk = false :=
          Bool.eq_false_iff.mpr hacc
        by_cases hsch : (splitScheme (urlClean o)).1 = s "https"
        · simp [hf, hsch]
        · simp [hf, hsch]
    cases ho : header r (s "Origin") with
    | some o =>
      simp only
      by_cases he : lastOrigin o = []
      · cases allowNo <;> simp [he]
      · by_cases hn : lastOrigin o = s "null"
        · have : (lastOrigin o).isEmpty = false := by simpa using he
          simp only [this, Bool.false_eq_true, ite_false, hn, BEq.rfl, Bool.not_false, Bool.true_and, ite_true]
          by_cases hc : (tl ++ [ownHost r]).contains (s "null") = true
          · simp [hc, s]
          · simp [hc, s]
        · have h1 : (lastOrigin o).isEmpty = false := by simpa using he
          have h2 : (lastOrigin o == s "null") = false := by simpa using hn
          have h3 : (lastOrigin o == []) = false := by simpa using he
          simp only [h1, h2, h3, Bool.false_eq_true, ite_false, Bool.not_false, Bool.true_and, Bool.and_false]
          exact viaUrl (lastOrigin o)
    | none =>
      simp only
      cases hr : lookup (s "HTTP_REFERER") r.environ with
      | none => cases allowNo <;> simp
      | some ref =>
        cases ref with
        | nil => cases allowNo <;> simp
        | cons c cs =>
          simp only [List.isEmpty_cons, Bool.false_eq_true, ite_false, Bool.not_true, Bool.false_and]
          exact viaUrl (c :: cs)
  · have : (r.scheme != s "https") = true := by simpa using hs
    simp [this]

/-! ## history independence -/

theorem checkOriginSt_list (tl : List Text) (allowNo raises : Bool) (r : Req) :
    (checkOriginSt tl allowNo raises r).2 = tl := by
  unfold checkOriginSt checkOriginCore
  split
  · rfl
  · split
    · rfl
    · split
      · rfl
      · simp only [ite_true]
        split
        · rfl
        · split <;> (try split) <;> (try split) <;> rfl

theorem checkOriginSeq_eq (allowNo raises : Bool) (tl : List Text) (rs : List Req) :
    checkOriginSeq allowNo raises tl rs = (rs.map (checkOrigin tl allowNo raises), tl) := by
  induction rs with
  | nil => rfl
  | cons r rest ih =>
    unfold checkOriginSeq
    have h := checkOriginSt_list tl allowNo raises r
    cases hc : checkOriginSt tl allowNo raises r with
    | mk v tl' =>
      rw [hc] at h
      simp only at h
      subst h
      simp only [ih, List.map_cons, checkOrigin, hc]

/-! ## from the executable spec to the propositions -/

theorem matchesPattern_iff (host pattern : Text) : matchesPattern host pattern = true ↔ DomainMatches host pattern := by
  unfold matchesPattern DomainMatches
  cases hp : lower pattern with
  | nil =>
    have : pattern = [] := lower_eq_nil.mp hp
    simp [this]
  | cons a as =>
    have hne : pattern ≠ [] := fun e => by rw [e] at hp; simp [lower] at hp
    by_cases ha : a = '.'
    · subst ha
      simp only [Bool.or_eq_true, beq_iff_eq, hasDotSuffix_iff]
      constructor
      · intro h
        exact ⟨hne, Or.inr ⟨as, rfl, h⟩⟩
      · rintro ⟨_, h | ⟨d, hd, h⟩⟩
        · exact Or.inr ⟨[], by simpa using h⟩
        · have : as = d := by simpa using hd
          subst this; exact h
    · split
      · next heq => simp at heq
      · next d heq => simp at heq; exact absurd heq.1 ha
      · next p _ _ =>
        simp only [beq_iff_eq]
        constructor
        · intro h; exact ⟨hne, Or.inl h⟩
        · rintro ⟨_, h | ⟨d, hd, _⟩⟩
          · exact h
          · simp at hd; exact absurd hd.1 ha

theorem httpsNetloc_sound (o n : Text) (h : httpsNetloc o = some n) : HttpsOrigin o n := by
  unfold httpsNetloc at h
  generalize hu : urlClean o = u at h
  unfold HttpsOrigin
  rw [hu]
  by_cases hc : (lower (u.take 5) == s "https" && (u.drop 5).take 1 == [':']) = true
  · simp only [hc, ite_true] at h
    simp only [Bool.and_eq_true, beq_iff_eq] at hc
    obtain ⟨h5, hcol⟩ := hc
    have hd5 : u.drop 5 = ':' :: u.drop 6 := by
      cases hd : u.drop 5 with
      | nil => rw [hd] at hcol; simp at hcol
      | cons x xs =>
        rw [hd] at hcol
        have hx : x = ':' := by simpa using hcol
        have : u.drop 6 = xs := by
          have : u.drop 6 = (u.drop 5).drop 1 := by simp
          rw [this, hd]; rfl
        rw [hx, this]
    refine ⟨u.take 5, u.drop 6, ?_, h5, ?_⟩
    · rw [← hd5]; exact (List.take_append_drop 5 u).symm
    · by_cases h2 : ((u.drop 6).take 2 == s "//") = true
      · simp only [h2, ite_true, Option.some.injEq] at h
        left
        have h2' : (u.drop 6).take 2 = ['/', '/'] := by simpa [s] using h2
        have hd6 : u.drop 6 = '/' :: '/' :: u.drop 8 := by
          have e8 : u.drop 8 = (u.drop 6).drop 2 := by simp
          rw [e8]
          match hm : u.drop 6, h2' with
          | a :: b :: r, h2' => simp at h2'; simp [h2'.1, h2'.2]
        refine ⟨(u.drop 8).dropWhile (fun c => !isNetlocDelim c), ?_, ?_, ?_⟩
        · rw [hd6, ← h, List.takeWhile_append_dropWhile]
        · intro c hcm
          rw [← h] at hcm
          have := mem_takeWhile_holds _ _ c hcm
          simpa using this
        · cases hdw : (u.drop 8).dropWhile (fun c => !isNetlocDelim c) with
          | nil => exact Or.inl rfl
          | cons c t =>
            right
            refine ⟨c, t, rfl, ?_⟩
            have := dropWhile_head_false _ _ c t hdw
            simpa using this
      · have h2f : ((u.drop 6).take 2 == s "//") = false := Bool.eq_false_iff.mpr h2
        simp only [h2f, Bool.false_eq_true, ite_false, Option.some.injEq] at h
        right
        refine ⟨h.symm, ?_⟩
        rintro ⟨t, ht⟩
        apply h2
        rw [ht]; rfl
  · simp [hc] at h

theorem specOriginOk_sound (tl : List Text) (allowNo : Bool) (r : Req)
    (h : specOriginOk tl allowNo r = true) : OriginAccepts tl allowNo r := by
  unfold specOriginOk at h
  unfold OriginAccepts originValue
  by_cases hs : r.scheme = s "https"
  · right
    simp only [hs, bne_self_eq_false, Bool.false_eq_true, ite_false] at h
    have viaUrl : ∀ o : Text, o ≠ [] →
        (match httpsNetloc o with
          | some n => netlocAccepted n r.brHostOk r.nfkcOk && (tl ++ [ownHost r]).any (matchesPattern n)
          | none => false) = true →
        ∃ o' n, some o = some o' ∧ o' ≠ [] ∧ HttpsOrigin o' n ∧ ∃ p ∈ tl ++ [ownHost r], DomainMatches n p := by
      intro o hne hv
      cases hn : httpsNetloc o with
      | none => rw [hn] at hv; simp at hv
      | some n =>
        rw [hn] at hv
        simp only [Bool.and_eq_true] at hv
        obtain ⟨p, hp, hm⟩ := List.any_eq_true.mp hv.2
        exact ⟨o, n, rfl, hne, httpsNetloc_sound o n hn, p, hp, (matchesPattern_iff n p).mp hm⟩
    cases ho : header r (s "Origin") with
    | some o =>
      rw [ho] at h
      simp only at h ⊢
      by_cases he : lastOrigin o = []
      · left
        simp only [he, BEq.rfl, ite_true] at h
        exact ⟨Or.inr (by rw [he]), h⟩
      · have h3 : (lastOrigin o == []) = false := by simpa using he
        simp only [h3, Bool.false_eq_true, ite_false] at h
        by_cases hn : lastOrigin o = s "null"
        · right; left
          simp only [hn, BEq.rfl, ite_true] at h
          refine ⟨rfl, by rw [hn], ?_⟩
          exact List.contains_iff_mem.mp h
        · right; right
          have h2 : (lastOrigin o == s "null") = false := by simpa using hn
          simp only [h2, Bool.false_eq_true, ite_false] at h
          exact viaUrl _ he h
    | none =>
      rw [ho] at h
      simp only at h ⊢
      cases hr : lookup (s "HTTP_REFERER") r.environ with
      | none =>
        rw [hr] at h
        exact Or.inl ⟨Or.inl rfl, h⟩
      | some ref =>
        rw [hr] at h
        cases ref with
        | nil => exact Or.inl ⟨Or.inr rfl, h⟩
        | cons c cs =>
          right; right
          exact viaUrl (c :: cs) (by simp) h
  · exact Or.inl hs

/-! ## the deriver -/

theorem csrfEnabled_eq_spec (c : ViewCfg) : csrfEnabled c = specEnabled c := by
  unfold csrfEnabled specEnabled
  simp only []
  generalize c.opts.requireCsrf = rq
  generalize truthy c.opts.token = t1
  generalize truthy c.opts.header = t2
  generalize c.exceptionOnly = eo
  cases c.explicit with
  | none => cases eo <;> cases rq <;> cases t1 <;> cases t2 <;> decide
  | some b => cases b <;> cases eo <;> cases rq <;> cases t1 <;> cases t2 <;> decide

theorem csrfView_cases (c : ViewCfg) (r : Req) :
    csrfView c r =
      if checksApply c r then
        if c.opts.checkOrigin && !specOriginOk c.trustedSetting c.opts.allowNoOrigin r then .error .badOrigin
        else if specTokenOk c.storage c.opts.token c.opts.header r then .ok () else .error .badToken
      else .ok () := by
  unfold csrfView
  by_cases ha : checksApply c r = true
  · simp only [ha, ite_true]
    rw [checkOrigin_eq_spec, checkToken_eq]
    cases hco : c.opts.checkOrigin <;> cases hso : specOriginOk c.trustedSetting c.opts.allowNoOrigin r <;>
      cases hto : specTokenOk c.storage c.opts.token c.opts.header r <;> simp [failOrigin]
  · simp [ha]

end Pyr.Csrf
