import PyramidModel.Lemmas.SessionNormal
/-!
C10 helper lemmas, part 3: loading, one request, whole histories.
* `load_none`, `load_payload`: `__init__` in closed form for "no usable cookie" and for a cookie the application issued;
* `view_refines`: operations + response callback of one request against the spec (`needsCookie`, `lastStamp`, limit);
* `step_refines`, `history_refines`: the model of a chain of requests refines `Spec.specRun` (simulation relation
  `WorldRel`: same clock, the jar holds the serialised abstract cookies, whose data are JSON-normal).
-/
namespace Pyr.Session
open Spec

/-- hypothesis on the abstract serialiser: what `dumps` produced, `loads` returns — on the JSON-normal domain -/
def RoundTrip {κ : Type} (C : Codec κ) : Prop :=
  ∀ p : Payload, DataNormal p.data = true → C.loads (C.dumps p) = some (Wire.ofPayload p)

/-- the session `__init__` builds when there is no cookie, or `loads` raised `ValueError` -/
def freshSess (now : Q) : Sess :=
  { data := [], created := now, accessed := now, accInt := false, renewed := now, new := true, dirty := false, callbacks := 0 }

theorem load_none (cfg : Cfg) (now : Q) : load cfg now none = some (freshSess now) := by
  rcases cfg with ⟨to, re, soe⟩
  cases to with
  | none => simp [load, freshSess]
  | some t => simp [load, freshSess]

theorem load_notTriple (cfg : Cfg) (now : Q) : load cfg now (some .notTriple) = some (freshSess now) := by
  rcases cfg with ⟨to, re, soe⟩
  cases to with
  | none => simp [load, freshSess]
  | some t => simp [load, freshSess]

/-- the session `__init__` builds from an abstract cookie -/
def loadedSess (cfg : Cfg) (now : Q) (c : ACookie) : Sess :=
  { data := if expired cfg now c then [] else c.data, created := c.created, accessed := c.stamp, accInt := false,
    renewed := c.stamp, new := false, dirty := false, callbacks := 0 }

theorem load_payload (cfg : Cfg) (now : Q) (c : ACookie) :
    load cfg now (some (Wire.ofPayload c.payload)) = some (loadedSess cfg now c) := by
  rcases cfg with ⟨to, re, soe⟩
  cases to with
  | none => simp [load, loadedSess, Wire.ofPayload, ACookie.payload, expired]
  | some t =>
    by_cases h : olderThan now c.stamp t = true <;>
      simp [load, loadedSess, Wire.ofPayload, ACookie.payload, expired, h]

/-- what the response callback does after a view, in the spec's terms -/
def specFinish {κ : Type} (C : Codec κ) (cfg : Cfg) (raised : Bool) (clock : Q) (s0 : Sess) (ops : List (Nat × Op)) : Outcome κ :=
  if needsCookie cfg s0.renewed clock s0.data ops then
    if !cfg.setOnExc && raised then .suppressed
    else
      let st := lastStamp clock (s0.renewed, false) ops
      let c := C.dumps ⟨st.1, st.2, s0.created, endData s0.data ops⟩
      if C.size c > cookieLimit then .oversize else .cookie c
  else .noCookie

/-- a freshly loaded session: not dirty, no callback, `accessed = renewed` still the float of `__init__` -/
def Sess.pristine (s : Sess) : Prop :=
  s.dirty = false ∧ s.callbacks = 0 ∧ s.accessed = s.renewed ∧ s.accInt = false

theorem freshSess_pristine (now : Q) : (freshSess now).pristine := by simp [Sess.pristine, freshSess]
theorem loadedSess_pristine (cfg : Cfg) (now : Q) (c : ACookie) : (loadedSess cfg now c).pristine := by
  simp [Sess.pristine, loadedSess]

theorem view_refines {κ : Type} (C : Codec κ) (cfg : Cfg) (raised : Bool) (clock : Q) (s0 : Sess)
    (ops : List (Nat × Op)) (h0 : s0.pristine) :
    (runOps cfg clock s0 ops).1 = endClock clock ops ∧
    (runOps cfg clock s0 ops).2.1.data = endData s0.data ops ∧
    (runOps cfg clock s0 ops).2.2 = results s0.data ops ∧
    (runOps cfg clock s0 ops).2.1.created = s0.created ∧
    (runOps cfg clock s0 ops).2.1.dirty = needsCookie cfg s0.renewed clock s0.data ops ∧
    (runOps cfg clock s0 ops).2.1.callbacks = (if (runOps cfg clock s0 ops).2.1.dirty then 1 else 0) ∧
    finish C cfg raised (runOps cfg clock s0 ops).2.1 = specFinish C cfg raised clock s0 ops ∧
    ((runOps cfg clock s0 ops).2.1.accessed, (runOps cfg clock s0 ops).2.1.accInt)
      = lastStamp clock (s0.renewed, false) ops := by
  obtain ⟨hd, hcb, hacc, hai⟩ := h0
  obtain ⟨h1, h2, h3, h4⟩ := runOps_char cfg clock s0 ops
  generalize runOps cfg clock s0 ops = run at *
  rcases run with ⟨c1, s1, rs⟩
  simp only at h1 h2 h3 h4 ⊢
  have hfix := Book.afterOps_fixed cfg clock s0.data s0.book ops
  have hdirty := Book.afterOps_dirty cfg clock s0.data s0.book ops
  have hstamp := Book.afterOps_stamp cfg clock s0.data s0.book ops
  have hcbs := Book.afterOps_callbacks cfg clock s0.data s0.book ops (by simp [Sess.book, hd, hcb])
  rw [← h4] at hfix hdirty hstamp hcbs
  simp only [Sess.book, hd, Bool.false_or, hacc, hai] at hfix hdirty hstamp hcbs
  refine ⟨h1, h2, h3, hfix.1, hdirty, hcbs, ?_, hstamp⟩
  have hs1 : s1.accessed = (lastStamp clock (s0.renewed, false) ops).1 := by rw [← hstamp]
  have hs2 : s1.accInt = (lastStamp clock (s0.renewed, false) ops).2 := by rw [← hstamp]
  simp only [finish, specFinish, hdirty, Sess.payload, hs1, hs2, hfix.1, h2]
  cases needsCookie cfg s0.renewed clock s0.data ops <;> simp

/-! ### the simulation relation -/

def WorldRel {κ : Type} (C : Codec κ) (w : World κ) (sw : SWorld) : Prop :=
  w.clock = sw.clock ∧ w.issued = sw.issued.map (fun c => C.dumps c.payload) ∧
  ∀ c ∈ sw.issued, DataNormal c.data = true

inductive PresRel {κ : Type} (C : Codec κ) : Present κ → SPresent → Prop where
  | latest : PresRel C .latest .latest
  | absent : PresRel C .absent .absent
  | issued (k : Nat) : PresRel C (.issued k) (.issued k)
  /-- any cookie value the serialiser refuses -/
  | rejected (c : κ) (h : C.loads c = none) : PresRel C (.other c) .rejected

def ReqRel {κ : Type} (C : Codec κ) (r : Req κ) (sr : SReq) : Prop :=
  r.dq = sr.dq ∧ PresRel C r.present sr.present ∧ r.ops = sr.ops ∧ r.raised = sr.raised

def OutRel {κ : Type} (C : Codec κ) : Outcome κ → SOutcome → Prop
  | .noCookie, .noCookie => True
  | .suppressed, .suppressed => True
  | .oversize, .oversize => True
  | .cookie c, .cookie ac => c = C.dumps ac.payload
  | _, _ => False

/-- the model's observation of a request shows what the spec's does -/
def ObsRel {κ : Type} (C : Codec κ) (o : Obs κ) (so : SObs) : Prop :=
  o.touched = so.touched ∧ o.loadRaised = false ∧
  (so.touched = true → ∃ s0 s1, o.start = some s0 ∧ o.final = some s1 ∧
    s0.data = so.startData ∧ s0.created = so.created ∧ s0.new = so.new ∧ s1.created = so.created ∧
    o.results = so.results ∧ s1.data = so.endData ∧ s1.callbacks = (if s1.dirty then 1 else 0) ∧
    OutRel C o.outcome so.outcome)

theorem resolve_rel {κ : Type} (C : Codec κ) (hrt : RoundTrip C) (w : World κ) (sw : SWorld) (p : Present κ)
    (sp : SPresent) (hw : WorldRel C w sw) (hp : PresRel C p sp) :
    (resolve w p).bind C.loads = (sresolve sw sp).map (fun c => Wire.ofPayload c.payload) ∧
    ∀ c, sresolve sw sp = some c → DataNormal c.data = true := by
  obtain ⟨_, hiss, hnorm⟩ := hw
  have key : ∀ (o : Option ACookie), (∀ c, o = some c → c ∈ sw.issued) →
      (o.map (fun c => C.dumps c.payload)).bind C.loads = o.map (fun c => Wire.ofPayload c.payload) := by
    intro o ho
    cases o with
    | none => rfl
    | some c => simpa using hrt c.payload (hnorm c (ho c rfl))
  cases hp with
  | latest =>
    have hmem : ∀ c, sw.issued.head? = some c → c ∈ sw.issued := fun c h => List.mem_of_head? h
    refine ⟨?_, fun c h => hnorm c (hmem c h)⟩
    simp only [resolve, sresolve, hiss, List.head?_map]
    exact key _ hmem
  | absent => simp [resolve, sresolve]
  | issued k =>
    have hmem : ∀ c, sw.issued[k]? = some c → c ∈ sw.issued := fun c h => List.mem_of_getElem? h
    refine ⟨?_, fun c h => hnorm c (hmem c h)⟩
    simp only [resolve, sresolve, hiss, List.getElem?_map]
    exact key _ hmem
  | rejected c h => simp [resolve, sresolve, h]

/-- the response callback against the spec's outcome, and what it does to the jar -/
theorem out_rel_aux {κ : Type} (C : Codec κ) (need sup : Bool) (ac' : ACookie) (wi : List κ) (si : List ACookie)
    (hi : wi = si.map (fun c => C.dumps c.payload)) (hn : ∀ c ∈ si, DataNormal c.data = true)
    (hfn : DataNormal ac'.data = true) (out : Outcome κ) (sout : SOutcome)
    (hout : out = if need then (if sup then .suppressed
                      else if C.size (C.dumps ac'.payload) > cookieLimit then .oversize else .cookie (C.dumps ac'.payload))
                  else .noCookie)
    (hsout : sout = if need then (if sup then .suppressed
                      else if C.size (C.dumps ac'.payload) > cookieLimit then .oversize else .cookie ac')
                  else .noCookie) :
    OutRel C out sout ∧
    (match out with | .cookie c => c :: wi | _ => wi)
      = (match sout with | .cookie c => c :: si | _ => si).map (fun (c : ACookie) => C.dumps c.payload) ∧
    ∀ c ∈ (match sout with | .cookie c => c :: si | _ => si), DataNormal c.data = true := by
  subst hout hsout
  cases need with
  | false => exact ⟨by simp [OutRel], by simpa using hi, by simpa using hn⟩
  | true =>
    cases sup with
    | true => exact ⟨by simp [OutRel], by simpa using hi, by simpa using hn⟩
    | false =>
      by_cases hsz : C.size (C.dumps ac'.payload) > cookieLimit
      · simp only [if_true, hsz, Bool.false_eq_true, if_false]
        exact ⟨by simp [OutRel], hi, hn⟩
      · simp only [if_true, hsz, Bool.false_eq_true, if_false]
        refine ⟨by simp [OutRel], by simp [hi], ?_⟩
        intro c hc
        rcases List.mem_cons.1 hc with h | h
        · rw [h]; exact hfn
        · exact hn c h

theorem step_refines {κ : Type} (C : Codec κ) (hrt : RoundTrip C) (cfg : Cfg) (w : World κ) (sw : SWorld)
    (r : Req κ) (sr : SReq) (hw : WorldRel C w sw) (hr : ReqRel C r sr)
    (hn : ∀ ops, sr.ops = some ops → OpsNormal ops = true) :
    WorldRel C (stepReq C cfg w r).1 (specStep (fun p => C.size (C.dumps p)) cfg sw sr).1 ∧
    ObsRel C (stepReq C cfg w r).2 (specStep (fun p => C.size (C.dumps p)) cfg sw sr).2 := by
  obtain ⟨hdq, hpres, hops, hraised⟩ := hr
  have hclock : w.clock = sw.clock := hw.1
  cases hso : sr.ops with
  | none =>
    have hro : r.ops = none := by rw [hops, hso]
    simp only [stepReq, specStep, hro, hso, hclock, hdq]
    exact ⟨⟨rfl, hw.2.1, hw.2.2⟩, by simp [ObsRel]⟩
  | some ops =>
    have hro : r.ops = some ops := by rw [hops, hso]
    have hnorm := hn ops hso
    obtain ⟨hres, hresn⟩ := resolve_rel C hrt w sw r.present sr.present hw hpres
    simp only [stepReq, specStep, hro, hso, hres, hclock, hdq, hraised]
    cases hp : sresolve sw sr.present with
    | none =>
      simp only [Option.map_none, load_none, Option.isNone_none]
      obtain ⟨v1, v2, v3, v4, v5, v6, v7, v8⟩ :=
        view_refines C cfg sr.raised (sw.clock + sr.dq) (freshSess (sw.clock + sr.dq)) ops (freshSess_pristine _)
      generalize runOps cfg (sw.clock + sr.dq) (freshSess (sw.clock + sr.dq)) ops = run at *
      rcases run with ⟨c1, s1, rs⟩
      simp only at v1 v2 v3 v4 v5 v6 v7 v8 ⊢
      have hfn : DataNormal (endData [] ops) = true := endData_normal [] ops DataNormal_nil hnorm
      obtain ⟨o1, o2, o3⟩ := out_rel_aux C (needsCookie cfg (sw.clock + sr.dq) (sw.clock + sr.dq) [] ops)
        (!cfg.setOnExc && sr.raised)
        ⟨(lastStamp (sw.clock + sr.dq) (sw.clock + sr.dq, false) ops).1, (lastStamp (sw.clock + sr.dq) (sw.clock + sr.dq, false) ops).2,
          sw.clock + sr.dq, endData [] ops⟩ w.issued sw.issued hw.2.1 hw.2.2 hfn (finish C cfg sr.raised s1) _ v7 rfl
      exact ⟨⟨v1, o2, o3⟩, rfl, rfl, fun _ => ⟨_, _, rfl, rfl, rfl, rfl, rfl, v4, v3, v2, v6, o1⟩⟩
    | some ac =>
      simp only [Option.map_some, load_payload, Option.isNone_some]
      obtain ⟨v1, v2, v3, v4, v5, v6, v7, v8⟩ :=
        view_refines C cfg sr.raised (sw.clock + sr.dq) (loadedSess cfg (sw.clock + sr.dq) ac) ops (loadedSess_pristine _ _ _)
      generalize runOps cfg (sw.clock + sr.dq) (loadedSess cfg (sw.clock + sr.dq) ac) ops = run at *
      rcases run with ⟨c1, s1, rs⟩
      simp only at v1 v2 v3 v4 v5 v6 v7 v8 ⊢
      have hsn : DataNormal (if expired cfg (sw.clock + sr.dq) ac then [] else ac.data) = true := by
        split
        · exact DataNormal_nil
        · exact hresn ac hp
      have hfn := endData_normal _ ops hsn hnorm
      obtain ⟨o1, o2, o3⟩ := out_rel_aux C
        (needsCookie cfg ac.stamp (sw.clock + sr.dq) (if expired cfg (sw.clock + sr.dq) ac then [] else ac.data) ops)
        (!cfg.setOnExc && sr.raised)
        ⟨(lastStamp (sw.clock + sr.dq) (ac.stamp, false) ops).1, (lastStamp (sw.clock + sr.dq) (ac.stamp, false) ops).2,
          ac.created, endData (if expired cfg (sw.clock + sr.dq) ac then [] else ac.data) ops⟩
        w.issued sw.issued hw.2.1 hw.2.2 hfn (finish C cfg sr.raised s1) _ v7 rfl
      exact ⟨⟨v1, o2, o3⟩, rfl, rfl, fun _ => ⟨_, _, rfl, rfl, rfl, rfl, rfl, v4, v3, v2, v6, o1⟩⟩

/-- requests of the history pairwise related, operations with JSON-normal arguments -/
def HistRel {κ : Type} (C : Codec κ) : List (Req κ) → List SReq → Prop
  | [], [] => True
  | r :: rs, sr :: srs => ReqRel C r sr ∧ (∀ ops, sr.ops = some ops → OpsNormal ops = true) ∧ HistRel C rs srs
  | _, _ => False

def ObsListRel {κ : Type} (C : Codec κ) : List (Obs κ) → List SObs → Prop
  | [], [] => True
  | o :: os, so :: sos => ObsRel C o so ∧ ObsListRel C os sos
  | _, _ => False

theorem history_refines {κ : Type} (C : Codec κ) (hrt : RoundTrip C) (cfg : Cfg) (w : World κ) (sw : SWorld)
    (rs : List (Req κ)) (srs : List SReq) (hw : WorldRel C w sw) (hh : HistRel C rs srs) :
    WorldRel C (runHistory C cfg w rs).1 (specRun (fun p => C.size (C.dumps p)) cfg sw srs).1 ∧
    ObsListRel C (runHistory C cfg w rs).2 (specRun (fun p => C.size (C.dumps p)) cfg sw srs).2 := by
  induction rs generalizing w sw srs with
  | nil =>
    cases srs with
    | nil => exact ⟨hw, trivial⟩
    | cons _ _ => exact absurd hh (by simp [HistRel])
  | cons r rest ih =>
    cases srs with
    | nil => exact absurd hh (by simp [HistRel])
    | cons sr srest =>
      obtain ⟨hr, hn, hrest⟩ := hh
      obtain ⟨hw', ho⟩ := step_refines C hrt cfg w sw r sr hw hr hn
      obtain ⟨hw'', hos⟩ := ih _ _ srest hw' hrest
      simp only [runHistory, specRun]
      exact ⟨hw'', ho, hos⟩

end Pyr.Session
