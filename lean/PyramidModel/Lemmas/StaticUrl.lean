import PyramidModel.StaticUrl
import PyramidModel.Lemmas.Static
import PyramidModel.Lemmas.PctCode
/-! Helper lemmas for the configuration / URL side of C16 (`StaticUrl.lean`).  Property theorems are in
`Props/C16.lean` §5. -/
namespace Pyr.StaticUrl

open Pyr Pyr.Url Pyr.Pct
open Pyr.Trav (Seg Bytes splitOn joinWith utf8Enc utf8Dec unquoteToBytes quoteBytes asciiEncode decodePathInfo splitPathInfo)

/-- a spec that ends with a separator: `/` or the `:` of a whole-package spec -/
def Terminated (spec : Text) : Prop := endsWithC spec '/' = true ∨ endsWithC spec ':' = true

instance (s : Text) : Decidable (Terminated s) := by unfold Terminated; infer_instance

theorem normSpec_terminated (s : Text) : Terminated (normSpec s) := by
  unfold normSpec Terminated
  by_cases h : (endsWithC s '/' || endsWithC s ':') = true
  · simp only [h, if_true]
    simpa using h
  · simp only [h]
    left
    simp [endsWithC]

theorem normName_slash (n : Text) : endsWithC (normName n) '/' = true := by
  unfold normName
  by_cases h : endsWithC n '/' = true
  · simp [h]
  · simp only [h]
    simp [endsWithC]

theorem mem_eraseFirstUrl (name : Text) (regs : List StaticReg) (r : StaticReg) (h : r ∈ eraseFirstUrl name regs) :
    r ∈ regs := by
  induction regs with
  | nil => simp [eraseFirstUrl] at h
  | cons x rest ih =>
    unfold eraseFirstUrl at h
    split at h
    · exact List.mem_cons_of_mem _ h
    · rcases List.mem_cons.mp h with e | m
      · simp [e]
      · exact List.mem_cons_of_mem _ (ih m)

/-- every registration carries a terminated spec, and an external one a base URL ending in `/` -/
def RegOk (r : StaticReg) : Prop := Terminated r.spec ∧ ∀ u, r.url = some u → endsWithC u '/' = true

theorem register_ok (pfx : Option Text) (regs : List StaticReg) (name spec : Text) (h : ∀ r ∈ regs, RegOk r) :
    ∀ r ∈ register pfx regs name spec, RegOk r := by
  intro r hr
  unfold register at hr
  rcases List.mem_append.mp hr with m | m
  · exact h r (mem_eraseFirstUrl _ _ _ m)
  · simp only [List.mem_singleton] at m
    subst m
    split
    · exact ⟨normSpec_terminated spec, fun u hu => by simp only [Option.some.injEq] at hu; subst hu; exact normName_slash name⟩
    · exact ⟨normSpec_terminated spec, fun u hu => by simp at hu⟩

theorem registerAll_ok (pfx : Option Text) (adds : List (Text × Text)) : ∀ r ∈ registerAll pfx adds, RegOk r := by
  unfold registerAll
  suffices H : ∀ (init : List StaticReg), (∀ r ∈ init, RegOk r) →
      ∀ r ∈ adds.foldl (fun regs a => register pfx regs a.1 a.2) init, RegOk r from H [] (by simp)
  induction adds with
  | nil => intro init h; simpa using h
  | cons a rest ih =>
    intro init h
    simp only [List.foldl_cons]
    exact ih _ (register_ok pfx init a.1 a.2 h)

/-- number of registrations whose URL column is `u` -/
def countUrl (u : Text) (regs : List StaticReg) : Nat := regs.countP fun r => r.url = some u

theorem countUrl_eraseFirst (u : Text) (regs : List StaticReg) :
    countUrl u (eraseFirstUrl u regs) = countUrl u regs - 1 := by
  induction regs with
  | nil => simp [eraseFirstUrl, countUrl]
  | cons x rest ih =>
    unfold eraseFirstUrl
    by_cases h : x.url = some u
    · simp [h, countUrl]
    · simp only [h, if_false]
      unfold countUrl at ih ⊢
      simp only [List.countP_cons, h, decide_false, Bool.false_eq_true, if_false, Nat.add_zero]
      exact ih

theorem countUrl_eraseFirst_ne (u w : Text) (hne : w ≠ u) (regs : List StaticReg) :
    countUrl w (eraseFirstUrl u regs) = countUrl w regs := by
  induction regs with
  | nil => simp [eraseFirstUrl, countUrl]
  | cons x rest ih =>
    unfold eraseFirstUrl
    by_cases h : x.url = some u
    · have : x.url ≠ some w := by rw [h]; simpa using fun e => hne e.symm
      simp [h, countUrl, hne.symm]
    · simp only [h, if_false]
      unfold countUrl at ih ⊢
      simp only [List.countP_cons, ih]

/-! ### the way back: what a WSGI server makes of a generated path -/

/-- `unquote_to_bytes` of the ASCII URL path: the bytes behind PATH_INFO -/
def requestBytes (urlPath : Text) : Option Bytes := (asciiEncode urlPath).map unquoteToBytes

theorem unq_quote_append (safe : List UInt8) (hs : SafeOk safe) (bs rest : Bytes) :
    unquoteToBytes (toBytes (quoteBytes safe bs) ++ rest) = bs ++ unquoteToBytes rest := by
  induction bs with
  | nil => simp [quoteBytes, toBytes]
  | cons b bs ih =>
    unfold quoteBytes
    split
    · rename_i h
      have hk := kept_byte safe hs b h
      simp only [toBytes, List.map_cons, byte_of_byteChar, List.cons_append]
      rw [unq_cons_ne _ _ hk.2]
      simp only [toBytes] at ih
      rw [ih]
    · have h1 := hexDigit_facts _ (byte_div_lt b)
      have h2 := hexDigit_facts _ (byte_mod_lt b)
      simp only [toBytes, List.map_cons, List.cons_append]
      have e : UInt8.ofNat ('%' : Char).toNat = 37 := by decide
      rw [e, unq_pct _ _ _ _ _ h1.1 h2.1, byte_split]
      simp only [toBytes] at ih
      rw [ih]

theorem utf8Enc_append (a b : Text) : utf8Enc (a ++ b) = utf8Enc a ++ utf8Enc b := by
  simp [utf8Enc, List.flatMap_append]

/-- a path made of two quoted parts is received as the UTF-8 bytes of the two parts -/
theorem requestBytes_quote_quote (s1 s2 : List UInt8) (h1 : SafeOk s1) (h2 : SafeOk s2) (a b : Text) :
    requestBytes (quote s1 a ++ quote s2 b) = some (utf8Enc (a ++ b)) := by
  unfold requestBytes quote
  have hascii : ∀ c ∈ quoteBytes s1 (utf8Enc a) ++ quoteBytes s2 (utf8Enc b), c.toNat < 128 := by
    intro c hc
    rcases List.mem_append.mp hc with m | m
    · exact quoteBytes_ascii s1 h1 _ c m
    · exact quoteBytes_ascii s2 h2 _ c m
  rw [asciiEncode_of_ascii _ hascii]
  simp only [Option.map_some, Option.some.injEq]
  have : toBytes (quoteBytes s1 (utf8Enc a) ++ quoteBytes s2 (utf8Enc b)) =
      toBytes (quoteBytes s1 (utf8Enc a)) ++ toBytes (quoteBytes s2 (utf8Enc b)) := by simp [toBytes]
  rw [this, unq_quote_append s1 h1, unquoteToBytes_quoteBytes s2 h2, utf8Enc_append]

theorem routeRemainder_append (lit sub : Text) : Pyr.Static.routeRemainder lit (lit ++ sub) = some sub := by
  unfold Pyr.Static.routeRemainder
  have h : lit.isPrefixOf (lit ++ sub) = true := by simp
  simp [h]

/-- a subpath whose segments are proper is its own normalisation -/
theorem splitPathInfo_proper (sub : Text) (h : ∀ s ∈ splitOn '/' sub, Pyr.Static.Proper s) :
    splitPathInfo sub = splitOn '/' sub := by
  rw [Pyr.Trav.splitPathInfo_eq]
  exact Pyr.Trav.normSegs_of_clean _ (fun s hs => ⟨(h s hs).1, (h s hs).2.1, (h s hs).2.2.1⟩)

/-! ### busters -/

theorem find?_reverse_split {α} (p : α → Bool) (l : List α) (b : α) (h : l.reverse.find? p = some b) :
    p b = true ∧ ∃ pre post, l = pre ++ b :: post ∧ ∀ x ∈ post, p x = false := by
  obtain ⟨hb, as, cs, e, hno⟩ := List.find?_eq_some_iff_append.mp h
  refine ⟨hb, cs.reverse, as.reverse, ?_, ?_⟩
  · have := congrArg List.reverse e
    simpa using this
  · intro x hx
    have := hno x (List.mem_reverse.mp hx)
    simpa using this

/-! ### the shapes the translator's probes are compared in (`extract/c16.py`) -/

def probeEnv : Env := ⟨"http".toList, some "localhost:80".toList, "localhost".toList, "80".toList, []⟩

def regTuples (regs : List StaticReg) : List (Option Text × Text × Text) := regs.map fun r => (r.url, r.spec, r.routeName)

def bustersOf (seq : List (Text × Bool)) : List (Text × Bool) :=
  (seq.foldl (fun bs x => addCacheBuster bs x.1 (.query ['t'] ['t']) x.2) []).map fun b => (b.spec, b.explicit)

/-- `request.static_path(asset, _query=q)` on the probe's request -/
def probeGenerate (adds : List (Text × Text)) (busters : List (Text × Bool × Bool × Text × Text × List (Text × Text)))
    (asset : Text) (q : Option (Bool × List (Text × Text))) : String × Text :=
  let bs := busters.foldl (fun acc b =>
    addCacheBuster acc b.1 (if b.2.1 then .manifest b.2.2.2.2.2 else .query b.2.2.2.1 b.2.2.2.2.1) b.2.2.1) []
  let o : Ovr := { appUrl := some (quotedScriptName probeEnv),
                   query := match q with
                     | none => .absent
                     | some (_, ps) => .pairs (ps.map fun p => (p.1, .one p.2)) }
  match generate probeEnv (routesOf none adds) (registerAll none adds) bs (fun _ => none) asset o
      (match q with | some (d, _) => d | none => false) with
  | .ok u => ("url", u)
  | .error .noStatic => ("nostatic", [])
  | .error _ => ("error", [])

end Pyr.StaticUrl
