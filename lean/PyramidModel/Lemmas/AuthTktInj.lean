/-
C09 helper lemmas, part 6: the bytes that are hashed determine the fields (for NUL-free issued fields), so a MAC
that cannot be forged pins the identity.
-/
import PyramidModel.Lemmas.AuthTktIssue

namespace Pyr.AuthTkt

/-- no U+0000 in a text -/
def NulFree (t : Text) : Prop := ∀ c ∈ t, c.toNat ≠ 0

theorem utf8EncChar_nulfree (c : Char) (h : c.toNat ≠ 0) : (0 : UInt8) ∉ utf8EncChar c := by
  have hv := char_valid c
  intro hm
  unfold utf8EncChar at hm
  simp only at hm
  have key : ∀ n : Nat, n < 256 → n ≠ 0 → byteOfNat n ≠ 0 := by
    intro n hn h0 he
    have := congrArg UInt8.toNat he
    rw [toNat_byteOfNat hn] at this
    simp at this
    exact h0 this
  split at hm
  · simp at hm
    exact key _ (by omega) h hm.symm
  · split at hm
    · simp at hm
      rcases hm with hm | hm
      · exact key _ (by omega) (by omega) hm.symm
      · exact key _ (by omega) (by omega) hm.symm
    · split at hm
      · simp at hm
        rcases hm with hm | hm | hm
        · exact key _ (by omega) (by omega) hm.symm
        · exact key _ (by omega) (by omega) hm.symm
        · exact key _ (by omega) (by omega) hm.symm
      · simp at hm
        rcases hm with hm | hm | hm | hm
        · exact key _ (by omega) (by omega) hm.symm
        · exact key _ (by omega) (by omega) hm.symm
        · exact key _ (by omega) (by omega) hm.symm
        · exact key _ (by omega) (by omega) hm.symm

theorem utf8Enc_nulfree (t : Text) (h : NulFree t) : (0 : UInt8) ∉ utf8Enc t := by
  intro hm
  simp only [utf8Enc, List.mem_flatMap] at hm
  obtain ⟨c, hc, hm⟩ := hm
  exact utf8EncChar_nulfree c (h c hc) hm

/-- a NUL-free prefix before the first NUL is determined -/
theorem split_at_nul (a a' r r' : Bytes) (ha : (0 : UInt8) ∉ a) (ha' : (0 : UInt8) ∉ a')
    (h : a ++ 0 :: r = a' ++ 0 :: r') : a = a' ∧ r = r' := by
  induction a generalizing a' with
  | nil =>
    cases a' with
    | nil => simpa using h
    | cons x xs =>
      simp at h
      exact absurd h.1.symm (fun e => ha' (by simp [e]))
  | cons x xs ih =>
    cases a' with
    | nil =>
      simp at h
      exact absurd h.1 (fun e => ha (by simp [e]))
    | cons y ys =>
      simp at h
      obtain ⟨rfl, h⟩ := h
      have := ih ys (fun e => ha (by simp [e])) (fun e => ha' (by simp [e])) h
      exact ⟨by rw [this.1], this.2⟩

/-- three fields separated by NULs: when the fields on one side are NUL-free, both sides agree field by field -/
theorem fields_split (u t d u' t' d' : Bytes) (hu : (0 : UInt8) ∉ u) (ht : (0 : UInt8) ∉ t) (hd : (0 : UInt8) ∉ d)
    (h : u ++ 0 :: (t ++ 0 :: d) = u' ++ 0 :: (t' ++ 0 :: d')) : u = u' ∧ t = t' ∧ d = d' := by
  have hc := congrArg (List.count (0 : UInt8)) h
  simp only [List.count_append, List.count_cons_self] at hc
  have c1 := List.count_eq_zero.mpr hu
  have c2 := List.count_eq_zero.mpr ht
  have c3 := List.count_eq_zero.mpr hd
  have hu' : (0 : UInt8) ∉ u' := List.count_eq_zero.mp (by omega)
  have ht' : (0 : UInt8) ∉ t' := List.count_eq_zero.mp (by omega)
  obtain ⟨e1, h2⟩ := split_at_nul u u' _ _ hu hu' h
  obtain ⟨e2, e3⟩ := split_at_nul t t' _ _ ht ht' h2
  exact ⟨e1, e2, e3⟩

/-- **encoding injectivity**: with the same secret and an address/timestamp prefix of the same width, the hashed
bytes determine the prefix and the three fields — provided the fields on one side (the issued ones) are NUL-free -/
theorem digestInput_injective (ipts ipts' secret : Bytes) (u t d u' t' d' : Text)
    (hlen : ipts.length = ipts'.length) (hu : NulFree u) (ht : NulFree t) (hd : NulFree d)
    (h : digestInput ipts secret u t d = digestInput ipts' secret u' t' d') :
    ipts = ipts' ∧ u = u' ∧ t = t' ∧ d = d' := by
  simp only [digestInput, List.append_assoc] at h
  obtain ⟨e0, h1⟩ := List.append_inj h hlen
  have h2 := List.append_cancel_left h1
  simp only [List.singleton_append] at h2
  obtain ⟨e1, e2, e3⟩ := fields_split _ _ _ _ _ _ (utf8Enc_nulfree u hu) (utf8Enc_nulfree t ht) (utf8Enc_nulfree d hd) h2
  exact ⟨e0, utf8Enc_injective e1, utf8Enc_injective e2, utf8Enc_injective e3⟩

/-! ### the issued fields are NUL-free -/

theorem decStr_nulfree (z : Int) : NulFree (decStr z) := by
  intro c hc
  rcases decStr_chars z c hc with rfl | ⟨d, hd, rfl⟩
  · decide
  · exact (digitChar_facts ⟨d, by omega⟩).2.2.2.2.2.2.2.2.2.2.2

theorem b64enc_nulfree (bs : Bytes) : NulFree (b64enc bs) := fun c hc => (b64enc_chars bs c hc).2.1

theorem encodeUserid_nulfree (u : UserId) : NulFree (encodeUserid u).2 := by
  cases u <;> simp only [encodeUserid]
  · exact decStr_nulfree _
  · exact b64enc_nulfree _
  · exact b64enc_nulfree _
  · exact b64enc_nulfree _

theorem tag_nulfree (u : UserId) : NulFree (userIdTypePrefix ++ (encodeUserid u).1) := by
  cases u <;> simp only [encodeUserid] <;> unfold NulFree <;> decide

theorem validToken_nulfree (t : Text) (h : validToken t = true) : NulFree t := by
  cases t with
  | nil => intro c hc; simp at hc
  | cons c r =>
    simp only [validToken, Bool.and_eq_true, Bool.or_eq_true] at h
    have tok0 : ∀ x : Char, isTokChar x = true → x.toNat ≠ 0 := by
      intro x hx h0
      simp [isTokChar, isAlpha, h0] at hx
      rcases hx with (rfl | rfl) | rfl <;> simp at h0
    intro x hx
    simp at hx
    rcases hx with rfl | hx
    · exact tok0 x (by simp [isTokChar, h.1])
    · rcases h.2 with h2 | h2
      · exact tok0 x (List.all_eq_true.mp h2 x hx)
      · cases hl : r.getLast? with
        | none => simp [hl] at h2
        | some l =>
          simp only [hl, Bool.and_eq_true, decide_eq_true_eq] at h2
          have hne : r ≠ [] := by intro e; simp [e] at hl
          have hr := List.dropLast_concat_getLast hne
          rw [List.getLast?_eq_some_getLast hne] at hl
          simp at hl
          rw [hl] at hr
          rw [← hr] at hx
          simp at hx
          rcases hx with hx | rfl
          · exact tok0 x (List.all_eq_true.mp h2.2 x hx)
          · rw [h2.1]; decide

theorem intercalate_nulfree (tl : List Text) (h : ∀ t ∈ tl, validToken t = true) :
    NulFree (List.intercalate [','] tl) := by
  induction tl with
  | nil => intro c hc; simp [List.intercalate] at hc
  | cons t r ih =>
    cases r with
    | nil =>
      simp [List.intercalate]
      exact validToken_nulfree t (h t (by simp))
    | cons t2 r2 =>
      have e : List.intercalate [','] (t :: t2 :: r2) = t ++ ',' :: List.intercalate [','] (t2 :: r2) := by
        simp [List.intercalate, List.intersperse]
      rw [e]
      intro c hc
      simp only [List.mem_append, List.mem_cons] at hc
      rcases hc with hc | rfl | hc
      · exact validToken_nulfree t (h t (by simp)) c hc
      · decide
      · exact ih (fun x hx => h x (by simp [hx])) c hc

/-! ### the address/timestamp prefix -/

theorem mapM_ok_length {α β : Type} (f : α → Res β) (l : List α) (r : List β) (h : l.mapM f = .ok r) :
    r.length = l.length := by
  induction l generalizing r with
  | nil => simp [pure, Except.pure] at h; subst h; rfl
  | cons a l ih =>
    simp only [List.mapM_cons, bind, Except.bind] at h
    cases hf : f a with
    | error e => simp [hf] at h
    | ok b =>
      simp only [hf] at h
      cases hl : l.mapM f with
      | error e => simp [hl] at h
      | ok bs =>
        simp [hl, pure, Except.pure] at h
        subst h
        simp [ih bs hl]

/-- for a dotted (IPv4) address the prefix has a fixed width: one byte per part and four for the timestamp -/
theorem ipTimestamp_v4_length (U : Uni) (ip : Text) (ts : Int) (b : Bytes) (hv4 : ip.contains ':' = false)
    (h : ipTimestamp U ip ts = .ok b) : b.length = (splitAll '.' ip).length + 4 := by
  unfold ipTimestamp at h
  simp only [hv4, Bool.false_eq_true, if_false, bind, Except.bind] at h
  cases hm : (splitAll '.' ip).mapM (ipOctet U) with
  | error e => simp [hm] at h
  | ok octs =>
    simp only [hm] at h
    split at h
    · simp [pure, Except.pure] at h
      subst h
      simp [mapM_ok_length _ _ _ hm]
    · simp [throw, throwThe, MonadExceptOf.throw] at h

theorem latin1Enc_length (t : Text) (b : Bytes) (h : latin1Enc t = .ok b) : b.length = t.length := by
  induction t generalizing b with
  | nil => simp [latin1Enc, pure, Except.pure] at h; subst h; rfl
  | cons c r ih =>
    unfold latin1Enc at h
    split at h
    · cases hr : latin1Enc r with
      | error e => simp [hr, Functor.map, Except.map] at h
      | ok br =>
        simp [hr, Functor.map, Except.map] at h
        subst h
        simp [ih br hr]
    · simp [throw, throwThe, MonadExceptOf.throw] at h

/-- for an address containing `:` (IPv6) the prefix is `ip + str(ts)`: its width is that of the decimal timestamp -/
theorem ipTimestamp_v6_length (U : Uni) (ip : Text) (ts : Int) (b : Bytes) (hv6 : ip.contains ':' = true)
    (h : ipTimestamp U ip ts = .ok b) : b.length = ip.length + (decStr ts).length := by
  unfold ipTimestamp at h
  simp only [hv6, if_true] at h
  simpa using latin1Enc_length _ _ h

theorem decStr_injective {a b : Int} (h : decStr a = decStr b) : a = b := by
  have ha := pyInt_decStr ⟨fun _ => false, fun _ => none⟩ a
  rw [h, pyInt_decStr] at ha
  simpa using ha.symm

/-! ### the MAC hypothesis -/

/-- **Unforgeability, as a hypothesis about the hash and the adversary**: the digest text `d` presented by the client
is the MAC, under `secret`, of no byte string other than those the server itself MACed (`issued`) -/
def MacSecure (H : Hash) (secret : Bytes) (issued : List Bytes) (d : Text) : Prop :=
  ∀ x, mac H secret x = d → x ∈ issued

end Pyr.AuthTkt
