import PyramidModel.Lemmas.UrlGenUnique
/-! C06 helper lemmas, part 4: definedness under `sepOk`, error analysis of the substitution, character set of the
output, cutting the request target, the element cache.  Property theorems are in `Props/C06.lean`. -/
namespace Pyr.UrlGen

open Pyr Pyr.Trav Pyr.Pct Pyr.Route
open Pyr.Rx (Rx Ucd Lang)

/-! ### under `sepOk` the intended path and dictionary are defined -/

theorem sepOk_defined (kw : Kw) : ∀ (toks : List Tok), sepOk kw toks = true →
    ∃ I E, intended kw toks = some I ∧ expectEnv kw toks = some E
  | [], _ => ⟨[], [], rfl, rfl⟩
  | .lit l :: ts, h => by
    obtain ⟨I, E, hi, he⟩ := sepOk_defined kw ts (by simpa [sepOk] using h)
    exact ⟨l ++ I, E, by simp [intended, hi], by simp [expectEnv, he]⟩
  | .ph n rx :: ts, h => by
    obtain ⟨_, ⟨a, t, hlk, ha, _, _⟩, hs'⟩ := sepOk_ph kw n rx ts h
    obtain ⟨I, E, hi, he⟩ := sepOk_defined kw ts hs'
    exact ⟨t ++ I, (n, .str t) :: E, by simp [intended, hlk, ha, hi], by simp [expectEnv, hlk, expectVal, ha, he]⟩
  | .rest n :: ts, h => by
    simp only [sepOk, Bool.and_eq_true, List.isEmpty_iff] at h
    obtain ⟨hts, hv⟩ := h
    subst hts
    cases hl : kw.lookup n with
    | none => simp [hl] at hv
    | some v =>
      simp only [hl] at hv
      have ht : ∃ t, restText v = some t := by
        cases v with
        | one a =>
          simp only [restValueOk] at hv
          obtain ⟨t, ht⟩ := Option.isSome_iff_exists.mp hv
          exact ⟨t, by simp [restText, ht]⟩
        | many xs =>
          simp only [restValueOk] at hv
          cases hx : atomTexts xs with
          | none => simp [hx] at hv
          | some ts => exact ⟨joinWith '/' ts, by simp [restText, hx]⟩
      obtain ⟨t, ht⟩ := ht
      exact ⟨t ++ [], [(n, .segs (splitPathInfo t))], by simp [intended, hl, ht],
        by simp [expectEnv, hl, expectVal_rest n v t hv ht]⟩

theorem intended_lead (kw : Kw) (toks : List Tok) (I : Text) (h : leadSlash toks = true) (hi : intended kw toks = some I) :
    I ≠ [] := by
  cases toks with
  | nil => simp [leadSlash] at h
  | cons t ts =>
    cases t with
    | ph n rx => simp [leadSlash] at h
    | rest n => simp [leadSlash] at h
    | lit l =>
      obtain ⟨I', _, rfl⟩ := intended_lit kw l ts I hi
      cases l with
      | nil => simp [leadSlash] at h
      | cons c l => simp

/-! ### when the substitution fails -/

theorem substToks_error (nd : List (Text × Text)) : ∀ (toks : List Tok) (e : Err), substToks nd toks = .error e →
    e = .keyError ∧ ∃ n ∈ tokNames toks, nd.lookup n = none
  | [], e, h => by simp [substToks] at h
  | .lit l :: ts, e, h => by
    rw [substToks_lit] at h
    cases hs : substToks nd ts with
    | ok r => rw [hs] at h; simp [pre] at h
    | error e' =>
      rw [hs] at h
      simp only [pre, Except.error.injEq] at h
      subst h
      obtain ⟨h1, n, hn, hl⟩ := substToks_error nd ts e' hs
      exact ⟨h1, n, by simpa [tokNames, tokName] using hn, hl⟩
  | .ph n rx :: ts, e, h => by
    rw [substToks_ph] at h
    cases hl : nd.lookup n with
    | none =>
      rw [hl] at h
      simp only [Except.error.injEq] at h
      exact ⟨h.symm, n, by simp [tokNames, tokName], hl⟩
    | some v =>
      rw [hl] at h
      cases hs : substToks nd ts with
      | ok r => rw [hs] at h; simp [pre] at h
      | error e' =>
        rw [hs] at h
        simp only [pre, Except.error.injEq] at h
        subst h
        obtain ⟨h1, m, hm, hl'⟩ := substToks_error nd ts e' hs
        exact ⟨h1, m, by simp only [tokNames, List.filterMap_cons, tokName, List.mem_cons]; exact .inr hm, hl'⟩
  | .rest n :: ts, e, h => by
    rw [substToks_rest] at h
    cases hl : nd.lookup n with
    | none =>
      rw [hl] at h
      simp only [Except.error.injEq] at h
      exact ⟨h.symm, n, by simp [tokNames, tokName], hl⟩
    | some v =>
      rw [hl] at h
      cases hs : substToks nd ts with
      | ok r => rw [hs] at h; simp [pre] at h
      | error e' =>
        rw [hs] at h
        simp only [pre, Except.error.injEq] at h
        subst h
        obtain ⟨h1, m, hm, hl'⟩ := substToks_error nd ts e' hs
        exact ⟨h1, m, by simp only [tokNames, List.filterMap_cons, tokName, List.mem_cons]; exact .inr hm, hl'⟩

theorem substToks_missing (nd : List (Text × Text)) : ∀ (toks : List Tok), (∃ n ∈ tokNames toks, nd.lookup n = none) →
    substToks nd toks = .error .keyError
  | [], h => by simp [tokNames] at h
  | .lit l :: ts, h => by
    rw [substToks_lit, substToks_missing nd ts (by simpa [tokNames, tokName] using h)]; rfl
  | .ph n rx :: ts, h => by
    rw [substToks_ph]
    cases hl : nd.lookup n with
    | none => rfl
    | some v =>
      obtain ⟨m, hm, hlm⟩ := h
      simp only [tokNames, List.filterMap_cons, tokName, List.mem_cons] at hm
      rcases hm with rfl | hm
      · rw [hl] at hlm; cases hlm
      · simp only []; rw [substToks_missing nd ts ⟨m, hm, hlm⟩]; rfl
  | .rest n :: ts, h => by
    rw [substToks_rest]
    cases hl : nd.lookup n with
    | none => rfl
    | some v =>
      obtain ⟨m, hm, hlm⟩ := h
      simp only [tokNames, List.filterMap_cons, tokName, List.mem_cons] at hm
      rcases hm with rfl | hm
      · rw [hl] at hlm; cases hlm
      · simp only []; rw [substToks_missing nd ts ⟨m, hm, hlm⟩]; rfl

/-! ### the characters of the output -/

/-- the characters of `PATH_SAFE` -/
def pathSafeChar (c : Char) : Bool := (valSafe.map fun b => Char.ofNat b.toNat).contains c

/-- unreserved ∪ PATH_SAFE -/
def genOk (c : Char) : Bool := isUnreservedC c || pathSafeChar c

theorem genOk_unreserved (c : Char) (h : isUnreservedC c = true) : genOk c = true := by simp [genOk, h]

theorem valSafe_within : safeWithin genOk valSafe = true := by decide
theorem litSafe_within : safeWithin genOk litSafe = true := by decide

theorem wf_quote_val (t : Text) : pctWF genOk (quote valSafe t) = true :=
  pctWF_quoteBytes genOk valSafe valSafe_within genOk_unreserved _

theorem wf_quote_lit (t : Text) : pctWF genOk (quote litSafe t) = true :=
  pctWF_quoteBytes genOk litSafe litSafe_within genOk_unreserved _

theorem wf_join (ts : List Text) (h : ∀ t ∈ ts, pctWF genOk t = true) : pctWF genOk (joinWith '/' ts) = true := by
  induction ts with
  | nil => rfl
  | cons x r ih =>
    cases r with
    | nil => exact h x (by simp)
    | cons y r' =>
      have e : joinWith '/' (x :: y :: r') = x ++ (['/'] ++ joinWith '/' (y :: r')) := rfl
      rw [e]
      refine pctWF_append _ _ _ (h x (by simp)) (pctWF_append _ _ _ (by decide) (ih ?_))
      intro t ht; exact h t (by simp [ht])

theorem qAtoms_wf : ∀ (xs : List Atom) (ts : List Text), qAtoms xs = .ok ts → ∀ t ∈ ts, pctWF genOk t = true
  | [], ts, h => by simp only [qAtoms] at h; cases h; simp
  | a :: as, ts, h => by
    simp only [qAtoms] at h
    cases ha : qAtom a with
    | error e => rw [ha] at h; cases h
    | ok q =>
      rw [ha] at h
      cases hs : qAtoms as with
      | error e => rw [hs] at h; cases h
      | ok qs =>
        rw [hs] at h
        cases h
        intro t ht
        rcases List.mem_cons.mp ht with rfl | hm
        · unfold qAtom at ha
          cases hat : atomText a with
          | none => rw [hat] at ha; cases ha
          | some x => rw [hat] at ha; cases ha; exact wf_quote_val x
        · exact qAtoms_wf as qs hs t hm

theorem quoteVal_wf (rem : Option Text) (k : Text) (v : KVal) (q : Text) (h : quoteVal rem k v = .ok q) :
    pctWF genOk q = true := by
  cases v with
  | one a =>
    simp only [quoteVal, qAtom] at h
    cases hat : atomText a with
    | none => rw [hat] at h; cases h
    | some x => rw [hat] at h; cases h; exact wf_quote_val x
  | many xs =>
    simp only [quoteVal] at h
    split at h
    · cases hs : qAtoms xs with
      | error e => rw [hs] at h; cases h
      | ok ts => rw [hs] at h; cases h; exact wf_join ts (qAtoms_wf xs ts hs)
    · cases h

theorem newDict_wf (rem : Option Text) : ∀ (kw : Kw) (nd : List (Text × Text)), newDict rem kw = .ok nd →
    ∀ n q, nd.lookup n = some q → pctWF genOk q = true
  | [], nd, h, n, q, hl => by simp only [newDict] at h; cases h; simp [List.lookup] at hl
  | (k, v) :: rest, nd, h, n, q, hl => by
    simp only [newDict] at h
    cases hq : quoteVal rem k v with
    | error e => rw [hq] at h; cases h
    | ok q0 =>
      rw [hq] at h
      cases hr : newDict rem rest with
      | error e => rw [hr] at h; cases h
      | ok d =>
        rw [hr] at h
        cases h
        by_cases e : n = k
        · subst e
          simp only [List.lookup, beq_self_eq_true, Option.some.injEq] at hl
          subst hl
          exact quoteVal_wf rem n v q0 hq
        · have hb : (n == k) = false := by simpa using e
          simp only [List.lookup, hb] at hl
          exact newDict_wf rem rest d hr n q hl

theorem substToks_wf (nd : List (Text × Text)) (hnd : ∀ n q, nd.lookup n = some q → pctWF genOk q = true) :
    ∀ (toks : List Tok) (p : Text), substToks nd toks = .ok p → pctWF genOk p = true
  | [], p, h => by simp only [substToks] at h; cases h; rfl
  | .lit l :: ts, p, h => by
    rw [substToks_lit] at h
    cases hs : substToks nd ts with
    | error e => rw [hs] at h; cases h
    | ok r =>
      rw [hs] at h; cases h
      exact pctWF_append _ _ _ (wf_quote_lit l) (substToks_wf nd hnd ts r hs)
  | .ph n rx :: ts, p, h => by
    rw [substToks_ph] at h
    cases hl : nd.lookup n with
    | none => rw [hl] at h; cases h
    | some v =>
      rw [hl] at h
      cases hs : substToks nd ts with
      | error e => rw [hs] at h; cases h
      | ok r =>
        rw [hs] at h; cases h
        exact pctWF_append _ _ _ (hnd n v hl) (substToks_wf nd hnd ts r hs)
  | .rest n :: ts, p, h => by
    rw [substToks_rest] at h
    cases hl : nd.lookup n with
    | none => rw [hl] at h; cases h
    | some v =>
      rw [hl] at h
      cases hs : substToks nd ts with
      | error e => rw [hs] at h; cases h
      | ok r =>
        rw [hs] at h; cases h
        exact pctWF_append _ _ _ (hnd n v hl) (substToks_wf nd hnd ts r hs)

theorem hex_is_unreserved (c : Char) (h : isHexC c = true) : isUnreservedC c = true := by
  simp only [isHexC, isUnreservedC, isAlnum, Bool.or_eq_true, Bool.and_eq_true, decide_eq_true_eq] at h ⊢
  omega

theorem genOk_is_ascii (c : Char) (h : genOk c = true) : c.toNat < 128 := by
  simp only [genOk, Bool.or_eq_true] at h
  rcases h with h | h
  · simp only [isUnreservedC, isAlnum, Bool.or_eq_true, Bool.and_eq_true, decide_eq_true_eq] at h
    rcases h with (((h | h) | h) | h) | h
    · omega
    · subst h; decide
    · subst h; decide
    · subst h; decide
    · subst h; decide
  · simp only [pathSafeChar, List.contains_eq_mem, decide_eq_true_eq] at h
    have : ∀ d ∈ (valSafe.map fun b => Char.ofNat b.toNat), d.toNat < 128 := by decide
    exact this c h

/-! ### the pieces of the output -/

/-- one piece of text per token; a literal's piece is its quoted text -/
def PiecesOf : List Tok → List Text → Prop
  | [], [] => True
  | .lit l :: ts, p :: ps => p = quote litSafe l ∧ PiecesOf ts ps
  | .ph _ _ :: ts, _ :: ps => PiecesOf ts ps
  | .rest _ :: ts, _ :: ps => PiecesOf ts ps
  | _, _ => False

/-- the generated text is the concatenation of one piece per token; a literal's piece is its quoted text -/
theorem substToks_pieces (nd : List (Text × Text)) : ∀ (toks : List Tok) (p : Text), substToks nd toks = .ok p →
    ∃ pieces : List Text, p = pieces.flatten ∧ PiecesOf toks pieces
  | [], p, h => by simp only [substToks] at h; cases h; exact ⟨[], rfl, trivial⟩
  | .lit l :: ts, p, h => by
    rw [substToks_lit] at h
    cases hs : substToks nd ts with
    | error e => rw [hs] at h; cases h
    | ok r =>
      rw [hs] at h; cases h
      obtain ⟨ps, rfl, hf⟩ := substToks_pieces nd ts r hs
      exact ⟨quote litSafe l :: ps, by simp, rfl, hf⟩
  | .ph n rx :: ts, p, h => by
    rw [substToks_ph] at h
    cases hl : nd.lookup n with
    | none => rw [hl] at h; cases h
    | some v =>
      rw [hl] at h
      cases hs : substToks nd ts with
      | error e => rw [hs] at h; cases h
      | ok r =>
        rw [hs] at h; cases h
        obtain ⟨ps, rfl, hf⟩ := substToks_pieces nd ts r hs
        exact ⟨v :: ps, by simp, hf⟩
  | .rest n :: ts, p, h => by
    rw [substToks_rest] at h
    cases hl : nd.lookup n with
    | none => rw [hl] at h; cases h
    | some v =>
      rw [hl] at h
      cases hs : substToks nd ts with
      | error e => rw [hs] at h; cases h
      | ok r =>
        rw [hs] at h; cases h
        obtain ⟨ps, rfl, hf⟩ := substToks_pieces nd ts r hs
        exact ⟨v :: ps, by simp, hf⟩

/-! ### cutting the request target; taking the mount prefix off -/

theorem targetPath_cut (a b : Text) (ha : ∀ c ∈ a, c ≠ '?' ∧ c ≠ '#')
    (hb : b = [] ∨ b.head? = some '?' ∨ b.head? = some '#') : targetPath (a ++ b) = a := by
  unfold targetPath
  rw [List.takeWhile_append_of_pos (fun c hc => by
    have := ha c hc
    simp [this.1, this.2])]
  cases b with
  | nil => simp
  | cons d r =>
    rcases hb with h | h | h
    · cases h
    · simp only [List.head?_cons, Option.some.injEq] at h; subst h; simp [List.takeWhile]
    · simp only [List.head?_cons, Option.some.injEq] at h; subst h; simp [List.takeWhile]

theorem dropBytes_append : ∀ (a b : Bytes), dropBytes? a (a ++ b) = some b
  | [], b => rfl
  | x :: a, b => by simp [dropBytes?, dropBytes_append a b]

/-! ### elements -/

theorem qElems_ok : ∀ (xs : List Atom) (ts : List Text), atomTexts xs = some ts →
    qElems xs = .ok (ts.map (quote elemSafe))
  | [], ts, h => by simp only [atomTexts] at h; cases h; rfl
  | a :: as, ts, h => by
    simp only [atomTexts] at h
    cases ha : atomText a with
    | none => rw [ha] at h; cases h
    | some t =>
      cases hs : atomTexts as with
      | none => rw [ha, hs] at h; cases h
      | some ts' =>
        rw [ha, hs] at h
        cases h
        simp [qElems, qElem, ha, qElems_ok as ts' hs]

end Pyr.UrlGen
