/-
X07 — helper lemmas, part 6: CPython's strict UTF-8 decoder accepts only the canonical spelling of a character, so a
piece of the path that READS as a text is WRITTEN as `wsgiOf` of that text.
-/
import PyramidModel.Lemmas.MountNest

namespace Pyr.Mount

open Pyr.AuthTkt (Bytes utf8Enc utf8EncChar utf8Step utf8DecStrict byteOfNat isCont)

theorem isCont_bounds {b : UInt8} (h : isCont b = true) : 0x80 ≤ b.toNat ∧ b.toNat < 0xC0 := by
  simpa [isCont] using h

theorem byte_eq {b : UInt8} {n : Nat} (h : n = b.toNat) : byteOfNat n = b := by
  rw [h]; exact AuthTkt.byteOfNat_toNat b

theorem ofNat_toNat_valid {n : Nat} (h : n < 0xD800 ∨ (0xDFFF < n ∧ n < 0x110000)) : (Char.ofNat n).toNat = n :=
  AuthTkt.charOfNat_toNat (by unfold Nat.isValidChar; omega)

/-- one decoder step consumed exactly the canonical encoding of the character it produced -/
theorem utf8Step_canonical (b0 : UInt8) (rest : Bytes) (c : Char) (k : Nat) (h : utf8Step b0 rest = (some c, k)) :
    b0 :: rest.take k = utf8EncChar c ∧ k ≤ rest.length := by
  have hb0 := b0.toNat_lt
  unfold utf8Step at h
  simp only [] at h
  split at h
  · -- ASCII
    rename_i h1
    injection h with hc hk
    injection hc with hc
    subst hc; subst hk
    have hv : (Char.ofNat b0.toNat).toNat = b0.toNat := ofNat_toNat_valid (by omega)
    simp [utf8EncChar, hv, h1, AuthTkt.byteOfNat_toNat]
  · split at h
    · cases h
    · split at h
      · -- two bytes
        rename_i h1 h2 h3
        cases rest with
        | nil => simp at h
        | cons b1 r1 =>
          simp only [] at h
          split at h
          · rename_i hc1
            have ⟨l1, u1⟩ := isCont_bounds hc1
            injection h with hc hk
            injection hc with hc
            subst hc; subst hk
            have hv : (Char.ofNat ((b0.toNat - 192) * 64 + (b1.toNat - 128))).toNat = (b0.toNat - 192) * 64 + (b1.toNat - 128) :=
              ofNat_toNat_valid (by omega)
            have e1 : ¬ ((b0.toNat - 192) * 64 + (b1.toNat - 128) < 128) := by omega
            have e2 : (b0.toNat - 192) * 64 + (b1.toNat - 128) < 2048 := by omega
            simp only [utf8EncChar, hv, e1, e2, if_true, if_false, List.take_succ_cons, List.take_zero, List.length_cons]
            refine ⟨?_, by omega⟩
            rw [byte_eq (b := b0) (by omega), byte_eq (b := b1) (by omega)]
          · cases h
      · split at h
        · -- three bytes
          rename_i h1 h2 h3 h4
          cases rest with
          | nil => simp at h
          | cons b1 r1 =>
            simp only [] at h
            generalize hlo' : (if b0.toNat = 224 then 160 else 128) = lo at h
            generalize hhi' : (if b0.toNat = 237 then 160 else 192) = hi at h
            split at h
            · rename_i hr
              simp only [Bool.and_eq_true, decide_eq_true_eq] at hr
              cases r1 with
              | nil => simp at h
              | cons b2 r2 =>
                simp only [] at h
                split at h
                · rename_i hc2
                  have ⟨l2, u2⟩ := isCont_bounds hc2
                  injection h with hc hk
                  injection hc with hc
                  subst hc; subst hk
                  have hlo : (if b0.toNat = 224 then 160 else 128) ≤ b1.toNat := by rw [hlo']; exact hr.1
                  have hhi : b1.toNat < (if b0.toNat = 237 then 160 else 192) := by rw [hhi']; exact hr.2
                  have hb1 : 128 ≤ b1.toNat ∧ b1.toNat < 192 := by split at hlo <;> split at hhi <;> omega
                  have hN1 : 2048 ≤ (b0.toNat - 224) * 4096 + (b1.toNat - 128) * 64 + (b2.toNat - 128) := by
                    split at hlo <;> omega
                  have hN2 : (b0.toNat - 224) * 4096 + (b1.toNat - 128) * 64 + (b2.toNat - 128) < 65536 := by omega
                  have hN3 : (b0.toNat - 224) * 4096 + (b1.toNat - 128) * 64 + (b2.toNat - 128) < 0xD800 ∨
                      0xDFFF < (b0.toNat - 224) * 4096 + (b1.toNat - 128) * 64 + (b2.toNat - 128) := by
                    split at hhi <;> omega
                  have hv := ofNat_toNat_valid (n := (b0.toNat - 224) * 4096 + (b1.toNat - 128) * 64 + (b2.toNat - 128)) (by omega)
                  have e1 : ¬ ((b0.toNat - 224) * 4096 + (b1.toNat - 128) * 64 + (b2.toNat - 128) < 128) := by omega
                  have e2 : ¬ ((b0.toNat - 224) * 4096 + (b1.toNat - 128) * 64 + (b2.toNat - 128) < 2048) := by omega
                  simp only [utf8EncChar, hv, e1, e2, hN2, if_true, if_false, List.take_succ_cons, List.take_zero, List.length_cons]
                  refine ⟨?_, by omega⟩
                  rw [byte_eq (b := b0) (by omega), byte_eq (b := b1) (by omega), byte_eq (b := b2) (by omega)]
                · cases h
            · cases h
        · split at h
          · -- four bytes
            rename_i h1 h2 h3 h4 h5
            cases rest with
            | nil => simp at h
            | cons b1 r1 =>
              simp only [] at h
              generalize hlo' : (if b0.toNat = 240 then 144 else 128) = lo at h
              generalize hhi' : (if b0.toNat = 244 then 144 else 192) = hi at h
              split at h
              · rename_i hr
                simp only [Bool.and_eq_true, decide_eq_true_eq] at hr
                cases r1 with
                | nil => simp at h
                | cons b2 r2 =>
                  simp only [] at h
                  split at h
                  · rename_i hc2
                    have ⟨l2, u2⟩ := isCont_bounds hc2
                    cases r2 with
                    | nil => simp at h
                    | cons b3 r3 =>
                      simp only [] at h
                      split at h
                      · rename_i hc3
                        have ⟨l3, u3⟩ := isCont_bounds hc3
                        injection h with hc hk
                        injection hc with hc
                        subst hc; subst hk
                        have hlo : (if b0.toNat = 240 then 144 else 128) ≤ b1.toNat := by rw [hlo']; exact hr.1
                        have hhi : b1.toNat < (if b0.toNat = 244 then 144 else 192) := by rw [hhi']; exact hr.2
                        have hb1 : 128 ≤ b1.toNat ∧ b1.toNat < 192 := by split at hlo <;> split at hhi <;> omega
                        have hN1 : 65536 ≤ (b0.toNat - 240) * 262144 + (b1.toNat - 128) * 4096 + (b2.toNat - 128) * 64 + (b3.toNat - 128) := by
                          split at hlo <;> omega
                        have hN2 : (b0.toNat - 240) * 262144 + (b1.toNat - 128) * 4096 + (b2.toNat - 128) * 64 + (b3.toNat - 128) < 0x110000 := by
                          split at hhi <;> omega
                        have hv := ofNat_toNat_valid
                          (n := (b0.toNat - 240) * 262144 + (b1.toNat - 128) * 4096 + (b2.toNat - 128) * 64 + (b3.toNat - 128)) (by omega)
                        have e1 : ¬ ((b0.toNat - 240) * 262144 + (b1.toNat - 128) * 4096 + (b2.toNat - 128) * 64 + (b3.toNat - 128) < 128) := by omega
                        have e2 : ¬ ((b0.toNat - 240) * 262144 + (b1.toNat - 128) * 4096 + (b2.toNat - 128) * 64 + (b3.toNat - 128) < 2048) := by omega
                        have e3 : ¬ ((b0.toNat - 240) * 262144 + (b1.toNat - 128) * 4096 + (b2.toNat - 128) * 64 + (b3.toNat - 128) < 65536) := by omega
                        simp only [utf8EncChar, hv, e1, e2, e3, if_false, List.take_succ_cons, List.take_zero, List.length_cons]
                        refine ⟨?_, by omega⟩
                        rw [byte_eq (b := b0) (by omega), byte_eq (b := b1) (by omega), byte_eq (b := b2) (by omega),
                          byte_eq (b := b3) (by omega)]
                      · cases h
                  · cases h
              · cases h
          · cases h

/-- the strict decoder only accepts the canonical encoding of the text it returns -/
theorem utf8DecStrict_canonical : ∀ (n : Nat) (bs : Bytes) (t : Text), bs.length ≤ n → utf8DecStrict bs = some t → bs = utf8Enc t := by
  intro n
  induction n with
  | zero =>
    intro bs t hl h
    cases bs with
    | nil => simp [utf8DecStrict] at h; subst h; rfl
    | cons b r => simp at hl
  | succ n ih =>
    intro bs t hl h
    cases bs with
    | nil => simp [utf8DecStrict] at h; subst h; rfl
    | cons b0 rest =>
      rw [utf8DecStrict] at h
      rcases hs : utf8Step b0 rest with ⟨o, k⟩
      rw [hs] at h
      cases o with
      | none => simp at h
      | some c =>
        simp only [] at h
        cases hr : utf8DecStrict (rest.drop k) with
        | none => simp [hr] at h
        | some t' =>
          simp only [hr, Option.map_eq_map, Option.map_some, Option.some.injEq] at h
          obtain ⟨h1, h2⟩ := utf8Step_canonical b0 rest c k hs
          have hl' : (rest.drop k).length ≤ n := by
            simp only [List.length_cons] at hl
            simp only [List.length_drop]; omega
          have := ih (rest.drop k) t' hl' hr
          rw [← h, AuthTkt.utf8Enc_cons, ← h1, ← this]
          simp

theorem utf8Dec_canonical (bs : Bytes) (t : Text) (h : utf8Dec bs = some t) : bs = utf8Enc t := by
  rw [utf8Dec_eq_strict] at h
  exact utf8DecStrict_canonical bs.length bs t (Nat.le_refl _) h

theorem latin1Dec_enc (el : Text) (bs : Bytes) (h : latin1Enc el = some bs) : latin1Dec bs = el := by
  induction el generalizing bs with
  | nil => simp [latin1Enc] at h; subst h; rfl
  | cons c r ih =>
    simp only [latin1Enc] at h
    split at h
    · rename_i hc
      cases hr : latin1Enc r with
      | none => simp [hr] at h
      | some bs' =>
        simp only [hr, Option.map_eq_map, Option.map_some, Option.some.injEq] at h
        subst h
        simp only [latin1Dec, List.map_cons, AuthTkt.toNat_byteOfNat hc, Char.ofNat_toNat]
        have := ih bs' hr
        simp only [latin1Dec] at this
        rw [this]
    · cases h

/-- a piece of the path that reads as the text `x` is spelled `wsgiOf x` — there is no second spelling -/
theorem decodeEl_canonical (el x : Text) (h : decodeEl el = .ok x) : el = wsgiOf x := by
  unfold decodeEl at h
  cases h1 : latin1Enc el with
  | none => simp [h1] at h
  | some bs =>
    simp only [h1] at h
    cases h2 : utf8Dec bs with
    | none => simp [h2] at h
    | some t =>
      simp only [h2, Except.ok.injEq] at h
      subst h
      rw [wsgiOf, ← utf8Dec_canonical bs t h2, latin1Dec_enc el bs h1]

theorem decList_canonical (els sub : List Text) (h : decList els = .ok sub) : els = sub.map wsgiOf := by
  induction els generalizing sub with
  | nil => simp [decList] at h; subst h; rfl
  | cons el r ih =>
    simp only [decList] at h
    cases hd : decodeEl el with
    | error e => simp [hd] at h
    | ok t =>
      simp only [hd] at h
      cases hr : decList r with
      | error e => simp [hr] at h
      | ok ts =>
        simp only [hr, Except.ok.injEq] at h
        subst h
        rw [List.map_cons, ← decodeEl_canonical el t hd, ← ih ts hr]

end Pyr.Mount
