/-
C09 helper lemmas, part 7: well-formed addresses, `identify` on a ticket whose fields are those of an issued one,
and invariants of operation sequences inside one request.
-/
import PyramidModel.Lemmas.AuthTktInj

namespace Pyr.AuthTkt

/-! ### well-formed client addresses -/

/-- the address can be fed to `calculate_digest` with any timestamp (it is an IPv4/IPv6 address) -/
def IpOk (U : Uni) (ip : Text) : Prop := ∀ ts : Int, ∃ b, ipTimestamp U ip ts = .ok b

theorem latin1Enc_total (t : Text) (h : ∀ c ∈ t, c.toNat < 256) : ∃ b, latin1Enc t = .ok b := by
  induction t with
  | nil => exact ⟨[], rfl⟩
  | cons c r ih =>
    obtain ⟨b, hb⟩ := ih (fun x hx => h x (by simp [hx]))
    exact ⟨byteOfNat c.toNat :: b, by simp [latin1Enc, h c (by simp), hb, Functor.map, Except.map]⟩

theorem decStr_lt (z : Int) : ∀ c ∈ decStr z, c.toNat < 256 := by
  intro c hc
  rcases decStr_chars z c hc with rfl | ⟨d, hd, rfl⟩
  · decide
  · have := (digitChar_facts ⟨d, by omega⟩).2.1
    simp only at this; omega

/-- an address with a `:` whose characters are latin-1 (every IPv6 address) -/
theorem ipOk_v6 (U : Uni) (ip : Text) (h6 : ip.contains ':' = true) (hl : ∀ c ∈ ip, c.toNat < 256) : IpOk U ip := by
  intro ts
  unfold ipTimestamp
  simp only [h6, if_true]
  exact latin1Enc_total _ (fun c hc => by
    rcases List.mem_append.mp hc with h | h
    · exact hl c h
    · exact decStr_lt ts c h)

/-- a dotted address whose parts are integers below 256 (every IPv4 address) -/
theorem ipOk_v4 (U : Uni) (ip : Text) (h4 : ip.contains ':' = false) (octs : List Nat)
    (hm : (splitAll '.' ip).mapM (ipOctet U) = .ok octs) (hlt : ∀ o ∈ octs, o < 256) : IpOk U ip := by
  intro ts
  unfold ipTimestamp
  simp only [h4, Bool.false_eq_true, if_false, hm, bind, Except.bind]
  have hall : (octs ++ [(ts % 4294967296).toNat / 16777216 % 256, (ts % 4294967296).toNat / 65536 % 256,
      (ts % 4294967296).toNat / 256 % 256, (ts % 4294967296).toNat % 256]).all (· < 256) = true := by
    rw [List.all_eq_true]
    intro x hx
    simp only [List.mem_append, List.mem_cons, List.mem_nil_iff, or_false] at hx
    simp only [decide_eq_true_eq]
    rcases hx with hx | rfl | rfl | rfl | rfl
    · exact hlt x hx
    all_goals omega
  simp only [hall, if_true]
  exact ⟨_, rfl⟩

theorem ipOctet_zero (U : Uni) : ipOctet U ['0'] = .ok 0 := by
  have hd : IsDigits 10 ['0'] := by
    intro c hc; simp at hc; subst hc; exact ⟨0, by omega, by decide⟩
  have := pyInt_digits U 10 (by omega) ['0'] hd (by simp)
  have hv : evalDigits 10 ['0'] 0 = 0 := by decide
  rw [hv] at this
  simp [ipOctet, this, pure, Except.pure]

/-- the address used when IP binding is off -/
theorem ipOk_default (U : Uni) : IpOk U ['0', '.', '0', '.', '0', '.', '0'] := by
  apply ipOk_v4 U _ (by decide) [0, 0, 0, 0]
  · have : splitAll '.' ['0', '.', '0', '.', '0', '.', '0'] = [['0'], ['0'], ['0'], ['0']] := by decide
    rw [this]
    simp [List.mapM_cons, ipOctet_zero, bind, Except.bind, pure, Except.pure]
  · intro o ho; simp at ho; omega

theorem remoteAddr_ok (U : Uni) (cfg : Cfg) (req : Req) (h : cfg.includeIp = true → IpOk U req.remoteAddr) :
    IpOk U (remoteAddr cfg req) := by
  unfold remoteAddr
  split
  · rename_i hi; exact h hi
  · exact ipOk_default U

theorem parseTicket_total (env : Env) (secret c ip : Text) (hip : IpOk env.U ip) :
    ∃ o, parseTicket env secret c ip = .ok o := by
  unfold parseTicket
  cases parseFields env.U (env.H.size * 2) c with
  | none => exact ⟨none, rfl⟩
  | some dp =>
    obtain ⟨d, p⟩ := dp
    obtain ⟨b, hb⟩ := hip p.ts
    simp only [calcDigest_of_ipts hb, bind, Except.bind]
    split
    · exact ⟨none, rfl⟩
    · exact ⟨some p, rfl⟩

/-! ### identify on a ticket carrying issued fields -/

/-- the length of an issued ticket value, whatever digest and (in range) clock it carries -/
def issuedLen (size : Nat) (u : UserId) (tl : List Text) : Nat :=
  size * 2 + 8 + (quoteBytes (utf8Enc (encodeUserid u).2)).length + 1 +
    (if (List.intercalate [','] tl).isEmpty then 0 else (List.intercalate [','] tl).length + 1) +
    (userIdTypePrefix ++ (encodeUserid u).1).length

theorem issuedValue_length (env : Env) (hH : env.H.WellSized) (ip : Text) (clock : Nat) (secret : Text) (u : UserId)
    (tl : List Text) (d : Text) (hclk : clock < 4294967296)
    (hd : calcDigest env ip clock secret (encodeUserid u).2 (List.intercalate [','] tl)
            (userIdTypePrefix ++ (encodeUserid u).1) = .ok d) :
    (issuedValue d u tl clock).length = issuedLen env.H.size u tl := by
  obtain ⟨i1, _, hm1⟩ := calcDigest_ok_inv hd
  have hl1 : d.length = env.H.size * 2 := by rw [hm1]; exact mac_length _ hH _ _
  simp only [issuedValue, issuedLen, wire_length d clock hclk, hl1]

/-- `identify` on an accepted ticket whose userid, tokens and user data are those `remember` writes for `(u, tl)`:
it never raises; it answers nothing (expired), or the identity `(u, tl)` — with a reissue exactly when one is due -/
theorem identify_fields (env : Env) (hH : env.H.WellSized) (cfg : Cfg) (req : Req) (st : St) (c : Text) (p : Parsed)
    (u : UserId) (tl : List Text)
    (hc : req.cookie = some c)
    (hp : parseTicket env cfg.secret c (remoteAddr cfg req) = .ok (some p))
    (hu : p.userid = (encodeUserid u).2) (ht : p.tokens = List.intercalate [','] tl)
    (hd : p.userData = userIdTypePrefix ++ (encodeUserid u).1)
    (htl : ∀ t ∈ tl, validToken t = true ∧ (t.all (·.toNat < 128)) = true)
    (hip : IpOk env.U (remoteAddr cfg req)) (hclk : req.clock < 4294967296)
    (hfit : issuedLen env.H.size u tl ≤ 4093) :
    (isExpired cfg req.now p.ts = true ∧ identify env cfg req st = (.ok none, st)) ∨
    (isExpired cfg req.now p.ts = false ∧ reissueDue cfg st req.now p.ts = false ∧
      identify env cfg req st =
        (.ok (some ⟨p.ts, normUid u, tokensBack tl, userIdTypePrefix ++ (encodeUserid u).1⟩), st)) ∨
    (isExpired cfg req.now p.ts = false ∧ reissueDue cfg st req.now p.ts = true ∧
      ∃ d2, calcDigest env (remoteAddr cfg req) req.clock cfg.secret (encodeUserid u).2 (List.intercalate [','] tl)
              (userIdTypePrefix ++ (encodeUserid u).1) = .ok d2 ∧
        identify env cfg req st =
          (.ok (some ⟨p.ts, normUid u, tl, userIdTypePrefix ++ (encodeUserid u).1⟩),
           { st with reissued := true,
                     callbacks := st.callbacks ++ [[ticketCookie cfg req (issuedValue d2 u tl req.clock) cfg.maxAge]] })) := by
  have htl1 : ∀ t ∈ tl, validToken t = true := fun t ht => (htl t ht).1
  have hdec : decodeLoop env.U (splitAll '|' p.userData) (.str p.userid) = .ok (normUid u) := by
    rw [hd, hu]; exact decodeLoop_issued env.U u
  cases he : isExpired cfg req.now p.ts with
  | true => exact Or.inl ⟨rfl, identify_expired env cfg req st c p hc hp he⟩
  | false =>
    right
    cases hr : reissueDue cfg st req.now p.ts with
    | false =>
      left
      refine ⟨rfl, rfl, ?_⟩
      rw [identify_plain env cfg req st c p (normUid u) hc hp he hdec hr, ht, hd, splitAll_joined tl htl1]
    | true =>
      right
      refine ⟨rfl, rfl, ?_⟩
      obtain ⟨b, hb⟩ := hip req.clock
      obtain ⟨d2, hd2⟩ : ∃ d2, calcDigest env (remoteAddr cfg req) req.clock cfg.secret (encodeUserid u).2
          (List.intercalate [','] tl) (userIdTypePrefix ++ (encodeUserid u).1) = .ok d2 := ⟨_, calcDigest_of_ipts hb⟩
      refine ⟨d2, hd2, ?_⟩
      have hnr : st.reissued = false := by
        unfold reissueDue at hr
        cases hrt : cfg.reissueTime with
        | none => simp [hrt] at hr
        | some rt => simp [hrt] at hr; exact hr.1
      have hlen2 := issuedValue_length env hH _ req.clock cfg.secret u tl d2 hclk hd2
      have hfilter : (splitAll ',' p.tokens).filter (!·.isEmpty) = tl := by
        rw [ht, splitAll_joined tl htl1, tokensBack_filter tl htl1]
      have hrem : remember env cfg req st true (normUid u) cfg.maxAge
          (((splitAll ',' p.tokens).filter (!·.isEmpty)).map .str) =
          (.ok [ticketCookie cfg req (issuedValue d2 u tl req.clock) cfg.maxAge], st) := by
        rw [hfilter]
        unfold remember
        simp only [encodeUserid_norm, checkTokens_map_str tl htl]
        rw [cookieValue_eq _ _ _ _ _ _ _ d2 hd2]
        have hnot : ¬ ((wire d2 req.clock (encodeUserid u).2 (List.intercalate [','] tl)
            (userIdTypePrefix ++ (encodeUserid u).1)).length > 4093) := by
          simp only [issuedValue] at hlen2; omega
        simp [getCookies, hnot, ticketCookie, issuedValue, pure, Except.pure]
        exact ⟨rfl, rfl⟩
      rw [identify_reissue env cfg req st c p (normUid u) hc hp he hdec hr _ _ hrem, hfilter, hd]

/-! ### operation sequences -/

/-- bookkeeping invariant: callbacks are registered at most once, together with the `_authtkt_reissued` flag, and each
carries one cookie -/
def StInv (st : St) : Prop :=
  (st.reissued = false → st.callbacks = []) ∧ st.callbacks.length ≤ 1 ∧ ∀ hs ∈ st.callbacks, hs.length = 1

theorem remember_state (env : Env) (cfg : Cfg) (req : Req) (st : St) (internal : Bool) (u : UserId) (ma : Option Nat) (toks : List Tok) :
    let st' := (remember env cfg req st internal u ma toks).2
    st'.reissued = st.reissued ∧ st'.callbacks = st.callbacks ∧ (st.revoked = true → st'.revoked = true) := by
  unfold remember
  simp only
  cases checkTokens toks with
  | error e => simp
  | ok tl =>
    simp only
    cases cookieValue env cfg.secret (encodeUserid u).2 (remoteAddr cfg req) tl (userIdTypePrefix ++ (encodeUserid u).1) req.clock with
    | error e => cases internal <;> simp
    | ok v => cases internal <;> simp

theorem remember_ok_length {env : Env} {cfg : Cfg} {req : Req} {st st' : St} {internal : Bool} {u : UserId} {ma : Option Nat}
    {toks : List Tok} {cs : List SetCookie} (h : remember env cfg req st internal u ma toks = (.ok cs, st')) : cs.length = 1 := by
  obtain ⟨tl, d, _, _, _, hcs, _⟩ := remember_ok_inv h
  rw [hcs]; rfl

theorem identify_inv (env : Env) (cfg : Cfg) (req : Req) (st : St) (h : StInv st) :
    StInv (identify env cfg req st).2 ∧ (st.revoked = true → (identify env cfg req st).2.revoked = true) ∧
    (st.reissued = true → (identify env cfg req st).2.reissued = true) := by
  unfold identify
  cases req.cookie with
  | none => exact ⟨h, id, id⟩
  | some c =>
    simp only
    cases parseTicket env cfg.secret c (remoteAddr cfg req) with
    | error e => exact ⟨h, id, id⟩
    | ok o =>
      cases o with
      | none => exact ⟨h, id, id⟩
      | some p =>
        simp only
        split
        · exact ⟨h, id, id⟩
        · cases decodeLoop env.U (splitAll '|' p.userData) (.str p.userid) with
          | error e => exact ⟨h, id, id⟩
          | ok userid =>
            simp only
            split
            · rename_i hdue
              have hnr : st.reissued = false := by
                unfold reissueDue at hdue
                cases hrt : cfg.reissueTime with
                | none => simp [hrt] at hdue
                | some rt => simp [hrt] at hdue; exact hdue.1
              have hs := remember_state env cfg req st true userid cfg.maxAge
                (((splitAll ',' p.tokens).filter (!·.isEmpty)).map .str)
              simp only at hs
              cases hrem : remember env cfg req st true userid cfg.maxAge
                  (((splitAll ',' p.tokens).filter (!·.isEmpty)).map .str) with
              | mk r st' =>
                rw [hrem] at hs
                simp only at hs
                cases r with
                | error e =>
                  simp only
                  refine ⟨⟨?_, ?_, ?_⟩, hs.2.2, ?_⟩
                  · intro _; rw [hs.2.1]; exact h.1 hnr
                  · rw [hs.2.1]; exact h.2.1
                  · rw [hs.2.1]; exact h.2.2
                  · intro hr; rw [hnr] at hr; cases hr
                | ok headers =>
                  simp only
                  have hcb : st'.callbacks = [] := by rw [hs.2.1]; exact h.1 hnr
                  refine ⟨⟨?_, ?_, ?_⟩, hs.2.2, fun _ => by simp⟩
                  · intro hf; cases hf
                  · simp [hcb]
                  · intro x hx
                    simp [hcb] at hx
                    subst hx
                    exact remember_ok_length hrem
            · exact ⟨h, id, id⟩

theorem step_inv (env : Env) (cfg : Cfg) (req : Req) (st : St) (op : Op) (h : StInv st) :
    StInv (step env cfg req st op).2 ∧ (st.revoked = true → (step env cfg req st op).2.revoked = true) ∧
    (st.reissued = true → (step env cfg req st op).2.reissued = true) := by
  cases op with
  | identify => exact identify_inv env cfg req st h
  | remember u m t =>
    have hs := remember_state env cfg req st false u m t
    simp only at hs
    simp only [step]
    refine ⟨⟨?_, ?_, ?_⟩, hs.2.2, ?_⟩
    · rw [hs.1, hs.2.1]; exact h.1
    · rw [hs.2.1]; exact h.2.1
    · rw [hs.2.1]; exact h.2.2
    · rw [hs.1]; exact id
  | forget =>
    simp only [step, forget]
    exact ⟨⟨h.1, h.2.1, h.2.2⟩, fun _ => by simp, id⟩

theorem runOps_inv (env : Env) (cfg : Cfg) (req : Req) (st : St) (ops : List Op) (h : StInv st) :
    StInv (runOps env cfg req st ops).2 ∧ (st.revoked = true → (runOps env cfg req st ops).2.revoked = true) := by
  induction ops generalizing st with
  | nil => exact ⟨h, id⟩
  | cons op ops ih =>
    simp only [runOps]
    have hs := step_inv env cfg req st op h
    have := ih (step env cfg req st op).2 hs.1
    exact ⟨this.1, fun hr => this.2 (hs.2.1 hr)⟩

theorem runOps_append (env : Env) (cfg : Cfg) (req : Req) (st : St) (a b : List Op) :
    (runOps env cfg req st (a ++ b)).2 = (runOps env cfg req (runOps env cfg req st a).2 b).2 := by
  induction a generalizing st with
  | nil => rfl
  | cons op a ih => simp only [List.cons_append, runOps]; exact ih _

theorem stInv_init : StInv {} := ⟨fun _ => rfl, by simp, by simp⟩

theorem finish_length (st : St) (h : StInv st) : (finish st).length ≤ 1 := by
  unfold finish
  split
  · simp
  · obtain ⟨_, h2, h3⟩ := h
    cases hcb : st.callbacks with
    | nil => simp
    | cons x xs =>
      rw [hcb] at h2 h3
      have : xs = [] := by cases xs <;> simp at h2 ⊢
      subst this
      simp [h3 x (by simp)]

end Pyr.AuthTkt
