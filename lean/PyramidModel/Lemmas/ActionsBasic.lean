import PyramidModel.ActionsSpec
/-! Helper lemmas for C04, part 1: include paths, `pickFirst`, `minOrd`, `eraseId`. -/
namespace Pyr.Actions

/-- the relation the property speaks about: `a` is a proper initial segment of `b` -/
def StrictPrefix (a b : List Nat) : Prop := a <+: b ∧ a ≠ b

instance (a b : List Nat) : Decidable (StrictPrefix a b) := by unfold StrictPrefix; exact inferInstance

theorem strictExt_iff (base p : List Nat) : strictExt base p = true ↔ StrictPrefix base p := by
  simp only [strictExt, StrictPrefix, Bool.and_eq_true, beq_iff_eq, bne_iff_ne, ne_eq]
  rw [List.prefix_iff_eq_take]
  constructor
  · rintro ⟨h1, h2⟩; exact ⟨h1.symm, fun h => h2 h.symm⟩
  · rintro ⟨h1, h2⟩; exact ⟨h1.symm, fun h => h2 h.symm⟩

theorem StrictPrefix.trans {a b c : List Nat} (h1 : StrictPrefix a b) (h2 : StrictPrefix b c) : StrictPrefix a c := by
  refine ⟨h1.1.trans h2.1, ?_⟩
  intro h
  subst h
  have := List.IsPrefix.length_le h1.1
  have := List.IsPrefix.length_le h2.1
  have hl : a.length = b.length := by omega
  exact h1.2 (List.IsPrefix.eq_of_length h1.1 hl)

theorem StrictPrefix.irrefl (a : List Nat) : ¬ StrictPrefix a a := fun h => h.2 rfl

theorem StrictPrefix.length_lt {a b : List Nat} (h : StrictPrefix a b) : a.length < b.length := by
  have := List.IsPrefix.length_le h.1
  rcases Nat.lt_or_ge a.length b.length with h' | h'
  · exact h'
  · exact absurd (List.IsPrefix.eq_of_length h.1 (by omega)) h.2

theorem StrictPrefix.asymm {a b : List Nat} (h : StrictPrefix a b) : ¬ StrictPrefix b a := by
  intro h'; have := h.length_lt; have := h'.length_lt; omega

theorem pathLt_irrefl (p : List Nat) : pathLt p p = false := by
  induction p with
  | nil => rfl
  | cons a as ih => simp [pathLt, ih]

theorem pathLt_trans : ∀ {a b c : List Nat}, pathLt a b = true → pathLt b c = true → pathLt a c = true
  | [], [], _, h, _ => by simp [pathLt] at h
  | [], _ :: _, [], _, h => by simp [pathLt] at h
  | [], _ :: _, _ :: _, _, _ => by simp [pathLt]
  | _ :: _, [], _, h, _ => by simp [pathLt] at h
  | _ :: _, _ :: _, [], _, h => by simp [pathLt] at h
  | x :: xs, y :: ys, z :: zs, h1, h2 => by
    simp only [pathLt, Bool.or_eq_true, decide_eq_true_eq, Bool.and_eq_true, beq_iff_eq] at h1 h2 ⊢
    rcases h1 with h1 | ⟨h1, h1'⟩ <;> rcases h2 with h2 | ⟨h2, h2'⟩
    · left; omega
    · left; omega
    · left; omega
    · right; exact ⟨by omega, pathLt_trans h1' h2'⟩

theorem pathLt_of_strictPrefix : ∀ {a b : List Nat}, StrictPrefix a b → pathLt a b = true
  | [], [], h => absurd rfl h.2
  | [], _ :: _, _ => by simp [pathLt]
  | _ :: _, [], h => by have := h.1; simp at this
  | x :: xs, y :: ys, h => by
    have h1 := h.1
    rw [List.cons_prefix_cons] at h1
    obtain ⟨rfl, h1⟩ := h1
    have : StrictPrefix xs ys := ⟨h1, fun e => h.2 (by rw [e])⟩
    simp [pathLt, pathLt_of_strictPrefix this]

/-! ### pickFirst -/

theorem pickFirst_mem (m : Act) (l : List Act) : pickFirst m l ∈ m :: l := by
  induction l generalizing m with
  | nil => simp [pickFirst]
  | cons a rest ih =>
    simp only [pickFirst]
    have := ih (if pathLt a.path m.path then a else m)
    split at this <;> simp_all <;> grind

theorem pickFirst_min_aux (m : Act) (l : List Act) (seen : List Act)
    (hs : ∀ x ∈ seen, pathLt x.path m.path = false) :
    ∀ x ∈ seen ++ m :: l, pathLt x.path (pickFirst m l).path = false := by
  induction l generalizing m seen with
  | nil =>
    intro x hx
    simp only [pickFirst, List.mem_append, List.mem_singleton] at hx ⊢
    rcases hx with hx | rfl
    · exact hs x hx
    · exact pathLt_irrefl _
  | cons a rest ih =>
    simp only [pickFirst]
    by_cases hlt : pathLt a.path m.path = true
    · simp only [hlt, if_true]
      have := ih a (seen ++ [m]) (by
        intro x hx
        simp only [List.mem_append, List.mem_singleton] at hx
        rcases hx with hx | rfl
        · cases h : pathLt x.path a.path with
          | false => rfl
          | true => have := pathLt_trans h hlt; rw [hs x hx] at this; cases this
        · cases h : pathLt x.path a.path with
          | false => rfl
          | true => have := pathLt_trans h hlt; rw [pathLt_irrefl] at this; cases this)
      intro x hx
      apply this
      simp only [List.mem_append, List.mem_cons, List.mem_singleton] at hx ⊢
      grind
    · have hlt' : pathLt a.path m.path = false := by simpa using hlt
      simp only [hlt', Bool.false_eq_true, if_false]
      have := ih m (seen ++ [a]) (by
        intro x hx
        simp only [List.mem_append, List.mem_singleton] at hx
        rcases hx with hx | rfl
        · exact hs x hx
        · exact hlt')
      intro x hx
      apply this
      simp only [List.mem_append, List.mem_cons, List.mem_singleton] at hx ⊢
      grind

theorem pickFirst_min (m : Act) (l : List Act) :
    ∀ x ∈ m :: l, pathLt x.path (pickFirst m l).path = false := by
  have := pickFirst_min_aux m l [] (by simp)
  simpa using this

/-! ### ids -/

def IdsNodup (l : List Act) : Prop := (l.map (·.id)).Nodup

theorem eq_of_id_eq {l : List Act} (h : IdsNodup l) {a b : Act} (ha : a ∈ l) (hb : b ∈ l)
    (e : a.id = b.id) : a = b := by
  induction l with
  | nil => cases ha
  | cons x xs ih =>
    simp only [IdsNodup, List.map_cons, List.nodup_cons, List.mem_map, not_exists, not_and] at h
    rcases List.mem_cons.mp ha with rfl | ha' <;> rcases List.mem_cons.mp hb with rfl | hb'
    · rfl
    · exact absurd e.symm (h.1 b hb')
    · exact absurd e (h.1 a ha')
    · exact ih h.2 ha' hb'

theorem IdsNodup.sublist {l l' : List Act} (h : IdsNodup l) (s : l'.Sublist l) : IdsNodup l' :=
  List.Nodup.sublist (List.Sublist.map _ s) h

theorem IdsNodup.filter {l : List Act} (h : IdsNodup l) (p : Act → Bool) : IdsNodup (l.filter p) :=
  h.sublist List.filter_sublist

/-! ### minOrd -/

theorem minOrd_eq_none {l : List Act} : minOrd l = none ↔ l = [] := by
  cases l with
  | nil => simp [minOrd]
  | cons a rest =>
    simp only [minOrd]
    cases minOrd rest <;> simp

theorem minOrd_spec {l : List Act} {o : Int} (h : minOrd l = some o) :
    (∃ a ∈ l, a.order = o) ∧ ∀ a ∈ l, o ≤ a.order := by
  induction l generalizing o with
  | nil => simp [minOrd] at h
  | cons a rest ih =>
    simp only [minOrd] at h
    cases hr : minOrd rest with
    | none =>
      rw [hr] at h
      have : rest = [] := minOrd_eq_none.mp hr
      subst this
      simp only [Option.some.injEq] at h
      subst h
      simp
    | some m =>
      rw [hr] at h
      simp only [Option.some.injEq] at h
      obtain ⟨⟨b, hb, hbo⟩, hall⟩ := ih hr
      by_cases hle : a.order ≤ m
      · simp only [hle, if_true] at h
        subst h
        refine ⟨⟨a, by simp, rfl⟩, ?_⟩
        intro x hx
        rcases List.mem_cons.mp hx with rfl | hx
        · exact Int.le_refl _
        · exact Int.le_trans hle (hall x hx)
      · simp only [hle, if_false] at h
        subst h
        refine ⟨⟨b, by simp [hb], hbo⟩, ?_⟩
        intro x hx
        rcases List.mem_cons.mp hx with rfl | hx
        · omega
        · exact hall x hx

theorem minOrd_isSome_of_mem {l : List Act} {a : Act} (h : a ∈ l) : ∃ o, minOrd l = some o := by
  cases hm : minOrd l with
  | none => rw [minOrd_eq_none.mp hm] at h; cases h
  | some o => exact ⟨o, rfl⟩

end Pyr.Actions
