import PyramidModel.Lemmas.ActionsStatic
/-! Helper lemmas for C04/C08: `phaseSort` is a stable sort by phase. -/
namespace Pyr.Actions

theorem phaseSortAux_perm : ∀ (n : Nat) (R : List Act), R.length < n → (phaseSortAux n R).Perm R := by
  intro n
  induction n with
  | zero => intro R h; omega
  | succ n ih =>
    intro R hlen
    simp only [phaseSortAux]
    cases ho : minOrd R with
    | none => rw [minOrd_eq_none.mp ho]
    | some o =>
      simp only
      obtain ⟨⟨y, hy, hyo⟩, _⟩ := minOrd_spec ho
      have hgpos : 0 < (atOrd o R).length := List.length_pos_of_mem (mem_atOrd.mpr ⟨hy, hyo⟩)
      have hsplit := length_split o R
      have h1 := ih (R.filter (fun a => a.order != o)) (by omega)
      have h2 : (atOrd o R ++ R.filter (fun a => a.order != o)).Perm R := by
        have := List.filter_append_perm (fun a : Act => a.order == o) R
        simpa [atOrd, bne] using this
      exact (List.Perm.append_left _ h1).trans h2

theorem phaseSortAux_sorted : ∀ (n : Nat) (R : List Act), R.length < n →
    (phaseSortAux n R).Pairwise (fun a b => a.order ≤ b.order) := by
  intro n
  induction n with
  | zero => intro R h; omega
  | succ n ih =>
    intro R hlen
    simp only [phaseSortAux]
    cases ho : minOrd R with
    | none => simp
    | some o =>
      simp only
      obtain ⟨⟨y, hy, hyo⟩, hmin⟩ := minOrd_spec ho
      have hgpos : 0 < (atOrd o R).length := List.length_pos_of_mem (mem_atOrd.mpr ⟨hy, hyo⟩)
      have hsplit := length_split o R
      have hlen' : (R.filter (fun a => a.order != o)).length < n := by omega
      rw [List.pairwise_append]
      refine ⟨?_, ih _ hlen', ?_⟩
      · apply List.Pairwise.imp_of_mem (R := fun _ _ => True)
        · intro a b ha hb _
          rw [(mem_atOrd.mp ha).2, (mem_atOrd.mp hb).2]; exact Int.le_refl _
        · exact List.pairwise_of_forall (fun _ _ => trivial)
      · intro a ha b hb
        have hb' := (phaseSortAux_perm n _ hlen').mem_iff.mp hb
        rw [(mem_atOrd.mp ha).2]
        exact hmin b (mem_of_filter hb')

theorem phaseSortAux_stable : ∀ (n : Nat) (R : List Act), R.length < n → ∀ o' : Int,
    atOrd o' (phaseSortAux n R) = atOrd o' R := by
  intro n
  induction n with
  | zero => intro R h; omega
  | succ n ih =>
    intro R hlen o'
    simp only [phaseSortAux]
    cases ho : minOrd R with
    | none => rw [minOrd_eq_none.mp ho]
    | some o =>
      simp only
      obtain ⟨⟨y, hy, hyo⟩, _⟩ := minOrd_spec ho
      have hgpos : 0 < (atOrd o R).length := List.length_pos_of_mem (mem_atOrd.mpr ⟨hy, hyo⟩)
      have hsplit := length_split o R
      have h1 := ih (R.filter (fun a => a.order != o)) (by omega) o'
      simp only [atOrd, List.filter_append] at h1 ⊢
      rw [h1, List.filter_filter, List.filter_filter]
      by_cases e : o' = o
      · subst e
        have : List.filter (fun a => a.order == o' && a.order != o') R = [] := by
          rw [List.filter_eq_nil_iff]; intro a _; simp
        rw [this, List.append_nil]
        apply List.filter_congr; intro a _; simp
      · have : List.filter (fun a => a.order == o' && a.order == o) R = [] := by
          rw [List.filter_eq_nil_iff]; intro a _
          simp only [Bool.and_eq_true, beq_iff_eq, not_and]
          intro h1 h2; exact e (h1.symm.trans h2)
        rw [this, List.nil_append]
        apply List.filter_congr; intro a _
        by_cases e' : a.order = o' <;> simp [e', e]

theorem phaseSort_perm (top : List Act) : (phaseSort top).Perm top :=
  phaseSortAux_perm _ _ (Nat.lt_succ_self _)

theorem phaseSort_sorted (top : List Act) : (phaseSort top).Pairwise (fun a b => a.order ≤ b.order) :=
  phaseSortAux_sorted _ _ (Nat.lt_succ_self _)

theorem phaseSort_stable (top : List Act) (o : Int) : atOrd o (phaseSort top) = atOrd o top :=
  phaseSortAux_stable _ _ (Nat.lt_succ_self _) o

end Pyr.Actions
