import PyramidModel.Lemmas.SettingsSym
import PyramidModel.Gen.X02
/-!
X02 — how the declarative table and the model's constants look through the probe of `extract/x02.py`
(the shapes `Gen/X02.lean` is compared with), and the finite facts about the table that the property theorems use.
-/
namespace Pyr.Settings

def kindName : Kind → Text
  | .bool => s "bool"
  | .str => s "str"
  | .list => s "list"

/-- Python `repr` of the three defaults that occur -/
def reprDefault : Val → Text
  | .bool false => s "False"
  | .bool true => s "True"
  | .str t => '\'' :: t ++ ['\'']
  | .list [] => s "[]"
  | _ => s "?"

/-- one table entry as the probe reports a setting: environment variable first, then the prefixed key, then the bare key;
both spellings written -/
def probeView (e : Entry) : Text × Text × Text × Text × List Text × List Text × Bool :=
  (e.row.name, e.row.env, kindName e.row.kind, reprDefault e.row.default, [s "env", s "prefixed", s "bare"], e.impliedBy, true)

def atomsView : List (Text × Bool × Bool) :=
  [(s "None", asbool .none, true), (s "True", asbool (.bool true), true), (s "False", asbool (.bool false), true),
   (s "0", asbool (.int 0), true), (s "1", asbool (.int 1), true), (s "2", asbool (.int 2), true),
   (s "-1", asbool (.int (-1)), true), (s "[]", asbool (.list []), true), (s "['true']", asbool (.list [.str (s "true")]), true)]

/-- every `S` row of the statement list is a table row and conversely; every entry is found under both spellings;
rows are well-formed; implied-by names are other entries of kind bool -/
def tableFacts : Bool :=
  program.all (fun st => match st with | .S r => table.any (fun e => e.row == r) | _ => true) &&
  table.all (fun e => program.contains (.S e.row)) &&
  table.all (fun e => entryOf table e.row.name == some e && entryOf table (pfx ++ e.row.name) == some e) &&
  table.all (fun e => rowOk e.row) &&
  table.all (fun e => e.impliedBy.all fun n => n != e.row.name &&
    (table.find? (fun e' => e'.row.name = n)).any (fun e' => e'.row.kind == .bool) && e.row.kind == .bool)

theorem conv_error {k : Kind} {v : Val} {e : Err} (h : conv k v = .error e) : e = .typeError ∧ k = .list := by
  cases k with
  | bool => simp [conv] at h
  | str => simp [conv] at h
  | list =>
    refine ⟨?_, rfl⟩
    simp only [conv, aslist] at h
    cases v <;> simp [aslistCronly] at h <;> first | exact h.symm | skip
    all_goals (split at h <;> simp at h)

end Pyr.Settings
