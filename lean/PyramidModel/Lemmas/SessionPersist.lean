import PyramidModel.Lemmas.SessionHist
/-!
C10 helper lemmas, part 4: persistence over histories, stated directly on the model's observations.

`persistFrom cfg cy obs` reads the statement off a list of observations: `cy` carries what the statement lets the
next request expect — stamp and creation time of the cookie most recently set (`jar`) and the data the last
committed request ended with (`last`).
-/
namespace Pyr.Session
open Spec

/-- `now - stamp > timeout` -/
def expiredAt (cfg : Cfg) (now stamp : Q) : Bool :=
  match cfg.timeout with
  | some t => olderThan now stamp t
  | none => false

structure Carry where
  /-- (renewal stamp, creation time) of the cookie most recently set; `none`: no cookie was ever set -/
  jar : Option (Q × Q)
  /-- data at the end of the last request whose changes were committed -/
  last : Data

/-- what the next request may expect after a request that ended in session state `s1` -/
def Carry.next {κ : Type} (cy : Carry) (out : Outcome κ) (s1 : Sess) : Carry :=
  match out with
  | .cookie _ => ⟨some (s1.accessed, s1.created), s1.data⟩
  | .noCookie => ⟨cy.jar, s1.data⟩
  | _ => cy          -- refused (oversize) or withheld (set_on_exception=False): the changes are not committed

/-- the statement, read off a list of observations of requests that all present the latest cookie -/
def persistFrom {κ : Type} (cfg : Cfg) : Carry → List (Obs κ) → Prop
  | _, [] => True
  | cy, o :: rest =>
    match o.touched with
    | false => persistFrom cfg cy rest
    | true =>
      ∃ s0 s1, o.start = some s0 ∧ o.final = some s1 ∧ o.loadRaised = false ∧
        (match cy.jar with
         | none => s0.new = true ∧ s0.data = [] ∧ s0.created = o.loadClock
         | some (stamp, created) =>
           s0.new = false ∧ s0.created = created ∧
           s0.data = if expiredAt cfg o.loadClock stamp then [] else cy.last) ∧
        s1.created = s0.created ∧
        persistFrom cfg (cy.next o.outcome s1) rest

theorem expired_eq (cfg : Cfg) (now : Q) (ac : ACookie) : expired cfg now ac = expiredAt cfg now ac.stamp := rfl

theorem expiredAt_mono (cfg : Cfg) (now now' stamp : Nat) (h : now ≤ now') (he : expiredAt cfg now' stamp = false) :
    expiredAt cfg now stamp = false := by
  rcases cfg with ⟨to, re, soe⟩
  cases to with
  | none => rfl
  | some t =>
    simp only [expiredAt] at he ⊢
    unfold olderThan at he ⊢
    have he' := of_decide_eq_false he
    apply decide_eq_false
    omega

/-- the jar of the model and the statement's carry agree -/
def JarInv {κ : Type} (C : Codec κ) (cfg : Cfg) (w : World κ) (cy : Carry) : Prop :=
  match w.issued.head?, cy.jar with
  | none, none => True
  | some c, some (st, cr) =>
    ∃ ac : ACookie, c = C.dumps ac.payload ∧ DataNormal ac.data = true ∧ ac.stamp = st ∧ ac.created = cr ∧
      (expiredAt cfg w.clock st = false → ac.data = cy.last)
  | _, _ => False

theorem JarInv_clock_mono {κ : Type} (C : Codec κ) (cfg : Cfg) (c c' : Q) (iss : List κ) (cy : Carry) (h : c ≤ c')
    (hinv : JarInv C cfg ⟨c, iss⟩ cy) : JarInv C cfg ⟨c', iss⟩ cy := by
  unfold JarInv at hinv ⊢
  cases hh : iss.head? with
  | none =>
    cases hj : cy.jar with
    | none => trivial
    | some sc => simp [hh, hj] at hinv
  | some k =>
    cases hj : cy.jar with
    | none => simp [hh, hj] at hinv
    | some sc =>
      rcases sc with ⟨st, cr⟩
      simp only [hh, hj] at hinv ⊢
      obtain ⟨ac, h1, h2, h3, h4, h5⟩ := hinv
      exact ⟨ac, h1, h2, h3, h4, fun he => h5 (expiredAt_mono cfg _ _ _ h he)⟩

/-- the invariant after the response callback -/
theorem jar_after {κ : Type} (C : Codec κ) (cfg : Cfg) (need sup : Bool) (ac' : ACookie) (c1 : Q) (iss : List κ)
    (cy : Carry) (s1 : Sess) (out : Outcome κ)
    (hout : out = if need then (if sup then .suppressed
                      else if C.size (C.dumps ac'.payload) > cookieLimit then .oversize else .cookie (C.dumps ac'.payload))
                  else .noCookie)
    (hkeep : JarInv C cfg ⟨c1, iss⟩ cy)
    (hnone : need = false → JarInv C cfg ⟨c1, iss⟩ ⟨cy.jar, s1.data⟩)
    (hfn : DataNormal ac'.data = true) (h1 : ac'.stamp = s1.accessed) (h2 : ac'.created = s1.created)
    (h3 : ac'.data = s1.data) :
    JarInv C cfg ⟨c1, pushCookie out iss⟩ (cy.next out s1) := by
  subst hout
  cases need with
  | false => simpa [Carry.next, pushCookie] using hnone rfl
  | true =>
    cases sup with
    | true => simpa [Carry.next, pushCookie] using hkeep
    | false =>
      by_cases hsz : C.size (C.dumps ac'.payload) > cookieLimit
      · simpa [Carry.next, hsz, pushCookie] using hkeep
      · simp only [if_true, Bool.false_eq_true, if_false, hsz, Carry.next, JarInv, List.head?_cons, pushCookie]
        exact ⟨ac', rfl, hfn, h1, h2, fun _ => h3⟩

theorem endClock_ge (clock : Q) (ops : List (Nat × Op)) : clock ≤ endClock clock ops := by
  induction ops generalizing clock with
  | nil => exact Nat.le_refl _
  | cons p rest ih =>
    rcases p with ⟨dq, op⟩
    exact Nat.le_trans (Nat.le_add_right clock dq) (ih (clock + dq))

theorem endData_eq_of_not_needs (cfg : Cfg) (renewed clock : Q) (d : Data) (ops : List (Nat × Op))
    (h : needsCookie cfg renewed clock d ops = false) : endData d ops = d := by
  false_or_by_contra
  rename_i hne
  have := endData_ne_needsCookie cfg renewed clock d ops hne
  rw [h] at this
  exact absurd this (by simp)

theorem persist_from {κ : Type} (C : Codec κ) (hrt : RoundTrip C) (cfg : Cfg) (w : World κ) (cy : Carry)
    (rs : List (Req κ)) (hlatest : ∀ r ∈ rs, r.present = .latest)
    (hnorm : ∀ r ∈ rs, ∀ ops, r.ops = some ops → OpsNormal ops = true) (hinv : JarInv C cfg w cy) :
    persistFrom cfg cy (runHistory C cfg w rs).2 := by
  induction rs generalizing w cy with
  | nil => simp [runHistory, persistFrom]
  | cons r rest ih =>
    have hl := hlatest r (List.mem_cons_self ..)
    have hn := hnorm r (List.mem_cons_self ..)
    have hlatest' : ∀ r' ∈ rest, r'.present = .latest := fun r' h => hlatest r' (List.mem_cons_of_mem _ h)
    have hnorm' : ∀ r' ∈ rest, ∀ ops, r'.ops = some ops → OpsNormal ops = true :=
      fun r' h => hnorm r' (List.mem_cons_of_mem _ h)
    simp only [runHistory]
    cases hro : r.ops with
    | none =>
      simp only [stepReq, hro, persistFrom]
      exact ih _ _ hlatest' hnorm' (JarInv_clock_mono C cfg _ _ _ cy (Nat.le_add_right _ _) hinv)
    | some ops =>
      have hon := hn ops hro
      simp only [stepReq, hro, hl, resolve]
      cases hh : w.issued.head? with
      | none =>
        cases hj : cy.jar with
        | some sc => simp [JarInv, hh, hj] at hinv
        | none =>
          simp only [Option.bind_none, load_none]
          obtain ⟨v1, v2, v3, v4, v5, v6, v7, v8⟩ :=
            view_refines C cfg r.raised (w.clock + r.dq) (freshSess (w.clock + r.dq)) ops (freshSess_pristine _)
          generalize runOps cfg (w.clock + r.dq) (freshSess (w.clock + r.dq)) ops = run at *
          rcases run with ⟨c1, s1, rs1⟩
          simp only at v1 v2 v3 v4 v5 v6 v7 v8 ⊢
          have hle : w.clock ≤ c1 := by
            rw [v1]; exact Nat.le_trans (Nat.le_add_right _ _) (endClock_ge _ _)
          have hkeep := JarInv_clock_mono C cfg _ c1 _ cy hle hinv
          have hstep := jar_after C cfg (needsCookie cfg (w.clock + r.dq) (w.clock + r.dq) [] ops) (!cfg.setOnExc && r.raised)
            ⟨(lastStamp (w.clock + r.dq) (w.clock + r.dq, false) ops).1,
             (lastStamp (w.clock + r.dq) (w.clock + r.dq, false) ops).2, w.clock + r.dq, endData [] ops⟩
            c1 w.issued cy s1 (finish C cfg r.raised s1) v7 hkeep
            (fun _ => by simp [JarInv, hh, hj])
            (endData_normal [] ops DataNormal_nil hon)
            (by have := congrArg Prod.fst v8; simpa [freshSess] using this.symm)
            (by simpa [freshSess] using v4.symm) (by simpa [freshSess] using v2.symm)
          have hrest := ih _ _ hlatest' hnorm' hstep
          simp only [persistFrom, hj]
          exact ⟨_, _, rfl, rfl, by trivial, ⟨rfl, rfl, rfl⟩, v4, hrest⟩
      | some c =>
        cases hj : cy.jar with
        | none => simp [JarInv, hh, hj] at hinv
        | some sc =>
          rcases sc with ⟨st, cr⟩
          have hinv0 := hinv
          simp only [JarInv, hh, hj] at hinv
          obtain ⟨ac, h1, h2, h3, h4, h5⟩ := hinv
          have hload : C.loads c = some (Wire.ofPayload ac.payload) := by rw [h1]; exact hrt ac.payload h2
          simp only [Option.bind_some, hload, load_payload]
          obtain ⟨v1, v2, v3, v4, v5, v6, v7, v8⟩ :=
            view_refines C cfg r.raised (w.clock + r.dq) (loadedSess cfg (w.clock + r.dq) ac) ops (loadedSess_pristine _ _ _)
          generalize runOps cfg (w.clock + r.dq) (loadedSess cfg (w.clock + r.dq) ac) ops = run at *
          rcases run with ⟨c1, s1, rs1⟩
          simp only at v1 v2 v3 v4 v5 v6 v7 v8 ⊢
          have hstart : (loadedSess cfg (w.clock + r.dq) ac).data
              = if expiredAt cfg (w.clock + r.dq) st then [] else cy.last := by
            simp only [loadedSess, expired_eq, h3]
            cases he : expiredAt cfg (w.clock + r.dq) st with
            | true => rfl
            | false =>
              simp only [Bool.false_eq_true, if_false]
              exact h5 (expiredAt_mono cfg _ _ _ (Nat.le_add_right _ _) he)
          have hsn : DataNormal (loadedSess cfg (w.clock + r.dq) ac).data = true := by
            simp only [loadedSess]
            split
            · exact DataNormal_nil
            · exact h2
          have hle1 : w.clock + r.dq ≤ c1 := by rw [v1]; exact endClock_ge _ _
          have hle : w.clock ≤ c1 := Nat.le_trans (Nat.le_add_right _ _) hle1
          have hkeep := JarInv_clock_mono C cfg _ c1 _ cy hle hinv0
          have hstep := jar_after C cfg
            (needsCookie cfg (loadedSess cfg (w.clock + r.dq) ac).renewed (w.clock + r.dq) (loadedSess cfg (w.clock + r.dq) ac).data ops)
            (!cfg.setOnExc && r.raised)
            ⟨(lastStamp (w.clock + r.dq) ((loadedSess cfg (w.clock + r.dq) ac).renewed, false) ops).1,
             (lastStamp (w.clock + r.dq) ((loadedSess cfg (w.clock + r.dq) ac).renewed, false) ops).2,
             (loadedSess cfg (w.clock + r.dq) ac).created, endData (loadedSess cfg (w.clock + r.dq) ac).data ops⟩
            c1 w.issued cy s1 (finish C cfg r.raised s1) v7 hkeep
            (fun hnc => by
              simp only [JarInv, hh, hj]
              refine ⟨ac, h1, h2, h3, h4, fun he => ?_⟩
              have he' := expiredAt_mono cfg _ _ _ hle1 he
              have hnoexp : (loadedSess cfg (w.clock + r.dq) ac).data = ac.data := by
                simp [loadedSess, expired_eq, h3, he']
              rw [v2, endData_eq_of_not_needs cfg _ _ _ ops hnc, hnoexp])
            (endData_normal _ ops hsn hon)
            (by have := congrArg Prod.fst v8; simpa using this.symm)
            v4.symm v2.symm
          have hrest := ih _ _ hlatest' hnorm' hstep
          simp only [persistFrom, hj]
          exact ⟨_, _, rfl, rfl, by trivial, ⟨rfl, h4, hstart⟩, v4, hrest⟩

end Pyr.Session
