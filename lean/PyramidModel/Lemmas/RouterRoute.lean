import PyramidModel.RouterSpec
/-! X01 helper lemmas, route part: the mapper loop of C01 over the composed route list against `specRoute` (the first
declared route that `qualifies`), through C01's `firstRoute_cons`. -/
namespace Pyr.Router
open Pyr.Route (firstRoute qualifies firstRoute_cons)

/-- what the stage hands on for a hit -/
def stageOf (hit : Option (Nat × RouteDecl × Route.Env)) : Attrs × Option RouteDecl :=
  match hit with
  | some (i, d, e) => (Attrs.matched i d e, some d)
  | none => (Attrs.none, none)

theorem firstRoute_zipIdx (rq : Req) (p : Text) : ∀ (l : List RouteDecl) (k : Nat),
    match (l.zipIdx k).findSome? (fun (d, i) => (qualifies Rx.Ucd.ascii p (mkRoute rq d i)).map fun e => (i, d, e)) with
    | some (i, d, e) =>
      firstRoute Rx.Ucd.ascii p ((l.zipIdx k).map fun (d, i) => mkRoute rq d i) k = some (i, e) ∧ k ≤ i ∧ l[i - k]? = some d
    | none => firstRoute Rx.Ucd.ascii p ((l.zipIdx k).map fun (d, i) => mkRoute rq d i) k = none
  | [], k => by simp [firstRoute]
  | d0 :: l, k => by
    have ih := firstRoute_zipIdx rq p l (k + 1)
    simp only [List.zipIdx_cons, List.map_cons, List.findSome?_cons, firstRoute_cons]
    cases hq : qualifies Rx.Ucd.ascii p (mkRoute rq d0 k) with
    | some e => simp
    | none =>
      simp only [Option.map_none]
      revert ih
      cases (l.zipIdx (k + 1)).findSome? (fun (d, i) => (qualifies Rx.Ucd.ascii p (mkRoute rq d i)).map fun e => (i, d, e)) with
      | none => exact id
      | some x =>
        obtain ⟨i, d, e⟩ := x
        rintro ⟨h1, h2, h3⟩
        refine ⟨h1, by omega, ?_⟩
        have : i - k = (i - (k + 1)) + 1 := by omega
        rw [this, List.getElem?_cons_succ]
        exact h3

/-- **C01 in the composed model**: the route stage selects exactly the first declared qualifying route. -/
theorem routeStage_eq_spec (app : App) (rq : Req) : routeStage app rq = (specRoute app rq).map stageOf := by
  unfold routeStage specRoute
  by_cases he : app.routes.isEmpty = true
  · simp only [he, if_true, Option.map_some, stageOf]
  · simp only [he, Bool.false_eq_true, if_false, Route.mapperCall, routeList]
    cases Route.requestPath rq.pathInfo with
    | none => rfl
    | some p =>
      have h := firstRoute_zipIdx rq p app.routes 0
      simp only [Option.map_some]
      revert h
      cases (app.routes.zipIdx 0).findSome?
          (fun (d, i) => (qualifies Rx.Ucd.ascii p (mkRoute rq d i)).map fun e => (i, d, e)) with
      | none => intro h; simp only [h, stageOf]
      | some x =>
        obtain ⟨i, d, e⟩ := x
        rintro ⟨h1, _, h3⟩
        simp only [Nat.sub_zero] at h3
        simp only [h1, h3, stageOf]

end Pyr.Router
