import PyramidModel.PctCode
/-
Lemmas about percent-coding and UTF-8 (C17; reusable by C06/C07): round trips and output character sets,
for byte strings and texts of any length.
-/
namespace Pyr.Pct
open Pyr Pyr.Trav

/-! ### finite facts about bytes and characters (decided over all 256 / 16 values) -/

theorem charOfNat_toNat : ∀ n, n < 256 → (Char.ofNat n).toNat = n := by decide +kernel

theorem unreserved_facts : ∀ n, n < 256 → isUnreserved (UInt8.ofNat n) = true →
    n < 127 ∧ n ≠ 37 ∧ isUnreservedC (Char.ofNat n) = true := by decide +kernel

theorem hexDigit_facts : ∀ n, n < 16 →
    hexVal (UInt8.ofNat (hexDigit n).toNat) = some n ∧ isHexC (hexDigit n) = true ∧
    isUnreservedC (hexDigit n) = true ∧ (hexDigit n).toNat < 128 ∧ hexDigit n ≠ '%' := by decide +kernel

theorem byte_toNat_lt (b : UInt8) : b.toNat < 256 := UInt8.toNat_lt_size b

theorem byteChar_toNat (b : UInt8) : (Char.ofNat b.toNat).toNat = b.toNat :=
  charOfNat_toNat _ (byte_toNat_lt b)

theorem byte_of_byteChar (b : UInt8) : UInt8.ofNat (Char.ofNat b.toNat).toNat = b := by
  rw [byteChar_toNat]; simp

theorem unreserved_byte (b : UInt8) (h : isUnreserved b = true) :
    b.toNat < 127 ∧ b ≠ 37 ∧ isUnreservedC (Char.ofNat b.toNat) = true := by
  have := unreserved_facts b.toNat (byte_toNat_lt b) (by simpa using h)
  refine ⟨this.1, ?_, this.2.2⟩
  intro e; subst e; exact this.2.1 (by decide)

theorem byte_split (b : UInt8) : UInt8.ofNat (16 * (b.toNat / 16) + b.toNat % 16) = b := by
  rw [Nat.div_add_mod]; simp

theorem byte_div_lt (b : UInt8) : b.toNat / 16 < 16 := by
  have := byte_toNat_lt b; omega

theorem byte_mod_lt (b : UInt8) : b.toNat % 16 < 16 := Nat.mod_lt _ (by decide)

/-! ### UTF-8 -/

/-- encode then strict-decode gives the text back (core's `List.utf8Decode?_utf8Encode`, restated for the
list-based functions of the models). -/
theorem utf8_roundtrip (t : Text) : utf8Dec (utf8Enc t) = some t := by
  unfold utf8Dec utf8Enc
  have e : (ByteArray.mk (List.flatMap String.utf8EncodeChar t).toArray) = t.utf8Encode := by
    apply ByteArray.ext
    simp [List.utf8Encode, List.data_toByteArray]
  rw [e, List.utf8Decode?_utf8Encode]; simp

/-! ### `unquote_to_bytes` step lemmas -/

theorem unq_cons_ne (a : UInt8) (l : Bytes) (h : a ≠ 37) : unquoteToBytes (a :: l) = a :: unquoteToBytes l := by
  match l with
  | [] => simp [unquoteToBytes]
  | [b] => simp [unquoteToBytes]
  | b :: c :: r => simp [unquoteToBytes, h]

theorem unq_pct (h l : UInt8) (hv lv : Nat) (r : Bytes) (hh : hexVal h = some hv) (hl : hexVal l = some lv) :
    unquoteToBytes (37 :: h :: l :: r) = UInt8.ofNat (16 * hv + lv) :: unquoteToBytes r := by
  simp [unquoteToBytes, hh, hl]

/-! ### the safe-set side conditions -/

/-- every byte of `safe` is ASCII and is not `%` -/
def SafeOk (safe : List UInt8) : Prop := ∀ b ∈ safe, b.toNat < 128 ∧ b ≠ 37

instance (safe : List UInt8) : Decidable (SafeOk safe) := by unfold SafeOk; infer_instance

theorem safeOk_of_within (ok : Char → Bool) (safe : List UInt8) (h : safeWithin ok safe = true) : SafeOk safe := by
  intro b hb
  have := List.all_eq_true.mp h b hb
  simp only [Bool.and_eq_true, decide_eq_true_eq, bne_iff_ne, ne_eq] at this
  exact ⟨this.1.1, this.1.2⟩

theorem within_ok (ok : Char → Bool) (safe : List UInt8) (h : safeWithin ok safe = true) (b : UInt8)
    (hb : safe.contains b = true) : ok (Char.ofNat b.toNat) = true := by
  have hm : b ∈ safe := by simpa using hb
  have := List.all_eq_true.mp h b hm
  simp only [Bool.and_eq_true] at this
  exact this.2

/-- a byte that `quote_from_bytes` leaves alone is ASCII and is not `%` -/
theorem kept_byte (safe : List UInt8) (hs : SafeOk safe) (b : UInt8)
    (h : (isUnreserved b || safe.contains b) = true) : b.toNat < 128 ∧ b ≠ 37 := by
  rcases Bool.or_eq_true _ _ |>.mp h with h | h
  · have := unreserved_byte b h; exact ⟨by omega, this.2.1⟩
  · exact hs b (by simpa using h)

/-! ### round trip on bytes -/

/-- `unquote_to_bytes(quote_from_bytes(bs, safe)) == bs` for every byte string and every safe set without `%`. -/
theorem unquoteToBytes_quoteBytes (safe : List UInt8) (hs : SafeOk safe) (bs : Bytes) :
    unquoteToBytes (toBytes (quoteBytes safe bs)) = bs := by
  induction bs with
  | nil => simp [quoteBytes, toBytes, unquoteToBytes]
  | cons b bs ih =>
    unfold quoteBytes
    split
    · rename_i h
      have hk := kept_byte safe hs b h
      simp only [toBytes, List.map_cons, byte_of_byteChar]
      rw [unq_cons_ne _ _ hk.2]
      simp only [toBytes] at ih
      rw [ih]
    · have h1 := hexDigit_facts _ (byte_div_lt b)
      have h2 := hexDigit_facts _ (byte_mod_lt b)
      simp only [toBytes, List.map_cons]
      have e : UInt8.ofNat ('%' : Char).toNat = 37 := by decide
      rw [e, unq_pct _ _ _ _ _ h1.1 h2.1, byte_split]
      simp only [toBytes] at ih
      rw [ih]

/-- the output of `quote_from_bytes` is ASCII -/
theorem quoteBytes_ascii (safe : List UInt8) (hs : SafeOk safe) (bs : Bytes) :
    ∀ c ∈ quoteBytes safe bs, c.toNat < 128 := by
  induction bs with
  | nil => simp [quoteBytes]
  | cons b bs ih =>
    unfold quoteBytes
    split
    · rename_i h
      have hk := kept_byte safe hs b h
      intro c hc
      rcases List.mem_cons.mp hc with e | m
      · subst e; rw [byteChar_toNat]; exact hk.1
      · exact ih c m
    · have h1 := hexDigit_facts _ (byte_div_lt b)
      have h2 := hexDigit_facts _ (byte_mod_lt b)
      intro c hc
      simp only [List.mem_cons] at hc
      rcases hc with e | e | e | m
      · subst e; decide
      · subst e; exact h1.2.2.2.1
      · subst e; exact h2.2.2.2.1
      · exact ih c m

theorem asciiEncode_of_ascii (t : Text) (h : ∀ c ∈ t, c.toNat < 128) : asciiEncode t = some (toBytes t) := by
  unfold asciiEncode toBytes
  have : t.all (fun c => decide (c.toNat < 128)) = true := List.all_eq_true.mpr (fun c hc => by simpa using h c hc)
  simp [this]

/-! ### round trip on texts -/

/-- `unquote(url_quote(t, safe)) == t` for every text (arbitrary Unicode) and every safe set without `%`. -/
theorem unquote_quote (safe : List UInt8) (hs : SafeOk safe) (t : Text) : unquote (quote safe t) = some t := by
  unfold unquote quote
  rw [asciiEncode_of_ascii _ (quoteBytes_ascii safe hs _)]
  simp only [Option.bind_some]
  rw [unquoteToBytes_quoteBytes safe hs, utf8_roundtrip]

/-! ### character set of the output -/

/-- every character `quote_from_bytes` produces is unreserved, the character of a byte in `safe`, or `%`
(the two hex digits after `%` are upper-case hex, hence unreserved). -/
theorem mem_quoteBytes (safe : List UInt8) (bs : Bytes) (c : Char) (hc : c ∈ quoteBytes safe bs) :
    isUnreservedC c = true ∨ (∃ b, safe.contains b = true ∧ c = Char.ofNat b.toNat) ∨ c = '%' := by
  induction bs with
  | nil => simp [quoteBytes] at hc
  | cons b bs ih =>
    unfold quoteBytes at hc
    split at hc
    · rename_i h
      rcases List.mem_cons.mp hc with e | m
      · subst e
        rcases Bool.or_eq_true _ _ |>.mp h with h | h
        · exact .inl (unreserved_byte b h).2.2
        · exact .inr (.inl ⟨b, h, rfl⟩)
      · exact ih m
    · simp only [List.mem_cons] at hc
      rcases hc with e | e | e | m
      · exact .inr (.inr e)
      · subst e; exact .inl (hexDigit_facts _ (byte_div_lt b)).2.2.1
      · subst e; exact .inl (hexDigit_facts _ (byte_mod_lt b)).2.2.1
      · exact ih m

/-- a character that is not unreserved, not `%`, and whose byte is not in `safe` never occurs in the output:
this is what makes delimiters (`/ ? # & = +`) usable as separators around quoted text. -/
theorem not_mem_quoteBytes (safe : List UInt8) (bs : Bytes) (c : Char)
    (h1 : isUnreservedC c = false) (h2 : c ≠ '%') (h3 : ∀ b ∈ safe, c ≠ Char.ofNat b.toNat) :
    c ∉ quoteBytes safe bs := by
  intro hc
  rcases mem_quoteBytes safe bs c hc with h | ⟨b, hb, e⟩ | h
  · simp [h1] at h
  · exact h3 b (by simpa using hb) e
  · exact h2 h

theorem byteChar_ne_pct (b : UInt8) (h : b ≠ 37) : Char.ofNat b.toNat ≠ '%' := by
  intro e
  have := congrArg Char.toNat e
  rw [byteChar_toNat] at this
  apply h
  have e2 : ('%' : Char).toNat = 37 := by decide
  rw [e2] at this
  exact UInt8.toNat_inj.mp (by simpa using this)

/-- the output of `quote_from_bytes` obeys the grammar `( ok | "%" HEXDIG HEXDIG )*` for every class `ok` that
contains the unreserved characters and the safe set. -/
theorem pctWF_quoteBytes (ok : Char → Bool) (safe : List UInt8) (hs : safeWithin ok safe = true)
    (hu : ∀ c, isUnreservedC c = true → ok c = true) (bs : Bytes) : pctWF ok (quoteBytes safe bs) = true := by
  unfold pctWF
  induction bs with
  | nil => simp [quoteBytes, pctScan]
  | cons b bs ih =>
    unfold quoteBytes
    split
    · rename_i h
      have hk := kept_byte safe (safeOk_of_within ok safe hs) b h
      have hne := byteChar_ne_pct b hk.2
      have hok : ok (Char.ofNat b.toNat) = true := by
        rcases Bool.or_eq_true _ _ |>.mp h with h | h
        · exact hu _ (unreserved_byte b h).2.2
        · exact within_ok ok safe hs b h
      simp [pctScan, hne, hok, ih]
    · have h1 := hexDigit_facts _ (byte_div_lt b)
      have h2 := hexDigit_facts _ (byte_mod_lt b)
      simp [pctScan, h1.2.1, h2.2.1, ih]

theorem pctScan_append (ok : Char → Bool) (a b : Text) (s : PState) (ha : pctScan ok s a = true)
    (hb : pctScan ok .txt b = true) : pctScan ok s (a ++ b) = true := by
  induction a generalizing s with
  | nil => cases s <;> simp_all [pctScan]
  | cons c r ih =>
    cases s with
    | txt =>
      simp only [pctScan, List.cons_append] at ha ⊢
      split at ha
      · rename_i h; simp only [h, if_true]; exact ih _ ha
      · rename_i h
        simp only [h, if_false, Bool.and_eq_true] at ha ⊢
        exact ⟨ha.1, ih _ ha.2⟩
    | h1 =>
      simp only [pctScan, List.cons_append, Bool.and_eq_true] at ha ⊢
      exact ⟨ha.1, ih _ ha.2⟩
    | h2 =>
      simp only [pctScan, List.cons_append, Bool.and_eq_true] at ha ⊢
      exact ⟨ha.1, ih _ ha.2⟩

theorem pctWF_append (ok : Char → Bool) (a b : Text) (ha : pctWF ok a = true) (hb : pctWF ok b = true) :
    pctWF ok (a ++ b) = true := pctScan_append ok a b .txt ha hb

theorem pctWF_nil (ok : Char → Bool) : pctWF ok [] = true := rfl

theorem pctScan_mono (ok ok' : Char → Bool) (h : ∀ c, ok c = true → ok' c = true) (t : Text) (s : PState)
    (ht : pctScan ok s t = true) : pctScan ok' s t = true := by
  induction t generalizing s with
  | nil => cases s <;> simp_all [pctScan]
  | cons c r ih =>
    cases s with
    | txt =>
      simp only [pctScan] at ht ⊢
      split at ht
      · rename_i hc; simp only [hc, if_true]; exact ih _ ht
      · rename_i hc
        simp only [hc, if_false, Bool.and_eq_true] at ht ⊢
        exact ⟨h c ht.1, ih _ ht.2⟩
    | h1 =>
      simp only [pctScan, Bool.and_eq_true] at ht ⊢
      exact ⟨ht.1, ih _ ht.2⟩
    | h2 =>
      simp only [pctScan, Bool.and_eq_true] at ht ⊢
      exact ⟨ht.1, ih _ ht.2⟩

theorem pctWF_mono (ok ok' : Char → Bool) (h : ∀ c, ok c = true → ok' c = true) (t : Text)
    (ht : pctWF ok t = true) : pctWF ok' t = true := pctScan_mono ok ok' h t .txt ht

/-- a text made only of `ok` characters other than `%` obeys the grammar -/
theorem pctWF_of_all (ok : Char → Bool) (t : Text) (h : ∀ c ∈ t, ok c = true ∧ c ≠ '%') : pctWF ok t = true := by
  unfold pctWF
  induction t with
  | nil => simp [pctScan]
  | cons c r ih =>
    have hc := h c (by simp)
    simp only [pctScan, hc.2, if_false, Bool.and_eq_true]
    exact ⟨hc.1, ih (fun d hd => h d (by simp [hd]))⟩

/-- every character of a grammatical text is `ok`, `%`, or a hex digit -/
theorem mem_of_pctScan (ok : Char → Bool) (t : Text) (s : PState) (ht : pctScan ok s t = true) :
    ∀ c ∈ t, ok c = true ∨ c = '%' ∨ isHexC c = true := by
  induction t generalizing s with
  | nil => simp
  | cons c r ih =>
    intro d hd
    cases s with
    | txt =>
      simp only [pctScan] at ht
      split at ht
      · rename_i hc
        rcases List.mem_cons.mp hd with e | m
        · subst e; exact .inr (.inl hc)
        · exact ih _ ht d m
      · rename_i hc
        simp only [Bool.and_eq_true] at ht
        rcases List.mem_cons.mp hd with e | m
        · subst e; exact .inl ht.1
        · exact ih _ ht.2 d m
    | h1 =>
      simp only [pctScan, Bool.and_eq_true] at ht
      rcases List.mem_cons.mp hd with e | m
      · subst e; exact .inr (.inr ht.1)
      · exact ih _ ht.2 d m
    | h2 =>
      simp only [pctScan, Bool.and_eq_true] at ht
      rcases List.mem_cons.mp hd with e | m
      · subst e; exact .inr (.inr ht.1)
      · exact ih _ ht.2 d m

theorem mem_of_pctWF (ok : Char → Bool) (t : Text) (ht : pctWF ok t = true) :
    ∀ c ∈ t, ok c = true ∨ c = '%' ∨ isHexC c = true := mem_of_pctScan ok t .txt ht

/-! ### `quote_plus` -/

theorem map_plus2sp_sp2plus (t : Text) (h : '+' ∉ t) : (t.map sp2plus).map plus2sp = t := by
  induction t with
  | nil => rfl
  | cons c r ih =>
    have hc : c ≠ '+' := fun e => h (by simp [e])
    have := ih (fun m => h (by simp [m]))
    simp only [List.map_cons, this, List.cons.injEq, and_true]
    unfold sp2plus plus2sp
    by_cases e : c = ' '
    · simp [e]
    · simp [e, hc]

/-- `parse_qsl`'s decoding of a name/value undoes `quote_plus`, for every text, whenever the extra safe
characters are ASCII and contain neither `%` nor `+`. -/
theorem unquotePlus_quotePlus (safe : List UInt8) (hs : SafeOk safe) (hp : ∀ b ∈ safe, b ≠ 43) (t : Text) :
    unquotePlus (quotePlus safe t) = some t := by
  unfold unquotePlus quotePlus
  have hs' : SafeOk (safe ++ [32]) := by
    intro b hb
    rcases List.mem_append.mp hb with h | h
    · exact hs b h
    · simp at h; subst h; decide
  have hno : '+' ∉ quoteBytes (safe ++ [32]) (utf8Enc t) := by
    apply not_mem_quoteBytes
    · decide
    · decide
    · intro b hb e
      have hb' : b.toNat < 128 ∧ b ≠ 37 := hs' b hb
      have := congrArg Char.toNat e
      rw [byteChar_toNat] at this
      have e2 : ('+' : Char).toNat = 43 := by decide
      rw [e2] at this
      have hb43 : b = 43 := UInt8.toNat_inj.mp (by simpa using this.symm)
      rcases List.mem_append.mp hb with h | h
      · exact hp b h hb43
      · simp at h; rw [h] at hb43; exact absurd hb43 (by decide)
  rw [map_plus2sp_sp2plus _ hno]
  exact unquote_quote (safe ++ [32]) hs' t

end Pyr.Pct
