import PyramidModel.Lemmas.RouteParseOld
import PyramidModel.Lemmas.Traversal
/-! `add_route` / `route_prefix`: the stacked prefix is the documented `/`-join, and a literal prefix prepends exactly
its text to the language of the route.  Helper lemmas for `Props/C01.lean` §5. -/
namespace Pyr.Route
open Pyr.Rx (Ucd)
open Pyr.Trav (stripSlash joinWith)

/-- non-empty, no slash at either end -/
def Clean (t : Text) : Prop := t ≠ [] ∧ t.head? ≠ some '/' ∧ t.getLast? ≠ some '/'

instance (t : Text) : Decidable (Clean t) := by unfold Clean; infer_instance

theorem lstrip_of_head (t : Text) (h : t.head? ≠ some '/') : lstripSlash t = t := by
  cases t with
  | nil => rfl
  | cons c cs =>
    have : c ≠ '/' := by simpa using h
    simp [lstripSlash, List.dropWhile_cons, this]

theorem rstrip_of_last (t : Text) (h : t.getLast? ≠ some '/') : rstripSlash t = t := by
  have := lstrip_of_head t.reverse (by rw [List.head?_reverse]; exact h)
  unfold rstripSlash
  unfold lstripSlash at this
  rw [this, List.reverse_reverse]

theorem strip_eq (t : Text) : stripSlash t = rstripSlash (lstripSlash t) := rfl

theorem head_lstrip (t : Text) : (lstripSlash t).head? ≠ some '/' := by
  have := List.head?_dropWhile_not (· = '/') t
  unfold lstripSlash
  cases h : (List.dropWhile (· = '/') t).head? with
  | none => simp
  | some x =>
    rw [h] at this
    simp only at this
    intro e
    injection e with e
    subst e
    simp at this

theorem last_rstrip (t : Text) : (rstripSlash t).getLast? ≠ some '/' := by
  unfold rstripSlash
  rw [List.getLast?_reverse]
  exact head_lstrip t.reverse

theorem head_rstrip (t : Text) (hne : rstripSlash t ≠ []) : (rstripSlash t).head? = t.head? := by
  obtain ⟨n, hn⟩ := Pyr.Trav.rstrip_decomp t
  unfold rstripSlash at hne ⊢
  cases hr : (t.reverse.dropWhile (· = '/')).reverse with
  | nil => exact absurd hr hne
  | cons c cs =>
    rw [hr] at hn
    rw [hn]
    rfl

theorem strip_nil_or_clean (t : Text) : stripSlash t = [] ∨ Clean (stripSlash t) := by
  by_cases h : stripSlash t = []
  · exact Or.inl h
  · right
    rw [strip_eq] at h ⊢
    refine ⟨h, ?_, last_rstrip _⟩
    rw [head_rstrip _ h]
    exact head_lstrip t

theorem lstrip_idem (t : Text) : lstripSlash (lstripSlash t) = lstripSlash t := lstrip_of_head _ (head_lstrip t)

/-- stacking onto no prefix: the stripped new prefix -/
theorem stack_none (new : Option Text) :
    stackPrefix none new = if stripSlash (new.getD []) = [] then none else some (stripSlash (new.getD [])) := by
  have : stripSlash (rstripSlash ([] : Text) ++ '/' :: lstripSlash (new.getD [])) = stripSlash (new.getD []) := by
    rw [strip_eq, strip_eq]
    have : lstripSlash (rstripSlash ([] : Text) ++ '/' :: lstripSlash (new.getD [])) = lstripSlash (new.getD []) := by
      simp only [rstripSlash, List.reverse_nil, List.dropWhile_nil, List.nil_append]
      show List.dropWhile (· = '/') ('/' :: lstripSlash (new.getD [])) = _
      rw [List.dropWhile_cons]
      simp only [decide_true, ite_true]
      exact lstrip_idem _
    rw [this]
  simp only [stackPrefix, Option.getD_none, this]

/-- stacking onto a clean prefix -/
theorem stack_clean (o : Text) (ho : Clean o) (new : Option Text) :
    stackPrefix (some o) new =
      some (if stripSlash (new.getD []) = [] then o else o ++ '/' :: stripSlash (new.getD [])) := by
  obtain ⟨hne, hh, hl⟩ := ho
  have key : stripSlash (rstripSlash o ++ '/' :: lstripSlash (new.getD [])) =
      if stripSlash (new.getD []) = [] then o else o ++ '/' :: stripSlash (new.getD []) := by
    rw [rstrip_of_last o hl, strip_eq]
    have hhead : (o ++ '/' :: lstripSlash (new.getD [])).head? ≠ some '/' := by
      cases o with
      | nil => exact absurd rfl hne
      | cons c cs => simpa using hh
    rw [lstrip_of_head _ hhead]
    have hrev : (o ++ '/' :: lstripSlash (new.getD [])).reverse = (lstripSlash (new.getD [])).reverse ++ '/' :: o.reverse := by simp
    have horev : List.dropWhile (· = '/') ('/' :: o.reverse) = o.reverse := by
      rw [List.dropWhile_cons]
      simp only [decide_true, ite_true]
      have := lstrip_of_head o.reverse (by rw [List.head?_reverse]; exact hl)
      exact this
    rw [strip_eq]
    unfold rstripSlash
    rw [hrev, List.dropWhile_append]
    by_cases he : (List.dropWhile (· = '/') (lstripSlash (new.getD [])).reverse) = []
    · simp [he, horev]
    · have : (List.dropWhile (· = '/') (lstripSlash (new.getD [])).reverse).isEmpty = false := by
        cases hd : List.dropWhile (· = '/') (lstripSlash (new.getD [])).reverse with
        | nil => exact absurd hd he
        | cons _ _ => rfl
      simp [this, he]
  have hnn : (if stripSlash (new.getD []) = [] then o else o ++ '/' :: stripSlash (new.getD [])) ≠ [] := by
    split
    · exact hne
    · simp
  simp only [stackPrefix, Option.getD_some, key]
  rw [if_neg hnn]

theorem clean_join (o s : Text) (ho : Clean o) (hs : Clean s) : Clean (o ++ '/' :: s) := by
  obtain ⟨h1, h2, _⟩ := ho
  obtain ⟨g1, _, g3⟩ := hs
  refine ⟨by simp, ?_, ?_⟩
  · cases o with
    | nil => exact absurd rfl h1
    | cons c cs => simpa using h2
  · have : (o ++ '/' :: s).getLast? = s.getLast? := by
      cases s with
      | nil => exact absurd rfl g1
      | cons d ds =>
        simp only [List.getLast?_append, List.getLast?_cons_cons]
        cases h : (d :: ds).getLast? with
        | none => simp at h
        | some x => simp
    rw [this]; exact g3

/-- the non-empty stripped prefixes, outermost first -/
def prefixSegs (incs : List (Option Text)) : List Text :=
  (incs.map fun o => stripSlash (o.getD [])).filter fun s => !s.isEmpty

/-- **the documented join**: the non-empty stripped prefixes joined by single slashes; none when nothing is left -/
def joinSpec (incs : List (Option Text)) : Option Text :=
  match prefixSegs incs with
  | [] => none
  | segs => some (joinWith '/' segs)

theorem joinWith_merge (o s : Text) (rest : List Text) :
    joinWith '/' (o :: s :: rest) = joinWith '/' ((o ++ '/' :: s) :: rest) := by
  cases rest with
  | nil => simp [joinWith]
  | cons r rs => simp [joinWith]

theorem prefixAt_clean : ∀ (incs : List (Option Text)) (o : Text), Clean o →
    prefixAt (some o) incs = some (joinWith '/' (o :: prefixSegs incs))
  | [], o, _ => by simp [prefixAt, prefixSegs, joinWith]
  | new :: rest, o, ho => by
    have hstep := stack_clean o ho new
    simp only [prefixAt, List.foldl_cons] at *
    rw [hstep]
    by_cases he : stripSlash (new.getD []) = []
    · simp only [he, ite_true]
      have := prefixAt_clean rest o ho
      simp only [prefixAt] at this
      rw [this]
      simp [prefixSegs, he]
    · simp only [he, ite_false]
      have hs : Clean (stripSlash (new.getD [])) := (strip_nil_or_clean _).resolve_left he
      have := prefixAt_clean rest _ (clean_join o _ ho hs)
      simp only [prefixAt] at this
      rw [this]
      have hne : (stripSlash (new.getD [])).isEmpty = false := by
        cases h : stripSlash (new.getD []) with
        | nil => exact absurd h he
        | cons _ _ => rfl
      simp only [prefixSegs, List.map_cons, List.filter_cons, hne, Bool.not_false, ite_true]
      rw [joinWith_merge]

theorem prefixAt_none : ∀ (incs : List (Option Text)), prefixAt none incs = joinSpec incs
  | [] => rfl
  | new :: rest => by
    have hstep := stack_none new
    simp only [prefixAt, List.foldl_cons] at *
    rw [hstep]
    by_cases he : stripSlash (new.getD []) = []
    · simp only [he, ite_true]
      have := prefixAt_none rest
      simp only [prefixAt] at this
      rw [this]
      simp [joinSpec, prefixSegs, he]
    · simp only [he, ite_false]
      have hs : Clean (stripSlash (new.getD [])) := (strip_nil_or_clean _).resolve_left he
      have := prefixAt_clean rest _ hs
      simp only [prefixAt] at this
      rw [this]
      have hne : (stripSlash (new.getD [])).isEmpty = false := by
        cases h : stripSlash (new.getD []) with
        | nil => exact absurd h he
        | cons _ _ => rfl
      simp [joinSpec, prefixSegs, hne]

theorem prefixAt_ok : ∀ (incs : List (Option Text)) (acc : Option Text), (∀ o, acc = some o → Clean o) →
    ∀ P, prefixAt acc incs = some P → Clean P
  | [], acc, hacc, P, h => hacc P (by simpa [prefixAt] using h)
  | new :: rest, acc, hacc, P, h => by
    simp only [prefixAt, List.foldl_cons] at h
    refine prefixAt_ok rest (stackPrefix acc new) ?_ P (by simpa [prefixAt] using h)
    intro o ho
    cases acc with
    | none =>
      rw [stack_none] at ho
      split at ho
      · cases ho
      · rename_i hne
        injection ho with ho; subst ho
        exact (strip_nil_or_clean _).resolve_left hne
    | some a =>
      have ha : Clean a := hacc a rfl
      rw [stack_clean a ha] at ho
      injection ho with ho; subst ho
      split
      · exact ha
      · rename_i hne
        exact clean_join a _ ha ((strip_nil_or_clean _).resolve_left hne)

/-- whatever `joinSpec` yields is clean (so `rstrip` leaves it alone) -/
theorem joinSpec_clean (incs : List (Option Text)) (P : Text) (h : joinSpec incs = some P) : Clean P :=
  prefixAt_ok incs none (by intro o ho; cases ho) P (by rw [prefixAt_none]; exact h)

/-! ### a literal prefix prepends its text to the language -/

theorem dropPrefix?_append : ∀ (x y p : Text), dropPrefix? (x ++ y) p = (dropPrefix? x p).bind (dropPrefix? y)
  | [], y, p => by simp [dropPrefix?]
  | a :: as, y, [] => by simp [dropPrefix?]
  | a :: as, y, b :: bs => by
    simp only [List.cons_append, dropPrefix?]
    split
    · exact dropPrefix?_append as y bs
    · rfl

theorem matchAll_lit_append (u : Ucd) (a : Anchor) (x y : Text) (ts : List Tok) (p : Text) :
    matchAll u a (.lit (x ++ y) :: ts) p =
      match dropPrefix? x p with
      | some r => matchAll u a (.lit y :: ts) r
      | none => [] := by
  simp only [matchAll, dropPrefix?_append]
  cases dropPrefix? x p <;> simp

theorem hasOld_lead (t : Text) : hasOld ('/' :: t) = hasOld t := by
  cases t with
  | nil => rfl
  | cons d ds => simp [hasOld]

theorem nextPh_lead (t : Text) : (nextPh ('/' :: t)).isNone = (nextPh t).isNone := by
  simp only [nextPh, phAtHead_ne '/' t (by decide)]
  cases nextPh t <;> rfl

theorem oldRewrite_head (u : Ucd) (t : Text) (h : t.head? ≠ some '/') : (oldRewrite u false t).head? ≠ some '/' := by
  cases t with
  | nil => simp [oldRewrite]
  | cons c cs =>
    rw [oldRewrite_false_cons]
    split
    · simp
    · simpa using h

/-- `_compile_route` puts the leading slash itself: a pattern without one parses like the pattern with one -/
theorem parseRoute_lead_slash (u : Ucd) (t : Text) (h : t.head? ≠ some '/') : parseRoute u t = parseRoute u ('/' :: t) := by
  have hrw : oldRewrite u false ('/' :: t) = '/' :: oldRewrite u false t := by
    rw [oldRewrite_false_cons]; simp
  unfold parseRoute
  simp only [hasOld_lead, nextPh_lead, hrw]
  by_cases hc : (hasOld t && (nextPh t).isNone) = true
  · have hh := oldRewrite_head u t h
    simp only [hc, ite_true, List.head?_cons]
    rw [if_neg hh]
  · simp only [hc, Bool.false_eq_true, ite_false, List.head?_cons]
    rw [if_neg h]
    simp

/-- the pattern `add_route` connects under a clean literal prefix `P`, when the route's own pattern is the rendering of
(`/pfx0`, pieces, remainder): it compiles to the route's own tokens with `/P` prepended to the first literal -/
theorem compile_prefixed (u : Ucd) (lib : Lib) (P pfx0 : Text) (pieces : List (RawPh × Text)) (rem : Option Text)
    (hP : Clean P) (hbody : (pfx0 ++ renderPieces pieces ++ renderRest rem).head? ≠ some '/')
    (hwf : RawWf u ('/' :: P ++ '/' :: pfx0) pieces rem) (ts : List Tok) (hres : piecesToks lib pieces = some ts)
    (hnames : (tokNames (.lit ('/' :: P ++ '/' :: pfx0) :: ts ++ restToks rem)).all isIdentA = true ∧
      dupFree (tokNames (.lit ('/' :: P ++ '/' :: pfx0) :: ts ++ restToks rem)) = true) :
    compileRoute u lib (routePattern (some P) (renderRaw ('/' :: pfx0) pieces rem) false) =
      .ok (.lit ('/' :: P ++ '/' :: pfx0) :: ts ++ restToks rem) := by
  obtain ⟨hne, hh, hl⟩ := hP
  have hpat : routePattern (some P) (renderRaw ('/' :: pfx0) pieces rem) false =
      P ++ '/' :: (pfx0 ++ renderPieces pieces ++ renderRest rem) := by
    have h1 : lstripSlash (renderRaw ('/' :: pfx0) pieces rem) = pfx0 ++ renderPieces pieces ++ renderRest rem := by
      unfold lstripSlash renderRaw
      simp only [List.cons_append, List.dropWhile_cons, decide_true, ite_true]
      exact lstrip_of_head _ hbody
    simp only [routePattern, hne, ite_false, Bool.and_false, Bool.false_eq_true, h1, rstrip_of_last P hl]
  have hhead : (P ++ '/' :: (pfx0 ++ renderPieces pieces ++ renderRest rem)).head? ≠ some '/' := by
    cases P with
    | nil => exact absurd rfl hne
    | cons c cs => simpa using hh
  have hparse : parseRoute u (P ++ '/' :: (pfx0 ++ renderPieces pieces ++ renderRest rem)) =
      parseRoute u (renderRaw ('/' :: P ++ '/' :: pfx0) pieces rem) := by
    rw [parseRoute_lead_slash u _ hhead]
    congr 1
    simp [renderRaw]
  have hfull := compile_render_raw u lib ('/' :: P ++ '/' :: pfx0) pieces rem hwf ts hres hnames
  rw [hpat]
  unfold compileRoute at hfull ⊢
  rw [hparse]
  exact hfull

end Pyr.Route
