import PyramidModel.Lemmas.ConfigOrder
/-! C08 helper lemmas: the multiview merge (`MultiView.add`, config/views.py:94-103, the list without `accept=`)
as a footprint on one view slot, and when two such registrations commute. -/
namespace Pyr.ConfigOrder
open Pyr.Actions

private theorem mvAdd_two (o1 t1 o2 t2 : Nat) (h : o1 ≠ o2) :
    mvAdd [o1, t1] o2 t2 = mvAdd [o2, t2] o1 t1 := by
  simp only [mvAdd]
  by_cases h3 : o1 ≤ o2
  · have h4 : ¬ o2 ≤ o1 := by omega
    simp [h3, h4]
  · have h4 : o2 ≤ o1 := by omega
    simp [h3, h4]

theorem mvAdd_comm (o1 t1 o2 t2 : Nat) (h : o1 ≠ o2) :
    ∀ l : List Nat, mvAdd (mvAdd l o1 t1) o2 t2 = mvAdd (mvAdd l o2 t2) o1 t1
  | [] => by simpa [mvAdd] using mvAdd_two o1 t1 o2 t2 h
  | [_] => by simpa [mvAdd] using mvAdd_two o1 t1 o2 t2 h
  | o' :: t' :: rest => by
    have ih := mvAdd_comm o1 t1 o2 t2 h rest
    by_cases h1 : o' ≤ o1 <;> by_cases h2 : o' ≤ o2
    · simp only [mvAdd, h1, h2, if_true, ih]
    · have h3 : o2 ≤ o1 := by omega
      simp [mvAdd, h1, h2, h3]
    · have h3 : o1 ≤ o2 := by omega
      simp [mvAdd, h1, h2, h3]
    · simp only [mvAdd, h1, h2, if_false]
      by_cases h3 : o1 ≤ o2
      · have h4 : ¬ o2 ≤ o1 := by omega
        simp [h3, h4]
      · have h4 : o2 ≤ o1 := by omega
        simp [h3, h4]

theorem viewReg_respects (x : Slot) (o t : Nat) : Respects (viewReg x o t) := by
  constructor
  · intro s y hy
    simp only [viewReg, List.mem_singleton] at hy ⊢
    simp [hy]
  · intro s s' h y hy
    simp only [viewReg, List.mem_singleton] at hy h ⊢
    subst hy
    simp [h]

/-- two views of one slot with different predicate `order` commute -/
theorem viewReg_commutes (x : Slot) (o1 t1 o2 t2 : Nat) (h : o1 ≠ o2) :
    Commutes (viewReg x o1 t1) (viewReg x o2 t2) := by
  intro s
  funext y
  simp only [viewReg]
  by_cases hy : y = x
  · simp only [hy, if_true]
    exact (mvAdd_comm o1 t1 o2 t2 h (s x)).symm
  · simp [hy]

/-- views of different slots are independent -/
theorem viewReg_indep (x y : Slot) (o1 t1 o2 t2 : Nat) (h : x ≠ y) : Indep (viewReg x o1 t1) (viewReg y o2 t2) := by
  constructor <;> intro z hz <;> simp only [viewReg, List.mem_singleton] at hz ⊢ <;> subst hz
  · exact ⟨h, h⟩
  · exact ⟨Ne.symm h, Ne.symm h⟩

/-- instance slots are instances -/
theorem slotOf_instSlots (a : Act) (args : List Slot) (es : List KEntry) :
    ∀ x ∈ instSlots a.key args es, SlotOf a es x := by
  intro x hx
  simp only [instSlots, List.mem_flatMap] at hx
  obtain ⟨e, he, hxe⟩ := hx
  refine ⟨e, he, ?_⟩
  cases hk : e.keying with
  | whole =>
    simp only [hk, List.mem_singleton] at hxe
    subst hxe
    exact ⟨rfl, fun h => by cases h⟩
  | byDisc =>
    simp only [hk] at hxe
    cases hd : a.key with
    | none => simp [hd] at hxe
    | some k =>
      simp only [hd, List.mem_singleton] at hxe
      subst hxe
      exact ⟨rfl, fun _ => rfl⟩
  | byArg =>
    simp only [hk, List.mem_filter, beq_iff_eq] at hxe
    exact ⟨hxe.2.symm, fun h => by cases h⟩

end Pyr.ConfigOrder

namespace Pyr.ConfigOrder
open Pyr.Actions

/-- the auxiliary slot of `viewFp` -/
def auxSlot (id : Nat) : Slot := ⟨.viewSlot, 1000000 + id⟩

/-- what `viewFp` feeds into the auxiliary term: the reads that are not its own view slots -/
def otherReads (reads writes : List Slot) : List Slot := reads.filter (fun x => !writes.contains x)

theorem viewFp_sem (id o : Nat) (r w : List Slot) (s : Store) (x : Slot) :
    (viewFp id o r w).sem s x =
      if x = auxSlot id then id :: encodeVals ((otherReads r w).map s)
      else if x ∈ w then mvAdd (s x) o id else s x := rfl

/-- two view registrations with different predicate order commute, provided each one's *other* reads (route
interface, renderer, policy, defaults, derivers, predicate list …) are not written by the other — which
`phase_table_sound` guarantees for actions of the view kind, all those families being written in earlier phases -/
theorem viewFp_commutes (i j oi oj : Nat) (ri wi rj wj : List Slot) (ho : oi ≠ oj) (hij : i ≠ j)
    (hai : auxSlot i ∉ wj) (haj : auxSlot j ∉ wi)
    (hri : ∀ y ∈ otherReads ri wi, y ≠ auxSlot j ∧ y ∉ wj)
    (hrj : ∀ y ∈ otherReads rj wj, y ≠ auxSlot i ∧ y ∉ wi) :
    Commutes (viewFp i oi ri wi) (viewFp j oj rj wj) := by
  have hne : auxSlot i ≠ auxSlot j := by
    intro h
    have : (1000000 + i) = (1000000 + j) := congrArg Slot.key h
    omega
  have hmi : ∀ s : Store, (otherReads ri wi).map ((viewFp j oj rj wj).sem s) = (otherReads ri wi).map s := by
    intro s
    apply List.map_congr_left
    intro y hy
    rw [viewFp_sem]
    simp [(hri y hy).1, (hri y hy).2]
  have hmj : ∀ s : Store, (otherReads rj wj).map ((viewFp i oi ri wi).sem s) = (otherReads rj wj).map s := by
    intro s
    apply List.map_congr_left
    intro y hy
    rw [viewFp_sem]
    simp [(hrj y hy).1, (hrj y hy).2]
  intro s
  funext x
  rw [viewFp_sem, viewFp_sem]
  by_cases hxi : x = auxSlot i
  · subst hxi
    simp [viewFp_sem, hne, hai, hmi]
  · by_cases hxj : x = auxSlot j
    · subst hxj
      simp [viewFp_sem, hxi, haj, hmj]
    · simp only [hxi, hxj, if_false]
      by_cases hwi : x ∈ wi <;> by_cases hwj : x ∈ wj
      · simp only [hwi, hwj, if_true, viewFp_sem, hxi, hxj, if_false]
        exact (mvAdd_comm oi i oj j ho (s x)).symm ▸ rfl
      · simp only [hwi, hwj, if_true, if_false, viewFp_sem, hxi, hxj]
      · simp only [hwi, hwj, if_true, if_false, viewFp_sem, hxi, hxj]
      · simp only [hwi, hwj, if_false, viewFp_sem, hxi, hxj]

theorem viewFp_respects (id o : Nat) (r w : List Slot) (hr : ∀ x ∈ w, x ∈ r) : Respects (viewFp id o r w) := by
  constructor
  · intro s x hx
    have h1 : x ≠ auxSlot id := fun h => hx (h ▸ List.mem_cons_self ..)
    have h2 : x ∉ w := fun h => hx (List.mem_cons_of_mem _ h)
    rw [viewFp_sem]
    simp [h1, h2]
  · intro s s' h x hx
    have hm : (otherReads r w).map s = (otherReads r w).map s' := by
      apply List.map_congr_left
      intro y hy
      exact h y (List.mem_filter.mp hy).1
    rw [viewFp_sem, viewFp_sem, hm]
    by_cases h1 : x = auxSlot id
    · simp [h1]
    · have h2 : x ∈ w := by
        rcases List.mem_cons.mp hx with e | e
        · exact absurd e h1
        · exact e
      simp only [h1, if_false, h2, if_true]
      rw [h x (hr x h2)]

end Pyr.ConfigOrder
