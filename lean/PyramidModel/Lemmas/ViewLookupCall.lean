import PyramidModel.Lemmas.ViewLookupSlot
/-! Helper lemmas for C03: from the slot invariant to `_find_views`/`_call_view`. -/
namespace Pyr.ViewLookup

/-- what running the first qualifying view does -/
def resultOf (r : Request) (v : DView) : Outcome :=
  if v.secured && !r.permitted then .forbidden v.tag else .response v.tag

theorem call_eq (v : DView) (r : Request) :
    v.call r = if v.holds r then some (resultOf r v) else none := by
  simp only [DView.call, resultOf]
  split <;> (try split) <;> rfl

theorem callFirst_eq_find (r : Request) (vs : List DView) :
    callFirst r vs = (vs.find? (·.holds r)).map (resultOf r) := by
  induction vs with
  | nil => rfl
  | cons v vs ih =>
    simp only [callFirst, call_eq, List.find?_cons]
    by_cases h : v.holds r = true
    · simp [h]
    · have h' : v.holds r = false := by simpa using h
      simp [h', ih]

/-- the views a registered callable tries, in order -/
def Callable.views (r : Request) : Callable → List DView
  | .single v => [v]
  | .multi mv => mv.getViews r

theorem Callable.call_eq (r : Request) (c : Callable) : c.call r = callFirst r (c.views r) := by
  cases c with
  | single v => simp [Callable.call, Callable.views, callFirst]; cases v.call r <;> rfl
  | multi mv => rfl

theorem callViews_eq (r : Request) (cs : List Callable) (pme : Bool) :
    callViews r cs pme =
      match (cs.flatMap (Callable.views r)).find? (·.holds r) with
      | some v => resultOf r v
      | none => if pme || !cs.isEmpty then .mismatch else .none := by
  induction cs generalizing pme with
  | nil => simp [callViews]
  | cons c cs ih =>
    simp only [callViews, Callable.call_eq, callFirst_eq_find, List.flatMap_cons, List.find?_append]
    cases h : (Callable.views r c).find? (·.holds r) with
    | some v => simp
    | none => simp [ih]

/-! ### evaluation trace -/

/-- the asked views of a list: everything before the first that holds, and that one -/
def askedSpec (r : Request) (vs : List DView) : List Nat :=
  (vs.takeWhile fun v => !v.holds r).map (·.tag) ++ ((vs.find? (·.holds r)).map (·.tag)).toList

theorem askedFirst_eq (r : Request) (vs : List DView) : askedFirst r vs = askedSpec r vs := by
  induction vs with
  | nil => rfl
  | cons v vs ih =>
    simp only [askedFirst, askedSpec, List.takeWhile_cons, List.find?_cons]
    by_cases h : v.holds r = true
    · simp [h]
    · have h' : v.holds r = false := by simpa using h
      simp [h', ih, askedSpec]

theorem askedFirst_all_false (r : Request) (a : List DView) (h : ∀ v ∈ a, v.holds r = false) :
    askedFirst r a = a.map (·.tag) := by
  induction a with
  | nil => rfl
  | cons v a ih =>
    have hv : v.holds r = false := h v List.mem_cons_self
    simp [askedFirst, hv, ih (fun u hu => h u (List.mem_cons_of_mem _ hu))]

theorem askedFirst_append (r : Request) (a b : List DView) :
    askedFirst r (a ++ b) = if a.any (·.holds r) then askedFirst r a else a.map (·.tag) ++ askedFirst r b := by
  induction a with
  | nil => simp
  | cons v a ih =>
    by_cases h : v.holds r = true
    · simp [askedFirst, h]
    · have h' : v.holds r = false := by simpa using h
      simp only [List.cons_append, askedFirst, h', Bool.false_eq_true, if_false, ih, List.any_cons, Bool.false_or,
        List.map_cons]
      split <;> simp

theorem Callable.asked_eq (r : Request) (c : Callable) : c.asked r = askedFirst r (c.views r) := by
  cases c with
  | single v => simp [Callable.asked, Callable.views, askedFirst]
  | multi mv => rfl

theorem askedViews_eq (r : Request) (cs : List Callable) :
    askedViews r cs = askedFirst r (cs.flatMap (Callable.views r)) := by
  induction cs with
  | nil => rfl
  | cons c cs ih =>
    simp only [askedViews, List.flatMap_cons, askedFirst_append, Callable.asked_eq, Callable.call_eq, callFirst_eq_find,
      Option.isSome_map]
    by_cases h : (Callable.views r c).any (·.holds r) = true
    · have : ((Callable.views r c).find? (·.holds r)).isSome = true := by
        rw [List.find?_isSome]; simpa using h
      simp [h, this]
    · have hall : ∀ v ∈ Callable.views r c, v.holds r = false := by
        intro v hv
        cases hc : v.holds r with
        | false => rfl
        | true => exact absurd (List.any_eq_true.mpr ⟨v, hv, hc⟩) h
      have hnone : ((Callable.views r c).find? (·.holds r)).isSome = false := by
        cases hf : (Callable.views r c).find? (·.holds r) with
        | none => rfl
        | some v =>
          have := List.find?_some hf
          have hm := List.mem_of_find?_eq_some hf
          simp [hall v hm] at this
      have h' : (Callable.views r c).any (·.holds r) = false := by simpa using h
      simp [h', hnone, ih, askedFirst_all_false r _ hall]

/-! ### the registry is slot-wise the fold of the slot's registrations -/

theorem foldl_registerView_apply (regs : List ViewReg) (reg0 : Registry) (k : SlotKey) :
    (regs.foldl registerView reg0) k
      = ((regs.filter (·.key = k)).map derive).foldl regSlot (reg0 k) := by
  induction regs generalizing reg0 with
  | nil => rfl
  | cons r rs ih =>
    simp only [List.foldl_cons, ih, List.filter_cons]
    by_cases h : r.key = k
    · simp [h, registerView]
    · have h' : ¬ k = r.key := fun e => h e.symm
      simp [h, h', registerView]

theorem registerAll_apply (regs : List ViewReg) (k : SlotKey) :
    registerAll regs k = (slotRegs regs k).foldl regSlot Slot.empty := by
  simp [registerAll, foldl_registerView_apply, slotRegs, Registry.empty]

/-- Two registrations into the same slot with the same phash agree on order, accept and
protectedness (`coherentB` as a proposition). -/
def Coherent (regs : List ViewReg) : Prop :=
  ∀ a ∈ regs, ∀ b ∈ regs, a.key = b.key → (derive a).phash = (derive b).phash →
    (derive a).order = (derive b).order ∧ (derive a).accept = (derive b).accept ∧ a.secured = b.secured

theorem coherentB_iff (regs : List ViewReg) : coherentB regs = true ↔ Coherent regs := by
  simp only [coherentB, Coherent, List.all_eq_true]
  constructor
  · intro h a ha b hb hk hp
    have := h a ha b hb
    simp only [hk, hp, decide_true, Bool.and_self, if_true, Bool.and_eq_true, decide_eq_true_eq] at this
    exact ⟨this.1.1, this.1.2, this.2⟩
  · intro h a ha b hb
    split
    · rename_i hc
      simp only [Bool.and_eq_true, decide_eq_true_eq] at hc
      have := h a ha b hb hc.1 hc.2
      simp [this.1, this.2.1, this.2.2]
    · rfl

theorem derive_secured (a : ViewReg) : (derive a).secured = a.secured := rfl

theorem slotCoherent_of_coherent (regs : List ViewReg) (h : Coherent regs) (k : SlotKey) :
    SlotCoherent (slotRegs regs k) := by
  intro a ha b hb hab
  simp only [slotRegs, List.mem_map, List.mem_filter, decide_eq_true_eq] at ha hb
  obtain ⟨ra, ⟨hra, hka⟩, rfl⟩ := ha
  obtain ⟨rb, ⟨hrb, hkb⟩, rfl⟩ := hb
  have := h ra hra rb hrb (hka.trans hkb.symm) hab
  exact ⟨this.1, this.2.1, this.2.2⟩

theorem registerAll_slot (regs : List ViewReg) (h : Coherent regs) (k : SlotKey) :
    registerAll regs k = slotOf (inForce (slotRegs regs k)) := by
  rw [registerAll_apply, slot_invariant _ (slotCoherent_of_coherent regs h k)]

/-! ### what a slot offers to a request -/

theorem acceptable_nil (r : Request) : acceptable r [] = [] := rfl

theorem mvOf_getViews (es : List DView) (r : Request) :
    (mvOf es).getViews r =
      ((acceptable r (specAccepts es)).flatMap fun o => sortL byOrder (es.filter (·.accept = some o)))
        ++ sortL byOrder (es.filter (·.accept = none)) := by
  simp only [MultiView.getViews, mvOf]
  by_cases h : (specAccepts es).isEmpty = true
  · have : specAccepts es = [] := by simpa using h
    simp [this, acceptable_nil]
  · simp [h]

theorem slotCallables_slotOf_views (es : List DView) (r : Request) :
    (slotCallables (slotOf es)).flatMap (Callable.views r) = slotCandidates es r := by
  match es with
  | [] => simp [slotCallables, slotCallablesFrom, Gen.C03.viewTypes, slotOf, Slot.empty, slotCandidates]
  | [e] =>
    simp only [slotOf, slotCandidates]
    split <;> simp [slotCallables, slotCallablesFrom, Gen.C03.viewTypes, Callable.views]
  | e1 :: e2 :: rest =>
    rw [slotOf_two]
    simp [slotCallables, slotCallablesFrom, Gen.C03.viewTypes, Callable.views, mvOf_getViews, slotCandidates]

theorem slotCallables_slotOf_isEmpty (es : List DView) :
    (slotCallables (slotOf es)).isEmpty = es.isEmpty := by
  match es with
  | [] => simp [slotCallables, slotCallablesFrom, Gen.C03.viewTypes, slotOf, Slot.empty]
  | [e] =>
    simp only [slotOf]
    split <;> simp [slotCallables, slotCallablesFrom, Gen.C03.viewTypes]
  | e1 :: e2 :: rest =>
    rw [slotOf_two]
    simp [slotCallables, slotCallablesFrom, Gen.C03.viewTypes]

theorem sroPairs_eq (r : Request) : sroPairs r = specPairs r := by
  simp [sroPairs, sroPairsOf, specPairs, Gen.C03.requestMajor]

theorem isEmpty_flatMap {α β} (l : List α) (f : α → List β) :
    (l.flatMap f).isEmpty = l.all fun x => (f x).isEmpty := by
  induction l with
  | nil => rfl
  | cons x xs ih =>
    simp only [List.flatMap_cons, List.all_cons, ← ih]
    cases f x <;> simp

theorem slotRegs_isEmpty (regs : List ViewReg) (k : SlotKey) :
    (slotRegs regs k).isEmpty = !(regs.any (·.key = k)) := by
  induction regs with
  | nil => rfl
  | cons a as ih =>
    simp only [slotRegs, List.filter_cons, List.any_cons] at ih ⊢
    by_cases h : a.key = k
    · simp [h]
    · simp [h]; simpa using ih

theorem inForce_isEmpty (vs : List DView) : (inForce vs).isEmpty = vs.isEmpty := by
  cases h : vs with
  | nil => rfl
  | cons v t =>
    have : inForce (v :: t) ≠ [] := fun e => by
      have := (inForce_eq_nil_iff (v :: t)).mp e
      simp at this
    cases h2 : inForce (v :: t) with
    | nil => exact absurd h2 this
    | cons => rfl

end Pyr.ViewLookup
