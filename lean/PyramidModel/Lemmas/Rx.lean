import PyramidModel.Rx
/-! Declarative language semantics of the `Rx` fragment and the lemmas tying `Rx.run` to it.
Property theorems are in `Props/C01.lean`. -/
namespace Pyr.Rx

/-- `k`-fold concatenation of a language -/
def Pow (L : Text → Prop) : Nat → Text → Prop
  | 0, w => w = []
  | k + 1, w => ∃ x y, w = x ++ y ∧ L x ∧ Pow L k y

/-- some item of a bracketed class accepts the character -/
def SetHas (u : Ucd) (items : List CItem) (c : Char) : Prop := ∃ it ∈ items, it.test u c = true

/-- The language of a regex, by recursion on its syntax (textbook denotational semantics; nothing about order,
backtracking or fuel). -/
def Lang (u : Ucd) : Rx → Text → Prop
  | .eps, w => w = []
  | .chr a, w => w = [a]
  | .any, w => ∃ c, c ≠ '\n' ∧ w = [c]
  | .all, w => ∃ c, w = [c]
  | .set neg items, w => ∃ c, w = [c] ∧ (if neg then ¬ SetHas u items c else SetHas u items c)
  | .esc k neg, w => ∃ c, w = [c] ∧ (if neg then k.test u c = false else k.test u c = true)
  | .seq a b, w => ∃ x y, w = x ++ y ∧ Lang u a x ∧ Lang u b y
  | .alt a b, w => Lang u a w ∨ Lang u b w
  | .grp _ r, w => Lang u r w
  | .rep _ m n r, w => ∃ k, m ≤ k ∧ (∀ b, n = some b → k ≤ b) ∧ Pow (Lang u r) k w

/-! ### generic facts about the list-of-successes combinators -/

def Sound (step : Text → Res) (L : Text → Prop) : Prop :=
  ∀ s c rest, (c, rest) ∈ step s → s = c ++ rest ∧ L c

def Complete (step : Text → Res) (L : Text → Prop) : Prop :=
  ∀ c rest, L c → (c, rest) ∈ step (c ++ rest)

theorem mem_bind_pre (xs : Res) (f : Text → Res) (c rest : Text) :
    (c, rest) ∈ (xs.flatMap fun x => (f x.2).map (pre x.1)) ↔
      ∃ c1 r1 c2, (c1, r1) ∈ xs ∧ (c2, rest) ∈ f r1 ∧ c = c1 ++ c2 := by
  simp only [List.mem_flatMap, List.mem_map, pre, Prod.exists, Prod.mk.injEq]
  constructor
  · rintro ⟨c1, r1, h1, c2, r2, h2, hc, hr⟩
    subst hr
    exact ⟨c1, r1, c2, h1, h2, hc.symm⟩
  · rintro ⟨c1, r1, c2, h1, h2, hc⟩
    exact ⟨c1, r1, h1, c2, rest, h2, hc.symm, rfl⟩

theorem mem_one (p : Char → Bool) (s c rest : Text) :
    (c, rest) ∈ one p s ↔ ∃ a, p a = true ∧ c = [a] ∧ s = a :: rest := by
  cases s with
  | nil => simp [one]
  | cons b bs =>
    simp only [one]
    split
    · rename_i h
      simp only [List.mem_singleton, Prod.mk.injEq, List.cons.injEq]
      constructor
      · rintro ⟨rfl, rfl⟩; exact ⟨b, h, rfl, rfl, rfl⟩
      · rintro ⟨a, _, rfl, rfl, rfl⟩; exact ⟨rfl, rfl⟩
    · rename_i h
      simp only [List.not_mem_nil, false_iff, not_exists, not_and, List.cons.injEq]
      rintro a ha _ rfl
      exact absurd ha h

theorem pow_add {L : Text → Prop} : ∀ (m j : Nat) (c1 c2 : Text), Pow L m c1 → Pow L j c2 → Pow L (m + j) (c1 ++ c2)
  | 0, j, c1, c2, h1, h2 => by
    simp only [Pow] at h1; subst h1; simpa using h2
  | m + 1, j, c1, c2, h1, h2 => by
    obtain ⟨x, y, rfl, hx, hy⟩ := h1
    have : m + 1 + j = (m + j) + 1 := by omega
    rw [this]
    exact ⟨x, y ++ c2, by simp, hx, pow_add m j y c2 hy h2⟩

theorem pow_split {L : Text → Prop} : ∀ (m j : Nat) (c : Text), Pow L (m + j) c →
    ∃ c1 c2, c = c1 ++ c2 ∧ Pow L m c1 ∧ Pow L j c2
  | 0, j, c, h => ⟨[], c, rfl, rfl, by simpa using h⟩
  | m + 1, j, c, h => by
    have e : m + 1 + j = (m + j) + 1 := by omega
    rw [e] at h
    obtain ⟨x, y, rfl, hx, hy⟩ := h
    obtain ⟨c1, c2, rfl, h1, h2⟩ := pow_split m j y hy
    exact ⟨x ++ c1, c2, by simp, ⟨x, c1, rfl, hx, h1⟩, h2⟩

theorem pow_len {L : Text → Prop} (hne : ∀ w, L w → w ≠ []) : ∀ (j : Nat) (c : Text), Pow L j c → j ≤ c.length
  | 0, _, _ => Nat.zero_le _
  | j + 1, c, h => by
    obtain ⟨x, y, rfl, hx, hy⟩ := h
    have := pow_len hne j y hy
    have : x.length ≠ 0 := fun h0 => hne x hx (List.length_eq_zero_iff.mp h0)
    simp only [List.length_append]; omega

theorem pow_mono {L L' : Text → Prop} (h : ∀ w, L w → L' w) : ∀ (k : Nat) (c : Text), Pow L k c → Pow L' k c
  | 0, _, hc => hc
  | k + 1, _, ⟨x, y, e, hx, hy⟩ => ⟨x, y, e, h x hx, pow_mono h k y hy⟩

theorem exactly_sound {step : Text → Res} {L : Text → Prop} (hs : Sound step L) :
    ∀ (k : Nat) (s c rest : Text), (c, rest) ∈ exactly step k s → s = c ++ rest ∧ Pow L k c
  | 0, s, c, rest, h => by
    simp only [exactly, List.mem_singleton, Prod.mk.injEq] at h
    obtain ⟨rfl, rfl⟩ := h
    exact ⟨rfl, rfl⟩
  | k + 1, s, c, rest, h => by
    simp only [exactly] at h
    rw [mem_bind_pre] at h
    obtain ⟨c1, r1, c2, h1, h2, rfl⟩ := h
    obtain ⟨rfl, hl⟩ := hs s c1 r1 h1
    obtain ⟨rfl, hp⟩ := exactly_sound hs k r1 c2 rest h2
    exact ⟨by simp, c1, c2, rfl, hl, hp⟩

theorem exactly_complete {step : Text → Res} {L : Text → Prop} (hc : Complete step L) :
    ∀ (k : Nat) (c rest : Text), Pow L k c → (c, rest) ∈ exactly step k (c ++ rest)
  | 0, c, rest, h => by
    simp only [Pow] at h; subst h; simp [exactly]
  | k + 1, c, rest, h => by
    obtain ⟨x, y, rfl, hx, hy⟩ := h
    simp only [exactly]
    rw [mem_bind_pre]
    refine ⟨x, y ++ rest, y, ?_, exactly_complete hc k y rest hy, rfl⟩
    simpa using hc x (y ++ rest) hx

theorem mem_upTo_succ (g : Bool) (step : Text → Res) (k : Nat) (s c rest : Text) :
    (c, rest) ∈ upTo g step (k + 1) s ↔
      ((c, rest) ∈ ((step s).flatMap fun x => (upTo g step k x.2).map (pre x.1))) ∨ (c = [] ∧ rest = s) := by
  simp only [upTo]
  cases g <;> simp [Prod.mk.injEq, or_comm]

theorem upTo_sound {step : Text → Res} {L : Text → Prop} (g : Bool) (hs : Sound step L) :
    ∀ (k : Nat) (s c rest : Text), (c, rest) ∈ upTo g step k s → s = c ++ rest ∧ ∃ j, j ≤ k ∧ Pow L j c
  | 0, s, c, rest, h => by
    simp only [upTo, List.mem_singleton, Prod.mk.injEq] at h
    obtain ⟨rfl, rfl⟩ := h
    exact ⟨rfl, 0, Nat.le_refl _, rfl⟩
  | k + 1, s, c, rest, h => by
    rw [mem_upTo_succ] at h
    rcases h with h | ⟨rfl, rfl⟩
    · rw [mem_bind_pre] at h
      obtain ⟨c1, r1, c2, h1, h2, rfl⟩ := h
      obtain ⟨rfl, hl⟩ := hs s c1 r1 h1
      obtain ⟨rfl, j, hj, hp⟩ := upTo_sound g hs k r1 c2 rest h2
      exact ⟨by simp, j + 1, by omega, c1, c2, rfl, hl, hp⟩
    · exact ⟨rfl, 0, Nat.zero_le _, rfl⟩

theorem upTo_complete {step : Text → Res} {L : Text → Prop} (g : Bool) (hc : Complete step L) :
    ∀ (k j : Nat) (c rest : Text), j ≤ k → Pow L j c → (c, rest) ∈ upTo g step k (c ++ rest)
  | 0, j, c, rest, hj, h => by
    have : j = 0 := by omega
    subst this
    simp only [Pow] at h; subst h; simp [upTo]
  | k + 1, 0, c, rest, _, h => by
    simp only [Pow] at h; subst h
    rw [mem_upTo_succ]; right; exact ⟨rfl, rfl⟩
  | k + 1, j + 1, c, rest, hj, h => by
    obtain ⟨x, y, rfl, hx, hy⟩ := h
    rw [mem_upTo_succ]; left
    rw [mem_bind_pre]
    refine ⟨x, y ++ rest, y, ?_, upTo_complete g hc k j y rest (by omega) hy, rfl⟩
    simpa using hc x (y ++ rest) hx

/-! ### single characters -/

theorem setTest_iff (u : Ucd) (neg : Bool) (items : List CItem) (c : Char) :
    setTest u neg items c = true ↔ (if neg then ¬ SetHas u items c else SetHas u items c) := by
  unfold setTest SetHas
  cases neg <;> simp [List.any_eq_true]

theorem escTest_iff (u : Ucd) (k : Esc) (neg : Bool) (c : Char) :
    escTest u k neg c = true ↔ (if neg then k.test u c = false else k.test u c = true) := by
  unfold escTest
  cases neg <;> cases k.test u c <;> simp

/-! ### `run` against `Lang` -/

theorem run_sound (u : Ucd) : ∀ (r : Rx), Sound (run u r) (Lang u r)
  | .eps => by
    intro s c rest h
    simp only [run, List.mem_singleton, Prod.mk.injEq] at h
    obtain ⟨rfl, rfl⟩ := h
    exact ⟨rfl, rfl⟩
  | .chr a => by
    intro s c rest h
    simp only [run] at h
    rw [mem_one] at h
    obtain ⟨b, hb, rfl, rfl⟩ := h
    have : b = a := by simpa using hb
    subst this
    exact ⟨rfl, rfl⟩
  | .any => by
    intro s c rest h
    simp only [run] at h
    rw [mem_one] at h
    obtain ⟨b, hb, rfl, rfl⟩ := h
    exact ⟨rfl, b, by simpa using hb, rfl⟩
  | .all => by
    intro s c rest h
    simp only [run] at h
    rw [mem_one] at h
    obtain ⟨b, _, rfl, rfl⟩ := h
    exact ⟨rfl, b, rfl⟩
  | .set neg items => by
    intro s c rest h
    simp only [run] at h
    rw [mem_one] at h
    obtain ⟨b, hb, rfl, rfl⟩ := h
    exact ⟨rfl, b, rfl, (setTest_iff u neg items b).mp hb⟩
  | .esc k neg => by
    intro s c rest h
    simp only [run] at h
    rw [mem_one] at h
    obtain ⟨b, hb, rfl, rfl⟩ := h
    exact ⟨rfl, b, rfl, (escTest_iff u k neg b).mp hb⟩
  | .seq a b => by
    intro s c rest h
    simp only [run] at h
    rw [mem_bind_pre] at h
    obtain ⟨c1, r1, c2, h1, h2, rfl⟩ := h
    obtain ⟨rfl, ha⟩ := run_sound u a s c1 r1 h1
    obtain ⟨rfl, hb⟩ := run_sound u b r1 c2 rest h2
    exact ⟨by simp, c1, c2, rfl, ha, hb⟩
  | .alt a b => by
    intro s c rest h
    simp only [run, List.mem_append] at h
    rcases h with h | h
    · obtain ⟨e, ha⟩ := run_sound u a s c rest h
      exact ⟨e, Or.inl ha⟩
    · obtain ⟨e, hb⟩ := run_sound u b s c rest h
      exact ⟨e, Or.inr hb⟩
  | .grp _ r => by
    intro s c rest h
    simp only [run] at h
    exact run_sound u r s c rest h
  | .rep g m n r => by
    intro s c rest h
    simp only [run] at h
    split at h
    case isFalse => simp at h
    rename_i hv
    have h := (mem_bind_pre _ (fun r1 => upTo g (run u r) (repBound m n r1) r1) c rest).mp h
    obtain ⟨c1, r1, c2, h1, h2, rfl⟩ := h
    obtain ⟨rfl, hp1⟩ := exactly_sound (run_sound u r) m s c1 r1 h1
    obtain ⟨rfl, j, hj, hp2⟩ := upTo_sound g (run_sound u r) _ r1 c2 rest h2
    refine ⟨by simp, m + j, by omega, ?_, pow_add m j c1 c2 hp1 hp2⟩
    intro b hb
    subst hb
    simp only [repBound] at hj
    simp only [repValid, decide_eq_true_eq] at hv
    -- `exactly` produced `m` iterations, so `m ≤ b` is not needed: `j ≤ b - m`
    omega

theorem nullable_sound (u : Ucd) : ∀ (r : Rx) (w : Text), nullable r = false → Lang u r w → w ≠ []
  | .eps, _, h, _ => by simp [nullable] at h
  | .chr a, w, _, hl => by simp only [Lang] at hl; subst hl; simp
  | .any, w, _, hl => by obtain ⟨c, _, rfl⟩ := hl; simp
  | .all, w, _, hl => by obtain ⟨c, rfl⟩ := hl; simp
  | .set _ _, w, _, hl => by obtain ⟨c, rfl, _⟩ := hl; simp
  | .esc _ _, w, _, hl => by obtain ⟨c, rfl, _⟩ := hl; simp
  | .seq a b, w, h, hl => by
    obtain ⟨x, y, rfl, hx, hy⟩ := hl
    simp only [nullable, Bool.and_eq_false_iff] at h
    rcases h with h | h
    · have := nullable_sound u a x h hx
      simp [this]
    · have := nullable_sound u b y h hy
      simp [this]
  | .alt a b, w, h, hl => by
    simp only [nullable, Bool.or_eq_false_iff] at h
    rcases hl with hl | hl
    · exact nullable_sound u a w h.1 hl
    · exact nullable_sound u b w h.2 hl
  | .grp _ r, w, h, hl => nullable_sound u r w (by simpa [nullable] using h) hl
  | .rep _ m n r, w, h, hl => by
    simp only [nullable, Bool.or_eq_false_iff, beq_eq_false_iff_ne] at h
    obtain ⟨k, hk, _, hp⟩ := hl
    cases k with
    | zero => omega
    | succ k =>
      obtain ⟨x, y, rfl, hx, _⟩ := hp
      have := nullable_sound u r x h.2 hx
      simp [this]

theorem run_complete (u : Ucd) : ∀ (r : Rx), ok r = true → Complete (run u r) (Lang u r)
  | .eps, _ => by
    intro c rest h
    simp only [Lang] at h; subst h; simp [run]
  | .chr a, _ => by
    intro c rest h
    simp only [Lang] at h; subst h
    simp only [run, List.cons_append, List.nil_append]
    rw [mem_one]; exact ⟨a, by simp, rfl, rfl⟩
  | .any, _ => by
    intro c rest h
    obtain ⟨a, ha, rfl⟩ := h
    simp only [run, List.cons_append, List.nil_append]
    rw [mem_one]; exact ⟨a, by simpa using ha, rfl, rfl⟩
  | .all, _ => by
    intro c rest h
    obtain ⟨a, rfl⟩ := h
    simp only [run, List.cons_append, List.nil_append]
    rw [mem_one]; exact ⟨a, rfl, rfl, rfl⟩
  | .set neg items, _ => by
    intro c rest h
    obtain ⟨a, rfl, ha⟩ := h
    simp only [run, List.cons_append, List.nil_append]
    rw [mem_one]; exact ⟨a, (setTest_iff u neg items a).mpr ha, rfl, rfl⟩
  | .esc k neg, _ => by
    intro c rest h
    obtain ⟨a, rfl, ha⟩ := h
    simp only [run, List.cons_append, List.nil_append]
    rw [mem_one]; exact ⟨a, (escTest_iff u k neg a).mpr ha, rfl, rfl⟩
  | .seq a b, hok => by
    intro c rest h
    simp only [ok, Bool.and_eq_true] at hok
    obtain ⟨x, y, rfl, hx, hy⟩ := h
    simp only [run]
    rw [mem_bind_pre]
    refine ⟨x, y ++ rest, y, ?_, run_complete u b hok.2 y rest hy, rfl⟩
    simpa using run_complete u a hok.1 x (y ++ rest) hx
  | .alt a b, hok => by
    intro c rest h
    simp only [ok, Bool.and_eq_true] at hok
    simp only [run, List.mem_append]
    rcases h with h | h
    · exact Or.inl (run_complete u a hok.1 c rest h)
    · exact Or.inr (run_complete u b hok.2 c rest h)
  | .grp _ r, hok => by
    intro c rest h
    simp only [ok, Bool.and_eq_true] at hok
    simp only [run]
    exact run_complete u r hok.1 c rest h
  | .rep g m n r, hok => by
    intro c rest h
    simp only [ok, Bool.and_eq_true, Bool.not_eq_true'] at hok
    obtain ⟨⟨hr, hnn⟩, hv⟩ := hok
    obtain ⟨k, hk, hb, hp⟩ := h
    obtain ⟨j, rfl⟩ : ∃ j, k = m + j := ⟨k - m, by omega⟩
    obtain ⟨c1, c2, rfl, h1, h2⟩ := pow_split m j c hp
    simp only [run, hv, ite_true]
    refine (mem_bind_pre _ (fun r1 => upTo g (run u r) (repBound m n r1) r1) _ rest).mpr ?_
    refine ⟨c1, c2 ++ rest, c2, ?_, ?_, rfl⟩
    · simpa using exactly_complete (run_complete u r hr) m c1 (c2 ++ rest) h1
    · refine upTo_complete g (run_complete u r hr) _ j c2 rest ?_ h2
      cases n with
      | some b => have := hb b rfl; simp only [repBound]; omega
      | none =>
        have := pow_len (fun w hw => nullable_sound u r w hnn hw) j c2 h2
        simp only [repBound, List.length_append]; omega

/-! ### the default placeholder `[^/]+` : longest first -/

theorem one_nil (p : Char → Bool) : one p [] = [] := rfl
theorem one_cons_pos (p : Char → Bool) (c : Char) (cs : Text) (h : p c = true) : one p (c :: cs) = [([c], cs)] := by
  simp [one, h]
theorem one_cons_neg (p : Char → Bool) (c : Char) (cs : Text) (h : ¬ p c = true) : one p (c :: cs) = [] := by
  simp [one, h]

theorem run_set_eq (u : Ucd) (neg : Bool) (items : List CItem) : run u (.set neg items) = one (setTest u neg items) := by
  funext s; simp only [run]

theorem upTo_one_sorted (p : Char → Bool) :
    ∀ (k : Nat) (s : Text), (upTo true (one p) k s).Pairwise fun a b => a.1.length > b.1.length
  | 0, s => by simp [upTo]
  | k + 1, [] => by simp [upTo, one_nil]
  | k + 1, c :: cs => by
    by_cases hp : p c = true
    · simp only [upTo, one_cons_pos p c cs hp, List.flatMap_cons, List.flatMap_nil, List.append_nil, ite_true]
      rw [List.pairwise_append]
      refine ⟨?_, by simp, ?_⟩
      · rw [List.pairwise_map]
        exact (upTo_one_sorted p k cs).imp (by intro a b h; simp only [pre, List.length_append]; omega)
      · intro a ha b hb
        simp only [List.mem_singleton] at hb
        subst hb
        simp only [List.mem_map] at ha
        obtain ⟨x, _, rfl⟩ := ha
        simp [pre]
    · simp [upTo, one_cons_neg p c cs hp]

theorem run_notSlashPlus_eq (u : Ucd) (s : Text) :
    run u notSlashPlus s =
      (exactly (one (setTest u true [CItem.ch '/'])) 1 s).flatMap fun x =>
        (upTo true (one (setTest u true [CItem.ch '/'])) x.2.length x.2).map (pre x.1) := by
  simp only [notSlashPlus, run, repValid, repBound, ite_true]

theorem run_notSlashPlus_sorted (u : Ucd) (s : Text) :
    (run u notSlashPlus s).Pairwise fun a b => a.1.length > b.1.length := by
  rw [run_notSlashPlus_eq]
  cases s with
  | nil => simp [exactly, one_nil]
  | cons c cs =>
    by_cases hp : setTest u true [CItem.ch '/'] c = true
    · simp only [exactly, one_cons_pos _ c cs hp, List.flatMap_cons, List.flatMap_nil, List.append_nil,
        List.map_cons, List.map_nil, pre]
      rw [List.pairwise_map]
      exact (upTo_one_sorted _ _ cs).imp (by intro a b h; simp only [pre, List.length_append]; omega)
    · simp [exactly, one_cons_neg _ c cs hp]

end Pyr.Rx
