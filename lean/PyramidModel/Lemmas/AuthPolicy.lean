/-
X05 — helper lemmas: codecs (the fuelled UTF-8 decoder is C09's strict decoder; round trips), `splitFirst`, `strip`.
-/
import PyramidModel.AuthPolicy
import PyramidModel.Lemmas.AuthPolicySpec
import PyramidModel.Lemmas.AuthTktCodec

namespace Pyr.AuthPolicy

open Pyr.AuthTkt (Bytes latin1Enc utf8Enc utf8Step utf8DecStrict b64enc b64dec splitFirst byteOfNat asciiBytes)

/-! ### UTF-8 -/

/-- with enough fuel the fuelled decoder is C09's strict decoder -/
theorem utf8DecF_eq (f : Nat) : ∀ (bs : Bytes), bs.length ≤ f → utf8DecF f bs = utf8DecStrict bs := by
  induction f with
  | zero =>
    intro bs h
    cases bs with
    | nil => simp [utf8DecF, utf8DecStrict]
    | cons b r => simp at h
  | succ f ih =>
    intro bs h
    cases bs with
    | nil => simp [utf8DecF, utf8DecStrict]
    | cons b0 rest =>
      rw [utf8DecStrict, utf8DecF]
      rcases hs : utf8Step b0 rest with ⟨o, k⟩
      cases o with
      | none => rfl
      | some c =>
        have : (rest.drop k).length ≤ f := by
          simp only [List.length_cons] at h
          simp only [List.length_drop]; omega
        simp only [ih _ this]

theorem utf8Dec_eq_strict (bs : Bytes) : utf8Dec bs = utf8DecStrict bs := utf8DecF_eq _ _ (Nat.le_refl _)

theorem utf8Dec_enc (t : Text) : utf8Dec (utf8Enc t) = some t := by
  rw [utf8Dec_eq_strict, AuthTkt.utf8DecStrict_enc]

theorem decodeText_enc (t : Text) : decodeText (utf8Enc t) = t := by
  simp [decodeText, utf8Dec_enc]

/-! ### `str.split(sep, 1)` -/

theorem splitFirst_some_iff (sep : Char) : ∀ (t a b : Text),
    splitFirst sep t = some (a, b) ↔ t = a ++ sep :: b ∧ sep ∉ a := by
  intro t
  induction t with
  | nil => intro a b; simp [splitFirst]
  | cons c r ih =>
    intro a b
    unfold splitFirst
    by_cases hc : c = sep
    · subst hc
      simp only [if_true, Option.some.injEq, Prod.mk.injEq]
      constructor
      · rintro ⟨rfl, rfl⟩; simp
      · rintro ⟨h, hn⟩
        cases a with
        | nil => simp at h; exact ⟨rfl, h⟩
        | cons x a' =>
          simp only [List.cons_append, List.cons.injEq] at h
          exact absurd (by rw [← h.1]; simp) hn
    · simp only [hc, if_false]
      cases hr : splitFirst sep r with
      | none =>
        simp only [reduceCtorEq, false_iff]
        rintro ⟨h, hn⟩
        cases a with
        | nil => simp at h; exact hc h.1
        | cons x a' =>
          simp only [List.cons_append, List.cons.injEq] at h
          have := (ih a' b).2 ⟨h.2, fun hm => hn (by simp [hm])⟩
          rw [hr] at this; cases this
      | some p =>
        obtain ⟨a0, b0⟩ := p
        have h0 := (ih a0 b0).1 hr
        simp only [Option.some.injEq, Prod.mk.injEq]
        constructor
        · rintro ⟨rfl, rfl⟩
          refine ⟨by rw [h0.1]; simp, ?_⟩
          simp only [List.mem_cons, not_or]
          exact ⟨fun e => hc e.symm, h0.2⟩
        · rintro ⟨h, hn⟩
          cases a with
          | nil => simp at h; exact absurd h.1 hc
          | cons x a' =>
            simp only [List.cons_append, List.cons.injEq] at h
            have := (ih a' b).2 ⟨h.2, fun hm => hn (by simp [hm])⟩
            rw [hr] at this
            simp only [Option.some.injEq, Prod.mk.injEq] at this
            exact ⟨by rw [h.1, this.1], this.2⟩

theorem splitFirst_none_iff (sep : Char) (t : Text) : splitFirst sep t = none ↔ sep ∉ t := by
  induction t with
  | nil => simp [splitFirst]
  | cons c r ih =>
    unfold splitFirst
    by_cases hc : c = sep
    · subst hc; simp
    · simp only [hc, if_false]
      cases hr : splitFirst sep r with
      | none =>
        simp only [true_iff, List.mem_cons, not_or]
        exact ⟨fun e => hc e.symm, ih.1 hr⟩
      | some p =>
        simp only [reduceCtorEq, false_iff, List.mem_cons, not_or, not_and, Decidable.not_not]
        intro _
        cases hm : decide (sep ∈ r) with
        | true => exact of_decide_eq_true hm
        | false => rw [ih.2 (of_decide_eq_false hm)] at hr; cases hr

theorem splitFirst_mem {sep : Char} {t a b : Text} (h : splitFirst sep t = some (a, b)) :
    (∀ c ∈ a, c ∈ t) ∧ (∀ c ∈ b, c ∈ t) := by
  have := ((splitFirst_some_iff sep t a b).1 h).1
  subst this
  constructor <;> intro c hc <;> simp [hc]

/-! ### latin-1 -/

theorem latin1Enc_ok (t : Text) (h : Latin1 t) : latin1Enc t = .ok (asciiBytes t) := by
  induction t with
  | nil => rfl
  | cons c r ih =>
    have hc : c.toNat < 256 := h c (by simp)
    have hr := ih (fun x hx => h x (by simp [hx]))
    simp [latin1Enc, hc, hr, asciiBytes, Functor.map, Except.map]

theorem latin1Enc_error (t : Text) (e : AuthTkt.Err) (h : latin1Enc t = .error e) : ¬ Latin1 t := by
  intro hl; rw [latin1Enc_ok t hl] at h; cases h

/-! ### `strip` -/

theorem dropWhile_sub {α} (p : α → Bool) (l : List α) : ∀ x ∈ l.dropWhile p, x ∈ l := by
  intro x hx
  exact (List.dropWhile_suffix p).subset hx

theorem strip_sub (t : Text) : ∀ c ∈ strip t, c ∈ t := by
  intro c hc
  unfold strip at hc
  have h1 := dropWhile_sub isSpace _ c (List.mem_reverse.1 hc)
  exact dropWhile_sub isSpace _ c (List.mem_reverse.1 h1)

theorem dropWhile_none {α} (p : α → Bool) (l : List α) (h : ∀ x ∈ l, p x = false) : l.dropWhile p = l := by
  cases l with
  | nil => rfl
  | cons a r => simp [List.dropWhile, h a (by simp)]

/-- a text without white space is left alone -/
theorem strip_id (t : Text) (h : ∀ c ∈ t, isSpace c = false) : strip t = t := by
  unfold strip
  rw [dropWhile_none _ _ h, dropWhile_none _ _ (fun x hx => h x (List.mem_reverse.1 hx)), List.reverse_reverse]

/-- base64 text has no white space -/
theorem b64enc_nospace (bs : Bytes) : ∀ c ∈ b64enc bs, isSpace c = false := by
  have hch : ∀ n : Fin 64, isSpace (AuthTkt.b64Char n.val) = false := by decide
  have heq : isSpace '=' = false := by decide
  intro c hc
  induction bs using AuthTkt.b64enc.induct with
  | case1 => simp [b64enc] at hc
  | case2 a =>
    simp only [b64enc, List.mem_cons, List.not_mem_nil, or_false] at hc
    rcases hc with rfl | rfl | rfl | rfl
    · exact hch ⟨a.toNat / 4, by have := a.toNat_lt; omega⟩
    · exact hch ⟨a.toNat % 4 * 16, by omega⟩
    · exact heq
    · exact heq
  | case3 a b =>
    simp only [b64enc, List.mem_cons, List.not_mem_nil, or_false] at hc
    rcases hc with rfl | rfl | rfl | rfl
    · exact hch ⟨a.toNat / 4, by have := a.toNat_lt; omega⟩
    · exact hch ⟨a.toNat % 4 * 16 + b.toNat / 16, by have := b.toNat_lt; omega⟩
    · exact hch ⟨b.toNat % 16 * 4, by omega⟩
    · exact heq
  | case4 a b c' r ih =>
    simp only [b64enc, List.mem_cons] at hc
    rcases hc with rfl | rfl | rfl | rfl | hc
    · exact hch ⟨a.toNat / 4, by have := a.toNat_lt; omega⟩
    · exact hch ⟨a.toNat % 4 * 16 + b.toNat / 16, by have := b.toNat_lt; omega⟩
    · exact hch ⟨b.toNat % 16 * 4 + c'.toNat / 64, by have := c'.toNat_lt; omega⟩
    · exact hch ⟨c'.toNat % 64, by omega⟩
    · exact ih hc

theorem b64enc_latin1 (bs : Bytes) : Latin1 (b64enc bs) := fun c hc => by
  have := (AuthTkt.b64enc_chars bs c hc).1; omega

/-! ### principals, sessions -/

theorem clean_some_of_ne {p : Prin} (h : ¬(p = everyone ∨ p = authenticated)) : cleanPrincipal p = some p := by
  unfold cleanPrincipal
  have : ¬(p = authenticated ∨ p = everyone) := fun h' => h h'.symm
  simp [this]

theorem clean_none_of {p : Prin} (h : p = everyone ∨ p = authenticated) : cleanPrincipal p = none := by
  unfold cleanPrincipal
  have : p = authenticated ∨ p = everyone := h.symm
  simp [this]


theorem lookup_map_set (s : Session) (k : Text) (v : Option Prin) (k' : Text) :
    (s.map (fun kv => if kv.1 == k then (k, v) else kv)).lookup k' =
      if k' == k then (if sessHas s k then some v else none) else s.lookup k' := by
  induction s with
  | nil => simp [sessHas]
  | cons kv r ih =>
    obtain ⟨a, b⟩ := kv
    simp only [sessHas] at ih
    by_cases hak : a = k
    · subst hak
      by_cases hk' : k' = a
      · subst hk'; simp [sessHas]
      · have h1 : (k' == a) = false := by simpa using hk'
        simp only [List.map_cons, beq_self_eq_true, if_true, List.lookup_cons, h1, Bool.false_eq_true, if_false]
        rw [ih]; simp [h1]
    · have hak' : (a == k) = false := by simpa using hak
      by_cases hk' : k' = a
      · subst hk'
        simp only [List.map_cons, hak', Bool.false_eq_true, if_false, List.lookup_cons, beq_self_eq_true]
      · have h1 : (k' == a) = false := by simpa using hk'
        simp only [List.map_cons, hak', Bool.false_eq_true, if_false, List.lookup_cons, h1, sessHas, List.any_cons, Bool.false_or]
        exact ih


end Pyr.AuthPolicy
