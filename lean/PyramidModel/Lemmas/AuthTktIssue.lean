/-
C09 helper lemmas, part 5: what `remember` issues, and that `identify` reads it back.
-/
import PyramidModel.Lemmas.AuthTktHelper

namespace Pyr.AuthTkt

theorem calcDigest_ok_inv {env : Env} {ip : Text} {ts : Int} {secret u t ud d : Text}
    (h : calcDigest env ip ts secret u t ud = .ok d) :
    ∃ ipts, ipTimestamp env.U ip ts = .ok ipts ∧
      d = mac env.H (utf8Enc secret) (digestInput ipts (utf8Enc secret) u t ud) := by
  unfold calcDigest calcDigestB at h
  cases hi : ipTimestamp env.U ip ts with
  | error e => simp [hi, bind, Except.bind] at h
  | ok ipts =>
    simp [hi, bind, Except.bind, pure, Except.pure] at h
    exact ⟨ipts, rfl, by rw [← h]; simp [digestInput]⟩

theorem calcDigest_of_ipts {env : Env} {ip : Text} {ts : Int} {secret u t ud : Text} {ipts : Bytes}
    (hi : ipTimestamp env.U ip ts = .ok ipts) :
    calcDigest env ip ts secret u t ud = .ok (mac env.H (utf8Enc secret) (digestInput ipts (utf8Enc secret) u t ud)) := by
  unfold calcDigest calcDigestB
  simp [hi, bind, Except.bind, pure, Except.pure, digestInput]

/-- the fields of the ticket `remember` issues for `u` and the validated tokens `tl` at time `clock` -/
def issuedFields (u : UserId) (tl : List Text) (clock : Nat) : Parsed :=
  ⟨clock, (encodeUserid u).2, List.intercalate [','] tl, userIdTypePrefix ++ (encodeUserid u).1⟩

/-- the one `Set-Cookie` record `_get_cookies` produces for a ticket value -/
def ticketCookie (cfg : Cfg) (req : Req) (v : Text) (maxAge : Option Nat) : SetCookie :=
  let ma := match maxAge with | some m => some m | none => cfg.maxAge
  ⟨cfg.cookieName, v, nonEmpty (cookieDomain cfg req.domain), nonEmpty (some cfg.path), ma,
   (if ma.isSome then .relative else .absent), cfg.secure, cfg.httpOnly, cfg.samesite⟩

/-- the value `remember` puts into the cookie -/
def issuedValue (d : Text) (u : UserId) (tl : List Text) (clock : Nat) : Text :=
  wire d clock (encodeUserid u).2 (List.intercalate [','] tl) (userIdTypePrefix ++ (encodeUserid u).1)

/-- everything a successful `remember` did -/
theorem remember_ok_inv {env : Env} {cfg : Cfg} {req : Req} {st st' : St} {internal : Bool} {u : UserId} {ma : Option Nat}
    {toks : List Tok} {cs : List SetCookie}
    (h : remember env cfg req st internal u ma toks = (.ok cs, st')) :
    ∃ tl d, checkTokens toks = .ok tl ∧
      calcDigest env (remoteAddr cfg req) req.clock cfg.secret (encodeUserid u).2 (List.intercalate [','] tl)
        (userIdTypePrefix ++ (encodeUserid u).1) = .ok d ∧
      (issuedValue d u tl req.clock).length ≤ 4093 ∧
      cs = [ticketCookie cfg req (issuedValue d u tl req.clock) ma] ∧
      st' = (if internal then st else { st with revoked := true }) := by
  unfold remember at h
  simp only at h
  cases hct : checkTokens toks with
  | error e => simp [hct] at h
  | ok tl =>
    simp only [hct] at h
    cases hcd : calcDigest env (remoteAddr cfg req) req.clock cfg.secret (encodeUserid u).2 (List.intercalate [','] tl)
        (userIdTypePrefix ++ (encodeUserid u).1) with
    | error e =>
      simp [cookieValue, hcd, bind, Except.bind] at h
    | ok d =>
      rw [cookieValue_eq _ _ _ _ _ _ _ d hcd] at h
      simp only at h
      refine ⟨tl, d, rfl, hcd, ?_⟩
      unfold getCookies at h
      simp only at h
      split at h
      · simp at h
      · rename_i hlen
        simp only [Prod.mk.injEq] at h
        obtain ⟨h1, h2⟩ := h
        refine ⟨by simp [issuedValue]; omega, ?_, h2.symm⟩
        simp [pure, Except.pure] at h1
        rw [← h1]
        simp [ticketCookie, issuedValue]
        exact ⟨rfl, rfl⟩

theorem tag_facts (u : UserId) :
    '!' ∉ userIdTypePrefix ++ (encodeUserid u).1 ∧ EndsClean (userIdTypePrefix ++ (encodeUserid u).1) := by
  cases u with
  | int z =>
    simp only [encodeUserid]
    exact ⟨by decide, Or.inr ⟨userIdTypePrefix ++ ['i', 'n'], 't', by decide, by decide⟩⟩
  | str t =>
    simp only [encodeUserid]
    exact ⟨by decide, Or.inr ⟨userIdTypePrefix ++ ['b', '6', '4', 'u', 'n', 'i', 'c', 'o', 'd'], 'e', by decide, by decide⟩⟩
  | bytes b =>
    simp only [encodeUserid]
    exact ⟨by decide, Or.inr ⟨userIdTypePrefix ++ ['b', '6', '4', 's', 't'], 'r', by decide, by decide⟩⟩
  | other r =>
    simp only [encodeUserid]
    exact ⟨by decide, Or.inr ⟨userIdTypePrefix ++ ['b', '6', '4', 'u', 'n', 'i', 'c', 'o', 'd'], 'e', by decide, by decide⟩⟩

/-- `parse_ticket` accepts an issued ticket under the same secret, hash and address, with exactly its fields -/
theorem issued_parse (env : Env) (hH : env.H.WellSized) (secret ip : Text) (u : UserId) (tl : List Text) (clock : Nat)
    (d : Text) (hclk : clock < 4294967296)
    (htl : ∀ t ∈ tl, validToken t = true)
    (hd : calcDigest env ip clock secret (encodeUserid u).2 (List.intercalate [','] tl)
            (userIdTypePrefix ++ (encodeUserid u).1) = .ok d) :
    parseTicket env secret (issuedValue d u tl clock) ip = .ok (some (issuedFields u tl clock)) := by
  obtain ⟨ipts, hi, hdm⟩ := calcDigest_ok_inv hd
  rw [parseTicket_accept_iff]
  refine ⟨d, ?_, hd⟩
  have hbang : '!' ∉ List.intercalate [','] tl :=
    intercalate_no_bang tl (fun t ht c hc => ((validToken_chars t (htl t ht)).2 c hc).2)
  have := parseFields_wire env.U (env.H.size * 2) d clock (encodeUserid u).2 (List.intercalate [','] tl)
    (userIdTypePrefix ++ (encodeUserid u).1)
    (by rw [hdm]; exact mac_length _ hH _ _) (by rw [hdm]; exact mac_isDigits _ _ _) hclk hbang (tag_facts u).1 (tag_facts u).2
  simpa [issuedValue, issuedFields] using this

/-- the identity `identify` reports for an issued ticket (no reissue in this call) -/
def issuedIdentity (u : UserId) (tl : List Text) (clock : Nat) : Identity :=
  ⟨clock, normUid u, tokensBack tl, userIdTypePrefix ++ (encodeUserid u).1⟩

theorem identify_issued_plain (env : Env) (hH : env.H.WellSized) (cfg : Cfg) (req : Req) (st : St)
    (u : UserId) (tl : List Text) (clock : Nat) (d : Text) (hclk : clock < 4294967296)
    (htl : ∀ t ∈ tl, validToken t = true)
    (hd : calcDigest env (remoteAddr cfg req) clock cfg.secret (encodeUserid u).2 (List.intercalate [','] tl)
            (userIdTypePrefix ++ (encodeUserid u).1) = .ok d)
    (hc : req.cookie = some (issuedValue d u tl clock))
    (he : isExpired cfg req.now clock = false) (hr : reissueDue cfg st req.now clock = false) :
    identify env cfg req st = (.ok (some (issuedIdentity u tl clock)), st) := by
  have hp := issued_parse env hH cfg.secret (remoteAddr cfg req) u tl clock d hclk htl hd
  have := identify_plain env cfg req st _ (issuedFields u tl clock) (normUid u) hc hp he
    (by simpa [issuedFields] using decodeLoop_issued env.U u) hr
  rw [this]
  simp [issuedFields, issuedIdentity, splitAll_joined tl htl]

theorem identify_issued_expired (env : Env) (hH : env.H.WellSized) (cfg : Cfg) (req : Req) (st : St)
    (u : UserId) (tl : List Text) (clock : Nat) (d : Text) (hclk : clock < 4294967296)
    (htl : ∀ t ∈ tl, validToken t = true)
    (hd : calcDigest env (remoteAddr cfg req) clock cfg.secret (encodeUserid u).2 (List.intercalate [','] tl)
            (userIdTypePrefix ++ (encodeUserid u).1) = .ok d)
    (hc : req.cookie = some (issuedValue d u tl clock))
    (he : isExpired cfg req.now clock = true) :
    identify env cfg req st = (.ok none, st) := by
  have hp := issued_parse env hH cfg.secret (remoteAddr cfg req) u tl clock d hclk htl hd
  exact identify_expired env cfg req st _ (issuedFields u tl clock) hc hp he

theorem wire_length (d : Text) (ts : Nat) (hts : ts < 4294967296) (u toks ud : Text) :
    (wire d ts u toks ud).length =
      d.length + 8 + (quoteBytes (utf8Enc u)).length + 1 + (if toks.isEmpty then 0 else toks.length + 1) + ud.length := by
  simp only [wire]
  split <;> simp [hex8_length ts hts] <;> omega

/-- a reissue: the old ticket is older than `reissue_time`, so `identify` issues a fresh one through `remember`,
registers the callback and reports the identity with the empty token dropped -/
theorem identify_issued_reissue (env : Env) (hH : env.H.WellSized) (cfg : Cfg) (req : Req) (st : St)
    (u : UserId) (tl : List Text) (clock : Nat) (d : Text) (hclk : clock < 4294967296)
    (htl : ∀ t ∈ tl, validToken t = true ∧ (t.all (·.toNat < 128)) = true)
    (hd : calcDigest env (remoteAddr cfg req) clock cfg.secret (encodeUserid u).2 (List.intercalate [','] tl)
            (userIdTypePrefix ++ (encodeUserid u).1) = .ok d)
    (hlen : (issuedValue d u tl clock).length ≤ 4093)
    (hc : req.cookie = some (issuedValue d u tl clock))
    (he : isExpired cfg req.now clock = false) (hr : reissueDue cfg st req.now clock = true)
    (hclk2 : req.clock < 4294967296)
    (d2 : Text)
    (hd2 : calcDigest env (remoteAddr cfg req) req.clock cfg.secret (encodeUserid u).2 (List.intercalate [','] tl)
            (userIdTypePrefix ++ (encodeUserid u).1) = .ok d2) :
    identify env cfg req st =
      (.ok (some ⟨clock, normUid u, tl, userIdTypePrefix ++ (encodeUserid u).1⟩),
       { st with reissued := true,
                 callbacks := st.callbacks ++ [[ticketCookie cfg req (issuedValue d2 u tl req.clock) cfg.maxAge]] }) := by
  have htl1 : ∀ t ∈ tl, validToken t = true := fun t ht => (htl t ht).1
  have hp := issued_parse env hH cfg.secret (remoteAddr cfg req) u tl clock d hclk htl1 hd
  have hnr : st.reissued = false := by
    unfold reissueDue at hr
    cases hrt : cfg.reissueTime with
    | none => simp [hrt] at hr
    | some rt => simp [hrt] at hr; exact hr.1
  -- lengths of the two ticket values agree
  obtain ⟨i1, _, hm1⟩ := calcDigest_ok_inv hd
  obtain ⟨i2, _, hm2⟩ := calcDigest_ok_inv hd2
  have hl1 : d.length = env.H.size * 2 := by rw [hm1]; exact mac_length _ hH _ _
  have hl2 : d2.length = env.H.size * 2 := by rw [hm2]; exact mac_length _ hH _ _
  have hlen2 : (issuedValue d2 u tl req.clock).length ≤ 4093 := by
    have a := wire_length d clock hclk (encodeUserid u).2 (List.intercalate [','] tl) (userIdTypePrefix ++ (encodeUserid u).1)
    have b := wire_length d2 req.clock hclk2 (encodeUserid u).2 (List.intercalate [','] tl) (userIdTypePrefix ++ (encodeUserid u).1)
    simp only [issuedValue] at hlen ⊢
    omega
  have hfilter : (splitAll ',' (issuedFields u tl clock).tokens).filter (!·.isEmpty) = tl := by
    simp only [issuedFields, splitAll_joined tl htl1, tokensBack_filter tl htl1]
  have hrem : remember env cfg req st true (normUid u) cfg.maxAge
      (((splitAll ',' (issuedFields u tl clock).tokens).filter (!·.isEmpty)).map .str) =
      (.ok [ticketCookie cfg req (issuedValue d2 u tl req.clock) cfg.maxAge], st) := by
    rw [hfilter]
    unfold remember
    simp only [encodeUserid_norm, checkTokens_map_str tl htl]
    rw [cookieValue_eq _ _ _ _ _ _ _ d2 hd2]
    have hnot : ¬ ((wire d2 req.clock (encodeUserid u).2 (List.intercalate [','] tl)
        (userIdTypePrefix ++ (encodeUserid u).1)).length > 4093) := by
      simp only [issuedValue] at hlen2; omega
    simp [getCookies, hnot, ticketCookie, issuedValue, pure, Except.pure]
    exact ⟨rfl, rfl⟩
  have := identify_reissue env cfg req st _ (issuedFields u tl clock) (normUid u) hc hp he
    (by simpa [issuedFields] using decodeLoop_issued env.U u) hr _ _ hrem
  rw [this, hfilter]
  simp [issuedFields]

end Pyr.AuthTkt
