import PyramidModel.Dotted
/-! Helper lemmas for X09: `str.split` / `'.'.join`, and monotonicity / idempotence of the import system model. -/
namespace Pyr.Dotted

instance {ε α : Type} [DecidableEq ε] [DecidableEq α] : DecidableEq (Except ε α) := fun a b =>
  match a, b with
  | .ok x, .ok y => if h : x = y then isTrue (h ▸ rfl) else isFalse (fun e => h (Except.ok.inj e))
  | .error x, .error y => if h : x = y then isTrue (h ▸ rfl) else isFalse (fun e => h (Except.error.inj e))
  | .ok _, .error _ => isFalse (fun e => nomatch e)
  | .error _, .ok _ => isFalse (fun e => nomatch e)

theorem splitOn_ne_nil (c : Char) (t : Text) : splitOn c t ≠ [] := by
  induction t with
  | nil => simp [splitOn]
  | cons x xs ih =>
    unfold splitOn
    split
    · simp
    · split <;> simp

theorem splitOn_cons_sep (c : Char) (t : Text) : splitOn c (c :: t) = [] :: splitOn c t := by
  simp [splitOn]

theorem splitOn_cons_ne (c x : Char) (t : Text) (h : x ≠ c) :
    ∃ hd tl, splitOn c t = hd :: tl ∧ splitOn c (x :: t) = (x :: hd) :: tl := by
  cases hs : splitOn c t with
  | nil => exact absurd hs (splitOn_ne_nil c t)
  | cons hd tl =>
    refine ⟨hd, tl, rfl, ?_⟩
    simp [splitOn, h, hs]

/-- `(a + sep + b).split(sep) == a.split(sep) + b.split(sep)` -/
theorem splitOn_append_sep (c : Char) (a b : Text) : splitOn c (a ++ c :: b) = splitOn c a ++ splitOn c b := by
  induction a with
  | nil => simp [splitOn]
  | cons x xs ih =>
    by_cases h : x = c
    · subst h
      simp only [List.cons_append, splitOn_cons_sep, ih]
    · obtain ⟨hd, tl, h1, h2⟩ := splitOn_cons_ne c x xs h
      obtain ⟨hd', tl', h1', h2'⟩ := splitOn_cons_ne c x (xs ++ c :: b) h
      simp only [List.cons_append, h2, h2']
      rw [ih, h1] at h1'
      simp only [List.cons_append, List.cons.injEq] at h1'
      rw [← h1'.1, ← h1'.2]

theorem splitOn_nosep (c : Char) (s : Text) (h : c ∉ s) : splitOn c s = [s] := by
  induction s with
  | nil => rfl
  | cons x xs ih =>
    have hx : x ≠ c := fun e => h (by simp [e])
    have hxs : c ∉ xs := fun e => h (by simp [e])
    obtain ⟨hd, tl, h1, h2⟩ := splitOn_cons_ne c x xs hx
    rw [ih hxs] at h1
    simp only [List.cons.injEq] at h1
    rw [h2, ← h1.1, ← h1.2]

/-- a path whose segments contain no dot survives `'.'.join` followed by `.split('.')` -/
theorem splitOn_joinDots (p : Path) (hne : p ≠ []) (h : ∀ s ∈ p, '.' ∉ s) : splitOn '.' (joinDots p) = p := by
  induction p with
  | nil => exact absurd rfl hne
  | cons s t ih =>
    cases t with
    | nil => simpa [joinDots] using splitOn_nosep '.' s (h s (by simp))
    | cons s2 t2 =>
      show splitOn '.' (s ++ '.' :: joinDots (s2 :: t2)) = _
      rw [splitOn_append_sep, splitOn_nosep '.' s (h s (by simp)), ih (by simp) (fun x hx => h x (by simp [hx]))]
      rfl

theorem splitOn_dots (k : Nat) (r : Text) :
    splitOn '.' (List.replicate k '.' ++ r) = List.replicate k [] ++ splitOn '.' r := by
  induction k with
  | zero => simp
  | succ n ih => simp only [List.replicate_succ, List.cons_append, splitOn_cons_sep, ih]

theorem splitOn_head_ne (c x : Char) (t : Text) (h : x ≠ c) :
    ∃ hd tl, splitOn c (x :: t) = (x :: hd) :: tl := by
  obtain ⟨hd, tl, _, h2⟩ := splitOn_cons_ne c x t h
  exact ⟨hd, tl, h2⟩

theorem joinDots_no_colon (p : Path) (h : ∀ s ∈ p, ':' ∉ s) : ':' ∉ joinDots p := by
  induction p with
  | nil => simp [joinDots]
  | cons s t ih =>
    cases t with
    | nil => simpa [joinDots] using h s (by simp)
    | cons s2 t2 =>
      show ':' ∉ s ++ '.' :: joinDots (s2 :: t2)
      have := ih (fun x hx => h x (by simp [hx]))
      have hs := h s (by simp)
      simp only [List.mem_append, List.mem_cons]
      rintro (h1 | h1 | h1)
      · exact hs h1
      · exact absurd h1 (by decide)
      · exact this h1

theorem splitColon_no_colon (t : Text) (h : ':' ∉ t) : splitColon t = (t, none) := by
  induction t with
  | nil => rfl
  | cons x xs ih =>
    have hx : x ≠ ':' := fun e => h (by simp [e])
    have hxs : ':' ∉ xs := fun e => h (by simp [e])
    simp [splitColon, hx, ih hxs]

-- ------------------------------------------------------------------------------------------------------------------
theorem importFrom_calls (U : Univ) (done rest : Path) (st : St) : (importFrom U done rest st).2.calls = st.calls := by
  induction rest generalizing done st with
  | nil => rfl
  | cons s rest ih =>
    unfold importFrom
    split
    · exact ih _ _
    · split
      · rfl
      · split
        · rw [ih]
        · rw [ih]
        · rfl

theorem importFrom_loaded_mono (U : Univ) (done rest : Path) (st : St) (x : Path) (hx : x ∈ st.loaded) :
    x ∈ (importFrom U done rest st).2.loaded := by
  induction rest generalizing done st with
  | nil => exact hx
  | cons s rest ih =>
    unfold importFrom
    split
    · exact ih _ _ hx
    · split
      · exact hx
      · split
        · exact ih _ _ (by simp [hx])
        · exact ih _ _ (by simp [hx])
        · exact hx

/-- a successful import, repeated in the state it produced, changes nothing (everything is in `sys.modules`) -/
theorem importFrom_idem (U : Univ) (done rest : Path) (st st1 : St)
    (h : importFrom U done rest st = (none, st1)) (st2 : St) (hl : ∀ x ∈ st1.loaded, x ∈ st2.loaded) :
    importFrom U done rest st2 = (none, st2) := by
  induction rest generalizing done st with
  | nil => rfl
  | cons s rest ih =>
    unfold importFrom at h
    split at h
    · rename_i hin
      have hm : (done ++ [s]) ∈ st2.loaded := hl _ (by
        have := importFrom_loaded_mono U (done ++ [s]) rest st _ hin
        rw [h] at this; exact this)
      unfold importFrom
      rw [if_pos hm]
      exact ih _ _ h
    · split at h
      · cases h
      · split at h
        · have hm : (done ++ [s]) ∈ st2.loaded := hl _ (by
            have := importFrom_loaded_mono U (done ++ [s]) rest
              { st with finds := st.finds ++ [done ++ [s]], loaded := st.loaded ++ [done ++ [s]] } (done ++ [s]) (by simp)
            rw [h] at this; exact this)
          unfold importFrom
          rw [if_pos hm]
          exact ih _ _ h
        · have hm : (done ++ [s]) ∈ st2.loaded := hl _ (by
            have := importFrom_loaded_mono U (done ++ [s]) rest
              { st with finds := st.finds ++ [done ++ [s]], loaded := st.loaded ++ [done ++ [s]] } (done ++ [s]) (by simp)
            rw [h] at this; exact this)
          unfold importFrom
          rw [if_pos hm]
          exact ih _ _ h
        · cases h

theorem importPath_loaded_mono (U : Univ) (p : Path) (st : St) (x : Path) (hx : x ∈ st.loaded) :
    x ∈ (importPath U p st).2.loaded := by
  unfold importPath
  split
  · exact hx
  · exact importFrom_loaded_mono U [] p st x hx

theorem importPath_idem (U : Univ) (p : Path) (st st1 : St) (h : importPath U p st = (none, st1)) (st2 : St)
    (hl : ∀ x ∈ st1.loaded, x ∈ st2.loaded) : importPath U p st2 = (none, st2) := by
  unfold importPath at h ⊢
  split at h
  · cases h
  · exact importFrom_idem U [] p st st1 h st2 hl

theorem importPath_calls (U : Univ) (p : Path) (st : St) : (importPath U p st).2.calls = st.calls := by
  unfold importPath
  split
  · rfl
  · exact importFrom_calls U [] p st

end Pyr.Dotted
