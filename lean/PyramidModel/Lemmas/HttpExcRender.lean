/-
C19 — `prepare` against the piece-wise rendering `specRender`.
-/
import PyramidModel.HttpExc
import PyramidModel.Lemmas.HttpExcSpec
import PyramidModel.Lemmas.HttpExcTemplate

namespace Pyr.HttpExc

theorem lookupLastP_flatten (k : Text) (l : List (Text × List Piece)) :
    (lookupLastP k l).map flattenPieces = lookupLast k (l.map fun kv => (kv.1, flattenPieces kv.2)) := by
  induction l with
  | nil => simp [lookupLastP, lookupLast]
  | cons kv rest ih =>
    obtain ⟨k', v⟩ := kv
    simp only [lookupLastP, List.map_cons, lookupLast]
    rw [← ih]
    cases lookupLastP k rest with
    | some w => simp
    | none => by_cases h : k' = k <;> simp [h]

theorem lookupLastP_mem {k : Text} {l : List (Text × List Piece)} {v : List Piece} (h : lookupLastP k l = some v) :
    ∃ kv ∈ l, kv.2 = v := by
  induction l with
  | nil => simp [lookupLastP] at h
  | cons kv rest ih =>
    obtain ⟨k', v'⟩ := kv
    simp only [lookupLastP] at h
    cases hr : lookupLastP k rest with
    | some w =>
      rw [hr] at h
      simp only [Option.some.injEq] at h
      subst h
      obtain ⟨kv, hm, he⟩ := ih hr
      exact ⟨kv, List.mem_cons_of_mem _ hm, he⟩
    | none =>
      rw [hr] at h
      by_cases hk : k' = k
      · simp only [hk, if_true, Option.some.injEq] at h
        exact ⟨(k', v'), by simp, h⟩
      · simp [hk] at h

theorem flatten_userPiece (f : Form) (raw : Text) : flattenPieces [userPiece f raw] = escapeOf f raw := by
  simp [flattenPieces, userPiece]

theorem flatten_valPiece (f : Form) (raw : Text) (html : Option Text) :
    flattenPieces [valPiece f raw html] = escVal f raw html := by
  cases f <;> cases html <;> simp [flattenPieces, valPiece, userPiece, escVal]

theorem htmlCommentP_flatten (f : Form) (c : Text) (html : Option Text) :
    flattenPieces (htmlCommentP f c html) = htmlCommentOf f c html := by
  unfold htmlCommentP htmlCommentOf
  split
  · simp [flattenPieces]
  · cases f <;> cases html <;> simp [flattenPieces, userPiece, valPiece, escVal, escapeOf, noEscape]

theorem specBase_flatten (f : Form) (e : Exc) :
    (specBase f e).map (fun kv => (kv.1, flattenPieces kv.2)) =
      [(['b', 'r'], brOf f),
       (['e', 'x', 'p', 'l', 'a', 'n', 'a', 't', 'i', 'o', 'n'], escVal f e.explanation e.explanationHtml),
       (['d', 'e', 't', 'a', 'i', 'l'], escVal f (orEmpty e.detail) (orHtml (orEmpty e.detail) e.detailHtml)),
       (['c', 'o', 'm', 'm', 'e', 'n', 't'], escVal f (orEmpty e.comment) (orHtml (orEmpty e.comment) e.commentHtml)),
       (['h', 't', 'm', 'l', '_', 'c', 'o', 'm', 'm', 'e', 'n', 't'],
          htmlCommentOf f (orEmpty e.comment) (orHtml (orEmpty e.comment) e.commentHtml))] := by
  simp only [specBase, List.map_cons, List.map_nil, flatten_valPiece, htmlCommentP_flatten]
  simp [flattenPieces]

theorem specArgs_flatten (f : Form) (e : Exc) (environ : List (Text × Text)) :
    (specArgs f e environ).map (fun kv => (kv.1, flattenPieces kv.2)) = buildArgs f e environ := by
  unfold specArgs buildArgs
  by_cases hc : e.custom = true
  · simp only [hc, if_true, List.map_append]
    rw [specBase_flatten]
    simp [flattenPieces, Function.comp_def, userPiece]
  · simp only [hc]
    exact specBase_flatten f e

theorem specBody_flatten (f : Form) (e : Exc) (environ : List (Text × Text)) :
    (specBody f e environ).map flattenPieces
      = substitute (fun k => lookupLast k (buildArgs f e environ)) e.bodyTmpl := by
  rw [substitute_eq_fill, specBody]
  apply fillP_flatten
  intro k
  rw [lookupLastP_flatten, specArgs_flatten]

theorem pageEnvP_flatten (status : Text) (body : List Piece) (k : Text) :
    (pageEnvP status body k).map flattenPieces = pageEnv status (flattenPieces body) k := by
  unfold pageEnvP pageEnv
  split
  · simp [flattenPieces]
  · split <;> simp

/-- the body text of a response, given the pieces `specRender` produced -/
def bodyOfPieces (f : Form) (e : Exc) (ps : List Piece) : Text :=
  match f with
  | .json => jsonBody (flattenPieces ps) e.status e.title
  | _ => flattenPieces ps

/-- REFINEMENT: `prepare` is the piece-wise rendering with the tags forgotten (of the exception whose Content-Type
header the chosen branch has overwritten) -/
theorem prepare_eq_spec (offered : List Text) (e : Exc) (environ : List (Text × Text)) (q : Text → Nat) :
    prepare offered e environ q =
      if e.hasBody || e.emptyBody then .ok none
      else
        let f := formOf (chooseMatch q offered)
        (specRender f (e.withContentType f) environ).map fun ps =>
          some (respOf f (e.withContentType f) (bodyOfPieces f (e.withContentType f) ps)) := by
  unfold prepare
  split
  · rfl
  · simp only []
    generalize formOf (chooseMatch q offered) = f
    generalize e.withContentType f = e'
    have hb := specBody_flatten f e' environ
    unfold specRender
    rw [← hb]
    cases hsb : specBody f e' environ with
    | error err => simp [Except.map]
    | ok body =>
      simp only [Except.map]
      cases f with
      | json => simp [bodyOfPieces]
      | html =>
        simp only []
        rw [substitute_eq_fill, ← fillP_flatten .pageLit (pageEnvP e'.status body) _ (pageEnvP_flatten e'.status body)]
        cases fillP .pageLit (pageEnvP e'.status body) (tokenize e'.htmlTmpl) <;> simp [Except.map, bodyOfPieces]
      | plain =>
        simp only []
        rw [substitute_eq_fill, ← fillP_flatten .pageLit (pageEnvP e'.status body) _ (pageEnvP_flatten e'.status body)]
        cases fillP .pageLit (pageEnvP e'.status body) (tokenize e'.plainTmpl) <;> simp [Except.map, bodyOfPieces]

/-! ### the Content-Type header -/

theorem getHeader_append_single (name v : Text) (hs : List (Text × Text)) :
    getHeader name (hs ++ [(name, v)]) = some v := by
  induction hs with
  | nil => simp [getHeader, headerNameEq]
  | cons kv rest ih =>
    obtain ⟨k, w⟩ := kv
    simp only [List.cons_append, getHeader, ih]

/-- whatever Content-Type entries (any number, any spelling of the name, any value) the caller left on the exception:
after the assignment the header read back is the assigned one -/
theorem getHeader_setHeader (name v : Text) (hs : List (Text × Text)) :
    getHeader name (setHeader name v hs) = some v := by
  unfold setHeader
  exact getHeader_append_single name v _

theorem contentTypeHeader_withContentType (e : Exc) (f : Form) :
    (e.withContentType f).contentTypeHeader = contentTypeHeaderOf f := by
  simp [Exc.contentTypeHeader, Exc.withContentType, getHeader_setHeader]

theorem mimeOfHeader_contentTypeHeaderOf (f : Form) : mimeOfHeader (contentTypeHeaderOf f) = contentTypeOf f := by
  cases f <;> decide

/-- what each piece must be, by origin: supplied text is exactly that text escaped for the form; `br`, the comment
delimiters and the status are the fixed texts; a template literal is one character -/
def PieceOk (f : Form) (e : Exc) (p : Piece) : Prop :=
  match p.origin with
  | .user raw => p.text = escapeOf f raw
  | .markup _ => True
  | .br => p.text = brOf f
  | .commentOpen => p.text = ['<', '!', '-', '-', ' ']
  | .commentClose => p.text = [' ', '-', '-', '>']
  | .status => p.text = e.status
  | .pageLit => p.text.length = 1
  | .bodyLit => p.text.length = 1

theorem userPiece_ok (f : Form) (e : Exc) (raw : Text) : PieceOk f e (userPiece f raw) := by
  simp [PieceOk, userPiece]

theorem valPiece_ok (f : Form) (e : Exc) (raw : Text) (html : Option Text) : PieceOk f e (valPiece f raw html) := by
  cases f <;> cases html <;> simp [PieceOk, valPiece, userPiece]

theorem specBase_ok (f : Form) (e : Exc) : ∀ kv ∈ specBase f e, ∀ p ∈ kv.2, PieceOk f e p := by
  intro kv hkv p hp
  simp only [specBase, List.mem_cons, List.mem_nil_iff, or_false] at hkv
  rcases hkv with rfl | rfl | rfl | rfl | rfl
  · simp only [List.mem_singleton] at hp; subst hp; simp [PieceOk]
  · simp only [List.mem_singleton] at hp; subst hp; exact valPiece_ok _ _ _ _
  · simp only [List.mem_singleton] at hp; subst hp; exact valPiece_ok _ _ _ _
  · simp only [List.mem_singleton] at hp; subst hp; exact valPiece_ok _ _ _ _
  · simp only [htmlCommentP] at hp
    split at hp
    · simp at hp
    · cases f
      · simp only [List.mem_cons, List.mem_nil_iff, or_false] at hp
        rcases hp with rfl | rfl | rfl
        · simp [PieceOk]
        · exact valPiece_ok _ _ _ _
        · simp [PieceOk]
      · simp only [List.mem_singleton] at hp; subst hp; exact userPiece_ok _ _ _
      · simp only [List.mem_singleton] at hp; subst hp; exact userPiece_ok _ _ _

/-- a predicate that holds of the base pieces and of every user piece holds of all pieces of `args` -/
theorem specArgs_all (f : Form) (e : Exc) (environ : List (Text × Text)) (P : Piece → Prop)
    (hbase : ∀ kv ∈ specBase f e, ∀ p ∈ kv.2, P p) (huser : ∀ raw, P (userPiece f raw)) :
    ∀ kv ∈ specArgs f e environ, ∀ p ∈ kv.2, P p := by
  intro kv hkv p hp
  unfold specArgs at hkv
  split at hkv
  · simp only [List.mem_append, List.mem_map] at hkv
    rcases hkv with (hkv | ⟨x, _, rfl⟩) | ⟨x, _, rfl⟩
    · exact hbase kv hkv p hp
    · simp only [List.mem_singleton] at hp; subst hp; exact huser _
    · simp only [List.mem_singleton] at hp; subst hp; exact huser _
  · exact hbase kv hkv p hp

theorem specArgs_ok (f : Form) (e : Exc) (environ : List (Text × Text)) :
    ∀ kv ∈ specArgs f e environ, ∀ p ∈ kv.2, PieceOk f e p :=
  specArgs_all f e environ (PieceOk f e) (specBase_ok f e) (userPiece_ok f e)

/-- every piece of a rendering satisfies `P` when the literal pieces, the status piece, the base pieces and the
user pieces do -/
theorem specRender_all {f : Form} {e : Exc} {environ : List (Text × Text)} {ps : List Piece} (P : Piece → Prop)
    (h : specRender f e environ = .ok ps)
    (hlit : ∀ o, (o = Origin.bodyLit ∨ o = Origin.pageLit) → ∀ c : Char, P ⟨o, [c]⟩) (hstatus : P ⟨.status, e.status⟩)
    (hbase : ∀ kv ∈ specBase f e, ∀ p ∈ kv.2, P p) (huser : ∀ raw, P (userPiece f raw)) :
    ∀ p ∈ ps, P p := by
  unfold specRender at h
  cases hb : specBody f e environ with
  | error err => rw [hb] at h; simp at h
  | ok body =>
    rw [hb] at h
    have hbody : ∀ p ∈ body, P p := by
      refine fillP_pieces .bodyLit _ P (hlit _ (Or.inl rfl)) ?_ _ body hb
      intro k v hv p hp
      obtain ⟨kv, hm, rfl⟩ := lookupLastP_mem hv
      exact specArgs_all f e environ P hbase huser kv hm p hp
    have page : ∀ tmpl, fillP .pageLit (pageEnvP e.status body) (tokenize tmpl) = .ok ps → ∀ p ∈ ps, P p := by
      intro tmpl hp
      refine fillP_pieces .pageLit _ P (hlit _ (Or.inr rfl)) ?_ _ ps hp
      intro k v hv p hp
      unfold pageEnvP at hv
      split at hv
      · simp only [Option.some.injEq] at hv; subst hv
        simp only [List.mem_singleton] at hp; subst hp
        exact hstatus
      · split at hv
        · simp only [Option.some.injEq] at hv; subst hv; exact hbody p hp
        · cases hv
    cases f with
    | json => simp only [Except.ok.injEq] at h; subst h; exact hbody
    | html => exact page _ h
    | plain => exact page _ h

theorem specBody_ok {f : Form} {e : Exc} {environ : List (Text × Text)} {ps : List Piece}
    (h : specBody f e environ = .ok ps) : ∀ p ∈ ps, PieceOk f e p := by
  refine fillP_pieces .bodyLit _ (PieceOk f e) ?_ ?_ _ ps h
  · intro c; simp [PieceOk]
  · intro k v hv p hp
    obtain ⟨kv, hm, rfl⟩ := lookupLastP_mem hv
    exact specArgs_ok f e environ kv hm p hp

theorem specRender_ok {f : Form} {e : Exc} {environ : List (Text × Text)} {ps : List Piece}
    (h : specRender f e environ = .ok ps) : ∀ p ∈ ps, PieceOk f e p := by
  unfold specRender at h
  cases hb : specBody f e environ with
  | error err => rw [hb] at h; simp at h
  | ok body =>
    rw [hb] at h
    have hbody := specBody_ok hb
    have page : ∀ tmpl, fillP .pageLit (pageEnvP e.status body) (tokenize tmpl) = .ok ps → ∀ p ∈ ps, PieceOk f e p := by
      intro tmpl hp
      refine fillP_pieces .pageLit _ (PieceOk f e) ?_ ?_ _ ps hp
      · intro c; simp [PieceOk]
      · intro k v hv p hp
        unfold pageEnvP at hv
        split at hv
        · simp only [Option.some.injEq] at hv; subst hv
          simp only [List.mem_singleton] at hp; subst hp
          simp [PieceOk]
        · split at hv
          · simp only [Option.some.injEq] at hv; subst hv; exact hbody p hp
          · cases hv
    cases f with
    | json => simp only [Except.ok.injEq] at h; subst h; exact hbody
    | html => exact page _ h
    | plain => exact page _ h

end Pyr.HttpExc
