import PyramidModel.SettingsModel
/-!
X02 — lemmas about the string functions of the settings model: splitting, stripping, `aslist`, `asbool`.
-/
namespace Pyr.Settings

/-- a word: non-empty, free of whitespace -/
def IsWord (w : Text) : Prop := w ≠ [] ∧ ∀ c ∈ w, isSpace c = false

instance (w : Text) : Decidable (IsWord w) := by unfold IsWord; exact inferInstance

theorem lineBreak_isSpace (c : Char) (h : isLineBreak c = true) : isSpace c = true := by
  have key : ∀ n, lineBreakCodes.contains n = true → spaceCodes.contains n = true := by
    intro n hn
    have hall : lineBreakCodes.all (fun m => spaceCodes.contains m) = true := by decide
    rw [List.all_eq_true] at hall
    exact hall n (by simpa using hn)
  exact key _ h

/-! ## splitting -/

theorem splitGo_fst_free (p : Char → Bool) (t : Text) : ∀ c ∈ (splitGo p t).1, p c = false := by
  induction t with
  | nil => simp [splitGo]
  | cons a as ih =>
    simp only [splitGo]
    by_cases ha : p a = true
    · simp [ha]
    · simp only [ha]
      intro c hc
      simp only [Bool.false_eq_true, if_false, List.mem_cons] at hc
      rcases hc with rfl | hc
      · simpa using ha
      · exact ih c hc

theorem splitGo_snd_free (p : Char → Bool) (t : Text) : ∀ w ∈ (splitGo p t).2, ∀ c ∈ w, p c = false := by
  induction t with
  | nil => simp [splitGo]
  | cons a as ih =>
    simp only [splitGo]
    by_cases ha : p a = true
    · simp only [ha, if_true, List.mem_cons]
      intro w hw
      rcases hw with rfl | hw
      · exact splitGo_fst_free p as
      · exact ih w hw
    · simp only [ha, Bool.false_eq_true, if_false]
      exact ih

theorem splitGo_cons_pos (p : Char → Bool) (c : Char) (cs : Text) (h : p c = true) :
    splitGo p (c :: cs) = ([], (splitGo p cs).1 :: (splitGo p cs).2) := by simp [splitGo, h]

theorem splitGo_cons_neg (p : Char → Bool) (c : Char) (cs : Text) (h : p c = false) :
    splitGo p (c :: cs) = (c :: (splitGo p cs).1, (splitGo p cs).2) := by simp [splitGo, h]

theorem filter_cons_nil (l : List Text) : (([] : Text) :: l).filter (· ≠ []) = l.filter (· ≠ []) := by
  simp [List.filter_cons]

theorem filter_cons_ne (w : Text) (l : List Text) (h : w ≠ []) : (w :: l).filter (· ≠ []) = w :: l.filter (· ≠ []) := by
  simp [List.filter_cons, h]

/-- every item `s.split()` returns is a word -/
theorem splitWs_words (t : Text) : ∀ w ∈ splitWs t, IsWord w := by
  intro w hw
  simp only [splitWs, splitAll, List.mem_filter, List.mem_cons, decide_eq_true_eq] at hw
  refine ⟨hw.2, ?_⟩
  rcases hw.1 with rfl | h
  · exact splitGo_fst_free _ t
  · exact splitGo_snd_free _ t w h

/-- a word splits into itself -/
theorem splitGo_word (p : Char → Bool) (w : Text) (h : ∀ c ∈ w, p c = false) : splitGo p w = (w, []) := by
  induction w with
  | nil => rfl
  | cons a as ih =>
    have ha : p a = false := h a (by simp)
    have := ih (fun c hc => h c (by simp [hc]))
    simp [splitGo, ha, this]

theorem splitWs_word (w : Text) (h : IsWord w) : splitWs w = [w] := by
  simp [splitWs, splitAll, splitGo_word isSpace w h.2, h.1]

/-- a word followed by a separator -/
theorem splitGo_word_sep (p : Char → Bool) (w : Text) (c : Char) (rest : Text) (h : ∀ x ∈ w, p x = false) (hc : p c = true) :
    splitGo p (w ++ c :: rest) = (w, (splitGo p rest).1 :: (splitGo p rest).2) := by
  induction w with
  | nil => simp [splitGo, hc]
  | cons a as ih =>
    have ha : p a = false := h a (by simp)
    have := ih (fun x hx => h x (by simp [hx]))
    simp [splitGo, ha, this]

/-- `sep.join(ws)` for a one-character separator -/
def joinWith (c : Char) : List Text → Text
  | [] => []
  | [w] => w
  | w :: w' :: ws => w ++ c :: joinWith c (w' :: ws)

/-- splitting a join of words at a whitespace separator gives the words back -/
theorem splitWs_joinWith (c : Char) (hc : isSpace c = true) (ws : List Text) (h : ∀ w ∈ ws, IsWord w) :
    splitWs (joinWith c ws) = ws := by
  induction ws with
  | nil => simp [joinWith, splitWs, splitAll, splitGo]
  | cons w ws ih =>
    cases ws with
    | nil => simpa [joinWith] using splitWs_word w (h w (by simp))
    | cons w' ws' =>
      have hw := h w (by simp)
      have ih' := ih (fun x hx => h x (by simp [hx]))
      simp only [splitWs, splitAll] at ih'
      simp only [joinWith, splitWs, splitAll]
      rw [splitGo_word_sep isSpace w c _ hw.2 hc]
      show List.filter (· ≠ []) (w :: _) = _
      rw [filter_cons_ne w _ hw.1, ih']

/-- splitting at a coarser set first and then at the finer one is splitting at the finer one (empties kept) -/
theorem splitAll_refine (lb sp : Char → Bool) (hsub : ∀ c, lb c = true → sp c = true) (t : Text) :
    (splitAll lb t).flatMap (splitAll sp) = splitAll sp t := by
  induction t with
  | nil => simp [splitAll, splitGo]
  | cons c cs ih =>
    simp only [splitAll] at ih ⊢
    by_cases hl : lb c = true
    · have hs := hsub c hl
      rw [splitGo_cons_pos lb c cs hl, splitGo_cons_pos sp c cs hs]
      show ([] :: (splitGo lb cs).1 :: (splitGo lb cs).2).flatMap (splitAll sp) = [] :: (splitGo sp cs).1 :: (splitGo sp cs).2
      rw [List.flatMap_cons, ih]
      rfl
    · have hl' : lb c = false := by simpa using hl
      rw [splitGo_cons_neg lb c cs hl']
      simp only [List.flatMap_cons] at ih ⊢
      by_cases hs : sp c = true
      · rw [splitGo_cons_pos sp c cs hs]
        simp only [splitAll, splitGo_cons_pos sp c _ hs]
        simp only [splitAll] at ih
        rw [← ih]
        rfl
      · have hs' : sp c = false := by simpa using hs
        rw [splitGo_cons_neg sp c cs hs']
        simp only [splitAll, splitGo_cons_neg sp c _ hs']
        simp only [splitAll, List.cons_append, List.cons.injEq] at ih
        simp only [List.cons_append, ih.1, ih.2]

/-! ## stripping -/

theorem rstrip_spaces (t : Text) (h : ∀ c ∈ t, isSpace c = true) : rstrip t = [] := by
  induction t with
  | nil => rfl
  | cons a as ih =>
    have := ih (fun c hc => h c (by simp [hc]))
    simp [rstrip, this, h a (by simp)]

theorem rstrip_append_spaces (w pad : Text) (h : ∀ c ∈ pad, isSpace c = true) : rstrip (w ++ pad) = rstrip w := by
  induction w with
  | nil => simp [rstrip_spaces pad h, rstrip]
  | cons a as ih => simp only [List.cons_append, rstrip, ih]

theorem rstrip_word (w : Text) (h : ∀ c ∈ w, isSpace c = false) : rstrip w = w := by
  induction w with
  | nil => rfl
  | cons a as ih =>
    have iha := ih (fun c hc => h c (by simp [hc]))
    simp only [rstrip, iha]
    cases as with
    | nil => simp [h a (by simp)]
    | cons b bs => rfl

theorem dropWhile_spaces_word (pad w : Text) (hp : ∀ c ∈ pad, isSpace c = true) (hw : IsWord w) (rest : Text) :
    (pad ++ w ++ rest).dropWhile isSpace = w ++ rest := by
  induction pad with
  | nil =>
    obtain ⟨hne, hfree⟩ := hw
    cases w with
    | nil => exact absurd rfl hne
    | cons a as => simp [List.dropWhile, hfree a (by simp)]
  | cons a as ih =>
    simp only [List.cons_append, List.dropWhile, hp a (by simp)]
    exact ih (fun c hc => hp c (by simp [hc]))

/-- whitespace around a word is stripped -/
theorem strip_padded (p1 w p2 : Text) (h1 : ∀ c ∈ p1, isSpace c = true) (hw : IsWord w) (h2 : ∀ c ∈ p2, isSpace c = true) :
    strip (p1 ++ w ++ p2) = w := by
  unfold strip
  rw [dropWhile_spaces_word p1 w h1 hw p2, rstrip_append_spaces w p2 h2, rstrip_word w hw.2]

/-- the words of a text are those of its stripped form -/
theorem filter_splitAll_dropWhile (t : Text) :
    (splitAll isSpace (t.dropWhile isSpace)).filter (· ≠ []) = (splitAll isSpace t).filter (· ≠ []) := by
  induction t with
  | nil => rfl
  | cons a as ih =>
    by_cases ha : isSpace a = true
    · simp only [List.dropWhile, ha, ih]
      simp [splitAll, splitGo, ha]
    · simp [List.dropWhile, ha]

theorem splitGo_spaces (pad : Text) (h : ∀ c ∈ pad, isSpace c = true) :
    (splitGo isSpace pad).1 = [] ∧ (splitGo isSpace pad).2.filter (· ≠ []) = [] := by
  induction pad with
  | nil => exact ⟨rfl, rfl⟩
  | cons a as ih =>
    have ih' := ih (fun c hc => h c (by simp [hc]))
    rw [splitGo_cons_pos isSpace a as (h a (by simp))]
    refine ⟨rfl, ?_⟩
    show List.filter (· ≠ []) ((splitGo isSpace as).1 :: _) = _
    rw [ih'.1, filter_cons_nil, ih'.2]

theorem splitGo_append_spaces (w pad : Text) (h : ∀ c ∈ pad, isSpace c = true) :
    (splitGo isSpace (w ++ pad)).1 = (splitGo isSpace w).1 ∧
    (splitGo isSpace (w ++ pad)).2.filter (· ≠ []) = (splitGo isSpace w).2.filter (· ≠ []) := by
  induction w with
  | nil => exact splitGo_spaces pad h
  | cons a as ih =>
    by_cases ha : isSpace a = true
    · rw [List.cons_append, splitGo_cons_pos isSpace a _ ha, splitGo_cons_pos isSpace a _ ha]
      refine ⟨rfl, ?_⟩
      show List.filter (· ≠ []) ((splitGo isSpace (as ++ pad)).1 :: _) = List.filter (· ≠ []) ((splitGo isSpace as).1 :: _)
      rw [ih.1]
      by_cases h1 : (splitGo isSpace as).1 = []
      · rw [h1, filter_cons_nil, filter_cons_nil, ih.2]
      · rw [filter_cons_ne _ _ h1, filter_cons_ne _ _ h1, ih.2]
    · have ha' : isSpace a = false := by simpa using ha
      rw [List.cons_append, splitGo_cons_neg isSpace a _ ha', splitGo_cons_neg isSpace a _ ha']
      exact ⟨by rw [ih.1], ih.2⟩

theorem rstrip_decomp (t : Text) : ∃ pad, (∀ c ∈ pad, isSpace c = true) ∧ t = rstrip t ++ pad := by
  induction t with
  | nil => exact ⟨[], by simp, rfl⟩
  | cons a as ih =>
    obtain ⟨pad, hp, he⟩ := ih
    simp only [rstrip]
    split
    · next hr =>
      rw [hr] at he
      by_cases ha : isSpace a = true
      · refine ⟨a :: pad, ?_, ?_⟩
        · intro c hc
          simp only [List.mem_cons] at hc
          rcases hc with rfl | hc
          · exact ha
          · exact hp c hc
        · simp only [ha, if_true, List.nil_append]
          rw [he]
          rfl
      · refine ⟨pad, hp, ?_⟩
        simp only [ha, Bool.false_eq_true, if_false]
        rw [he]
        rfl
    · next r hr =>
      refine ⟨pad, hp, ?_⟩
      rw [List.cons_append, ← he]

theorem filter_splitAll_rstrip (t : Text) :
    (splitAll isSpace (rstrip t)).filter (· ≠ []) = (splitAll isSpace t).filter (· ≠ []) := by
  obtain ⟨pad, hp, he⟩ := rstrip_decomp t
  have := splitGo_append_spaces (rstrip t) pad hp
  rw [← he] at this
  simp only [splitAll, List.filter_cons, this.1, this.2]

theorem splitWs_strip (t : Text) : splitWs (strip t) = splitWs t := by
  unfold splitWs strip
  rw [filter_splitAll_rstrip, filter_splitAll_dropWhile]

end Pyr.Settings
