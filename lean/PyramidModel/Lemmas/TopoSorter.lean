import PyramidModel.Lemmas.Kahn
/-! Helper lemmas for C18: from the Kahn loop to `Sorter.sorted`, and the invariant kept by `add`. -/
namespace Pyr.Topo

/-! ### `sorted` as a decision -/

/-- the graph is well formed: the sentinels are distinct, are not names, and names are distinct -/
def Sorter.GraphWF (s : Sorter) : Prop := s.nodes.Nodup

theorem Sorter.arcs_in_nodes (s : Sorter) : ∀ e ∈ s.arcs, e.1 ∈ s.nodes ∧ e.2 ∈ s.nodes := by
  intro e he
  simp only [Sorter.arcs, List.mem_filter, Bool.and_eq_true, List.contains_eq_mem, decide_eq_true_eq] at he
  exact he.2

/-- names whose `before` requirement is not satisfied by any of their own alternatives -/
def Sorter.missingBefore (s : Sorter) : List Nat :=
  s.reqBefore.filter fun n => !(satisfied s.nodes s.n2before).contains n
def Sorter.missingAfter (s : Sorter) : List Nat :=
  s.reqAfter.filter fun n => !(satisfied s.nodes s.n2after).contains n

/-- the final state of the Kahn loop on the sorter's graph -/
def Sorter.fin (s : Sorter) : KState := kahn s.arcs s.nodes.length (initState s.nodes s.arcs)

theorem Sorter.sorted_eq (s : Sorter) :
    s.sorted =
      if !s.missingBefore.isEmpty then .unsatBefore s.missingBefore
      else if !s.missingAfter.isEmpty then .unsatAfter s.missingAfter
      else if !s.fin.alive.isEmpty then .cyclic s.fin.alive
      else .ok (s.fin.out.filter fun n => s.names.contains n) := rfl

theorem precedes_filter {a b : Nat} {l : List Nat} (p : Nat → Bool) (h : Precedes a b l)
    (ha : p a = true) (hb : p b = true) : Precedes a b (l.filter p) := by
  obtain ⟨l1, l2, rfl, hmem⟩ := h
  refine ⟨l1.filter p, l2.filter p, ?_, List.mem_filter.mpr ⟨hmem, ha⟩⟩
  simp [List.filter_append, List.filter_cons, hb]

theorem filter_names_nodes (s : Sorter) (wf : s.GraphWF) :
    (s.nodes.filter fun n => s.names.contains n) = s.names := by
  have hnd : (s.first :: s.last :: s.names).Nodup := wf
  have h1 : s.first ∉ s.names := fun h =>
    (List.nodup_cons.mp hnd).1 (List.mem_cons_of_mem _ h)
  have h2 : s.last ∉ s.names := (List.nodup_cons.mp (List.nodup_cons.mp hnd).2).1
  simp only [Sorter.nodes, List.filter_cons, List.contains_eq_mem, h1, h2, decide_false]
  simp only [Bool.false_eq_true, if_false]
  apply List.filter_eq_self.mpr
  intro a ha; simpa using ha

/-- success: the loop consumed the whole graph and its output is a topological order -/
theorem Sorter.fin_ok (s : Sorter) (wf : s.GraphWF) (h : s.fin.alive = []) :
    TopoOrder s.nodes s.arcs s.fin.out := by
  obtain ⟨hperm, hord, _⟩ := kahn_outcome wf s.arcs_in_nodes
  have hperm' : s.fin.out.Perm s.nodes := by
    have : (s.fin.out ++ s.fin.alive).Perm s.nodes := hperm
    rw [h, List.append_nil] at this; exact this
  refine ⟨hperm', ?_⟩
  intro e he
  exact hord e he (hperm'.mem_iff.mpr (s.arcs_in_nodes e he).2)

theorem Sorter.fin_cyclic (s : Sorter) (wf : s.GraphWF) (h : s.fin.alive ≠ []) :
    ¬ ∃ l, TopoOrder s.nodes s.arcs l := by
  obtain ⟨hperm, _, hclosed⟩ := kahn_outcome wf s.arcs_in_nodes
  apply no_topo_of_closed s.fin.alive h _ hclosed wf
  intro v hv
  exact hperm.mem_iff.mp (List.mem_append_right _ hv)

/-! ### dictionary helpers -/

def keys (t : List (Nat × List Nat)) : List Nat := t.map (·.1)

theorem alookup_none_of_not_mem {k : Nat} {t : List (Nat × List Nat)} (h : k ∉ keys t) :
    alookup k t = none := by
  induction t with
  | nil => rfl
  | cons p t ih =>
    obtain ⟨k', v⟩ := p
    simp only [keys, List.map_cons, List.mem_cons, not_or] at h
    simp only [alookup]
    have : (k' == k) = false := by simpa using fun hh => h.1 hh.symm
    simp only [this, Bool.false_eq_true, if_false]
    exact ih h.2

theorem alookup_some_mem {k : Nat} {v : List Nat} {t : List (Nat × List Nat)}
    (h : alookup k t = some v) : (k, v) ∈ t := by
  induction t with
  | nil => simp [alookup] at h
  | cons p t ih =>
    obtain ⟨k', v'⟩ := p
    simp only [alookup] at h
    by_cases hk : (k' == k) = true
    · simp only [hk, if_true, Option.some.injEq] at h
      have : k' = k := by simpa using hk
      subst this; subst h; exact List.mem_cons_self
    · simp only [hk, Bool.false_eq_true, if_false] at h
      exact List.mem_cons_of_mem _ (ih h)

theorem alookup_of_mem_nodup {k : Nat} {v : List Nat} {t : List (Nat × List Nat)}
    (hnd : (keys t).Nodup) (h : (k, v) ∈ t) : alookup k t = some v := by
  induction t with
  | nil => simp at h
  | cons p t ih =>
    obtain ⟨k', v'⟩ := p
    simp only [keys, List.map_cons, List.nodup_cons] at hnd
    simp only [alookup]
    rcases List.mem_cons.mp h with h | h
    · simp only [Prod.mk.injEq] at h
      obtain ⟨rfl, rfl⟩ := h
      simp
    · have hk : k ∈ keys t := List.mem_map.mpr ⟨(k, v), h, rfl⟩
      have : (k' == k) = false := by
        simp only [beq_eq_false_iff_ne, ne_eq]
        intro hh; subst hh; exact hnd.1 hk
      simp only [this, Bool.false_eq_true, if_false]
      exact ih hnd.2 h

theorem keys_aerase (k : Nat) (t : List (Nat × List Nat)) :
    keys (aerase k t) = (keys t).filter (· != k) := by
  induction t with
  | nil => rfl
  | cons p t ih =>
    obtain ⟨k', v⟩ := p
    simp only [aerase, keys, List.map_cons, List.filter_cons]
    by_cases hk : (k' == k) = true
    · simp only [hk, if_true]
      have : (k' != k) = false := by simp [bne, hk]
      simp only [this, Bool.false_eq_true, if_false]
      exact ih
    · have hk' : (k' == k) = false := by simpa using hk
      simp only [hk', Bool.false_eq_true, if_false, List.map_cons, bne, Bool.not_false, if_true]
      exact congrArg _ ih

theorem alookup_aerase_self (k : Nat) (t : List (Nat × List Nat)) : alookup k (aerase k t) = none := by
  apply alookup_none_of_not_mem
  rw [keys_aerase]; simp

theorem alookup_aerase_other {k n : Nat} (h : n ≠ k) (t : List (Nat × List Nat)) :
    alookup n (aerase k t) = alookup n t := by
  induction t with
  | nil => rfl
  | cons p t ih =>
    obtain ⟨k', v⟩ := p
    simp only [aerase]
    by_cases hk : (k' == k) = true
    · simp only [hk, if_true, alookup]
      have hkk : k' = k := by simpa using hk
      have : (k' == n) = false := by
        simp only [beq_eq_false_iff_ne, ne_eq]; intro hh; exact h (hh ▸ hkk)
      simp only [this, Bool.false_eq_true, if_false]
      exact ih
    · have hk' : (k' == k) = false := by simpa using hk
      simp only [hk', Bool.false_eq_true, if_false, alookup]
      split
      · rfl
      · exact ih

/-- arcs declared by the `after` table and by the `before` table -/
def afterArcs (t : List (Nat × List Nat)) : List (Nat × Nat) := t.flatMap fun p => p.2.map fun u => (u, p.1)
def beforeArcs (t : List (Nat × List Nat)) : List (Nat × Nat) := t.flatMap fun p => p.2.map fun o => (p.1, o)

theorem flatMap_aerase_perm (f : Nat × List Nat → List (Nat × Nat)) {k : Nat} {v : List Nat}
    {t : List (Nat × List Nat)} (hnd : (keys t).Nodup) (h : alookup k t = some v) :
    (t.flatMap f).Perm (f (k, v) ++ (aerase k t).flatMap f) := by
  induction t with
  | nil => simp [alookup] at h
  | cons p t ih =>
    obtain ⟨k', v'⟩ := p
    simp only [keys, List.map_cons, List.nodup_cons] at hnd
    simp only [alookup] at h
    by_cases hk : (k' == k) = true
    · simp only [hk, if_true, Option.some.injEq] at h
      have hkk : k' = k := by simpa using hk
      subst hkk; subst h
      simp only [aerase, hk, if_true, List.flatMap_cons]
      have : aerase k' t = t := by
        have hnot : k' ∉ keys t := hnd.1
        clear ih hnd hk
        induction t with
        | nil => rfl
        | cons q t ih2 =>
          obtain ⟨k2, v2⟩ := q
          simp only [keys, List.map_cons, List.mem_cons, not_or] at hnot
          have : (k2 == k') = false := by simpa using fun hh => hnot.1 hh.symm
          simp only [aerase, this, Bool.false_eq_true, if_false]
          rw [ih2 hnot.2]
      rw [this]
    · have hk' : (k' == k) = false := by simpa using hk
      simp only [hk', Bool.false_eq_true, if_false] at h
      simp only [aerase, hk', Bool.false_eq_true, if_false, List.flatMap_cons]
      have := ih hnd.2 h
      calc f (k', v') ++ t.flatMap f
          |>.Perm (f (k', v') ++ (f (k, v) ++ (aerase k t).flatMap f)) := List.Perm.append_left _ this
        _ |>.Perm (f (k, v) ++ (f (k', v') ++ (aerase k t).flatMap f)) := by
            rw [← List.append_assoc, ← List.append_assoc]
            exact List.Perm.append_right _ List.perm_append_comm

theorem foldl_erase_perm {α : Type} [BEq α] [LawfulBEq α] (xs : List α) :
    ∀ (l rest : List α), l.Perm (xs ++ rest) → (xs.foldl (fun o x => o.erase x) l).Perm rest := by
  induction xs with
  | nil => intro l rest h; simpa using h
  | cons x xs ih =>
    intro l rest h
    simp only [List.foldl_cons]
    apply ih
    have := h.erase x
    simpa using this

/-! ### the invariant kept by `add` -/

structure Sorter.Inv (s : Sorter) : Prop where
  nodes_nodup : s.nodes.Nodup
  after_keys : (keys s.n2after).Nodup
  before_keys : (keys s.n2before).Nodup
  after_sub : ∀ k ∈ keys s.n2after, k ∈ s.names
  before_sub : ∀ k ∈ keys s.n2before, k ∈ s.names
  order_perm : s.order.Perm (afterArcs s.n2after ++ beforeArcs s.n2before)
  reqA : ∀ n, n ∈ s.reqAfter ↔ ∃ a, alookup n s.n2after = some a ∧ a ≠ []
  reqB : ∀ n, n ∈ s.reqBefore ↔ ∃ b, alookup n s.n2before = some b ∧ b ≠ []
  reqA_nodup : s.reqAfter.Nodup
  reqB_nodup : s.reqBefore.Nodup

theorem mem_sadd (x y : Nat) (s : List Nat) : y ∈ sadd x s ↔ y = x ∨ y ∈ s := by
  simp only [sadd]
  split
  · rename_i h
    have : x ∈ s := by simpa using h
    constructor
    · intro hy; exact Or.inr hy
    · rintro (rfl | hy)
      · exact this
      · exact hy
  · simp [or_comm]

theorem nodup_sadd (x : Nat) (s : List Nat) (h : s.Nodup) : (sadd x s).Nodup := by
  simp only [sadd]
  split
  · exact h
  · rename_i hc
    have : x ∉ s := by simpa using hc
    exact List.nodup_append.mpr ⟨h, by simp, by intro a ha b hb; simp at hb; subst hb; exact fun hh => this (hh ▸ ha)⟩

end Pyr.Topo

namespace Pyr.Topo

theorem addFresh_fields (s : Sorter) (name : Nat) (after before : Option (List Nat)) :
    let e := effective s after before
    let t := s.addFresh name after before
    t.names = s.names ++ [name] ∧ t.first = s.first ∧ t.last = s.last ∧
    t.defAfter = s.defAfter ∧ t.defBefore = s.defBefore ∧
    t.n2after = (match e.1 with | some a => (name, a) :: s.n2after | none => s.n2after) ∧
    t.n2before = (match e.2 with | some b => (name, b) :: s.n2before | none => s.n2before) ∧
    t.reqAfter = (match e.1 with | some _ => sadd name s.reqAfter | none => s.reqAfter) ∧
    t.reqBefore = (match e.2 with | some _ => sadd name s.reqBefore | none => s.reqBefore) ∧
    t.order = s.order ++ (match e.1 with | some a => a.map (fun u => (u, name)) | none => [])
                      ++ (match e.2 with | some b => b.map (fun o => (name, o)) | none => []) := by
  simp only [Sorter.addFresh]
  generalize effective s after before = e
  obtain ⟨ea, eb⟩ := e
  cases ea <;> cases eb <;> simp [Sorter.putAfter, Sorter.putBefore]

theorem remove_fields (s : Sorter) (name : Nat) :
    let a := (alookup name s.n2after).getD []
    let b := (alookup name s.n2before).getD []
    let t := s.remove name
    t.names = s.names.erase name ∧ t.first = s.first ∧ t.last = s.last ∧
    t.defAfter = s.defAfter ∧ t.defBefore = s.defBefore ∧
    t.n2after = aerase name s.n2after ∧ t.n2before = aerase name s.n2before ∧
    t.reqAfter = (if a.isEmpty then s.reqAfter else s.reqAfter.erase name) ∧
    t.reqBefore = (if b.isEmpty then s.reqBefore else s.reqBefore.erase name) ∧
    t.order = (b.map fun o => (name, o)).foldl (fun o x => o.erase x)
                ((a.map fun u => (u, name)).foldl (fun o x => o.erase x) s.order) := by
  simp only [Sorter.remove, List.foldl_map]
  by_cases ha : ((alookup name s.n2after).getD []).isEmpty = true <;>
  by_cases hb : ((alookup name s.n2before).getD []).isEmpty = true
  · have ha' : (alookup name s.n2after).getD [] = [] := List.isEmpty_iff.mp ha
    have hb' : (alookup name s.n2before).getD [] = [] := List.isEmpty_iff.mp hb
    simp [ha, hb, ha', hb']
  · have ha' : (alookup name s.n2after).getD [] = [] := List.isEmpty_iff.mp ha
    simp [ha, hb, ha']
  · have hb' : (alookup name s.n2before).getD [] = [] := List.isEmpty_iff.mp hb
    simp [ha, hb, hb']
  · simp [ha, hb]

end Pyr.Topo

namespace Pyr.Topo

theorem mem_keys_of_alookup {k : Nat} {v : List Nat} {t : List (Nat × List Nat)}
    (h : alookup k t = some v) : k ∈ keys t :=
  List.mem_map.mpr ⟨(k, v), alookup_some_mem h, rfl⟩

theorem aerase_of_not_mem {k : Nat} {t : List (Nat × List Nat)} (h : k ∉ keys t) : aerase k t = t := by
  induction t with
  | nil => rfl
  | cons q t ih =>
    obtain ⟨k2, v2⟩ := q
    simp only [keys, List.map_cons, List.mem_cons, not_or] at h
    have : (k2 == k) = false := by simpa using fun hh => h.1 hh.symm
    simp only [aerase, this, Bool.false_eq_true, if_false]
    rw [ih h.2]

theorem table_split (f : Nat × List Nat → List (Nat × Nat)) (hf : ∀ k, f (k, []) = [])
    {k : Nat} {t : List (Nat × List Nat)} (hnd : (keys t).Nodup) :
    (t.flatMap f).Perm (f (k, (alookup k t).getD []) ++ (aerase k t).flatMap f) := by
  cases h : alookup k t with
  | some v => simpa using flatMap_aerase_perm f hnd h
  | none =>
    have hk : k ∉ keys t := by
      intro hk
      obtain ⟨⟨k', v⟩, hm, rfl⟩ := List.mem_map.mp hk
      have := alookup_of_mem_nodup hnd hm
      simp [h] at this
    simp [hf, aerase_of_not_mem hk]

theorem remove_inv (s : Sorter) (inv : s.Inv) (name : Nat) (hmem : name ∈ s.names) :
    (s.remove name).Inv ∧ name ∉ (s.remove name).names ∧
      name ∉ keys (s.remove name).n2after ∧ name ∉ keys (s.remove name).n2before := by
  obtain ⟨f1, f2, f3, _, _, f6, f7, f8, f9, f10⟩ := remove_fields s name
  have hnames : s.names.Nodup := (List.nodup_cons.mp (List.nodup_cons.mp inv.nodes_nodup).2).2
  have hme : ∀ x, x ∈ s.names.erase name ↔ (x ≠ name ∧ x ∈ s.names) := fun x => hnames.mem_erase_iff
  have hka : ∀ x, x ∈ keys (aerase name s.n2after) ↔ (x ≠ name ∧ x ∈ keys s.n2after) := by
    intro x; rw [keys_aerase]; simp [List.mem_filter, and_comm]
  have hkb : ∀ x, x ∈ keys (aerase name s.n2before) ↔ (x ≠ name ∧ x ∈ keys s.n2before) := by
    intro x; rw [keys_aerase]; simp [List.mem_filter, and_comm]
  refine ⟨⟨?_, ?_, ?_, ?_, ?_, ?_, ?_, ?_, ?_, ?_⟩, ?_, ?_, ?_⟩
  · -- nodes
    show (Sorter.nodes (s.remove name)).Nodup
    simp only [Sorter.nodes, f1, f2, f3]
    have hsub : (s.first :: s.last :: s.names.erase name).Sublist (s.first :: s.last :: s.names) :=
      (List.erase_sublist).cons₂ _ |>.cons₂ _
    exact inv.nodes_nodup.sublist hsub
  · rw [f6, keys_aerase]; exact inv.after_keys.filter _
  · rw [f7, keys_aerase]; exact inv.before_keys.filter _
  · intro k hk; rw [f6] at hk; rw [f1, hme]
    exact ⟨((hka k).mp hk).1, inv.after_sub k ((hka k).mp hk).2⟩
  · intro k hk; rw [f7] at hk; rw [f1, hme]
    exact ⟨((hkb k).mp hk).1, inv.before_sub k ((hkb k).mp hk).2⟩
  · -- order
    rw [f10, f6, f7]
    have hA := table_split (fun p => p.2.map fun u => (u, p.1)) (by intro k; rfl) (k := name) inv.after_keys
    have hB := table_split (fun p => p.2.map fun o => (p.1, o)) (by intro k; rfl) (k := name) inv.before_keys
    simp only at hA hB
    apply foldl_erase_perm
    apply foldl_erase_perm
    have h0 := inv.order_perm
    simp only [afterArcs, beforeArcs] at h0 ⊢
    refine h0.trans ((List.Perm.append hA hB).trans ?_)
    generalize ((alookup name s.n2after).getD []).map (fun u => (u, name)) = A
    generalize ((alookup name s.n2before).getD []).map (fun o => (name, o)) = B
    generalize (aerase name s.n2after).flatMap (fun p => p.2.map fun u => (u, p.1)) = A'
    generalize (aerase name s.n2before).flatMap (fun p => p.2.map fun o => (p.1, o)) = B'
    -- (A ++ A') ++ (B ++ B') ~ A ++ (B ++ (A' ++ B'))
    have : ((A ++ A') ++ (B ++ B')).Perm (A ++ (B ++ (A' ++ B'))) := by
      rw [List.append_assoc]
      apply List.Perm.append_left
      rw [← List.append_assoc, ← List.append_assoc]
      exact List.Perm.append_right _ List.perm_append_comm
    exact this
  · -- reqA
    intro n
    rw [f8, f6]
    by_cases hn : n = name
    · subst hn
      rw [alookup_aerase_self]
      simp only [reduceCtorEq, false_and, exists_false, iff_false]
      split
      · rename_i he
        intro hin
        obtain ⟨a, ha, hne⟩ := (inv.reqA n).mp hin
        rw [ha] at he; simp at he; exact hne he
      · exact fun hin => (inv.reqA_nodup.mem_erase_iff.mp hin).1 rfl
    · rw [alookup_aerase_other hn]
      split
      · exact inv.reqA n
      · rw [List.mem_erase_of_ne hn]; exact inv.reqA n
  · intro n
    rw [f9, f7]
    by_cases hn : n = name
    · subst hn
      rw [alookup_aerase_self]
      simp only [reduceCtorEq, false_and, exists_false, iff_false]
      split
      · rename_i he
        intro hin
        obtain ⟨a, ha, hne⟩ := (inv.reqB n).mp hin
        rw [ha] at he; simp at he; exact hne he
      · exact fun hin => (inv.reqB_nodup.mem_erase_iff.mp hin).1 rfl
    · rw [alookup_aerase_other hn]
      split
      · exact inv.reqB n
      · rw [List.mem_erase_of_ne hn]; exact inv.reqB n
  · rw [f8]; split
    · exact inv.reqA_nodup
    · exact inv.reqA_nodup.erase _
  · rw [f9]; split
    · exact inv.reqB_nodup
    · exact inv.reqB_nodup.erase _
  · rw [f1, hme]; simp
  · rw [f6, hka]; simp
  · rw [f7, hkb]; simp

/-- what the property's domain asks of one `add` call: the name is not a sentinel, and a given
constraint names at least one item -/
structure AddOp.Valid (s : Sorter) (o : AddOp) : Prop where
  ne_first : o.name ≠ s.first
  ne_last : o.name ≠ s.last
  after_ne : (effective s o.after o.before).1 ≠ some []
  before_ne : (effective s o.after o.before).2 ≠ some []

theorem alookup_cons (n name : Nat) (a : List Nat) (t : List (Nat × List Nat)) :
    alookup n ((name, a) :: t) = if name = n then some a else alookup n t := by
  simp only [alookup, beq_iff_eq]

theorem perm_juggle {α : Type} (O A B A' B' : List α) (h0 : O.Perm (A' ++ B')) :
    (O ++ A ++ B).Perm ((A ++ A') ++ (B ++ B')) := by
  have h1 : (O ++ A ++ B).Perm ((A' ++ B') ++ A ++ B) :=
    List.Perm.append_right _ (List.Perm.append_right _ h0)
  refine h1.trans ?_
  have e2 : (A ++ A') ++ (B ++ B') = A ++ (A' ++ (B ++ B')) := by simp
  rw [e2]
  refine (List.Perm.append_right B (List.perm_append_comm (l₁ := A' ++ B') (l₂ := A))).trans ?_
  simp only [List.append_assoc]
  apply List.Perm.append_left; apply List.Perm.append_left
  exact List.perm_append_comm

theorem add_inv (s : Sorter) (inv : s.Inv) (o : AddOp) (hv : o.Valid s) :
    (s.add o.name o.after o.before).Inv := by
  -- state after the optional remove
  obtain ⟨s1, hs1, inv1, hn1, hka1, hkb1, hfirst, hlast, hdA, hdB⟩ :
      ∃ s1, s1 = (if s.names.contains o.name then s.remove o.name else s) ∧ s1.Inv ∧
        o.name ∉ s1.names ∧ o.name ∉ keys s1.n2after ∧ o.name ∉ keys s1.n2before ∧
        s1.first = s.first ∧ s1.last = s.last ∧ s1.defAfter = s.defAfter ∧ s1.defBefore = s.defBefore := by
    by_cases hc : s.names.contains o.name = true
    · have hm : o.name ∈ s.names := by simpa using hc
      obtain ⟨i, h1, h2, h3⟩ := remove_inv s inv o.name hm
      obtain ⟨_, g2, g3, g4, g5, _⟩ := remove_fields s o.name
      exact ⟨s.remove o.name, by rw [if_pos hc], i, h1, h2, h3, g2, g3, g4, g5⟩
    · have hm : o.name ∉ s.names := by simpa using hc
      exact ⟨s, by rw [if_neg hc], inv, hm, fun h => hm (inv.after_sub _ h), fun h => hm (inv.before_sub _ h),
        rfl, rfl, rfl, rfl⟩
  have hadd : s.add o.name o.after o.before = s1.addFresh o.name o.after o.before := by
    rw [hs1]; rfl
  rw [hadd]
  obtain ⟨f1, f2, f3, _, _, f6, f7, f8, f9, f10⟩ := addFresh_fields s1 o.name o.after o.before
  have heff : effective s1 o.after o.before = effective s o.after o.before := by
    simp only [effective, hdA, hdB]
  rw [heff] at f6 f7 f8 f9 f10
  have hva := hv.after_ne
  have hvb := hv.before_ne
  generalize effective s o.after o.before = e at f6 f7 f8 f9 f10 hva hvb
  obtain ⟨ea, eb⟩ := e
  simp only at f6 f7 f8 f9 f10 hva hvb
  have hnodes1 : (s1.first :: s1.last :: s1.names).Nodup := inv1.nodes_nodup
  refine ⟨?_, ?_, ?_, ?_, ?_, ?_, ?_, ?_, ?_, ?_⟩
  · show (Sorter.nodes _).Nodup
    simp only [Sorter.nodes, f1, f2, f3]
    have hnf : o.name ≠ s1.first := hfirst ▸ hv.ne_first
    have hnl : o.name ≠ s1.last := hlast ▸ hv.ne_last
    have : (s1.first :: s1.last :: (s1.names ++ [o.name])) = (s1.first :: s1.last :: s1.names) ++ [o.name] := by simp
    rw [this]
    refine List.nodup_append.mpr ⟨hnodes1, by simp, ?_⟩
    intro a ha b hb
    simp only [List.mem_singleton] at hb
    subst hb
    intro hab; subst hab
    simp only [List.mem_cons] at ha
    rcases ha with h | h | h
    · exact hnf h
    · exact hnl h
    · exact hn1 h
  · rw [f6]; cases ea with
    | none => exact inv1.after_keys
    | some a => exact List.nodup_cons.mpr ⟨hka1, inv1.after_keys⟩
  · rw [f7]; cases eb with
    | none => exact inv1.before_keys
    | some b => exact List.nodup_cons.mpr ⟨hkb1, inv1.before_keys⟩
  · intro k hk; rw [f1]; rw [f6] at hk
    cases ea with
    | none => exact List.mem_append_left _ (inv1.after_sub k hk)
    | some a =>
      simp only [keys, List.map_cons, List.mem_cons] at hk
      rcases hk with rfl | hk
      · simp
      · exact List.mem_append_left _ (inv1.after_sub k hk)
  · intro k hk; rw [f1]; rw [f7] at hk
    cases eb with
    | none => exact List.mem_append_left _ (inv1.before_sub k hk)
    | some b =>
      simp only [keys, List.map_cons, List.mem_cons] at hk
      rcases hk with rfl | hk
      · simp
      · exact List.mem_append_left _ (inv1.before_sub k hk)
  · rw [f10, f6, f7]
    cases ea <;> cases eb
    · simpa [afterArcs, beforeArcs] using perm_juggle s1.order [] [] _ _ inv1.order_perm
    · rename_i b
      simpa [afterArcs, beforeArcs] using
        perm_juggle s1.order [] (b.map fun x => (o.name, x)) _ _ inv1.order_perm
    · rename_i a
      simpa [afterArcs, beforeArcs] using
        perm_juggle s1.order (a.map fun u => (u, o.name)) [] _ _ inv1.order_perm
    · rename_i a b
      simpa [afterArcs, beforeArcs] using
        perm_juggle s1.order (a.map fun u => (u, o.name)) (b.map fun x => (o.name, x)) _ _ inv1.order_perm
  · intro n; rw [f8, f6]
    cases ea with
    | none => exact inv1.reqA n
    | some a =>
      have hane : a ≠ [] := fun h => hva (h ▸ rfl)
      simp only [mem_sadd, alookup_cons]
      by_cases hn : o.name = n
      · subst hn; simp [hane]
      · have hn' : n ≠ o.name := fun h => hn h.symm
        simp only [hn, if_false, hn', false_or]
        exact inv1.reqA n
  · intro n; rw [f9, f7]
    cases eb with
    | none => exact inv1.reqB n
    | some b =>
      have hbne : b ≠ [] := fun h => hvb (h ▸ rfl)
      simp only [mem_sadd, alookup_cons]
      by_cases hn : o.name = n
      · subst hn; simp [hbne]
      · have hn' : n ≠ o.name := fun h => hn h.symm
        simp only [hn, if_false, hn', false_or]
        exact inv1.reqB n
  · rw [f8]; cases ea with
    | none => exact inv1.reqA_nodup
    | some a => exact nodup_sadd _ _ inv1.reqA_nodup
  · rw [f9]; cases eb with
    | none => exact inv1.reqB_nodup
    | some b => exact nodup_sadd _ _ inv1.reqB_nodup

end Pyr.Topo

namespace Pyr.Topo

/-! ### sequences of `add` -/

theorem add_static (s : Sorter) (name : Nat) (a b : Option (List Nat)) :
    (s.add name a b).first = s.first ∧ (s.add name a b).last = s.last ∧
    (s.add name a b).defAfter = s.defAfter ∧ (s.add name a b).defBefore = s.defBefore := by
  simp only [Sorter.add]
  obtain ⟨_, f2, f3, f4, f5, _⟩ := addFresh_fields (if s.names.contains name then s.remove name else s) name a b
  rw [f2, f3, f4, f5]
  split
  · obtain ⟨_, g2, g3, g4, g5, _⟩ := remove_fields s name
    exact ⟨g2, g3, g4, g5⟩
  · exact ⟨rfl, rfl, rfl, rfl⟩

theorem valid_congr {s t : Sorter} (h1 : t.first = s.first) (h2 : t.last = s.last)
    (h3 : t.defAfter = s.defAfter) (h4 : t.defBefore = s.defBefore) (o : AddOp) (hv : o.Valid s) : o.Valid t := by
  have : effective t o.after o.before = effective s o.after o.before := by simp only [effective, h3, h4]
  exact ⟨h1 ▸ hv.ne_first, h2 ▸ hv.ne_last, this ▸ hv.after_ne, this ▸ hv.before_ne⟩

theorem addAll_inv (ops : List AddOp) : ∀ (s : Sorter), s.Inv → (∀ o ∈ ops, o.Valid s) → (s.addAll ops).Inv := by
  induction ops with
  | nil => intro s inv _; exact inv
  | cons o ops ih =>
    intro s inv hv
    simp only [Sorter.addAll, List.foldl_cons]
    apply ih _ (add_inv s inv o (hv o List.mem_cons_self))
    intro o' ho'
    obtain ⟨h1, h2, h3, h4⟩ := add_static s o.name o.after o.before
    exact valid_congr h1 h2 h3 h4 o' (hv o' (List.mem_cons_of_mem _ ho'))

/-! ### histories with the public `remove` and interleaved `sorted()` calls -/

/-- domain of a history: additions are valid, anything may be removed (also names that are not there) or asked -/
def HOp.Valid (s : Sorter) : HOp → Prop
  | .add o => o.Valid s
  | _ => True

theorem step_static (s : Sorter) (op : HOp) :
    (op.step s).first = s.first ∧ (op.step s).last = s.last ∧
    (op.step s).defAfter = s.defAfter ∧ (op.step s).defBefore = s.defBefore := by
  cases op with
  | add o => exact add_static s o.name o.after o.before
  | remove n =>
    simp only [HOp.step, Sorter.removeOp]
    split
    · obtain ⟨_, g2, g3, g4, g5, _⟩ := remove_fields s n
      exact ⟨g2, g3, g4, g5⟩
    · exact ⟨rfl, rfl, rfl, rfl⟩
  | query => exact ⟨rfl, rfl, rfl, rfl⟩

theorem step_inv (s : Sorter) (inv : s.Inv) (op : HOp) (hv : op.Valid s) : (op.step s).Inv := by
  cases op with
  | add o => exact add_inv s inv o hv
  | remove n =>
    simp only [HOp.step, Sorter.removeOp]
    split
    · rename_i h
      exact (remove_inv s inv n (by simpa using h)).1
    · exact inv
  | query => exact inv

theorem hop_valid_congr {s t : Sorter} (h1 : t.first = s.first) (h2 : t.last = s.last)
    (h3 : t.defAfter = s.defAfter) (h4 : t.defBefore = s.defBefore) (op : HOp) (hv : op.Valid s) : op.Valid t := by
  cases op with
  | add o => exact valid_congr h1 h2 h3 h4 o hv
  | remove n => trivial
  | query => trivial

theorem history_inv (ops : List HOp) :
    ∀ (s : Sorter), s.Inv → (∀ op ∈ ops, op.Valid s) → (ops.foldl HOp.step s).Inv := by
  induction ops with
  | nil => intro s inv _; exact inv
  | cons op ops ih =>
    intro s inv hv
    simp only [List.foldl_cons]
    apply ih _ (step_inv s inv op (hv op List.mem_cons_self))
    intro op' ho'
    obtain ⟨h1, h2, h3, h4⟩ := step_static s op
    exact hop_valid_congr h1 h2 h3 h4 op' (hv op' (List.mem_cons_of_mem _ ho'))

/-- a freshly constructed sorter -/
def Sorter.empty (first last : Nat) (defBefore defAfter : Option (List Nat)) : Sorter :=
  { defBefore := defBefore, defAfter := defAfter, first := first, last := last }

theorem empty_inv (first last : Nat) (dB dA : Option (List Nat)) (h : first ≠ last) :
    (Sorter.empty first last dB dA).Inv := by
  refine ⟨?_, ?_, ?_, ?_, ?_, ?_, ?_, ?_, ?_, ?_⟩ <;>
    simp [Sorter.empty, Sorter.nodes, keys, afterArcs, beforeArcs, alookup, h]

/-- the table entry of `name` after `add` is what the call declared; other entries are untouched -/
theorem add_lookup (s : Sorter) (inv : s.Inv) (name : Nat) (a b : Option (List Nat)) (n : Nat) :
    alookup n (s.add name a b).n2after =
      (if n = name then (effective s a b).1 else alookup n s.n2after) ∧
    alookup n (s.add name a b).n2before =
      (if n = name then (effective s a b).2 else alookup n s.n2before) := by
  obtain ⟨s1, hs1, hl1, hl2, hself1, hself2, hdA, hdB⟩ :
      ∃ s1, s1 = (if s.names.contains name then s.remove name else s) ∧
        (∀ m, m ≠ name → alookup m s1.n2after = alookup m s.n2after) ∧
        (∀ m, m ≠ name → alookup m s1.n2before = alookup m s.n2before) ∧
        alookup name s1.n2after = none ∧ alookup name s1.n2before = none ∧
        s1.defAfter = s.defAfter ∧ s1.defBefore = s.defBefore := by
    by_cases hc : s.names.contains name = true
    · obtain ⟨_, _, _, g4, g5, g6, g7, _⟩ := remove_fields s name
      refine ⟨s.remove name, by rw [if_pos hc], ?_, ?_, ?_, ?_, g4, g5⟩
      · intro m hm; rw [g6]; exact alookup_aerase_other hm _
      · intro m hm; rw [g7]; exact alookup_aerase_other hm _
      · rw [g6]; exact alookup_aerase_self _ _
      · rw [g7]; exact alookup_aerase_self _ _
    · have hm : name ∉ s.names := by simpa using hc
      refine ⟨s, by rw [if_neg hc], fun _ _ => rfl, fun _ _ => rfl, ?_, ?_, rfl, rfl⟩
      · exact alookup_none_of_not_mem fun h => hm (inv.after_sub _ h)
      · exact alookup_none_of_not_mem fun h => hm (inv.before_sub _ h)
  have hadd : s.add name a b = s1.addFresh name a b := by rw [hs1]; rfl
  rw [hadd]
  obtain ⟨_, _, _, _, _, f6, f7, _⟩ := addFresh_fields s1 name a b
  have heff : effective s1 a b = effective s a b := by simp only [effective, hdA, hdB]
  rw [heff] at f6 f7
  rw [f6, f7]
  generalize effective s a b = e
  obtain ⟨ea, eb⟩ := e
  constructor
  · cases ea with
    | none =>
      by_cases hn : n = name
      · subst hn; simp [hself1]
      · simp [hn, hl1 n hn]
    | some x =>
      simp only [alookup_cons]
      by_cases hn : n = name
      · subst hn; simp
      · have : ¬ name = n := fun h => hn h.symm
        simp [hn, this, hl1 n hn]
  · cases eb with
    | none =>
      by_cases hn : n = name
      · subst hn; simp [hself2]
      · simp [hn, hl2 n hn]
    | some x =>
      simp only [alookup_cons]
      by_cases hn : n = name
      · subst hn; simp
      · have : ¬ name = n := fun h => hn h.symm
        simp [hn, this, hl2 n hn]

theorem add_names (s : Sorter) (name : Nat) (a b : Option (List Nat)) :
    (s.add name a b).names = (if s.names.contains name then s.names.erase name else s.names) ++ [name] := by
  simp only [Sorter.add]
  obtain ⟨f1, _⟩ := addFresh_fields (if s.names.contains name then s.remove name else s) name a b
  rw [f1]
  split
  · obtain ⟨g1, _⟩ := remove_fields s name; rw [g1]
  · rfl

/-- membership in the satisfied set, read off the table -/
theorem mem_satisfied {nodes : List Nat} {t : List (Nat × List Nat)} (hnd : (keys t).Nodup) (n : Nat) :
    n ∈ satisfied nodes t ↔ ∃ b, alookup n t = some b ∧ ∃ x ∈ b, x ∈ nodes := by
  simp only [satisfied, List.mem_map, List.mem_filter, List.any_eq_true, List.contains_eq_mem,
    decide_eq_true_eq]
  constructor
  · rintro ⟨⟨k, b⟩, ⟨hm, x, hx, hxn⟩, rfl⟩
    exact ⟨b, alookup_of_mem_nodup hnd hm, x, hx, hxn⟩
  · rintro ⟨b, hb, x, hx, hxn⟩
    exact ⟨(n, b), ⟨alookup_some_mem hb, x, hx, hxn⟩, rfl⟩

end Pyr.Topo
