import PyramidModel.ConfigFootprints
import PyramidModel.Lemmas.ActionsSort
/-! Helper lemmas for C08: commuting folds over permutations, the frame argument, `phaseSort` vs. include
paths. -/
namespace Pyr.ConfigOrder
open Pyr.Actions

/-! ## folds over permutations whose inverted pairs commute -/

/-- an element that commutes with everything in `M` can be moved from the front of the fold to its end -/
theorem foldl_bubble {α σ : Type} (f : σ → α → σ) (a : α) :
    ∀ (M : List α) (s : σ), (∀ b ∈ M, ∀ s, f (f s a) b = f (f s b) a) →
      M.foldl f (f s a) = f (M.foldl f s) a := by
  intro M
  induction M with
  | nil => intro s _; rfl
  | cons b M ih =>
    intro s h
    simp only [List.foldl_cons]
    rw [h b (List.mem_cons_self ..) s]
    exact ih (f s b) (fun c hc => h c (List.mem_cons_of_mem _ hc))

/-- THE BUBBLE-SORT ARGUMENT.  Two arrangements of the same (duplicate-free) list of steps give the same result
when every pair of steps that appears in opposite relative order in the two arrangements commutes. -/
theorem foldl_perm_commute {α σ : Type} (f : σ → α → σ) :
    ∀ (L M : List α), L.Nodup → L.Perm M →
      (∀ a b, [a, b].Sublist L → [b, a].Sublist M → ∀ s, f (f s a) b = f (f s b) a) →
      ∀ s, L.foldl f s = M.foldl f s := by
  intro L
  induction L with
  | nil =>
    intro M _ hp _ s
    rw [List.nil_perm.mp hp]
  | cons a L ih =>
    intro M hnd hp hc s
    have haM : a ∈ M := hp.subset (List.mem_cons_self ..)
    obtain ⟨M1, M2, rfl⟩ := List.append_of_mem haM
    have hndM : (M1 ++ a :: M2).Nodup := hp.nodup_iff.mp hnd
    have hnot : a ∉ M1 := by
      intro h
      have := (List.nodup_append.mp hndM).2.2 a h a (List.mem_cons_self ..)
      exact this rfl
    have hp' : L.Perm (M1 ++ M2) := by
      have h1 : (a :: L).Perm (a :: (M1 ++ M2)) := hp.trans List.perm_middle
      exact h1.cons_inv
    have hcomm : ∀ b ∈ M1, ∀ s, f (f s a) b = f (f s b) a := by
      intro b hb s
      have hba : b ≠ a := fun e => hnot (e ▸ hb)
      have hbL : b ∈ L := by
        have : b ∈ a :: L := hp.symm.subset (List.mem_append_left _ hb)
        rcases List.mem_cons.mp this with e | h
        · exact absurd e hba
        · exact h
      apply hc a b
      · exact List.Sublist.cons_cons a (List.singleton_sublist.mpr hbL)
      · have h1 : [b].Sublist M1 := List.singleton_sublist.mpr hb
        have h2 : [a].Sublist (a :: M2) := List.singleton_sublist.mpr (List.mem_cons_self ..)
        exact List.Sublist.append h1 h2
    have hnd' : L.Nodup := (List.nodup_cons.mp hnd).2
    have hsub : (M1 ++ M2).Sublist (M1 ++ a :: M2) :=
      List.Sublist.append (List.Sublist.refl M1) (List.sublist_cons_self a M2)
    have hih := ih (M1 ++ M2) hnd' hp'
      (fun x y hxy hyx => hc x y (List.Sublist.cons a hxy) (hyx.trans hsub)) (f s a)
    simp only [List.foldl_cons]
    rw [hih, List.foldl_append, List.foldl_append, List.foldl_cons, foldl_bubble f a M1 s hcomm]

/-! ## the frame argument -/

/-- `swap_independent`, lemma form: footprint-respecting independent actions commute on every store -/
theorem commutes_of_indep {f g : Footprint} (hf : Respects f) (hg : Respects g) (hi : Indep f g) :
    Commutes f g := by
  intro s
  funext x
  by_cases hxf : x ∈ f.writes
  · have hxg : x ∉ g.writes := (hi.1 x hxf).2
    rw [hg.1 (f.sem s) x hxg]
    apply hf.2 (g.sem s) s _ x hxf
    intro y hy
    apply hg.1 s y
    intro hyg
    exact (hi.2 y hyg).1 hy
  · by_cases hxg : x ∈ g.writes
    · rw [hf.1 (g.sem s) x hxf]
      symm
      apply hg.2 (f.sem s) s _ x hxg
      intro y hy
      apply hf.1 s y
      intro hyf
      exact (hi.1 y hyf).1 hy
    · rw [hf.1 _ x hxf, hg.1 _ x hxg, hg.1 _ x hxg, hf.1 _ x hxf]

theorem indep_of_indepB {f g : Footprint} (h : indepB f g = true) : Indep f g := by
  simp only [indepB, Bool.and_eq_true, List.all_eq_true, Bool.not_eq_true', List.contains_eq_mem,
    decide_eq_false_iff_not] at h
  exact ⟨fun x hx => h.1 x hx, fun x hx => h.2 x hx⟩

theorem Commutes.symm {f g : Footprint} (h : Commutes f g) : Commutes g f := fun s => (h s).symm

theorem Indep.symm {f g : Footprint} (h : Indep f g) : Indep g f := ⟨h.2, h.1⟩

/-- the free semantics respects its footprint -/
theorem herbrand_respects (id : Nat) (r w : List Slot) : Respects (herbrand id r w) := by
  constructor
  · intro s x hx
    simp only [herbrand] at hx ⊢
    simp [hx]
  · intro s s' h x hx
    simp only [herbrand] at hx h ⊢
    simp only [hx, if_true]
    have : r.map s = r.map s' := List.map_congr_left h
    rw [this]

/-! ## runs -/

theorem runIds_map (env : Env) (l : List Act) (s : Store) : runIds env (l.map (·.id)) s = runActs env l s := by
  simp only [runIds, runActs, List.foldl_map]

theorem nodup_of_idsNodup {l : List Act} (h : IdsNodup l) : l.Nodup := by
  unfold IdsNodup at h
  exact List.Pairwise.of_map (·.id) (fun a b hne e => hne (by rw [e])) h

/-! ## `phaseSort` only looks at phases -/

theorem minOrd_map (g : Act → Act) (hg : ∀ a, (g a).order = a.order) :
    ∀ l : List Act, minOrd (l.map g) = minOrd l := by
  intro l
  induction l with
  | nil => rfl
  | cons a l ih => simp only [List.map_cons, minOrd, ih, hg]

theorem phaseSortAux_map (g : Act → Act) (hg : ∀ a, (g a).order = a.order) :
    ∀ (n : Nat) (l : List Act), phaseSortAux n (l.map g) = (phaseSortAux n l).map g := by
  intro n
  induction n with
  | zero => intro l; rfl
  | succ n ih =>
    intro l
    simp only [phaseSortAux, minOrd_map g hg]
    cases minOrd l with
    | none => rfl
    | some o =>
      simp only [atOrd, List.filter_map, List.map_append]
      have h1 : ((fun a : Act => a.order == o) ∘ g) = (fun a : Act => a.order == o) := by
        funext a; simp [hg]
      have h2 : ((fun a : Act => a.order != o) ∘ g) = (fun a : Act => a.order != o) := by
        funext a; simp [hg]
      rw [h1, h2, ih]

theorem phaseSort_map (g : Act → Act) (hg : ∀ a, (g a).order = a.order) (l : List Act) :
    phaseSort (l.map g) = (phaseSort l).map g := by
  simp only [phaseSort, List.length_map]
  exact phaseSortAux_map g hg _ l

theorem runActs_map_id (env : Env) (g : Act → Act) (hg : ∀ a, (g a).id = a.id) (l : List Act) (s : Store) :
    runActs env (l.map g) s = runActs env l s := by
  simp only [runActs, List.foldl_map, hg]

/-- in the phase-sorted program two actions of one phase stand as they were declared; two actions standing in
opposite order in two phase-sorted permutations have the same phase and were declared in opposite order -/
theorem inverted_in_sorted {P Q : List Act} {a b : Act}
    (hab : [a, b].Sublist (phaseSort P)) (hba : [b, a].Sublist (phaseSort Q)) :
    a.order = b.order ∧ [a, b].Sublist P ∧ [b, a].Sublist Q := by
  have h1 : a.order ≤ b.order := by
    have := (phaseSort_sorted P).sublist hab
    simpa using this
  have h2 : b.order ≤ a.order := by
    have := (phaseSort_sorted Q).sublist hba
    simpa using this
  have he : a.order = b.order := Int.le_antisymm h1 h2
  refine ⟨he, ?_, ?_⟩
  · have := hab.filter (fun x : Act => x.order == b.order)
    have hs := phaseSort_stable P b.order
    simp only [atOrd] at hs
    rw [hs] at this
    have hf : [a, b].filter (fun x : Act => x.order == b.order) = [a, b] := by simp [he]
    rw [hf] at this
    exact this.trans List.filter_sublist
  · have := hba.filter (fun x : Act => x.order == b.order)
    have hs := phaseSort_stable Q b.order
    simp only [atOrd] at hs
    rw [hs] at this
    have hf : [b, a].filter (fun x : Act => x.order == b.order) = [b, a] := by simp [he]
    rw [hf] at this
    exact this.trans List.filter_sublist

/-! ## from the table to instance independence -/

/-- slot `x` is touched by action `a` through one of the entries `es` -/
def SlotOf (a : Act) (es : List KEntry) (x : Slot) : Prop :=
  ∃ e ∈ es, e.fam = x.fam ∧ (e.keying = .byDisc → a.key = some x.key)

/-- action `a` with footprint `f` is an instance of the generated row `r` and its hand-written footprint -/
structure InstOf (r : Row) (a : Act) (f : Footprint) : Prop where
  phase : r.phase = some a.order
  reads : ∀ x ∈ f.reads, SlotOf a ((kfoot r.kind).reads ++ (kfoot r.kind).discReads.map (fun f => ⟨f, .whole⟩)) x
  writes : ∀ x ∈ f.writes, SlotOf a (kfoot r.kind).writes x
  /-- an interface discriminator is a constant of the call site -/
  iface : r.disc = .iface → a.key = some r.kind.index
  respects : Respects f

theorem mem_readsAt_of_read {r : Row} {e : KEntry}
    (h : e ∈ (kfoot r.kind).reads ++ (kfoot r.kind).discReads.map (fun f => ⟨f, .whole⟩)) :
    ∃ at2, (e, at2) ∈ readsAt r ∧ (at2 = r.phase ∨ at2 = none) := by
  rcases List.mem_append.mp h with h | h
  · exact ⟨r.phase, List.mem_append_left _ (List.mem_map.mpr ⟨e, h, rfl⟩), Or.inl rfl⟩
  · obtain ⟨f, hf, rfl⟩ := List.mem_map.mp h
    refine ⟨if r.disc = .deferred then r.phase else none, ?_, ?_⟩
    · exact List.mem_append_right _ (List.mem_map.mpr ⟨f, hf, rfl⟩)
    · by_cases hd : r.disc = .deferred <;> simp [hd]

/-- the escape clauses cannot apply to two different same-phase actions of a conflict-free program that touch a
common slot through `e1` / `e2`, unless the pair is declared order-sensitive -/
theorem escapes_absurd {r1 r2 : Row} {a b : Act} {e1 e2 : KEntry} {x : Slot}
    (hne : a.id ≠ b.id) (hkeys : a.key = b.key → a.key ≠ none → a.id = b.id)
    (hs : sensitive r1.kind r2.kind = false)
    (h1 : e1.keying = .byDisc → a.key = some x.key) (h2 : e2.keying = .byDisc → b.key = some x.key)
    (hi1 : r1.disc = .iface → a.key = some r1.kind.index) (hi2 : r2.disc = .iface → b.key = some r2.kind.index)
    (he : escapes r1 r2 e1 e2 = true) : False := by
  simp only [escapes, hs, Bool.false_or, Bool.or_eq_true, Bool.and_eq_true, beq_iff_eq] at he
  rcases he with ⟨⟨k1, k2⟩, _⟩ | ⟨hk, hif⟩
  · have ha := h1 k1
    have hb := h2 k2
    exact hne (hkeys (ha.trans hb.symm) (by rw [ha]; simp))
  · have hb := hi2 hif.2
    have ha := hi1 hif.1
    rw [← hk] at hb
    exact hne (hkeys (ha.trans hb.symm) (by rw [ha]; simp))

/-- two different same-phase actions of a conflict-free program that instantiate rows of a sound table and
whose kinds are not declared order-sensitive have independent footprints -/
theorem indep_of_pairOK {r1 r2 : Row} {a b : Act} {fa fb : Footprint}
    (h12 : pairOK r1 r2 = true) (h21 : pairOK r2 r1 = true)
    (ia : InstOf r1 a fa) (ib : InstOf r2 b fb) (hph : a.order = b.order)
    (hne : a.id ≠ b.id) (hkeys : a.key = b.key → a.key ≠ none → a.id = b.id)
    (hs : sensitive r1.kind r2.kind = false) : Indep fa fb := by
  have hs' : sensitive r2.kind r1.kind = false := by
    simp only [sensitive] at hs ⊢
    rw [← hs]
    congr 1
    funext p
    exact Bool.or_comm _ _
  have key : ∀ {r1 r2 : Row} {a b : Act} {fa fb : Footprint}, pairOK r1 r2 = true → InstOf r1 a fa → InstOf r2 b fb →
      a.order = b.order → a.id ≠ b.id → (a.key = b.key → a.key ≠ none → a.id = b.id) →
      sensitive r1.kind r2.kind = false → ∀ x ∈ fa.writes, x ∉ fb.reads ∧ x ∉ fb.writes := by
    intro r1 r2 a b fa fb h12 ia ib hph hne hkeys hs x hx
    obtain ⟨e1, he1, hf1, hk1⟩ := ia.writes x hx
    simp only [pairOK, List.all_eq_true, Bool.and_eq_true] at h12
    have hrow := h12 e1 he1
    constructor
    · intro hr
      obtain ⟨e2, he2, hf2, hk2⟩ := ib.reads x hr
      obtain ⟨at2, hmem, hat⟩ := mem_readsAt_of_read he2
      have := hrow.1 (e2, at2) hmem
      simp only [Bool.or_eq_true, bne_iff_ne, ne_eq] at this
      rcases this with (hfam | hlt) | hesc
      · exact hfam (hf1.trans hf2.symm)
      · rw [ia.phase] at hlt
        rcases hat with rfl | rfl
        · rw [ib.phase] at hlt
          simp only [decide_eq_true_eq] at hlt
          omega
        · simp at hlt
      · exact escapes_absurd hne hkeys hs hk1 hk2 ia.iface ib.iface hesc
    · intro hw
      obtain ⟨e2, he2, hf2, hk2⟩ := ib.writes x hw
      have := hrow.2 e2 he2
      simp only [Bool.or_eq_true, bne_iff_ne, ne_eq] at this
      rcases this with (hfam | hlt) | hesc
      · exact hfam (hf1.trans hf2.symm)
      · rw [ia.phase, ib.phase] at hlt
        simp only [decide_eq_true_eq] at hlt
        exact hlt (by rw [hph])
      · exact escapes_absurd hne hkeys hs hk1 hk2 ia.iface ib.iface hesc
  exact ⟨key h12 ia ib hph hne hkeys hs,
    key h21 ib ia hph.symm (Ne.symm hne) (fun h1 h2 => (hkeys h1.symm (by rw [← h1]; exact h2)).symm) hs'⟩

end Pyr.ConfigOrder
