import PyramidModel.Lemmas.Csrf
import PyramidModel.Gen.C12
/-!
C12 — evaluating the model on the rows of the generated table (`Gen/C12.lean`, produced by RUNNING the code under
test over finite probe domains).  `…RowOk row = true` says: on this probed input the model gives the verdict the
implementation gave.  The obligations over the whole tables are in `Props/C12.lean`.
-/
namespace Pyr.Csrf
open Pyr.Gen.C12

def pairsOf (ps : List (String × String)) : List (Text × Text) := ps.map fun kv => (kv.1.toList, kv.2.toList)

/-- the request of a row (the probes use the token factory value "fresh" and origins whose two Python-side facts are true) -/
def reqOfRow (q : ReqRow) : Req :=
  { method := q.method.toList, scheme := q.scheme.toList, environ := pairsOf q.environ, form := pairsOf q.form,
    query := pairsOf q.query, stored := q.stored.map String.toList, fresh := "fresh".toList, brHostOk := true, nfkcOk := true }

def storageOfRow : String → Option Storage
  | "legacy" => some .legacy
  | "session" => some .session
  | "cookie" => some .cookie
  | _ => none

def callbackOfRow : String → Option (Option (Req → Bool))
  | "none" => some none
  | "true" => some (some fun _ => true)
  | "false" => some (some fun _ => false)
  | _ => none

def defaultsOfRow (d : DefRow) : Option Defaults :=
  (callbackOfRow d.callback).map fun cb =>
    { requireCsrf := d.require, token := d.token.map String.toList, header := d.header.map String.toList,
      safeMethods := d.safe.map String.toList, checkOrigin := d.checkOrigin, allowNoOrigin := d.allowNoOrigin, callback := cb }

def explicitOfRow : String → Option (Option Bool)
  | "True" => some (some true)
  | "False" => some (some false)
  | "None" => some none
  | _ => none

def outUnit : Except Err Unit → String
  | .ok _ => "ran"
  | .error .badToken => "badtoken"
  | .error .badOrigin => "badorigin"
  | .error .valueError => "ValueError"
  | .error .unicodeError => "UnicodeEncodeError"

def outBool : Except Err Bool → String
  | .ok true => "True"
  | .ok false => "False"
  | .error .badToken => "badtoken"
  | .error .badOrigin => "badorigin"
  | .error .valueError => "ValueError"
  | .error .unicodeError => "UnicodeEncodeError"

/-- wrapper row: same outcome, and the callback was consulted exactly when the view is enabled, the method unsafe and a
callback configured -/
def viewRowOk (row : ViewRow) : Bool :=
  match explicitOfRow row.explicit, (match row.defaults with | none => some none | some d => (defaultsOfRow d).map some) with
  | some ex, some ds =>
    let c : ViewCfg := ⟨ex, row.excOnly, ds, .session, row.trusted.map String.toList⟩
    let r := reqOfRow row.req
    let calls : Nat := if csrfEnabled c && !c.opts.safeMethods.contains r.method && c.opts.callback.isSome then 1 else 0
    outUnit (csrfView c r) == row.out && calls == row.callbackCalls
  | _, _ => false

/-- application row: the model's verdict does not look at the extra view option at all, so a row registered WITH the
option and the row registered WITHOUT it must both carry the model's outcome -/
def optRowOk (r : OptRow) : Bool := viewRowOk r.row

/-- origin row: omitted arguments take the model's defaults (`trusted_origins=None` → the settings list,
`allow_no_origin=False`, `raises=True`); the caller's list and the settings list are left as they were -/
def originRowOk (row : OriginRow) : Bool :=
  let r := reqOfRow row.req
  let tl : List Text := match row.trustedArg with
    | some l => l.map String.toList
    | none => row.settings.map String.toList
  let res := checkOriginSt tl (row.allow.getD false) (row.raises.getD true) r
  outBool res.1 == row.out && row.settingsAfter == row.settings &&
    (match row.trustedArg, row.left with
     | some _, some l => res.2 == l.map String.toList
     | none, none => true
     | _, _ => false)

/-- token row: omitted names are `csrf_token` / `X-CSRF-Token`, omitted `raises` is `True` -/
def tokenRowOk (row : TokenRow) : Bool :=
  match storageOfRow row.storage with
  | some st =>
    let tok := if row.omitted then some "csrf_token".toList else row.token.map String.toList
    let hdr := if row.omitted then some "X-CSRF-Token".toList else row.header.map String.toList
    outBool (checkToken st tok hdr (row.raises.getD true) (reqOfRow row.req)) == row.out
  | none => false

def policyRowOk (row : PolicyRow) : Bool :=
  match storageOfRow row.storage with
  | some st => outBool (policyCheck st (reqOfRow row.req) row.supplied.toList) == row.out
  | none => false

def domainRowOk (row : DomainRow) : Bool :=
  (if isSameDomain row.host.toList row.pattern.toList then "True" else "False") == row.out

def differRowOk (row : DifferRow) : Bool :=
  (if stringsDiffer row.a.toUTF8.data.toList row.b.toUTF8.data.toList then "True" else "False") == row.out

end Pyr.Csrf
