/-
C20 — the *static* side: the shape of the table `extract/c20.py` generates from src/pyramid/config/*.py
(`GDirective`), the shape of the hand-written specification (`SDirective`, filled in
`Lemmas/IntrospectSpec.lean`), and the decidable check that a generated directive meets its specification.
Core Lean only (the driver prints the specification for the dynamic harness).
-/
namespace Pyr.Introspect

/-- `name = rhs` somewhere in the directive (`scope` = the nested function, `guards` = enclosing tests) -/
structure GDef where
  name : String
  rhs : String
  scope : String
  guards : List String
deriving Repr, DecidableEq, Inhabited

/-- `var = self.introspectable(category, discr, title, typeName)`; `deps` = locals the category and the
discriminator mention, transitively -/
structure GIntro where
  var : String
  category : String
  discr : String
  title : String
  typeName : String
  scope : String
  guards : List String
  deps : List String
deriving Repr, DecidableEq, Inhabited

/-- `var[key] = expr` (or the `update` forms; key `**` = `var.update(<name>)`) -/
structure GKey where
  var : String
  key : String
  expr : String
  scope : String
  guards : List String
  deps : List String
deriving Repr, DecidableEq, Inhabited

structure GRel where
  var : String
  rel : Bool
  cat : String
  discr : String
  scope : String
  guards : List String
  deps : List String
deriving Repr, DecidableEq, Inhabited

/-- `self.action(discr, …, order=…, introspectables=…)`; `intrs = none` when the translator could not follow
the `introspectables=` argument -/
structure GAct where
  discr : String
  order : String
  scope : String
  guards : List String
  intrs : Option (List (String × List String))
deriving Repr, DecidableEq, Inhabited

structure GDirective where
  file : String
  name : String
  /-- the class the body sits on -/
  cls : String
  /-- the body itself carries `@action_method` -/
  decorated : Bool
  /-- the public configurator methods through which the body is reached (`Class.method`, sorted), each with
  whether it carries `@action_method`; empty when the translator found none -/
  entries : List (String × Bool)
  params : List String
  intros : List GIntro
  keys : List GKey
  rels : List GRel
  acts : List GAct
  defs : List GDef
  unknown : List String
deriving Repr, DecidableEq, Inhabited

/-! ### what a directive records, as probed on the running code -/

/-- one introspectable a probed call left behind (values symbolic: `$p` = the object/string passed as parameter `p`) -/
structure PIntro where
  category : String
  discr : String
  title : String
  typeName : String
  keys : List (String × String)
  rels : List (Bool × String × String)
deriving Repr, DecidableEq, Inhabited

/-- one probed directive call: `actions` = (discriminator, order, action info is the calling statement, indices of the
introspectables the action carries) -/
structure PCall where
  name : String
  slice : String
  commit : String
  actions : List (String × String × Bool × List Nat)
  intros : List PIntro
deriving Repr, DecidableEq, Inhabited

/-! ### specification side -/

/-- what a recorded value must be, in terms of the directive's parameters -/
inductive Shape where
  /-- the parameter `p`, never reassigned in the directive -/
  | param (p : String)
  /-- the parameter `p` after exactly `p = self.maybe_dotted(p)` (a dotted name is resolved, an object is itself) -/
  | resolved (p : String)
  /-- a literal -/
  | const (c : String)
  /-- a documented normalised form: the expression and the complete list of assignments that define the locals
  it mentions (in source order) -/
  | derived (expr : String) (defs : List GDef)
  /-- a value only known when the action runs (route object, derived view, predicate list…): recorded from
  inside the action's callable -/
  | computed (expr : String)
  /-- `var.update(p)` for the `**p` parameter: the extra keyword options, verbatim -/
  | extra (p : String)
deriving Repr, DecidableEq, Inhabited

structure SKey where
  var : String
  key : String
  shape : Shape
  scope : String := ""
  guards : List String := []
deriving Repr, DecidableEq, Inhabited

structure SIntro where
  var : String
  category : String
  discr : String
  /-- assignments defining the locals mentioned by category/discriminator -/
  defs : List GDef := []
  title : String
  typeName : String
  scope : String := ""
  guards : List String := []
deriving Repr, DecidableEq, Inhabited

structure SRel where
  var : String
  rel : Bool := true
  cat : String
  discr : String
  defs : List GDef := []
  scope : String := ""
  guards : List String := []
deriving Repr, DecidableEq, Inhabited

structure SDirective where
  file : String
  name : String
  /-- the public directives (`Class.method`) a configuration statement calls to reach this body: each must be
  wrapped by `@action_method`, whose outermost wrapper records the calling statement as `action_info` -/
  entries : List String
  /-- pyramid's own call sites of the body that are not configuration statements (exempt) -/
  internal : List String := []
  /-- the documented category of each introspectable variable (introspector.rst), when the documentation
  names one; used by the dynamic harness (`docCategory ≠ category` is finding F-C20c) -/
  docCategory : List (String × String) := []
  params : List String
  intros : List SIntro
  keys : List SKey
  rels : List SRel := []
  acts : List GAct
deriving Repr, DecidableEq, Inhabited

/-! ### the check -/

/-- a def in `s'` is visible from an expression in scope `s` -/
def visible (s' s : String) : Bool := s' == "" || s' == s

/-- the assignments of `d` that define the names `deps`, visible from `scope` -/
def sliceOf (d : GDirective) (deps : List String) (scope : String) : List GDef :=
  d.defs.filter fun x => deps.contains x.name && visible x.scope scope

def isPlainParam (d : GDirective) (p : String) : Bool := d.params.contains p

def shapeOk (d : GDirective) (k : GKey) : Shape → Bool
  | .param p => k.expr == p && k.key != "**" && isPlainParam d p && (sliceOf d [p] k.scope).isEmpty
  | .resolved p => k.expr == p && k.key != "**" && isPlainParam d p
      && sliceOf d [p] k.scope == [⟨p, "self.maybe_dotted(" ++ p ++ ")", "", []⟩]
  | .const c => k.expr == c && k.key != "**"
  | .derived e defs => k.expr == e && k.key != "**" && sliceOf d k.deps k.scope == defs
  | .computed e => k.expr == e && k.key != "**" && k.scope != ""
  | .extra p => k.key == "**" && k.expr == p && d.params.contains ("**" ++ p) && (sliceOf d [p] k.scope).isEmpty

/-- introspectable variables are compared by the position of their (first) creation in the directive, so that
renaming such a local changes nothing -/
def gvar (d : GDirective) (v : String) : Nat := (d.intros.map (·.var)).idxOf v
def svar (s : SDirective) (v : String) : Nat := (s.intros.map (·.var)).idxOf v

def keyOk (d : GDirective) (sd : SDirective) (k : GKey) (s : SKey) : Bool :=
  gvar d k.var == svar sd s.var && k.key == s.key && k.scope == s.scope && k.guards == s.guards && shapeOk d k s.shape

def introOk (d : GDirective) (g : GIntro) (s : SIntro) : Bool :=
  g.category == s.category && g.discr == s.discr && g.title == s.title
    && g.typeName == s.typeName && g.scope == s.scope && g.guards == s.guards
    && sliceOf d g.deps g.scope == s.defs

def relOk (d : GDirective) (sd : SDirective) (g : GRel) (s : SRel) : Bool :=
  gvar d g.var == svar sd s.var && g.rel == s.rel && g.cat == s.cat && g.discr == s.discr && g.scope == s.scope
    && g.guards == s.guards && sliceOf d g.deps g.scope == s.defs

/-- pointwise check of two lists of the same length -/
def all2 {α β} (f : α → β → Bool) : List α → List β → Bool
  | [], [] => true
  | a :: as, b :: bs => f a b && all2 f as bs
  | _, _ => false

/-- the recorded keys are the specified ones, as a set (the order of independent assignments is free) -/
def keysOk (d : GDirective) (s : SDirective) : Bool :=
  d.keys.length == s.keys.length
    && d.keys.all (fun k => s.keys.any (fun sk => keyOk d s k sk))
    && s.keys.all (fun sk => d.keys.any (fun k => keyOk d s k sk))

def introsOk (d : GDirective) (s : SDirective) : Bool := d.params == s.params && all2 (introOk d) d.intros s.intros

def relsOk (d : GDirective) (s : SDirective) : Bool :=
  d.rels.length == s.rels.length
    && d.rels.all (fun k => s.rels.any (fun sk => relOk d s k sk))
    && s.rels.all (fun sk => d.rels.any (fun k => relOk d s k sk))

def actOk (d : GDirective) (sd : SDirective) (g s : GAct) : Bool :=
  g.discr == s.discr && g.order == s.order && g.scope == s.scope && g.guards == s.guards &&
    (match g.intrs, s.intrs with
     | some gi, some si => gi.map (fun p => (gvar d p.1, p.2)) == si.map (fun p => (svar sd p.1, p.2))
     | _, _ => false)

def actsOk (d : GDirective) (s : SDirective) : Bool := all2 (actOk d s) d.acts s.acts

/-- every public way into the body is a specified one and is wrapped by `@action_method` (fix 4633e93 for
`add_permission`, `add_cache_buster`, `add_tween`; finding F-C20d before it) -/
def entriesOk (d : GDirective) (s : SDirective) : Bool :=
  !s.entries.isEmpty
    && s.entries.all (fun e => d.entries.contains (e, true))
    && d.entries.all (fun e => (s.entries.contains e.1 && e.2) || s.internal.contains e.1)

def dirOk (d : GDirective) (s : SDirective) : Bool :=
  d.file == s.file && d.name == s.name && d.unknown.isEmpty && entriesOk d s && introsOk d s && keysOk d s && relsOk d s && actsOk d s

/-- the parameter names mentioned by a symbolic value: identifiers after `$` / `${` -/
def sentTokensAux : List Char → Option (List Char) → List String
  | [], none => []
  | [], some cur => if cur.isEmpty then [] else [String.ofList cur.reverse]
  | c :: r, none => if c == '$' then sentTokensAux r (some []) else sentTokensAux r none
  | c :: r, some cur =>
    if c.isAlphanum || c == '_' then sentTokensAux r (some (c :: cur))
    else if c == '{' && cur.isEmpty then sentTokensAux r (some [])
    else (if cur.isEmpty then [] else [String.ofList cur.reverse])
      ++ (if c == '$' then sentTokensAux r (some []) else sentTokensAux r none)

def sentTokens (v : String) : List String := sentTokensAux v.toList none

/-- a token `p`, `p0`, `p1`, … names parameter `p` -/
def tokenOf (p t : String) : Bool :=
  let pl := p.toList
  let tl := t.toList
  tl.take pl.length == pl && (tl.drop pl.length).all Char.isDigit

/-- a probed value is compatible with the specified shape of its key: a key specified to hold parameter `p` mentions
no other parameter's sentinel (a swap would); a constant is that constant -/
def agrees : Shape → String → Bool
  | .param p, v => (sentTokens v).all (tokenOf p)
  | .resolved p, v => (sentTokens v).all (fun t => tokenOf p t || t == "dotted_target")
  | .const c, v => v == c
  | _, _ => true

/-- every probed key of every introspectable whose category the slice specifies has a specified key of that name whose
shape it agrees with (or the slice takes extra `**options`) -/
def callAgrees (ss : List SDirective) (c : PCall) : Bool :=
  ss.all fun s => s.name != c.slice || c.intros.all fun i =>
    let vars := (s.intros.filter fun si => si.category == "'" ++ i.category ++ "'" || si.category.toList.contains '%').map (·.var)
    vars.isEmpty || i.keys.all fun kv =>
      s.keys.any (fun sk => vars.contains sk.var && sk.key == kv.1 && agrees sk.shape kv.2)
        || s.keys.any (fun sk => match sk.shape with | .extra _ => true | _ => false)

/-- the documented category names against the recorded ones: `docs` = the generated headings of introspector.rst,
`undoc` = the specified list of category expressions the chapter is silent about -/
def docOk (docs undoc : List String) (calls : List PCall) (ss : List SDirective) : Bool :=
  let quoted := docs.map fun c => "'" ++ c ++ "'"
  let recorded := calls.flatMap fun c => c.intros.map fun i => "'" ++ i.category ++ "'"
  -- every recorded category is documented, or is one the chapter does not list
  recorded.all (fun c => quoted.contains c || undoc.contains c)
  -- every heading is recorded by some directive
  && quoted.all (fun c => recorded.contains c)
  -- the two lists do not overlap
  && undoc.all (fun c => !quoted.contains c)
  -- the specification's documented name of each introspectable is a heading and is the category in the source
  && ss.all (fun s => s.docCategory.all fun p =>
       docs.contains p.2 && s.intros.all (fun i => i.var != p.1 || i.category == "'" ++ p.2 ++ "'"))
  -- every introspectable filed under a heading has its documented name in the specification
  && ss.all (fun s => s.intros.all fun i => !quoted.contains i.category || s.docCategory.any (fun p => p.1 == i.var))

/-- every introspectable variable built by the directive reaches some action's `introspectables=` -/
def allReach (d : GDirective) : Bool :=
  d.intros.all fun i => d.acts.any fun a =>
    match a.intrs with
    | some vs => vs.any fun v => v.1 == i.var
    | none => false

end Pyr.Introspect
