import PyramidModel.Route
import PyramidModel.Lemmas.Rx
import PyramidModel.Lemmas.Traversal
/-! Declarative spec of route matching (`Splits`) and the helper lemmas for C01.
Property theorems are in `Props/C01.lean`. -/
namespace Pyr.Route

open Pyr.Rx (Rx Ucd Lang Res)
open Pyr.Trav (splitPathInfo)

/-- the text has no line feed -/
def NoLF (c : Text) : Prop := '\n' ∉ c

instance (c : Text) : Decidable (NoLF c) := by unfold NoLF; infer_instance

instance : DecidableEq (Except CErr (List Tok)) := fun a b =>
  match a, b with
  | .ok x, .ok y => if h : x = y then isTrue (by rw [h]) else isFalse (by intro e; cases e; exact h rfl)
  | .error x, .error y => if h : x = y then isTrue (by rw [h]) else isFalse (by intro e; cases e; exact h rfl)
  | .ok _, .error _ => isFalse (by intro e; cases e)
  | .error _, .ok _ => isFalse (by intro e; cases e)

/-- **The spec.**  `Splits u restOK toks path env`: `path` is, in order, each literal verbatim and, for each
placeholder, a text in the language of its regex; a `*rest` token takes any text satisfying `restOK`; nothing is
left over; `env` records exactly those texts (the remainder as its normalised segments).  No order, no backtracking. -/
inductive Splits (u : Ucd) (restOK : Text → Prop) : List Tok → Text → Env → Prop
  | nil : Splits u restOK [] [] []
  | lit {l ts p e} : Splits u restOK ts p e → Splits u restOK (.lit l :: ts) (l ++ p) e
  | ph {n rx ts c p e} : Lang u rx c → Splits u restOK ts p e →
      Splits u restOK (.ph n rx :: ts) (c ++ p) ((n, .str c) :: e)
  | rest {n ts c p e} : restOK c → Splits u restOK ts p e →
      Splits u restOK (.rest n :: ts) (c ++ p) ((n, .segs (splitPathInfo c)) :: e)

theorem Splits.mono {u : Ucd} {P Q : Text → Prop} (h : ∀ c, P c → Q c) {ts : List Tok} {p : Text} {e : Env}
    (s : Splits u P ts p e) : Splits u Q ts p e := by
  induction s with
  | nil => exact .nil
  | lit _ ih => exact .lit ih
  | ph hl _ ih => exact .ph hl ih
  | rest hr _ ih => exact .rest (h _ hr) ih

theorem dropPrefix?_eq_some : ∀ (l s rest : Text), dropPrefix? l s = some rest ↔ s = l ++ rest
  | [], s, rest => by simp [dropPrefix?]
  | a :: as, [], rest => by simp [dropPrefix?]
  | a :: as, b :: bs, rest => by
    simp only [dropPrefix?]
    split
    · rename_i h; subst h
      rw [dropPrefix?_eq_some as bs rest]; simp
    · rename_i h
      simp only [List.cons_append, List.cons.injEq, false_iff, not_and, reduceCtorEq]
      intro hb; exact absurd hb.symm h

theorem pow_any_noLF (u : Ucd) : ∀ (k : Nat) (c : Text), Rx.Pow (Lang u .any) k c → NoLF c
  | 0, c, h => by simp only [Rx.Pow] at h; subst h; simp [NoLF]
  | k + 1, c, h => by
    obtain ⟨x, y, rfl, ⟨a, ha, rfl⟩, hy⟩ := h
    have := pow_any_noLF u k y hy
    simp only [NoLF, List.cons_append, List.nil_append, List.mem_cons, not_or] at this ⊢
    exact ⟨fun e => ha e.symm, this⟩

theorem noLF_pow_any (u : Ucd) : ∀ (c : Text), NoLF c → Rx.Pow (Lang u .any) c.length c
  | [], _ => rfl
  | a :: as, h => by
    simp only [NoLF, List.mem_cons, not_or] at h
    exact ⟨[a], as, rfl, ⟨a, fun e => h.1 e.symm, rfl⟩, noLF_pow_any u as h.2⟩

/-- the remainder group before fc43a19 (`.*?`): exactly the texts without a line feed -/
theorem lang_lazyDotStar (u : Ucd) (c : Text) : Lang u Rx.lazyDotStar c ↔ NoLF c := by
  simp only [Rx.lazyDotStar, Lang]
  constructor
  · rintro ⟨k, _, _, hp⟩; exact pow_any_noLF u k c hp
  · intro h; exact ⟨c.length, Nat.zero_le _, by simp, noLF_pow_any u c h⟩

theorem pow_all (u : Ucd) : ∀ (c : Text), Rx.Pow (Lang u .all) c.length c
  | [] => rfl
  | a :: as => ⟨[a], as, rfl, ⟨a, rfl⟩, pow_all u as⟩

/-- the remainder group (`(?s:.*?)`): every text -/
theorem lang_lazyAllStar (u : Ucd) (c : Text) : Lang u Rx.lazyAllStar c := by
  simp only [Rx.lazyAllStar, Lang]
  exact ⟨c.length, Nat.zero_le _, by simp, pow_all u c⟩

theorem mem_bind_env (xs : Res) (f : Text → List Env) (g : Text → Text × Val) (e : Env) :
    e ∈ (xs.flatMap fun x => (f x.2).map fun e' => g x.1 :: e') ↔
      ∃ c rest e', (c, rest) ∈ xs ∧ e' ∈ f rest ∧ e = g c :: e' := by
  simp only [List.mem_flatMap, List.mem_map, Prod.exists]
  constructor
  · rintro ⟨c, rest, h1, e', h2, rfl⟩; exact ⟨c, rest, e', h1, h2, rfl⟩
  · rintro ⟨c, rest, e', h1, h2, rfl⟩; exact ⟨c, rest, h1, e', h2, rfl⟩

/-- a `*rest` value in a match dictionary is `split_path_info` of some text -/
theorem Splits.segs_mem {u : Ucd} {P : Text → Prop} {ts : List Tok} {p : Text} {e : Env} (s : Splits u P ts p e)
    (n : Text) (segs : List Text) (h : (n, Val.segs segs) ∈ e) : ∃ c, segs = splitPathInfo c := by
  induction s with
  | nil => simp at h
  | lit _ ih => exact ih h
  | ph _ _ ih =>
    simp only [List.mem_cons, Prod.mk.injEq, reduceCtorEq, and_false, false_or] at h
    exact ih h
  | @rest n' ts c p e _ _ ih =>
    simp only [List.mem_cons, Prod.mk.injEq, Val.segs.injEq] at h
    rcases h with ⟨_, rfl⟩ | h
    · exact ⟨c, rfl⟩
    · exact ih h

/-- a placeholder value in a match dictionary is in the language of that placeholder's regex -/
theorem Splits.str_mem {u : Ucd} {P : Text → Prop} {ts : List Tok} {p : Text} {e : Env} (s : Splits u P ts p e)
    (n : Text) (c : Text) (h : (n, Val.str c) ∈ e) : ∃ rx, Tok.ph n rx ∈ ts ∧ Lang u rx c := by
  induction s with
  | nil => simp at h
  | lit _ ih =>
    obtain ⟨rx, h1, h2⟩ := ih h
    exact ⟨rx, List.mem_cons_of_mem _ h1, h2⟩
  | @ph n' rx ts c' p e hl _ ih =>
    simp only [List.mem_cons, Prod.mk.injEq, Val.str.injEq] at h
    rcases h with ⟨rfl, rfl⟩ | h
    · exact ⟨rx, List.mem_cons_self .., hl⟩
    · obtain ⟨rx', h1, h2⟩ := ih h
      exact ⟨rx', List.mem_cons_of_mem _ h1, h2⟩
  | rest _ _ ih =>
    simp only [List.mem_cons, Prod.mk.injEq, reduceCtorEq, and_false, false_or] at h
    obtain ⟨rx, h1, h2⟩ := ih h
    exact ⟨rx, List.mem_cons_of_mem _ h1, h2⟩

def hasRest : List Tok → Bool
  | [] => false
  | .rest _ :: _ => true
  | _ :: ts => hasRest ts

/-- without a `*rest` token the side condition on remainders is immaterial -/
theorem Splits.of_noRest {u : Ucd} {P Q : Text → Prop} {ts : List Tok} {p : Text} {e : Env} (s : Splits u P ts p e)
    (h : hasRest ts = false) : Splits u Q ts p e := by
  induction s with
  | nil => exact .nil
  | lit _ ih => exact .lit (ih (by simpa [hasRest] using h))
  | ph hl _ ih => exact .ph hl (ih (by simpa [hasRest] using h))
  | rest _ _ _ => simp [hasRest] at h

theorem split_clean (p : Text) (s : Text) (h : s ∈ splitPathInfo p) :
    s ≠ [] ∧ s ≠ ['.'] ∧ s ≠ ['.', '.'] ∧ '/' ∉ s := by
  rw [Pyr.Trav.splitPathInfo_eq] at h
  obtain ⟨⟨h1, h2, h3⟩, h4⟩ := Pyr.Trav.normSegs_clean_out _ s h
  exact ⟨h1, h2, h3, Pyr.Trav.mem_splitOn_no_sep '/' p s h4⟩

def toksOk : List Tok → Bool
  | [] => true
  | .ph _ rx :: ts => Rx.ok rx && toksOk ts
  | _ :: ts => toksOk ts

/-- every alternative `re` can backtrack through is a reading of the whole path -/
theorem matchAll_sound (u : Ucd) : ∀ (ts : List Tok) (p : Text) (e : Env),
    e ∈ matchAll u .endOfString ts p → Splits u (fun _ => True) ts p e
  | [], p, e, h => by
    by_cases hp : p = []
    · subst hp
      simp only [matchAll, atEnd, decide_true, ite_true, List.mem_singleton] at h
      subst h
      exact .nil
    · simp [matchAll, atEnd, hp] at h
  | .lit l :: ts, p, e, h => by
    simp only [matchAll] at h
    split at h
    · rename_i rest hd
      rw [dropPrefix?_eq_some] at hd
      subst hd
      exact .lit (matchAll_sound u ts rest e h)
    · simp at h
  | .ph n rx :: ts, p, e, h => by
    simp only [matchAll] at h
    have h := (mem_bind_env _ (fun r => matchAll u .endOfString ts r) (fun c => (n, Val.str c)) e).mp h
    obtain ⟨c, rest, e', h1, h2, rfl⟩ := h
    obtain ⟨rfl, hl⟩ := Rx.run_sound u rx p c rest h1
    exact .ph hl (matchAll_sound u ts rest e' h2)
  | .rest n :: ts, p, e, h => by
    simp only [matchAll] at h
    have h := (mem_bind_env _ (fun r => matchAll u .endOfString ts r) (fun c => (n, Val.segs (splitPathInfo c))) e).mp h
    obtain ⟨c, rest, e', h1, h2, rfl⟩ := h
    obtain ⟨rfl, _⟩ := Rx.run_sound u Rx.lazyAllStar p c rest h1
    exact .rest trivial (matchAll_sound u ts rest e' h2)

/-- every reading of the whole path (whatever the remainder holds — `P` is arbitrary) is among the alternatives -/
theorem matchAll_complete (u : Ucd) {P : Text → Prop} {ts : List Tok} {p : Text} {e : Env} (hok : toksOk ts = true)
    (s : Splits u P ts p e) : e ∈ matchAll u .endOfString ts p := by
  induction s with
  | nil => simp [matchAll, atEnd]
  | @lit l ts p e _ ih =>
    simp only [matchAll]
    have : dropPrefix? l (l ++ p) = some p := (dropPrefix?_eq_some l (l ++ p) p).mpr rfl
    rw [this]
    exact ih (by simpa [toksOk] using hok)
  | @ph n rx ts c p e hl _ ih =>
    simp only [toksOk, Bool.and_eq_true] at hok
    simp only [matchAll]
    refine (mem_bind_env _ (fun r => matchAll u .endOfString ts r) (fun c => (n, Val.str c)) _).mpr ?_
    exact ⟨c, p, e, Rx.run_complete u rx hok.1 c p hl, ih hok.2, rfl⟩
  | @rest n ts c p e _ _ ih =>
    simp only [matchAll]
    refine (mem_bind_env _ (fun r => matchAll u .endOfString ts r) (fun c => (n, Val.segs (splitPathInfo c))) _).mpr ?_
    exact ⟨c, p, e, Rx.run_complete u Rx.lazyAllStar (by decide) c p (lang_lazyAllStar u c),
      ih (by simpa [toksOk] using hok), rfl⟩

/-! ### priority for the default placeholder -/

/-- literals, default `[^/]+` placeholders, and possibly a final `*rest` -/
def defaultOnly : List Tok → Bool
  | [] => true
  | .lit _ :: ts => defaultOnly ts
  | .ph _ rx :: ts => decide (rx = Rx.notSlashPlus) && defaultOnly ts
  | .rest _ :: ts => ts.isEmpty

/-- lengths of the placeholder captures, in pattern order -/
def phLens : Env → List Nat
  | [] => []
  | (_, .str s) :: e => s.length :: phLens e
  | (_, .segs _) :: e => phLens e

/-- lexicographic "at least as long, leftmost first" -/
def lexGE : List Nat → List Nat → Prop
  | a :: as, b :: bs => a > b ∨ (a = b ∧ lexGE as bs)
  | _, _ => True

theorem lexGE_refl : ∀ (l : List Nat), lexGE l l
  | [] => trivial
  | _ :: as => Or.inr ⟨rfl, lexGE_refl as⟩

theorem pairwise_of_forall {α} {R : α → α → Prop} : ∀ (l : List α), (∀ x ∈ l, ∀ y ∈ l, R x y) → l.Pairwise R
  | [], _ => List.Pairwise.nil
  | a :: as, h => List.pairwise_cons.mpr
      ⟨fun b hb => h a (List.mem_cons_self ..) b (List.mem_cons_of_mem _ hb),
       pairwise_of_forall as fun x hx y hy => h x (List.mem_cons_of_mem _ hx) y (List.mem_cons_of_mem _ hy)⟩

theorem defaultOnly_toksOk : ∀ (ts : List Tok), defaultOnly ts = true → toksOk ts = true
  | [], _ => rfl
  | .lit _ :: ts, h => by simpa [toksOk] using defaultOnly_toksOk ts (by simpa [defaultOnly] using h)
  | .ph _ rx :: ts, h => by
    simp only [defaultOnly, Bool.and_eq_true, decide_eq_true_eq] at h
    simp only [toksOk, Bool.and_eq_true]
    exact ⟨by rw [h.1]; decide, defaultOnly_toksOk ts h.2⟩
  | .rest _ :: ts, h => by
    simp only [defaultOnly, List.isEmpty_iff] at h
    subst h; rfl

theorem matchAll_sorted (u : Ucd) (a : Anchor) : ∀ (ts : List Tok) (p : Text), defaultOnly ts = true →
    (matchAll u a ts p).Pairwise fun e1 e2 => lexGE (phLens e1) (phLens e2)
  | [], p, _ => by
    simp only [matchAll]
    split <;> simp
  | .lit l :: ts, p, h => by
    simp only [matchAll]
    split
    · exact matchAll_sorted u a ts _ (by simpa [defaultOnly] using h)
    · simp
  | .ph n rx :: ts, p, h => by
    simp only [defaultOnly, Bool.and_eq_true, decide_eq_true_eq] at h
    obtain ⟨rfl, h2⟩ := h
    simp only [matchAll]
    rw [List.pairwise_flatMap]
    constructor
    · intro x _
      rw [List.pairwise_map]
      exact (matchAll_sorted u a ts x.2 h2).imp (by intro e1 e2 h; exact Or.inr ⟨rfl, h⟩)
    · refine (Rx.run_notSlashPlus_sorted u p).imp ?_
      intro x y hxy e1 h1 e2 h2
      simp only [List.mem_map] at h1 h2
      obtain ⟨e1', _, rfl⟩ := h1
      obtain ⟨e2', _, rfl⟩ := h2
      exact Or.inl hxy
  | .rest n :: ts, p, h => by
    simp only [defaultOnly, List.isEmpty_iff] at h
    subst h
    apply pairwise_of_forall
    intro e1 h1 e2 h2
    have key : ∀ e, e ∈ matchAll u a [.rest n] p → phLens e = [] := by
      intro e he
      simp only [matchAll] at he
      have he := (mem_bind_env _ (fun r => if atEnd a r then [[]] else []) (fun c => (n, Val.segs (splitPathInfo c))) e).mp he
      obtain ⟨c, rest, e', _, h2, rfl⟩ := he
      split at h2
      · simp only [List.mem_singleton] at h2; subst h2; rfl
      · simp at h2
    rw [key e1 h1, key e2 h2]
    trivial

/-! ### the mapper loop -/

/-- the route's pattern matches the path and its predicates hold on the match dictionary `re` reports -/
def qualifies (u : Ucd) (p : Text) (r : Route) : Option Env :=
  match matchToks u r.toks p with
  | some e => if predsHold e r.preds then some e else none
  | none => none

theorem firstRoute_cons (u : Ucd) (p : Text) (r : Route) (rs : List Route) (i : Nat) :
    firstRoute u p (r :: rs) i =
      match qualifies u p r with
      | some e => some (i, e)
      | none => firstRoute u p rs (i + 1) := by
  simp only [firstRoute, qualifies]
  split <;> simp_all
  split <;> simp_all

theorem firstRoute_eq_none (u : Ucd) (p : Text) : ∀ (rs : List Route) (i : Nat),
    firstRoute u p rs i = none ↔ ∀ r ∈ rs, qualifies u p r = none
  | [], i => by simp [firstRoute]
  | r :: rs, i => by
    rw [firstRoute_cons]
    cases hq : qualifies u p r with
    | some e => simp [hq]
    | none => simp [hq, firstRoute_eq_none u p rs (i + 1)]

theorem firstRoute_eq_some (u : Ucd) (p : Text) : ∀ (rs : List Route) (i j : Nat) (e : Env),
    firstRoute u p rs i = some (j, e) ↔
      ∃ k r, j = i + k ∧ rs[k]? = some r ∧ qualifies u p r = some e ∧
        ∀ k' r', k' < k → rs[k']? = some r' → qualifies u p r' = none
  | [], i, j, e => by simp [firstRoute]
  | r :: rs, i, j, e => by
    rw [firstRoute_cons]
    cases hq : qualifies u p r with
    | some e0 =>
      simp only [Option.some.injEq, Prod.mk.injEq]
      constructor
      · rintro ⟨rfl, rfl⟩
        exact ⟨0, r, rfl, rfl, hq, by intro k' r' hk; omega⟩
      · rintro ⟨k, r1, rfl, hk, hq1, hmin⟩
        cases k with
        | zero =>
          simp only [List.getElem?_cons_zero, Option.some.injEq] at hk
          subst hk
          rw [hq] at hq1
          exact ⟨rfl, Option.some.inj hq1⟩
        | succ k =>
          have := hmin 0 r (by omega) rfl
          rw [hq] at this; cases this
    | none =>
      simp only []
      rw [firstRoute_eq_some u p rs (i + 1) j e]
      constructor
      · rintro ⟨k, r1, rfl, hk, hq1, hmin⟩
        refine ⟨k + 1, r1, by omega, by simpa using hk, hq1, ?_⟩
        intro k' r' hk' hr'
        cases k' with
        | zero =>
          simp only [List.getElem?_cons_zero, Option.some.injEq] at hr'
          subst hr'; exact hq
        | succ k' => exact hmin k' r' (by omega) (by simpa using hr')
      · rintro ⟨k, r1, rfl, hk, hq1, hmin⟩
        cases k with
        | zero =>
          simp only [List.getElem?_cons_zero, Option.some.injEq] at hk
          subst hk
          rw [hq] at hq1; cases hq1
        | succ k =>
          refine ⟨k, r1, by omega, by simpa using hk, hq1, ?_⟩
          intro k' r' hk' hr'
          exact hmin (k' + 1) r' (by omega) (by simpa using hr')

/-! ### `connect` -/

theorem lookup_setKey_same (k : Text) (v : Nat) : ∀ (l : List (Text × Nat)), (setKey k v l).lookup k = some v
  | [] => by simp [setKey]
  | (k', v') :: rest => by
    simp only [setKey]
    split
    · simp [List.lookup]
    · rename_i h
      have : (k == k') = false := by
        simp only [beq_eq_false_iff_ne, ne_eq]
        exact fun e => h e.symm
      simp only [List.lookup, this]
      exact lookup_setKey_same k v rest

theorem lookup_setKey_other (k k2 : Text) (v : Nat) (hne : k2 ≠ k) : ∀ (l : List (Text × Nat)),
    (setKey k v l).lookup k2 = l.lookup k2
  | [] => by
    have : (k2 == k) = false := by simpa using hne
    simp [setKey, List.lookup, this]
  | (k', v') :: rest => by
    simp only [setKey]
    split
    · rename_i h
      subst h
      have : (k2 == k') = false := by simpa using hne
      simp [List.lookup, this]
    · simp only [List.lookup]
      split
      · rfl
      · exact lookup_setKey_other k k2 v hne rest

/-- what `RoutesMapper` maintains (ids stand for the identity of `Route` objects) -/
structure Inv (m : Mapper) : Prop where
  nonstatic : ∀ r ∈ m.routelist, r.static = false
  named : ∀ r ∈ m.routelist, m.routes.lookup r.name = some r.id
  owner : ∀ r ∈ m.routelist, ∀ n, m.routes.lookup n = some r.id → n = r.name
  distinct : m.routelist.Pairwise fun a b => a.name ≠ b.name
  freshList : ∀ r ∈ m.routelist, r.id < m.next
  freshRoutes : ∀ n id, m.routes.lookup n = some id → id < m.next

theorem inv_empty : Inv Mapper.empty := by
  constructor <;> simp [Mapper.empty]

/-- the routes that stay when `name` is declared again: exactly those with another name -/
theorem kept_eq (m : Mapper) (hi : Inv m) (name : Text) :
    keptRoutes m name = m.routelist.filter (fun r => r.name != name) := by
  unfold keptRoutes
  cases hl : m.routes.lookup name with
  | none =>
    simp only []
    symm
    rw [List.filter_eq_self]
    intro r hr
    simp only [bne_iff_ne, ne_eq]
    intro e
    have := hi.named r hr
    rw [e, hl] at this
    cases this
  | some old =>
    simp only []
    apply List.filter_congr
    intro r hr
    have hn := hi.named r hr
    by_cases e : r.name = name
    · rw [e, hl] at hn
      have : old = r.id := Option.some.inj hn
      simp [e, this]
    · have h1 : (r.name != name) = true := by simpa using e
      rw [h1]
      simp only [bne_iff_ne, ne_eq]
      intro eid
      exact e (hi.owner r hr name (by rw [hl, eid])).symm

theorem connect_routelist (m : Mapper) (hi : Inv m) (name : Text) (toks : List Tok) (preds : List Pred) :
    (connect m name (.ok toks) preds false).1.routelist =
      m.routelist.filter (fun r => r.name != name) ++ [⟨m.next, name, toks, preds, false⟩] := by
  have := kept_eq m hi name
  simp only [connect, Bool.false_eq_true, ite_false]
  rw [this]

theorem connect_routelist_static (m : Mapper) (hi : Inv m) (name : Text) (toks : List Tok) (preds : List Pred) :
    (connect m name (.ok toks) preds true).1.routelist = m.routelist.filter (fun r => r.name != name) := by
  have := kept_eq m hi name
  simp only [connect, ite_true]
  rw [this]

theorem connect_routelist_error (m : Mapper) (hi : Inv m) (name : Text) (err : CErr) (preds : List Pred) (st : Bool) :
    (connect m name (.error err) preds st).1.routelist = m.routelist.filter (fun r => r.name != name) := by
  have := kept_eq m hi name
  simp only [connect]
  rw [this]

theorem inv_connect (m : Mapper) (hi : Inv m) (name : Text) (c : Except CErr (List Tok)) (preds : List Pred) (st : Bool) :
    Inv (connect m name c preds st).1 := by
  have hsub : ∀ r, r ∈ m.routelist.filter (fun r => r.name != name) → r ∈ m.routelist ∧ r.name ≠ name := by
    intro r hr
    rw [List.mem_filter] at hr
    exact ⟨hr.1, by simpa using hr.2⟩
  have hdist : (m.routelist.filter (fun r => r.name != name)).Pairwise fun a b => a.name ≠ b.name :=
    hi.distinct.filter _
  cases c with
  | error err =>
    have hrl := connect_routelist_error m hi name err preds st
    have hroutes : (connect m name (.error err) preds st).1.routes = m.routes := by simp [connect]
    have hnext : (connect m name (.error err) preds st).1.next = m.next + 1 := by simp [connect]
    constructor
    · intro r hr; rw [hrl] at hr; exact hi.nonstatic r (hsub r hr).1
    · intro r hr; rw [hrl] at hr; rw [hroutes]; exact hi.named r (hsub r hr).1
    · intro r hr n hn; rw [hrl] at hr; rw [hroutes] at hn; exact hi.owner r (hsub r hr).1 n hn
    · rw [hrl]; exact hdist
    · intro r hr; rw [hrl] at hr; rw [hnext]; have := hi.freshList r (hsub r hr).1; omega
    · intro n id hn; rw [hroutes] at hn; rw [hnext]; have := hi.freshRoutes n id hn; omega
  | ok toks =>
    have hroutes : (connect m name (.ok toks) preds st).1.routes = setKey name m.next m.routes := by
      simp [connect]
    have hnext : (connect m name (.ok toks) preds st).1.next = m.next + 1 := by simp [connect]
    -- facts about the kept routes under the new dictionary
    have keptNamed : ∀ r, r ∈ m.routelist.filter (fun r => r.name != name) →
        (setKey name m.next m.routes).lookup r.name = some r.id := by
      intro r hr
      rw [lookup_setKey_other name r.name m.next (hsub r hr).2]
      exact hi.named r (hsub r hr).1
    have keptOwner : ∀ r, r ∈ m.routelist.filter (fun r => r.name != name) →
        ∀ n, (setKey name m.next m.routes).lookup n = some r.id → n = r.name := by
      intro r hr n hn
      by_cases e : n = name
      · subst e
        rw [lookup_setKey_same] at hn
        have := hi.freshList r (hsub r hr).1
        have : m.next = r.id := Option.some.inj hn
        omega
      · rw [lookup_setKey_other name n m.next e] at hn
        exact hi.owner r (hsub r hr).1 n hn
    have freshR : ∀ n id, (setKey name m.next m.routes).lookup n = some id → id < m.next + 1 := by
      intro n id hn
      by_cases e : n = name
      · subst e
        rw [lookup_setKey_same] at hn
        have : m.next = id := Option.some.inj hn
        omega
      · rw [lookup_setKey_other name n m.next e] at hn
        have := hi.freshRoutes n id hn; omega
    cases st with
    | true =>
      have hrl := connect_routelist_static m hi name toks preds
      constructor
      · intro r hr; rw [hrl] at hr; exact hi.nonstatic r (hsub r hr).1
      · intro r hr; rw [hrl] at hr; rw [hroutes]; exact keptNamed r hr
      · intro r hr n hn; rw [hrl] at hr; rw [hroutes] at hn; exact keptOwner r hr n hn
      · rw [hrl]; exact hdist
      · intro r hr; rw [hrl] at hr; rw [hnext]; have := hi.freshList r (hsub r hr).1; omega
      · intro n id hn; rw [hroutes] at hn; rw [hnext]; exact freshR n id hn
    | false =>
      have hrl := connect_routelist m hi name toks preds
      have hmem : ∀ r, r ∈ (connect m name (.ok toks) preds false).1.routelist →
          r ∈ m.routelist.filter (fun r => r.name != name) ∨ r = ⟨m.next, name, toks, preds, false⟩ := by
        intro r hr; rw [hrl] at hr; simpa using hr
      constructor
      · intro r hr
        rcases hmem r hr with h | rfl
        · exact hi.nonstatic r (hsub r h).1
        · rfl
      · intro r hr
        rw [hroutes]
        rcases hmem r hr with h | rfl
        · exact keptNamed r h
        · exact lookup_setKey_same name m.next m.routes
      · intro r hr n hn
        rw [hroutes] at hn
        rcases hmem r hr with h | rfl
        · exact keptOwner r h n hn
        · by_cases e : n = name
          · exact e
          · rw [lookup_setKey_other name n m.next e] at hn
            have := hi.freshRoutes n m.next hn
            omega
      · rw [hrl, List.pairwise_append]
        refine ⟨hdist, by simp, ?_⟩
        intro a ha b hb
        simp only [List.mem_singleton] at hb
        subst hb
        exact (hsub a ha).2
      · intro r hr
        rw [hnext]
        rcases hmem r hr with h | rfl
        · have := hi.freshList r (hsub r h).1; omega
        · simp
      · intro n id hn; rw [hroutes] at hn; rw [hnext]; exact freshR n id hn

theorem inv_runDecls : ∀ (ds : List Decl) (m : Mapper), Inv m → Inv (runDecls m ds)
  | [], _, h => h
  | d :: ds, m, h => inv_runDecls ds _ (inv_connect m h d.name d.compiled d.preds d.static)

/-- the routes a declaration list should leave in `routelist` when all names differ: the non-static declarations
whose pattern compiled, in declaration order, numbered by their position -/
def declRoutes : List Decl → Nat → List Route
  | [], _ => []
  | d :: ds, i =>
    match d.compiled with
    | .ok toks => if d.static then declRoutes ds (i + 1) else ⟨i, d.name, toks, d.preds, false⟩ :: declRoutes ds (i + 1)
    | .error _ => declRoutes ds (i + 1)

theorem connect_next (m : Mapper) (name : Text) (c : Except CErr (List Tok)) (preds : List Pred) (st : Bool) :
    (connect m name c preds st).1.next = m.next + 1 := by
  cases c <;> simp [connect]

theorem runDecls_fresh_names : ∀ (ds : List Decl) (m : Mapper), Inv m →
    (∀ r ∈ m.routelist, ∀ d ∈ ds, r.name ≠ d.name) → (ds.Pairwise fun a b => a.name ≠ b.name) →
    (runDecls m ds).routelist = m.routelist ++ declRoutes ds m.next
  | [], m, _, _, _ => by simp [runDecls, declRoutes]
  | d :: ds, m, hi, hfresh, hpw => by
    have hkeep : m.routelist.filter (fun r => r.name != d.name) = m.routelist := by
      rw [List.filter_eq_self]
      intro r hr
      simpa using hfresh r hr d (List.mem_cons_self ..)
    obtain ⟨hd, hpw'⟩ := List.pairwise_cons.mp hpw
    have hi' := inv_connect m hi d.name d.compiled d.preds d.static
    simp only [runDecls]
    have hnext := connect_next m d.name d.compiled d.preds d.static
    cases hc : d.compiled with
    | error err =>
      have hrl : (connect m d.name (.error err) d.preds d.static).1.routelist = m.routelist := by
        rw [connect_routelist_error m hi, hkeep]
      rw [hc] at hi' hnext
      rw [runDecls_fresh_names ds _ hi' (by rw [hrl]; intro r hr d' hd'; exact hfresh r hr d' (List.mem_cons_of_mem _ hd')) hpw',
        hrl, hnext]
      simp [declRoutes, hc]
    | ok toks =>
      rw [hc] at hi' hnext
      cases hs : d.static with
      | true =>
        have hrl : (connect m d.name (.ok toks) d.preds true).1.routelist = m.routelist := by
          rw [connect_routelist_static m hi, hkeep]
        rw [hs] at hi' hnext
        rw [runDecls_fresh_names ds _ hi' (by rw [hrl]; intro r hr d' hd'; exact hfresh r hr d' (List.mem_cons_of_mem _ hd')) hpw',
          hrl, hnext]
        simp [declRoutes, hc, hs]
      | false =>
        have hrl : (connect m d.name (.ok toks) d.preds false).1.routelist = m.routelist ++ [⟨m.next, d.name, toks, d.preds, false⟩] := by
          rw [connect_routelist m hi, hkeep]
        rw [hs] at hi' hnext
        rw [runDecls_fresh_names ds _ hi' (by
          rw [hrl]; intro r hr d' hd'
          rcases List.mem_append.mp hr with h | h
          · exact hfresh r h d' (List.mem_cons_of_mem _ hd')
          · simp only [List.mem_singleton] at h; subst h; exact hd d' hd') hpw', hrl, hnext]
        simp [declRoutes, hc, hs]

end Pyr.Route
