import PyramidModel.ExcView
import PyramidModel.ViewLookupSpec
/-!
C14 — the declarative reading of "an exception is rendered by the most specific exception view", written on
C03's declarative vocabulary (`candidates`, `expectedView`) and independently of the registry / `hide_attrs` /
`_call_view` machinery of `ExcView.lean`.  Definitions only (core Lean), so that the driver can print it.

* the exception to be rendered is the one the handler raised: the one raised at an early site, or — when the request
  reaches view lookup — `HTTPNotFound` / `PredicateMismatch` / `HTTPForbidden` / whatever the chosen view raises, the
  chosen view being C03's `expectedView`;
* the exception views that compete are C03's `candidates` under the exception classifier, for the request-interface
  order of `request_iface.combined` (route-bound before global) and the exception's own resolution order (nearest
  class first); the first one whose predicates all hold answers, and it sees the exception as context,
  `request.exception` and `request.exc_info`; afterwards these two attributes are that exception;
* no exception view applies ⇒ the very same exception propagates and every attribute reads as before.
-/
namespace Pyr.ExcView
open Pyr.ViewLookup

instance : DecidableEq (Except Exc Resp) := fun a b =>
  match a, b with
  | .ok x, .ok y => if h : x = y then isTrue (by rw [h]) else isFalse (by intro e; cases e; exact h rfl)
  | .error x, .error y => if h : x = y then isTrue (by rw [h]) else isFalse (by intro e; cases e; exact h rfl)
  | .ok _, .error _ => isFalse (by intro e; cases e)
  | .error _, .ok _ => isFalse (by intro e; cases e)

structure SpecResult where
  outcome : Except Exc Resp
  seen : Option Seen
  /-- how every request attribute reads afterwards -/
  attr : String → Option Nat

/-- what the handler under the excview tween does, read off C03's spec -/
def specHandler (w : World) (stmts : List Stmt) (site : Site) (r : Request) (ctxObj : Nat) : Except Exc Resp :=
  match site with
  | .early e => .error e
  | .lookup =>
    match expectedView (allRegs w.sec stmts) clsView r with
    | .response t =>
      match bodyOf stmts t with
      | .respond => .ok (.view t)
      | .returnContext => .ok (.self ctxObj none)
      | .raise e => .error e
    | .forbidden _ => .error w.forbidden
    | .mismatch => .error w.mismatch
    | .none => .error w.notFound

/-- the attributes after an exception view answered for `e` -/
def attrsAfterAnswer (d : Dict) (e : Exc) (k : String) : Option Nat :=
  if k = "exception" ∨ k = "exc_info" then some e.id else dget d k

/-- what an exception view must see -/
def seenOf (e : Exc) (k : ViewKind) : Seen := ⟨e.id, some e.id, some e.id, none, if k.receivesContext then some e.id else none⟩

/-- the exception views competing for `e`, most specific first, and the first that qualifies -/
def excWinner (w : World) (stmts : List Stmt) (r : Request) (e : Exc) (combinedSro : List Nat) : Option DView :=
  (candidates (allRegs w.sec stmts) clsExc (excRequest r e combinedSro)).find? (·.holds (excRequest r e combinedSro))

/-- rendering of exception `e` -/
def specRender (w : World) (stmts : List Stmt) (r : Request) (e : Exc) (combinedSro : List Nat) (d : Dict) : SpecResult :=
  match excWinner w stmts r e combinedSro with
  | none => ⟨.error e, none, dget d⟩
  | some v =>
    if v.secured && !r.permitted then
      -- as built (finding F-C14a): the refusal leaves the tween as a new HTTPForbidden
      ⟨.error w.excForbidden, none, dget d⟩
    else
      match bodyOf stmts v.tag with
      | .respond => ⟨.ok (.view v.tag), some (seenOf e (kindOf stmts v.tag)), attrsAfterAnswer d e⟩
      | .returnContext => ⟨.ok (.self e.id e.status), some (seenOf e (kindOf stmts v.tag)), attrsAfterAnswer d e⟩
      | .raise e2 => ⟨.error (if e2.isNotFound then e else e2.again), some (seenOf e (kindOf stmts v.tag)), dget d⟩

def expected (w : World) (stmts : List Stmt) (site : Site) (r : Request) (combinedSro : List Nat) (ctxObj : Nat)
    (d : Dict) : SpecResult :=
  match specHandler w stmts site r ctxObj with
  | .ok resp => ⟨.ok resp, none, dget d⟩
  | .error e => specRender w stmts r e combinedSro d

/-! ### `invoke_exception_view` with all its arguments, the sites above the tween, the execution policy -/

/-- declarative reading of the core of `invoke_exception_view` for exception `e` and the (already `secure`-adjusted)
original request record `r1`; `prior` = how the request's attributes read before the call -/
def specCore (w : World) (stmts : List Stmt) (r1 : Request) (e : Exc) (combinedSro : List Nat) (reraise : Bool)
    (prior : String → Option Nat) : SpecResult :=
  let after : String → Option Nat := fun k => if k = "exception" ∨ k = "exc_info" then some e.id else prior k
  match excWinner w stmts r1 e combinedSro with
  | none =>
    ⟨.error (if reraise then e
             else if anyRegistered (allRegs w.sec stmts) clsExc (excRequest r1 e combinedSro) then w.excMismatch
             else w.excNotFound), none, prior⟩
  | some v =>
    if v.secured && !r1.permitted then ⟨.error (if reraise then e else w.excForbidden), none, prior⟩
    else
      match bodyOf stmts v.tag with
      | .respond => ⟨.ok (.view v.tag), some (seenOf e (kindOf stmts v.tag)), after⟩
      | .returnContext => ⟨.ok (.self e.id e.status), some (seenOf e (kindOf stmts v.tag)), after⟩
      | .raise e2 => ⟨.error (if reraise then e else e2.again), some (seenOf e (kindOf stmts v.tag)), prior⟩

/-- `exc_info` not given ⇒ the exception being handled where the call is made -/
def effectiveExc (args : InvokeArgs) (current : Exc) : Exc :=
  match args.excInfo with
  | some x => x
  | none => current

/-- `secure=False` ⇒ as if the policy granted -/
def effectiveRequest (args : InvokeArgs) (r : Request) : Request :=
  if args.secure then r else { r with permitted := true }

def specInvoke (w : World) (stmts : List Stmt) (r : Request) (combinedSro : List Nat) (args : InvokeArgs) (current : Exc)
    (prior : String → Option Nat) : SpecResult :=
  specCore w stmts (effectiveRequest args r) (effectiveExc args current) combinedSro args.reraise prior

/-- `invoke_request`: a site above the tween that raises before the tween runs ⇒ that exception, nothing else happened;
one that raises after a response left the tween ⇒ that exception, everything else as the tween left it -/
def specInvokeRequest (w : World) (stmts : List Stmt) (above : Above) (site : Site) (r : Request) (combinedSro : List Nat)
    (ctxObj : Nat) (d : Dict) : SpecResult :=
  match above.before with
  | some e => ⟨.error e, none, dget d⟩
  | none =>
    let sp := expected w stmts site r combinedSro ctxObj d
    match sp.outcome, above.after with
    | .ok _, some e => { sp with outcome := .error e }
    | _, _ => sp

def specPolicy (p : Policy) (w : World) (stmts : List Stmt) (above : Above) (site : Site) (r : Request)
    (combinedSro : List Nat) (ctxObj : Nat) (d : Dict) : SpecResult :=
  let sp := specInvokeRequest w stmts above site r combinedSro ctxObj d
  match p, sp.outcome with
  | .invoking args, .error x => specInvoke w stmts { r with lineage := [] } combinedSro args x sp.attr
  | _, _ => sp

/-- tags identify statements -/
def tagsUniqueB (stmts : List Stmt) : Bool := (stmts.map (·.tag)).Nodup

/-- `exception_only=True` requires an exception context (otherwise `add_view` raises `ConfigurationError`) -/
def stmtsOkB (stmts : List Stmt) : Bool := stmts.all fun s => !s.exceptionOnly || s.isExc

end Pyr.ExcView
