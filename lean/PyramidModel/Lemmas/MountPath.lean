/-
X07 — helper lemmas, part 4: the new PATH_INFO (what it denotes, how it reads back), the outcome of `rewrite` unfolded,
decoding of whole lists, the subpath traversal / a route derives is a raw tail when no dot segment is involved.
-/
import PyramidModel.Lemmas.MountProps

namespace Pyr.Mount

open Pyr.Trav (splitOn joinWith splitPathInfo)

/-! ### the outcome of `rewrite` unfolded -/

theorem workLoop_subset (sub : List Text) : ∀ (rv tmp rest : List Text), workLoop sub rv tmp = .ok rest → ∀ s ∈ rest, s ∈ rv := by
  intro rv
  induction rv with
  | nil => intro tmp rest h; simp [workLoop] at h; subst h; simp
  | cons el r ih =>
    intro tmp rest h s hs
    simp only [workLoop] at h
    split at h
    · injection h with h; subst h; exact hs
    · split at h
      · exact List.mem_cons_of_mem _ (ih tmp rest h s hs)
      · split at h
        · cases h
        · exact List.mem_cons_of_mem _ (ih _ rest h s hs)

theorem workLoop_suffix (sub : List Text) : ∀ (rv tmp rest : List Text), workLoop sub rv tmp = .ok rest → rest <:+ rv := by
  intro rv
  induction rv with
  | nil => intro tmp rest h; simp [workLoop] at h; subst h; exact List.suffix_refl _
  | cons el r ih =>
    intro tmp rest h
    simp only [workLoop] at h
    split at h
    · injection h with h; subst h; exact List.suffix_refl _
    · split at h
      · exact (ih tmp rest h).trans (List.suffix_cons _ _)
      · split at h
        · cases h
        · exact (ih _ rest h).trans (List.suffix_cons _ _)

/-- every successful rewrite sets both keys; the new SCRIPT_NAME is the join of what the loop left -/
theorem rewrite_ok (e e' : Env) (sub : List Text) (h : rewrite e sub = .ok e') :
    ∃ rest, workLoop sub (splitOn '/' (e.sn ++ e.pi)).reverse [] = .ok rest ∧
      e' = { scriptName := some (joinWorkback rest), pathInfo := some (newPathInfo e.pi sub) } := by
  unfold rewrite newScriptName at h
  cases hw : workLoop sub (splitOn '/' (e.sn ++ e.pi)).reverse [] with
  | error err => simp [hw] at h
  | ok rest =>
    simp only [hw, Except.ok.injEq] at h
    exact ⟨rest, rfl, h.symm⟩

theorem rewrite_of_loop (e : Env) (sub rest : List Text)
    (h : workLoop sub (splitOn '/' (e.sn ++ e.pi)).reverse [] = .ok rest) :
    rewrite e sub = .ok { scriptName := some (joinWorkback rest), pathInfo := some (newPathInfo e.pi sub) } := by
  simp [rewrite, newScriptName, h]

/-! ### the new PATH_INFO -/

theorem wsgiOf_joinWith (l : List Text) : wsgiOf (joinWith '/' l) = joinWith '/' (l.map wsgiOf) := by
  induction l with
  | nil => rfl
  | cons x xs ih =>
    cases xs with
    | nil => rfl
    | cons y ys =>
      simp only [joinWith_cons_cons, List.map_cons] at ih ⊢
      rw [wsgiOf_append, wsgiOf_cons '/', wsgiOf_slash, ih]; rfl

/-- the text whose WSGI writing is the new PATH_INFO -/
def textPathInfo (pathInfo : Text) (subpath : List Text) : Text :=
  let base := '/' :: joinWith '/' subpath
  if base ≠ ['/'] ∧ pathInfo ≠ ['/'] ∧ endsWithSlash pathInfo = true then base ++ ['/'] else base

theorem newPathInfo_eq_wsgiOf (pi : Text) (sub : List Text) : newPathInfo pi sub = wsgiOf (textPathInfo pi sub) := by
  have hb : basePathInfo sub = wsgiOf ('/' :: joinWith '/' sub) := by
    rw [wsgiOf_cons, wsgiOf_slash, wsgiOf_joinWith]; rfl
  have hc : (basePathInfo sub ≠ ['/']) ↔ ('/' :: joinWith '/' sub ≠ ['/']) := by
    rw [hb]
    constructor
    · intro h h2; rw [h2] at h; exact h wsgiOf_slash
    · intro h h2; exact h (wsgiOf_injective (h2.trans wsgiOf_slash.symm))
  unfold newPathInfo textPathInfo
  simp only []
  by_cases h1 : basePathInfo sub ≠ ['/'] ∧ pi ≠ ['/'] ∧ endsWithSlash pi = true
  · have h2 : ('/' :: joinWith '/' sub ≠ ['/']) ∧ pi ≠ ['/'] ∧ endsWithSlash pi = true := ⟨hc.mp h1.1, h1.2⟩
    rw [if_pos h1, if_pos h2, wsgiOf_append, ← hb]; rfl
  · have h2 : ¬ (('/' :: joinWith '/' sub ≠ ['/']) ∧ pi ≠ ['/'] ∧ endsWithSlash pi = true) := fun h => h1 ⟨hc.mpr h.1, h.2⟩
    rw [if_neg h1, if_neg h2, hb]

theorem newPathInfo_cases (pi : Text) (sub : List Text) :
    newPathInfo pi sub = basePathInfo sub ∨ newPathInfo pi sub = basePathInfo sub ++ ['/'] := by
  unfold newPathInfo
  simp only []
  split
  · right; rfl
  · left; rfl

/-- the segments of `something ++ new PATH_INFO` -/
theorem segs_newPathInfo (pi s : Text) (sub : List Text) (h : ∀ x ∈ sub.map wsgiOf, x ≠ [] ∧ '/' ∉ x) :
    segs (s ++ newPathInfo pi sub) = segs s ++ sub.map wsgiOf := by
  rcases newPathInfo_cases pi sub with h1 | h1 <;> rw [h1]
  · show segs (s ++ '/' :: joinWith '/' (sub.map wsgiOf)) = _
    rw [segs_append_slash, segs_join _ h]
  · have : s ++ (basePathInfo sub ++ ['/']) = s ++ '/' :: (joinWith '/' (sub.map wsgiOf) ++ '/' :: []) := by simp [basePathInfo]
    rw [this, segs_append_slash, segs_append_slash, segs_join _ h, segs_nil, List.append_nil]

/-- the new PATH_INFO, decoded and normalised by `split_path_info`, is the subpath -/
theorem splitPathInfo_textPathInfo (pi : Text) (sub : List Text) (h : ∀ x ∈ sub, Trav.Clean x ∧ '/' ∉ x) :
    splitPathInfo (textPathInfo pi sub) = sub := by
  have hs : Trav.normSegs (splitOn '/' ('/' :: joinWith '/' sub)) = sub := by
    rw [Trav.splitOn_cons_sep]
    have := Trav.normSegs_replicate_nil_append 1 (splitOn '/' (joinWith '/' sub))
    simp only [List.replicate_one, List.singleton_append] at this
    rw [this]
    cases sub with
    | nil => decide
    | cons x xs =>
      rw [Trav.splitOn_joinWith '/' (x :: xs) (by simp) (fun s hs => (h s hs).2)]
      exact Trav.normSegs_of_clean _ (fun s hs => (h s hs).1)
  rw [Trav.splitPathInfo_eq]
  unfold textPathInfo
  simp only []
  split
  · have : ('/' :: joinWith '/' sub) ++ ['/'] = ('/' :: joinWith '/' sub) ++ List.replicate 1 '/' := rfl
    rw [this, Trav.splitOn_append_replicate, Trav.normSegs_append_replicate_nil, hs]
  · exact hs

/-! ### decoding whole lists -/

theorem decList_append_ok (a b x y : List Text) (ha : decList a = .ok x) (hb : decList b = .ok y) :
    decList (a ++ b) = .ok (x ++ y) := by
  induction a generalizing x with
  | nil => simp [decList] at ha; subst ha; simpa using hb
  | cons el r ih =>
    simp only [decList] at ha
    cases hd : decodeEl el with
    | error e => simp [hd] at ha
    | ok t =>
      simp only [hd] at ha
      cases hr : decList r with
      | error e => simp [hr] at ha
      | ok ts =>
        simp only [hr, Except.ok.injEq] at ha
        subst ha
        simp [decList, hd, ih ts hr]

theorem decList_append_inv (a b z : List Text) (h : decList (a ++ b) = .ok z) :
    ∃ x y, decList a = .ok x ∧ decList b = .ok y ∧ z = x ++ y := by
  induction a generalizing z with
  | nil => exact ⟨[], z, rfl, by simpa using h, rfl⟩
  | cons el r ih =>
    simp only [List.cons_append, decList] at h
    cases hd : decodeEl el with
    | error e => simp [hd] at h
    | ok t =>
      simp only [hd] at h
      cases hr : decList (r ++ b) with
      | error e => simp [hr] at h
      | ok ts =>
        simp only [hr, Except.ok.injEq] at h
        obtain ⟨x, y, hx, hy, hz⟩ := ih ts hr
        exact ⟨t :: x, y, by simp [decList, hd, hx], hy, by rw [← h, hz]; rfl⟩

theorem decList_reverse (l ds : List Text) (h : decList l = .ok ds) : decList l.reverse = .ok ds.reverse := by
  induction l generalizing ds with
  | nil => simp [decList] at h; subst h; rfl
  | cons el r ih =>
    obtain ⟨x, y, hx, hy, hz⟩ := decList_append_inv [el] r ds (by simpa using h)
    rw [List.reverse_cons, hz, List.reverse_append]
    exact decList_append_ok _ _ _ _ (ih y hy) (by
      simp only [decList] at hx ⊢
      cases hd : decodeEl el with
      | error e => simp [hd] at hx
      | ok t => simp only [hd, Except.ok.injEq] at hx ⊢; subst hx; rfl)

/-! ### what traversal / a route derives is a raw tail when no dot segment is involved -/

/-- a path text without '.' and '..' segments -/
def DotFree (t : Text) : Prop := ∀ s ∈ splitOn '/' t, s = [] ∨ Trav.Clean s

instance (t : Text) : Decidable (DotFree t) := by unfold DotFree; infer_instance

theorem foldl_normStep_dotfree (l st : List Text) (h : ∀ s ∈ l, s = [] ∨ Trav.Clean s) :
    l.foldl Trav.normStep st = (nonEmpty l).reverse ++ st := by
  induction l generalizing st with
  | nil => rfl
  | cons x xs ih =>
    rcases h x (by simp) with h0 | hc
    · subst h0
      rw [List.foldl_cons, Trav.normStep_skip st [] (.inl rfl), nonEmpty_cons_empty]
      exact ih st (fun s hs => h s (by simp [hs]))
    · rw [List.foldl_cons, Trav.normStep_clean st x hc, nonEmpty_cons_ne x xs hc.1, ih _ (fun s hs => h s (by simp [hs]))]
      simp

/-- without dot segments `split_path_info` just drops the empty segments -/
theorem splitPathInfo_dotfree (t : Text) (h : DotFree t) : splitPathInfo t = nonEmpty (splitOn '/' t) := by
  rw [Trav.splitPathInfo_eq, Trav.normSegs, foldl_normStep_dotfree _ _ h]
  simp

theorem nonEmpty_map_wsgiOf (l : List Text) : nonEmpty (l.map wsgiOf) = (nonEmpty l).map wsgiOf := by
  induction l with
  | nil => rfl
  | cons x xs ih =>
    by_cases hx : x = []
    · subst hx; simp only [List.map_cons, wsgiOf_nil, nonEmpty_cons_empty]; exact ih
    · have : wsgiOf x ≠ [] := fun h => hx (wsgiOf_eq_nil.mp h)
      simp only [List.map_cons, nonEmpty_cons_ne _ _ this, nonEmpty_cons_ne _ _ hx, ih]

theorem segs_wsgiOf (t : Text) : segs (wsgiOf t) = (segs t).map wsgiOf := by
  rw [segs, splitOn_wsgiOf, nonEmpty_map_wsgiOf]; rfl

end Pyr.Mount
