import PyramidModel.Lemmas.CacheRun
/-!
C15 helper lemmas: (1) an unpre-empted lookup terminates; (2) the *two-epoch* invariant: after a whole
registration was injected atomically, every lookup that still holds the previous dict has computed a list of
the form `scan before (take j) ++ scan after (drop j)`, and only such lists can be in the previous dict.
-/
namespace Pyr.Cache

/-! ### progress of a lookup that is not pre-empted -/

def fuelOf (cfg : Cfg) (t : Thread) : Nat :=
  match t.pc with
  | .start => (cfg.slots t.q).length + 5
  | .probe _ => (cfg.slots t.q).length + 4
  | .scan _ i _ => ((cfg.slots t.q).length - i) + 3
  | .holding _ _ => 2
  | .written _ _ => 1
  | .done _ _ => 0

def inCrit : PC → Bool
  | .holding _ _ => true
  | .written _ _ => true
  | _ => false

theorem getElem?_setPc_self (s : St) (tid : Nat) (q : Query) (pc : PC) (h : tid < s.threads.length) :
    (setPc s tid q pc).threads[tid]? = some ⟨q, pc⟩ := by
  simp only [setPc]
  rw [List.getElem?_set_self h]

/-- one step of thread `tid`, while the lock is free whenever `tid` is outside the critical section,
strictly decreases its remaining fuel -/
theorem solo_step (cfg : Cfg) (s : St) (tid : Nat) (t : Thread) (hget : s.threads[tid]? = some t)
    (hl : inCrit t.pc = false → s.lock = none) (hpos : 0 < fuelOf cfg t) :
    ∃ t', (stepThread Proto.good cfg s tid).threads[tid]? = some t' ∧ fuelOf cfg t' < fuelOf cfg t ∧
      (inCrit t'.pc = false → (stepThread Proto.good cfg s tid).lock = none) ∧ t'.q = t.q := by
  have hlt : tid < s.threads.length := by
    rcases List.getElem?_eq_some_iff.mp hget with ⟨h, _⟩; exact h
  unfold stepThread
  simp only [hget]
  cases hpc : t.pc with
  | start =>
    simp only
    refine ⟨_, getElem?_setPc_self s tid t.q _ hlt, by simp [fuelOf, hpc], ?_, rfl⟩
    intro _; simp only [setPc]; exact hl (by rw [hpc]; rfl)
  | probe c =>
    simp only
    cases (s.heap c).get (cfg.ck t.q) with
    | some v =>
      simp only
      refine ⟨_, getElem?_setPc_self s tid t.q _ hlt, by simp [fuelOf, hpc], ?_, rfl⟩
      intro _; simp only [setPc]; exact hl (by rw [hpc]; rfl)
    | none =>
      simp only
      refine ⟨_, getElem?_setPc_self s tid t.q _ hlt, by simp [fuelOf, hpc], ?_, rfl⟩
      intro _; simp only [setPc]; exact hl (by rw [hpc]; rfl)
  | scan c i acc =>
    simp only
    have hfree : s.lock = none := hl (by rw [hpc]; rfl)
    cases hsl : (cfg.slots t.q)[i]? with
    | some sl =>
      simp only
      have hi : i < (cfg.slots t.q).length := by
        rcases List.getElem?_eq_some_iff.mp hsl with ⟨h, _⟩; exact h
      refine ⟨_, getElem?_setPc_self s tid t.q _ hlt, by simp only [fuelOf, hpc]; omega, ?_, rfl⟩
      intro _; simp only [setPc]; exact hfree
    | none =>
      simp only [Proto.good, Bool.not_false, Bool.and_true]
      by_cases he : acc.isEmpty = true
      · simp only [he, if_true]
        refine ⟨_, getElem?_setPc_self s tid t.q _ hlt, by simp only [fuelOf, hpc]; omega, ?_, rfl⟩
        intro _; simp only [setPc]; exact hfree
      · simp only [he, hfree, Option.isNone_none, if_true]
        refine ⟨_, getElem?_setPc_self { s with lock := some tid } tid t.q _ hlt, by simp only [fuelOf, hpc]; omega, ?_, rfl⟩
        intro h; simp [inCrit] at h
  | holding c acc =>
    simp only
    refine ⟨_, getElem?_setPc_self _ tid t.q _ hlt, by simp [fuelOf, hpc], ?_, rfl⟩
    intro h; simp [inCrit] at h
  | written c acc =>
    simp only
    refine ⟨_, getElem?_setPc_self { s with lock := none } tid t.q _ hlt, by simp [fuelOf, hpc], ?_, rfl⟩
    intro _; simp [setPc]
  | done c v =>
    simp [fuelOf, hpc] at hpos

theorem stepThread_done (P : Proto) (cfg : Cfg) (s : St) (tid : Nat) (t : Thread) (hget : s.threads[tid]? = some t)
    (h0 : fuelOf cfg t = 0) : stepThread P cfg s tid = s := by
  unfold stepThread
  simp only [hget]
  cases hpc : t.pc <;> simp [fuelOf, hpc] at h0 ⊢

/-- enough unpre-empted steps finish the lookup -/
theorem solo_run (cfg : Cfg) (tid : Nat) :
    ∀ (n : Nat) (s : St) (t : Thread), s.threads[tid]? = some t → (inCrit t.pc = false → s.lock = none) →
      fuelOf cfg t ≤ n →
      ∃ t', (run Proto.good cfg s (List.replicate n (.thread tid))).threads[tid]? = some t' ∧ fuelOf cfg t' = 0 ∧
        t'.q = t.q := by
  intro n
  induction n with
  | zero => intro s t hget _ hf; exact ⟨t, by simpa [run] using hget, by omega, rfl⟩
  | succ n ih =>
    intro s t hget hl hf
    simp only [List.replicate_succ, run, List.foldl_cons, step]
    by_cases h0 : fuelOf cfg t = 0
    · rw [stepThread_done Proto.good cfg s tid t hget h0]
      exact ih s t hget hl (by omega)
    · obtain ⟨t', ht', hlt, hl', hq⟩ := solo_step cfg s tid t hget hl (by omega)
      obtain ⟨t'', h1, h2, h3⟩ := ih _ t' ht' hl' (by omega)
      exact ⟨t'', h1, h2, by rw [h3, hq]⟩

theorem done_of_fuel_zero (cfg : Cfg) (t : Thread) (h : fuelOf cfg t = 0) : ∃ c v, t.pc = .done c v := by
  cases hpc : t.pc <;> simp [fuelOf, hpc] at h
  exact ⟨_, _, rfl⟩

/-- a lookup whose scan of the current registrations is empty never writes into the current dict -/
theorem miss_step_keeps_current {cfg : Cfg} {s : St} (h : Inv cfg s) (hb : s.busy = false) (tid : Nat) (t : Thread)
    (hget : s.threads[tid]? = some t) (hmiss : scan s.regs (cfg.slots t.q) = []) :
    (stepThread Proto.good cfg s tid).heap s.cur = s.heap s.cur := by
  have htm : t ∈ s.threads := List.mem_of_getElem? hget
  unfold stepThread
  simp only [hget]
  cases hpc : t.pc with
  | start => simp [setPc]
  | probe c => simp only; cases (s.heap c).get (cfg.ck t.q) <;> simp [setPc]
  | scan c i acc =>
    simp only
    cases (cfg.slots t.q)[i]? with
    | some sl => simp [setPc]
    | none =>
      simp only
      split
      · simp [setPc]
      · split <;> simp [setPc]
  | holding c acc =>
    simp only [Proto.good, if_true, setPc, updHeap]
    by_cases hc : s.cur = c
    · exfalso
      have hp := h.pcOk hb t htm (by rw [hpc]; simp [PC.ref?, hc])
      simp only [PcOk, hpc] at hp
      have hn := h.holdOk t htm
      simp only [HoldOk, hpc] at hn
      exact hn (by rw [hp, hmiss])
    · simp [hc]
  | written c acc => simp [setPc]
  | done c v => simp

/-! ### the two-epoch invariant -/

/-- `v` is a scan that saw registrations `r0` on a prefix of the slots and `r1` on the rest -/
def Mix (r0 r1 : Regs) (sl : List Slot) (v : List View) : Prop :=
  ∃ j, v = scan r0 (sl.take j) ++ scan r1 (sl.drop j)

def MixOk (cfg : Cfg) (r0 r1 : Regs) (t : Thread) : Prop :=
  match t.pc with
  | .scan _ i acc => ∃ j, j ≤ i ∧ acc = scan r0 ((cfg.slots t.q).take j) ++ scan r1 (((cfg.slots t.q).take i).drop j)
  | .holding _ acc => Mix r0 r1 (cfg.slots t.q) acc
  | .written _ acc => Mix r0 r1 (cfg.slots t.q) acc
  | .done _ acc => Mix r0 r1 (cfg.slots t.q) acc
  | _ => True

structure Inv2 (cfg : Cfg) (r0 r1 : Regs) (c0 : Nat) (s : St) : Prop where
  regs : s.regs = r1
  thr : ∀ t ∈ s.threads, t.pc.ref? = some c0 → MixOk cfg r0 r1 t
  dict : ∀ q v, (s.heap c0).get (cfg.ck q) = some v → Mix r0 r1 (cfg.slots q) v

theorem mix_of_before (r0 r1 : Regs) (sl : List Slot) : Mix r0 r1 sl (scan r0 sl) :=
  ⟨sl.length, by simp [scan]⟩

theorem inv2_setPc {cfg : Cfg} {r0 r1 : Regs} {c0 : Nat} {s : St} (h : Inv2 cfg r0 r1 c0 s) (tid : Nat) (q : Query)
    (pc : PC) (hok : pc.ref? = some c0 → MixOk cfg r0 r1 ⟨q, pc⟩) : Inv2 cfg r0 r1 c0 (setPc s tid q pc) where
  regs := h.regs
  thr := by
    intro t ht hr
    rcases mem_setPc ht with h1 | h1
    · exact h.thr t h1 hr
    · subst h1; exact hok hr
  dict := h.dict

theorem inv2_lock {cfg : Cfg} {r0 r1 : Regs} {c0 : Nat} {s : St} (h : Inv2 cfg r0 r1 c0 s) (l : Option Nat) :
    Inv2 cfg r0 r1 c0 { s with lock := l } := ⟨h.regs, h.thr, h.dict⟩

theorem inv2_stepThread {cfg : Cfg} (hkf : cfg.KeyFaithful) {r0 r1 : Regs} {c0 : Nat} {s : St}
    (h : Inv2 cfg r0 r1 c0 s) (tid : Nat) : Inv2 cfg r0 r1 c0 (stepThread Proto.good cfg s tid) := by
  unfold stepThread
  cases hget : s.threads[tid]? with
  | none => exact h
  | some t =>
    have htm : t ∈ s.threads := List.mem_of_getElem? hget
    simp only
    cases hpc : t.pc with
    | start => simp only; exact inv2_setPc h tid t.q _ (by intro _; simp [MixOk])
    | probe c =>
      simp only
      cases hg : (s.heap c).get (cfg.ck t.q) with
      | some v =>
        simp only
        refine inv2_setPc h tid t.q _ ?_
        intro hr
        simp only [PC.ref?, Option.some.injEq] at hr
        subst hr
        simp only [MixOk]
        exact h.dict t.q v hg
      | none =>
        simp only
        refine inv2_setPc h tid t.q _ ?_
        intro _
        exact ⟨0, Nat.le_refl _, by simp [scan]⟩
    | scan c i acc =>
      simp only
      cases hsl : (cfg.slots t.q)[i]? with
      | some sl =>
        simp only
        refine inv2_setPc h tid t.q _ ?_
        intro hr
        simp only [PC.ref?, Option.some.injEq] at hr
        have hp := h.thr t htm (by rw [hpc]; simp only [PC.ref?]; rw [hr])
        simp only [MixOk, hpc] at hp
        obtain ⟨j, hj, hacc⟩ := hp
        have hi : i < (cfg.slots t.q).length := by
          rcases List.getElem?_eq_some_iff.mp hsl with ⟨h, _⟩; exact h
        have hlen : ((cfg.slots t.q).take i).length = i := by
          rw [List.length_take]; omega
        refine ⟨j, by omega, ?_⟩
        rw [take_succ_of_get _ _ _ hsl, List.drop_append_of_le_length (by omega), scan_append, scan_single, hacc,
          h.regs, List.append_assoc]
      | none =>
        simp only [Proto.good, Bool.not_false, Bool.and_true]
        have hfull : (cfg.slots t.q).take i = cfg.slots t.q := take_of_get_none _ _ hsl
        have hmix : t.pc.ref? = some c0 → Mix r0 r1 (cfg.slots t.q) acc := by
          intro hr
          have hp := h.thr t htm hr
          simp only [MixOk, hpc, hfull] at hp
          obtain ⟨j, _, hacc⟩ := hp
          exact ⟨j, hacc⟩
        by_cases he : acc.isEmpty = true
        · simp only [he, if_true]
          refine inv2_setPc h tid t.q _ ?_
          intro hr
          exact hmix (by rw [hpc]; exact hr)
        · simp only [he]
          by_cases hl : s.lock.isNone = true
          · simp only [hl, if_true]
            refine inv2_setPc (inv2_lock h _) tid t.q _ ?_
            intro hr
            exact hmix (by rw [hpc]; exact hr)
          · simp only [hl]
            exact h
    | holding c acc =>
      simp only [Proto.good, if_true]
      have hmix : t.pc.ref? = some c0 → Mix r0 r1 (cfg.slots t.q) acc := by
        intro hr
        have hp := h.thr t htm hr
        simpa only [MixOk, hpc] using hp
      have hw : Inv2 cfg r0 r1 c0 { s with heap := updHeap s.heap c ((s.heap c).set (cfg.ck t.q) acc) } := by
        refine ⟨h.regs, h.thr, ?_⟩
        intro q v hg
        simp only [updHeap] at hg
        by_cases hc : c0 = c
        · simp only [hc, if_true] at hg
          rw [Dict.get_set] at hg
          by_cases hk : cfg.ck q = cfg.ck t.q
          · simp only [hk, if_true] at hg
            have hv : acc = v := Option.some.inj hg
            rw [← hv, hkf q t.q hk]
            exact hmix (by rw [hpc]; simp [PC.ref?, hc])
          · simp only [hk, if_false] at hg
            exact h.dict q v (by rw [hc]; exact hg)
        · simp only [hc, if_false] at hg
          exact h.dict q v hg
      refine inv2_setPc hw tid t.q _ ?_
      intro hr
      exact hmix (by rw [hpc]; exact hr)
    | written c acc =>
      simp only
      refine inv2_setPc (inv2_lock h _) tid t.q _ ?_
      intro hr
      have hp := h.thr t htm (by rw [hpc]; exact hr)
      simpa only [MixOk, hpc] using hp
    | done c v => exact h

theorem inv2_step {cfg : Cfg} (hkf : cfg.KeyFaithful) {r0 r1 : Regs} {c0 : Nat} {s : St}
    (h : Inv2 cfg r0 r1 c0 s) (l : Lbl) (hb : s.busy = false) (hl : l.isBegin = false) :
    Inv2 cfg r0 r1 c0 (step Proto.good cfg s l) := by
  cases l with
  | spawn q =>
    simp only [step]
    refine ⟨h.regs, ?_, h.dict⟩
    intro t ht hr
    rcases List.mem_append.mp ht with h1 | h1
    · exact h.thr t h1 hr
    · simp only [List.mem_singleton] at h1; subst h1; simp [PC.ref?] at hr
  | thread tid => exact inv2_stepThread hkf h tid
  | «begin» m => simp [Lbl.isBegin] at hl
  | modify => simp only [step, hb]; exact h
  | finish => simp only [step, hb, Bool.false_and]; exact h

theorem inv2_run {cfg : Cfg} (hkf : cfg.KeyFaithful) {r0 r1 : Regs} {c0 : Nat} (sched : List Lbl) :
    ∀ {s : St}, Inv2 cfg r0 r1 c0 s → s.busy = false → (∀ l ∈ sched, l.isBegin = false) →
      Inv2 cfg r0 r1 c0 (run Proto.good cfg s sched) := by
  induction sched with
  | nil => intro s h _ _; exact h
  | cons l ls ih =>
    intro s h hb hl
    have hl0 := hl l (List.mem_cons_self ..)
    have h1 := step_quiet Proto.good cfg s l hb hl0
    simp only [run, List.foldl_cons]
    exact ih (inv2_step hkf h l hb hl0) h1.2.2 (fun x hx => hl x (List.mem_cons_of_mem _ hx))

/-- the two-epoch invariant holds right after an atomically injected registration -/
theorem inv2_after_atomicReg {cfg : Cfg} {s : St} (h : Inv cfg s) (hb : s.busy = false) (mods : Mods) :
    Inv2 cfg s.regs (applyMods s.regs mods) s.cur (run Proto.good cfg s (atomicReg mods)) := by
  obtain ⟨_, h2, _, h4, _, h6, _⟩ := run_atomicReg cfg s mods hb
  refine ⟨h2, ?_, ?_⟩
  · intro t ht hr
    rw [h4] at ht
    have hp := h.pcOk hb t ht hr
    cases hpc : t.pc with
    | start => simp [MixOk, hpc]
    | probe c => simp [MixOk, hpc]
    | scan c i acc =>
      simp only [PcOk, hpc] at hp
      simp only [MixOk, hpc]
      refine ⟨i, Nat.le_refl _, ?_⟩
      have : ((cfg.slots t.q).take i).drop i = [] := by
        apply List.drop_eq_nil_of_le
        rw [List.length_take]; omega
      rw [this, hp]; simp [scan]
    | holding c acc => simp only [PcOk, hpc] at hp; simp only [MixOk, hpc]; rw [hp]; exact mix_of_before _ _ _
    | written c acc => simp only [PcOk, hpc] at hp; simp only [MixOk, hpc]; rw [hp]; exact mix_of_before _ _ _
    | done c v => simp only [PcOk, hpc] at hp; simp only [MixOk, hpc]; rw [hp]; exact mix_of_before _ _ _
  · intro q v hg
    rw [h6 s.cur (by omega)] at hg
    rw [h.dictOk hb q v hg]
    exact mix_of_before _ _ _

/-! ### when a mixed scan is the scan of one of the two states -/

theorem mem_take_pos {α} (l : List α) (j : Nat) (x : α) (h : x ∈ l.take j) : ∃ i, i < j ∧ l[i]? = some x := by
  obtain ⟨i, hi⟩ := List.mem_iff_getElem?.mp h
  rw [List.getElem?_take] at hi
  by_cases hlt : i < j
  · simp only [hlt, if_true] at hi; exact ⟨i, hlt, hi⟩
  · simp [hlt] at hi

theorem mem_drop_pos {α} (l : List α) (j : Nat) (x : α) (h : x ∈ l.drop j) : ∃ i, j ≤ i ∧ l[i]? = some x := by
  obtain ⟨i, hi⟩ := List.mem_iff_getElem?.mp h
  rw [List.getElem?_drop] at hi
  exact ⟨j + i, by omega, hi⟩

/-- if the two registration states differ at no more than one POSITION of the scan order, a mixed scan is
the scan of one of them -/
theorem mix_linearises (r0 r1 : Regs) (sl : List Slot) (p : Nat)
    (hagree : ∀ i x, sl[i]? = some x → i ≠ p → r0 x = r1 x) (v : List View) (h : Mix r0 r1 sl v) :
    v = scan r0 sl ∨ v = scan r1 sl := by
  obtain ⟨j, hv⟩ := h
  by_cases hj : j ≤ p
  · right
    have : scan r0 (sl.take j) = scan r1 (sl.take j) := by
      apply scan_congr
      intro x hx
      obtain ⟨i, hi, hx'⟩ := mem_take_pos sl j x hx
      exact hagree i x hx' (by omega)
    rw [hv, this, ← scan_append, List.take_append_drop]
  · left
    have : scan r1 (sl.drop j) = scan r0 (sl.drop j) := by
      apply scan_congr
      intro x hx
      obtain ⟨i, hi, hx'⟩ := mem_drop_pos sl j x hx
      exact (hagree i x hx' (by omega)).symm
    rw [hv, this, ← scan_append, List.take_append_drop]

end Pyr.Cache
