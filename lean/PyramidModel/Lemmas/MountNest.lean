/-
X07 — helper lemmas, part 5: the tail hypothesis at the decoded level, and how the trailing-slash rule behaves when the
rewrite is applied to its own output (nested mounting).
-/
import PyramidModel.Lemmas.MountPath

namespace Pyr.Mount

open Pyr.Trav (splitOn joinWith)

/-- the loop stops exactly in front of a stretch of pieces that READ as the subpath (whatever their spelling) -/
theorem workLoop_tail_dec (raw pre els sub : List Text) (h : nonEmpty raw = pre ++ els) (hd : decList els = .ok sub) :
    ∃ rest, workLoop sub raw.reverse [] = .ok rest ∧ nonEmpty rest = pre.reverse ∧ ∀ s ∈ rest, s ∈ raw := by
  have hlen : els.reverse.length = sub.length := by rw [List.length_reverse, decList_length els sub hd]
  refine ⟨(takeNe sub.length raw.reverse).2, ?_, ?_, ?_⟩
  · rw [workLoop_eq_spec, specWorkback, decRev_eq, nonEmpty_takeNe_fst, nonEmpty_reverse, h, List.reverse_append]
    rw [List.take_left' hlen, decList_reverse els sub hd]
    simp
  · rw [nonEmpty_takeNe_snd, nonEmpty_reverse, h, List.reverse_append, List.drop_left' hlen]
  · intro s hs
    have := takeNe_append sub.length raw.reverse
    have : s ∈ raw.reverse := by rw [← this]; exact List.mem_append_right _ hs
    simpa using this

/-! ### the trailing-slash rule on its own output -/

/-- the rule looks at the old PATH_INFO only through this predicate -/
def wantsSlash (pi : Text) : Prop := pi ≠ ['/'] ∧ endsWithSlash pi = true

theorem newPathInfo_congr (pi pi' : Text) (sub : List Text) (h : wantsSlash pi ↔ wantsSlash pi') :
    newPathInfo pi sub = newPathInfo pi' sub := by
  unfold newPathInfo
  simp only []
  by_cases hb : basePathInfo sub ≠ ['/']
  · by_cases hw : wantsSlash pi
    · rw [if_pos ⟨hb, hw⟩, if_pos ⟨hb, h.mp hw⟩]
    · rw [if_neg (fun hc => hw hc.2), if_neg (fun hc => hw (h.mpr hc.2))]
  · rw [if_neg (fun hc => hb hc.1), if_neg (fun hc => hb hc.1)]

theorem getLast?_cons_of_some (a c : Char) (l : List Char) (h : l.getLast? = some c) : (a :: l).getLast? = some c := by
  cases l with
  | nil => simp at h
  | cons b t => rw [List.getLast?_cons_cons]; exact h

theorem exists_concat {α : Type} (l : List α) (h : l ≠ []) : ∃ m x, l = m ++ [x] :=
  ⟨l.dropLast, l.getLast h, (List.dropLast_concat_getLast h).symm⟩

/-- "/" + non-empty slash-free elements joined by "/" neither is "/" nor ends with "/" -/
theorem basePathInfo_last (l : List Text) (hne : l ≠ []) (h : ∀ x ∈ l, x ≠ [] ∧ '/' ∉ x) :
    ∃ c, ('/' :: joinWith '/' l).getLast? = some c ∧ c ≠ '/' ∧ '/' :: joinWith '/' l ≠ ['/'] := by
  obtain ⟨m, x, rfl⟩ := exists_concat l hne
  have hx := h x (by simp)
  obtain ⟨y, c, rfl⟩ := exists_concat x hx.1
  have hj := getLast?_joinWith m y c
  refine ⟨c, getLast?_cons_of_some _ _ _ hj, ?_, ?_⟩
  · intro hc
    exact hx.2 (by rw [hc]; simp)
  · intro hc
    have h1 : joinWith '/' (m ++ [y ++ [c]]) = [] := by injection hc
    rw [h1] at hj
    simp at hj

/-- after a rewrite with a non-empty proper subpath, the new PATH_INFO asks for a trailing slash exactly when the old did -/
theorem wantsSlash_newPathInfo (pi : Text) (sub : List Text) (hne : sub ≠ [])
    (h : ∀ x ∈ sub.map wsgiOf, x ≠ [] ∧ '/' ∉ x) : wantsSlash (newPathInfo pi sub) ↔ wantsSlash pi := by
  obtain ⟨c, hc1, hc2, hc3⟩ := basePathInfo_last (sub.map wsgiOf) (by simpa using hne) h
  have hb : basePathInfo sub ≠ ['/'] := hc3
  unfold newPathInfo
  simp only []
  by_cases hw : wantsSlash pi
  · rw [if_pos ⟨hb, hw⟩]
    simp only [hw, iff_true]
    constructor
    · intro h2
      have := congrArg List.length h2
      simp [basePathInfo] at this
    · simp [endsWithSlash]
  · rw [if_neg (fun hcnd => hw hcnd.2)]
    simp only [hw, iff_false]
    intro h2
    have h3 := h2.2
    unfold endsWithSlash basePathInfo at h3
    rw [hc1] at h3
    simp at h3
    exact hc2 h3

/-! ### the rewrite applied to its own output -/

theorem workLoop_tail_cut (raw pre els sub : List Text) (h : nonEmpty raw = pre ++ els) (hd : decList els = .ok sub) :
    workLoop sub raw.reverse [] = .ok (takeNe sub.length raw.reverse).2 := by
  have hlen : els.reverse.length = sub.length := by rw [List.length_reverse, decList_length els sub hd]
  rw [workLoop_eq_spec, specWorkback, decRev_eq, nonEmpty_takeNe_fst, nonEmpty_reverse, h, List.reverse_append]
  rw [List.take_left' hlen, decList_reverse els sub hd]
  simp

/-- cutting after the k-th non-empty element, when the list starts with a stretch that holds exactly k of them and ends
with one -/
theorem takeNe_exact (c0 r : List Text) (x : Text) (hx : x ≠ []) :
    takeNe (nonEmpty (c0 ++ [x])).length ((c0 ++ [x]) ++ r) = (c0 ++ [x], r) := by
  induction c0 with
  | nil => simp [takeNe, hx, nonEmpty]
  | cons y ys ih =>
    have hk : (nonEmpty (ys ++ [x])).length = (nonEmpty ys).length + 1 := by
      rw [nonEmpty_append, nonEmpty_cons_ne x [] hx]; simp [nonEmpty]
    by_cases hy : y = []
    · subst hy
      simp only [List.cons_append, nonEmpty_cons_empty]
      rw [hk]
      simp only [takeNe, if_true]
      rw [← hk, ih]
    · simp only [List.cons_append, nonEmpty_cons_ne _ _ hy, List.length_cons]
      simp only [takeNe, hy, if_false]
      rw [ih]

theorem rdrop_id {α : Type} (p : α → Bool) (l : List α) (h : ∀ x, l.getLast? = some x → p x = false) : rdrop p l = l := by
  unfold rdrop
  cases hr : l.reverse with
  | nil => simp at hr; subst hr; rfl
  | cons a t =>
    have : l.getLast? = some a := by rw [List.getLast?_eq_head?_reverse, hr]; rfl
    have hp := h a this
    simp only [List.dropWhile_cons, hp, Bool.false_eq_true, if_false]
    rw [← hr, List.reverse_reverse]

theorem rstripSlash_id (s : Text) (h : s.getLast? ≠ some '/') : rstripSlash s = s := by
  apply rdrop_id
  intro x hx
  simp only [decide_eq_false_iff_not]
  intro hc; subst hc; exact h hx

theorem rstripSlash_concat_slash (s : Text) (h : s.getLast? ≠ some '/') : rstripSlash (s ++ ['/']) = s := by
  show rdrop _ (s ++ ['/']) = s
  unfold rdrop
  simp only [List.reverse_append, List.reverse_cons, List.reverse_nil, List.nil_append, List.singleton_append,
    List.dropWhile_cons, decide_true, if_true]
  exact rstripSlash_id s h

theorem newPathInfo_nil (pi : Text) : newPathInfo pi [] = ['/'] := by
  unfold newPathInfo basePathInfo
  simp [joinWith]

/-- the elements of `s ++ new PATH_INFO`: those of `s`, the written subpath, and possibly one empty element -/
theorem splitOn_newPathInfo (pi s : Text) (sub : List Text) (hne : sub ≠ []) (h : ∀ x ∈ sub.map wsgiOf, '/' ∉ x) :
    ∃ tl, splitOn '/' (s ++ newPathInfo pi sub) = splitOn '/' s ++ sub.map wsgiOf ++ tl ∧ (tl = [] ∨ tl = [[]]) := by
  have hl : sub.map wsgiOf ≠ [] := by simpa using hne
  rcases newPathInfo_cases pi sub with h1 | h1 <;> rw [h1]
  · refine ⟨[], ?_, .inl rfl⟩
    show splitOn '/' (s ++ '/' :: joinWith '/' (sub.map wsgiOf)) = _
    rw [Trav.splitOn_append_sep, Trav.splitOn_joinWith '/' _ hl h, List.append_nil]
  · refine ⟨[[]], ?_, .inr rfl⟩
    have : s ++ (basePathInfo sub ++ ['/']) = s ++ '/' :: (joinWith '/' (sub.map wsgiOf) ++ '/' :: []) := by simp [basePathInfo]
    rw [this, Trav.splitOn_append_sep, Trav.splitOn_append_sep, Trav.splitOn_joinWith '/' _ hl h, List.append_assoc]
    rfl

/-- the loop run on `s ++ new PATH_INFO` with the same subpath stops exactly in front of the written subpath -/
theorem workLoop_on_output (pi s : Text) (sub : List Text) (hne : sub ≠ [])
    (h : ∀ x ∈ sub.map wsgiOf, x ≠ [] ∧ '/' ∉ x) :
    workLoop sub (splitOn '/' (s ++ newPathInfo pi sub)).reverse [] = .ok (splitOn '/' s).reverse := by
  obtain ⟨tl, htl, htl2⟩ := splitOn_newPathInfo pi s sub hne (fun x hx => (h x hx).2)
  have hseg : nonEmpty (splitOn '/' (s ++ newPathInfo pi sub)) = nonEmpty (splitOn '/' s) ++ sub.map wsgiOf := by
    rw [htl, nonEmpty_append, nonEmpty_append, nonEmpty_id (sub.map wsgiOf) (fun x hx => (h x hx).1)]
    rcases htl2 with rfl | rfl <;> simp [nonEmpty]
  rw [workLoop_tail_cut _ _ _ sub hseg (decList_wsgiOf sub)]
  -- the cut is exact
  cases hs : sub.map wsgiOf with
  | nil => exact absurd hs (by simpa using hne)
  | cons x l' =>
    have hx : x ≠ [] := (h x (by rw [hs]; simp)).1
    have hrev : (splitOn '/' (s ++ newPathInfo pi sub)).reverse = ((tl.reverse ++ l'.reverse) ++ [x]) ++ (splitOn '/' s).reverse := by
      rw [htl, hs]; simp
    have hcount : (nonEmpty ((tl.reverse ++ l'.reverse) ++ [x])).length = sub.length := by
      have h1 : nonEmpty ((tl.reverse ++ l'.reverse) ++ [x]) = (x :: l').reverse := by
        have h2 : nonEmpty (x :: l') = x :: l' := by rw [← hs]; exact nonEmpty_id _ (fun y hy => (h y hy).1)
        have h3 : (tl.reverse ++ l'.reverse) ++ [x] = tl.reverse ++ (x :: l').reverse := by simp
        rw [h3, nonEmpty_append, nonEmpty_reverse, nonEmpty_reverse, h2]
        rcases htl2 with rfl | rfl <;> simp [nonEmpty]
      rw [h1, List.length_reverse, ← hs, List.length_map]
    rw [hrev, ← hcount, takeNe_exact _ _ x hx]

end Pyr.Mount
