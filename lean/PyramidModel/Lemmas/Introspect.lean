import PyramidModel.Introspect
/-!
Helper lemmas for C20, part 1: association lists, one category's bindings, what `add` / `relate` / `register`
do to `peek`, and the registration fold of `execute_actions` against its declarative reading (`lastReg`).
-/
namespace Pyr.Introspect

deriving instance DecidableEq for Except

/-! ### association lists -/

theorem alookup_aset_same {α β} [DecidableEq α] (k : α) (v : β) (l : List (α × β)) :
    alookup k (aset k v l) = some v := by
  induction l with
  | nil => simp [aset, alookup]
  | cons p r ih =>
    obtain ⟨k', v'⟩ := p
    by_cases h : k' = k
    · simp [aset, alookup, h]
    · simp [aset, alookup, h, ih]

theorem alookup_aset_other {α β} [DecidableEq α] (k k2 : α) (v : β) (l : List (α × β)) (h : k2 ≠ k) :
    alookup k2 (aset k v l) = alookup k2 l := by
  induction l with
  | nil =>
    have : ¬ k = k2 := fun e => h e.symm
    simp [aset, alookup, this]
  | cons p r ih =>
    obtain ⟨k', v'⟩ := p
    by_cases h1 : k' = k
    · subst h1
      have : ¬ k' = k2 := fun e => h e.symm
      simp [aset, alookup, this]
    · by_cases h2 : k' = k2
      · subst h2
        simp [aset, alookup, h]
      · simp [aset, alookup, h1, h2, ih]

theorem alookup_aerase_other {α β} [DecidableEq α] (k k2 : α) (l : List (α × β)) (h : k2 ≠ k) :
    alookup k2 (aerase k l) = alookup k2 l := by
  induction l with
  | nil => simp [aerase, alookup]
  | cons p r ih =>
    obtain ⟨k', v'⟩ := p
    by_cases h1 : k' = k
    · subst h1
      have : ¬ k' = k2 := fun e => h e.symm
      simp [aerase, alookup, this]
    · by_cases h2 : k' = k2
      · subst h2
        simp [aerase, alookup, h]
      · simp [aerase, alookup, h1, h2, ih]

/-! ### one category -/

theorem findE_append_singleton (d : Nat) (es : List Entry) (e : Entry) :
    findE d (es ++ [e]) = (findE d es).or (if e.obj.discr == d then some e else none) := by
  unfold findE
  rw [List.find?_append]
  simp [List.find?]
  split <;> simp_all

theorem findE_filter_ne_same (d : Nat) (es : List Entry) :
    findE d (es.filter (fun x => x.obj.discr != d)) = none := by
  unfold findE
  rw [List.find?_eq_none]
  intro x hx
  have := (List.mem_filter.mp hx).2
  simpa using this

theorem findE_filter_ne_other (d d' : Nat) (es : List Entry) (h : d' ≠ d) :
    findE d' (es.filter (fun x => x.obj.discr != d)) = findE d' es := by
  unfold findE
  induction es with
  | nil => rfl
  | cons x r ih =>
    by_cases hx : x.obj.discr = d
    · have hne : ¬ x.obj.discr = d' := fun e => h (e.symm.trans hx)
      rw [List.filter_cons_of_neg (by simp [hx]), List.find?_cons_of_neg (by simp [hne])]
      exact ih
    · rw [List.filter_cons_of_pos (by simp [hx])]
      by_cases hx' : x.obj.discr = d'
      · rw [List.find?_cons_of_pos (by simp [hx']), List.find?_cons_of_pos (by simp [hx'])]
      · rw [List.find?_cons_of_neg (by simp [hx']), List.find?_cons_of_neg (by simp [hx'])]
        exact ih

theorem findE_putE_same (e : Entry) (es : List Entry) : findE e.obj.discr (putE e es) = some e := by
  unfold putE
  rw [findE_append_singleton, findE_filter_ne_same]
  simp

theorem findE_putE_other (e : Entry) (es : List Entry) (d : Nat) (h : d ≠ e.obj.discr) :
    findE d (putE e es) = findE d es := by
  unfold putE
  rw [findE_append_singleton, findE_filter_ne_other _ _ _ h]
  have : ¬ e.obj.discr = d := fun x => h x.symm
  simp [this]

theorem findE_delE_same (d : Nat) (es : List Entry) : findE d (delE d es) = none :=
  findE_filter_ne_same d es

theorem findE_delE_other (d d' : Nat) (es : List Entry) (h : d' ≠ d) : findE d' (delE d es) = findE d' es :=
  findE_filter_ne_other d d' es h

theorem findE_some_discr {d : Nat} {es : List Entry} {e : Entry} (h : findE d es = some e) : e.obj.discr = d := by
  unfold findE at h
  have := List.find?_some h
  simpa using this

/-! ### `peek` after the operations -/

theorem entries_add_same (S : IState) (o : Obj) (info : Nat) :
    (add S o info).entries o.cat = putE ⟨o, info, S.counter⟩ (S.entries o.cat) := by
  simp [add, IState.entries, alookup_aset_same]

theorem entries_add_other (S : IState) (o : Obj) (info c : Nat) (h : c ≠ o.cat) :
    (add S o info).entries c = S.entries c := by
  simp [add, IState.entries, alookup_aset_other _ _ _ _ h]

theorem peek_add_same (S : IState) (o : Obj) (info : Nat) :
    peek (add S o info) o.cat o.discr = some ⟨o, info, S.counter⟩ := by
  unfold peek
  rw [entries_add_same]
  exact findE_putE_same ⟨o, info, S.counter⟩ _

theorem peek_add_other (S : IState) (o : Obj) (info c d : Nat) (h : (c, d) ≠ (o.cat, o.discr)) :
    peek (add S o info) c d = peek S c d := by
  unfold peek
  by_cases hc : c = o.cat
  · subst hc
    rw [entries_add_same]
    apply findE_putE_other
    intro hd
    exact h (by rw [hd])
  · rw [entries_add_other _ _ _ _ hc]

theorem entries_touch (S : IState) (c c' : Nat) : (touch S c).entries c' = S.entries c' := by
  by_cases h : c' = c
  · subst h
    simp [touch, IState.entries, alookup_aset_same]
  · simp [touch, IState.entries, alookup_aset_other _ _ _ _ h]

theorem peek_touch (S : IState) (c c' d : Nat) : peek (touch S c) c' d = peek S c' d := by
  unfold peek
  rw [entries_touch]

theorem relate_cats {S S' : IState} {rel : Bool} {ks : List (Nat × Nat)} (h : relate S rel ks = .ok S') :
    S'.cats = S.cats ∧ S'.counter = S.counter := by
  unfold relate at h
  split at h
  · cases h
  · cases h
    exact ⟨rfl, rfl⟩

theorem applyRels_cats (o : Obj) (rs : List Rel) :
    ∀ {S S' : IState}, applyRels o rs S = .ok S' → S'.cats = S.cats ∧ S'.counter = S.counter := by
  induction rs with
  | nil =>
    intro S S' h
    simp [applyRels] at h
    cases h
    exact ⟨rfl, rfl⟩
  | cons r rs ih =>
    intro S S' h
    unfold applyRels at h
    split at h
    · cases h
    · rename_i S1 h1
      have h2 := ih h
      have h3 := relate_cats h1
      exact ⟨h2.1.trans h3.1, h2.2.trans h3.2⟩

theorem peek_congr {S S' : IState} (h : S'.cats = S.cats) (c d : Nat) : peek S' c d = peek S c d := by
  simp [peek, IState.entries, h]

theorem register_cats {S S' : IState} {info : Nat} {d : Decl} (h : register S info d = .ok S') :
    S'.cats = (add S d.obj info).cats ∧ S'.counter = S.counter + 1 := by
  unfold register at h
  have := applyRels_cats _ _ h
  exact ⟨this.1, this.2.trans rfl⟩

/-! ### the registration fold against its declarative reading -/

/-- the last registration for slot `(c, d)` in a list of `(statement, introspectable)` registrations -/
def lastReg (c d : Nat) : List (Nat × Decl) → Option (Nat × Decl) → Option (Nat × Decl)
  | [], acc => acc
  | p :: r, acc => lastReg c d r (if p.2.key = (c, d) then some p else acc)

/-- the registrations `execute_actions` performs, in order: for every executed action its introspectables -/
def regsOf (decls : Nat → List Decl) (ids : List Nat) : List (Nat × Decl) :=
  ids.flatMap fun i => (decls i).map fun d => (i, d)

/-- what an observer sees of slot `(c, d)`: the introspectable and the statement it points at -/
def seen (S : IState) (c d : Nat) : Option (Obj × Nat) := (peek S c d).map fun e => (e.obj, e.info)

def seenOfReg (r : Option (Nat × Decl)) (dflt : Option (Obj × Nat)) : Option (Obj × Nat) :=
  match r with
  | some (i, dcl) => some (dcl.obj, i)
  | none => dflt

theorem lastReg_append (c d : Nat) (l1 l2 : List (Nat × Decl)) (acc : Option (Nat × Decl)) :
    lastReg c d (l1 ++ l2) acc = lastReg c d l2 (lastReg c d l1 acc) := by
  induction l1 generalizing acc with
  | nil => rfl
  | cons p r ih => simp [lastReg, ih]

theorem seen_register {S S' : IState} {info : Nat} {dcl : Decl} (h : register S info dcl = .ok S') (c d : Nat) :
    seen S' c d = if dcl.key = (c, d) then some (dcl.obj, info) else seen S c d := by
  have hc := (register_cats h).1
  unfold seen
  rw [peek_congr hc]
  by_cases hk : dcl.key = (c, d)
  · simp only [hk, if_true]
    have h1 : c = dcl.obj.cat := by
      have := congrArg Prod.fst hk; simp [Decl.key] at this; exact this.symm
    have h2 : d = dcl.obj.discr := by
      have := congrArg Prod.snd hk; simp [Decl.key] at this; exact this.symm
    subst h1; subst h2
    rw [peek_add_same]
    rfl
  · simp only [hk, if_false]
    rw [peek_add_other]
    intro e
    exact hk (by simp [Decl.key, e])

theorem seen_registerList (info : Nat) (ds : List Decl) :
    ∀ {S S' : IState}, registerList info ds S = .ok S' → ∀ (c d : Nat) (acc : Option (Nat × Decl)),
      seenOfReg acc (seen S c d) = seen S c d →
      seen S' c d = seenOfReg (lastReg c d (ds.map fun x => (info, x)) none) (seen S c d) := by
  induction ds with
  | nil =>
    intro S S' h c d _ _
    simp [registerList] at h
    cases h
    simp [lastReg, seenOfReg]
  | cons x r ih =>
    intro S S' h c d acc hacc
    unfold registerList at h
    split at h
    · cases h
    · rename_i S1 h1
      have hs := seen_register h1 c d
      have := ih h c d none rfl
      rw [this]
      simp only [List.map, lastReg]
      by_cases hk : x.key = (c, d)
      · simp only [hk, if_true] at hs ⊢
        rw [hs]
        -- generalise: lastReg with a `some` seed never falls back to the default
        have key : ∀ (l : List (Nat × Decl)) (p : Nat × Decl) (a b : Option (Obj × Nat)),
            seenOfReg (lastReg c d l (some p)) a = seenOfReg (lastReg c d l (some p)) b := by
          intro l
          induction l with
          | nil => intro p a b; simp [lastReg, seenOfReg]
          | cons q l ihl =>
            intro p a b
            simp only [lastReg]
            split
            · exact ihl q a b
            · exact ihl p a b
        have key2 : ∀ (l : List (Nat × Decl)) (p : Nat × Decl) (a : Option (Obj × Nat)),
            seenOfReg (lastReg c d l none) (some (p.2.obj, p.1)) = seenOfReg (lastReg c d l (some p)) a := by
          intro l
          induction l with
          | nil => intro p a; simp [lastReg, seenOfReg]
          | cons q l ihl =>
            intro p a
            simp only [lastReg]
            split
            · exact key l q _ _
            · exact ihl p a
        exact key2 _ (info, x) _
      · simp only [hk, if_false] at hs ⊢
        rw [hs]

theorem seen_registerAll (decls : Nat → List Decl) (ids : List Nat) :
    ∀ {S S' : IState}, registerAll decls ids S = .ok S' → ∀ (c d : Nat),
      seen S' c d = seenOfReg (lastReg c d (regsOf decls ids) none) (seen S c d) := by
  induction ids with
  | nil =>
    intro S S' h c d
    simp [registerAll] at h
    cases h
    simp [regsOf, lastReg, seenOfReg]
  | cons i r ih =>
    intro S S' h c d
    unfold registerAll at h
    split at h
    · cases h
    · rename_i S1 h1
      have h2 := ih h c d
      have h3 := seen_registerList i (decls i) h1 c d none rfl
      rw [h2, h3]
      have : regsOf decls (i :: r) = ((decls i).map fun x => (i, x)) ++ regsOf decls r := by
        simp [regsOf]
      rw [this, lastReg_append]
      -- seenOfReg (lastReg l2 none) (seenOfReg (lastReg l1 none) a) = seenOfReg (lastReg l2 (lastReg l1 none)) a
      generalize lastReg c d ((decls i).map fun x => (i, x)) none = m
      generalize regsOf decls r = l2
      induction l2 generalizing m with
      | nil => simp [lastReg, seenOfReg]
      | cons q l ihl =>
        simp only [lastReg]
        split
        · -- q matches: both sides are seeded with `some q`
          have key : ∀ (l : List (Nat × Decl)) (p : Nat × Decl) (a b : Option (Obj × Nat)),
              seenOfReg (lastReg c d l (some p)) a = seenOfReg (lastReg c d l (some p)) b := by
            intro l
            induction l with
            | nil => intro p a b; simp [lastReg, seenOfReg]
            | cons q' l ihl' =>
              intro p a b
              simp only [lastReg]
              split
              · exact ihl' q' a b
              · exact ihl' p a b
          exact key l q _ _
        · exact ihl m

theorem lastReg_none_iff (c d : Nat) (l : List (Nat × Decl)) :
    lastReg c d l none = none ↔ ∀ p ∈ l, p.2.key ≠ (c, d) := by
  have gen : ∀ (l : List (Nat × Decl)) (acc : Option (Nat × Decl)),
      lastReg c d l acc = none ↔ (acc = none ∧ ∀ p ∈ l, p.2.key ≠ (c, d)) := by
    intro l
    induction l with
    | nil => intro acc; simp [lastReg]
    | cons q l ih =>
      intro acc
      simp only [lastReg]
      by_cases hq : q.2.key = (c, d)
      · simp [hq, ih]
      · simp [hq, ih]
  simpa using gen l none

theorem lastReg_some_mem (c d : Nat) (l : List (Nat × Decl)) :
    ∀ (acc : Option (Nat × Decl)) (p : Nat × Decl), lastReg c d l acc = some p → acc = some p ∨ (p ∈ l ∧ p.2.key = (c, d)) := by
  induction l with
  | nil => intro acc p h; left; simpa [lastReg] using h
  | cons q l ih =>
    intro acc p h
    simp only [lastReg] at h
    rcases ih _ _ h with h1 | h1
    · by_cases hq : q.2.key = (c, d)
      · simp [hq] at h1
        right
        subst h1
        exact ⟨List.mem_cons_self, hq⟩
      · simp [hq] at h1
        left
        exact h1
    · right
      exact ⟨List.mem_cons_of_mem _ h1.1, h1.2⟩

theorem mem_regsOf {decls : Nat → List Decl} {ids : List Nat} {p : Nat × Decl} :
    p ∈ regsOf decls ids ↔ p.1 ∈ ids ∧ p.2 ∈ decls p.1 := by
  unfold regsOf
  simp only [List.mem_flatMap, List.mem_map]
  constructor
  · rintro ⟨i, hi, dcl, hd, rfl⟩
    exact ⟨hi, hd⟩
  · rintro ⟨h1, h2⟩
    exact ⟨p.1, h1, p.2, h2, rfl⟩

end Pyr.Introspect
