/-
X07 — helper lemmas, part 3: right-stripping, the segments a joined remainder denotes, the tail hypothesis.
-/
import PyramidModel.Lemmas.MountLoop

namespace Pyr.Mount

open Pyr.Trav (splitOn joinWith)

/-! ### stripping from the right -/

/-- drop the longest suffix whose elements satisfy `p` -/
def rdrop {α : Type} (p : α → Bool) (l : List α) : List α := (l.reverse.dropWhile p).reverse

theorem rdrop_cons {α : Type} (p : α → Bool) (x : α) (xs : List α) :
    rdrop p (x :: xs) = if rdrop p xs = [] then (if p x then [] else [x]) else x :: rdrop p xs := by
  unfold rdrop
  simp only [List.reverse_cons, List.dropWhile_append]
  cases hd : xs.reverse.dropWhile p with
  | nil => by_cases hp : p x <;> simp [hp]
  | cons a t => simp

theorem rdrop_nil {α : Type} (p : α → Bool) : rdrop p ([] : List α) = [] := rfl

/-- `workback` without its trailing empty elements -/
abbrev stripE (l : List Text) : List Text := rdrop (fun x => decide (x = [])) l

/-- `str.rstrip('/')` -/
abbrev rstripSlash (w : Text) : Text := rdrop (fun c => decide (c = '/')) w

theorem stripE_cons (x : Text) (xs : List Text) :
    stripE (x :: xs) = if stripE xs = [] then (if decide (x = []) then [] else [x]) else x :: stripE xs := rdrop_cons _ x xs

theorem rstripSlash_cons (c : Char) (cs : Text) :
    rstripSlash (c :: cs) = if rstripSlash cs = [] then (if decide (c = '/') then [] else [c]) else c :: rstripSlash cs :=
  rdrop_cons _ c cs

theorem joinWorkback_eq (rv : List Text) : joinWorkback rv = joinWith '/' (stripE rv.reverse) := by
  simp [joinWorkback, rdrop]

theorem stripE_last (l : List Text) : stripE l = [] ∨ ∃ m x c, stripE l = m ++ [x ++ [c]] := by
  have := dropWhile_reverse_last l.reverse
  simpa [rdrop] using this

theorem stripE_sublist_mem (l : List Text) (s : Text) (h : s ∈ stripE l) : s ∈ l := by
  simp only [rdrop, List.mem_reverse] at h
  have := (List.dropWhile_sublist _).subset h
  simpa using this

theorem nonEmpty_stripE (l : List Text) : nonEmpty (stripE l) = nonEmpty l := by
  simp only [rdrop, nonEmpty_reverse, nonEmpty_dropWhile, List.reverse_reverse]

theorem joinWith_cons_cons (x y : Text) (r : List Text) :
    joinWith '/' (x :: y :: r) = x ++ '/' :: joinWith '/' (y :: r) := rfl

theorem join_strip_ne_nil (l : List Text) (y : Text) (ys : List Text) (h : stripE l = y :: ys) :
    joinWith '/' (y :: ys) ≠ [] := by
  rcases stripE_last l with h0 | ⟨m, x, c, hm⟩
  · rw [h0] at h; cases h
  · rw [← h, hm]
    intro h1
    have := getLast?_joinWith m x c
    rw [h1] at this
    simp at this

/-- joining the elements of the split path, trailing empty elements removed, is the path without trailing slashes -/
theorem join_strip_split (w : Text) : joinWith '/' (stripE (splitOn '/' w)) = rstripSlash w := by
  induction w with
  | nil => decide
  | cons c cs ih =>
    by_cases hc : c = '/'
    · subst hc
      rw [Trav.splitOn_cons_sep, stripE_cons, rstripSlash_cons]
      simp only [decide_true, if_true]
      cases hs : stripE (splitOn '/' cs) with
      | nil =>
        rw [hs] at ih
        simp only [joinWith] at ih
        simp [← ih, joinWith]
      | cons y ys =>
        rw [hs] at ih
        have hne := join_strip_ne_nil _ y ys hs
        rw [ih] at hne
        simp only [reduceCtorEq, if_false, hne, joinWith_cons_cons, List.nil_append, ih]
    · obtain ⟨p, ps, h1, h2⟩ := Trav.splitOn_cons_ne '/' c cs hc
      rw [h2, stripE_cons, rstripSlash_cons]
      rw [h1, stripE_cons] at ih
      have hp : (c :: p) ≠ [] := by simp
      simp only [hc, hp, decide_false, Bool.false_eq_true, if_false]
      cases hs : stripE ps with
      | nil =>
        rw [hs] at ih
        simp only [if_true] at ih
        by_cases hp0 : p = []
        · subst hp0
          simp only [decide_true, if_true, joinWith] at ih
          simp [joinWith, ← ih]
        · simp only [hp0, decide_false, Bool.false_eq_true, if_false, joinWith] at ih
          simp [joinWith, ← ih]
      | cons y ys =>
        rw [hs] at ih
        simp only [reduceCtorEq, if_false, joinWith_cons_cons] at ih
        simp only [reduceCtorEq, if_false, joinWith_cons_cons, List.cons_append, ih]
        simp [← ih]

/-! ### the segments a joined list denotes -/

theorem segs_nil : segs [] = [] := by decide

theorem segs_append_slash (a b : Text) : segs (a ++ '/' :: b) = segs a ++ segs b := by
  simp only [segs, Trav.splitOn_append_sep, nonEmpty_append]

theorem segs_slash_cons (b : Text) : segs ('/' :: b) = segs b := by
  have := segs_append_slash [] b
  simpa [segs_nil] using this

theorem mem_segs {s w : Text} (h : s ∈ segs w) : s ≠ [] ∧ '/' ∉ s := by
  obtain ⟨h1, h2⟩ := mem_nonEmpty.mp h
  exact ⟨h2, Trav.mem_splitOn_no_sep '/' w s h1⟩

/-- slash-free elements, joined and split again, are themselves -/
theorem split_join (l : List Text) (h : ∀ s ∈ l, '/' ∉ s) : nonEmpty (splitOn '/' (joinWith '/' l)) = nonEmpty l := by
  cases l with
  | nil => decide
  | cons x xs => rw [Trav.splitOn_joinWith '/' (x :: xs) (by simp) h]

theorem segs_join (l : List Text) (h : ∀ s ∈ l, s ≠ [] ∧ '/' ∉ s) : segs (joinWith '/' l) = l := by
  rw [segs, split_join l (fun s hs => (h s hs).2), nonEmpty_id l (fun s hs => (h s hs).1)]

/-- what the new SCRIPT_NAME denotes: the non-empty elements left in `workback` -/
theorem segs_joinWorkback (rv : List Text) (h : ∀ s ∈ rv, '/' ∉ s) : segs (joinWorkback rv) = (nonEmpty rv).reverse := by
  rw [joinWorkback_eq, segs, split_join, nonEmpty_stripE, nonEmpty_reverse]
  intro s hs
  exact h s (by simpa using stripE_sublist_mem _ s hs)

/-- the new SCRIPT_NAME never ends with a slash -/
theorem joinWorkback_last (rv : List Text) (h : ∀ s ∈ rv, '/' ∉ s) : (joinWorkback rv).getLast? ≠ some '/' := by
  rw [joinWorkback_eq]
  rcases stripE_last rv.reverse with h0 | ⟨m, x, c, hm⟩
  · rw [h0]; simp [joinWith]
  · rw [hm, getLast?_joinWith]
    intro hc
    injection hc with hc
    subst hc
    have : x ++ ['/'] ∈ rv := by
      have := stripE_sublist_mem rv.reverse (x ++ ['/']) (by rw [hm]; simp)
      simpa using this
    exact h _ this (by simp)

/-- when the old path is empty or starts with a slash, so does the new SCRIPT_NAME -/
theorem joinWorkback_head (l : List Text) (h : l = [] ∨ ∃ t, l = [] :: t) :
    joinWith '/' (stripE l) = [] ∨ (joinWith '/' (stripE l)).head? = some '/' := by
  rcases h with rfl | ⟨t, rfl⟩
  · left; rfl
  · rw [stripE_cons]
    cases hs : stripE t with
    | nil => left; simp [joinWith]
    | cons y ys => right; simp [joinWith_cons_cons]

/-! ### the tail hypothesis -/

/-- the subpath is the tail of the old path: the non-empty elements of `(SCRIPT_NAME + PATH_INFO).split('/')` end with
the elements of the subpath as they are written on the wire -/
def RawTail (sn pi : Text) (sub : List Text) : Prop := sub.map wsgiOf <:+ segs (sn ++ pi)

instance (sn pi : Text) (sub : List Text) : Decidable (RawTail sn pi sub) := by unfold RawTail; infer_instance

/-- under the tail hypothesis the loop stops exactly in front of the subpath and raises nothing -/
theorem workLoop_tail (raw pre sub : List Text) (h : nonEmpty raw = pre ++ sub.map wsgiOf) :
    ∃ rest, workLoop sub raw.reverse [] = .ok rest ∧ nonEmpty rest = pre.reverse ∧ ∀ s ∈ rest, s ∈ raw := by
  refine ⟨(takeNe sub.length raw.reverse).2, ?_, ?_, ?_⟩
  · rw [workLoop_eq_spec, specWorkback, decRev_eq, nonEmpty_takeNe_fst, nonEmpty_reverse, h, List.reverse_append]
    have hl : (List.map wsgiOf sub).reverse.length = sub.length := by simp
    rw [List.take_left' hl, ← List.map_reverse, decList_wsgiOf]
    simp
  · rw [nonEmpty_takeNe_snd, nonEmpty_reverse, h, List.reverse_append]
    have hl : (List.map wsgiOf sub).reverse.length = sub.length := by simp
    rw [List.drop_left' hl]
  · intro s hs
    have := takeNe_append sub.length raw.reverse
    have : s ∈ raw.reverse := by rw [← this]; exact List.mem_append_right _ hs
    simpa using this

end Pyr.Mount
