import PyramidModel.Assets
/-
X04 — the declarative reading of asset overrides (definitions; linked into the driver, core Lean only) and the helper
lemmas the property theorems of `Props/X04.lean` rest on.
-/
namespace Pyr.Assets

/-! ### the reading -/

/-- one declaration as it reaches `PackageOverrides.insert`: `(path inside the overridden package, source)`;
lists of declarations are in DECLARATION order (oldest first) -/
abbrev Decl := Text × Source

/-- the overrides list after the declarations have been registered in order -/
def registered (decls : List Decl) : List Override :=
  decls.foldl (fun ovs d => insert ovs d.1 d.2) []

/-- declarative: `name` falls under the override of `path`, `rest` being what is looked up below the source -/
def Matches (path name rest : Text) : Prop :=
  (isDirPath path = true ∧ name = path ++ rest) ∨ (isDirPath path = false ∧ name = path ∧ rest = [])

/-- `p` stripped from the front of `name`, character by character -/
def stripPrefix? : Text → Text → Option Text
  | [], name => some name
  | _ :: _, [] => none
  | c :: p, d :: name => if c = d then stripPrefix? p name else none

/-- functional reading of `Matches` -/
def matchRest (path name : Text) : Option Text :=
  if isDirPath path then stripPrefix? path name
  else if name = path then some [] else none

/-- the place a declaration serves `name` from, if it matches and the place is there -/
def hitLoc (w : World) (name : Text) (d : Decl) : Option Loc :=
  match matchRest d.1 name with
  | none => none
  | some r => if (w (d.2.loc r)).there then some (d.2.loc r) else none

/-- THE READING: the most recently declared override that matches and has the resource; else the package's own -/
def specServed (w : World) (decls : List Decl) (pkg name : Text) : Loc :=
  match decls.reverse.findSome? (hitLoc w name) with
  | some l => l
  | none => .inPkg pkg name

/-- the same as a relation on declaration indices -/
def Serves (w : World) (decls : List Decl) (pkg name : Text) (l : Loc) : Prop :=
  (∃ i, ∃ h : i < decls.length, hitLoc w name decls[i] = some l ∧
      ∀ j, ∀ hj : j < decls.length, i < j → hitLoc w name decls[j] = none) ∨
  ((∀ j, ∀ hj : j < decls.length, hitLoc w name decls[j] = none) ∧ l = .inPkg pkg name)

/-- the reading of a whole configuration history: the declarations accepted for `pkg`, in order -/
def declsOf (accs : List Accepted) (pkg : Text) : List Decl :=
  (accs.filter (fun a => a.package = pkg)).map (fun a => (a.path, a.source))

/-- every declaration of the list was accepted by `override_asset`, giving the corresponding entry -/
inductive AllAccepted (w : World) (imp : Text → Bool) : List (Text × Text) → List Accepted → Prop where
  | nil : AllAccepted w imp [] []
  | cons {d ds a as} : overrideAsset w imp d.1 d.2 = .ok a → AllAccepted w imp ds as → AllAccepted w imp (d :: ds) (a :: as)

theorem AllAccepted.append {w : World} {imp : Text → Bool} {d1 d2 : List (Text × Text)} {a1 a2 : List Accepted}
    (h1 : AllAccepted w imp d1 a1) (h2 : AllAccepted w imp d2 a2) : AllAccepted w imp (d1 ++ d2) (a1 ++ a2) := by
  induction h1 with
  | nil => simpa using h2
  | cons h _ ih => exact .cons h ih

theorem kindCheck_ok {a b : Bool} {x y : Accepted} : kindCheck a b x = .ok y ↔ a = b ∧ y = x := by
  cases a <;> cases b <;> simp [kindCheck, eq_comm]

theorem kindCheck_ne {a b : Bool} (x : Accepted) (h : a ≠ b) :
    kindCheck a b x = .error (if a then .dirWithFile else .fileWithDir) := by
  cases a <;> cases b <;> simp_all [kindCheck]

/-! ### helper lemmas -/

theorem registered_eq (decls : List Decl) :
    registered decls = (decls.map fun d => mkOverride d.1 d.2).reverse := by
  unfold registered
  suffices h : ∀ (acc : List Override), decls.foldl (fun ovs d => insert ovs d.1 d.2) acc
      = (decls.map fun d => mkOverride d.1 d.2).reverse ++ acc by simpa using h []
  induction decls with
  | nil => intro acc; rfl
  | cons d ds ih => intro acc; simp [List.foldl_cons, insert]

theorem stripPrefix?_eq_some {p name r : Text} : stripPrefix? p name = some r ↔ name = p ++ r := by
  induction p generalizing name with
  | nil => simp [stripPrefix?, eq_comm]
  | cons c p ih =>
    cases name with
    | nil => simp [stripPrefix?]
    | cons d name =>
      simp only [stripPrefix?, List.cons_append, List.cons.injEq]
      by_cases h : c = d
      · subst h; simp [ih]
      · simp [h]; intro h'; exact absurd h'.symm h

theorem isPrefixOf_drop {p name : Text} :
    (if p.isPrefixOf name then some (name.drop p.length) else none) = stripPrefix? p name := by
  induction p generalizing name with
  | nil => simp [stripPrefix?]
  | cons c p ih =>
    cases name with
    | nil => simp [stripPrefix?]
    | cons d name =>
      simp only [stripPrefix?, List.isPrefixOf, List.length_cons, List.drop_succ_cons]
      by_cases h : c = d
      · subst h; simpa using ih
      · simp [h]

theorem matchRest_iff {path name r : Text} : matchRest path name = some r ↔ Matches path name r := by
  unfold matchRest Matches
  cases hd : isDirPath path
  · simp only [Bool.false_eq_true, if_false, false_and, false_or, true_and]
    by_cases h : name = path
    · simp [h, eq_comm]
    · simp [h]
  · simp [stripPrefix?_eq_some]

/-- the model's override object answers exactly the reading's `matchRest` -/
theorem apply_mkOverride (path : Text) (s : Source) (name : Text) :
    (mkOverride path s).apply name = (matchRest path name).map fun r => (s, r) := by
  unfold mkOverride matchRest
  cases hd : isDirPath path
  · simp only [Bool.false_eq_true, if_false, Override.apply]
    by_cases h : name = path <;> simp [h]
  · simp only [if_true, Override.apply, ← isPrefixOf_drop]
    by_cases h : path.isPrefixOf name <;> simp [h]

/-- the first location that is there among the filtered sources -/
def pickLoc (w : World) : List (Source × Text) → Option Loc
  | [] => none
  | (s, r) :: rest => if (w (s.loc r)).there then some (s.loc r) else pickLoc w rest

theorem firstResult_getFilename (w : World) (srcs : List (Source × Text)) :
    firstResult (Source.getFilename w) srcs = .ok (pickLoc w srcs) := by
  induction srcs with
  | nil => rfl
  | cons sr rest ih =>
    obtain ⟨s, r⟩ := sr
    simp only [firstResult, Source.getFilename, pickLoc]
    by_cases h : (w (s.loc r)).there <;> simp [h, ih]

/-- every method of the shape "if it exists then observe the place else `None`" answers about the picked place -/
theorem firstResult_observe {α : Type} (w : World) (g : Loc → Except Err α) (f : Source → Text → Except Err (Option α))
    (hf : ∀ s r, f s r = if (w (s.loc r)).there then (g (s.loc r)).map some else .ok none)
    (srcs : List (Source × Text)) :
    firstResult f srcs = match pickLoc w srcs with
      | none => .ok none
      | some l => (g l).map some := by
  induction srcs with
  | nil => rfl
  | cons sr rest ih =>
    obtain ⟨s, r⟩ := sr
    simp only [firstResult, pickLoc, hf]
    by_cases h : (w (s.loc r)).there
    · simp only [h, if_true]
      cases g (s.loc r) <;> rfl
    · simp [h, ih]

theorem pickLoc_there {w : World} {srcs : List (Source × Text)} {l : Loc} (h : pickLoc w srcs = some l) :
    (w l).there = true := by
  induction srcs with
  | nil => simp [pickLoc] at h
  | cons sr rest ih =>
    obtain ⟨s, r⟩ := sr
    simp only [pickLoc] at h
    by_cases ht : (w (s.loc r)).there
    · simp [ht] at h; subst h; exact ht
    · simp [ht] at h; exact ih h

/-- the picked place of the registered overrides is the reading's latest hit -/
theorem pickLoc_registered (w : World) (decls : List Decl) (name : Text) :
    pickLoc w (filteredSources (registered decls) name) = decls.reverse.findSome? (hitLoc w name) := by
  rw [registered_eq, ← List.map_reverse]
  generalize decls.reverse = ds
  induction ds with
  | nil => rfl
  | cons d ds ih =>
    simp only [List.map_cons, filteredSources, List.filterMap_cons, List.findSome?_cons, apply_mkOverride, hitLoc]
    cases hm : matchRest d.1 name with
    | none => simpa [filteredSources] using ih
    | some r =>
      simp only [Option.map_some, pickLoc]
      by_cases ht : (w (d.2.loc r)).there
      · simp [ht]
      · simpa [ht, filteredSources] using ih

theorem findSome?_reverse_none {α β : Type} (f : α → Option β) (xs : List α) :
    xs.reverse.findSome? f = none ↔ ∀ j, ∀ hj : j < xs.length, f xs[j] = none := by
  simp only [List.findSome?_eq_none_iff, List.mem_reverse]
  constructor
  · intro h j hj; exact h _ (List.getElem_mem hj)
  · intro h x hx
    obtain ⟨j, hj, rfl⟩ := List.getElem_of_mem hx
    exact h j hj

theorem findSome?_reverse_iff {α β : Type} (f : α → Option β) (xs : List α) (b : β) :
    xs.reverse.findSome? f = some b ↔
      ∃ i, ∃ h : i < xs.length, f xs[i] = some b ∧ ∀ j, ∀ hj : j < xs.length, i < j → f xs[j] = none := by
  induction xs generalizing b with
  | nil => simp
  | cons x xs ih =>
    simp only [List.reverse_cons, List.findSome?_append, List.length_cons]
    cases hr : xs.reverse.findSome? f with
    | some b' =>
      obtain ⟨i, hi, hfi, hl⟩ := (ih b').mp hr
      constructor
      · intro h
        have hb : b' = b := by simpa using h
        subst hb
        refine ⟨i + 1, by omega, by simpa using hfi, ?_⟩
        intro j hj hij
        obtain ⟨j', rfl⟩ : ∃ j', j = j' + 1 := ⟨j - 1, by omega⟩
        simpa using hl j' (by omega) (by omega)
      · rintro ⟨k, hk, hfk, hlk⟩
        cases k with
        | zero =>
          have := hlk (i + 1) (by omega) (by omega)
          simp [hfi] at this
        | succ k' =>
          simp only [List.getElem_cons_succ] at hfk
          rcases Nat.lt_trichotomy k' i with hlt | heq | hgt
          · have := hlk (i + 1) (by omega) (by omega)
            simp [hfi] at this
          · subst heq
            rw [hfi] at hfk
            simp [hfk]
          · have := hl k' (by omega) hgt
            rw [this] at hfk; cases hfk
    | none =>
      have hall := (findSome?_reverse_none f xs).mp hr
      simp only [Option.none_or, List.findSome?_cons, List.findSome?_nil]
      constructor
      · intro h
        refine ⟨0, by omega, ?_, ?_⟩
        · cases hx : f x with
          | none => simp [hx] at h
          | some b' => simpa [hx] using h
        · intro j hj hij
          obtain ⟨j', rfl⟩ : ∃ j', j = j' + 1 := ⟨j - 1, by omega⟩
          simpa using hall j' (by omega)
      · rintro ⟨k, hk, hfk, _⟩
        cases k with
        | zero =>
          simp only [List.getElem_cons_zero] at hfk
          simp [hfk]
        | succ k' =>
          simp only [List.getElem_cons_succ] at hfk
          rw [hall k' (by omega)] at hfk; cases hfk

/-! ### paths -/

theorem splitColon_eq {s : Text} (h : s.contains ':' = true) :
    s = (splitColon s).1 ++ ':' :: (splitColon s).2 := by
  induction s with
  | nil => simp at h
  | cons c cs ih =>
    simp only [splitColon]
    by_cases hc : c = ':'
    · simp [hc]
    · have : cs.contains ':' = true := by
        simp only [List.contains_cons] at h
        have hne : (':' == c) = false := by simp; exact fun h' => hc h'.symm
        simpa [hne] using h
      simp only [hc, if_false, List.cons_append, List.cons.injEq, true_and]
      exact ih this

theorem splitColon_append {p f : Text} (hp : p.contains ':' = false) :
    splitColon (p ++ ':' :: f) = (p, f) := by
  induction p with
  | nil => simp [splitColon]
  | cons c cs ih =>
    have hc : c ≠ ':' := by
      intro h; subst h; simp at hp
    have hcs : cs.contains ':' = false := by
      simp only [List.contains_cons, Bool.or_eq_false_iff] at hp; exact hp.2
    simp [splitColon, hc, ih hcs]

theorem splitSlash_ne_nil (s : Text) : splitSlash s ≠ [] := by
  cases s with
  | nil => simp [splitSlash]
  | cons c cs => simp only [splitSlash]; split <;> simp

/-- a slash-free segment followed by a slash is split off -/
theorem splitSlash_seg_slash {s r : Text} (hs : s.contains '/' = false) :
    splitSlash (s ++ '/' :: r) = s :: splitSlash r := by
  induction s with
  | nil => simp [splitSlash]
  | cons c cs ih =>
    have hc : c ≠ '/' := by intro h; subst h; simp at hs
    have hcs : cs.contains '/' = false := by
      simp only [List.contains_cons, Bool.or_eq_false_iff] at hs; exact hs.2
    simp [splitSlash, hc, ih hcs]

theorem splitSlash_seg {s : Text} (hs : s.contains '/' = false) : splitSlash s = [s] := by
  induction s with
  | nil => simp [splitSlash]
  | cons c cs ih =>
    have hc : c ≠ '/' := by intro h; subst h; simp at hs
    have hcs : cs.contains '/' = false := by
      simp only [List.contains_cons, Bool.or_eq_false_iff] at hs; exact hs.2
    simp [splitSlash, hc, ih hcs]

/-- a list of segments that a clean relative path consists of -/
def CleanSegs (segs : List Text) : Prop :=
  segs ≠ [] ∧ ∀ s ∈ segs, s ≠ [] ∧ s.contains '/' = false

theorem splitSlash_joinSegs {segs : List Text} (h : ∀ s ∈ segs, s.contains '/' = false) (hne : segs ≠ []) :
    splitSlash (joinSegs segs) = segs := by
  induction segs with
  | nil => exact absurd rfl hne
  | cons s ss ih =>
    cases ss with
    | nil => simpa [joinSegs] using splitSlash_seg (h s (by simp))
    | cons t ts =>
      simp only [joinSegs]
      rw [splitSlash_seg_slash (h s (by simp))]
      rw [ih (fun x hx => h x (by simp [hx])) (by simp)]

theorem getLast?_append_cons {α : Type} (a : List α) (c : α) (b : List α) :
    (a ++ c :: b).getLast? = (c :: b).getLast? := by
  rw [List.getLast?_append]
  cases h : (c :: b).getLast? with
  | none => simp at h
  | some x => simp

/-- folding `posixpath.join` over clean segments appends them after one slash each -/
theorem foldl_joinPath_clean {segs : List Text} (h : ∀ s ∈ segs, s ≠ [] ∧ s.contains '/' = false) (hne : segs ≠ [])
    {base : Text} (hb : base ≠ []) (hbs : base.getLast? ≠ some '/') :
    segs.foldl joinPath base = base ++ '/' :: joinSegs segs := by
  induction segs generalizing base with
  | nil => exact absurd rfl hne
  | cons s ss ih =>
    obtain ⟨hsne, hsf⟩ := h s (by simp)
    have hhead : s.head? ≠ some '/' := by
      cases s with
      | nil => simp
      | cons c cs =>
        simp only [List.head?_cons, ne_eq, Option.some.injEq]
        intro hc; subst hc; simp at hsf
    have hstep : joinPath base s = base ++ '/' :: s := by
      unfold joinPath; simp [hhead, hb, hbs]
    cases ss with
    | nil => simp [joinSegs, hstep]
    | cons t ts =>
      have hlast : (base ++ '/' :: s).getLast? ≠ some '/' := by
        cases s with
        | nil => exact absurd rfl hsne
        | cons c cs =>
          rw [show base ++ '/' :: c :: cs = (base ++ ['/']) ++ c :: cs by simp, getLast?_append_cons]
          intro hl
          have hm : '/' ∈ c :: cs := List.mem_of_getLast? hl
          have hc : (c :: cs).contains '/' = true := List.contains_iff_mem.mpr hm
          rw [hc] at hsf; cases hsf
      have hrec := ih (fun x hx => h x (by simp [hx])) (by simp) (base := base ++ '/' :: s) (by simp) hlast
      rw [List.foldl_cons, hstep, hrec]
      simp [joinSegs]

theorem joinSegs_ne_nil {segs : List Text} (h : CleanSegs segs) : joinSegs segs ≠ [] := by
  obtain ⟨hne, hs⟩ := h
  cases segs with
  | nil => exact absurd rfl hne
  | cons s ss =>
    have := (hs s (by simp)).1
    cases ss with
    | nil => simpa [joinSegs]
    | cons t ts => simp [joinSegs, this]

/-- `_fn(base, f)` of a clean relative path is `base/f` -/
theorem fn_clean {segs : List Text} (h : CleanSegs segs) {base : Text} (hb : base ≠ []) (hbs : base.getLast? ≠ some '/') :
    fn base (joinSegs segs) = base ++ '/' :: joinSegs segs := by
  unfold fn
  rw [if_neg (joinSegs_ne_nil h), splitSlash_joinSegs (fun s hs => (h.2 s hs).2) h.1]
  exact foldl_joinPath_clean h.2 h.1 hb hbs

theorem endsWithSlash_of_parts {s : Text} (h : (specParts s).2 ≠ []) : endsWithSlash s = endsWithSlash (specParts s).2 := by
  unfold specParts at h ⊢
  by_cases hc : s.contains ':' = true
  · rw [if_pos hc] at h ⊢
    have := splitColon_eq hc
    cases hp : (splitColon s).2 with
    | nil => exact absurd hp h
    | cons c cs =>
      conv => lhs; rw [this, hp]
      simp only [endsWithSlash]
      rw [show (splitColon s).1 ++ ':' :: c :: cs = ((splitColon s).1 ++ [':']) ++ c :: cs by simp, getLast?_append_cons]
  · rw [if_neg hc] at h; exact absurd rfl h

theorem registry_insert_get (r : Registry) (pkg path : Text) (src : Source) (q : Text) :
    (r.insert pkg path src).get q =
      if q = pkg then some (insert ((r.get pkg).getD []) path src) else r.get q := by
  induction r with
  | nil =>
    simp only [Registry.insert, Registry.get, List.lookup]
    by_cases h : q = pkg
    · subst h; simp
    · have : (q == pkg) = false := by simpa using h
      simp [this, h]
  | cons e rest ih =>
    obtain ⟨p, ovs⟩ := e
    simp only [Registry.insert]
    by_cases hp : p = pkg
    · subst hp
      simp only [if_true, Registry.get, List.lookup]
      by_cases h : q = p
      · subst h; simp
      · have : (q == p) = false := by simpa using h
        simp [this, h]
    · simp only [hp, if_false, Registry.get, List.lookup]
      by_cases h : q = p
      · subst h
        have : q ≠ pkg := hp
        simp [this]
      · have hq : (q == p) = false := by simpa using h
        simp only [hq]
        have := ih
        simp only [Registry.get] at this
        rw [this]
        by_cases h2 : q = pkg
        · subst h2
          have : (q == p) = false := hq
          simp [this]
        · simp [h2]

theorem lstripSlash_head (r : Text) : (lstripSlash r).head? ≠ some '/' := by
  induction r with
  | nil => simp [lstripSlash]
  | cons c cs ih =>
    simp only [lstripSlash]
    split
    · exact ih
    · rename_i h; simpa using h

theorem isPrefixOf_append_self (a b : Text) : a.isPrefixOf (a ++ b) = true := by
  induction a with
  | nil => simp
  | cons c cs ih => simp [ih]

end Pyr.Assets
