import PyramidModel.ActionsConfig
import PyramidModel.Lemmas.ActionsRun
/-! Helper lemmas for C04, part 6: the Configurator layer (`ActionsConfig.lean`): include paths are tree paths,
`processSpec`, commits, and the bridge from `Configurator.commit` to `exec`. -/
namespace Pyr.Actions

/-! ### the syntactic reading of a program: which callable declares what, under which include specs -/

mutual
/-- every `declare` statement below `s`, with the configurator (include specs / route prefixes from the root)
of the callable that contains it; bodies of action callables inherit the declaring configurator -/
def treeDeclsS (c : Cfg) : Stmt → List Seen
  | .declare id _ _ body => ⟨id, c.path, c.rprefix⟩ :: treeDecls c body
  | .include spec rp body => treeDecls (c.enter spec rp) body
  | .commit => []
def treeDecls (c : Cfg) : Stmts → List Seen
  | .nil => []
  | .cons s rest => treeDeclsS c s ++ treeDecls c rest
end

/-- everything the shared state holds was declared by a callable of the program, under that callable's chain
of include specs (`P` = `treeDecls {} program`) -/
structure CInv (P : List Seen) (k : Core) : Prop where
  clos : ∀ cl ∈ k.closures, ∀ e ∈ treeDecls cl.cfg cl.body, e ∈ P
  decl : ∀ d ∈ k.declared, d ∈ P
  acts : ∀ a ∈ k.actions, ∃ d ∈ P, d.id = a.id ∧ d.path = a.path

mutual
theorem walkStmt_inv (P : List Seen) (c : Cfg) : ∀ (s : Stmt) (k : Core),
    (∀ e ∈ treeDeclsS c s, e ∈ P) → CInv P k → CInv P (walkStmt c s k)
  | .declare id disc order body, k, hs, hk => by
    simp only [walkStmt, declareCore]
    simp only [treeDeclsS, List.mem_cons] at hs
    refine ⟨?_, ?_, ?_⟩
    · intro cl hcl e he
      rcases List.mem_append.mp hcl with h | h
      · exact hk.clos cl h e he
      · simp only [List.mem_singleton] at h; subst h
        exact hs e (Or.inr he)
    · intro d hd
      rcases List.mem_append.mp hd with h | h
      · exact hk.decl d h
      · simp only [List.mem_singleton] at h; subst h
        exact hs _ (Or.inl rfl)
    · intro a ha
      rcases List.mem_append.mp ha with h | h
      · exact hk.acts a h
      · simp only [List.mem_singleton] at h; subst h
        exact ⟨_, hs _ (Or.inl rfl), rfl, rfl⟩
  | .include spec rp body, k, hs, hk => by
    simp only [walkStmt]
    split
    · exact hk
    · exact walkStmts_inv P (c.enter spec rp) body _ (by simpa only [treeDeclsS] using hs) ⟨hk.clos, hk.decl, hk.acts⟩
  | .commit, k, _, hk => by
    simp only [walkStmt]
    exact ⟨hk.clos, hk.decl, hk.acts⟩
theorem walkStmts_inv (P : List Seen) (c : Cfg) : ∀ (p : Stmts) (k : Core),
    (∀ e ∈ treeDecls c p, e ∈ P) → CInv P k → CInv P (walkStmts c p k)
  | .nil, k, _, hk => by simpa only [walkStmts] using hk
  | .cons s rest, k, hs, hk => by
    simp only [walkStmts]
    simp only [treeDecls, List.mem_append] at hs
    exact walkStmts_inv P c rest _ (fun e he => hs e (Or.inr he))
      (walkStmt_inv P c s k (fun e he => hs e (Or.inl he)) hk)
end

theorem runClosure_inv {P : List Seen} {k : Core} (hk : CInv P k) (i : Nat) : CInv P (runClosure i k) := by
  unfold runClosure
  split
  · rename_i cl hf
    exact walkStmts_inv P cl.cfg cl.body k (hk.clos cl (List.mem_of_find?_eq_some hf)) hk
  · exact hk

theorem CInv.clearActions {P : List Seen} {k : Core} (hk : CInv P k) : CInv P { k with actions := [] } :=
  ⟨hk.clos, hk.decl, fun a ha => by cases ha⟩

/-- everything a commit executes and everything declared while it runs stems from the program -/
theorem execW_inv {P : List Seen} : ∀ (f : Nat) (st : St) (k : Core) (tr : List (Nat × List Act)), CInv P k →
    (∀ e ∈ tr, ∀ a ∈ e.2, ∃ d ∈ P, d.id = a.id ∧ d.path = a.path) →
    CInv P (execW f st k tr).2.2.1 ∧
      ∀ e ∈ (execW f st k tr).2.2.2, ∀ a ∈ e.2, ∃ d ∈ P, d.id = a.id ∧ d.path = a.path := by
  intro f
  induction f with
  | zero => intro st k tr hk ht; exact ⟨hk, ht⟩
  | succ f ih =>
    intro st k tr hk ht
    simp only [execW]
    cases hn : next (absorb st) with
    | mk ev st' =>
      cases ev with
      | yielded a =>
        simp only
        have h1 := runClosure_inv hk.clearActions a.id
        apply ih _ _ _ h1.clearActions
        intro e he b hb
        rcases List.mem_append.mp he with he | he
        · exact ht e he b hb
        · simp only [List.mem_singleton] at he; subst he
          exact h1.acts b hb
      | done | conflict _ | regress _ _ | stuck => exact ⟨hk, ht⟩

theorem commitCore_inv {P : List Seen} {k : Core} (hk : CInv P k) :
    CInv P (commitCore k).2 ∧ ∀ e ∈ (commitCore k).1.trace, ∀ a ∈ e.2, ∃ d ∈ P, d.id = a.id ∧ d.path = a.path := by
  have := execW_inv (P := P) (closuresSize k.closures + 1) (initSt k.actions) { k with actions := [] } []
    hk.clearActions (by intro e he; cases he)
  refine ⟨⟨fun cl hcl => (by cases hcl), this.1.decl, fun a ha => (by cases ha)⟩, this.2⟩

/-- the commit results recorded so far are sound as well -/
def WInv (P : List Seen) (w : World) : Prop :=
  CInv P w.core ∧ ∀ r ∈ w.commits, ∀ e ∈ r.trace, ∀ a ∈ e.2, ∃ d ∈ P, d.id = a.id ∧ d.path = a.path

mutual
theorem runStmt_inv (P : List Seen) (c : Cfg) : ∀ (s : Stmt) (w : World),
    (∀ e ∈ treeDeclsS c s, e ∈ P) → WInv P w → WInv P (runStmt c s w)
  | .declare id disc order body, w, hs, hw => by
    simp only [runStmt]
    have := walkStmt_inv P c (.declare id disc order body) w.core hs hw.1
    simp only [walkStmt] at this
    exact ⟨this, hw.2⟩
  | .include spec rp body, w, hs, hw => by
    simp only [runStmt]
    split
    · exact hw
    · exact runStmts_inv P (c.enter spec rp) body _ (by simpa only [treeDeclsS] using hs)
        ⟨⟨hw.1.clos, hw.1.decl, hw.1.acts⟩, hw.2⟩
  | .commit, w, _, hw => by
    simp only [runStmt]
    have := commitCore_inv hw.1
    refine ⟨this.1, ?_⟩
    intro r hr
    rcases List.mem_append.mp hr with h | h
    · exact hw.2 r h
    · simp only [List.mem_singleton] at h; subst h; exact this.2
theorem runStmts_inv (P : List Seen) (c : Cfg) : ∀ (p : Stmts) (w : World),
    (∀ e ∈ treeDecls c p, e ∈ P) → WInv P w → WInv P (runStmts c p w)
  | .nil, w, _, hw => by simpa only [runStmts] using hw
  | .cons s rest, w, hs, hw => by
    simp only [runStmts]
    simp only [treeDecls, List.mem_append] at hs
    split
    · exact hw
    · exact runStmts_inv P c rest _ (fun e he => hs e (Or.inr he))
        (runStmt_inv P c s w (fun e he => hs e (Or.inl he)) hw)
end

/-! ### `processSpec`: the set of processed specs only grows between commits -/

mutual
theorem walkStmt_seen (c : Cfg) : ∀ (s : Stmt) (k : Core) (x : Nat), x ∈ k.seen → x ∈ (walkStmt c s k).seen
  | .declare _ _ _ _, k, x, h => by simpa only [walkStmt, declareCore] using h
  | .include spec rp body, k, x, h => by
    simp only [walkStmt]
    split
    · exact h
    · exact walkStmts_seen (c.enter spec rp) body _ x (List.mem_cons_of_mem _ h)
  | .commit, k, x, h => by simpa only [walkStmt] using h
theorem walkStmts_seen (c : Cfg) : ∀ (p : Stmts) (k : Core) (x : Nat), x ∈ k.seen → x ∈ (walkStmts c p k).seen
  | .nil, k, x, h => by simpa only [walkStmts] using h
  | .cons s rest, k, x, h => by
    simp only [walkStmts]
    exact walkStmts_seen c rest _ x (walkStmt_seen c s k x h)
end

theorem include_marks (c : Cfg) (spec : Nat) (rp : Option Nat) (body : Stmts) (k : Core) :
    spec ∈ (walkStmt c (.include spec rp body) k).seen := by
  simp only [walkStmt]
  split
  · rename_i h; exact List.contains_iff_mem.mp h
  · exact walkStmts_seen _ body _ spec (by simp)

/-! ### sequencing -/

theorem runStmts_aborted (c : Cfg) (p : Stmts) (w : World) (h : w.aborted = true) : runStmts c p w = w := by
  cases p with
  | nil => rfl
  | cons s rest => simp [runStmts, h]

theorem runStmts_append (c : Cfg) : ∀ (p q : Stmts) (w : World),
    runStmts c (p.append q) w = runStmts c q (runStmts c p w)
  | .nil, q, w => by simp only [Stmts.append, runStmts]
  | .cons s rest, q, w => by
    simp only [Stmts.append, runStmts]
    split
    · rename_i h; exact (runStmts_aborted c q w h).symm
    · exact runStmts_append c rest q _

/-! ### the bridge: `Configurator.commit` is `exec` for the function "what each executed action declared" -/

/-- what action `i` declared while it ran, read off the trace of the commit -/
def kidsOf (tr : List (Nat × List Act)) (i : Nat) : List Act :=
  match tr.find? (fun e => e.1 == i) with
  | some e => e.2
  | none => []

theorem kidsOf_of_mem {tr : List (Nat × List Act)} (hn : (tr.map (·.1)).Nodup) {i : Nat} {ks : List Act}
    (h : (i, ks) ∈ tr) : kidsOf tr i = ks := by
  induction tr with
  | nil => cases h
  | cons e rest ih =>
    simp only [List.map_cons, List.nodup_cons] at hn
    unfold kidsOf
    rw [List.find?_cons]
    rcases List.mem_cons.mp h with rfl | h'
    · simp
    · have : (e.1 == i) = false := by
        apply Bool.eq_false_iff.mpr
        intro he
        exact hn.1 (List.mem_map.mpr ⟨(i, ks), h', (by simpa using he : e.1 = i).symm⟩)
      rw [this]
      exact ih hn.2 h'

theorem execW_trace_extends : ∀ (f : Nat) (st : St) (k : Core) (tr : List (Nat × List Act)),
    ∃ ext, (execW f st k tr).2.2.2 = tr ++ ext := by
  intro f
  induction f with
  | zero => intro st k tr; exact ⟨[], by simp [execW]⟩
  | succ f ih =>
    intro st k tr
    simp only [execW]
    cases hn : next (absorb st) with
    | mk ev st' =>
      cases ev with
      | yielded a =>
        simp only
        obtain ⟨ext, he⟩ := ih { st' with log := a :: st'.log, pending := (runClosure a.id { k with actions := [] }).actions }
          { runClosure a.id { k with actions := [] } with actions := [] }
          (tr ++ [(a.id, (runClosure a.id { k with actions := [] }).actions)])
        exact ⟨_, by rw [he, List.append_assoc]⟩
      | done | conflict _ | regress _ _ | stuck => exact ⟨[], by simp⟩

/-- The commit is `exec K` for every `K` that answers, for each executed action, what its callable declared. -/
theorem execW_eq_exec_of : ∀ (f : Nat) (st : St) (k : Core) (tr : List (Nat × List Act)) (K : Nat → List Act),
    (∀ e ∈ (execW f st k tr).2.2.2, K e.1 = e.2) →
    exec K f st = ((execW f st k tr).1, (execW f st k tr).2.1) := by
  intro f
  induction f with
  | zero => intro st k tr K _; rfl
  | succ f ih =>
    intro st k tr K hK
    simp only [execW, exec] at hK ⊢
    cases hnx : next (absorb st) with
    | mk ev st' =>
      rw [hnx] at hK
      cases ev with
      | yielded a =>
        simp only at hK ⊢
        obtain ⟨ext, he⟩ := execW_trace_extends f
          { st' with log := a :: st'.log, pending := (runClosure a.id { k with actions := [] }).actions }
          { runClosure a.id { k with actions := [] } with actions := [] }
          (tr ++ [(a.id, (runClosure a.id { k with actions := [] }).actions)])
        have hka : K a.id = (runClosure a.id { k with actions := [] }).actions :=
          hK (a.id, (runClosure a.id { k with actions := [] }).actions) (by rw [he]; simp)
        rw [hka]
        exact ih _ _ _ K hK
      | done | conflict _ | regress _ _ | stuck => rfl

/-- If no action id was executed twice, the commit is `exec` with `kids` = "what each executed action declared". -/
theorem execW_eq_exec (f : Nat) (st : St) (k : Core) (tr : List (Nat × List Act))
    (hn : ((execW f st k tr).2.2.2.map (·.1)).Nodup) :
    exec (kidsOf (execW f st k tr).2.2.2) f st = ((execW f st k tr).1, (execW f st k tr).2.1) :=
  execW_eq_exec_of f st k tr _ (fun e he => kidsOf_of_mem hn (by cases e; exact he))

/-- callables that declare nothing: nothing is ever appended -/
theorem execW_static : ∀ (f : Nat) (st : St) (k : Core) (tr : List (Nat × List Act)),
    (∀ cl ∈ k.closures, cl.body = .nil) → k.actions = [] → (∀ e ∈ tr, e.2 = []) →
    ∀ e ∈ (execW f st k tr).2.2.2, e.2 = [] := by
  intro f
  induction f with
  | zero => intro st k tr _ _ ht; exact ht
  | succ f ih =>
    intro st k tr hc ha ht
    simp only [execW]
    cases hnx : next (absorb st) with
    | mk ev st' =>
      cases ev with
      | yielded a =>
        simp only
        have hk : { k with actions := [] } = k := by cases k; simp_all
        have hrun : runClosure a.id k = k := by
          unfold runClosure
          split
          · rename_i cl hf
            rw [hc cl (List.mem_of_find?_eq_some hf)]; rfl
          · rfl
        rw [hk, hrun, ha, hk]
        apply ih _ _ _ hc ha
        intro e he
        rcases List.mem_append.mp he with he | he
        · exact ht e he
        · simp only [List.mem_singleton] at he; subst he; rfl
      | done | conflict _ | regress _ _ | stuck => exact ht

end Pyr.Actions
