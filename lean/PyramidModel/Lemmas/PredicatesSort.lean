import PyramidModel.Predicates
/-! X06 helper lemmas: the order on texts, `sortT`, `joinWith`, `splitFirst`, `strip`. -/
namespace Pyr.Pred
open Pyr

theorem tle_refl : ∀ a : Text, tle a a = true
  | [] => rfl
  | c :: cs => by simp [tle, tle_refl cs]

theorem tle_total : ∀ a b : Text, tle a b = true ∨ tle b a = true
  | [], _ => Or.inl rfl
  | _ :: _, [] => Or.inr rfl
  | a :: as, b :: bs => by
    simp only [tle]
    by_cases h1 : a.toNat < b.toNat
    · simp [h1]
    · by_cases h2 : b.toNat < a.toNat
      · simp [h2]
      · simp only [h1, h2, if_false]
        exact tle_total as bs

theorem char_eq_of_toNat {a b : Char} (h : a.toNat = b.toNat) : a = b := by
  apply Char.ext
  apply UInt32.toNat_inj.mp
  exact h

theorem tle_antisymm : ∀ a b : Text, tle a b = true → tle b a = true → a = b
  | [], [], _, _ => rfl
  | [], _ :: _, _, h => by simp [tle] at h
  | _ :: _, [], h, _ => by simp [tle] at h
  | a :: as, b :: bs, h1, h2 => by
    simp only [tle] at h1 h2
    by_cases l1 : a.toNat < b.toNat
    · have : ¬ b.toNat < a.toNat := by omega
      simp [l1, this] at h2
    · by_cases l2 : b.toNat < a.toNat
      · simp [l1, l2] at h1
      · simp only [l1, l2, if_false] at h1 h2
        have e : a = b := char_eq_of_toNat (by omega)
        rw [e, tle_antisymm as bs h1 h2]

theorem tle_trans : ∀ a b c : Text, tle a b = true → tle b c = true → tle a c = true
  | [], _, _, _, _ => by simp [tle]
  | _ :: _, [], _, h, _ => by simp [tle] at h
  | _ :: _, _ :: _, [], _, h => by simp [tle] at h
  | a :: as, b :: bs, c :: cs, h1, h2 => by
    simp only [tle] at h1 h2 ⊢
    by_cases l1 : a.toNat < b.toNat
    · by_cases l2 : b.toNat < c.toNat
      · have : a.toNat < c.toNat := by omega
        simp [this]
      · by_cases l3 : c.toNat < b.toNat
        · simp [l2, l3] at h2
        · have : a.toNat < c.toNat := by omega
          simp [this]
    · by_cases l1' : b.toNat < a.toNat
      · simp [l1, l1'] at h1
      · simp only [l1, l1', if_false] at h1
        by_cases l2 : b.toNat < c.toNat
        · have : a.toNat < c.toNat := by omega
          simp [this]
        · by_cases l3 : c.toNat < b.toNat
          · simp [l2, l3] at h2
          · simp only [l2, l3, if_false] at h2
            have n1 : ¬ a.toNat < c.toNat := by omega
            have n2 : ¬ c.toNat < a.toNat := by omega
            simp only [n1, n2, if_false]
            exact tle_trans as bs cs h1 h2

theorem insertT_perm (x : Text) : ∀ l : List Text, (insertT x l).Perm (x :: l)
  | [] => List.Perm.refl _
  | y :: ys => by
    simp only [insertT]
    split
    · exact List.Perm.refl _
    · exact ((insertT_perm x ys).cons y).trans (List.Perm.swap x y ys)

theorem sortT_perm : ∀ l : List Text, (sortT l).Perm l
  | [] => List.Perm.refl _
  | x :: xs => (insertT_perm x (sortT xs)).trans ((sortT_perm xs).cons x)

theorem mem_sortT {x : Text} {l : List Text} : x ∈ sortT l ↔ x ∈ l := (sortT_perm l).mem_iff

def Sorted (l : List Text) : Prop := List.Pairwise (fun a b => tle a b = true) l

theorem insertT_sorted (x : Text) : ∀ l : List Text, Sorted l → Sorted (insertT x l)
  | [], _ => by simp [insertT, Sorted]
  | y :: ys, h => by
    simp only [insertT]
    have hy := List.pairwise_cons.mp h
    split
    · rename_i hxy
      apply List.pairwise_cons.mpr
      refine ⟨?_, h⟩
      intro z hz
      rcases List.mem_cons.mp hz with rfl | hz
      · exact hxy
      · exact tle_trans _ _ _ hxy (hy.1 z hz)
    · rename_i hxy
      have hyx : tle y x = true := by
        rcases tle_total x y with h | h
        · exact absurd h hxy
        · exact h
      apply List.pairwise_cons.mpr
      refine ⟨?_, insertT_sorted x ys hy.2⟩
      intro z hz
      rcases List.mem_cons.mp ((insertT_perm x ys).mem_iff.mp hz) with rfl | hz
      · exact hyx
      · exact hy.1 z hz

theorem sortT_sorted : ∀ l : List Text, Sorted (sortT l)
  | [] => List.Pairwise.nil
  | x :: xs => insertT_sorted x _ (sortT_sorted xs)

/-- `sorted` forgets the order its argument came in -/
theorem sortT_eq_of_perm {l₁ l₂ : List Text} (h : l₁.Perm l₂) : sortT l₁ = sortT l₂ :=
  List.Perm.eq_of_pairwise (le := fun a b => tle a b = true) (fun a b _ _ h1 h2 => tle_antisymm a b h1 h2)
    (sortT_sorted l₁) (sortT_sorted l₂) (((sortT_perm l₁).trans h).trans (sortT_perm l₂).symm)

theorem sortT_idem (l : List Text) : sortT (sortT l) = sortT l := sortT_eq_of_perm (sortT_perm l)

/-! ### `splitFirst` -/

theorem splitFirst_some_iff (c : Char) : ∀ (t a b : Text), splitFirst c t = some (a, b) ↔ t = a ++ c :: b ∧ c ∉ a
  | [], a, b => by
    simp only [splitFirst]
    constructor
    · intro h; cases h
    · intro ⟨h, _⟩; cases a <;> simp at h
  | x :: xs, a, b => by
    simp only [splitFirst]
    by_cases hx : x = c
    · subst hx
      simp only [if_true]
      constructor
      · intro h
        cases h
        simp
      · intro ⟨h, hn⟩
        cases a with
        | nil => simp at h; simp [h]
        | cons y ys =>
          simp at h
          exact absurd (h.1 ▸ List.mem_cons_self) hn
    · simp only [hx, if_false]
      cases hs : splitFirst c xs with
      | none =>
        simp only
        constructor
        · intro h; cases h
        · intro ⟨h, hn⟩
          cases a with
          | nil => simp at h; exact absurd h.1 hx
          | cons y ys =>
            simp at h
            have := (splitFirst_some_iff c xs ys b).mpr ⟨h.2, fun hm => hn (List.mem_cons_of_mem _ hm)⟩
            rw [hs] at this; cases this
      | some p =>
        obtain ⟨a', b'⟩ := p
        simp only
        have ih := (splitFirst_some_iff c xs a' b').mp hs
        constructor
        · intro h
          cases h
          refine ⟨by rw [ih.1]; rfl, ?_⟩
          intro hm
          rcases List.mem_cons.mp hm with h | h
          · exact hx h.symm
          · exact ih.2 h
        · intro ⟨h, hn⟩
          cases a with
          | nil => simp at h; exact absurd h.1 hx
          | cons y ys =>
            simp at h
            have := (splitFirst_some_iff c xs ys b).mpr ⟨h.2, fun hm => hn (List.mem_cons_of_mem _ hm)⟩
            rw [hs] at this
            cases this
            rw [h.1]

theorem splitFirst_none_iff (c : Char) : ∀ t : Text, splitFirst c t = none ↔ c ∉ t
  | [] => by simp [splitFirst]
  | x :: xs => by
    simp only [splitFirst]
    by_cases hx : x = c
    · subst hx; simp
    · simp only [hx, if_false]
      cases hs : splitFirst c xs with
      | none =>
        have := (splitFirst_none_iff c xs).mp hs
        simp [this, Ne.symm hx]
      | some p =>
        have hne : ¬ (c ∉ xs) := fun h => by
          have := (splitFirst_none_iff c xs).mpr h
          rw [hs] at this; cases this
        simp only [reduceCtorEq, false_iff]
        intro h
        exact hne (fun hm => h (List.mem_cons_of_mem _ hm))

end Pyr.Pred
