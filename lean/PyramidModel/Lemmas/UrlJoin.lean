import PyramidModel.Lemmas.UrlWhole
/-
Helper lemmas for C17, part 6: `urljoin(base, quote(subpath))` — the external static branch.

A subpath quoted with urllib's default safe set (`/`) contains no `:`, `?`, `#`, `;`, and starts with `/` only if
the subpath does; so the parser reads it as a bare relative path, and — when its segments need no resolution — the
join appends it to the base directory.
-/
namespace Pyr.Url
open Pyr Pyr.Trav Pyr.Pct

/-! ### UTF-8: an ASCII byte comes from that ASCII character only -/

theorem ascii_byte_of_char (c : Char) (b : UInt8) (hb : b ∈ String.utf8EncodeChar c) (hlt : b.toNat < 128) :
    c.toNat = b.toNat := by
  have hc : c.val.toNat = c.toNat := rfl
  rw [String.utf8EncodeChar.eq_1] at hb
  split at hb
  · rename_i h
    simp only [List.mem_singleton] at hb
    subst hb
    simp only [UInt8.toNat_ofNat'] at hlt ⊢
    omega
  · split at hb
    · simp only [List.mem_cons, List.not_mem_nil, or_false] at hb
      rcases hb with e | e <;> subst e <;> simp only [UInt8.toNat_ofNat'] at hlt <;> omega
    · split at hb
      · simp only [List.mem_cons, List.not_mem_nil, or_false] at hb
        rcases hb with e | e | e <;> subst e <;> simp only [UInt8.toNat_ofNat'] at hlt <;> omega
      · simp only [List.mem_cons, List.not_mem_nil, or_false] at hb
        rcases hb with e | e | e | e <;> subst e <;> simp only [UInt8.toNat_ofNat'] at hlt <;> omega

theorem utf8EncodeChar_ne_nil (c : Char) : String.utf8EncodeChar c ≠ [] := by
  intro h
  have := String.length_utf8EncodeChar c
  rw [h] at this
  have hp : 0 < c.utf8Size := Char.utf8Size_pos c
  simp at this
  omega

/-! ### the quoted subpath -/

theorem quoteBytes_head_slash (safe : List UInt8) (b : UInt8) (bs : Bytes)
    (h : (quoteBytes safe (b :: bs)).head? = some '/') : b = 47 := by
  unfold quoteBytes at h
  split at h
  · simp only [List.head?_cons, Option.some.injEq] at h
    have := congrArg Char.toNat h
    rw [byteChar_toNat] at this
    exact UInt8.toNat_inj.mp (by simpa using this)
  · simp at h

/-- a quoted text starts with `/` only if the text does -/
theorem quote_head_ne_slash (safe : List UInt8) (t : Text) (h : t.head? ≠ some '/') :
    (quote safe t).head? ≠ some '/' := by
  cases t with
  | nil => simp [quote, utf8Enc, quoteBytes]
  | cons c r =>
    intro hq
    have hc : c ≠ '/' := fun e => h (by simp [e])
    unfold quote utf8Enc at hq
    simp only [List.flatMap_cons] at hq
    cases he : String.utf8EncodeChar c with
    | nil => exact utf8EncodeChar_ne_nil c he
    | cons b rest =>
      rw [he] at hq
      simp only [List.cons_append] at hq
      have hb := quoteBytes_head_slash safe b _ hq
      have := ascii_byte_of_char c b (by rw [he]; simp) (by subst hb; decide)
      subst hb
      exact hc ((char_eq_iff c '/').mpr (by simpa using this))

/-- a text quoted with the safe set `/` holds none of `: ? # ;` -/
theorem quoted_subpath_chars (t : Text) :
    ':' ∉ quote [47] t ∧ '?' ∉ quote [47] t ∧ '#' ∉ quote [47] t ∧ ';' ∉ quote [47] t := by
  refine ⟨?_, ?_, ?_, ?_⟩ <;>
    (apply not_mem_quoteBytes
     · decide
     · decide
     · intro b hb; simp only [List.mem_singleton] at hb; subst hb; decide)

theorem quoted_subpath_wf (t : Text) : pctWF isPathC (quote [47] t) = true :=
  pctWF_quote isPathC [47] (by decide) unres_path t

/-! ### the parser on a bare relative path -/

theorem urlsplit_relative (q : Text) (hwf : pctWF isPathC q = true) (hnc : ':' ∉ q) (hh : q.head? ≠ some '/') :
    urlsplit q = some ⟨[], [], q, [], []⟩ := by
  have hchars : ∀ c ∈ q, 32 < c.toNat ∧ c ≠ '?' ∧ c ≠ '#' ∧ c ≠ '[' ∧ c ≠ ']' :=
    fun c hc => pathC_gt c (mem_of_pctWF _ _ hwf c hc)
  unfold urlsplit
  simp only [strip_id q (fun c hc => (hchars c hc).1)]
  have hs : splitScheme q = ([], q) := by simp [splitScheme, cut_no_sep ':' q hnc]
  have hn : splitNetloc q = ([], q) := by
    unfold splitNetloc
    split
    · rename_i r; exact absurd (by simp) hh
    · rfl
  have hk : netlocOk [] = true := by decide
  have h1 : cut '#' q = (q, none) := cut_no_sep '#' q (fun m => (hchars '#' m).2.2.1 rfl)
  have h2 : cut '?' q = (q, none) := cut_no_sep '?' q (fun m => (hchars '?' m).2.1 rfl)
  simp only [hs, hn, hk, Bool.not_true, Bool.false_eq_true, if_false, h1, h2, Option.getD_none]

/-! ### segments: `'/'.join(s.split('/')) == s`, and the join of normal segments -/

theorem joinWith_cons_cons (sep c : Char) (p : Text) (ps : List Text) :
    joinWith sep ((c :: p) :: ps) = c :: joinWith sep (p :: ps) := by
  cases ps <;> simp [joinWith]

theorem joinWith_splitOn (sep : Char) (t : Text) : joinWith sep (splitOn sep t) = t := by
  induction t with
  | nil => simp [splitOn, joinWith]
  | cons c cs ih =>
    by_cases h : c = sep
    · subst h
      rw [splitOn_cons_sep]
      cases hs : splitOn c cs with
      | nil => exact absurd hs (splitOn_ne_nil c cs)
      | cons p ps => rw [hs] at ih; simp [joinWith, ih]
    · obtain ⟨p, ps, h1, h2⟩ := splitOn_cons_ne sep c cs h
      rw [h2, joinWith_cons_cons, ← h1, ih]

def notDot (s : Text) : Bool := s ≠ ['.'] && s ≠ ['.', '.']

/-- segments that need no resolution: every one but possibly the last non-empty, none `.` or `..` -/
def normalSegs (segs : List Text) : Bool := segs.dropLast.all (fun s => !s.isEmpty) && segs.all notDot

theorem foldl_dotStep_id (segs acc : List Text) (h : segs.all notDot = true) :
    segs.foldl dotStep acc = acc ++ segs := by
  induction segs generalizing acc with
  | nil => simp
  | cons s r ih =>
    simp only [List.all_cons, Bool.and_eq_true] at h
    have hs := h.1
    simp only [notDot, Bool.and_eq_true, decide_eq_true_eq] at hs
    simp only [List.foldl_cons, dotStep, hs.1, hs.2, if_false]
    rw [ih _ h.2]; simp

theorem filter_nonempty_id (l : List Text) (h : l.all (fun s => !s.isEmpty) = true) :
    l.filter (fun s => !s.isEmpty) = l :=
  List.filter_eq_self.mpr (fun s hs => List.all_eq_true.mp h s hs)

/-- the middle-filter step on base directory + separator + normal reference segments -/
theorem dropEmptyMiddle_join (h : Text) (dirs sq : List Text) (hd : dirs.all (fun s => !s.isEmpty) = true)
    (hq : sq.dropLast.all (fun s => !s.isEmpty) = true) (hne : sq ≠ []) :
    dropEmptyMiddle ((h :: dirs) ++ [[]] ++ sq) = (h :: dirs) ++ sq := by
  have hl : (dirs ++ [[]] ++ sq).getLast? = sq.getLast? := by
    rw [List.getLast?_append]
    cases hs : sq.getLast? with
    | none => exact absurd (List.getLast?_eq_none_iff.mp hs) hne
    | some x => simp
  have hdl : (dirs ++ [[]] ++ sq).dropLast = dirs ++ [[]] ++ sq.dropLast := by
    rw [List.dropLast_append_of_ne_nil hne]
  simp only [List.cons_append, dropEmptyMiddle, hl, hdl, List.filter_append, filter_nonempty_id _ hd,
    filter_nonempty_id _ hq]
  have : sq.dropLast ++ sq.getLast?.toList = sq := by
    cases hs : sq.getLast? with
    | none => exact absurd (List.getLast?_eq_none_iff.mp hs) hne
    | some x =>
      have hx : sq.getLast hne = x := by
        rw [List.getLast?_eq_some_getLast hne] at hs; exact Option.some.inj hs
      rw [← hx]; exact List.dropLast_concat_getLast hne
  simp [List.append_assoc, this]

/-- **the join on a normal reference**: base path `x/`, reference `q` not starting with `/`, both with segments
that need no resolution ⇒ the joined path is `x/q` -/
theorem joinPaths_normal (x q : Text) (hq0 : q.head? ≠ some '/')
    (hx : (splitOn '/' x).tail.all (fun s => !s.isEmpty) = true) (hxd : (splitOn '/' x).all notDot = true)
    (hq : normalSegs (splitOn '/' q) = true) :
    joinPaths (x ++ ['/']) q = x ++ '/' :: q := by
  simp only [normalSegs, Bool.and_eq_true] at hq
  have hsx : splitOn '/' (x ++ ['/']) = splitOn '/' x ++ [[]] := by
    have := splitOn_append_sep '/' x []
    simpa [splitOn] using this
  obtain ⟨h, dirs, hhd⟩ : ∃ h dirs, splitOn '/' x = h :: dirs := by
    cases hs : splitOn '/' x with
    | nil => exact absurd hs (splitOn_ne_nil '/' x)
    | cons a b => exact ⟨a, b, rfl⟩
  have hsq := splitOn_ne_nil '/' q
  unfold joinPaths
  have hlast : (splitOn '/' (x ++ ['/'])).getLast? = some [] := by rw [hsx]; simp
  simp only [hlast, bne_self_eq_false, Bool.false_eq_true, if_false]
  have hq0' : ¬ (q.head? = some '/') := hq0
  simp only [hq0', if_false, hsx, hhd]
  rw [hhd] at hx hxd
  simp only [List.tail_cons] at hx
  have hdm := dropEmptyMiddle_join h dirs (splitOn '/' q) hx hq.1 hsq
  simp only [List.cons_append] at hdm ⊢
  have hdm' : dropEmptyMiddle (h :: (dirs ++ [[]] ++ splitOn '/' q)) = h :: (dirs ++ splitOn '/' q) := by
    simpa [List.append_assoc] using hdm
  simp only [List.append_assoc] at hdm' ⊢
  rw [hdm']
  have hall : (h :: (dirs ++ splitOn '/' q)).all notDot = true := by
    have : (h :: (dirs ++ splitOn '/' q)) = (h :: dirs) ++ splitOn '/' q := by simp
    rw [this, List.all_append, hxd, hq.2]; rfl
  rw [foldl_dotStep_id _ [] hall]
  simp only [List.nil_append]
  -- the last segment is not a dot segment
  have hlastnd : ¬ ((h :: (dirs ++ splitOn '/' q)).getLast? = some ['.'] ∨
      (h :: (dirs ++ splitOn '/' q)).getLast? = some ['.', '.']) := by
    intro hor
    have hmem : ∀ s, (h :: (dirs ++ splitOn '/' q)).getLast? = some s → notDot s = true :=
      fun s hs => List.all_eq_true.mp hall s (List.mem_of_getLast? hs)
    rcases hor with e | e
    · exact absurd (hmem _ e) (by decide)
    · exact absurd (hmem _ e) (by decide)
  have hl2 : (decide ((h :: (dirs ++ splitOn '/' q)).getLast? = some ['.']) ||
      decide ((h :: (dirs ++ splitOn '/' q)).getLast? = some ['.', '.'])) = false := by
    cases hb : (decide ((h :: (dirs ++ splitOn '/' q)).getLast? = some ['.']) ||
      decide ((h :: (dirs ++ splitOn '/' q)).getLast? = some ['.', '.'])) with
    | false => rfl
    | true =>
      simp only [Bool.or_eq_true, decide_eq_true_eq] at hb
      exact absurd hb hlastnd
  simp only [hl2, Bool.false_eq_true, if_false]
  have hj : joinWith '/' (h :: (dirs ++ splitOn '/' q)) = x ++ '/' :: q := by
    have := joinWith_splitOn '/' (x ++ '/' :: q)
    rw [splitOn_append_sep, hhd] at this
    simpa using this
  rw [hj]
  have : x ++ '/' :: q ≠ [] := by simp
  simp [this]

end Pyr.Url
