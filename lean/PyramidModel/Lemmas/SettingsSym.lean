import PyramidModel.Lemmas.SettingsSpec
/-!
X02 — symbolic execution of a `Settings` statement list, sound for every input dictionary and environment.

`symRun prog` computes, WITHOUT looking at the inputs, what every key of the result holds: the original entry (`orig`), the
converted highest-precedence source of a row (`base`), or the disjunction of the `asbool`ed sources of a list of rows
(`ors`).  It fails closed (`none`) on any statement list whose effect it cannot describe that way (a key written twice by
`S`, an `or` over something that is not known to be a bool, a row without environment variable or with a prefixed name).
`run_sound` proves by induction over the statement list that the executable model agrees with the description for ALL
dictionaries and environments; the property theorems then only have to compare the (finite) description of the real
statement list with the declarative table — by `decide`.
-/
namespace Pyr.Settings

/-! ## dictionaries -/

theorem get_set (d : Dict) (k k' : Text) (v : Val) :
    get (set d k v) k' = if k = k' then some v else get d k' := by
  induction d with
  | nil => simp [set, get]
  | cons kv rest ih =>
    obtain ⟨a, b⟩ := kv
    simp only [set]
    by_cases hak : a = k
    · subst hak
      simp only [if_true, get]
      by_cases h : a = k' <;> simp [h]
    · simp only [hak, if_false, get, ih]
      by_cases hk : k = k'
      · subst hk; simp [hak]
      · simp [hk]

inductive Sym where
  | orig (k : Text)
  | base (r : Row)
  | ors (rs : List Row)
deriving DecidableEq, Repr

abbrev SymSt := List (Text × Sym)

def symLookup : SymSt → Text → Option Sym
  | [], _ => none
  | (k', v) :: rest, k => if k' = k then some v else symLookup rest k

def symGet (st : SymSt) (k : Text) : Sym :=
  match symLookup st k with
  | some x => x
  | none => .orig k

def symSet : SymSt → Text → Sym → SymSt
  | [], k, v => [(k, v)]
  | (k', v') :: rest, k, v => if k' = k then (k, v) :: rest else (k', v') :: symSet rest k v

theorem symLookup_symSet (st : SymSt) (k k' : Text) (v : Sym) :
    symLookup (symSet st k v) k' = if k = k' then some v else symLookup st k' := by
  induction st with
  | nil => simp [symSet, symLookup]
  | cons kv rest ih =>
    obtain ⟨a, b⟩ := kv
    simp only [symSet]
    by_cases hak : a = k
    · subst hak
      simp only [if_true, symLookup]
      by_cases h : a = k' <;> simp [h]
    · simp only [hak, if_false, symLookup, ih]
      by_cases hk : k = k'
      · subst hk; simp [hak]
      · simp [hk]

theorem symGet_symSet (st : SymSt) (k k' : Text) (v : Sym) :
    symGet (symSet st k v) k' = if k = k' then v else symGet st k' := by
  unfold symGet
  rw [symLookup_symSet]
  by_cases hk : k = k' <;> simp [hk]

/-! ## rows the description can handle -/

/-- the row asks the environment and its name is not already prefixed -/
def rowOk (r : Row) : Bool := r.env != [] && !(pfx.isPrefixOf r.name)

theorem expandKey_of_rowOk {r : Row} (h : rowOk r = true) : expandKey r.name = [r.name, pfx ++ r.name] := by
  simp only [rowOk, Bool.and_eq_true, Bool.not_eq_true'] at h
  simp [expandKey, h.2]

theorem sourceOf_eq_spec {r : Row} (h : rowOk r = true) (d : Dict) (env : Env) :
    sourceOf r d env = specSource r d env := by
  have hk := expandKey_of_rowOk h
  simp only [rowOk, Bool.and_eq_true, bne_iff_ne, ne_eq] at h
  unfold sourceOf specSource
  simp only [hk, h.1, if_false, List.foldl_cons, List.foldl_nil]
  cases eget env r.env <;> cases get d (pfx ++ r.name) <;> cases get d r.name <;> rfl

theorem specSource_congr (r : Row) (d1 d2 : Dict) (env : Env)
    (h1 : get d1 r.name = get d2 r.name) (h2 : get d1 (pfx ++ r.name) = get d2 (pfx ++ r.name)) :
    specSource r d1 env = specSource r d2 env := by
  unfold specSource
  rw [h1, h2]

/-! ## the description and its meaning -/

def symOf (r : Row) : Sym := if r.kind = .bool then .ors [r] else .base r

def symS (r : Row) (st : SymSt) : Option SymSt :=
  if rowOk r && (symLookup st r.name).isNone && (symLookup st (pfx ++ r.name)).isNone then
    some (symSet (symSet st r.name (symOf r)) (pfx ++ r.name) (symOf r))
  else none

def symOrInto (target a b : Text) (st : SymSt) : Option SymSt :=
  match symGet st a, symGet st b with
  | .ors x, .ors y => some (symSet st target (.ors (x ++ y)))
  | _, _ => none

def symForKeys (f : Text → SymSt → Option SymSt) : List Text → SymSt → Option SymSt
  | [], st => some st
  | k :: ks, st => match f k st with
    | none => none
    | some st' => symForKeys f ks st'

def symStep : Step → SymSt → Option SymSt
  | .S r, st => symS r st
  | .O name over, st => symForKeys (fun k st => symOrInto k k over st) (expandKey name) st
  | .A a b, st => symForKeys (fun k st => symOrInto k a b st) (expandKey a ++ expandKey b) st

def symRun : List Step → SymSt → Option SymSt
  | [], st => some st
  | stp :: rest, st => match symStep stp st with
    | none => none
    | some st' => symRun rest st'

/-- what `get` returns for a key described by the symbol, in terms of the ORIGINAL dictionary and environment -/
def den (d : Dict) (env : Env) : Sym → Option Val
  | .orig k => get d k
  | .base r => match conv r.kind (specSource r d env) with
    | .ok v => some v
    | .error _ => none
  | .ors rs => some (.bool (rs.any fun r => asbool (specSource r d env)))

/-- the current dictionary is described by the symbolic state -/
def Rel (d : Dict) (env : Env) (st : SymSt) (cur : Dict) : Prop :=
  ∀ k, get cur k = den d env (symGet st k)

theorem rel_nil (d : Dict) (env : Env) : Rel d env [] d := fun _ => rfl

theorem rel_set {d : Dict} {env : Env} {st : SymSt} {cur : Dict} (h : Rel d env st cur)
    (k : Text) (sym : Sym) (v : Val) (hv : den d env sym = some v) :
    Rel d env (symSet st k sym) (set cur k v) := by
  intro k'
  rw [get_set, symGet_symSet]
  by_cases hk : k = k'
  · simp [hk, hv]
  · simp [hk, h k']

theorem pyOr_bool (x y : Bool) : pyOr (.bool x) (.bool y) = .bool (x || y) := by
  cases x <;> simp [pyOr, truth]

theorem orInto_sound {d : Dict} {env : Env} {st st' : SymSt} {cur : Dict} (h : Rel d env st cur)
    (t a b : Text) (hs : symOrInto t a b st = some st') :
    ∃ cur', orInto t a b cur = .ok cur' ∧ Rel d env st' cur' := by
  unfold symOrInto at hs
  split at hs
  · next x y hx hy =>
    simp only [Option.some.injEq] at hs
    subst hs
    have ha := h a
    have hb := h b
    rw [hx] at ha
    rw [hy] at hb
    simp only [den] at ha hb
    refine ⟨set cur t (.bool ((x ++ y).any fun r => asbool (specSource r d env))), ?_, ?_⟩
    · simp [orInto, ha, hb, pyOr_bool, List.any_append]
    · exact rel_set h t _ _ rfl
  · simp at hs

theorem forKeys_sound {d : Dict} {env : Env} (fs : Text → SymSt → Option SymSt) (f : Text → Dict → Except Err Dict)
    (hf : ∀ k st st' cur, Rel d env st cur → fs k st = some st' → ∃ cur', f k cur = .ok cur' ∧ Rel d env st' cur')
    (ks : List Text) : ∀ (st st' : SymSt) (cur : Dict), Rel d env st cur → symForKeys fs ks st = some st' →
      ∃ cur', forKeys f ks cur = .ok cur' ∧ Rel d env st' cur' := by
  induction ks with
  | nil =>
    intro st st' cur h hs
    simp only [symForKeys, Option.some.injEq] at hs
    subst hs
    exact ⟨cur, rfl, h⟩
  | cons k ks ih =>
    intro st st' cur h hs
    simp only [symForKeys] at hs
    split at hs
    · simp at hs
    · next st1 h1 =>
      obtain ⟨cur1, hc1, hr1⟩ := hf k st st1 cur h h1
      obtain ⟨cur2, hc2, hr2⟩ := ih st1 st' cur1 hr1 hs
      exact ⟨cur2, by simp [forKeys, hc1, hc2], hr2⟩

theorem den_symOf {r : Row} {d : Dict} {env : Env} {v : Val} (h : conv r.kind (specSource r d env) = .ok v) :
    den d env (symOf r) = some v := by
  unfold symOf
  by_cases hk : r.kind = .bool
  · rw [hk] at h
    simp only [conv, Except.ok.injEq] at h
    subst h
    simp [hk, den]
  · simp [hk, den, h]

/-- one `S` statement: its source is read from untouched keys, so it is the source of the ORIGINAL inputs -/
theorem stepS_sound {d : Dict} {env : Env} {st st' : SymSt} {cur : Dict} (h : Rel d env st cur)
    (r : Row) (hs : symS r st = some st') :
    (∀ v, conv r.kind (specSource r d env) = .ok v → ∃ cur', stepS r env cur = .ok cur' ∧ Rel d env st' cur') ∧
    (∀ e, conv r.kind (specSource r d env) = .error e → stepS r env cur = .error e) := by
  unfold symS at hs
  split at hs
  · next hc =>
    simp only [Bool.and_eq_true, Option.isNone_iff_eq_none] at hc
    obtain ⟨⟨hok, hn1⟩, hn2⟩ := hc
    simp only [Option.some.injEq] at hs
    subst hs
    have g1 : get cur r.name = get d r.name := by
      have := h r.name
      simpa [symGet, hn1, den] using this
    have g2 : get cur (pfx ++ r.name) = get d (pfx ++ r.name) := by
      have := h (pfx ++ r.name)
      simpa [symGet, hn2, den] using this
    have hsrc : sourceOf r cur env = specSource r d env := by
      rw [sourceOf_eq_spec hok]
      exact specSource_congr r cur d env g1 g2
    have hkeys := expandKey_of_rowOk hok
    constructor
    · intro v hv
      refine ⟨set (set cur r.name v) (pfx ++ r.name) v, ?_, ?_⟩
      · simp [stepS, hsrc, hv, hkeys]
      · exact rel_set (rel_set h _ _ _ (den_symOf hv)) _ _ _ (den_symOf hv)
    · intro e he
      simp [stepS, hsrc, he]
  · simp at hs

/-- every `S` row of the list converts -/
def Converts (d : Dict) (env : Env) (prog : List Step) : Prop :=
  ∀ r, Step.S r ∈ prog → ∃ v, conv r.kind (specSource r d env) = .ok v

theorem step_sound {d : Dict} {env : Env} {st st' : SymSt} {cur : Dict} (h : Rel d env st cur)
    (stp : Step) (hs : symStep stp st = some st') :
    match step env stp cur with
    | .ok cur' => Rel d env st' cur' ∧ Converts d env [stp]
    | .error e => ∃ r, stp = .S r ∧ conv r.kind (specSource r d env) = .error e := by
  cases stp with
  | S r =>
    simp only [symStep] at hs
    obtain ⟨hok, herr⟩ := stepS_sound h r hs
    cases hc : conv r.kind (specSource r d env) with
    | ok v =>
      obtain ⟨cur', hc', hr'⟩ := hok v hc
      simp only [step, hc']
      refine ⟨hr', ?_⟩
      intro r' hr
      simp only [List.mem_cons, Step.S.injEq, List.not_mem_nil, or_false] at hr
      subst hr
      exact ⟨v, hc⟩
    | error e =>
      simp only [step, herr e hc]
      exact ⟨r, rfl, hc⟩
  | O name over =>
    simp only [symStep] at hs
    obtain ⟨cur', hc', hr'⟩ := forKeys_sound (fun k st => symOrInto k k over st) (fun k d => orInto k k over d)
      (fun k st st' cur hr hk => orInto_sound hr k k over hk) _ st st' cur h hs
    simp only [step, hc']
    exact ⟨hr', fun r hr => by simp at hr⟩
  | A a b =>
    simp only [symStep] at hs
    obtain ⟨cur', hc', hr'⟩ := forKeys_sound (fun k st => symOrInto k a b st) (fun k d => orInto k a b d)
      (fun k st st' cur hr hk => orInto_sound hr k a b hk) _ st st' cur h hs
    simp only [step, hc']
    exact ⟨hr', fun r hr => by simp at hr⟩

/-- the executable model agrees with the description, for every dictionary and environment -/
theorem run_sound {d : Dict} {env : Env} (prog : List Step) :
    ∀ (st st' : SymSt) (cur : Dict), Rel d env st cur → symRun prog st = some st' →
    match run env prog cur with
    | .ok cur' => Rel d env st' cur' ∧ Converts d env prog
    | .error e => ∃ r, Step.S r ∈ prog ∧ conv r.kind (specSource r d env) = .error e := by
  induction prog with
  | nil =>
    intro st st' cur h hs
    simp only [symRun, Option.some.injEq] at hs
    subst hs
    simp only [run]
    exact ⟨h, fun r hr => by simp at hr⟩
  | cons stp rest ih =>
    intro st st' cur h hs
    simp only [symRun] at hs
    split at hs
    · simp at hs
    · next st1 h1 =>
      have hstep := step_sound h stp h1
      cases hc : step env stp cur with
      | error e =>
        rw [hc] at hstep
        obtain ⟨r, hr, he⟩ := hstep
        simp only [run, hc]
        exact ⟨r, by simp [hr], he⟩
      | ok cur1 =>
        rw [hc] at hstep
        obtain ⟨hr1, hcv1⟩ := hstep
        have hrest := ih st1 st' cur1 hr1 hs
        simp only [run, hc]
        cases hc2 : run env rest cur1 with
        | error e =>
          rw [hc2] at hrest
          obtain ⟨r, hr, he⟩ := hrest
          exact ⟨r, by simp [hr], he⟩
        | ok cur2 =>
          rw [hc2] at hrest
          refine ⟨hrest.1, ?_⟩
          intro r hr
          simp only [List.mem_cons] at hr
          rcases hr with hr | hr
          · exact hcv1 r (by simp [hr])
          · exact hrest.2 r hr

/-! ## comparing a description with the declarative table -/

/-- two symbols mean the same for every input: equal, or disjunctions over the same SET of rows -/
def symEquiv : Sym → Sym → Bool
  | .ors x, .ors y => x.all (fun r => y.contains r) && y.all (fun r => x.contains r)
  | a, b => a == b

theorem any_of_subset {α} [BEq α] [LawfulBEq α] (p : α → Bool) (x y : List α) (h : x.all (fun r => y.contains r) = true) :
    x.any p = true → y.any p = true := by
  intro hx
  rw [List.any_eq_true] at hx ⊢
  obtain ⟨a, ha, hp⟩ := hx
  rw [List.all_eq_true] at h
  have := h a ha
  exact ⟨a, by simpa using this, hp⟩

theorem den_of_symEquiv (d : Dict) (env : Env) (a b : Sym) (h : symEquiv a b = true) : den d env a = den d env b := by
  cases a with
  | ors x =>
    cases b with
    | ors y =>
      simp only [symEquiv, Bool.and_eq_true] at h
      simp only [den, Option.some.injEq, Val.bool.injEq]
      apply Bool.eq_iff_iff.mpr
      exact ⟨any_of_subset _ x y h.1, any_of_subset _ y x h.2⟩
    | orig k => simp [symEquiv] at h
    | base r => simp [symEquiv] at h
  | orig k =>
    simp only [symEquiv, beq_iff_eq] at h
    rw [h]
  | base r =>
    simp only [symEquiv, beq_iff_eq] at h
    rw [h]

/-- the description the declarative table gives for key `k` -/
def specSym (tbl : List Entry) (k : Text) : Sym :=
  match entryOf tbl k with
  | none => .orig k
  | some e =>
    match e.row.kind with
    | .bool => .ors (e.row :: e.impliedBy.filterMap fun n => (tbl.find? (fun e' => e'.row.name = n)).map (·.row))
    | _ => .base e.row

theorem any_filterMap_switch (tbl : List Entry) (d : Dict) (env : Env) (ns : List Text) :
    (ns.filterMap fun n => (tbl.find? (fun e' => e'.row.name = n)).map (·.row)).any (fun r => asbool (specSource r d env))
      = ns.any (switchOn tbl d env) := by
  induction ns with
  | nil => rfl
  | cons n ns ih =>
    simp only [List.filterMap_cons, List.any_cons, switchOn]
    cases tbl.find? (fun e' => e'.row.name = n) with
    | none => simpa using ih
    | some e => simp [ih]

theorem den_specSym (tbl : List Entry) (d : Dict) (env : Env) (k : Text) :
    den d env (specSym tbl k) = specGet tbl d env k := by
  unfold specSym specGet
  cases entryOf tbl k with
  | none => rfl
  | some e =>
    simp only [effective, valueFrom]
    cases hk : e.row.kind with
    | bool =>
      simp only [den, List.any_cons, any_filterMap_switch]
    | str =>
      simp only [den, hk]
      cases conv Kind.str (specSource e.row d env) <;> rfl
    | list =>
      simp only [den, hk]
      cases conv Kind.list (specSource e.row d env) <;> rfl

/-- every key the table manages -/
def allKeys (tbl : List Entry) : List Text := tbl.flatMap fun e => [e.row.name, pfx ++ e.row.name]

theorem entryOf_none (tbl : List Entry) (k : Text) (h : k ∉ allKeys tbl) : entryOf tbl k = none := by
  unfold entryOf
  rw [List.find?_eq_none]
  intro e he
  simp only [allKeys, List.mem_flatMap, not_exists, not_and] at h
  have := h e he
  simp only [List.mem_cons, List.not_mem_nil, or_false, not_or] at this
  simp [this.1, this.2]

theorem symLookup_none (st : SymSt) (k : Text) (h : k ∉ st.map (·.1)) : symLookup st k = none := by
  induction st with
  | nil => rfl
  | cons kv rest ih =>
    obtain ⟨a, b⟩ := kv
    simp only [List.map_cons, List.mem_cons, not_or] at h
    simp only [symLookup]
    rw [if_neg (fun e => h.1 e.symm)]
    exact ih h.2

/-- the finite comparison that `decide` performs -/
def describes (st : SymSt) (tbl : List Entry) : Bool :=
  (st.map (·.1)).all (fun k => (allKeys tbl).contains k) &&
  (allKeys tbl).all fun k => symEquiv (symGet st k) (specSym tbl k)

theorem den_of_describes {st : SymSt} {tbl : List Entry} (h : describes st tbl = true) (d : Dict) (env : Env) (k : Text) :
    den d env (symGet st k) = specGet tbl d env k := by
  simp only [describes, Bool.and_eq_true, List.all_eq_true] at h
  by_cases hk : k ∈ allKeys tbl
  · rw [den_of_symEquiv d env _ _ (h.2 k hk), den_specSym]
  · have h1 : symLookup st k = none := by
      apply symLookup_none
      intro hm
      have := h.1 k hm
      exact hk (by simpa using this)
    simp only [symGet, h1, den, specGet, entryOf_none tbl k hk]

end Pyr.Settings
