/-
C09 helper lemmas, part 1: numbers as text.
`int(s, base)` reads back what `'%08x' %` and `str(int)` wrote.
-/
import PyramidModel.AuthTkt

namespace Pyr.AuthTkt

/-- facts about the sixteen digit characters, decided over the whole table -/
theorem digitChar_facts : ∀ d : Fin 16,
    digitVal (digitChar d.val) = some d.val ∧ (digitChar d.val).toNat < 127 ∧ digitChar d.val ≠ '_' ∧
    digitChar d.val ≠ '-' ∧ digitChar d.val ≠ '+' ∧ isAsciiSpace (digitChar d.val) = false ∧
    digitChar d.val ≠ 'x' ∧ digitChar d.val ≠ 'X' ∧ digitChar d.val ≠ '!' ∧ digitChar d.val ≠ '"' ∧
    digitChar d.val ≠ '%' ∧ (digitChar d.val).toNat ≠ 0 := by
  decide

/-- `s` is a non-empty run of digit characters of `base` (≤ 16) -/
def IsDigits (base : Nat) (s : Text) : Prop := ∀ c ∈ s, ∃ d, d < base ∧ c = digitChar d

/-- value of a digit run, most significant first (Horner) -/
def evalDigits (base : Nat) (s : Text) (acc : Nat) : Nat :=
  s.foldl (fun a c => a * base + (digitVal c).getD 0) acc

theorem digitVal_digitChar {d : Nat} (h : d < 16) : digitVal (digitChar d) = some d :=
  (digitChar_facts ⟨d, h⟩).1

theorem scanDigits_digits (base : Nat) (hb : base ≤ 16) (s : Text) (hs : IsDigits base s) (acc nd : Nat) :
    scanDigits base s false acc nd =
      if s.isEmpty && nd == 0 then none else some (evalDigits base s acc, []) := by
  induction s generalizing acc nd with
  | nil => simp [scanDigits, evalDigits]
  | cons c r ih =>
    obtain ⟨d, hd, rfl⟩ := hs c (by simp)
    have hd16 : d < 16 := by omega
    have f := digitChar_facts ⟨d, hd16⟩
    have hr : IsDigits base r := fun c hc => hs c (by simp [hc])
    simp only [scanDigits, f.2.2.1, if_false, f.1, hd, if_true]
    rw [ih hr]
    simp [evalDigits, f.1]

theorem evalDigits_append (base : Nat) (a b : Text) (acc : Nat) :
    evalDigits base (a ++ b) acc = evalDigits base b (evalDigits base a acc) := by
  simp [evalDigits, List.foldl_append]

theorem natDigits_isDigits (base : Nat) (hb2 : 2 ≤ base) (n : Nat) : IsDigits base (natDigits base n) := by
  induction n using natDigits.induct base with
  | case1 n h =>
    rw [natDigits]; simp only [h, dif_pos]
    intro c hc
    simp at hc
    exact ⟨n, by omega, hc⟩
  | case2 n h ih =>
    rw [natDigits]; simp only [h, dif_neg, not_false_eq_true]
    intro c hc
    simp at hc
    rcases hc with hc | hc
    · exact ih c hc
    · exact ⟨n % base, Nat.mod_lt _ (by omega), hc⟩

theorem natDigits_ne_nil (base n : Nat) : natDigits base n ≠ [] := by
  rw [natDigits]; split <;> simp

theorem evalDigits_natDigits (base : Nat) (hb2 : 2 ≤ base) (hb : base ≤ 16) (n : Nat) :
    evalDigits base (natDigits base n) 0 = n := by
  induction n using natDigits.induct base with
  | case1 n h =>
    rw [natDigits]; simp only [h, dif_pos]
    have : n < 16 := by omega
    simp [evalDigits, digitVal_digitChar this]
  | case2 n h ih =>
    rw [natDigits]; simp only [h, dif_neg, not_false_eq_true]
    rw [evalDigits_append, ih]
    have : n % base < 16 := by have := Nat.mod_lt n (show 0 < base by omega); omega
    simp [evalDigits, digitVal_digitChar this]
    exact Nat.div_add_mod' n base

theorem evalDigits_zeros (base : Nat) (k : Nat) (s : Text) :
    evalDigits base (List.replicate k '0' ++ s) 0 = evalDigits base s 0 := by
  induction k with
  | zero => simp
  | succ k ih =>
    rw [List.replicate_succ, List.cons_append]
    show evalDigits base (List.replicate k '0' ++ s) (0 * base + (digitVal '0').getD 0) = _
    have : (digitVal '0').getD 0 = 0 := by decide
    rw [this]; simpa using ih

theorem isDigits_map_transform (U : Uni) (base : Nat) (hb : base ≤ 16) (s : Text) (hs : IsDigits base s) :
    s.map (transformChar U) = s := by
  induction s with
  | nil => rfl
  | cons c r ih =>
    obtain ⟨d, hd, rfl⟩ := hs c (by simp)
    have f := digitChar_facts ⟨d, by omega⟩
    have hr : IsDigits base r := fun c hc => hs c (by simp [hc])
    simp [transformChar, f.2.1, ih hr]

/-- `int(s, base)` of a plain digit run -/
theorem pyInt_digits (U : Uni) (base : Nat) (hb : base ≤ 16) (s : Text) (hs : IsDigits base s) (hne : s ≠ []) :
    pyInt U base s = some (evalDigits base s 0 : Nat) := by
  obtain ⟨c, r, rfl⟩ := List.exists_cons_of_ne_nil hne
  obtain ⟨d, hd, hc⟩ := hs c (by simp)
  have f := digitChar_facts ⟨d, by omega⟩
  simp only at f
  rw [← hc] at f
  have hstrip : strip0x base (c :: r) = c :: r := by
    unfold strip0x
    split
    · cases r with
      | nil => rfl
      | cons x r' =>
        obtain ⟨d', hd', hx⟩ := hs x (by simp)
        have f' := digitChar_facts ⟨d', by omega⟩
        simp only at f'
        rw [← hx] at f'
        simp [f'.2.2.2.2.2.2.1, f'.2.2.2.2.2.2.2.1]
    · rfl
  unfold pyInt
  rw [isDigits_map_transform U base hb _ hs]
  simp only [List.dropWhile, f.2.2.2.2.2.1]
  simp only [stripSign, f.2.2.2.1, f.2.2.2.2.1, if_false]
  rw [hstrip, scanDigits_digits base hb _ hs]
  simp

/-- `int('%08x' % n, 16) = n` -/
theorem pyInt_hex8 (U : Uni) (n : Nat) : pyInt U 16 (hex8 n) = some (n : Int) := by
  have hd : IsDigits 16 (hex8 n) := by
    intro c hc
    simp [hex8] at hc
    rcases hc with ⟨_, rfl⟩ | hc
    · exact ⟨0, by omega, by decide⟩
    · exact natDigits_isDigits 16 (by omega) n c hc
  have hne : hex8 n ≠ [] := by
    simp [hex8, natDigits_ne_nil]
  rw [pyInt_digits U 16 (by omega) _ hd hne]
  simp [hex8, evalDigits_zeros, evalDigits_natDigits 16 (by omega) (by omega)]

theorem natDigits_length_le (n : Nat) (k : Nat) (h : n < 16 ^ k) (hk : 0 < k) : (natDigits 16 n).length ≤ k := by
  induction n using natDigits.induct 16 generalizing k with
  | case1 n h' =>
    have h16 : n < 16 := by omega
    rw [natDigits]; simp [h16]; omega
  | case2 n h' ih =>
    rw [natDigits]; simp only [h', dif_neg, not_false_eq_true, List.length_append, List.length_cons, List.length_nil]
    cases k with
    | zero => omega
    | succ k =>
      have hk1 : 0 < k := by
        rcases Nat.eq_zero_or_pos k with rfl | h0
        · simp at h; omega
        · exact h0
      have : n / 16 < 16 ^ k := by
        rw [Nat.pow_succ] at h
        exact Nat.div_lt_of_lt_mul (by omega)
      have := ih k this hk1
      omega

/-- the timestamp field is exactly 8 characters while the clock stays below 2³² -/
theorem hex8_length (n : Nat) (h : n < 4294967296) : (hex8 n).length = 8 := by
  have := natDigits_length_le n 8 (by simpa using h) (by omega)
  simp [hex8]; omega

/-- `int(str(z)) = z` -/
theorem pyInt_decStr (U : Uni) (z : Int) : pyInt U 10 (decStr z) = some z := by
  unfold decStr
  split
  · rename_i hneg
    have hd := natDigits_isDigits 10 (by omega) z.natAbs
    have hne := natDigits_ne_nil 10 z.natAbs
    obtain ⟨c, r, hcr⟩ := List.exists_cons_of_ne_nil hne
    obtain ⟨d, hd1, hc⟩ := hd c (by simp [hcr])
    have f := digitChar_facts ⟨d, by omega⟩
    simp only at f
    rw [← hc] at f
    unfold pyInt
    have hmap : ('-' :: natDigits 10 z.natAbs).map (transformChar U) = '-' :: natDigits 10 z.natAbs := by
      rw [List.map_cons, isDigits_map_transform U 10 (by omega) _ hd]
      simp [transformChar]
    rw [hmap]
    have hsp : isAsciiSpace '-' = false := by decide
    simp only [List.dropWhile, hsp]
    simp only [stripSign, if_true]
    have h10 : strip0x 10 (natDigits 10 z.natAbs) = natDigits 10 z.natAbs := by simp [strip0x]
    rw [h10, scanDigits_digits 10 (by omega) _ hd]
    simp [hne, evalDigits_natDigits 10 (by omega) (by omega)]
    omega
  · rename_i hpos
    have hd := natDigits_isDigits 10 (by omega) z.toNat
    rw [pyInt_digits U 10 (by omega) _ hd (natDigits_ne_nil _ _), evalDigits_natDigits 10 (by omega) (by omega)]
    simp; omega

/-- decimal text has no NUL, `!`, `%`, `"`: it survives quoting and splitting -/
theorem decStr_chars (z : Int) : ∀ c ∈ decStr z, c = '-' ∨ ∃ d, d < 10 ∧ c = digitChar d := by
  intro c hc
  unfold decStr at hc
  split at hc
  · simp at hc
    rcases hc with rfl | hc
    · left; rfl
    · right; exact natDigits_isDigits 10 (by omega) _ c hc
  · right; exact natDigits_isDigits 10 (by omega) _ c hc

end Pyr.AuthTkt
