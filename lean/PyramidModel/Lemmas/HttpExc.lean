/-
C19 — helper lemmas about the model (HttpExc.lean) and the specs (Lemmas/HttpExcSpec.lean).
-/
import PyramidModel.HttpExc
import PyramidModel.Lemmas.HttpExcSpec

namespace Pyr.HttpExc

/-! ## decimal digits -/

theorem digitChar_spec : ∀ d, d < 10 →
    isDigit (Char.ofNat (48 + d)) = true ∧ (Char.ofNat (48 + d)).toNat - 48 = d := by decide

theorem isDigit_bounds {c : Char} (h : isDigit c = true) : 48 ≤ c.toNat ∧ c.toNat ≤ 57 := by
  simp only [isDigit, Bool.and_eq_true, decide_eq_true_eq] at h
  obtain ⟨h1, h2⟩ := h
  have a : ('0' : Char).toNat = 48 := by decide
  have b : ('9' : Char).toNat = 57 := by decide
  rw [Char.le_def] at h1 h2
  simp only [UInt32.le_iff_toNat_le] at h1 h2
  simp only [Char.toNat]
  simp only [Char.toNat] at a b
  omega

theorem decDigits_digits (n : Nat) : ∀ c ∈ decDigits n, isDigit c = true := by
  fun_induction decDigits n with
  | case1 n h =>
    intro c hc
    simp only [List.mem_singleton] at hc
    subst hc
    exact (digitChar_spec n h).1
  | case2 n h ih =>
    intro c hc
    simp only [List.mem_append, List.mem_singleton] at hc
    rcases hc with hc | hc
    · exact ih c hc
    · subst hc
      exact (digitChar_spec (n % 10) (Nat.mod_lt _ (by omega))).1

theorem decDigits_ne_nil (n : Nat) : decDigits n ≠ [] := by
  unfold decDigits
  split <;> simp

theorem decDigits_head (n : Nat) : ∃ d ds, decDigits n = d :: ds ∧ isDigit d = true := by
  cases h : decDigits n with
  | nil => exact absurd h (decDigits_ne_nil n)
  | cons d ds => exact ⟨d, ds, rfl, decDigits_digits n d (by rw [h]; simp)⟩

/-- what `readDec` has accumulated after reading the digits of `n` -/
def accAfter (acc n : Nat) : Nat :=
  if n < 10 then acc * 10 + n else accAfter acc (n / 10) * 10 + n % 10
termination_by n
decreasing_by omega

theorem accAfter_zero (n : Nat) : accAfter 0 n = n := by
  fun_induction accAfter 0 n with
  | case1 n h => omega
  | case2 n h ih => omega

theorem readDec_decDigits (acc n : Nat) (r : Text) :
    readDec acc (decDigits n ++ r) = readDec (accAfter acc n) r := by
  fun_induction decDigits n generalizing acc r with
  | case1 n h =>
    have := digitChar_spec n h
    rw [accAfter, if_pos h]
    simp only [List.singleton_append, readDec, this.1, if_true, this.2]
  | case2 n h ih =>
    have := digitChar_spec (n % 10) (Nat.mod_lt _ (by omega))
    rw [accAfter, if_neg h, List.append_assoc, ih]
    simp only [List.singleton_append, readDec, this.1, if_true, this.2]

/-! ## escaping -/

theorem digit_clean {c : Char} (h : isDigit c = true) : c.toNat < 128 ∧ isMeta c = false ∧ c ≠ '&' ∧ c ≠ ';' ∧ c ≠ 'x' := by
  have hb := isDigit_bounds h
  refine ⟨by omega, ?_, ?_, ?_, ?_⟩
  · simp only [isMeta, Bool.or_eq_false_iff, decide_eq_false_iff_not]
    refine ⟨⟨⟨?_, ?_⟩, ?_⟩, ?_⟩ <;> (intro e; subst e; revert hb; decide)
  all_goals (intro e; subst e; revert hb; decide)

theorem escChar_clean (c : Char) : ∀ x ∈ escChar c, x.toNat < 128 ∧ isMeta x = false := by
  unfold escChar
  split
  · decide
  split
  · decide
  split
  · decide
  split
  · decide
  split
  · decide
  split
  · rename_i h1 h2 h3 h4 h5 h6
    intro x hx
    simp only [List.mem_singleton] at hx
    subst hx
    exact ⟨h6, by simp [isMeta, h2, h3, h4, h5]⟩
  · intro x hx
    simp only [List.mem_append, List.mem_cons, List.mem_nil_iff, or_false] at hx
    rcases hx with (hx | hx) | hx
    · rcases hx with rfl | rfl <;> decide
    · have := digit_clean (decDigits_digits _ x hx); exact ⟨this.1, this.2.1⟩
    · subst hx; decide

/-- every character `htmlEscape` emits is ASCII and none is `<`, `>`, `"` or `'` -/
theorem htmlEscape_clean (t : Text) : ∀ x ∈ htmlEscape t, x.toNat < 128 ∧ isMeta x = false := by
  intro x hx
  simp only [htmlEscape, List.mem_flatMap] at hx
  obtain ⟨c, _, hc⟩ := hx
  exact escChar_clean c x hc

theorem readDec_semicolon (acc : Nat) (r : Text) : readDec acc (';' :: r) = (acc, ';' :: r) := by
  simp [readDec, isDigit]

theorem entity_numeric (c : Char) (h : 128 ≤ c.toNat) (rest : Text) :
    entity ('#' :: (decDigits c.toNat ++ ';' :: rest)) = some (c, rest) := by
  obtain ⟨d, ds, hd, hdig⟩ := decDigits_head c.toNat
  have hc := digit_clean hdig
  have hne : ¬ ('x' = d) := fun e => hc.2.2.2.2 e.symm
  have hread : readDec 0 (d :: (ds ++ ';' :: rest)) = (c.toNat, ';' :: rest) := by
    have := readDec_decDigits 0 c.toNat (';' :: rest)
    rw [hd, accAfter_zero, readDec_semicolon] at this
    simpa using this
  have hv : c.toNat.isValidChar := c.valid
  simp only [entity, stripPrefix, hd, List.cons_append]
  simp only [show ¬ ('a' = '#') by decide, show ¬ ('l' = '#') by decide, show ¬ ('g' = '#') by decide,
    show ¬ ('q' = '#') by decide, if_false, if_true, hne, numericRef, hdig, hread, h, hv, and_self,
    Char.ofNat_toNat]

theorem htmlUnescape_amp {r rest : Text} {c : Char} (h : entity r = some (c, rest)) :
    htmlUnescape ('&' :: r) = c :: htmlUnescape rest := by
  rw [htmlUnescape]
  simp only [if_true]
  split
  · rename_i ch rest' heq
    rw [h] at heq
    cases heq
    rfl
  · rename_i heq
    rw [h] at heq
    cases heq

theorem htmlUnescape_other {c : Char} {r : Text} (h : c ≠ '&') : htmlUnescape (c :: r) = c :: htmlUnescape r := by
  rw [htmlUnescape]
  simp [h]

theorem entitiesOk_amp {r rest : Text} {c : Char} (h : entity r = some (c, rest)) :
    entitiesOk ('&' :: r) = entitiesOk rest := by
  rw [entitiesOk]
  simp only [if_true]
  split
  · rename_i ch rest' heq
    rw [h] at heq
    cases heq
    rfl
  · rename_i heq
    rw [h] at heq
    cases heq

theorem entitiesOk_other {c : Char} {r : Text} (h : c ≠ '&') : entitiesOk (c :: r) = entitiesOk r := by
  rw [entitiesOk]
  simp [h]

/-- the reference `escChar` writes for `c` is read back as `c` -/
theorem entity_escChar (c : Char) (rest : Text) :
    (∃ tl, escChar c = '&' :: tl ∧ entity (tl ++ rest) = some (c, rest)) ∨ (escChar c = [c] ∧ c ≠ '&') := by
  unfold escChar
  split
  · rename_i h; subst h; left; exact ⟨_, rfl, by simp [entity, stripPrefix]⟩
  split
  · rename_i h; subst h; left; exact ⟨_, rfl, by simp [entity, stripPrefix]⟩
  split
  · rename_i h; subst h; left; exact ⟨_, rfl, by simp [entity, stripPrefix]⟩
  split
  · rename_i h; subst h; left; exact ⟨_, rfl, by simp [entity, stripPrefix]⟩
  split
  · rename_i h; subst h; left; exact ⟨_, rfl, by simp [entity, stripPrefix]⟩
  split
  · rename_i h1 _ _ _ _ _; right; exact ⟨rfl, h1⟩
  · rename_i h6
    left
    refine ⟨'#' :: (decDigits c.toNat ++ [';']), by simp, ?_⟩
    have := entity_numeric c (by omega) rest
    simpa using this

theorem htmlUnescape_escChar (c : Char) (rest : Text) :
    htmlUnescape (escChar c ++ rest) = c :: htmlUnescape rest := by
  rcases entity_escChar c rest with ⟨tl, h1, h2⟩ | ⟨h1, h2⟩
  · rw [h1, List.cons_append, htmlUnescape_amp h2]
  · rw [h1, List.singleton_append, htmlUnescape_other h2]

theorem entitiesOk_escChar (c : Char) (rest : Text) :
    entitiesOk (escChar c ++ rest) = entitiesOk rest := by
  rcases entity_escChar c rest with ⟨tl, h1, h2⟩ | ⟨h1, h2⟩
  · rw [h1, List.cons_append, entitiesOk_amp h2]
  · rw [h1, List.singleton_append, entitiesOk_other h2]

theorem htmlUnescape_htmlEscape_append (t rest : Text) :
    htmlUnescape (htmlEscape t ++ rest) = t ++ htmlUnescape rest := by
  induction t with
  | nil => simp [htmlEscape]
  | cons c t ih =>
    simp only [htmlEscape, List.flatMap_cons, List.append_assoc] at ih ⊢
    rw [htmlUnescape_escChar, ih]
    simp

theorem entitiesOk_htmlEscape_append (t rest : Text) :
    entitiesOk (htmlEscape t ++ rest) = entitiesOk rest := by
  induction t with
  | nil => simp [htmlEscape]
  | cons c t ih =>
    simp only [htmlEscape, List.flatMap_cons, List.append_assoc] at ih ⊢
    rw [entitiesOk_escChar, ih]

end Pyr.HttpExc
