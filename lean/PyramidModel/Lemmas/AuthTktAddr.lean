/-
C09 helper lemmas, part 9: the address/timestamp prefix of the digest input determines the address
(the IPv6 text; the IPv4 octet values), so a ticket bound to one address does not verify from another.
-/
import PyramidModel.Lemmas.AuthTktReq

namespace Pyr.AuthTkt

theorem latin1Enc_injective : ∀ (a b : Text) (x : Bytes), latin1Enc a = .ok x → latin1Enc b = .ok x → a = b := by
  intro a
  induction a with
  | nil =>
    intro b x ha hb
    simp [latin1Enc, pure, Except.pure] at ha
    subst ha
    cases b with
    | nil => rfl
    | cons c r =>
      unfold latin1Enc at hb
      split at hb
      · cases hr : latin1Enc r <;> simp [hr, Functor.map, Except.map] at hb
      · simp [throw, throwThe, MonadExceptOf.throw] at hb
  | cons c r ih =>
    intro b x ha hb
    unfold latin1Enc at ha
    split at ha
    · rename_i hc
      cases hr : latin1Enc r with
      | error e => simp [hr, Functor.map, Except.map] at ha
      | ok xr =>
        simp [hr, Functor.map, Except.map] at ha
        subst ha
        cases b with
        | nil => simp [latin1Enc, pure, Except.pure] at hb
        | cons c2 r2 =>
          unfold latin1Enc at hb
          split at hb
          · rename_i hc2
            cases hr2 : latin1Enc r2 with
            | error e => simp [hr2, Functor.map, Except.map] at hb
            | ok xr2 =>
              simp [hr2, Functor.map, Except.map] at hb
              obtain ⟨h1, h2⟩ := hb
              have hn := congrArg UInt8.toNat h1
              rw [toNat_byteOfNat hc2, toNat_byteOfNat hc] at hn
              have hcc : c = c2 := by
                rw [← Char.ofNat_toNat c, ← Char.ofNat_toNat c2, hn]
              subst h2
              rw [hcc, ih r2 xr2 hr hr2]
          · simp [throw, throwThe, MonadExceptOf.throw] at hb
    · simp [throw, throwThe, MonadExceptOf.throw] at ha

/-- IPv6 branch: equal prefixes (with decimal timestamps of equal width) mean the same address TEXT and timestamp -/
theorem ipTimestamp_v6_injective (U : Uni) (ip ip' : Text) (ts ts' : Int) (b : Bytes)
    (h6 : ip.contains ':' = true) (h6' : ip'.contains ':' = true)
    (hw : (decStr ts).length = (decStr ts').length)
    (h : ipTimestamp U ip ts = .ok b) (h' : ipTimestamp U ip' ts' = .ok b) : ip = ip' ∧ ts = ts' := by
  unfold ipTimestamp at h h'
  simp only [h6, h6', if_true] at h h'
  have e := latin1Enc_injective _ _ _ h h'
  have := List.append_inj' e hw
  exact ⟨this.1, decStr_injective this.2⟩

theorem map_byteOfNat_injective : ∀ (a b : List Nat), (∀ x ∈ a, x < 256) → (∀ x ∈ b, x < 256) →
    a.map byteOfNat = b.map byteOfNat → a = b := by
  intro a
  induction a with
  | nil => intro b _ _ h; cases b with
    | nil => rfl
    | cons _ _ => simp at h
  | cons x xs ih =>
    intro b ha hb h
    cases b with
    | nil => simp at h
    | cons y ys =>
      simp only [List.map_cons, List.cons.injEq] at h
      have hn := congrArg UInt8.toNat h.1
      rw [toNat_byteOfNat (ha x (by simp)), toNat_byteOfNat (hb y (by simp))] at hn
      rw [hn, ih ys (fun z hz => ha z (by simp [hz])) (fun z hz => hb z (by simp [hz])) h.2]

/-- what `ipTimestamp` computes on the dotted (IPv4) branch -/
theorem ipTimestamp_v4_inv (U : Uni) (ip : Text) (ts : Int) (b : Bytes) (h4 : ip.contains ':' = false)
    (h : ipTimestamp U ip ts = .ok b) :
    ∃ octs, (splitAll '.' ip).mapM (ipOctet U) = .ok octs ∧ (∀ o ∈ octs, o < 256) ∧
      b = (octs ++ [(ts % 4294967296).toNat / 16777216 % 256, (ts % 4294967296).toNat / 65536 % 256,
                    (ts % 4294967296).toNat / 256 % 256, (ts % 4294967296).toNat % 256]).map byteOfNat := by
  unfold ipTimestamp at h
  simp only [h4, Bool.false_eq_true, if_false, bind, Except.bind] at h
  cases hm : (splitAll '.' ip).mapM (ipOctet U) with
  | error e => simp [hm] at h
  | ok octs =>
    simp only [hm] at h
    split at h
    · rename_i hall
      simp [pure, Except.pure] at h
      refine ⟨octs, rfl, ?_, by rw [← h]; simp⟩
      intro o ho
      have := List.all_eq_true.mp hall o (by simp [ho])
      simpa using this
    · simp [throw, throwThe, MonadExceptOf.throw] at h

/-- IPv4 branch: equal prefixes mean the same octet VALUES (the spelling of an octet — leading zeros, `int()`'s
spaces and underscores — is not part of what is signed) and the same timestamp modulo 2³² -/
theorem ipTimestamp_v4_injective (U : Uni) (ip ip' : Text) (ts ts' : Int) (b : Bytes)
    (h4 : ip.contains ':' = false) (h4' : ip'.contains ':' = false)
    (hn : (splitAll '.' ip).length = (splitAll '.' ip').length)
    (h : ipTimestamp U ip ts = .ok b) (h' : ipTimestamp U ip' ts' = .ok b) :
    (splitAll '.' ip).mapM (ipOctet U) = (splitAll '.' ip').mapM (ipOctet U) ∧ ts % 4294967296 = ts' % 4294967296 := by
  obtain ⟨o1, hm1, hl1, hb1⟩ := ipTimestamp_v4_inv U ip ts b h4 h
  obtain ⟨o2, hm2, hl2, hb2⟩ := ipTimestamp_v4_inv U ip' ts' b h4' h'
  have hlen : o1.length = o2.length := by
    rw [mapM_ok_length _ _ _ hm1, mapM_ok_length _ _ _ hm2, hn]
  have e := hb1.symm.trans hb2
  have t1 : ∀ x ∈ [(ts % 4294967296).toNat / 16777216 % 256, (ts % 4294967296).toNat / 65536 % 256,
      (ts % 4294967296).toNat / 256 % 256, (ts % 4294967296).toNat % 256], x < 256 := by
    intro x hx; simp at hx; rcases hx with rfl | rfl | rfl | rfl <;> omega
  have t2 : ∀ x ∈ [(ts' % 4294967296).toNat / 16777216 % 256, (ts' % 4294967296).toNat / 65536 % 256,
      (ts' % 4294967296).toNat / 256 % 256, (ts' % 4294967296).toNat % 256], x < 256 := by
    intro x hx; simp at hx; rcases hx with rfl | rfl | rfl | rfl <;> omega
  have e2 := map_byteOfNat_injective _ _
    (fun x hx => by rcases List.mem_append.mp hx with h | h; exact hl1 x h; exact t1 x h)
    (fun x hx => by rcases List.mem_append.mp hx with h | h; exact hl2 x h; exact t2 x h) e
  obtain ⟨eo, et⟩ := List.append_inj e2 hlen
  refine ⟨by rw [hm1, hm2, eo], ?_⟩
  simp only [List.cons.injEq, and_true] at et
  obtain ⟨a1, a2, a3, a4⟩ := et
  have p1 : 0 ≤ ts % 4294967296 := Int.emod_nonneg _ (by omega)
  have p2 : 0 ≤ ts' % 4294967296 := Int.emod_nonneg _ (by omega)
  have q1 : ts % 4294967296 < 4294967296 := Int.emod_lt_of_pos _ (by omega)
  have q2 : ts' % 4294967296 < 4294967296 := Int.emod_lt_of_pos _ (by omega)
  omega

end Pyr.AuthTkt
