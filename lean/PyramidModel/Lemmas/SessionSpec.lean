import PyramidModel.Session
/-!
C10 — the declarative SPEC the session model is refined to: "a finite map (with flash queues and the CSRF
token stored under reserved keys) carried across requests by a cookie jar".

Written without the machinery of the implementation: no dirty flag, no `accessed`/`renewed` fields that
change during the request, no wrappers, no nested calls, no callback, no serialiser.  An abstract cookie is
just `(stamp, created, data)`; a request is described by
  * where its data starts (`specStart`: the presented abstract cookie unless it is older than the timeout),
  * the pure effect of each operation on the map (`Spec.apply`) and what it returns (`Spec.result`),
  * whether a cookie has to be set (`needsCookie`: some modifying call, or some call after the reissue time),
  * the stamp it carries (`lastStamp`: whole seconds of the last wrapped call).
Core Lean only (the driver prints the spec's answer next to the model's).
-/
namespace Pyr.Session
namespace Spec

/-- which wrapper the statement expects an operation to have -/
inductive Wrap where
  | accessed | changed | plain
  deriving Repr, DecidableEq

def Wrap.isChanged : Wrap → Bool
  | .changed => true
  | _ => false

def Wrap.isPlain : Wrap → Bool
  | .plain => true
  | _ => false

def wrapOf : Op → Wrap
  | .get _ _ | .getitem _ | .contains _ | .len | .keys | .items | .values | .iter => .accessed
  | .peekFlash _ => .accessed
  | .getCsrf _ => .accessed          -- may turn into a modification when no token is stored, see `modifies`
  | .changed => .plain
  | _ => .changed

/-- the queue value `flash` appends to -/
def queueOf (d : Data) (q : String) : Option (List JV) :=
  match dget d (flashKey q) with
  | none => some []
  | some (.arr xs) => some xs
  | some _ => none

def hasToken (d : Data) : Bool :=
  match dget d csrfKey with
  | none => false
  | some .null => false
  | some _ => true

/-- pure effect of an operation on the map -/
def apply (op : Op) (d : Data) : Data :=
  match op with
  | .set k v => dset d k v
  | .del k => ddel d k
  | .update kvs => dupdate d kvs
  | .pop k _ => ddel d k
  | .popitem => d.dropLast
  | .setdefault k v => if dhas d k then d else dset d k v
  | .clear => []
  | .invalidate => []
  | .flash msg q dup =>
    match queueOf d q with
    | some xs =>
      if dup || !(JV.pyIn msg xs) then dset d (flashKey q) (.arr (xs ++ [msg]))
      else if dhas d (flashKey q) then d else dset d (flashKey q) (.arr [])
    | none => d
  | .popFlash q => ddel d (flashKey q)
  | .newCsrf tok => dset d csrfKey (.str tok)
  | .getCsrf tok => if hasToken d then d else dset d csrfKey (.str tok)
  | _ => d

/-- what the call returns -/
def result (op : Op) (d : Data) : Res :=
  match op with
  | .get k dflt => .val ((dget d k).getD (dflt.getD .null))
  | .getitem k => match dget d k with | some v => .val v | none => .keyError
  | .contains k => .bool (dhas d k)
  | .len => .nat d.length
  | .keys => .keys (d.map (·.1))
  | .iter => .keys (d.map (·.1))
  | .items => .items d
  | .values => .vals (d.map (·.2))
  | .set _ _ => .unit
  | .del k => if dhas d k then .unit else .keyError
  | .update _ => .unit
  | .pop k dflt => match dget d k with
    | some v => .val v
    | none => match dflt with | some x => .val x | none => .keyError
  | .popitem => match d.getLast? with | some kv => .items [kv] | none => .keyError
  | .setdefault k v => .val ((dget d k).getD v)
  | .clear => .unit
  | .invalidate => .unit
  | .flash _ q _ => match queueOf d q with | some _ => .unit | none => .err
  | .popFlash q => .val ((dget d (flashKey q)).getD (.arr []))
  | .peekFlash q => .val ((dget d (flashKey q)).getD (.arr []))
  | .newCsrf tok => .val (.str tok)
  | .getCsrf tok => if hasToken d then .val ((dget d csrfKey).getD .null) else .val (.str tok)
  | .changed => .unit

/-- does the call, made on map `d`, count as a modification (forces a cookie)?  Every `changed`-class
call, `changed()` itself, and `get_csrf_token` when it has to mint a token. -/
def modifies (op : Op) (d : Data) : Bool :=
  match op with
  | .changed => true
  | .getCsrf _ => !hasToken d
  | op => (wrapOf op).isChanged

/-- is the call wrapped at all (does it refresh `accessed`)? -/
def wrapped (op : Op) : Bool := !(wrapOf op).isPlain

/-- map after a view's calls -/
def endData : Data → List (Nat × Op) → Data
  | d, [] => d
  | d, (_, op) :: rest => endData (apply op d) rest

def results : Data → List (Nat × Op) → List Res
  | _, [] => []
  | d, (_, op) :: rest => result op d :: results (apply op d) rest

/-- `accessed after the reissue time` for one wrapped call at clock `now` -/
def reissueDue (cfg : Cfg) (now renewed : Q) : Bool :=
  match cfg.reissue with
  | some r => olderThan (floorSec now) renewed r
  | none => false

/-- a cookie must be set: some call modifies, or some wrapped call happens at a whole second later than
`renewed + reissue_time` -/
def needsCookie (cfg : Cfg) (renewed : Q) : Q → Data → List (Nat × Op) → Bool
  | _, _, [] => false
  | clock, d, (dq, op) :: rest =>
    let now := clock + dq
    modifies op d
    || (wrapped op && reissueDue cfg now renewed)
    || needsCookie cfg renewed now (apply op d) rest

/-- the stamp written into the cookie: whole seconds of the last wrapped call, else the loaded stamp -/
def lastStamp : Q → (Q × Bool) → List (Nat × Op) → Q × Bool
  | _, st, [] => st
  | clock, st, (dq, op) :: rest =>
    let now := clock + dq
    lastStamp now (if wrapped op then (floorSec now, true) else st) rest

def endClock : Q → List (Nat × Op) → Q
  | clock, [] => clock
  | clock, (dq, _) :: rest => endClock (clock + dq) rest

/-- an abstract cookie -/
structure ACookie where
  stamp : Q
  stampInt : Bool
  created : Q
  data : Data
  deriving Repr

def ACookie.payload (c : ACookie) : Payload := ⟨c.stamp, c.stampInt, c.created, c.data⟩

/-- how a request presents its cookie, at the level of the statement -/
inductive SPresent where
  | latest | absent | issued (k : Nat)
  /-- a cookie the serialiser refuses (altered, other secret, other salt, garbage) -/
  | rejected
  deriving Repr

structure SReq where
  dq : Nat
  present : SPresent
  ops : Option (List (Nat × Op))
  raised : Bool

structure SWorld where
  clock : Q
  issued : List ACookie

inductive SOutcome where
  | noCookie | cookie (c : ACookie) | suppressed | oversize
  deriving Repr

structure SObs where
  touched : Bool
  startData : Data
  created : Q
  new : Bool
  results : List Res
  endData : Data
  outcome : SOutcome
  deriving Repr

def sresolve (w : SWorld) : SPresent → Option ACookie
  | .latest => w.issued.head?
  | .absent => none
  | .issued k => w.issued[k]?
  | .rejected => none

def expired (cfg : Cfg) (now : Q) (c : ACookie) : Bool :=
  match cfg.timeout with
  | some t => olderThan now c.stamp t
  | none => false

/-- one request of the spec; `size` is the length of the serialised cookie -/
def specStep (size : Payload → Nat) (cfg : Cfg) (w : SWorld) (r : SReq) : SWorld × SObs :=
  let now := w.clock + r.dq
  match r.ops with
  | none => ({ w with clock := now }, ⟨false, [], now, true, [], [], .noCookie⟩)
  | some ops =>
    let pres := sresolve w r.present
    let start : Data := match pres with
      | some c => if expired cfg now c then [] else c.data
      | none => []
    let created := match pres with | some c => c.created | none => now
    let renewed := match pres with | some c => c.stamp | none => now
    let fin := endData start ops
    let out : SOutcome :=
      if needsCookie cfg renewed now start ops then
        if !cfg.setOnExc && r.raised then .suppressed
        else
          let st := lastStamp now (renewed, false) ops
          let c : ACookie := ⟨st.1, st.2, created, fin⟩
          if size c.payload > cookieLimit then .oversize else .cookie c
      else .noCookie
    let issued' := match out with | .cookie c => c :: w.issued | _ => w.issued
    ({ clock := endClock now ops, issued := issued' },
     ⟨true, start, created, pres.isNone, results start ops, fin, out⟩)

def specRun (size : Payload → Nat) (cfg : Cfg) : SWorld → List SReq → SWorld × List SObs
  | w, [] => (w, [])
  | w, r :: rest =>
    let (w', o) := specStep size cfg w r
    let (w'', os) := specRun size cfg w' rest
    (w'', o :: os)

end Spec
end Pyr.Session
