import PyramidModel.Lemmas.Cache
/-!
C15 helper lemmas about runs: frame properties of lookup steps, the registrar's effect under arbitrary
interleaving, threads that start after a swap, progress of an unpre-empted lookup.
-/
namespace Pyr.Cache

def Lbl.isBegin : Lbl → Bool
  | .begin _ => true
  | _ => false

def Lbl.isFinish : Lbl → Bool
  | .finish => true
  | _ => false

/-! ### frame: what a lookup step cannot change -/

theorem stepThread_frame (P : Proto) (cfg : Cfg) (s : St) (tid : Nat) :
    (stepThread P cfg s tid).regs = s.regs ∧ (stepThread P cfg s tid).cur = s.cur ∧
    (stepThread P cfg s tid).busy = s.busy ∧ (stepThread P cfg s tid).pending = s.pending := by
  unfold stepThread
  cases s.threads[tid]? with
  | none => simp
  | some t =>
    simp only
    cases t.pc with
    | start => simp [setPc]
    | probe c => simp only; cases (s.heap c).get (cfg.ck t.q) <;> simp [setPc]
    | scan c i acc =>
      simp only
      cases (cfg.slots t.q)[i]? with
      | some sl => simp [setPc]
      | none =>
        simp only
        split
        · simp [setPc]
        · split <;> simp [setPc]
    | holding c acc => simp [setPc]
    | written c acc => simp [setPc]
    | done c v => simp

theorem stepThread_none (P : Proto) (cfg : Cfg) (s : St) (tid : Nat) (h : s.threads[tid]? = none) :
    stepThread P cfg s tid = s := by
  unfold stepThread; rw [h]

/-- what one step of thread `tid` does to the thread table: only entry `tid` changes, its query stays, a
reference once read is kept, and a thread at `start` reads the CURRENT reference -/
theorem stepThread_threads (P : Proto) (cfg : Cfg) (s : St) (tid : Nat) (t : Thread) (hget : s.threads[tid]? = some t) :
    (∀ j, j ≠ tid → (stepThread P cfg s tid).threads[j]? = s.threads[j]?) ∧
    (stepThread P cfg s tid).threads.length = s.threads.length ∧
    (∃ t', (stepThread P cfg s tid).threads[tid]? = some t' ∧ t'.q = t.q ∧
        (t.pc = .start → t'.pc.ref? = some s.cur) ∧ (∀ c, t.pc.ref? = some c → t'.pc.ref? = some c)) := by
  have hlt : tid < s.threads.length := by
    rcases List.getElem?_eq_some_iff.mp hget with ⟨h, _⟩; exact h
  have key : ∀ (s1 : St) (pc : PC), s1.threads = s.threads →
      (∀ j, j ≠ tid → (setPc s1 tid t.q pc).threads[j]? = s.threads[j]?) ∧
      (setPc s1 tid t.q pc).threads.length = s.threads.length ∧
      (setPc s1 tid t.q pc).threads[tid]? = some ⟨t.q, pc⟩ := by
    intro s1 pc h1
    refine ⟨?_, ?_, ?_⟩
    · intro j hj
      simp only [setPc, h1]
      exact List.getElem?_set_ne (Ne.symm hj)
    · simp [setPc, h1]
    · simp only [setPc, h1]
      rw [List.getElem?_set_self hlt]
  unfold stepThread
  simp only [hget]
  cases hpc : t.pc with
  | start =>
    simp only
    obtain ⟨h1, h2, h3⟩ := key s (.probe s.cur) rfl
    exact ⟨h1, h2, _, h3, rfl, fun _ => rfl, fun c hc => by simp [PC.ref?] at hc⟩
  | probe c =>
    simp only
    cases (s.heap c).get (cfg.ck t.q) with
    | some v =>
      simp only
      obtain ⟨h1, h2, h3⟩ := key s (.done c v) rfl
      exact ⟨h1, h2, _, h3, rfl, fun h => by simp at h, fun c' hc' => by simpa [PC.ref?] using hc'⟩
    | none =>
      simp only
      obtain ⟨h1, h2, h3⟩ := key s (.scan c 0 []) rfl
      exact ⟨h1, h2, _, h3, rfl, fun h => by simp at h, fun c' hc' => by simpa [PC.ref?] using hc'⟩
  | scan c i acc =>
    simp only
    cases (cfg.slots t.q)[i]? with
    | some sl =>
      simp only
      obtain ⟨h1, h2, h3⟩ := key s (.scan c (i + 1) (acc ++ (s.regs sl).toList)) rfl
      exact ⟨h1, h2, _, h3, rfl, fun h => by simp at h, fun c' hc' => by simpa [PC.ref?] using hc'⟩
    | none =>
      simp only
      split
      · obtain ⟨h1, h2, h3⟩ := key s (.done c acc) rfl
        exact ⟨h1, h2, _, h3, rfl, fun h => by simp at h, fun c' hc' => by simpa [PC.ref?] using hc'⟩
      · split
        · obtain ⟨h1, h2, h3⟩ := key { s with lock := some tid } (.holding c acc) rfl
          exact ⟨h1, h2, _, h3, rfl, fun h => by simp at h, fun c' hc' => by simpa [PC.ref?] using hc'⟩
        · exact ⟨fun _ _ => rfl, rfl, t, hget, rfl, fun h => by simp at h, fun _ h => by rw [hpc]; exact h⟩
  | holding c acc =>
    simp only
    exact (fun k => ⟨k.1, k.2.1, _, k.2.2, rfl, fun h => by simp at h, fun c' hc' => by simpa [PC.ref?] using hc'⟩) (key _ _ rfl)
  | written c acc =>
    simp only
    obtain ⟨h1, h2, h3⟩ := key { s with lock := none } (.done c acc) rfl
    exact ⟨h1, h2, _, h3, rfl, fun h => by simp at h, fun c' hc' => by simpa [PC.ref?] using hc'⟩
  | done c v =>
    exact ⟨fun _ _ => rfl, rfl, t, hget, rfl, fun h => by simp at h, fun _ h => by rw [hpc]; exact h⟩

/-- while the registrar is idle, every label except `begin` leaves registrations, current dict and idleness alone -/
theorem step_quiet (P : Proto) (cfg : Cfg) (s : St) (l : Lbl) (hb : s.busy = false) (hl : l.isBegin = false) :
    (step P cfg s l).regs = s.regs ∧ (step P cfg s l).cur = s.cur ∧ (step P cfg s l).busy = false := by
  cases l with
  | spawn q => simp [step, hb]
  | thread tid =>
    have := stepThread_frame P cfg s tid
    simp only [step]
    exact ⟨this.1, this.2.1, by rw [this.2.2.1, hb]⟩
  | «begin» m => simp [Lbl.isBegin] at hl
  | modify => simp [step, hb]
  | finish => simp [step, hb]

theorem run_quiet (P : Proto) (cfg : Cfg) (sched : List Lbl) :
    ∀ (s : St), s.busy = false → (∀ l ∈ sched, l.isBegin = false) →
      (run P cfg s sched).regs = s.regs ∧ (run P cfg s sched).cur = s.cur ∧ (run P cfg s sched).busy = false := by
  induction sched with
  | nil => intro s hb _; exact ⟨rfl, rfl, hb⟩
  | cons l ls ih =>
    intro s hb hl
    have h1 := step_quiet P cfg s l hb (hl l (List.mem_cons_self ..))
    have h2 := ih (step P cfg s l) h1.2.2 (fun x hx => hl x (List.mem_cons_of_mem _ hx))
    simp only [run, List.foldl_cons] at h2 ⊢
    exact ⟨by rw [h2.1, h1.1], by rw [h2.2.1, h1.2.1], h2.2.2⟩

/-! ### the registrar under arbitrary interleaving -/

theorem applyMods_cons (r : Regs) (sl : Slot) (v : Option View) (ms : Mods) :
    applyMods r ((sl, v) :: ms) = applyMods (setReg r sl v) ms := rfl

/-- between `begin mods` and the finishing step, whatever else is scheduled (lookups, spurious labels), the
registrations still to be applied always lead to the same target -/
theorem step_busy (cfg : Cfg) (s : St) (l : Lbl) (hb : s.busy = true) (hl : l.isFinish = false) :
    (step Proto.good cfg s l).busy = true ∧
    applyMods (step Proto.good cfg s l).regs (step Proto.good cfg s l).pending = applyMods s.regs s.pending ∧
    (step Proto.good cfg s l).cur = s.cur := by
  cases l with
  | spawn q => simp [step, hb]
  | thread tid =>
    have := stepThread_frame Proto.good cfg s tid
    simp only [step]
    exact ⟨by rw [this.2.2.1, hb], by rw [this.1, this.2.2.2], this.2.1⟩
  | «begin» m => simp [step, hb]
  | modify =>
    simp only [step]
    split
    · next sl v ms hb' hp => simp [hp, applyMods_cons, hb]
    · exact ⟨hb, rfl, rfl⟩
  | finish => simp [Lbl.isFinish] at hl

theorem run_busy (cfg : Cfg) (sched : List Lbl) :
    ∀ (s : St), s.busy = true → (∀ l ∈ sched, l.isFinish = false) →
      (run Proto.good cfg s sched).busy = true ∧
      applyMods (run Proto.good cfg s sched).regs (run Proto.good cfg s sched).pending = applyMods s.regs s.pending ∧
      (run Proto.good cfg s sched).cur = s.cur := by
  induction sched with
  | nil => intro s hb _; exact ⟨hb, rfl, rfl⟩
  | cons l ls ih =>
    intro s hb hl
    have h1 := step_busy cfg s l hb (hl l (List.mem_cons_self ..))
    have h2 := ih (step Proto.good cfg s l) h1.1 (fun x hx => hl x (List.mem_cons_of_mem _ hx))
    simp only [run, List.foldl_cons] at h2 ⊢
    exact ⟨h2.1, by rw [h2.2.1, h1.2.1], by rw [h2.2.2, h1.2.2]⟩

/-- the finishing step of a registration whose modifications are all applied -/
theorem step_finish (cfg : Cfg) (s : St) (hb : s.busy = true) (hp : s.pending = []) :
    (step Proto.good cfg s .finish).busy = false ∧ (step Proto.good cfg s .finish).regs = s.regs ∧
    (step Proto.good cfg s .finish).cur = s.cur + 1 ∧ (step Proto.good cfg s .finish).threads = s.threads ∧
    (step Proto.good cfg s .finish).heap (s.cur + 1) = [] := by
  simp [step, hb, hp, Proto.good, swap, updHeap]

theorem run_append (P : Proto) (cfg : Cfg) (s : St) (a b : List Lbl) :
    run P cfg s (a ++ b) = run P cfg (run P cfg s a) b := by
  simp [run, List.foldl_append]

/-- `modify` applied as often as there are pending modifications applies them all -/
theorem run_modifies (cfg : Cfg) :
    ∀ (ms : Mods) (s : St), s.busy = true → s.pending = ms →
      let s' := run Proto.good cfg s (List.replicate ms.length .modify)
      s'.busy = true ∧ s'.pending = [] ∧ s'.regs = applyMods s.regs ms ∧ s'.cur = s.cur ∧ s'.threads = s.threads ∧
        s'.heap = s.heap ∧ s'.lock = s.lock := by
  intro ms
  induction ms with
  | nil => intro s hb hp; simp [run, hb, hp, applyMods]
  | cons m ms ih =>
    intro s hb hp
    obtain ⟨sl, v⟩ := m
    have hstep : step Proto.good cfg s .modify = { s with regs := setReg s.regs sl v, pending := ms } := by
      simp [step, hb, hp]
    have := ih { s with regs := setReg s.regs sl v, pending := ms } hb rfl
    simp only [List.length_cons, List.replicate_succ, run, List.foldl_cons, hstep]
    simpa [run, applyMods] using this

/-- an unpre-empted registration from an idle registrar: the modifications are applied, a fresh empty dict is
current, nothing else moves -/
theorem run_atomicReg (cfg : Cfg) (s : St) (mods : Mods) (hb : s.busy = false) :
    let s' := run Proto.good cfg s (atomicReg mods)
    s'.busy = false ∧ s'.regs = applyMods s.regs mods ∧ s'.cur = s.cur + 1 ∧ s'.threads = s.threads ∧
      s'.heap (s.cur + 1) = [] ∧ (∀ c, c ≠ s.cur + 1 → s'.heap c = s.heap c) ∧ s'.lock = s.lock := by
  have hbeg : step Proto.good cfg s (.begin mods) = { s with busy := true, pending := mods } := by
    simp [step, hb, Proto.good]
  have hm := run_modifies cfg mods { s with busy := true, pending := mods } rfl rfl
  simp only at hm
  obtain ⟨h1, h2, h3, h4, h5, h6, h7⟩ := hm
  simp only [atomicReg, run, List.foldl_cons, hbeg, List.foldl_append, List.foldl_nil]
  simp only [run] at h1 h2 h3 h4 h5 h6 h7
  generalize List.foldl (step Proto.good cfg) { s with busy := true, pending := mods } (List.replicate mods.length Lbl.modify) = s1 at *
  have hf := step_finish cfg s1 h1 h2
  refine ⟨hf.1, by rw [hf.2.1, h3], by rw [hf.2.2.1, h4], by rw [hf.2.2.2.1, h5], by rw [← h4]; exact hf.2.2.2.2, ?_, ?_⟩
  · intro c hc
    simp only [step, h1, h2, Proto.good, swap]
    simp [h4, h6, updHeap, hc]
  · simp only [step, h1, h2, Proto.good, swap]
    simp [h7]

/-! ### threads that read the cache reference after a swap -/

/-- thread `tid` does not exist yet, has not read the reference yet, or holds a reference to dict `c0` -/
def FreshOk (s : St) (tid : Nat) (c0 : Nat) : Prop :=
  ∀ t, s.threads[tid]? = some t → t.pc = .start ∨ t.pc.ref? = some c0

theorem freshOk_step (P : Proto) (cfg : Cfg) (s : St) (l : Lbl) (tid : Nat)
    (hf : FreshOk s tid s.cur)
    (hcur : (step P cfg s l).cur = s.cur) : FreshOk (step P cfg s l) tid s.cur := by
  cases l with
  | spawn q =>
    intro t ht
    simp only [step] at ht
    by_cases hlt : tid < s.threads.length
    · rw [List.getElem?_append_left hlt] at ht
      exact hf t ht
    · rw [List.getElem?_append_right (by omega)] at ht
      have : tid - s.threads.length = 0 := by
        cases hx : tid - s.threads.length with
        | zero => rfl
        | succ n => rw [hx] at ht; simp at ht
      rw [this] at ht
      simp only [List.getElem?_cons_zero, Option.some.injEq] at ht
      left; rw [← ht]
  | thread tid' =>
    intro t ht
    simp only [step] at ht
    by_cases he : tid = tid'
    · subst he
      cases hold : s.threads[tid]? with
      | none =>
        rw [stepThread_none P cfg s tid hold, hold] at ht; cases ht
      | some t0 =>
        obtain ⟨_, _, t', ht', _, hs, hr⟩ := stepThread_threads P cfg s tid t0 hold
        rw [ht'] at ht
        cases ht
        rcases hf t0 hold with h0 | h0
        · right; exact hs h0
        · right; exact hr _ h0
    · cases hold : s.threads[tid']? with
      | none => rw [stepThread_none P cfg s tid' hold] at ht; exact hf t ht
      | some t0 =>
        obtain ⟨h1, _, _⟩ := stepThread_threads P cfg s tid' t0 hold
        rw [h1 tid he] at ht
        exact hf t ht
  | «begin» m =>
    intro t ht
    have : (step P cfg s (.begin m)).threads = s.threads := by
      simp only [step]; split
      · rfl
      · simp only [swap]; split <;> (try split) <;> rfl
    rw [this] at ht; exact hf t ht
  | modify =>
    intro t ht
    have : (step P cfg s .modify).threads = s.threads := by
      simp only [step]; split <;> rfl
    rw [this] at ht; exact hf t ht
  | finish =>
    intro t ht
    have : (step P cfg s .finish).threads = s.threads := by
      simp only [step]; split
      · simp only [swap]; split <;> (try split) <;> rfl
      · rfl
    rw [this] at ht; exact hf t ht

theorem freshOk_run (P : Proto) (cfg : Cfg) (tid : Nat) (sched : List Lbl) :
    ∀ (s : St), s.busy = false → (∀ l ∈ sched, l.isBegin = false) → FreshOk s tid s.cur →
      FreshOk (run P cfg s sched) tid s.cur := by
  induction sched with
  | nil => intro s _ _ hf; exact hf
  | cons l ls ih =>
    intro s hb hl hf
    have h1 := step_quiet P cfg s l hb (hl l (List.mem_cons_self ..))
    have hf1 := freshOk_step P cfg s l tid hf h1.2.1
    have := ih (step P cfg s l) h1.2.2 (fun x hx => hl x (List.mem_cons_of_mem _ hx)) (by rw [h1.2.1]; exact hf1)
    simp only [run, List.foldl_cons] at this ⊢
    rw [h1.2.1] at this
    exact this

end Pyr.Cache
