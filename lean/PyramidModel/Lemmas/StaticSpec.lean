import PyramidModel.Static
/-!
C16 — the declarative side: what "inside the root" means, which file a normalised path designates, and which
outcome the property demands.  Written without `securePath`, `pjoin`, `normpath`, `resourceFilename`: names are
formed by plain concatenation `root/s₁/…/sₙ`.  Core Lean only (linked into the driver, which prints it).
-/
namespace Pyr.Static

open Pyr.Trav (Seg splitOn joinWith)

/-- a proper path component: it names an entry of the directory it is looked up in, and nothing else -/
def Proper (s : Seg) : Prop := s ≠ [] ∧ s ≠ ['.'] ∧ s ≠ ['.', '.'] ∧ '/' ∉ s ∧ '\x00' ∉ s

instance (s : Seg) : Decidable (Proper s) := by unfold Proper; infer_instance

/-- `root/s₁/…/sₙ` -/
def below (root : Text) (segs : List Seg) : Text := root ++ segs.flatMap fun s => '/' :: s

/-- `name` lies strictly inside `root`, lexically: it is `root`, a slash, and a non-empty relative path all of
whose components are proper (no `..` to climb with, no empty or `.` component, no NUL). -/
def Under (root name : Text) : Prop :=
  ∃ comps : List Seg, comps ≠ [] ∧ (∀ c ∈ comps, Proper c) ∧ name = below root comps

/-- executable form of `Under` (proved equivalent in `Lemmas/Static.lean`) -/
def underB (root name : Text) : Bool :=
  (root ++ ['/']).isPrefixOf name &&
    (splitOn '/' (name.drop (root.length + 1))).all fun c => decide (Proper c)

/-- the directory a view is confined to, as the operating system sees it -/
def rootOf (v : View) : Text := if v.pkg then v.base ++ '/' :: rstripSlash v.docroot else v.docroot

/-- a filesystem root as `static_view.__init__` stores it: a fixed point of `normpath`; `/`, `//` and `.` are
excluded because below them names are formed without a separating slash (`/` + `a` = `/a`) -/
def FsRootWf (r : Text) : Prop := normpath r = r ∧ r ≠ ['/'] ∧ r ≠ ['/', '/'] ∧ r ≠ ['.']

/-- a package root: the package directory is a non-empty path not ending in a slash, the docroot a relative
path without empty components (`static`, `static/`, `a/b/`) -/
def PkgRootWf (base docroot : Text) : Prop :=
  base ≠ [] ∧ base.getLast? ≠ some '/' ∧ ∀ c ∈ splitOn '/' (rstripSlash docroot), c ≠ []

/-- well-formed configuration: the index name is a proper component, the encoding extensions contain neither
slash nor NUL, the root is well-formed -/
def WfView (v : View) : Prop :=
  Proper v.index ∧ (∀ e ∈ v.encs, ∀ x ∈ e.2, '/' ∉ x ∧ '\x00' ∉ x) ∧
    (if v.pkg then PkgRootWf v.base v.docroot else FsRootWf v.docroot)

instance (r : Text) : Decidable (FsRootWf r) := by unfold FsRootWf; infer_instance
instance (b d : Text) : Decidable (PkgRootWf b d) := by unfold PkgRootWf; infer_instance
instance (v : View) : Decidable (WfView v) := by unfold WfView; infer_instance

/-- does the client accept this candidate?  identity always; an encoded variant only when an `Accept-Encoding`
header is present and lists it -/
def accepts (ae : Option (List Enc)) (c : Cand) : Bool :=
  match c.enc, ae with
  | none, _ => true
  | some _, none => false
  | some e, some acc => acc.contains e

/-- an existing regular file -/
def isFile (fs : Fs) (p : Text) : Bool := fs.isThere p && !fs.isDir p

/-- the existing files that can stand for `target`: itself, and `target + ext` for the configured encodings -/
def specCands (fs : Fs) (v : View) (target : Text) : List Cand :=
  (if isFile fs target then [⟨target, none⟩] else []) ++
  v.encs.flatMap fun (e, exts) =>
    exts.filterMap fun ext => if isFile fs (target ++ ext) then some ⟨target ++ ext, some e⟩ else none

/-- serve the smallest candidate the client accepts -/
def specChoose (fs : Fs) (v : View) (ae : Option (List Enc)) (target : Text) : Outcome :=
  let cs := sortBySize fs.size (specCands fs v target)
  match cs.find? (accepts ae) with
  | none => .notFound
  | some c => .file c.path c.enc (decide (cs.length > 1))

/-- what the operating system tells about the root: it is a directory, with or without a trailing slash -/
def RootIsDir (fs : Fs) (v : View) : Prop :=
  fs.isDir (rootOf v) = true ∧ fs.isDir (rootOf v ++ ['/']) = fs.isDir (rootOf v)

instance (fs : Fs) (v : View) : Decidable (RootIsDir fs v) := by unfold RootIsDir; infer_instance

/-- what the property demands for a normalised segment tuple: a tuple with an improper component designates
nothing (404); otherwise `root/s₁/…/sₙ`, its index file when it is a directory requested with a trailing slash,
a redirect when the slash is missing -/
def specView (fs : Fs) (v : View) (ae : Option (List Enc)) (slash : Bool) (segs : List Seg) : Outcome :=
  if segs.all fun s => decide (Proper s) then
    let d := below (rootOf v) segs
    if fs.isDir d then
      if slash then specChoose fs v ae (d ++ '/' :: v.index) else .redirect
    else specChoose fs v ae d
  else .notFound

end Pyr.Static
