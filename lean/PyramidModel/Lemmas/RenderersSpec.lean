/-
X03 — the declarative side, written independently of the model's algorithms (core Lean only; linked into the driver).

  * `safeHead`, `safeMid`, `safeLast`, `CbGrammar`   the callback grammar the JSONP check enforces, character by character
  * `CbGrammarOld`, `oldPattern`         the grammar / generated pattern before fix a7b5ff8 (regression facts)
  * `loads`                              a JSON reader (RFC 8259 values without fractions/exponents; white space allowed
                                         after `[ { , :`) — C19's string reader `readJsonString` is reused
  * `Nearest`                            "the adapter of the nearest specification in the resolution order"
-/
import PyramidModel.Renderers
import PyramidModel.Lemmas.HttpExcSpec

namespace Pyr.Render
open Pyr.HttpExc (readJsonString skipWs)

def mimeJavascript : Text :=
  ['a', 'p', 'p', 'l', 'i', 'c', 'a', 't', 'i', 'o', 'n', '/', 'j', 'a', 'v', 'a', 's', 'c', 'r', 'i', 'p', 't']

/-- `/**/` cb `(` json `);` -/
def jsonpText (cb js : Text) : Text := ['/', '*', '*', '/'] ++ cb ++ ['('] ++ js ++ [')', ';']

/-! ## the callback grammar -/

/-- what `[a-z]` accepts under `re.IGNORECASE` on `str`: the 52 ASCII letters and the four characters whose simple
case mapping lands on an ASCII letter: U+0130 İ, U+0131 ı, U+017F ſ, U+212A K (all of them JavaScript IdentifierStart) -/
def letterI (c : Char) : Bool :=
  (97 ≤ c.toNat && c.toNat ≤ 122) || (65 ≤ c.toNat && c.toNat ≤ 90) ||
    c.toNat == 304 || c.toNat == 305 || c.toNat == 383 || c.toNat == 8490

/-- first character: a letter, `$` or `_` -/
def safeHead (c : Char) : Bool := letterI c || c.toNat == 36 || c.toNat == 95

/-- further characters: those, digits, `.`, `[`, `]` — the characters of a JavaScript identifier / member / index chain -/
def safeMid (c : Char) : Bool :=
  safeHead c || (48 ≤ c.toNat && c.toNat ≤ 57) || c.toNat == 46 || c.toNat == 91 || c.toNat == 93

/-- last character: a letter, `$`, `_`, a digit or `]` (the middle class without `.` and `[`) -/
def safeLast (c : Char) : Bool :=
  safeHead c || (48 ≤ c.toNat && c.toNat ≤ 57) || c.toNat == 93

/-- The language of `^[$a-z_][$0-9a-z_\.\[\]]+[$0-9a-z_\]]\Z` under IGNORECASE (fix a7b5ff8), written out: head, one or
more middle characters, one last character; nothing after it. -/
def CbGrammar (cb : Text) : Prop :=
  ∃ h mid l, cb = h :: (mid ++ [l]) ∧ safeHead h = true ∧ mid ≠ [] ∧ (∀ c ∈ mid, safeMid c = true) ∧ safeLast l = true

/-- The language of the pattern BEFORE a7b5ff8, `^[$a-z_][$0-9a-z_\.\[\]]+[^.]$`: the last character is anything but `.`,
and (because `$` also matches before a final line feed) a `\n` may follow. -/
def CbGrammarOld (cb : Text) : Prop :=
  ∃ h mid l tail, cb = h :: (mid ++ l :: tail) ∧ safeHead h = true ∧ mid ≠ [] ∧ (∀ c ∈ mid, safeMid c = true) ∧
    l ≠ '.' ∧ (tail = [] ∨ tail = ['\n'])

/-- what the property wants: every character is one of the identifier / member / index characters -/
def AllSafe (cb : Text) : Prop := ∀ c ∈ cb, safeMid c = true

open Pyr.Rx in
/-- what `extract/x03.py` emitted for the source BEFORE a7b5ff8 (kept for the regression facts of Props/X03) -/
def oldPattern : CbPattern :=
  { startAnchor := true, endAnchor := .dollar,
    body := .seq (.set false [.ch '$', .range 'A' 'Z', .ch '_', .range 'a' 'z', .range '\u0130' '\u0131', .ch '\u017f', .ch '\u212a'])
      (.seq (.rep true 1 none (.set false [.ch '$', .ch '.', .range '0' '9', .range 'A' '[', .ch ']', .ch '_', .range 'a' 'z',
        .range '\u0130' '\u0131', .ch '\u017f', .ch '\u212a'])) (.set true [.ch '.'])),
    method := .match, understood := true }

/-! ## a JSON reader -/

def isDigit (c : Char) : Bool := 48 ≤ c.toNat && c.toNat ≤ 57

def readDigits : Text → Nat → Nat × Text
  | [], acc => (acc, [])
  | c :: r, acc => if isDigit c then readDigits r (acc * 10 + (c.toNat - 48)) else (acc, c :: r)

def readInt (t : Text) : Option (Int × Text) :=
  match t with
  | [] => none
  | c :: r =>
    if c = '-' then
      match r with
      | [] => none
      | d :: _ => if isDigit d then some (-((readDigits r 0).1 : Int), (readDigits r 0).2) else none
    else if isDigit c then some (((readDigits t 0).1 : Int), (readDigits t 0).2)
    else none

def headIs (c : Char) : Text → Bool
  | [] => false
  | d :: _ => d == c

def expect (lit : Text) (v : Val) (t : Text) : Option (Val × Text) :=
  if lit.isPrefixOf t then some (v, t.drop lit.length) else none

mutual
def parseVal : Nat → Text → Option (Val × Text)
  | 0, _ => none
  | f + 1, t =>
    match t with
    | [] => none
    | c :: r =>
      if c = '"' then (readJsonString t).map fun x => (Val.str x.1, x.2)
      else if c = '[' then
        if headIs ']' (skipWs r) then some (.arr .nil, (skipWs r).drop 1)
        else
          match parseVal f (skipWs r) with
          | none => none
          | some (v, r2) => (parseTail f r2).map fun x => (Val.arr (.cons v x.1), x.2)
      else if c = '{' then
        if headIs '}' (skipWs r) then some (.obj .nil, (skipWs r).drop 1)
        else
          match parseMember f (skipWs r) with
          | none => none
          | some (k, v, r2) => (parseMemTail f r2).map fun x => (Val.obj (.cons k v x.1), x.2)
      else if c = 'n' then expect tNull .null t
      else if c = 't' then expect tTrue (.bool true) t
      else if c = 'f' then expect tFalse (.bool false) t
      else (readInt t).map fun x => (Val.int x.1, x.2)
/-- `"key" : value` -/
def parseMember : Nat → Text → Option (Text × Val × Text)
  | 0, _ => none
  | f + 1, t =>
    match readJsonString t with
    | none => none
    | some (k, r) =>
      if headIs ':' (skipWs r) then
        match parseVal f (skipWs ((skipWs r).drop 1)) with
        | none => none
        | some (v, r2) => some (k, v, r2)
      else none
/-- after an element: `]`, or `,` and the next element -/
def parseTail : Nat → Text → Option (Vals × Text)
  | 0, _ => none
  | f + 1, t =>
    match t with
    | [] => none
    | c :: r =>
      if c = ']' then some (.nil, r)
      else if c = ',' then
        match parseVal f (skipWs r) with
        | none => none
        | some (v, r2) => (parseTail f r2).map fun x => (Vals.cons v x.1, x.2)
      else none
def parseMemTail : Nat → Text → Option (Mems × Text)
  | 0, _ => none
  | f + 1, t =>
    match t with
    | [] => none
    | c :: r =>
      if c = '}' then some (.nil, r)
      else if c = ',' then
        match parseMember f (skipWs r) with
        | none => none
        | some (k, v, r2) => (parseMemTail f r2).map fun x => (Mems.cons k v x.1, x.2)
      else none
end

/-- `json.loads` on the fragment: the whole text must be one value -/
def loads (t : Text) : Option Val :=
  match parseVal (t.length + 1) t with
  | some (v, []) => some v
  | _ => none

/-! ## adapter dispatch, declaratively -/

/-- `a` is the adapter registered for the FIRST specification of the resolution order that has any adapter -/
def Nearest (regs : Regs) (sro : List Nat) (a : Nat) : Prop :=
  ∃ pre s post, sro = pre ++ s :: post ∧ regFor regs s = some a ∧ ∀ x ∈ pre, regFor regs x = none

end Pyr.Render
