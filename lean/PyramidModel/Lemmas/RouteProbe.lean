import PyramidModel.Route
/-! Shapes of the facts `extract/c01.py` obtains by probing the running `pyramid.urldispatch`, and the (executable)
comparison of each fact with the model.  `Gen/C01.lean` holds the data, `Props/C01.lean` decides the comparisons. -/
namespace Pyr.Route

open Pyr.Rx (Rx Ucd)

/-- one pattern of the cube: the regex text `_compile_route` handed to `re.compile` (`none` = `re.error`), the
generator template, and what the matcher answered on some paths -/
structure CProbe where
  pattern : Text
  regex : Option Text
  gen : Option Text
  answers : List (Text × Option Env)

/-- the model says the same about this pattern -/
def CProbe.check (lib : Lib) (p : CProbe) : Bool :=
  match compileRoute Ucd.ascii lib p.pattern, p.regex, p.gen with
  | .ok toks, some r, some g =>
    regexText toks == r && genTemplate toks == g &&
      p.answers.all fun x => matchToks Ucd.ascii toks x.1 == x.2
  | .error .reError, none, none => p.answers.isEmpty
  | _, _, _ => false

structure MDecl where
  name : Text
  pattern : Text
  preds : List Pred
  static : Bool

/-- what a real `RoutesMapper` answered: the connect number of the selected route -/
inductive MOut where
  | urlDecode
  | noMatch
  | hit (id : Nat) (env : Env)
  | unknown
deriving DecidableEq, Repr

structure MProbe where
  decls : List MDecl
  path : Option (List Nat)
  out : MOut

def MProbe.model (lib : Lib) (p : MProbe) : MOut :=
  let m := runDecls Mapper.empty (p.decls.map fun d =>
    ({ name := d.name, compiled := compileRoute Ucd.ascii lib d.pattern, preds := d.preds, static := d.static } : Decl))
  match mapperCall Ucd.ascii m.routelist (p.path.map fun bs => bs.map UInt8.ofNat) with
  | .urlDecode => .urlDecode
  | .noMatch => .noMatch
  | .hit i e => match m.routelist[i]? with
    | some r => .hit r.id e
    | none => .unknown

def MProbe.check (lib : Lib) (p : MProbe) : Bool := p.model lib == p.out

/-- one `add_route(name, '/x', kw=value)` of the running code: was `value` the unset one, how many predicates resulted -/
structure AProbe where
  kw : String
  value : String
  unset : Bool
  npreds : Nat

def kindOfName : String → Option BuiltinKind
  | "xhr" => some .xhr
  | "request_method" => some .requestMethod
  | "path_info" => some .pathInfo
  | "request_param" => some .requestParam
  | "header" => some .header
  | "accept" => some .accept
  | "is_authenticated" => some .isAuthenticated
  | "effective_principals" => some .effectivePrincipals
  | "traverse" => some .traverse
  | _ => none

/-- the model's `addRoute` attaches as many predicates for this keyword value as the running code did -/
def AProbe.check (p : AProbe) : Bool :=
  let bs : List (BuiltinKind × Option Pred) :=
    match kindOfName p.kw with
    | some k => [(k, if p.unset then none else some (.const true))]
    | none => []                                   -- `custom_predicates=()`: no built-in keyword, no custom predicate
  ((kindOfName p.kw).isSome || p.unset) &&
  match addRoute none { name := [], pattern := some ['/', 'x'], path := none, inheritSlash := false, static := false,
                        preds := [], builtins := bs } with
  | .ok (_, ps, _) => ps.length == p.npreds
  | .error _ => false

end Pyr.Route
