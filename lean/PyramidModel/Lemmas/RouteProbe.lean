import PyramidModel.Route
/-! Shapes of the facts `extract/c01.py` obtains by probing the running `pyramid.urldispatch`, and the (executable)
comparison of each fact with the model.  `Gen/C01.lean` holds the data, `Props/C01.lean` decides the comparisons. -/
namespace Pyr.Route

open Pyr.Rx (Rx Ucd)

/-- one pattern of the cube: the regex text `_compile_route` handed to `re.compile` (`none` = `re.error`), the
generator template, and what the matcher answered on some paths -/
structure CProbe where
  pattern : Text
  regex : Option Text
  gen : Option Text
  answers : List (Text × Option Env)

/-- the model says the same about this pattern -/
def CProbe.check (lib : Lib) (p : CProbe) : Bool :=
  match compileRoute Ucd.ascii lib p.pattern, p.regex, p.gen with
  | .ok toks, some r, some g =>
    regexText toks == r && genTemplate toks == g &&
      p.answers.all fun x => matchToks Ucd.ascii toks x.1 == x.2
  | .error .reError, none, none => p.answers.isEmpty
  | _, _, _ => false

structure MDecl where
  name : Text
  pattern : Text
  preds : List Pred
  static : Bool

/-- what a real `RoutesMapper` answered: the connect number of the selected route -/
inductive MOut where
  | urlDecode
  | noMatch
  | hit (id : Nat) (env : Env)
  | unknown
deriving DecidableEq, Repr

structure MProbe where
  decls : List MDecl
  path : Option (List Nat)
  out : MOut

def MProbe.model (lib : Lib) (p : MProbe) : MOut :=
  let m := runDecls Mapper.empty (p.decls.map fun d =>
    ({ name := d.name, compiled := compileRoute Ucd.ascii lib d.pattern, preds := d.preds, static := d.static } : Decl))
  match mapperCall Ucd.ascii m.routelist (p.path.map fun bs => bs.map UInt8.ofNat) with
  | .urlDecode => .urlDecode
  | .noMatch => .noMatch
  | .hit i e => match m.routelist[i]? with
    | some r => .hit r.id e
    | none => .unknown

def MProbe.check (lib : Lib) (p : MProbe) : Bool := p.model lib == p.out

end Pyr.Route
