import PyramidModel.Lemmas.PredicatesText
/-! X06 helper lemmas: score / order arithmetic, `kwPop`, `makeLoop`, `evalAll`. -/
namespace Pyr.Pred
open Pyr

/-! ### score and order -/

theorem foldl_or_testBit (ws : List Nat) : ∀ (a i : Nat), (ws.foldl (· ||| ·) a).testBit i = (a.testBit i || ws.any (·.testBit i)) := by
  induction ws with
  | nil => intro a i; simp
  | cons w ws ih =>
    intro a i
    simp only [List.foldl_cons, List.any_cons]
    rw [ih, Nat.testBit_or, Bool.or_assoc]

theorem score_testBit (ws : List Nat) (i : Nat) : (score ws).testBit i = ws.any (·.testBit i) := by
  unfold score
  rw [foldl_or_testBit]
  simp

/-- the score depends on the SET of weights only -/
theorem score_congr {ws ws' : List Nat} (h : ∀ x, x ∈ ws ↔ x ∈ ws') : score ws = score ws' := by
  apply Nat.eq_of_testBit_eq
  intro i
  rw [score_testBit, score_testBit]
  rw [Bool.eq_iff_iff]
  simp only [List.any_eq_true]
  constructor
  · intro ⟨x, hx, hb⟩; exact ⟨x, (h x).mp hx, hb⟩
  · intro ⟨x, hx, hb⟩; exact ⟨x, (h x).mpr hx, hb⟩

theorem foldl_or_lt (n : Nat) (ws : List Nat) : ∀ a, a < 2 ^ n → (∀ w ∈ ws, w < 2 ^ n) → ws.foldl (· ||| ·) a < 2 ^ n := by
  induction ws with
  | nil => intro a ha _; exact ha
  | cons w ws ih =>
    intro a ha h
    simp only [List.foldl_cons]
    exact ih _ (Nat.or_lt_two_pow ha (h w List.mem_cons_self)) (fun x hx => h x (List.mem_cons_of_mem _ hx))

theorem score_lt (n : Nat) (ws : List Nat) (h : ∀ w ∈ ws, w < 2 ^ n) : score ws < 2 ^ n :=
  foldl_or_lt n ws 0 (Nat.two_pow_pos n) h

theorem fdiv_ofNat (a b : Nat) : Int.fdiv (a : Int) (b : Int) = ((a / b : Nat) : Int) := by
  cases a with
  | zero => simp [Int.fdiv]
  | succ a =>
    cases b with
    | zero => simp [Int.fdiv]
    | succ b => rfl

theorem orderOf_nat (s k : Nat) (h : s ≤ 2 ^ 30) : orderOf s k = (((2 ^ 30 - s) / (k + 1) : Nat) : Int) := by
  unfold orderOf MAX_ORDER
  have e1 : ((1073741824 : Int) - (s : Int)) = ((2 ^ 30 - s : Nat) : Int) := by
    rw [Int.ofNat_sub h]; rfl
  have e2 : ((k : Int) + 1) = ((k + 1 : Nat) : Int) := by simp
  rw [e1, e2, fdiv_ofNat]

/-- the arithmetic behind "more predicates, smaller order" -/
theorem order_nat_lt (M S s s' k k' : Nat) (hk : k < k') (hs : s ≤ S) (hb : (S + k + 1) * (k + 2) ≤ M) :
    (M - s') / (k' + 1) < (M - s) / (k + 1) := by
  have h1 : (M - s') / (k' + 1) ≤ M / (k + 2) := Nat.div_le_div (Nat.sub_le _ _) (by omega) (by omega)
  have hq1 : M / (k + 2) * (k + 2) ≤ M := Nat.div_mul_le_self M (k + 2)
  have hq2 : S + k + 1 ≤ M / (k + 2) := (Nat.le_div_iff_mul_le (by omega)).2 hb
  have h2 : M / (k + 2) + 1 ≤ (M - s) / (k + 1) := by
    apply (Nat.le_div_iff_mul_le (by omega)).2
    generalize M / (k + 2) = q at hq1 hq2
    have e1 : (q + 1) * (k + 1) = q * k + q + k + 1 := by
      simp only [Nat.add_mul, Nat.mul_add, Nat.mul_one, Nat.one_mul]; omega
    have e2 : q * (k + 2) = q * k + 2 * q := by
      simp only [Nat.mul_add]; omega
    rw [e1]; rw [e2] at hq1
    omega
  omega

/-! ### kwPop on a keyword dict (distinct keys) -/

def keys (kw : Kw) : List Text := kw.map (·.1)

/-- `kw.get(name)` -/
def kwGet (name : Text) : Kw → KwVal
  | [] => none
  | (k, v) :: r => if k = name then v else kwGet name r

theorem kwGet_of_not_mem (name : Text) : ∀ kw : Kw, name ∉ keys kw → kwGet name kw = none
  | [], _ => rfl
  | (k, v) :: r, h => by
    simp only [keys, List.map_cons, List.mem_cons, not_or] at h
    simp only [kwGet, Ne.symm h.1, if_false]
    exact kwGet_of_not_mem name r h.2

theorem kwGet_of_mem (name : Text) (v : KwVal) : ∀ kw : Kw, (keys kw).Nodup → (name, v) ∈ kw → kwGet name kw = v
  | [], _, h => by cases h
  | (k, w) :: r, hn, h => by
    simp only [keys, List.map_cons, List.nodup_cons] at hn
    rcases List.mem_cons.mp h with h | h
    · cases h; simp [kwGet]
    · have : k ≠ name := fun e => hn.1 (by rw [e]; exact List.mem_map.mpr ⟨(name, v), h, rfl⟩)
      simp only [kwGet, this, if_false]
      exact kwGet_of_mem name v r hn.2 h

theorem kwGet_perm (name : Text) {kw₁ kw₂ : Kw} (hp : kw₁.Perm kw₂) (hn : (keys kw₁).Nodup) : kwGet name kw₁ = kwGet name kw₂ := by
  have hn₂ : (keys kw₂).Nodup := (hp.map _).nodup_iff.mp hn
  by_cases hm : name ∈ keys kw₁
  · obtain ⟨e, he, rfl⟩ := List.mem_map.mp hm
    rw [kwGet_of_mem e.1 e.2 kw₁ hn he, kwGet_of_mem e.1 e.2 kw₂ hn₂ (hp.mem_iff.mp he)]
  · rw [kwGet_of_not_mem name kw₁ hm, kwGet_of_not_mem name kw₂ (fun h => hm ((hp.map _).mem_iff.mpr h))]

theorem kwPop_closed (name : Text) : ∀ kw : Kw, (keys kw).Nodup → kwPop name kw = (kwGet name kw, kw.filter (fun e => e.1 != name))
  | [], _ => rfl
  | (k, v) :: r, hn => by
    simp only [keys, List.map_cons, List.nodup_cons] at hn
    by_cases hk : k = name
    · subst hk
      have : r.filter (fun e => e.1 != k) = r := by
        apply List.filter_eq_self.mpr
        intro e he
        have : e.1 ≠ k := fun h => hn.1 (h ▸ List.mem_map.mpr ⟨e, he, rfl⟩)
        simpa using this
      simp [kwPop, kwGet, this]
    · have ih := kwPop_closed name r hn.2
      simp only [kwPop, hk, if_false, ih, kwGet, List.filter_cons]
      simp [hk]

theorem keys_filter_nodup (p : Text × KwVal → Bool) {kw : Kw} (h : (keys kw).Nodup) : (keys (kw.filter p)).Nodup :=
  List.Nodup.sublist (List.Sublist.map _ List.filter_sublist) h

/-! ### makeLoop -/

def names (ord : List (Text × Factory)) : List Text := ord.map (·.1)

/-- what is left of the keywords after the loop: those no registered name claimed -/
theorem makeLoop_rest (E : Env) : ∀ (ord : List (Text × Factory)) (n : Nat) (kw : Kw) (a a' : Acc) (r : Kw),
    (keys kw).Nodup → makeLoop E n ord kw a = .ok (a', r) → r = kw.filter (fun e => !(names ord).contains e.1)
  | [], n, kw, a, a', r, _, h => by
    simp only [makeLoop] at h
    cases h
    exact (List.filter_eq_self.mpr (by simp [names])).symm
  | (name, f) :: rest, n, kw, a, a', r, hn, h => by
    simp only [makeLoop] at h
    rw [kwPop_closed name kw hn] at h
    have hn' := keys_filter_nodup (fun e => e.1 != name) hn
    have fin : ∀ l : Kw, (l.filter (fun e => e.1 != name)).filter (fun e => !(names rest).contains e.1)
        = l.filter (fun e => !(names ((name, f) :: rest)).contains e.1) := by
      intro l
      rw [List.filter_filter]
      apply List.filter_congr
      intro e _
      simp only [names, List.map_cons, List.contains_cons]
      cases h1 : (e.1 == name) <;> simp [h1, bne]
    cases hv : kwGet name kw with
    | none =>
      simp only [hv] at h
      rw [makeLoop_rest E rest (n + 1) _ a a' r hn' h, fin]
    | some vals =>
      simp only [hv] at h
      cases hm : makeVals E n f vals a with
      | error e => rw [hm] at h; cases h
      | ok a₁ =>
        rw [hm] at h
        simp only at h
        rw [makeLoop_rest E rest (n + 1) _ a₁ a' r hn' h, fin]

/-- two runs of the loop on keyword lists that are permutations of each other -/
theorem makeLoop_perm (E : Env) : ∀ (ord : List (Text × Factory)) (n : Nat) (kw₁ kw₂ : Kw) (a : Acc),
    kw₁.Perm kw₂ → (keys kw₁).Nodup →
    (makeLoop E n ord kw₁ a).map (·.1) = (makeLoop E n ord kw₂ a).map (·.1)
  | [], n, kw₁, kw₂, a, _, _ => by simp [makeLoop, Except.map]
  | (name, f) :: rest, n, kw₁, kw₂, a, hp, hn => by
    have hn₂ : (keys kw₂).Nodup := (hp.map _).nodup_iff.mp hn
    simp only [makeLoop]
    rw [kwPop_closed name kw₁ hn, kwPop_closed name kw₂ hn₂, ← kwGet_perm name hp hn]
    have hp' := hp.filter (fun e => e.1 != name)
    have hn' := keys_filter_nodup (fun e => e.1 != name) hn
    cases hv : kwGet name kw₁ with
    | none => simpa using makeLoop_perm E rest (n + 1) _ _ a hp' hn'
    | some vals =>
      simp only
      cases hm : makeVals E n f vals a with
      | error e => rfl
      | ok a₁ => simpa using makeLoop_perm E rest (n + 1) _ _ a₁ hp' hn'

/-- the loop's bookkeeping: one weight per predicate, every weight a registered position's bit, the pre-image is the
concatenation of the predicate phashes, all of them latin-1 -/
structure AccInv (N : Nat) (a : Acc) : Prop where
  pre : a.pre = a.preds.flatMap phash
  len : a.weights.length = a.preds.length
  bound : ∀ w ∈ a.weights, w < 2 ^ (N + 1)

theorem makeVals_inv (E : Env) (N n : Nat) (f : Factory) (hn : n < N) : ∀ (vals : List (Bool × Val)) (a a' : Acc),
    AccInv N a → makeVals E n f vals a = .ok a' → AccInv N a'
  | [], a, a', hi, h => by simp only [makeVals] at h; cases h; exact hi
  | (nt, v) :: r, a, a', hi, h => by
    simp only [makeVals] at h
    cases hc : construct E f v with
    | error e => rw [hc] at h; cases h
    | ok p0 =>
      rw [hc] at h
      simp only at h
      by_cases hl : latin1 (phash (if nt = true then Pred.notted p0 else p0)) = true
      · simp only [hl, if_true] at h
        refine makeVals_inv E N n f hn r _ a' ⟨?_, ?_, ?_⟩ h
        · simp [hi.pre]
        · simp [hi.len]
        · intro w hw
          rcases List.mem_append.mp hw with hw | hw
          · exact hi.bound w hw
          · simp at hw
            rw [hw]
            exact Nat.pow_lt_pow_right (by decide) (by omega)
      · simp only [hl] at h
        cases h

theorem makeLoop_inv (E : Env) (N : Nat) : ∀ (ord : List (Text × Factory)) (n : Nat) (kw : Kw) (a a' : Acc) (r : Kw),
    n + ord.length = N → AccInv N a → makeLoop E n ord kw a = .ok (a', r) → AccInv N a'
  | [], n, kw, a, a', r, _, hi, h => by simp only [makeLoop] at h; cases h; exact hi
  | (name, f) :: rest, n, kw, a, a', r, hN, hi, h => by
    simp only [makeLoop] at h
    simp only [List.length_cons] at hN
    split at h
    · exact makeLoop_inv E N rest (n + 1) _ a a' r (by omega) hi h
    · rename_i vals kw' _
      cases hm : makeVals E n f vals a with
      | error e => rw [hm] at h; cases h
      | ok a₁ =>
        rw [hm] at h
        exact makeLoop_inv E N rest (n + 1) _ a₁ a' r (by omega) (makeVals_inv E N n f (by omega) vals a a₁ hi hm) h

theorem accInv_init (N : Nat) : AccInv N ⟨[], [], []⟩ := ⟨rfl, rfl, fun _ h => by cases h⟩

/-- `make` unfolded -/
theorem make_ok_iff (E : Env) (ord : List (Text × Factory)) (kw : Kw) (m : Made) :
    make E ord kw = .ok m ↔ ∃ a, makeLoop E 0 ord kw ⟨[], [], []⟩ = .ok (a, []) ∧
      m = ⟨orderOf (score a.weights) a.preds.length, a.preds, a.pre⟩ := by
  unfold make
  cases h : makeLoop E 0 ord kw ⟨[], [], []⟩ with
  | error e => simp
  | ok p =>
    obtain ⟨a, r⟩ := p
    cases r with
    | nil =>
      simp only [List.isEmpty_nil, if_true]
      constructor
      · intro hm; cases hm; exact ⟨a, rfl, rfl⟩
      · intro ⟨a', h1, h2⟩; cases h1; rw [h2]
    | cons x xs =>
      simp only [List.isEmpty_cons]
      constructor
      · intro hm; cases hm
      · intro ⟨a', h1, _⟩; cases h1

/-! ### evaluation -/

/-- how many predicates `all(...)` calls when their answers are `bs` -/
def callsOf : List Bool → Nat
  | [] => 0
  | false :: _ => 1
  | true :: r => callsOf r + 1

theorem callsOf_le (bs : List Bool) : callsOf bs ≤ bs.length := by
  induction bs with
  | nil => simp [callsOf]
  | cons b r ih => cases b <;> simp [callsOf] <;> omega

theorem callsOf_all (bs : List Bool) (h : bs.all id = true) : callsOf bs = bs.length := by
  induction bs with
  | nil => rfl
  | cons b r ih =>
    simp only [List.all_cons, Bool.and_eq_true, id] at h
    rw [h.1]
    simp [callsOf, ih h.2]

theorem callsOf_takeWhile (bs : List Bool) (h : bs.all id = false) : callsOf bs = (bs.takeWhile id).length + 1 := by
  induction bs with
  | nil => simp at h
  | cons b r ih =>
    cases b with
    | false => simp [callsOf]
    | true =>
      simp only [List.all_cons, id, Bool.true_and] at h
      simp [callsOf, ih h]

end Pyr.Pred
