/-
C19 — `string.Template`: the scanner (`substitute`) against the token reading (`tokenize` / `fill` / `detok`).
-/
import PyramidModel.HttpExc
import PyramidModel.Lemmas.HttpExcSpec

namespace Pyr.HttpExc

theorem substF_eq_fill (env : Text → Option Text) : ∀ (f : Nat) (t : Text), substF env f t = fill env (tokF f t) := by
  intro f
  induction f with
  | zero => intro t; simp [substF, tokF, fill]
  | succ f ih =>
    intro t
    cases t with
    | nil => simp [substF, tokF, fill]
    | cons c r =>
      by_cases hc : c = '$'
      · simp only [substF, tokF, hc, if_true]
        cases afterDollar r with
        | esc rest => simp [fill, ih]
        | named n rest => simp only [fill, ih]; cases env n <;> rfl
        | braced n rest => simp only [fill, ih]; cases env n <;> rfl
        | invalid => simp [fill]
      · simp [substF, tokF, hc, fill, ih]

/-- the scanner is substitution over the token list -/
theorem substitute_eq_fill (env : Text → Option Text) (t : Text) : substitute env t = fill env (tokenize t) :=
  substF_eq_fill env t.length t

theorem afterDollar_esc {r rest : Text} (h : afterDollar r = .esc rest) : r = '$' :: rest := by
  unfold afterDollar at h
  split at h
  · cases h
  · rename_i c r'
    split at h
    · rename_i hc; cases h; rw [hc]
    split at h
    · cases h
    split at h
    · split at h
      · cases h
      · split at h
        · split at h
          · cases h
          · split at h <;> cases h
        · cases h
    · cases h

theorem afterDollar_named {r n rest : Text} (h : afterDollar r = .named n rest) : r = n ++ rest := by
  unfold afterDollar at h
  split at h
  · cases h
  · rename_i c r'
    split at h
    · cases h
    split at h
    · cases h; simp [List.takeWhile_append_dropWhile]
    split at h
    · split at h
      · cases h
      · split at h
        · split at h
          · cases h
          · split at h <;> cases h
        · cases h
    · cases h

theorem afterDollar_braced {r n rest : Text} (h : afterDollar r = .braced n rest) : r = '{' :: (n ++ '}' :: rest) := by
  unfold afterDollar at h
  split at h
  · cases h
  · rename_i c r'
    split at h
    · cases h
    split at h
    · cases h
    split at h
    · rename_i hc
      split at h
      · cases h
      · rename_i d r''
        split at h
        · split at h
          · cases h
          · rename_i e rest' hdrop
            split at h
            · rename_i he
              cases h
              have := @List.takeWhile_append_dropWhile _ isIdChar r''
              rw [hdrop, he] at this
              rw [hc]
              simp only [List.cons_append, List.cons.injEq, true_and]
              exact this.symm
            · cases h
        · cases h
    · cases h

theorem detok_tokF : ∀ (f : Nat) (t : Text), t.length ≤ f → detok (tokF f t) = t := by
  intro f
  induction f with
  | zero => intro t h; cases t <;> simp_all [tokF, detok]
  | succ f ih =>
    intro t h
    cases t with
    | nil => simp [tokF, detok]
    | cons c r =>
      simp only [List.length_cons] at h
      by_cases hc : c = '$'
      · simp only [tokF, hc, if_true]
        cases had : afterDollar r with
        | esc rest =>
          have := afterDollar_esc had
          subst this
          simp only [List.length_cons] at h
          simp [detok, ih rest (by omega)]
        | named n rest =>
          have := afterDollar_named had
          subst this
          simp only [List.length_append] at h
          simp [detok, ih rest (by omega)]
        | braced n rest =>
          have := afterDollar_braced had
          subst this
          simp only [List.length_cons, List.length_append] at h
          simp [detok, ih rest (by omega)]
        | invalid => simp [detok]
      · simp [tokF, hc, detok, ih r (by omega)]

/-- the tokens are a reading of the template and of nothing else -/
theorem detok_tokenize (t : Text) : detok (tokenize t) = t := detok_tokF t.length t (Nat.le_refl _)

/-! ### pieces -/

theorem flatten_append (a b : List Piece) : flattenPieces (a ++ b) = flattenPieces a ++ flattenPieces b := by
  simp [flattenPieces]

/-- forgetting the tags of `fillP` gives `fill` -/
theorem fillP_flatten (lo : Origin) (envP : Text → Option (List Piece)) (env : Text → Option Text)
    (henv : ∀ k, (envP k).map flattenPieces = env k) :
    ∀ toks, (fillP lo envP toks).map flattenPieces = fill env toks := by
  intro toks
  induction toks with
  | nil => simp [fillP, fill, flattenPieces, Except.map]
  | cons tk ts ih =>
    cases tk with
    | lit c =>
      simp only [fillP, fill]
      rw [← ih]
      cases fillP lo envP ts <;> simp [Except.map, flattenPieces]
    | esc =>
      simp only [fillP, fill]
      rw [← ih]
      cases fillP lo envP ts <;> simp [Except.map, flattenPieces]
    | named n =>
      simp only [fillP, fill]
      rw [← henv n, ← ih]
      cases envP n with
      | none => simp [Except.map]
      | some v => cases fillP lo envP ts <;> simp [Except.map, flattenPieces]
    | braced n =>
      simp only [fillP, fill]
      rw [← henv n, ← ih]
      cases envP n with
      | none => simp [Except.map]
      | some v => cases fillP lo envP ts <;> simp [Except.map, flattenPieces]
    | invalid r => simp [fillP, fill, Except.map]

/-- every piece `fillP` produces is a literal of the template or belongs to the value of one of its placeholders -/
theorem fillP_pieces (lo : Origin) (envP : Text → Option (List Piece)) (P : Piece → Prop)
    (hlit : ∀ c : Char, P ⟨lo, [c]⟩) (henv : ∀ k v, envP k = some v → ∀ p ∈ v, P p) :
    ∀ toks ps, fillP lo envP toks = .ok ps → ∀ p ∈ ps, P p := by
  intro toks
  induction toks with
  | nil => intro ps h p hp; simp [fillP] at h; subst h; simp at hp
  | cons tk ts ih =>
    intro ps h p hp
    cases tk with
    | lit c =>
      simp only [fillP] at h
      cases hr : fillP lo envP ts with
      | error e => rw [hr] at h; simp [Except.map] at h
      | ok qs =>
        rw [hr] at h; simp only [Except.map, Except.ok.injEq] at h; subst h
        simp only [List.mem_cons] at hp
        rcases hp with rfl | hp
        · exact hlit _
        · exact ih qs hr p hp
    | esc =>
      simp only [fillP] at h
      cases hr : fillP lo envP ts with
      | error e => rw [hr] at h; simp [Except.map] at h
      | ok qs =>
        rw [hr] at h; simp only [Except.map, Except.ok.injEq] at h; subst h
        simp only [List.mem_cons] at hp
        rcases hp with rfl | hp
        · exact hlit _
        · exact ih qs hr p hp
    | named n =>
      simp only [fillP] at h
      cases hv : envP n with
      | none => rw [hv] at h; simp at h
      | some v =>
        rw [hv] at h
        cases hr : fillP lo envP ts with
        | error e => rw [hr] at h; simp [Except.map] at h
        | ok qs =>
          rw [hr] at h; simp only [Except.map, Except.ok.injEq] at h; subst h
          simp only [List.mem_append] at hp
          rcases hp with hp | hp
          · exact henv n v hv p hp
          · exact ih qs hr p hp
    | braced n =>
      simp only [fillP] at h
      cases hv : envP n with
      | none => rw [hv] at h; simp at h
      | some v =>
        rw [hv] at h
        cases hr : fillP lo envP ts with
        | error e => rw [hr] at h; simp [Except.map] at h
        | ok qs =>
          rw [hr] at h; simp only [Except.map, Except.ok.injEq] at h; subst h
          simp only [List.mem_append] at hp
          rcases hp with hp | hp
          · exact henv n v hv p hp
          · exact ih qs hr p hp
    | invalid r => simp [fillP] at h

/-- fillP succeeds when the tokens are valid and every placeholder has a value -/
theorem fillP_succeeds (lo : Origin) (envP : Text → Option (List Piece)) :
    ∀ toks, tokValid toks = true → (∀ n ∈ tokVars toks, (envP n).isSome = true) → ∃ ps, fillP lo envP toks = .ok ps := by
  intro toks
  induction toks with
  | nil => intro _ _; exact ⟨[], rfl⟩
  | cons tk ts ih =>
    intro hv hk
    cases tk with
    | lit c =>
      obtain ⟨ps, hps⟩ := ih (by simpa [tokValid] using hv) (fun n hn => hk n (by simpa [tokVars] using hn))
      exact ⟨⟨lo, [c]⟩ :: ps, by simp [fillP, hps, Except.map]⟩
    | esc =>
      obtain ⟨ps, hps⟩ := ih (by simpa [tokValid] using hv) (fun n hn => hk n (by simpa [tokVars] using hn))
      exact ⟨⟨lo, ['$']⟩ :: ps, by simp [fillP, hps, Except.map]⟩
    | named n =>
      obtain ⟨ps, hps⟩ := ih (by simpa [tokValid] using hv) (fun m hm => hk m (by simp [tokVars, hm]))
      have := hk n (by simp [tokVars])
      cases hn : envP n with
      | none => rw [hn] at this; cases this
      | some v => exact ⟨v ++ ps, by simp [fillP, hn, hps, Except.map]⟩
    | braced n =>
      obtain ⟨ps, hps⟩ := ih (by simpa [tokValid] using hv) (fun m hm => hk m (by simp [tokVars, hm]))
      have := hk n (by simp [tokVars])
      cases hn : envP n with
      | none => rw [hn] at this; cases this
      | some v => exact ⟨v ++ ps, by simp [fillP, hn, hps, Except.map]⟩
    | invalid r => simp [tokValid] at hv

/-- every value a template's placeholders refer to is part of the output -/
theorem fillP_contains (lo : Origin) (envP : Text → Option (List Piece)) :
    ∀ toks ps, fillP lo envP toks = .ok ps → ∀ n ∈ tokVars toks, ∀ v, envP n = some v → ∀ p ∈ v, p ∈ ps := by
  intro toks
  induction toks with
  | nil => intro ps _ n hn; simp [tokVars] at hn
  | cons tk ts ih =>
    intro ps h n hn v hv p hp
    cases tk with
    | lit c =>
      simp only [fillP] at h
      cases hr : fillP lo envP ts with
      | error e => rw [hr] at h; simp [Except.map] at h
      | ok qs =>
        rw [hr] at h; simp only [Except.map, Except.ok.injEq] at h; subst h
        exact List.mem_cons_of_mem _ (ih qs hr n (by simpa [tokVars] using hn) v hv p hp)
    | esc =>
      simp only [fillP] at h
      cases hr : fillP lo envP ts with
      | error e => rw [hr] at h; simp [Except.map] at h
      | ok qs =>
        rw [hr] at h; simp only [Except.map, Except.ok.injEq] at h; subst h
        exact List.mem_cons_of_mem _ (ih qs hr n (by simpa [tokVars] using hn) v hv p hp)
    | named m =>
      simp only [fillP] at h
      cases hm : envP m with
      | none => rw [hm] at h; simp at h
      | some w =>
        rw [hm] at h
        cases hr : fillP lo envP ts with
        | error e => rw [hr] at h; simp [Except.map] at h
        | ok qs =>
          rw [hr] at h; simp only [Except.map, Except.ok.injEq] at h; subst h
          simp only [tokVars, List.mem_cons] at hn
          rcases hn with rfl | hn
          · rw [hm] at hv; cases hv; exact List.mem_append_left _ hp
          · exact List.mem_append_right _ (ih qs hr n hn v hv p hp)
    | braced m =>
      simp only [fillP] at h
      cases hm : envP m with
      | none => rw [hm] at h; simp at h
      | some w =>
        rw [hm] at h
        cases hr : fillP lo envP ts with
        | error e => rw [hr] at h; simp [Except.map] at h
        | ok qs =>
          rw [hr] at h; simp only [Except.map, Except.ok.injEq] at h; subst h
          simp only [tokVars, List.mem_cons] at hn
          rcases hn with rfl | hn
          · rw [hm] at hv; cases hv; exact List.mem_append_left _ hp
          · exact List.mem_append_right _ (ih qs hr n hn v hv p hp)
    | invalid r => simp [fillP] at h

end Pyr.HttpExc
