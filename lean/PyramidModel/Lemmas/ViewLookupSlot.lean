import PyramidModel.ViewLookupSpec
import PyramidModel.Lemmas.ViewLookupSort
/-! Helper lemmas for C03: one registration slot.  The state `register_view`/`MultiView.add` build from
a sequence of derived views is a function (`slotOf`) of the registrations in force (`inForce`). -/
namespace Pyr.ViewLookup

theorem byOrder_total : TotalPreorder byOrder where
  total := by intro a b; simp only [byOrder, decide_eq_true_eq]; omega
  trans := by intro a b c; simp only [byOrder, decide_eq_true_eq]; omega

/-- the replacement `upsert` performs -/
def repl (v : DView) (e : DView) : DView := if e.phash = v.phash then v else e

/-- no two entries share a phash -/
def NodupPhash (l : List DView) : Prop := l.Pairwise (fun a b => a.phash ≠ b.phash)

theorem NodupPhash.perm {l l' : List DView} (h : NodupPhash l) (p : l.Perm l') : NodupPhash l' := by
  unfold NodupPhash at *
  exact (p.pairwise_iff (fun hab => Ne.symm hab)).mp h

theorem NodupPhash.filter {l : List DView} (h : NodupPhash l) (p : DView → Bool) :
    NodupPhash (l.filter p) :=
  List.Pairwise.sublist List.filter_sublist h

theorem map_repl_of_no_match (v : DView) (l : List DView) (h : ∀ e ∈ l, e.phash ≠ v.phash) :
    l.map (repl v) = l := by
  induction l with
  | nil => rfl
  | cons e es ih =>
    simp only [List.map_cons, repl, h e (List.mem_cons_self ..), if_false]
    rw [show es.map (repl v) = es from ih (fun x hx => h x (List.mem_cons_of_mem _ hx))]

theorem replaceFirst_eq_map (v : DView) (l : List DView) (h : NodupPhash l) :
    replaceFirst v l = l.map (repl v) := by
  induction l with
  | nil => rfl
  | cons e es ih =>
    simp only [NodupPhash, List.pairwise_cons] at h
    simp only [replaceFirst, List.map_cons, repl]
    split
    · rename_i he
      rw [map_repl_of_no_match v es (fun x hx => by rw [← he]; exact Ne.symm (h.1 x hx))]
    · rw [ih h.2]

theorem any_phash_iff (v : DView) (l : List DView) :
    (l.any (·.phash = v.phash)) = true ↔ ∃ e ∈ l, e.phash = v.phash := by
  simp [List.any_eq_true]

theorem filter_map_comm (p : DView → Bool) (f : DView → DView) (l : List DView)
    (h : ∀ x ∈ l, p (f x) = p x) : (l.map f).filter p = (l.filter p).map f := by
  induction l with
  | nil => rfl
  | cons x xs ih =>
    simp only [List.map_cons, List.filter_cons, h x (List.mem_cons_self ..)]
    rw [ih (fun y hy => h y (List.mem_cons_of_mem _ hy))]
    split <;> simp

/-! ### `specAccepts` depends on the accept fields only -/

theorem specAccepts_eq (es : List DView) :
    specAccepts es = (es.filterMap (·.accept)).foldl addOffer [] := by
  simp only [specAccepts]
  generalize ([] : List Offer) = acc
  induction es generalizing acc with
  | nil => rfl
  | cons e es ih =>
    simp only [List.foldl_cons, List.filterMap_cons]
    cases h : e.accept with
    | none => simp only [ih]
    | some a => simp only [List.foldl_cons, ih]

theorem specAccepts_congr (es es' : List DView) (h : es.map (·.accept) = es'.map (·.accept)) :
    specAccepts es = specAccepts es' := by
  rw [specAccepts_eq, specAccepts_eq]
  have : es.filterMap (·.accept) = es'.filterMap (·.accept) := by
    have h1 : ∀ l : List DView, l.filterMap (·.accept) = (l.map (·.accept)).filterMap id := by
      intro l; simp [List.filterMap_map]
    rw [h1 es, h1 es', h]
  rw [this]

theorem specAccepts_append_none (es : List DView) (v : DView) (h : v.accept = none) :
    specAccepts (es ++ [v]) = specAccepts es := by
  simp [specAccepts, List.foldl_append, h]

theorem specAccepts_append_some (es : List DView) (v : DView) (a : Offer) (h : v.accept = some a) :
    specAccepts (es ++ [v]) = addOffer (specAccepts es) a := by
  simp [specAccepts, List.foldl_append, h]

/-! ### the MultiView of a list of registrations in force -/

def mvOf (es : List DView) : MultiView :=
  { views := sortL byOrder (es.filter (·.accept = none)),
    media := fun o => sortL byOrder (es.filter (·.accept = some o)),
    accepts := specAccepts es }

theorem mvOf_nil : mvOf [] = MultiView.empty := by
  simp [mvOf, MultiView.empty, sortL, specAccepts]

/-- compatibility of a new view with the views in force: same phash ⇒ same order and accept -/
def Compat (es : List DView) (v : DView) : Prop :=
  ∀ e ∈ es, e.phash = v.phash → e.order = v.order ∧ e.accept = v.accept

theorem sortL_filter_repl (p : DView → Bool) (es : List DView) (v : DView) (hc : Compat es v)
    (hp : ∀ e ∈ es, e.phash = v.phash → p e = p v) :
    sortL byOrder ((es.map (repl v)).filter p) = (sortL byOrder (es.filter p)).map (repl v) := by
  rw [filter_map_comm p (repl v) es]
  · apply sortL_map
    intro x hx y hy
    have hox : ∀ z ∈ es.filter p, (repl v z).order = z.order := by
      intro z hz
      simp only [repl]
      split
      · rename_i hzv
        exact ((hc z (List.mem_filter.mp hz).1 hzv).1).symm
      · rfl
    simp only [byOrder, hox x hx, hox y hy]
  · intro x hx
    simp only [repl]
    split
    · rename_i hxv
      exact (hp x hx hxv).symm
    · rfl

theorem mvOf_add (es : List DView) (v : DView) (hn : NodupPhash es) (hc : Compat es v) :
    (mvOf es).add v = mvOf (upsert es v) := by
  by_cases hany : (es.any (·.phash = v.phash)) = true
  · -- replacement
    obtain ⟨e0, he0, he0v⟩ := (any_phash_iff v es).mp hany
    have hacc : (es.map (repl v)).map (·.accept) = es.map (·.accept) := by
      simp only [List.map_map]
      apply List.map_congr_left
      intro x hx
      simp only [Function.comp, repl]
      split
      · rename_i hxv; exact ((hc x hx hxv).2).symm
      · rfl
    have hviews : ∀ p : DView → Bool, (∀ e ∈ es, e.phash = v.phash → p e = p v) →
        sortL byOrder ((es.map (repl v)).filter p) = replaceFirst v (sortL byOrder (es.filter p)) := by
      intro p hp
      rw [sortL_filter_repl p es v hc hp, replaceFirst_eq_map]
      exact (hn.filter p).perm (sortL_perm byOrder _).symm
    have hsame : ∀ p : DView → Bool, (∀ e ∈ es, e.phash = v.phash → p e = p v) → p v = false →
        sortL byOrder ((es.map (repl v)).filter p) = sortL byOrder (es.filter p) := by
      intro p hp hpv
      rw [sortL_filter_repl p es v hc hp]
      apply map_repl_of_no_match
      intro e he hev
      have he' := (mem_sortL byOrder _ e).mp he
      have := (List.mem_filter.mp he').2
      rw [hp e (List.mem_filter.mp he').1 hev, hpv] at this
      exact absurd this (by simp)
    simp only [upsert, hany, if_true]
    cases hva : v.accept with
    | none =>
      have hin : ((mvOf es).views.any (·.phash = v.phash)) = true := by
        rw [any_phash_iff]
        refine ⟨e0, ?_, he0v⟩
        simp only [mvOf]
        rw [mem_sortL]
        exact List.mem_filter.mpr ⟨he0, by simp [(hc e0 he0 he0v).2, hva]⟩
      simp only [MultiView.add, hin, if_true]
      simp only [mvOf]
      congr 1
      · exact (hviews (·.accept = none) (by intro e he hev; simp [(hc e he hev).2])).symm
      · funext o
        exact (hsame (·.accept = some o) (by intro e he hev; simp [(hc e he hev).2]) (by simp [hva])).symm
      · exact (specAccepts_congr _ _ hacc).symm
    | some a =>
      have hnot : ((mvOf es).views.any (·.phash = v.phash)) = false := by
        rw [Bool.eq_false_iff]
        intro h
        obtain ⟨e, he, hev⟩ := (any_phash_iff v _).mp h
        simp only [mvOf] at he
        have he' := (mem_sortL byOrder _ e).mp he
        have h1 := (List.mem_filter.mp he').2
        have h2 := (hc e (List.mem_filter.mp he').1 hev).2
        rw [hva] at h2
        simp [h2] at h1
      have hin : (((mvOf es).media a).any (·.phash = v.phash)) = true := by
        rw [any_phash_iff]
        refine ⟨e0, ?_, he0v⟩
        simp only [mvOf]
        rw [mem_sortL]
        exact List.mem_filter.mpr ⟨he0, by simp [(hc e0 he0 he0v).2, hva]⟩
      simp only [MultiView.add, hnot, hva, hin, if_true, Bool.false_eq_true, if_false]
      simp only [mvOf]
      congr 1
      · exact (hsame (·.accept = none) (by intro e he hev; simp [(hc e he hev).2]) (by simp [hva])).symm
      · funext o
        by_cases hoa : o = a
        · subst hoa
          simp only [if_true]
          exact (hviews (·.accept = some o) (by intro e he hev; simp [(hc e he hev).2])).symm
        · simp only [hoa, if_false]
          exact (hsame (·.accept = some o) (by intro e he hev; simp [(hc e he hev).2])
            (by simp [hva]; exact fun h => hoa h.symm)).symm
      · exact (specAccepts_congr _ _ hacc).symm
  · -- a new phash: appended
    have hany' : (es.any (·.phash = v.phash)) = false := by simpa using hany
    have hnomatch : ∀ p : DView → Bool, ((sortL byOrder (es.filter p)).any (·.phash = v.phash)) = false := by
      intro p
      rw [Bool.eq_false_iff]
      intro h
      obtain ⟨e, he, hev⟩ := (any_phash_iff v _).mp h
      have he' := (List.mem_filter.mp ((mem_sortL byOrder _ e).mp he)).1
      exact hany ((any_phash_iff v es).mpr ⟨e, he', hev⟩)
    simp only [upsert, hany', Bool.false_eq_true, if_false]
    cases hva : v.accept with
    | none =>
      simp only [MultiView.add, mvOf, hnomatch, Bool.false_eq_true, if_false, hva]
      congr 1
      · rw [sortL_sortL_append byOrder_total]
        simp [List.filter_append, hva]
      · funext o
        simp [List.filter_append, hva]
      · exact (specAccepts_append_none es v hva).symm
    | some a =>
      simp only [MultiView.add, mvOf, hnomatch, Bool.false_eq_true, if_false, hva]
      congr 1
      · simp [List.filter_append, hva]
      · funext o
        by_cases hoa : o = a
        · subst hoa
          simp only [if_true]
          rw [sortL_sortL_append byOrder_total]
          simp [List.filter_append, hva]
        · simp only [hoa, if_false]
          have : (some a = some o) = False := by simp; exact fun h => hoa h.symm
          simp [List.filter_append, hva, this]
      · exact (specAccepts_append_some es v a hva).symm

end Pyr.ViewLookup

namespace Pyr.ViewLookup

/-! ### `upsert` / `inForce` -/

theorem mem_upsert (es : List DView) (v x : DView) (h : x ∈ upsert es v) : x = v ∨ x ∈ es := by
  simp only [upsert] at h
  split at h
  · obtain ⟨e, he, rfl⟩ := List.mem_map.mp h
    by_cases hev : e.phash = v.phash
    · simp [hev]
    · simp [hev, he]
  · rcases List.mem_append.mp h with h | h
    · exact Or.inr h
    · simp at h; exact Or.inl h

theorem upsert_nodup (es : List DView) (v : DView) (hn : NodupPhash es) : NodupPhash (upsert es v) := by
  simp only [upsert]
  split
  · -- mapping keeps every phash
    have hph : ∀ e : DView, (if e.phash = v.phash then v else e).phash = e.phash := by
      intro e; split
      · rename_i h; exact h.symm
      · rfl
    unfold NodupPhash at *
    rw [List.pairwise_map]
    exact hn.imp (by intro a b hab; rw [hph a, hph b]; exact hab)
  · rename_i hany
    unfold NodupPhash at *
    rw [List.pairwise_append]
    refine ⟨hn, by simp, ?_⟩
    intro a ha b hb
    simp at hb; subst hb
    intro hab
    exact hany ((any_phash_iff b es).mpr ⟨a, ha, hab⟩)

theorem upsert_length_ge (es : List DView) (v : DView) : es.length ≤ (upsert es v).length := by
  simp only [upsert]; split <;> simp

theorem upsert_ne_nil (es : List DView) (v : DView) : upsert es v ≠ [] := by
  simp only [upsert]
  split
  · rename_i h
    obtain ⟨e, he, _⟩ := (any_phash_iff v es).mp h
    cases es with
    | nil => simp at he
    | cons => simp
  · simp

theorem inForce_append_single (vs : List DView) (v : DView) :
    inForce (vs ++ [v]) = upsert (inForce vs) v := by
  simp [inForce, List.foldl_append]

theorem foldl_upsert_mem (vs acc : List DView) (x : DView) (h : x ∈ vs.foldl upsert acc) :
    x ∈ acc ∨ x ∈ vs := by
  induction vs generalizing acc with
  | nil => exact Or.inl h
  | cons v vs ih =>
    rcases ih _ h with h | h
    · rcases mem_upsert acc v x h with rfl | h
      · exact Or.inr (List.mem_cons_self ..)
      · exact Or.inl h
    · exact Or.inr (List.mem_cons_of_mem _ h)

theorem mem_inForce (vs : List DView) (x : DView) (h : x ∈ inForce vs) : x ∈ vs := by
  rcases foldl_upsert_mem vs [] x h with h | h
  · simp at h
  · exact h

theorem foldl_upsert_nodup (vs acc : List DView) (h : NodupPhash acc) :
    NodupPhash (vs.foldl upsert acc) := by
  induction vs generalizing acc with
  | nil => exact h
  | cons v vs ih => exact ih _ (upsert_nodup acc v h)

theorem inForce_nodup (vs : List DView) : NodupPhash (inForce vs) :=
  foldl_upsert_nodup vs [] (by simp [NodupPhash])

theorem foldl_upsert_ne_nil (vs acc : List DView) (h : acc ≠ [] ∨ vs ≠ []) : vs.foldl upsert acc ≠ [] := by
  induction vs generalizing acc with
  | nil => rcases h with h | h
           · exact h
           · exact absurd rfl h
  | cons v vs ih => exact ih _ (Or.inl (upsert_ne_nil acc v))

theorem inForce_eq_nil_iff (vs : List DView) : inForce vs = [] ↔ vs = [] := by
  constructor
  · intro h
    cases vs with
    | nil => rfl
    | cons v vs => exact absurd h (foldl_upsert_ne_nil (v :: vs) [] (Or.inr (by simp)))
  · rintro rfl; rfl

/-! ### the slot as a function of the registrations in force -/

/-- well-formedness of the derived views registered into one slot -/
def SlotCoherent (vs : List DView) : Prop :=
  ∀ a ∈ vs, ∀ b ∈ vs, a.phash = b.phash → a.order = b.order ∧ a.accept = b.accept ∧ a.secured = b.secured

def slotOf (es : List DView) : Slot :=
  match es with
  | [] => Slot.empty
  | [e] => if e.secured then { iview := none, isecured := some e, multi := none }
           else { iview := some e, isecured := none, multi := none }
  | _ => { iview := none, isecured := none, multi := some (mvOf es) }

theorem slotOf_two (e1 e2 : DView) (rest : List DView) :
    slotOf (e1 :: e2 :: rest) = { iview := none, isecured := none, multi := some (mvOf (e1 :: e2 :: rest)) } := rfl

theorem slotOf_of_length (es : List DView) (h : 2 ≤ es.length) :
    slotOf es = { iview := none, isecured := none, multi := some (mvOf es) } := by
  match es, h with
  | e1 :: e2 :: rest, _ => rfl

theorem regSlot_slotOf (es : List DView) (v : DView) (hn : NodupPhash es)
    (hc : ∀ e ∈ es, e.phash = v.phash → e.order = v.order ∧ e.accept = v.accept ∧ e.secured = v.secured) :
    regSlot (slotOf es) v = slotOf (upsert es v) := by
  have hcompat : Compat es v := fun e he hev => ⟨(hc e he hev).1, (hc e he hev).2.1⟩
  match es, hn, hc, hcompat with
  | [], _, _, _ =>
    simp only [slotOf, Slot.empty, regSlot, upsert, List.any_nil, Bool.false_eq_true, if_false, List.nil_append]
  | [e], hn, hc, hcompat =>
    by_cases hev : e.phash = v.phash
    · have hs := (hc e (List.mem_singleton.mpr rfl) hev).2.2
      have hup : upsert [e] v = [v] := by simp [upsert, hev]
      rw [hup]
      simp only [slotOf]
      by_cases hes : e.secured = true
      · have hvs : v.secured = true := by rw [← hs]; exact hes
        simp [regSlot, hes, hvs, hev]
      · have hes' : e.secured = false := by simpa using hes
        have hvs : v.secured = false := by rw [← hs]; exact hes'
        simp [regSlot, hes', hvs, hev]
    · have hup : upsert [e] v = [e, v] := by simp [upsert, hev]
      have h1 : MultiView.empty.add e = mvOf [e] := by
        rw [← mvOf_nil, mvOf_add [] e (by simp [NodupPhash]) (by intro x hx; simp at hx)]
        simp [upsert]
      have h2 : (mvOf [e]).add v = mvOf [e, v] := by
        rw [mvOf_add [e] v hn hcompat, hup]
      rw [hup, slotOf_two]
      simp only [slotOf]
      by_cases hes : e.secured = true
      · simp [regSlot, hes, hev, h1, h2]
      · have hes' : e.secured = false := by simpa using hes
        simp [regSlot, hes', hev, h1, h2]
  | e1 :: e2 :: rest, hn, hc, hcompat =>
    rw [slotOf_two, slotOf_of_length _ (Nat.le_trans (by simp) (upsert_length_ge _ v))]
    simp only [regSlot]
    rw [mvOf_add _ v hn hcompat]

theorem foldl_regSlot (vs pre : List DView) (hc : SlotCoherent (pre ++ vs)) :
    vs.foldl regSlot (slotOf (inForce pre)) = slotOf (inForce (pre ++ vs)) := by
  induction vs generalizing pre with
  | nil => simp
  | cons v vs ih =>
    simp only [List.foldl_cons]
    have hstep : regSlot (slotOf (inForce pre)) v = slotOf (inForce (pre ++ [v])) := by
      rw [inForce_append_single]
      apply regSlot_slotOf _ _ (inForce_nodup pre)
      intro e he hev
      have he' : e ∈ pre ++ v :: vs := List.mem_append_left _ (mem_inForce pre e he)
      have hv' : v ∈ pre ++ v :: vs := List.mem_append_right _ (List.mem_cons_self ..)
      exact hc e he' v hv' hev
    rw [hstep]
    have : pre ++ v :: vs = (pre ++ [v]) ++ vs := by simp
    rw [this] at hc ⊢
    exact ih (pre ++ [v]) hc

/-- **the slot invariant**: registering `vs` one after the other into an empty slot leaves exactly
the state determined by the registrations in force -/
theorem slot_invariant (vs : List DView) (hc : SlotCoherent vs) :
    vs.foldl regSlot Slot.empty = slotOf (inForce vs) := by
  have := foldl_regSlot vs [] (by simpa using hc)
  simpa [inForce, slotOf] using this

end Pyr.ViewLookup
