import PyramidModel.Mount
/-!
X07 — the declarative reading of the `workback` loop of `call_app_with_subpath_as_path_info`, written without the loop's
control flow (no `break` test per iteration): cut the reversed element list after its n-th non-empty element (n = length
of the subpath), decode that stretch; if it reads as the subpath, what is left of the list is the new SCRIPT_NAME's
elements; if not, the whole list is consumed (decoding every non-empty element on the way) and nothing is left.
Core Lean only: linked into the driver, which answers with both the model's and the reading's result.
-/
namespace Pyr.Mount

open Pyr.Trav (splitOn joinWith)

/-- split a list after its `k`-th non-empty element (everything, and `[]`, if it has fewer) -/
def takeNe : Nat → List Text → List Text × List Text
  | 0, l => ([], l)
  | _ + 1, [] => ([], [])
  | k + 1, x :: xs =>
    if x = [] then ((x :: (takeNe (k + 1) xs).1), (takeNe (k + 1) xs).2)
    else ((x :: (takeNe k xs).1), (takeNe k xs).2)

/-- decode the non-empty elements of a right-to-left stretch, collecting them in path order in front of `acc`;
the first element (from the right) that does not decode decides the error -/
def decRev : List Text → List Text → Except Err (List Text)
  | [], acc => .ok acc
  | el :: r, acc =>
    if el = [] then decRev r acc
    else
      match decodeEl el with
      | .error e => .error e
      | .ok t => decRev r (t :: acc)

/-- what is left of `workback` (reversed), read off declaratively -/
def specWorkback (subpath : List Text) (rv : List Text) : Except Err (List Text) :=
  let cut := takeNe subpath.length rv
  match decRev cut.1 [] with
  | .error e => .error e
  | .ok got =>
    if got = subpath then .ok cut.2
    else
      match decRev cut.2 got with
      | .error e => .error e
      | .ok _ => .ok []

def specScriptName (scriptName pathInfo : Text) (subpath : List Text) : Except Err Text :=
  match specWorkback subpath (splitOn '/' (scriptName ++ pathInfo)).reverse with
  | .error e => .error e
  | .ok rv => .ok (joinWorkback rv)

def specRewrite (e : Env) (subpath : List Text) : Except Err Env :=
  match specScriptName e.sn e.pi subpath with
  | .error err => .error err
  | .ok s => .ok { scriptName := some s, pathInfo := some (newPathInfo e.pi subpath) }

/-- the non-empty elements -/
def nonEmpty (l : List Text) : List Text := l.filter (· ≠ [])

/-- the path segments a WSGI string denotes: its non-empty `/`-separated pieces -/
def segs (w : Text) : List Text := nonEmpty (splitOn '/' w)

end Pyr.Mount
