import PyramidModel.Lemmas.SessionSpec
/-!
C10 helper lemmas, part 1: one operation / one view.
* the wrappers in closed form (`markChanged_eq`, `touchChanged_eq`, `touchAccessed_eq`);
* `runOp_char`: every operation of the model refines the spec's pure map operation, returns the spec's result and
  does exactly the bookkeeping the spec predicts (dirty, accessed stamp, one callback, created/renewed/new fixed);
* the same for a whole list of timed operations (`runOps_char`);
* spec-side facts: an operation that changes the map `modifies` (`apply_ne_modifies`).
-/
namespace Pyr.Session

open Spec (reissueDue)

theorem markChanged_eq (s : Sess) :
    markChanged s = { s with dirty := true, callbacks := if s.dirty then s.callbacks else s.callbacks + 1 } := by
  cases s with
  | mk d c a ai r n dirty cb =>
    cases dirty <;> simp [markChanged]

theorem touchChanged_eq (now : Q) (s : Sess) :
    touchChanged now s = { s with accessed := floorSec now, accInt := true, dirty := true,
                                  callbacks := if s.dirty then s.callbacks else s.callbacks + 1 } := by
  simp [touchChanged, markChanged_eq]

theorem touchAccessed_eq (cfg : Cfg) (now : Q) (s : Sess) :
    touchAccessed cfg now s =
      { s with accessed := floorSec now, accInt := true, dirty := s.dirty || reissueDue cfg now s.renewed,
               callbacks := if !s.dirty && reissueDue cfg now s.renewed then s.callbacks + 1 else s.callbacks } := by
  cases s with
  | mk d c a ai r n dirty cb =>
    rcases cfg with ⟨to, re, soe⟩
    cases re with
    | none => simp [touchAccessed, reissueDue]
    | some t =>
      by_cases h : olderThan (floorSec now) r t = true <;> cases dirty <;>
        simp [touchAccessed, reissueDue, markChanged_eq, h]

/-- the bookkeeping fields of a session after one call, as the spec predicts them from the call's class -/
structure Book where
  created : Q
  renewed : Q
  new : Bool
  dirty : Bool
  accessed : Q
  accInt : Bool
  callbacks : Nat
  deriving Repr, DecidableEq

def Sess.book (s : Sess) : Book := ⟨s.created, s.renewed, s.new, s.dirty, s.accessed, s.accInt, s.callbacks⟩

/-- predicted bookkeeping after `op` at `now` on a session with bookkeeping `b` and map `d` -/
def Book.after (cfg : Cfg) (now : Q) (op : Op) (d : Data) (b : Book) : Book :=
  let dirty' := b.dirty || Spec.modifies op d || (Spec.wrapped op && reissueDue cfg now b.renewed)
  { b with dirty := dirty',
           accessed := if Spec.wrapped op then floorSec now else b.accessed,
           accInt := if Spec.wrapped op then true else b.accInt,
           callbacks := if !b.dirty && dirty' then b.callbacks + 1 else b.callbacks }

/-! ### dict facts -/

theorem dget_dset_self (d : Data) (k : String) (v : JV) : dget (dset d k v) k = some v := by
  induction d with
  | nil => simp [dset, dget, JV.look]
  | cons p r ih =>
    rcases p with ⟨k', v'⟩
    by_cases h : (k' == k) = true
    · simp [dset, dget, JV.look, h]
    · have ih' : JV.look k (dset r k v) = some v := ih
      simp [dset, dget, JV.look, h, ih']

theorem dset_dset (d : Data) (k : String) (v w : JV) : dset (dset d k v) k w = dset d k w := by
  induction d with
  | nil => simp [dset]
  | cons p r ih =>
    rcases p with ⟨k', v'⟩
    by_cases h : (k' == k) = true
    · simp [dset, h]
    · simp [dset, h, ih]

theorem ddel_of_dget_none (d : Data) (k : String) (h : dget d k = none) : ddel d k = d := by
  induction d with
  | nil => rfl
  | cons p r ih =>
    rcases p with ⟨k', v'⟩
    by_cases hk : (k' == k) = true
    · simp [dget, JV.look, hk] at h
    · have h' : dget r k = none := by simpa [dget, JV.look, hk] using h
      simp [ddel, hk, ih h']

@[simp] theorem pyIn_nil (m : JV) : JV.pyIn m [] = false := by simp [JV.pyIn]

local macro "ssimp" : tactic => `(tactic|
  simp_all [runOp, opGet, opSet, opPop, opSetdefault, opClear, opNewCsrf, touchChanged_eq, touchAccessed_eq, markChanged_eq,
      Spec.apply, Spec.result, Sess.book, Book.after, Spec.modifies, Spec.wrapped, Spec.wrapOf, Spec.Wrap.isChanged,
      Spec.Wrap.isPlain, dhas, Spec.queueOf, Spec.hasToken, dset_dset, dget_dset_self, ddel_of_dget_none])

theorem runOp_char (cfg : Cfg) (now : Q) (op : Op) (s : Sess) :
    (runOp cfg now op s).1.data = Spec.apply op s.data ∧
    (runOp cfg now op s).2 = Spec.result op s.data ∧
    (runOp cfg now op s).1.book = s.book.after cfg now op s.data := by
  rcases s with ⟨d, c, a, ai, r, n, dirty, cb⟩
  generalize hrd : reissueDue cfg now r = rd
  cases op with
  | getitem k => cases hg : dget d k <;> cases dirty <;> cases rd <;> ssimp
  | del k => cases hg : dget d k <;> cases dirty <;> cases rd <;> ssimp
  | pop k dflt => cases hg : dget d k <;> cases dflt <;> cases dirty <;> cases rd <;> ssimp
  | popitem =>
    cases hg : d.getLast? with
    | none =>
      have : d = [] := by simpa using hg
      subst this
      cases dirty <;> cases rd <;> ssimp
    | some kv => cases dirty <;> cases rd <;> ssimp
  | setdefault k v => cases hg : dget d k <;> cases dirty <;> cases rd <;> ssimp
  | popFlash q => cases hg : dget d (flashKey q) <;> cases dirty <;> cases rd <;> ssimp
  | flash msg q dup =>
    cases hg : dget d (flashKey q) with
    | none => cases dirty <;> cases rd <;> ssimp
    | some x =>
      cases x with
      | arr xs => by_cases hd : (dup || !(JV.pyIn msg xs)) = true <;> cases dirty <;> cases rd <;> ssimp
      | _ => cases dirty <;> cases rd <;> ssimp
  | getCsrf tok =>
    cases hg : dget d csrfKey with
    | none => cases dirty <;> cases rd <;> ssimp
    | some x => cases x <;> cases dirty <;> cases rd <;> ssimp
  | _ => cases dirty <;> cases rd <;> ssimp

/-! ### a whole view -/

/-- predicted bookkeeping after a list of timed calls -/
def Book.afterOps (cfg : Cfg) : Q → Data → Book → List (Nat × Op) → Book
  | _, _, b, [] => b
  | clock, d, b, (dq, op) :: rest =>
    Book.afterOps cfg (clock + dq) (Spec.apply op d) (b.after cfg (clock + dq) op d) rest

theorem runOps_char (cfg : Cfg) (clock : Q) (s : Sess) (ops : List (Nat × Op)) :
    (runOps cfg clock s ops).1 = Spec.endClock clock ops ∧
    (runOps cfg clock s ops).2.1.data = Spec.endData s.data ops ∧
    (runOps cfg clock s ops).2.2 = Spec.results s.data ops ∧
    (runOps cfg clock s ops).2.1.book = Book.afterOps cfg clock s.data s.book ops := by
  induction ops generalizing clock s with
  | nil => simp [runOps, Spec.endClock, Spec.endData, Spec.results, Book.afterOps]
  | cons p rest ih =>
    rcases p with ⟨dq, op⟩
    have h1 := runOp_char cfg (clock + dq) op s
    have h2 := ih (clock + dq) (runOp cfg (clock + dq) op s).1
    simp only [runOps, Spec.endClock, Spec.endData, Spec.results, Book.afterOps]
    rw [h1.1, h1.2.2] at h2
    refine ⟨h2.1, h2.2.1, ?_, h2.2.2.2⟩
    rw [h2.2.2.1, h1.2.1]

theorem Book.afterOps_fixed (cfg : Cfg) (clock : Q) (d : Data) (b : Book) (ops : List (Nat × Op)) :
    (Book.afterOps cfg clock d b ops).created = b.created ∧
    (Book.afterOps cfg clock d b ops).renewed = b.renewed ∧
    (Book.afterOps cfg clock d b ops).new = b.new := by
  induction ops generalizing clock d b with
  | nil => simp [Book.afterOps]
  | cons p rest ih =>
    rcases p with ⟨dq, op⟩
    have := ih (clock + dq) (Spec.apply op d) (b.after cfg (clock + dq) op d)
    simpa [Book.afterOps, Book.after] using this

/-- the dirty flag after a view = dirty before, or the spec's `needsCookie` -/
theorem Book.afterOps_dirty (cfg : Cfg) (clock : Q) (d : Data) (b : Book) (ops : List (Nat × Op)) :
    (Book.afterOps cfg clock d b ops).dirty = (b.dirty || Spec.needsCookie cfg b.renewed clock d ops) := by
  induction ops generalizing clock d b with
  | nil => simp [Book.afterOps, Spec.needsCookie]
  | cons p rest ih =>
    rcases p with ⟨dq, op⟩
    rw [Book.afterOps, ih]
    simp [Spec.needsCookie, Book.after, Bool.or_assoc]

/-- the stamp after a view = the spec's `lastStamp` -/
theorem Book.afterOps_stamp (cfg : Cfg) (clock : Q) (d : Data) (b : Book) (ops : List (Nat × Op)) :
    ((Book.afterOps cfg clock d b ops).accessed, (Book.afterOps cfg clock d b ops).accInt)
      = Spec.lastStamp clock (b.accessed, b.accInt) ops := by
  induction ops generalizing clock d b with
  | nil => simp [Book.afterOps, Spec.lastStamp]
  | cons p rest ih =>
    rcases p with ⟨dq, op⟩
    rw [Book.afterOps, ih]
    cases hw : Spec.wrapped op <;> simp [Spec.lastStamp, Book.after, hw]

/-- `changed` registers exactly one response callback, however many calls mark the session -/
theorem Book.afterOps_callbacks (cfg : Cfg) (clock : Q) (d : Data) (b : Book) (ops : List (Nat × Op))
    (h : b.callbacks = if b.dirty then 1 else 0) :
    (Book.afterOps cfg clock d b ops).callbacks = if (Book.afterOps cfg clock d b ops).dirty then 1 else 0 := by
  induction ops generalizing clock d b with
  | nil => exact h
  | cons p rest ih =>
    rcases p with ⟨dq, op⟩
    rw [Book.afterOps]
    apply ih
    cases hb : b.dirty <;> simp [Book.after, hb] at h ⊢ <;> simp [h]

/-! ### spec-side facts -/

/-- "a cookie is set whenever the session was modified": a call that changes the map is a modifying call -/
theorem apply_ne_modifies (op : Op) (d : Data) (h : Spec.apply op d ≠ d) : Spec.modifies op d = true := by
  cases op <;> simp_all [Spec.apply, Spec.modifies, Spec.wrapOf, Spec.Wrap.isChanged]

theorem endData_ne_needsCookie (cfg : Cfg) (renewed clock : Q) (d : Data) (ops : List (Nat × Op))
    (h : Spec.endData d ops ≠ d) : Spec.needsCookie cfg renewed clock d ops = true := by
  induction ops generalizing clock d with
  | nil => simp [Spec.endData] at h
  | cons p rest ih =>
    rcases p with ⟨dq, op⟩
    simp only [Spec.needsCookie, Bool.or_eq_true]
    by_cases hm : Spec.apply op d = d
    · right
      apply ih
      simpa [Spec.endData, hm] using h
    · left; left
      exact apply_ne_modifies op d hm

end Pyr.Session
