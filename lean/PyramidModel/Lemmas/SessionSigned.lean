import PyramidModel.Lemmas.SessionHist
/-!
C10 helper lemmas, part 5: WebOb's `SignedSerializer` over abstract parts.
The cryptographic and encoding assumptions are explicit, named hypotheses:
* `SignedOK`      — the MAC has the digest length, base64 decodes what it encoded, the inner serialiser round-trips
                    on its domain (for the session: JSON on `JsonNormal` payloads);
* `Unforgeable`   — a text that verifies under `k` carries a message the holder of `k` signed;
* `MacSeparates`  — two different keys never produce the same tag for a message.
-/
namespace Pyr.Session

structure SignedOK {K τ π ω : Type} (P : SignedParts K τ π ω) (dom : π → Prop) (ofP : π → ω) : Prop where
  mac_len : ∀ k c, (P.mac k c).length = P.dlen
  dec_enc : ∀ b, P.dec (P.enc b) = some b
  deser_ser : ∀ p, dom p → P.deser (P.ser p) = some (ofP p)

/-- what the serialiser decodes from a freshly signed value -/
theorem dec_dumps {K τ π ω : Type} (P : SignedParts K τ π ω) (dom : π → Prop) (ofP : π → ω) (h : SignedOK P dom ofP)
    (k : K) (p : π) : P.dec (P.dumps k p) = some (P.mac k (P.ser p) ++ P.ser p) := by
  simp [SignedParts.dumps, h.dec_enc]

theorem loads_of_dec {K τ π ω : Type} (P : SignedParts K τ π ω) (dom : π → Prop) (ofP : π → ω) (h : SignedOK P dom ofP)
    (k k' : K) (c : List UInt8) (t : τ) (hd : P.dec t = some (P.mac k' c ++ c)) :
    P.loads k t = if P.mac k c == P.mac k' c then P.deser c else none := by
  have hl := h.mac_len k' c
  simp only [SignedParts.loads, hd]
  rw [List.drop_left' hl, List.take_left' hl]

theorem signed_loads_dumps {K τ π ω : Type} (P : SignedParts K τ π ω) (dom : π → Prop) (ofP : π → ω)
    (h : SignedOK P dom ofP) (k : K) (p : π) (hp : dom p) : P.loads k (P.dumps k p) = some (ofP p) := by
  rw [loads_of_dec P dom ofP h k k (P.ser p) _ (dec_dumps P dom ofP h k p)]
  simp [h.deser_ser p hp]

/-- EUF-CMA, as a property of one presented text: if it verifies under `k`, its message part is one of the byte
strings the holder of `k` signed.  (A hypothesis about HMAC; not provable here.) -/
def Unforgeable {K τ π ω : Type} (P : SignedParts K τ π ω) (k : K) (signed : List (List UInt8)) (t : τ) : Prop :=
  ∀ f, P.dec t = some f → P.mac k (f.drop P.dlen) = f.take P.dlen → f.drop P.dlen ∈ signed

/-- different keys never agree on a tag (a hypothesis about HMAC as a PRF; not provable here) -/
def MacSeparates {K τ π ω : Type} (P : SignedParts K τ π ω) (k k' : K) : Prop :=
  ∀ c, P.mac k c ≠ P.mac k' c

theorem loads_none_of_unforgeable {K τ π ω : Type} (P : SignedParts K τ π ω) (k : K) (signed : List (List UInt8)) (t : τ)
    (hunf : Unforgeable P k signed t)
    (hnew : ∀ c ∈ signed, P.dec t ≠ some (P.mac k c ++ c)) : P.loads k t = none := by
  simp only [SignedParts.loads]
  cases hd : P.dec t with
  | none => rfl
  | some f =>
    simp only
    split
    · rename_i heq
      have heq' : P.mac k (f.drop P.dlen) = f.take P.dlen := by simpa using heq
      have hmem := hunf f hd heq'
      have := hnew _ hmem
      rw [hd, heq', List.take_append_drop] at this
      exact absurd rfl this
    · rfl

theorem loads_none_of_other_key {K τ π ω : Type} (P : SignedParts K τ π ω) (dom : π → Prop) (ofP : π → ω)
    (h : SignedOK P dom ofP) (k k' : K) (hsep : MacSeparates P k k') (p : π) : P.loads k (P.dumps k' p) = none := by
  rw [loads_of_dec P dom ofP h k k' (P.ser p) _ (dec_dumps P dom ofP h k' p)]
  have := hsep (P.ser p)
  simp [this]

/-- a text that decodes to the same bytes is the same cookie to the serialiser -/
theorem loads_congr_dec {K τ π ω : Type} (P : SignedParts K τ π ω) (k : K) (t t' : τ) (h : P.dec t = P.dec t') :
    P.loads k t = P.loads k t' := by
  simp [SignedParts.loads, h]

theorem signed_roundtrip_codec {K τ : Type} (P : SignedParts K τ Payload Wire)
    (h : SignedOK P (fun p => DataNormal p.data = true) Wire.ofPayload) (k : K) : RoundTrip (signedCodec P k) := by
  intro p hp
  exact signed_loads_dumps P _ _ h k p hp

end Pyr.Session
