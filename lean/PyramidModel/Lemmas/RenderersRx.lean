/-
X03 — the JSONP callback check against its declarative grammar: generic lemmas about patterns of the shape
`[H][M]+[N]` / `[H][M]+[^N]` matched with `match` and a final `$` or `\Z`.  (May be imported by Props only; nothing here is linked into the driver.)
-/
import PyramidModel.Lemmas.Rx
import PyramidModel.Lemmas.RenderersSpec

namespace Pyr.Render
open Pyr.Rx

theorem char_eq_iff_toNat (c a : Char) : c = a ↔ c.toNat = a.toNat := by
  constructor
  · intro h; rw [h]
  · intro h; exact Char.toNat_inj.mp h

/-- the `k`-th power of a one-character language: `k` characters, each in the class -/
theorem pow_single (P : Char → Prop) : ∀ (k : Nat) (w : Text),
    Rx.Pow (fun w => ∃ c, w = [c] ∧ P c) k w ↔ (w.length = k ∧ ∀ c ∈ w, P c)
  | 0, w => by
    simp only [Rx.Pow]
    constructor
    · rintro rfl; simp
    · rintro ⟨h, _⟩; exact List.eq_nil_of_length_eq_zero h
  | k + 1, w => by
    simp only [Rx.Pow]
    constructor
    · rintro ⟨x, y, rfl, ⟨c, rfl, hc⟩, hy⟩
      obtain ⟨hl, hall⟩ := (pow_single P k y).mp hy
      refine ⟨by simp [hl], ?_⟩
      intro d hd
      simp only [List.cons_append, List.nil_append, List.mem_cons] at hd
      rcases hd with rfl | hd
      · exact hc
      · exact hall d hd
    · rintro ⟨hl, hall⟩
      cases w with
      | nil => simp at hl
      | cons c r =>
        refine ⟨[c], r, rfl, ⟨c, rfl, hall c (by simp)⟩, (pow_single P k r).mpr ⟨by simpa using hl, ?_⟩⟩
        intro d hd
        exact hall d (by simp [hd])

theorem lang_set_pos (u : Ucd) (M : List CItem) :
    Lang u (.set false M) = fun w => ∃ c, w = [c] ∧ SetHas u M c := by
  funext w; simp [Lang]

/-- `[M]+` : one or more characters of the class -/
theorem lang_plus_set (u : Ucd) (g : Bool) (M : List CItem) (w : Text) :
    Lang u (.rep g 1 none (.set false M)) w ↔ (w ≠ [] ∧ ∀ c ∈ w, SetHas u M c) := by
  simp only [Lang]
  constructor
  · rintro ⟨k, hk, _, hp⟩
    obtain ⟨hl, hall⟩ := (pow_single _ k w).mp hp
    refine ⟨?_, hall⟩
    intro h; subst h; simp at hl; omega
  · rintro ⟨hne, hall⟩
    refine ⟨w.length, ?_, by simp, (pow_single _ _ w).mpr ⟨rfl, hall⟩⟩
    cases w with
    | nil => exact absurd rfl hne
    | cons _ _ => simp

/-- membership of the last class, negated or not -/
def LastOk (u : Ucd) (neg : Bool) (N : List CItem) (l : Char) : Prop :=
  if neg then ¬ SetHas u N l else SetHas u N l

/-- the language of `[H][M]+[N]` / `[H][M]+[^N]` -/
theorem lang_head_mid_last (u : Ucd) (g neg : Bool) (H M N : List CItem) (w : Text) :
    Lang u (.seq (.set false H) (.seq (.rep g 1 none (.set false M)) (.set neg N))) w ↔
      ∃ h mid l, w = h :: (mid ++ [l]) ∧ SetHas u H h ∧ mid ≠ [] ∧ (∀ c ∈ mid, SetHas u M c) ∧ LastOk u neg N l := by
  constructor
  · intro hw
    simp only [Lang] at hw
    obtain ⟨x, y, rfl, ⟨h, rfl, hh⟩, x', y', rfl, hmid, ⟨l, rfl, hl⟩⟩ := hw
    have hmid' := (lang_plus_set u g M x').mp (by simpa only [Lang] using hmid)
    exact ⟨h, x', l, by simp, by simpa using hh, hmid'.1, hmid'.2, hl⟩
  · rintro ⟨h, mid, l, rfl, hh, hne, hall, hl⟩
    have hmid := (lang_plus_set u g M mid).mpr ⟨hne, hall⟩
    simp only [Lang]
    refine ⟨[h], mid ++ [l], by simp, ⟨h, rfl, by simpa using hh⟩, mid, [l], rfl, ?_, ⟨l, rfl, hl⟩⟩
    simpa only [Lang] using hmid

/-- `PATTERN.match(cb)`: some prefix is in the language and what is left satisfies the end anchor -/
theorem accepts_match (sa un : Bool) (e : EndAnchor) (body : Rx) (hok : ok body = true) (cb : Text) :
    accepts ⟨sa, e, body, .match, un⟩ cb = true ↔
      ∃ c rest, cb = c ++ rest ∧ Lang Ucd.ascii body c ∧ e.ok rest = true := by
  simp only [accepts, List.any_eq_true, Prod.exists]
  constructor
  · rintro ⟨c, rest, hmem, hd⟩
    obtain ⟨hcb, hl⟩ := run_sound Ucd.ascii body cb c rest hmem
    exact ⟨c, rest, hcb, hl, hd⟩
  · rintro ⟨c, rest, rfl, hl, hd⟩
    exact ⟨c, rest, run_complete Ucd.ascii body hok c rest hl, hd⟩

/-! the parts of a pattern of that shape (empty lists for any other shape) -/
def headItems : Rx → List CItem
  | .seq (.set false H) _ => H
  | _ => []
def midItems : Rx → List CItem
  | .seq _ (.seq (.rep _ _ _ (.set false M)) _) => M
  | _ => []
def lastItems : Rx → List CItem
  | .seq _ (.seq _ (.set _ N)) => N
  | _ => []
def lastNeg : Rx → Bool
  | .seq _ (.seq _ (.set neg _)) => neg
  | _ => false

/-- a pattern `[H][M]+[N]` (last class negated or not) with any end anchor, applied with `match` -/
theorem accepts_of_shape (p : CbPattern) (hs : p = ⟨p.startAnchor, p.endAnchor,
        .seq (.set false (headItems p.body)) (.seq (.rep true 1 none (.set false (midItems p.body))) (.set (lastNeg p.body) (lastItems p.body))),
        .match, true⟩) (hok : ok p.body = true) (cb : Text) :
    accepts p cb = true ↔
      ∃ h mid l tail, cb = h :: (mid ++ l :: tail) ∧ SetHas Ucd.ascii (headItems p.body) h ∧ mid ≠ [] ∧
        (∀ c ∈ mid, SetHas Ucd.ascii (midItems p.body) c) ∧ LastOk Ucd.ascii (lastNeg p.body) (lastItems p.body) l ∧
        p.endAnchor.ok tail = true := by
  have hb : p.body = .seq (.set false (headItems p.body)) (.seq (.rep true 1 none (.set false (midItems p.body))) (.set (lastNeg p.body) (lastItems p.body))) := by
    have := congrArg CbPattern.body hs
    simpa using this
  rw [hs, accepts_match _ _ _ _ (by rw [← hb]; exact hok)]
  simp only []
  constructor
  · rintro ⟨c, rest, rfl, hl, hd⟩
    obtain ⟨h, mid, l, rfl, h1, h2, h3, h4⟩ := (lang_head_mid_last _ _ _ _ _ _ c).mp hl
    exact ⟨h, mid, l, rest, by simp, h1, h2, h3, h4, hd⟩
  · rintro ⟨h, mid, l, tail, rfl, h1, h2, h3, h4, hd⟩
    exact ⟨h :: (mid ++ [l]), tail, by simp, (lang_head_mid_last _ _ _ _ _ _ _).mpr ⟨h, mid, l, rfl, h1, h2, h3, h4⟩, hd⟩

end Pyr.Render
