import PyramidModel.ExcView
/-! Helper lemmas for C14: the attribute dictionary and `hide_attrs` (`popAll` / `restore`). -/
namespace Pyr.ExcView
set_option linter.unusedSimpArgs false

theorem dget_ddel_same (d : Dict) (k : String) : dget (ddel d k) k = none := by
  induction d with
  | nil => rfl
  | cons p rest ih =>
    obtain ⟨k', v⟩ := p
    by_cases h : k' = k
    · simp only [ddel, List.filter_cons, h, ne_eq, not_true_eq_false, decide_false, Bool.false_eq_true, if_false] at ih ⊢
      exact ih
    · simp only [ddel, List.filter_cons, ne_eq, h, not_false_eq_true, decide_true, if_true, dget] at ih ⊢
      exact ih

theorem dget_ddel_other (d : Dict) (k k' : String) (h : k' ≠ k) : dget (ddel d k) k' = dget d k' := by
  induction d with
  | nil => rfl
  | cons p rest ih =>
    obtain ⟨k0, v⟩ := p
    by_cases h0 : k0 = k
    · have h1 : k0 ≠ k' := fun e => h (e ▸ h0 ▸ rfl)
      simp only [ddel, List.filter_cons, h0, ne_eq, not_true_eq_false, decide_false, Bool.false_eq_true, if_false] at ih ⊢
      rw [ih]
      simp only [dget]
      rw [if_neg (by rw [← h0]; exact h1)]
    · simp only [ddel, List.filter_cons, ne_eq, h0, not_false_eq_true, decide_true, if_true, dget] at ih ⊢
      rw [ih]

theorem dget_dset_same (d : Dict) (k : String) (v : Nat) : dget (dset d k v) k = some v := by
  simp [dset, dget]

theorem dget_dset_other (d : Dict) (k k' : String) (v : Nat) (h : k' ≠ k) : dget (dset d k v) k' = dget d k' := by
  simp only [dset, dget]
  rw [if_neg (fun e => h e.symm)]
  exact dget_ddel_other d k k' h

/-- `hide_attrs`, entry: the hidden names are gone, every other attribute reads as before -/
theorem dget_popAll (ns : List String) (d : Dict) (k : String) :
    dget (popAll ns d).1 k = if k ∈ ns then none else dget d k := by
  induction ns generalizing d with
  | nil => simp [popAll]
  | cons n ns ih =>
    simp only [popAll]
    rw [ih (ddel d n)]
    by_cases hk : k ∈ ns
    · simp [hk]
    · by_cases hn : k = n
      · subst hn; simp [hk, dget_ddel_same]
      · simp [hk, hn, dget_ddel_other d n k hn]

/-- `hide_attrs`, entry: what is saved is each name's value before (`none` = the marker) -/
theorem popAll_saved (ns : List String) (hnd : ns.Nodup) (d : Dict) :
    (popAll ns d).2 = ns.map fun n => (n, dget d n) := by
  induction ns generalizing d with
  | nil => rfl
  | cons n ns ih =>
    simp only [popAll, List.map_cons]
    rw [ih (List.nodup_cons.mp hnd).2 (ddel d n)]
    congr 1
    apply List.map_congr_left
    intro m hm
    have : m ≠ n := fun e => (List.nodup_cons.mp hnd).1 (e ▸ hm)
    rw [dget_ddel_other d n m this]

/-- `hide_attrs`, exit: a saved name reads as saved, every other attribute as the body left it -/
theorem dget_restore (saved : List (String × Option Nat)) (hnd : (saved.map (·.1)).Nodup) (d2 : Dict) (k : String) :
    dget (restore saved d2) k =
      match saved.find? (·.1 = k) with
      | some p => p.2
      | none => dget d2 k := by
  induction saved generalizing d2 with
  | nil => rfl
  | cons p rest ih =>
    obtain ⟨n, v⟩ := p
    have hnd0 : (n :: rest.map (·.1)).Nodup := hnd
    have hnd' := (List.nodup_cons.mp hnd0).2
    have hn : n ∉ rest.map (·.1) := (List.nodup_cons.mp hnd0).1
    by_cases hk : n = k
    · subst hk
      have hfind : rest.find? (·.1 = n) = none := by
        rw [List.find?_eq_none]
        intro q hq hqe
        exact hn (List.mem_map.mpr ⟨q, hq, by simpa using hqe⟩)
      cases v with
      | some x =>
        simp only [restore, List.find?_cons, decide_true, if_true]
        rw [ih hnd' (dset d2 n x), hfind]
        exact dget_dset_same d2 n x
      | none =>
        simp only [restore, List.find?_cons, decide_true, if_true]
        rw [ih hnd' (ddel d2 n), hfind]
        exact dget_ddel_same d2 n
    · have hk' : k ≠ n := fun e => hk e.symm
      cases v with
      | some x =>
        simp only [restore, List.find?_cons, hk, decide_false, Bool.false_eq_true, if_false]
        rw [ih hnd' (dset d2 n x)]
        cases rest.find? (·.1 = k) with
        | some q => rfl
        | none => exact dget_dset_other d2 n k x hk'
      | none =>
        simp only [restore, List.find?_cons, hk, decide_false, Bool.false_eq_true, if_false]
        rw [ih hnd' (ddel d2 n)]
        cases rest.find? (·.1 = k) with
        | some q => rfl
        | none => exact dget_ddel_other d2 n k hk'

/-- **`hide_attrs` as a whole**: after the block every hidden name reads as it did before the block (whatever the body
did to it, including creating it), every other attribute reads as the body left it. -/
theorem dget_restore_popAll (ns : List String) (hnd : ns.Nodup) (d d2 : Dict) (k : String) :
    dget (restore (popAll ns d).2 d2) k = if k ∈ ns then dget d k else dget d2 k := by
  rw [popAll_saved ns hnd d, dget_restore]
  · by_cases hk : k ∈ ns
    · have : (ns.map fun n => (n, dget d n)).find? (·.1 = k) = some (k, dget d k) := by
        induction ns with
        | nil => simp at hk
        | cons n ns ih =>
          by_cases hn : n = k
          · subst hn; simp
          · have hk2 : k ∈ ns := by
              rcases List.mem_cons.mp hk with h | h
              · exact absurd h.symm hn
              · exact h
            simp only [List.map_cons, List.find?_cons, hn, decide_false, Bool.false_eq_true, if_false]
            exact ih (List.nodup_cons.mp hnd).2 hk2
      rw [this]; simp [hk]
    · have : (ns.map fun n => (n, dget d n)).find? (·.1 = k) = none := by
        rw [List.find?_eq_none]
        intro q hq
        obtain ⟨n, hn, rfl⟩ := List.mem_map.mp hq
        simp only [decide_eq_true_eq]
        intro e; exact hk (e ▸ hn)
      rw [this]; simp [hk]
  · simpa [List.map_map, Function.comp_def] using hnd

theorem hidden_nodup : hidden.Nodup := by decide

/-- the attribute dictionary when `invoke_exception_view` leaves its `with hide_attrs(...)` block: every attribute reads
as before the call -/
theorem dget_after_block (d : Dict) (x y : Nat) (k : String) :
    dget (restore (popAll hidden d).2 (dset (dset (popAll hidden d).1 "exception" x) "exc_info" y)) k = dget d k := by
  rw [dget_restore_popAll hidden hidden_nodup]
  by_cases hk : k ∈ hidden
  · simp [hk]
  · have h1 : k ≠ "exc_info" := fun e => hk (by simp [hidden, e])
    have h2 : k ≠ "exception" := fun e => hk (by simp [hidden, e])
    rw [if_neg hk, dget_dset_other _ _ _ _ h1, dget_dset_other _ _ _ _ h2, dget_popAll, if_neg hk]

/-- the same when the exception view made the request create a `response` inside the block -/
theorem dget_after_block_touch (d : Dict) (x y v : Nat) (k : String) :
    dget (restore (popAll hidden d).2 (dset (dset (dset (popAll hidden d).1 "exception" x) "exc_info" y) "response" v)) k
      = dget d k := by
  rw [dget_restore_popAll hidden hidden_nodup]
  by_cases hk : k ∈ hidden
  · simp [hk]
  · have h0 : k ≠ "response" := fun e => hk (by simp [hidden, e])
    have h1 : k ≠ "exc_info" := fun e => hk (by simp [hidden, e])
    have h2 : k ≠ "exception" := fun e => hk (by simp [hidden, e])
    rw [if_neg hk, dget_dset_other _ _ _ _ h0, dget_dset_other _ _ _ _ h1, dget_dset_other _ _ _ _ h2, dget_popAll, if_neg hk]

/-- inside the block, before the view runs: `exception` and `exc_info` are set, `response` is absent -/
theorem dget_inside_block (d : Dict) (x y : Nat) :
    let d2 := dset (dset (popAll hidden d).1 "exception" x) "exc_info" y
    dget d2 "exception" = some x ∧ dget d2 "exc_info" = some y ∧ dget d2 "response" = none := by
  refine ⟨?_, ?_, ?_⟩
  · rw [dget_dset_other _ _ _ _ (by decide), dget_dset_same]
  · rw [dget_dset_same]
  · rw [dget_dset_other _ _ _ _ (by decide), dget_dset_other _ _ _ _ (by decide), dget_popAll]
    simp [hidden]

end Pyr.ExcView
