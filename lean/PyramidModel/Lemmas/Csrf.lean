import PyramidModel.Csrf
/-!
C12 — the declarative reading (spec) of the CSRF decision, written independently of the model's algorithm.
The specs are executable (the driver prints them next to the model's answer); the lemmas relating them to the
model are in `Lemmas/CsrfProofs.lean`, the property theorems in `Props/C12.lean`.
-/
namespace Pyr.Csrf

instance {α} [DecidableEq α] : DecidableEq (Except Err α) := fun a b =>
  match a, b with
  | .ok x, .ok y => if h : x = y then isTrue (by rw [h]) else isFalse (fun e => h (Except.ok.inj e))
  | .error x, .error y => if h : x = y then isTrue (by rw [h]) else isFalse (fun e => h (Except.error.inj e))
  | .ok _, .error _ => isFalse (fun e => by cases e)
  | .error _, .ok _ => isFalse (fun e => by cases e)

/-! ## spec: which hosts a trusted-origin pattern admits -/

/-- `host` is `sub ++ "." ++ d` for some (possibly empty) `sub` -/
def hasDotSuffix (host d : Text) : Bool :=
  d.length + 1 ≤ host.length && host.drop (host.length - (d.length + 1)) == '.' :: d

/-- exact match (pattern compared in lower case); a pattern with a leading dot admits the domain itself and
every name that ends in `.domain` -/
def matchesPattern (host pattern : Text) : Bool :=
  match lower pattern with
  | [] => false
  | '.' :: d => host == d || hasDotSuffix host d
  | p => host == p

/-! ## spec: reading an https origin -/

/-- the host part of a value that reads `https:` (scheme in any case) after urlsplit's cleaning: what follows
`//` up to the first `/`, `?` or `#`; empty when no `//` follows the scheme.  `none` when the value does not
start with the https scheme. -/
def httpsNetloc (o : Text) : Option Text :=
  let u := urlClean o
  if lower (u.take 5) == s "https" && (u.drop 5).take 1 == [':'] then
    if (u.drop 6).take 2 == s "//" then some ((u.drop 8).takeWhile fun c => !isNetlocDelim c)
    else some []
  else none

/-- the netloc is one `urlparse` does not reject: brackets come in pairs, and the two facts delegated to Python
(`ipaddress`, NFKC) hold where they are consulted -/
def netlocAccepted (n : Text) (brHostOk nfkcOk : Bool) : Bool :=
  (n.contains '[' == n.contains ']') && (!n.contains '[' || brHostOk) &&
    (n.all (fun c => c.toNat < 128) || nfkcOk)

/-- spec of the origin check: `true` = the check passes -/
def specOriginOk (trusted : List Text) (allowNoOrigin : Bool) (r : Req) : Bool :=
  if r.scheme != s "https" then true
  else
    let pats := trusted ++ [ownHost r]
    let viaUrl (o : Text) : Bool :=
      match httpsNetloc o with
      | some n => netlocAccepted n r.brHostOk r.nfkcOk && pats.any (matchesPattern n)
      | none => false
    match header r (s "Origin") with
    | some o =>
      let last := lastOrigin o
      if last == [] then allowNoOrigin
      else if last == s "null" then pats.contains (s "null")
      else viaUrl last
    | none =>
      match lookup (s "HTTP_REFERER") r.environ with
      | none => allowNoOrigin
      | some [] => allowNoOrigin
      | some ref => viaUrl ref

/-! ## spec: the supplied and the held token -/

/-- the request is a form submission whose body webob parses into `request.POST` -/
def isFormSubmission (r : Req) : Bool :=
  let ct := contentType r
  ((ct == s "application/x-www-form-urlencoded" || ct == s "multipart/form-data")
      && upper r.method != s "GET" && upper r.method != s "HEAD")
    || (ct == [] && r.method == s "POST")

/-- the configured header when it is present and non-empty; otherwise the LAST value of the configured body
field of a form submission; otherwise empty.  The query string is not consulted. -/
def specSupplied (token hdr : Option Text) (r : Req) : Text :=
  match hdr.bind (header r) with
  | some (c :: cs) => c :: cs
  | _ =>
    match token with
    | none => []
    | some t =>
      if isFormSubmission r then
        match (r.form.filter fun kv => kv.1 == t).getLast? with
        | some kv => kv.2
        | none => []
      else []

/-- what the storage policy holds for the client: the stored token; a missing one (for the non-legacy policies
also an empty one) is replaced by a freshly generated token -/
def specHeld (st : Storage) (r : Req) : Text :=
  match r.stored, st with
  | none, _ => r.fresh
  | some [], .session => r.fresh
  | some [], .cookie => r.fresh
  | some t, _ => t

def specTokenOk (st : Storage) (token hdr : Option Text) (r : Req) : Bool :=
  specSupplied token hdr r == specHeld st r

/-! ## spec: the deriver -/

/-- CSRF checking is in force for the view -/
def specEnabled (c : ViewCfg) : Bool :=
  let d := c.opts
  (truthy d.token || truthy d.header) &&
    match c.explicit with
    | some true => true
    | some false => false
    | none => d.requireCsrf && !c.exceptionOnly

/-- the view body runs -/
def specViewRuns (c : ViewCfg) (r : Req) : Bool :=
  let d := c.opts
  let checked := specEnabled c && !d.safeMethods.contains r.method &&
    (match d.callback with | none => true | some cb => cb r)
  !checked || ((!d.checkOrigin || specOriginOk c.trustedSetting d.allowNoOrigin r)
                && specTokenOk c.storage d.token d.header r)

/-! ## the same spec as propositions (what the property statement says, with the witnesses spelled out) -/

/-- the value the origin check looks at: the last space-separated value of `Origin`, else the `Referer` -/
def originValue (r : Req) : Option Text :=
  match header r (s "Origin") with
  | some o => some (lastOrigin o)
  | none => lookup (s "HTTP_REFERER") r.environ

/-- `host` is admitted by the trusted-origin `pattern`: it IS the pattern (lower-cased), or the pattern is
`.d` and the host is `d` or ends in `.d` -/
def DomainMatches (host pattern : Text) : Prop :=
  pattern ≠ [] ∧
    (host = lower pattern ∨ ∃ d, lower pattern = '.' :: d ∧ (host = d ∨ ∃ sub, host = sub ++ '.' :: d))

/-- `o` reads (after urlsplit's cleaning) `<https in any case>:` followed either by `//<n>` and then nothing or a
`/`, `?`, `#` — `n` itself free of those — or by something that does not start with `//` (then `n` is empty) -/
def HttpsOrigin (o n : Text) : Prop :=
  ∃ sch rest, urlClean o = sch ++ ':' :: rest ∧ lower sch = s "https" ∧
    ((∃ tail, rest = '/' :: '/' :: (n ++ tail) ∧ (∀ c ∈ n, isNetlocDelim c = false) ∧
        (tail = [] ∨ ∃ c t, tail = c :: t ∧ isNetlocDelim c = true))
      ∨ (n = [] ∧ ¬ ∃ t, rest = '/' :: '/' :: t))

/-- the origin condition of the property statement -/
def OriginAccepts (trusted : List Text) (allowNoOrigin : Bool) (r : Req) : Prop :=
  r.scheme ≠ s "https" ∨
  ((originValue r = none ∨ originValue r = some []) ∧ allowNoOrigin = true) ∨
  ((header r (s "Origin")).isSome ∧ originValue r = some (s "null") ∧ s "null" ∈ trusted ++ [ownHost r]) ∨
  (∃ o n, originValue r = some o ∧ o ≠ [] ∧ HttpsOrigin o n ∧ ∃ p ∈ trusted ++ [ownHost r], DomainMatches n p)

end Pyr.Csrf
