import PyramidModel.Traversal
/-! Declarative spec of traversal (C02) and helper lemmas.  Property theorems are in `Props/C02.lean`. -/
namespace Pyr.Trav

/-! ### the spec -/

/-- a view-selector segment (`@@name`) -/
def isSel (s : Seg) : Bool := s.take 2 = ['@', '@']

/-- the view name a segment stands for: the text after `@@` for a selector, the segment itself otherwise -/
def viewNameOf (s : Seg) : Seg := if isSel s then s.drop 2 else s

/-- `p` can be walked from `t` by item lookup: every name is an ordinary segment, every node on the way
(except possibly the last one reached) supports item lookup and has the next name. -/
def Walkable (t : Tree) : List Seg → Bool
  | [] => true
  | s :: rest =>
    !isSel s && t.getitem &&
      match t.lookup s with
      | none => false
      | some c => Walkable c rest

/-- length of the longest walkable prefix of `segs` ("the deepest resource reached") -/
def deepest (t : Tree) : List Seg → Nat
  | [] => 0
  | s :: rest =>
    if isSel s then 0
    else if !t.getitem then 0
    else
      match t.lookup s with
      | none => 0
      | some c => deepest c rest + 1

/-- What the property demands of a traversal over the virtual-root segments `vt` followed by the request's
segments `pt`: context = deepest resource reached, view name = first segment not looked up, subpath = the
rest, traversed = exactly the consumed segments, virtual root = the resource at `vt` (the root when the walk
does not get that far). `sub0` is the subpath of the match dictionary (used when the path is exhausted). -/
def specOutcome (root : Tree) (vt pt sub0 : List Seg) : Result :=
  let segs := vt ++ pt
  let k := deepest root segs
  match segs.drop k with
  | [] =>
    { context := segs, viewName := [], subpath := sub0, traversed := segs,
      virtualRoot := vt, virtualRootPath := vt }
  | s :: rest =>
    { context := segs.take k, viewName := viewNameOf s, subpath := rest, traversed := segs.take k,
      virtualRoot := if vt.length ≤ k then vt else [], virtualRootPath := vt }

/-- the spec of lines 628-704: the virtual root's segments and the request's segments are normalised
separately (so `..` cannot climb out of the virtual root, and the two are never glued) and walked one after
the other. -/
def specText (root : Tree) (vroot : Option Text) (path : Text) (subpath : List Seg) : Result :=
  match vroot with
  | none => specOutcome root [] (splitPathInfo path) subpath
  | some vrootPath => specOutcome root (splitPathInfo vrootPath) (splitPathInfo path) subpath

/-- the spec of `ResourceTreeTraverser.__call__` -/
def specTraverser (root : Tree) (rq : Req) : Except Err Result :=
  match requestPath rq with
  | .error e => .error e
  | .ok (path, subpath) =>
    match rq.vroot with
    | none => .ok (specText root none path subpath)
    | some raw =>
      match decodePathInfo raw with
      | none => .error .unicodeDecode
      | some vrootPath => .ok (specText root (some vrootPath) path subpath)

end Pyr.Trav

namespace Pyr.Trav

/-! ### normalisation of segment lists -/

abbrev dd : Seg := ['.', '.']

/-- a proper name as far as normalisation is concerned: not `''`, `'.'`, `'..'` -/
def Clean (s : Seg) : Prop := s ≠ [] ∧ s ≠ ['.'] ∧ s ≠ dd

instance (s : Seg) : Decidable (Clean s) := by unfold Clean; infer_instance

theorem normStep_skip (st : List Seg) (s : Seg) (h : s = [] ∨ s = ['.']) : normStep st s = st := by
  simp [normStep, h]

theorem normStep_dd (st : List Seg) : normStep st dd = st.tail := by
  simp [normStep, dd]

theorem normStep_clean (st : List Seg) (s : Seg) (h : Clean s) : normStep st s = s :: st := by
  obtain ⟨h1, h2, h3⟩ := h
  simp [normStep, h1, h2, dd] at *
  intro h; exact absurd h h3

theorem foldl_normStep_clean (ys st : List Seg) (h : ∀ s ∈ ys, Clean s) :
    ys.foldl normStep st = ys.reverse ++ st := by
  induction ys generalizing st with
  | nil => simp
  | cons y ys ih =>
    simp only [List.foldl_cons, List.reverse_cons, List.append_assoc, List.singleton_append]
    rw [normStep_clean st y (h y (by simp)), ih _ (fun s hs => h s (by simp [hs]))]

theorem mem_foldl_normStep (segs st : List Seg) (s : Seg) (h : s ∈ segs.foldl normStep st) :
    (s ∈ st ∨ s ∈ segs) ∧ (s ∈ st ∨ Clean s) := by
  induction segs generalizing st with
  | nil => simp at h; exact ⟨.inl h, .inl h⟩
  | cons x xs ih =>
    simp only [List.foldl_cons] at h
    have := ih _ h
    by_cases h1 : x = [] ∨ x = ['.']
    · rw [normStep_skip st x h1] at this
      exact ⟨this.1.elim .inl (fun m => .inr (by simp [m])), this.2⟩
    · by_cases h2 : x = dd
      · subst h2
        rw [normStep_dd] at this
        exact ⟨this.1.elim (fun m => .inl (List.mem_of_mem_tail m)) (fun m => .inr (by simp [m])),
               this.2.elim (fun m => .inl (List.mem_of_mem_tail m)) .inr⟩
      · have hc : Clean x := ⟨fun e => h1 (.inl e), fun e => h1 (.inr e), h2⟩
        rw [normStep_clean st x hc] at this
        refine ⟨?_, ?_⟩
        · rcases this.1 with m | m
          · rcases List.mem_cons.mp m with e | m
            · exact .inr (by simp [e])
            · exact .inl m
          · exact .inr (by simp [m])
        · rcases this.2 with m | m
          · rcases List.mem_cons.mp m with e | m
            · exact .inr (e ▸ hc)
            · exact .inl m
          · exact .inr m

theorem normSegs_clean_out (segs : List Seg) (s : Seg) (h : s ∈ normSegs segs) : Clean s ∧ s ∈ segs := by
  simp only [normSegs, List.mem_reverse] at h
  have := mem_foldl_normStep segs [] s h
  simp at this
  exact ⟨this.2, this.1⟩

theorem normSegs_of_clean (segs : List Seg) (h : ∀ s ∈ segs, Clean s) : normSegs segs = segs := by
  simp [normSegs, foldl_normStep_clean segs [] h]

theorem normSegs_append (xs ys : List Seg) :
    normSegs (xs ++ ys) = (ys.foldl normStep (normSegs xs).reverse).reverse := by
  simp [normSegs, List.foldl_append]

/-- the result depends on a prefix only through its normal form -/
theorem normSegs_prefix_norm (xs ys : List Seg) : normSegs (xs ++ ys) = normSegs (normSegs xs ++ ys) := by
  rw [normSegs_append, normSegs_append]
  rw [normSegs_of_clean (normSegs xs) (fun s hs => (normSegs_clean_out xs s hs).1)]

/-- `..` never climbs out of what precedes it more than it has consumed: a decidable sufficient condition
for a segment list to be normalisable independently of its left context. -/
def noClimbFrom : Nat → List Seg → Bool
  | _, [] => true
  | d, s :: rest =>
    if s = [] ∨ s = ['.'] then noClimbFrom d rest
    else if s = dd then (0 < d && noClimbFrom (d - 1) rest)
    else noClimbFrom (d + 1) rest

theorem foldl_normStep_noClimb (ys st base : List Seg) (h : noClimbFrom st.length ys = true) :
    ys.foldl normStep (st ++ base) = ys.foldl normStep st ++ base := by
  induction ys generalizing st with
  | nil => simp
  | cons y ys ih =>
    simp only [List.foldl_cons]
    by_cases h1 : y = [] ∨ y = ['.']
    · simp only [noClimbFrom, h1, if_true] at h
      rw [normStep_skip _ y h1, normStep_skip _ y h1]
      exact ih st h
    · by_cases h2 : y = dd
      · subst h2
        simp only [noClimbFrom, h1, if_false, if_true, Bool.and_eq_true, decide_eq_true_eq] at h
        rw [normStep_dd, normStep_dd]
        cases st with
        | nil => simp at h
        | cons a st' =>
          simp only [List.cons_append, List.tail_cons]
          exact ih st' (by simpa using h.2)
      · simp only [noClimbFrom, h1, h2, if_false] at h
        have hc : Clean y := ⟨fun e => h1 (.inl e), fun e => h1 (.inr e), h2⟩
        rw [normStep_clean _ y hc, normStep_clean _ y hc]
        exact ih (y :: st) (by simpa using h)

theorem normSegs_append_noClimb (xs ys : List Seg) (h : noClimbFrom 0 ys = true) :
    normSegs (xs ++ ys) = normSegs xs ++ normSegs ys := by
  simp only [normSegs, List.foldl_append]
  have := foldl_normStep_noClimb ys [] (xs.foldl normStep []) (by simpa using h)
  simp only [List.nil_append] at this
  rw [this]; simp

end Pyr.Trav

namespace Pyr.Trav

/-! ### `str.split`, `str.strip`, `'/'.join` -/

theorem splitOn_ne_nil (sep : Char) (t : Text) : splitOn sep t ≠ [] := by
  cases t with
  | nil => simp [splitOn]
  | cons c cs =>
    simp only [splitOn]
    split
    · simp
    · split <;> simp

theorem splitOn_cons_sep (sep : Char) (t : Text) : splitOn sep (sep :: t) = [] :: splitOn sep t := by
  simp [splitOn]

theorem splitOn_cons_ne (sep c : Char) (t : Text) (h : c ≠ sep) :
    ∃ p ps, splitOn sep t = p :: ps ∧ splitOn sep (c :: t) = (c :: p) :: ps := by
  cases hs : splitOn sep t with
  | nil => exact absurd hs (splitOn_ne_nil sep t)
  | cons p ps => exact ⟨p, ps, rfl, by simp [splitOn, h, hs]⟩

/-- splitting distributes over a separator -/
theorem splitOn_append_sep (sep : Char) (a b : Text) :
    splitOn sep (a ++ sep :: b) = splitOn sep a ++ splitOn sep b := by
  induction a with
  | nil => simp [splitOn]
  | cons c a ih =>
    by_cases h : c = sep
    · subst h
      simp only [List.cons_append, splitOn_cons_sep, ih]
    · obtain ⟨p, ps, h1, h2⟩ := splitOn_cons_ne sep c a h
      obtain ⟨q, qs, h3, h4⟩ := splitOn_cons_ne sep c (a ++ sep :: b) h
      simp only [List.cons_append]
      rw [h4, h2]
      rw [ih, h1] at h3
      simp only [List.cons_append, List.cons.injEq] at h3
      simp [h3.1, h3.2]

theorem splitOn_no_sep (sep : Char) (t : Text) (h : sep ∉ t) : splitOn sep t = [t] := by
  induction t with
  | nil => simp [splitOn]
  | cons c cs ih =>
    have hc : c ≠ sep := fun e => h (by simp [e])
    have := ih (fun m => h (by simp [m]))
    simp [splitOn, hc, this]

theorem mem_splitOn_no_sep (sep : Char) (t : Text) (s : Text) (h : s ∈ splitOn sep t) : sep ∉ s := by
  induction t generalizing s with
  | nil => simp [splitOn] at h; simp [h]
  | cons c cs ih =>
    by_cases hc : c = sep
    · subst hc
      rw [splitOn_cons_sep] at h
      rcases List.mem_cons.mp h with e | m
      · simp [e]
      · exact ih s m
    · obtain ⟨p, ps, h1, h2⟩ := splitOn_cons_ne sep c cs hc
      rw [h2] at h
      rcases List.mem_cons.mp h with e | m
      · subst e
        have := ih p (by simp [h1])
        simp only [List.mem_cons, not_or]
        exact ⟨fun e => hc e.symm, this⟩
      · exact ih s (by simp [h1, m])

theorem splitOn_joinWith (sep : Char) (segs : List Text) (hne : segs ≠ []) (h : ∀ s ∈ segs, sep ∉ s) :
    splitOn sep (joinWith sep segs) = segs := by
  induction segs with
  | nil => exact absurd rfl hne
  | cons x rest ih =>
    cases rest with
    | nil => simpa [joinWith] using splitOn_no_sep sep x (h x (by simp))
    | cons y r =>
      simp only [joinWith]
      rw [splitOn_append_sep, splitOn_no_sep sep x (h x (by simp)), ih (by simp) (fun s hs => h s (by simp [hs]))]
      simp

/-- leading separators only produce empty segments -/
theorem splitOn_dropWhile (t : Text) :
    ∃ n, splitOn '/' t = List.replicate n [] ++ splitOn '/' (t.dropWhile (· = '/')) := by
  induction t with
  | nil => exact ⟨0, by simp⟩
  | cons c cs ih =>
    by_cases hc : c = '/'
    · subst hc
      obtain ⟨n, hn⟩ := ih
      refine ⟨n + 1, ?_⟩
      simp only [splitOn_cons_sep, List.dropWhile_cons, decide_true, if_true, hn, List.replicate_succ, List.cons_append]
    · exact ⟨0, by simp [hc]⟩

theorem splitOn_append_replicate (t : Text) (n : Nat) :
    splitOn '/' (t ++ List.replicate n '/') = splitOn '/' t ++ List.replicate n [] := by
  induction n with
  | zero => simp
  | succ n ih =>
    have : t ++ List.replicate (n + 1) '/' = t ++ '/' :: List.replicate n '/' := by simp [List.replicate_succ]
    rw [this, splitOn_append_sep]
    have h2 := ih
    -- splitOn (replicate n '/') = replicate (n+1) []
    have h3 : ∀ m, splitOn '/' (List.replicate m '/') = List.replicate (m + 1) [] := by
      intro m
      induction m with
      | zero => simp [splitOn]
      | succ m ihm => rw [List.replicate_succ, splitOn_cons_sep, ihm]; simp [List.replicate_succ]
    rw [h3]

theorem foldl_normStep_replicate_nil (n : Nat) (st : List Seg) :
    (List.replicate n ([] : Seg)).foldl normStep st = st := by
  induction n with
  | zero => simp
  | succ n ih => simp [List.replicate_succ, normStep_skip st [] (.inl rfl), ih]

theorem normSegs_replicate_nil_append (n : Nat) (zs : List Seg) :
    normSegs (List.replicate n [] ++ zs) = normSegs zs := by
  simp [normSegs, List.foldl_append, foldl_normStep_replicate_nil]

theorem normSegs_append_replicate_nil (n : Nat) (zs : List Seg) :
    normSegs (zs ++ List.replicate n []) = normSegs zs := by
  simp [normSegs, List.foldl_append, foldl_normStep_replicate_nil]

theorem exists_replicate_of_all (l : List Char) (h : ∀ c ∈ l, c = '/') : l = List.replicate l.length '/' := by
  induction l with
  | nil => rfl
  | cons c cs ih =>
    have := h c (by simp)
    subst this
    rw [List.length_cons, List.replicate_succ, ← ih (fun c hc => h c (by simp [hc]))]

theorem mem_takeWhile_slash (l : List Char) (c : Char) (h : c ∈ l.takeWhile (· = '/')) : c = '/' := by
  induction l with
  | nil => simp at h
  | cons x xs ih =>
    by_cases hx : x = '/'
    · simp only [List.takeWhile_cons, hx, decide_true, if_true, List.mem_cons] at h
      rcases h with e | m
      · exact e
      · exact ih m
    · simp [hx] at h

/-- right-stripping removes a run of separators -/
theorem rstrip_decomp (t : Text) :
    ∃ n, t = ((t.reverse.dropWhile (· = '/')).reverse) ++ List.replicate n '/' := by
  have h := List.takeWhile_append_dropWhile (p := (· = '/')) (l := t.reverse)
  have h2 : t = (t.reverse.dropWhile (· = '/')).reverse ++ (t.reverse.takeWhile (· = '/')).reverse := by
    rw [← List.reverse_append, h, List.reverse_reverse]
  have h3 : ∀ c ∈ (t.reverse.takeWhile (· = '/')).reverse, c = '/' := by
    intro c hc
    exact mem_takeWhile_slash _ c (List.mem_reverse.mp hc)
  refine ⟨(t.reverse.takeWhile (· = '/')).reverse.length, ?_⟩
  rw [← exists_replicate_of_all _ h3]
  exact h2

/-- `strip('/')` does not matter: it only removes empty segments, which the loop drops anyway -/
theorem splitPathInfo_eq (p : Text) : splitPathInfo p = normSegs (splitOn '/' p) := by
  obtain ⟨n, hn⟩ := splitOn_dropWhile p
  obtain ⟨m, hm⟩ := rstrip_decomp (p.dropWhile (· = '/'))
  simp only [splitPathInfo, stripSlash]
  rw [hn, normSegs_replicate_nil_append]
  conv => rhs; rw [hm]
  rw [splitOn_append_replicate, normSegs_append_replicate_nil]

end Pyr.Trav

namespace Pyr.Trav

/-! ### the walk -/

theorem deepest_le (t : Tree) (segs : List Seg) : deepest t segs ≤ segs.length := by
  induction segs generalizing t with
  | nil => simp [deepest]
  | cons s rest ih =>
    simp only [deepest]
    split
    · simp
    · split
      · simp
      · split
        · simp
        · rename_i c _
          have := ih c
          simp only [List.length_cons]; omega

/-- the consumed prefix can be walked -/
theorem walkable_take_deepest (t : Tree) (segs : List Seg) : Walkable t (segs.take (deepest t segs)) = true := by
  induction segs generalizing t with
  | nil => simp [deepest, Walkable]
  | cons s rest ih =>
    simp only [deepest]
    split
    · simp [Walkable]
    · split
      · simp [Walkable]
      · split
        · simp [Walkable]
        · rename_i h1 h2 c hc
          simp only [List.take_succ_cons, Walkable, hc]
          simp_all [ih c]

/-- … and no longer prefix can -/
theorem deepest_max (t : Tree) (segs : List Seg) (k : Nat) (hk : k ≤ segs.length)
    (h : Walkable t (segs.take k) = true) : k ≤ deepest t segs := by
  induction segs generalizing t k with
  | nil => simp at hk; omega
  | cons s rest ih =>
    cases k with
    | zero => omega
    | succ k =>
      simp only [List.take_succ_cons, Walkable, Bool.and_eq_true, Bool.not_eq_true'] at h
      obtain ⟨⟨h1, h2⟩, h3⟩ := h
      simp only [deepest, h1, h2]
      cases hc : t.lookup s with
      | none => simp [hc] at h3
      | some c =>
        simp only [hc] at h3
        have := ih c k (by simpa using hk) h3
        simp; omega

/-- a walkable position names a resource of the tree -/
theorem resolve_of_walkable (t : Tree) (p : List Seg) (h : Walkable t p = true) : (t.resolve p).isSome = true := by
  induction p generalizing t with
  | nil => simp [Tree.resolve]
  | cons s rest ih =>
    simp only [Walkable, Bool.and_eq_true] at h
    cases hc : t.lookup s with
    | none => simp [hc] at h
    | some c =>
      simp only [hc] at h
      simp only [Tree.resolve, hc]
      exact ih c h.2

/-- closed form of the traverser's loop (`vlen = vroot_idx + 1`) -/
theorem walkLoop_eq (vt vrt sub0 : List Seg) (vlen : Nat) (rest : List Seg) (i : Nat) (ob : Tree) (vr : List Seg) :
    walkLoop vt vrt sub0 vlen rest i ob vr =
      { context := vt.take (i + deepest ob rest)
        viewName := match rest.drop (deepest ob rest) with
          | [] => []
          | s :: _ => viewNameOf s
        subpath := match rest.drop (deepest ob rest) with
          | [] => sub0
          | _ :: _ => vt.drop (i + deepest ob rest + 1)
        traversed := match rest.drop (deepest ob rest) with
          | [] => vt
          | _ :: _ => vt.take (vlen + (i + deepest ob rest))
        virtualRoot := if i < vlen ∧ vlen ≤ i + deepest ob rest then vt.take vlen else vr
        virtualRootPath := vrt } := by
  induction rest generalizing i ob vr with
  | nil =>
    have : ¬ (i < vlen ∧ vlen ≤ i) := by omega
    simp [walkLoop, deepest, this]
  | cons s rest ih =>
    have hno : ¬ (i < vlen ∧ vlen ≤ i) := by omega
    simp only [walkLoop, deepest]
    by_cases h1 : isSel s = true
    · have h1' : s.take 2 = ['@', '@'] := by simpa [isSel] using h1
      simp [h1, h1', viewNameOf, hno]
    · have h1' : ¬ s.take 2 = ['@', '@'] := by simpa [isSel] using h1
      simp only [h1', if_false, h1]
      by_cases h2 : ob.getitem = true
      · simp only [h2, Bool.not_true, Bool.false_eq_true, if_false]
        cases hc : ob.lookup s with
        | none => simp [viewNameOf, h1, hno]
        | some c =>
          simp only []
          rw [ih]
          have e1 : i + 1 + deepest c rest = i + (deepest c rest + 1) := by omega
          simp only [e1, List.drop_succ_cons]
          congr 1
          by_cases ha : i + 1 = vlen
          · have hb : ¬ (i + 1 < vlen ∧ vlen ≤ i + (deepest c rest + 1)) := by omega
            have hd : i < vlen ∧ vlen ≤ i + (deepest c rest + 1) := by omega
            simp [ha, hd]
          · by_cases hb : i + 1 < vlen ∧ vlen ≤ i + (deepest c rest + 1)
            · have hd : i < vlen ∧ vlen ≤ i + (deepest c rest + 1) := by omega
              simp [hb, hd]
            · have hd : ¬ (i < vlen ∧ vlen ≤ i + (deepest c rest + 1)) := by omega
              simp [ha, hb, hd]
      · simp only [Bool.not_eq_true] at h2
        simp [h2, viewNameOf, h1, hno]

end Pyr.Trav

namespace Pyr.Trav

theorem walkable_prefix (t : Tree) (p q : List Seg) (h : Walkable t (p ++ q) = true) : Walkable t p = true := by
  induction p generalizing t with
  | nil => simp [Walkable]
  | cons s rest ih =>
    simp only [List.cons_append, Walkable, Bool.and_eq_true] at h ⊢
    refine ⟨h.1, ?_⟩
    cases hc : t.lookup s with
    | none => simp [hc] at h
    | some c => simp only [hc] at h; exact ih c h.2

/-- `split_path_info('/') = ()`.  (Until 939e5de the traverser special-cased `vpath == '/'`; the model no longer
mentions that shortcut.  The fact itself is kept because lemmas of other areas cite it.) -/
theorem vpath_shortcut (vpath : Text) :
    (if vpath = ['/'] then [] else splitPathInfo vpath) = splitPathInfo vpath := by
  split
  · rename_i h; subst h; decide
  · rfl

/-- the walk gets as far as the end of a prefix `vt` of the path exactly when `vt` can be walked -/
theorem prefix_le_deepest_iff (root : Tree) (vt pt : List Seg) :
    vt.length ≤ deepest root (vt ++ pt) ↔ Walkable root vt = true := by
  have hw := walkable_take_deepest root (vt ++ pt)
  constructor
  · intro h
    have e : (vt ++ pt).take (deepest root (vt ++ pt)) = vt ++ pt.take (deepest root (vt ++ pt) - vt.length) := by
      rw [List.take_append]; simp [List.take_of_length_le h]
    rw [e] at hw
    exact walkable_prefix root vt _ hw
  · intro h
    exact deepest_max root (vt ++ pt) vt.length (by simp) (by simpa using h)

/-- context and `traversed` of the spec are the consumed prefix, whether or not the path is exhausted -/
theorem specOutcome_context (root : Tree) (vt pt sub0 : List Seg) :
    (specOutcome root vt pt sub0).context = (vt ++ pt).take (deepest root (vt ++ pt)) ∧
    (specOutcome root vt pt sub0).traversed = (vt ++ pt).take (deepest root (vt ++ pt)) := by
  simp only [specOutcome]
  split
  · rename_i h
    have : (vt ++ pt).length ≤ deepest root (vt ++ pt) := by simpa using h
    simp [List.take_of_length_le this]
  · exact ⟨rfl, rfl⟩

/-- the traverser under a virtual-root header is the loop over `split(header) ++ split(path)` with
`vroot_idx + 1 = len(split(header))` -/
theorem traverseText_some (root : Tree) (v path : Text) (sub0 : List Seg) :
    traverseText root (some v) path sub0 =
      walkLoop (splitPathInfo v ++ splitPathInfo path) (splitPathInfo v) sub0 (splitPathInfo v).length
        (splitPathInfo v ++ splitPathInfo path) 0 root [] := rfl

/-- … and without one the loop over `split(path)` with `vroot_idx = -1` -/
theorem traverseText_none (root : Tree) (path : Text) (sub0 : List Seg) :
    traverseText root none path sub0 =
      walkLoop (splitPathInfo path) [] sub0 0 (splitPathInfo path) 0 root [] := rfl

/-- what the loop returns for a combined tuple `segs` when `vlen` segments of it belong to the virtual root -/
theorem walk_outcome (root : Tree) (segs vrt sub0 : List Seg) (vlen : Nat) :
    walkLoop segs vrt sub0 vlen segs 0 root [] =
      { context := segs.take (deepest root segs)
        viewName := match segs.drop (deepest root segs) with
          | [] => []
          | s :: _ => viewNameOf s
        subpath := match segs.drop (deepest root segs) with
          | [] => sub0
          | _ :: _ => segs.drop (deepest root segs + 1)
        traversed := match segs.drop (deepest root segs) with
          | [] => segs
          | _ :: _ => segs.take (vlen + deepest root segs)
        virtualRoot := if 0 < vlen ∧ vlen ≤ deepest root segs then segs.take vlen else []
        virtualRootPath := vrt } := by
  rw [walkLoop_eq]
  simp only [Nat.zero_add]

end Pyr.Trav
