import PyramidModel.Acl
/-! Helper lemmas for C11 (property theorems are in `Props/C11.lean`). -/
namespace Pyr.Acl

/-- every ACE of the lineage, in the order `permits` scans them (context first, then ancestors) -/
def flat : Lineage → List Ace
  | [] => []
  | none :: up => flat up
  | some acl :: up => acl ++ flat up

/-- the declarative reading of the property: the first entry, in scanning order, whose principal is
among the given ones and whose permission set contains the permission -/
def firstHit (princs : List Nat) (perm : Nat) (l : Lineage) : Option Ace :=
  (flat l).find? (·.hits princs perm)

theorem scanAclAt_find (pr : List Nat) (perm : Nat) (acl : Acl) (i : Nat) :
    (scanAclAt pr perm acl i).map (·.2) = acl.find? (·.hits pr perm) := by
  induction acl generalizing i with
  | nil => simp [scanAclAt]
  | cons a t ih =>
    simp only [scanAclAt, List.find?_cons]
    by_cases h : a.hits pr perm = true
    · simp [h]
    · simp only [h]; simpa using ih (i + 1)

theorem scanAclAt_idx (pr : List Nat) (perm : Nat) (acl : Acl) (i j : Nat) (a : Ace)
    (h : scanAclAt pr perm acl i = some (j, a)) :
    i ≤ j ∧ acl[j - i]? = some a ∧ a.hits pr perm = true ∧
      ∀ k, k < j - i → ∀ b, acl[k]? = some b → b.hits pr perm = false := by
  induction acl generalizing i with
  | nil => simp [scanAclAt] at h
  | cons x t ih =>
    simp only [scanAclAt] at h
    by_cases hx : x.hits pr perm = true
    · simp only [hx, if_true, Option.some.injEq, Prod.mk.injEq] at h
      obtain ⟨rfl, rfl⟩ := h
      simp [hx]
    · simp only [hx] at h
      obtain ⟨h1, h2, h3, h4⟩ := ih (i + 1) h
      refine ⟨by omega, ?_, h3, ?_⟩
      · have : j - i = (j - (i + 1)) + 1 := by omega
        rw [this]; simpa using h2
      · intro k hk b hb
        cases k with
        | zero => simp at hb; subst hb; simpa using hx
        | succ k => exact h4 k (by omega) b (by simpa using hb)

theorem decideAt_find (pr : List Nat) (perm : Nat) (l : Lineage) (k : Nat) :
    (decideAt pr perm l k).map (·.2.2) = firstHit pr perm l := by
  induction l generalizing k with
  | nil => simp [decideAt, firstHit, flat]
  | cons node up ih =>
    cases node with
    | none => simpa [decideAt, firstHit, flat] using ih (k + 1)
    | some acl =>
      simp only [decideAt, firstHit, flat, List.find?_append]
      have hs := scanAclAt_find pr perm acl 0
      cases h : scanAclAt pr perm acl 0 with
      | some p =>
        obtain ⟨i, a⟩ := p
        rw [h] at hs
        simp only [Option.map_some] at hs
        simp [← hs]
      | none =>
        rw [h] at hs
        simp only [Option.map_none] at hs
        simp only [← hs, Option.none_or]
        exact ih (k + 1)

/-! ### `principals_allowed_by_permission` -/

/-- decision for the principal set `{p, Everyone}` restricted to one ACL -/
def scan1 (p perm : Nat) (acl : Acl) : Option Action :=
  (acl.find? (·.hits [p, everyone] perm)).map (·.action)

theorem scan1_append (p perm : Nat) (pre rest : Acl) :
    scan1 p perm (pre ++ rest) = (scan1 p perm pre).or (scan1 p perm rest) := by
  simp only [scan1, List.find?_append]
  cases List.find? (·.hits [p, everyone] perm) pre <;> simp

theorem scan1_single (p perm : Nat) (a : Ace) :
    scan1 p perm [a] = if a.hits [p, everyone] perm then some a.action else none := by
  simp only [scan1, List.find?_cons, List.find?_nil]
  split <;> simp_all

/-- every ACE is an `Allow` or a `Deny` entry (the documented domain of an ACL) -/
def AclWF (acl : Acl) : Prop := ∀ a ∈ acl, a.action ≠ .other
def LineageWF (l : Lineage) : Prop := ∀ acl, some acl ∈ l → AclWF acl

/-- executable form of `LineageWF` (used by the driver and by `decide`) -/
def lineageWF (l : Lineage) : Bool :=
  l.all fun n => match n with
    | none => true
    | some acl => acl.all fun a => a.action != .other

theorem lineageWF_iff (l : Lineage) : lineageWF l = true ↔ LineageWF l := by
  simp only [lineageWF, LineageWF, AclWF, List.all_eq_true]
  constructor
  · intro h acl hacl a ha
    have := h (some acl) hacl
    simp only [List.all_eq_true] at this
    simpa using this a ha
  · intro h n hn
    cases n with
    | none => rfl
    | some acl =>
      simp only [List.all_eq_true]
      intro a ha
      simpa using h acl hn a ha

/-- "not refused": the scan of `pre` for `{p, Everyone}` finds nothing or an `Allow` -/
def NotRefused (p perm : Nat) (pre : Acl) : Prop := ∀ x, scan1 p perm pre = some x → x = .allow

/-- accumulator invariant of `stepAcl`, relative to the already processed prefix `pre` -/
structure AccInv (perm : Nat) (pre : Acl) (allowed here denied : List Nat) : Prop where
  here_ok : ∀ p ∈ here, scan1 p perm pre = some .allow
  allowed_ok : ∀ p ∈ allowed, NotRefused p perm pre
  denied_ok : ∀ p, p ∉ denied → NotRefused p perm pre

theorem hits_iff (a : Ace) (p perm : Nat) :
    a.hits [p, everyone] perm = ((a.who == p || a.who == everyone) && a.perms.has perm) := by
  simp only [Ace.hits, List.contains_cons, List.contains_nil, Bool.or_false]

theorem scan1_snoc (p perm : Nat) (pre : Acl) (a : Ace) :
    scan1 p perm (pre ++ [a]) =
      (scan1 p perm pre).or (if a.hits [p, everyone] perm then some a.action else none) := by
  rw [scan1_append, scan1_single]

theorem stepAcl_sound (perm : Nat) (rest : Acl) :
    ∀ (pre : Acl) (allowed here denied : List Nat), AclWF rest →
      AccInv perm pre allowed here denied →
      (∀ p ∈ (stepAcl perm rest allowed here denied).2, scan1 p perm (pre ++ rest) = some .allow) ∧
      (∀ p ∈ (stepAcl perm rest allowed here denied).1,
          p ∈ allowed ∧ NotRefused p perm (pre ++ rest)) := by
  induction rest with
  | nil =>
    intro pre allowed here denied _ inv
    simp only [stepAcl, List.append_nil]
    exact ⟨inv.here_ok, fun p hp => ⟨hp, inv.allowed_ok p hp⟩⟩
  | cons a rest ih =>
    intro pre allowed here denied wf inv
    have wfr : AclWF rest := fun b hb => wf b (List.mem_cons_of_mem _ hb)
    have wfa : a.action ≠ .other := wf a List.mem_cons_self
    have assoc : pre ++ a :: rest = (pre ++ [a]) ++ rest := by simp
    rw [assoc]
    -- the three ways the invariant is carried over an ACE that changes nothing
    have keep_here : ∀ p, scan1 p perm pre = some .allow → scan1 p perm (pre ++ [a]) = some .allow := by
      intro p h; rw [scan1_snoc, h]; rfl
    unfold stepAcl
    by_cases hp : a.perms.has perm = true
    · simp only [hp, if_true]
      cases hact : a.action with
      | other => exact absurd hact wfa
      | allow =>
        simp only
        have nr : ∀ p, NotRefused p perm pre → NotRefused p perm (pre ++ [a]) := by
          intro p h x hx
          rw [scan1_snoc] at hx
          cases hs : scan1 p perm pre with
          | some y => rw [hs] at hx; simp at hx; subst hx; exact h y hs
          | none =>
            rw [hs] at hx; simp only [Option.none_or] at hx
            split at hx
            · simp at hx; rw [← hx, hact]
            · simp at hx
        by_cases hd : denied.contains a.who = true
        · simp only [hd, if_true]
          exact ih (pre ++ [a]) allowed here denied wfr
            ⟨fun p h => keep_here p (inv.here_ok p h), fun p h => nr p (inv.allowed_ok p h),
             fun p h => nr p (inv.denied_ok p h)⟩
        · simp only [hd]
          have r := ih (pre ++ [a]) allowed (a.who :: here) denied wfr
            ⟨by
              intro p h
              simp only [List.mem_cons] at h
              rcases h with rfl | h
              · have nd := inv.denied_ok a.who (by simpa using hd)
                rw [scan1_snoc]
                cases hs : scan1 a.who perm pre with
                | some y => have := nd y hs; subst this; rfl
                | none => simp [hits_iff, hp, hact]
              · exact keep_here p (inv.here_ok p h),
             fun p h => nr p (inv.allowed_ok p h), fun p h => nr p (inv.denied_ok p h)⟩
          exact r
      | deny =>
        simp only
        by_cases he : (a.who == everyone) = true
        · simp only [he, if_true]
          refine ⟨?_, by simp⟩
          intro p h
          rw [scan1_append, keep_here p (inv.here_ok p h)]; rfl
        · simp only [he]
          have nr : ∀ p, p ≠ a.who → NotRefused p perm pre → NotRefused p perm (pre ++ [a]) := by
            intro p hne h x hx
            rw [scan1_snoc] at hx
            cases hs : scan1 p perm pre with
            | some y => rw [hs] at hx; simp at hx; subst hx; exact h y hs
            | none =>
              rw [hs] at hx; simp only [Option.none_or] at hx
              have : a.hits [p, everyone] perm = false := by
                rw [hits_iff]
                have h1 : (a.who == p) = false := beq_eq_false_iff_ne.mpr (Ne.symm hne)
                have h2 : (a.who == everyone) = false := by simpa using he
                simp [h1, h2]
              simp [this] at hx
          have r := ih (pre ++ [a]) (allowed.filter (· != a.who)) here (a.who :: denied) wfr
            ⟨fun p h => keep_here p (inv.here_ok p h),
             by
              intro p h
              simp only [List.mem_filter, bne_iff_ne, ne_eq] at h
              exact nr p h.2 (inv.allowed_ok p h.1),
             by
              intro p h
              simp only [List.mem_cons, not_or] at h
              exact nr p h.1 (inv.denied_ok p h.2)⟩
          refine ⟨r.1, fun p hp' => ?_⟩
          have := r.2 p hp'
          simp only [List.mem_filter] at this
          exact ⟨this.1.1, this.2⟩
    · simp only [hp]
      have nr : ∀ p, NotRefused p perm pre → NotRefused p perm (pre ++ [a]) := by
        intro p h x hx
        rw [scan1_snoc] at hx
        have : a.hits [p, everyone] perm = false := by
          rw [hits_iff]; simp only [Bool.not_eq_true] at hp; simp [hp]
        cases hs : scan1 p perm pre with
        | some y => rw [hs] at hx; simp at hx; subst hx; exact h y hs
        | none => rw [hs] at hx; simp [this] at hx
      exact ih (pre ++ [a]) allowed here denied wfr
        ⟨fun p h => keep_here p (inv.here_ok p h), fun p h => nr p (inv.allowed_ok p h),
         fun p h => nr p (inv.denied_ok p h)⟩

/-- `permits` for `{p, Everyone}` expressed through `scan1` on the nearest ACL -/
theorem permits_cons_some (p perm : Nat) (acl : Acl) (up : Lineage) :
    permits [p, everyone] perm (some acl :: up) =
      match scan1 p perm acl with
      | some x => x == .allow
      | none => permits [p, everyone] perm up := by
  have h1 := decideAt_find [p, everyone] perm (some acl :: up) 0
  have h2 := decideAt_find [p, everyone] perm up 0
  simp only [permits]
  simp only [firstHit, flat, List.find?_append] at h1 h2
  simp only [scan1]
  cases hf : List.find? (·.hits [p, everyone] perm) acl with
  | some a =>
    rw [hf] at h1; simp only [Option.some_or] at h1
    cases hd : decideAt [p, everyone] perm (some acl :: up) 0 with
    | none => rw [hd] at h1; simp at h1
    | some t => rw [hd] at h1; simp at h1; simp [h1]
  | none =>
    rw [hf] at h1; simp only [Option.none_or] at h1
    rw [← h2] at h1
    cases hd : decideAt [p, everyone] perm (some acl :: up) 0 with
    | none =>
      rw [hd] at h1
      cases hd2 : decideAt [p, everyone] perm up 0 with
      | none => simp
      | some t => rw [hd2] at h1; simp at h1
    | some t =>
      rw [hd] at h1
      cases hd2 : decideAt [p, everyone] perm up 0 with
      | none => rw [hd2] at h1; simp at h1
      | some t2 => rw [hd2] at h1; simp at h1; simp [h1]

theorem permits_cons_none (pr : List Nat) (perm : Nat) (up : Lineage) :
    permits pr perm (none :: up) = permits pr perm up := by
  have h1 := decideAt_find pr perm (none :: up) 0
  have h2 := decideAt_find pr perm up 0
  simp only [firstHit, flat] at h1 h2
  rw [← h2] at h1
  simp only [permits]
  cases hd : decideAt pr perm (none :: up) 0 with
  | none =>
    rw [hd] at h1
    cases hd2 : decideAt pr perm up 0 with
    | none => rfl
    | some t => rw [hd2] at h1; simp at h1
  | some t =>
    rw [hd] at h1
    cases hd2 : decideAt pr perm up 0 with
    | none => rw [hd2] at h1; simp at h1
    | some t2 => rw [hd2] at h1; simp at h1; simp [h1]

theorem allowedFrom_sound (perm : Nat) :
    ∀ (down : List (Option Acl)) (up : Lineage) (allowed : List Nat),
      (∀ acl, some acl ∈ down → AclWF acl) →
      (∀ p ∈ allowed, permits [p, everyone] perm up = true) →
      ∀ p ∈ allowedFrom perm down allowed, permits [p, everyone] perm (down.reverse ++ up) = true := by
  intro down
  induction down with
  | nil => intro up allowed _ h p hp; simpa [allowedFrom] using h p (by simpa [allowedFrom] using hp)
  | cons node down ih =>
    intro up allowed wf h p hp
    have wfd : ∀ acl, some acl ∈ down → AclWF acl := fun acl ha => wf acl (List.mem_cons_of_mem _ ha)
    cases node with
    | none =>
      simp only [allowedFrom] at hp
      have := ih (none :: up) allowed wfd
        (by intro q hq; rw [permits_cons_none]; exact h q hq) p hp
      simpa using this
    | some acl =>
      simp only [allowedFrom] at hp
      have st := stepAcl_sound perm acl [] allowed [] [] (wf acl List.mem_cons_self)
        ⟨by simp, by intro q _ x hx; simp [scan1] at hx, by intro q _ x hx; simp [scan1] at hx⟩
      have := ih (some acl :: up)
        ((stepAcl perm acl allowed [] []).1 ++ (stepAcl perm acl allowed [] []).2) wfd
        (by
          intro q hq
          simp only [List.mem_append] at hq
          rw [permits_cons_some]
          rcases hq with hq | hq
          · have ⟨hin, hne⟩ := st.2 q hq
            simp only [List.nil_append] at hne
            cases hs : scan1 q perm acl with
            | none => simpa using h q hin
            | some d => have := hne d hs; subst this; rfl
          · have := st.1 q hq
            simp only [List.nil_append] at this
            simp [this]) p hp
      simpa using this

end Pyr.Acl
