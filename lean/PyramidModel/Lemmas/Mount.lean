/-
X07 — helper lemmas, part 1: codecs (the fuelled UTF-8 decoder is C09's strict decoder; an element written with `wsgiOf`
reads back with `decodeEl`; `wsgiOf` commutes with splitting at '/').
-/
import PyramidModel.Mount
import PyramidModel.Lemmas.MountSpec
import PyramidModel.Lemmas.AuthTktCodec
import PyramidModel.Lemmas.Traversal

namespace Pyr.Mount

open Pyr.AuthTkt (Bytes utf8Enc utf8EncChar utf8Step utf8DecStrict byteOfNat)
open Pyr.Trav (splitOn joinWith)

/-! ### UTF-8 / latin-1 -/

theorem utf8DecF_eq (f : Nat) : ∀ (bs : Bytes), bs.length ≤ f → utf8DecF f bs = utf8DecStrict bs := by
  induction f with
  | zero =>
    intro bs h
    cases bs with
    | nil => simp [utf8DecF, utf8DecStrict]
    | cons b r => simp at h
  | succ f ih =>
    intro bs h
    cases bs with
    | nil => simp [utf8DecF, utf8DecStrict]
    | cons b0 rest =>
      rw [utf8DecStrict, utf8DecF]
      rcases hs : utf8Step b0 rest with ⟨o, k⟩
      cases o with
      | none => rfl
      | some c =>
        have : (rest.drop k).length ≤ f := by
          simp only [List.length_cons] at h
          simp only [List.length_drop]; omega
        simp only [ih _ this]

theorem utf8Dec_eq_strict (bs : Bytes) : utf8Dec bs = utf8DecStrict bs := utf8DecF_eq _ _ (Nat.le_refl _)

theorem utf8Dec_enc (t : Text) : utf8Dec (utf8Enc t) = some t := by
  rw [utf8Dec_eq_strict, AuthTkt.utf8DecStrict_enc]

theorem byte_char_toNat (b : UInt8) : (Char.ofNat b.toNat).toNat = b.toNat := by
  apply AuthTkt.charOfNat_toNat
  have := b.toNat_lt
  unfold Nat.isValidChar; omega

theorem latin1Enc_dec (bs : Bytes) : latin1Enc (latin1Dec bs) = some bs := by
  induction bs with
  | nil => rfl
  | cons b r ih =>
    simp only [latin1Dec, List.map_cons] at ih ⊢
    simp only [latin1Enc, ih, byte_char_toNat, AuthTkt.byteOfNat_toNat]
    have h2 : b.toNat < 256 := b.toNat_lt
    simp [h2]

theorem decodeEl_wsgiOf (x : Text) : decodeEl (wsgiOf x) = .ok x := by
  simp [decodeEl, wsgiOf, latin1Enc_dec, utf8Dec_enc]

theorem wsgiOf_nil : wsgiOf [] = [] := rfl

theorem wsgiOf_append (a b : Text) : wsgiOf (a ++ b) = wsgiOf a ++ wsgiOf b := by
  simp [wsgiOf, latin1Dec, AuthTkt.utf8Enc_append]

theorem wsgiOf_cons (c : Char) (t : Text) : wsgiOf (c :: t) = wsgiOf [c] ++ wsgiOf t := by
  rw [← wsgiOf_append]; rfl

theorem wsgiOf_injective {a b : Text} (h : wsgiOf a = wsgiOf b) : a = b := by
  have := congrArg decodeEl h
  simpa [decodeEl_wsgiOf] using this

/-- an ASCII character is written as itself -/
theorem wsgiOf_ascii (c : Char) (h : c.toNat < 128) : wsgiOf [c] = [c] := by
  simp [wsgiOf, utf8Enc, utf8EncChar, h, latin1Dec, AuthTkt.toNat_byteOfNat (show c.toNat < 256 by omega), Char.ofNat_toNat]

theorem wsgiOf_slash : wsgiOf ['/'] = ['/'] := wsgiOf_ascii '/' (by decide)

/-- every byte of the encoding of a non-ASCII character is ≥ 128 -/
theorem utf8EncChar_high (c : Char) (h : ¬ c.toNat < 128) : ∀ b ∈ utf8EncChar c, 128 ≤ b.toNat := by
  have hv := AuthTkt.char_valid c
  intro b hb
  unfold utf8EncChar at hb
  simp only [h, if_false] at hb
  split at hb
  · simp only [List.mem_cons, List.not_mem_nil, or_false] at hb
    rcases hb with rfl | rfl <;> rw [AuthTkt.toNat_byteOfNat (by omega)] <;> omega
  · split at hb
    · simp only [List.mem_cons, List.not_mem_nil, or_false] at hb
      rcases hb with rfl | rfl | rfl <;> rw [AuthTkt.toNat_byteOfNat (by omega)] <;> omega
    · simp only [List.mem_cons, List.not_mem_nil, or_false] at hb
      rcases hb with rfl | rfl | rfl | rfl <;> rw [AuthTkt.toNat_byteOfNat (by omega)] <;> omega

/-- the writing of a character other than '/' contains no '/' and is not empty -/
theorem wsgiOf_char_no_slash (c : Char) (h : c ≠ '/') : '/' ∉ wsgiOf [c] ∧ wsgiOf [c] ≠ [] := by
  by_cases ha : c.toNat < 128
  · rw [wsgiOf_ascii c ha]; simp [Ne.symm h]
  · constructor
    · intro hm
      simp only [wsgiOf, latin1Dec, utf8Enc, List.flatMap_cons, List.flatMap_nil, List.append_nil, List.mem_map] at hm
      obtain ⟨b, hb, he⟩ := hm
      have := utf8EncChar_high c ha b hb
      have h2 := congrArg Char.toNat he
      rw [byte_char_toNat] at h2
      have : ('/' : Char).toNat = 47 := by decide
      omega
    · intro h0
      have := wsgiOf_injective (h0.trans wsgiOf_nil.symm)
      cases this

theorem wsgiOf_no_slash (x : Text) (h : '/' ∉ x) : '/' ∉ wsgiOf x := by
  induction x with
  | nil => simp [wsgiOf_nil]
  | cons c t ih =>
    rw [wsgiOf_cons]
    simp only [List.mem_cons, not_or] at h
    simp only [List.mem_append, not_or]
    exact ⟨(wsgiOf_char_no_slash c (Ne.symm h.1)).1, ih h.2⟩

theorem wsgiOf_eq_nil {x : Text} : wsgiOf x = [] ↔ x = [] := by
  constructor
  · intro h
    exact wsgiOf_injective (h.trans wsgiOf_nil.symm)
  · rintro rfl; rfl

/-! ### splitting -/

theorem splitOn_exists (sep : Char) (t : Text) : ∃ p ps, splitOn sep t = p :: ps := by
  have := Trav.splitOn_ne_nil sep t
  cases hs : splitOn sep t with
  | nil => exact absurd hs this
  | cons p ps => exact ⟨p, ps, rfl⟩

/-- a stretch without separator in front of a text joins the first piece -/
theorem splitOn_append_nosep (sep : Char) (pre t : Text) (h : sep ∉ pre) (p : Text) (ps : List Text)
    (hs : splitOn sep t = p :: ps) : splitOn sep (pre ++ t) = (pre ++ p) :: ps := by
  induction pre with
  | nil => simpa using hs
  | cons c r ih =>
    simp only [List.mem_cons, not_or] at h
    obtain ⟨p', ps', h1, h2⟩ := Trav.splitOn_cons_ne sep c (r ++ t) (Ne.symm h.1)
    rw [List.cons_append, h2]
    rw [ih h.2] at h1
    injection h1 with h3 h4
    rw [← h3, ← h4]; rfl

/-- writing a text as a WSGI string commutes with splitting at '/' -/
theorem splitOn_wsgiOf (t : Text) : splitOn '/' (wsgiOf t) = (splitOn '/' t).map wsgiOf := by
  induction t with
  | nil => rfl
  | cons c r ih =>
    rw [wsgiOf_cons]
    by_cases hc : c = '/'
    · subst hc
      rw [wsgiOf_slash]
      show splitOn '/' ('/' :: wsgiOf r) = _
      rw [Trav.splitOn_cons_sep, Trav.splitOn_cons_sep, ih]; rfl
    · obtain ⟨p, ps, h1, h2⟩ := Trav.splitOn_cons_ne '/' c r hc
      rw [h2]
      rw [h1] at ih
      rw [splitOn_append_nosep '/' _ _ (wsgiOf_char_no_slash c hc).1 _ _ ih]
      simp only [List.map_cons]
      rw [wsgiOf_cons c p]

end Pyr.Mount
