import PyramidModel.Lemmas.CacheEpoch
/-!
C15 helper lemmas: lookups that overlap a registration which is NOT atomic (the registrar is pre-empted between
its adapter mutations, arbitrarily).  Every such lookup returns a *monotone mix*: slot j was read from the
registrations after the first `k_j` mutations, with `k_1 ≤ k_2 ≤ …` (`MM`).  For the two shapes of registration
`register_view` performs this pins the result down:
* one mutation (first registration, override): the before-scan or the after-scan;
* multiview conversion in the order `register IMultiView; unregister IView; unregister ISecuredView`: the
  before-scan, the after-scan, or the scan of the state in which BOTH the old view and the multiview are registered.
-/
namespace Pyr.Cache

theorem applyMods_append (r : Regs) (a b : Mods) : applyMods r (a ++ b) = applyMods (applyMods r a) b := by
  induction a generalizing r with
  | nil => rfl
  | cons m a ih => obtain ⟨s, v⟩ := m; simp only [List.cons_append, applyMods]; exact ih _

/-- the registrations after the first `k` adapter mutations of `mods` -/
def valAt (r0 : Regs) (mods : Mods) (k : Nat) : Regs := applyMods r0 (mods.take k)

theorem valAt_zero (r0 : Regs) (mods : Mods) : valAt r0 mods 0 = r0 := by simp [valAt, applyMods]

theorem valAt_succ (r0 : Regs) (mods : Mods) (k : Nat) (m : Slot × Option View) (h : mods[k]? = some m) :
    valAt r0 mods (k + 1) = setReg (valAt r0 mods k) m.1 m.2 := by
  unfold valAt
  rw [take_succ_of_get _ _ _ h, applyMods_append]
  obtain ⟨s, v⟩ := m; rfl

/-- `MM r0 mods sl k acc`: `acc` is a scan of `sl` in which every slot was read from `valAt r0 mods kⱼ` with
`k₁ ≤ k₂ ≤ … ≤ k` (`k` = the last one) -/
inductive MM (r0 : Regs) (mods : Mods) : List Slot → Nat → List View → Prop
  | nil (k : Nat) : MM r0 mods [] k []
  | snoc {sl : List Slot} {k : Nat} {acc : List View} (x : Slot) (k' : Nat) :
      MM r0 mods sl k acc → k ≤ k' → MM r0 mods (sl ++ [x]) k' (acc ++ (valAt r0 mods k' x).toList)

theorem MM_of_scan_take (r0 : Regs) (mods : Mods) (sl : List Slot) :
    ∀ i, MM r0 mods (sl.take i) 0 (scan r0 (sl.take i)) := by
  intro i
  induction i with
  | zero => simp only [List.take_zero, scan, List.filterMap_nil]; exact MM.nil 0
  | succ i ih =>
    cases h : sl[i]? with
    | some x =>
      rw [take_succ_of_get _ _ _ h, scan_append, scan_single]
      have := MM.snoc (r0 := r0) (mods := mods) x 0 ih (Nat.le_refl 0)
      rw [valAt_zero] at this
      exact this
    | none =>
      have h1 : sl.take i = sl := take_of_get_none _ _ h
      have h2 : sl.take (i + 1) = sl := by
        apply List.take_of_length_le
        have := List.getElem?_eq_none_iff.mp h
        omega
      rw [h2]; rw [h1] at ih; exact ih

theorem MM_of_scan (r0 : Regs) (mods : Mods) (sl : List Slot) : MM r0 mods sl 0 (scan r0 sl) := by
  have := MM_of_scan_take r0 mods sl sl.length
  rwa [List.take_length] at this

/-! ### the window invariant -/

def MMOk (cfg : Cfg) (r0 : Regs) (mods : Mods) (k : Nat) (t : Thread) : Prop :=
  match t.pc with
  | .scan _ i acc => ∃ k', k' ≤ k ∧ MM r0 mods ((cfg.slots t.q).take i) k' acc
  | .holding _ acc => ∃ k', k' ≤ k ∧ MM r0 mods (cfg.slots t.q) k' acc
  | .written _ acc => ∃ k', k' ≤ k ∧ MM r0 mods (cfg.slots t.q) k' acc
  | .done _ acc => ∃ k', k' ≤ k ∧ MM r0 mods (cfg.slots t.q) k' acc
  | _ => True

theorem MMOk_mono {cfg : Cfg} {r0 : Regs} {mods : Mods} {k k' : Nat} {t : Thread} (h : MMOk cfg r0 mods k t)
    (hk : k ≤ k') : MMOk cfg r0 mods k' t := by
  unfold MMOk at *
  cases hpc : t.pc <;> simp only [hpc] at h ⊢
  all_goals first
    | trivial
    | (obtain ⟨k0, h0, h1⟩ := h; exact ⟨k0, by omega, h1⟩)

/-- state of the machine `k` adapter mutations into the registration `mods` that began in a state with
registrations `r0` and current dict `c0` (and also after its finish, with `k = |mods|`) -/
structure Inv3 (cfg : Cfg) (r0 : Regs) (mods : Mods) (c0 : Nat) (s : St) (k : Nat) : Prop where
  regs : s.regs = valAt r0 mods k
  pend : s.busy = true → s.pending = mods.drop k
  cur : c0 ≤ s.cur
  thr : ∀ t ∈ s.threads, t.pc.ref? = some c0 → MMOk cfg r0 mods k t
  dict : ∀ q v, (s.heap c0).get (cfg.ck q) = some v → ∃ k', k' ≤ k ∧ MM r0 mods (cfg.slots q) k' v

theorem inv3_setPc {cfg : Cfg} {r0 : Regs} {mods : Mods} {c0 : Nat} {s : St} {k : Nat} (h : Inv3 cfg r0 mods c0 s k)
    (tid : Nat) (q : Query) (pc : PC) (hok : pc.ref? = some c0 → MMOk cfg r0 mods k ⟨q, pc⟩) :
    Inv3 cfg r0 mods c0 (setPc s tid q pc) k where
  regs := h.regs
  pend := h.pend
  cur := h.cur
  thr := by
    intro t ht hr
    rcases mem_setPc ht with h1 | h1
    · exact h.thr t h1 hr
    · subst h1; exact hok hr
  dict := h.dict

theorem inv3_lock {cfg : Cfg} {r0 : Regs} {mods : Mods} {c0 : Nat} {s : St} {k : Nat} (h : Inv3 cfg r0 mods c0 s k)
    (l : Option Nat) : Inv3 cfg r0 mods c0 { s with lock := l } k := ⟨h.regs, h.pend, h.cur, h.thr, h.dict⟩

theorem inv3_stepThread {cfg : Cfg} (hkf : cfg.KeyFaithful) {r0 : Regs} {mods : Mods} {c0 : Nat} {s : St} {k : Nat}
    (h : Inv3 cfg r0 mods c0 s k) (tid : Nat) : Inv3 cfg r0 mods c0 (stepThread Proto.good cfg s tid) k := by
  unfold stepThread
  cases hget : s.threads[tid]? with
  | none => exact h
  | some t =>
    have htm : t ∈ s.threads := List.mem_of_getElem? hget
    simp only
    cases hpc : t.pc with
    | start => simp only; exact inv3_setPc h tid t.q _ (by intro _; simp [MMOk])
    | probe c =>
      simp only
      cases hg : (s.heap c).get (cfg.ck t.q) with
      | some v =>
        simp only
        refine inv3_setPc h tid t.q _ ?_
        intro hr
        simp only [PC.ref?, Option.some.injEq] at hr
        subst hr
        simp only [MMOk]
        exact h.dict t.q v hg
      | none =>
        simp only
        refine inv3_setPc h tid t.q _ ?_
        intro _
        simp only [MMOk, List.take_zero]
        exact ⟨0, Nat.zero_le _, MM.nil 0⟩
    | scan c i acc =>
      simp only
      cases hsl : (cfg.slots t.q)[i]? with
      | some sl =>
        simp only
        refine inv3_setPc h tid t.q _ ?_
        intro hr
        simp only [PC.ref?, Option.some.injEq] at hr
        have hp := h.thr t htm (by rw [hpc]; simp only [PC.ref?]; rw [hr])
        simp only [MMOk, hpc] at hp
        obtain ⟨k', hk', hmm⟩ := hp
        simp only [MMOk]
        refine ⟨k, Nat.le_refl _, ?_⟩
        rw [take_succ_of_get _ _ _ hsl, h.regs]
        exact MM.snoc sl k hmm hk'
      | none =>
        simp only [Proto.good, Bool.not_false, Bool.and_true]
        have hfull : (cfg.slots t.q).take i = cfg.slots t.q := take_of_get_none _ _ hsl
        have hmix : t.pc.ref? = some c0 → ∃ k', k' ≤ k ∧ MM r0 mods (cfg.slots t.q) k' acc := by
          intro hr
          have hp := h.thr t htm hr
          simpa only [MMOk, hpc, hfull] using hp
        by_cases he : acc.isEmpty = true
        · simp only [he, if_true]
          refine inv3_setPc h tid t.q _ ?_
          intro hr
          exact hmix (by rw [hpc]; exact hr)
        · simp only [he]
          by_cases hl : s.lock.isNone = true
          · simp only [hl, if_true]
            refine inv3_setPc (inv3_lock h _) tid t.q _ ?_
            intro hr
            exact hmix (by rw [hpc]; exact hr)
          · simp only [hl]
            exact h
    | holding c acc =>
      simp only [Proto.good, if_true]
      have hmix : t.pc.ref? = some c0 → ∃ k', k' ≤ k ∧ MM r0 mods (cfg.slots t.q) k' acc := by
        intro hr
        have hp := h.thr t htm hr
        simpa only [MMOk, hpc] using hp
      have hw : Inv3 cfg r0 mods c0 { s with heap := updHeap s.heap c ((s.heap c).set (cfg.ck t.q) acc) } k := by
        refine ⟨h.regs, h.pend, h.cur, h.thr, ?_⟩
        intro q v hg
        simp only [updHeap] at hg
        by_cases hc : c0 = c
        · simp only [hc, if_true] at hg
          rw [Dict.get_set] at hg
          by_cases hk : cfg.ck q = cfg.ck t.q
          · simp only [hk, if_true] at hg
            have hv : acc = v := Option.some.inj hg
            rw [← hv, hkf q t.q hk]
            exact hmix (by rw [hpc]; simp [PC.ref?, hc])
          · simp only [hk, if_false] at hg
            exact h.dict q v (by rw [hc]; exact hg)
        · simp only [hc, if_false] at hg
          exact h.dict q v hg
      refine inv3_setPc hw tid t.q _ ?_
      intro hr
      exact hmix (by rw [hpc]; exact hr)
    | written c acc =>
      simp only
      refine inv3_setPc (inv3_lock h _) tid t.q _ ?_
      intro hr
      have hp := h.thr t htm (by rw [hpc]; exact hr)
      simpa only [MMOk, hpc] using hp
    | done c v => exact h

theorem inv3_mono {cfg : Cfg} {r0 : Regs} {mods : Mods} {c0 : Nat} {s : St} {k : Nat}
    (h : Inv3 cfg r0 mods c0 s k) (s' : St) (k' : Nat) (hk : k ≤ k') (hregs : s'.regs = valAt r0 mods k')
    (hpend : s'.busy = true → s'.pending = mods.drop k') (hcur : c0 ≤ s'.cur) (hthr : s'.threads = s.threads)
    (hheap : s'.heap c0 = s.heap c0) : Inv3 cfg r0 mods c0 s' k' where
  regs := hregs
  pend := hpend
  cur := hcur
  thr := by intro t ht hr; rw [hthr] at ht; exact MMOk_mono (h.thr t ht hr) hk
  dict := by
    intro q v hg
    rw [hheap] at hg
    obtain ⟨k0, h0, h1⟩ := h.dict q v hg
    exact ⟨k0, by omega, h1⟩

theorem inv3_step {cfg : Cfg} (hkf : cfg.KeyFaithful) {r0 : Regs} {mods : Mods} {c0 : Nat} {s : St} {k : Nat}
    (h : Inv3 cfg r0 mods c0 s k) (l : Lbl) (hl : l.isBegin = false) :
    ∃ k', k ≤ k' ∧ Inv3 cfg r0 mods c0 (step Proto.good cfg s l) k' := by
  cases l with
  | spawn q =>
    refine ⟨k, Nat.le_refl _, ?_⟩
    simp only [step]
    refine ⟨h.regs, h.pend, h.cur, ?_, h.dict⟩
    intro t ht hr
    rcases List.mem_append.mp ht with h1 | h1
    · exact h.thr t h1 hr
    · simp only [List.mem_singleton] at h1; subst h1; simp [PC.ref?] at hr
  | thread tid => exact ⟨k, Nat.le_refl _, inv3_stepThread hkf h tid⟩
  | «begin» m => simp [Lbl.isBegin] at hl
  | modify =>
    simp only [step]
    split
    · next sl v ms hb hp =>
      have hd := h.pend hb
      rw [hp] at hd
      have hget : mods[k]? = some (sl, v) := by
        have := List.getElem?_drop (xs := mods) (i := k) (j := 0)
        rw [← hd] at this
        simpa using this.symm
      have hdrop : mods.drop (k + 1) = ms := by
        have : mods.drop (k + 1) = (mods.drop k).drop 1 := by rw [List.drop_drop]
        rw [this, ← hd]; rfl
      refine ⟨k + 1, Nat.le_succ _, inv3_mono h _ (k + 1) (Nat.le_succ _) ?_ ?_ h.cur rfl rfl⟩
      · show setReg s.regs sl v = _
        rw [valAt_succ r0 mods k (sl, v) hget, h.regs]
      · intro _; exact hdrop.symm
    · exact ⟨k, Nat.le_refl _, h⟩
  | finish =>
    refine ⟨k, Nat.le_refl _, ?_⟩
    simp only [step, Proto.good, Bool.and_self, if_true, swap]
    by_cases hc : (s.busy && s.pending.isEmpty) = true
    · simp only [hc, if_true]
      have hcur := h.cur
      refine inv3_mono h _ k (Nat.le_refl _) h.regs (by intro hb; simp at hb) (by show c0 ≤ s.cur + 1; omega) rfl ?_
      show updHeap s.heap (s.cur + 1) [] c0 = s.heap c0
      simp only [updHeap]
      have : c0 ≠ s.cur + 1 := by omega
      simp [this]
    · simp only [hc]
      exact h

theorem inv3_run {cfg : Cfg} (hkf : cfg.KeyFaithful) {r0 : Regs} {mods : Mods} {c0 : Nat} (sched : List Lbl) :
    ∀ {s : St} {k : Nat}, Inv3 cfg r0 mods c0 s k → (∀ l ∈ sched, l.isBegin = false) →
      ∃ k', k ≤ k' ∧ Inv3 cfg r0 mods c0 (run Proto.good cfg s sched) k' := by
  induction sched with
  | nil => intro s k h _; exact ⟨k, Nat.le_refl _, h⟩
  | cons l ls ih =>
    intro s k h hl
    obtain ⟨k1, hk1, h1⟩ := inv3_step hkf h l (hl l (List.mem_cons_self ..))
    obtain ⟨k2, hk2, h2⟩ := ih h1 (fun x hx => hl x (List.mem_cons_of_mem _ hx))
    simp only [run, List.foldl_cons]
    exact ⟨k2, by omega, h2⟩

/-- the window invariant holds right after `begin mods` in an idle state -/
theorem inv3_after_begin {cfg : Cfg} {s : St} (h : Inv cfg s) (hb : s.busy = false) (mods : Mods) :
    Inv3 cfg s.regs mods s.cur (step Proto.good cfg s (.begin mods)) 0 := by
  have hbeg : step Proto.good cfg s (.begin mods) = { s with busy := true, pending := mods } := by
    simp [step, hb, Proto.good]
  rw [hbeg]
  refine ⟨(valAt_zero _ _).symm, by intro _; simp, Nat.le_refl _, ?_, ?_⟩
  · intro t ht hr
    have hp := h.pcOk hb t ht hr
    unfold MMOk
    cases hpc : t.pc with
    | start => simp
    | probe c => simp
    | scan c i acc =>
      simp only [PcOk, hpc] at hp
      simp only
      exact ⟨0, Nat.le_refl _, by rw [hp]; exact MM_of_scan_take _ _ _ i⟩
    | holding c acc =>
      simp only [PcOk, hpc] at hp; simp only; exact ⟨0, Nat.le_refl _, by rw [hp]; exact MM_of_scan _ _ _⟩
    | written c acc =>
      simp only [PcOk, hpc] at hp; simp only; exact ⟨0, Nat.le_refl _, by rw [hp]; exact MM_of_scan _ _ _⟩
    | done c v =>
      simp only [PcOk, hpc] at hp; simp only; exact ⟨0, Nat.le_refl _, by rw [hp]; exact MM_of_scan _ _ _⟩
  · intro q v hg
    rw [h.dictOk hb q v hg]
    exact ⟨0, Nat.le_refl _, MM_of_scan _ _ _⟩

/-! ### one adapter mutation: before or after -/

theorem scan_snoc (r : Regs) (sl : List Slot) (x : Slot) : scan r (sl ++ [x]) = scan r sl ++ (r x).toList := by
  rw [scan_append, scan_single]

theorem setReg_ne (r : Regs) (s x : Slot) (v : Option View) (h : x ≠ s) : setReg r s v x = r x := by
  simp [setReg, h]

theorem setReg_self (r : Regs) (s : Slot) (v : Option View) : setReg r s v s = v := by simp [setReg]

theorem valAt_single (r0 : Regs) (s : Slot) (v : Option View) (k : Nat) :
    valAt r0 [(s, v)] k = if k = 0 then r0 else setReg r0 s v := by
  cases k with
  | zero => simp [valAt, applyMods]
  | succ k => simp [valAt, applyMods]

/-- a monotone mix over a registration of ONE mutation, scan order without repetition: the before-scan or the
after-scan -/
theorem MM_single (r0 : Regs) (s : Slot) (v : Option View) {sl : List Slot} {k : Nat} {acc : List View}
    (h : MM r0 [(s, v)] sl k acc) (hnd : sl.Nodup) :
    (s ∉ sl → acc = scan r0 sl) ∧ (acc = scan r0 sl ∨ acc = scan (setReg r0 s v) sl) := by
  induction h with
  | nil k => simp [scan]
  | @snoc sl k acc x k' hmm hk ih =>
    have hnd' := List.nodup_append.mp hnd
    have hx : x ∉ sl := fun hm => hnd'.2.2 x hm x (List.mem_singleton.mpr rfl) rfl
    obtain ⟨ih1, ih2⟩ := ih hnd'.1
    by_cases hxs : x = s
    · subst hxs
      have hacc := ih1 hx
      have hsame : scan r0 sl = scan (setReg r0 x v) sl :=
        scan_congr _ _ _ (fun y hy => (setReg_ne r0 x y v (fun e => hx (e ▸ hy))).symm)
      refine ⟨fun hn => absurd (List.mem_append_right _ (List.mem_singleton.mpr rfl)) hn, ?_⟩
      rw [valAt_single]
      by_cases hk0 : k' = 0
      · left; simp only [hk0, if_true]; rw [scan_snoc, hacc]
      · right; simp only [hk0, if_false]; rw [scan_snoc, hacc, hsame]
    · have hval : valAt r0 [(s, v)] k' x = r0 x := by
        rw [valAt_single]; split
        · rfl
        · exact setReg_ne _ _ _ _ hxs
      rw [hval]
      constructor
      · intro hn
        rw [scan_snoc, ih1 (fun hm => hn (List.mem_append_left _ hm))]
      · rcases ih2 with h0 | h1
        · left; rw [scan_snoc, h0]
        · right; rw [scan_snoc, h1, setReg_ne _ _ _ _ hxs]

/-! ### the multiview conversion, register first -/

/-- `register_view`'s multiview branch as it is now: register the multiview under `IMultiView` (slot `sM`), then
unregister `IView` (slot `sV`) and `ISecuredView` (slot `sS`) -/
def conversionMods (sM sV sS : Slot) (mv : View) : Mods := [(sM, some mv), (sV, none), (sS, none)]

/-- … and as it was before commit 7ef5d71: unregister first, register last -/
def oldConversionMods (sM sV sS : Slot) (mv : View) : Mods := [(sV, none), (sS, none), (sM, some mv)]

section Conversion
variable (r0 : Regs) (sM sV sS : Slot) (mv : View)

/-- both the old single view and the multiview registered (the state after the first mutation) -/
def bothRegs : Regs := setReg r0 sM (some mv)

theorem valAt_conv (k : Nat) :
    valAt r0 (conversionMods sM sV sS mv) k =
      if k = 0 then r0 else if k = 1 then bothRegs r0 sM mv
      else if k = 2 then setReg (bothRegs r0 sM mv) sV none
      else setReg (setReg (bothRegs r0 sM mv) sV none) sS none := by
  match k with
  | 0 => simp [valAt, conversionMods, applyMods]
  | 1 => simp [valAt, conversionMods, applyMods, bothRegs]
  | 2 => simp [valAt, conversionMods, applyMods, bothRegs]
  | k + 3 => simp [valAt, conversionMods, applyMods, bothRegs]

theorem applyMods_conv :
    applyMods r0 (conversionMods sM sV sS mv) = setReg (setReg (bothRegs r0 sM mv) sV none) sS none := by
  simp [conversionMods, applyMods, bothRegs]

variable (hMV : sM ≠ sV) (hMS : sM ≠ sS)
include hMV hMS

theorem conv_val_other (k : Nat) (x : Slot) (h1 : x ≠ sM) (h2 : x ≠ sV) (h3 : x ≠ sS) :
    valAt r0 (conversionMods sM sV sS mv) k x = r0 x := by
  rw [valAt_conv]
  split
  · rfl
  · split
    · simp [bothRegs, setReg, h1]
    · split <;> simp [bothRegs, setReg, h1, h2, h3]

theorem conv_val_M (k : Nat) :
    valAt r0 (conversionMods sM sV sS mv) k sM = if k = 0 then r0 sM else some mv := by
  rw [valAt_conv]
  split
  · rfl
  · split
    · simp [bothRegs, setReg]
    · split <;> simp [bothRegs, setReg, hMV, hMS]

/-- a single slot is read as in the before-state, or — only from the second mutation on — as empty -/
theorem conv_val_single (k : Nat) (x : Slot) (hx : x = sV ∨ x = sS) :
    valAt r0 (conversionMods sM sV sS mv) k x = r0 x ∨
      (2 ≤ k ∧ valAt r0 (conversionMods sM sV sS mv) k x = none) := by
  have hxM : x ≠ sM := by
    rcases hx with h | h
    · subst h; exact fun e => hMV e.symm
    · subst h; exact fun e => hMS e.symm
  rw [valAt_conv]
  by_cases h0 : k = 0
  · left; simp [h0]
  · by_cases h1 : k = 1
    · left; simp [h1, bothRegs, setReg, hxM]
    · simp only [h0, h1, if_false]
      by_cases h2 : k = 2
      · simp only [h2, if_true]
        by_cases hxv : x = sV
        · right; exact ⟨Nat.le_refl _, by simp [setReg, hxv]⟩
        · left; simp [setReg, hxv, bothRegs, hxM]
      · right
        refine ⟨by omega, ?_⟩
        simp only [h2, if_false]
        rcases hx with h | h
        · subst h; simp only [setReg]; split <;> simp
        · subst h; simp [setReg]

/-- the after-state of the conversion at the three slots and elsewhere -/
theorem conv_after_M : applyMods r0 (conversionMods sM sV sS mv) sM = some mv := by
  rw [applyMods_conv]; simp [setReg, bothRegs, hMV, hMS]

theorem conv_after_single (x : Slot) (hx : x = sV ∨ x = sS) : applyMods r0 (conversionMods sM sV sS mv) x = none := by
  rw [applyMods_conv]
  rcases hx with h | h
  · subst h; simp only [setReg]; split <;> simp
  · subst h; simp [setReg]

theorem conv_after_other (x : Slot) (h1 : x ≠ sM) (h2 : x ≠ sV) (h3 : x ≠ sS) :
    applyMods r0 (conversionMods sM sV sS mv) x = r0 x := by
  rw [applyMods_conv]; simp [setReg, bothRegs, h1, h2, h3]

/-- the induction hypothesis of `MM_conv`: what a monotone mix over the conversion looks like on a scanned
prefix `sl`, before and after the `IMultiView` slot has been scanned -/
def ConvJ (sl : List Slot) (k : Nat) (acc : List View) : Prop :=
  (sM ∉ sl → (acc = scan r0 sl ∨
      (acc = scan (applyMods r0 (conversionMods sM sV sS mv)) sl ∧ 1 ≤ k ∧
        ∀ x, (x = sV ∨ x = sS) → r0 x ≠ none → x ∈ sl))) ∧
  (sM ∈ sl → (acc = scan r0 sl ∨ acc = scan (bothRegs r0 sM mv) sl ∨
      acc = scan (applyMods r0 (conversionMods sM sV sS mv)) sl))

/-- a monotone mix over the register-first conversion, for a scan order without repetition in which no single
slot (`IView`, `ISecuredView`) comes after the `IMultiView` slot, with at most one single view registered before -/
theorem MM_conv (hone : r0 sV = none ∨ r0 sS = none) {sl : List Slot} {k : Nat} {acc : List View}
    (h : MM r0 (conversionMods sM sV sS mv) sl k acc) (hnd : sl.Nodup)
    (hord : sl.Pairwise (fun a b => a = sM → b ≠ sV ∧ b ≠ sS)) : ConvJ r0 sM sV sS mv sl k acc := by
  induction h with
  | nil k => exact ⟨fun _ => Or.inl (by simp [scan]), fun hm => by simp at hm⟩
  | @snoc sl k acc x k' hmm hk ih =>
    have hnd' := List.nodup_append.mp hnd
    have hord' := List.pairwise_append.mp hord
    have hx : x ∉ sl := fun hm => hnd'.2.2 x hm x (List.mem_singleton.mpr rfl) rfl
    obtain ⟨ih1, ih2⟩ := ih hnd'.1 hord'.1
    have hafterM := conv_after_M r0 sM sV sS mv hMV hMS
    by_cases hxM : x = sM
    · -- the IMultiView slot is scanned now
      subst hxM
      refine ⟨fun hn => absurd (List.mem_append_right _ (List.mem_singleton.mpr rfl)) hn, fun _ => ?_⟩
      have hsame : scan r0 sl = scan (bothRegs r0 x mv) sl :=
        scan_congr _ _ _ (fun y hy => (setReg_ne r0 x y _ (fun e => hx (e ▸ hy))).symm)
      rw [conv_val_M r0 x sV sS mv hMV hMS]
      rcases ih1 hx with h0 | ⟨h3, hk1, _⟩
      · by_cases hk0 : k' = 0
        · left; simp only [hk0, if_true]; rw [scan_snoc, h0]
        · right; left
          simp only [hk0, if_false]
          rw [scan_snoc, h0, hsame]; simp [bothRegs, setReg]
      · right; right
        have : k' ≠ 0 := by omega
        simp only [this, if_false]
        rw [scan_snoc, h3, hafterM]
    · by_cases hxs : x = sV ∨ x = sS
      · -- a single slot is scanned: the IMultiView slot has not been scanned yet
        have hMnot : sM ∉ sl := by
          intro hm
          have := hord'.2.2 sM hm x (List.mem_singleton.mpr rfl) rfl
          rcases hxs with h | h
          · exact this.1 h
          · exact this.2 h
        have hMnot' : sM ∉ sl ++ [x] := by
          intro hm
          rcases List.mem_append.mp hm with h | h
          · exact hMnot h
          · exact hxM (List.mem_singleton.mp h).symm
        refine ⟨fun _ => ?_, fun hm => absurd hm hMnot'⟩
        have hafter := conv_after_single r0 sM sV sS mv hMV hMS x hxs
        rcases ih1 hMnot with h0 | ⟨h3, hk1, hocc⟩
        · rcases conv_val_single r0 sM sV sS mv hMV hMS k' x hxs with hv | ⟨hk2, hv⟩
          · left; rw [hv, scan_snoc, h0]
          · by_cases hrx : r0 x = none
            · left; rw [hv, scan_snoc, h0, hrx]
            · right
              refine ⟨?_, by omega, ?_⟩
              · -- on sl the before- and after-state agree: no IMultiView slot, and the other single slot is empty
                have hagree : scan r0 sl = scan (applyMods r0 (conversionMods sM sV sS mv)) sl := by
                  apply scan_congr
                  intro y hy
                  have hyM : y ≠ sM := fun e => hMnot (e ▸ hy)
                  by_cases hys : y = sV ∨ y = sS
                  · have hyx : y ≠ x := fun e => hx (e ▸ hy)
                    have hy0 : r0 y = none := by
                      rcases hone with h | h <;> rcases hys with hy1 | hy1 <;> rcases hxs with hx1 | hx1
                      all_goals first
                        | (subst hy1; exact h)
                        | (exfalso; subst hy1; subst hx1; exact hyx rfl)
                        | (exfalso; subst hx1; exact hrx h)
                    rw [hy0, conv_after_single r0 sM sV sS mv hMV hMS y hys]
                  · exact (conv_after_other r0 sM sV sS mv hMV hMS y hyM (fun e => hys (Or.inl e)) (fun e => hys (Or.inr e))).symm
                rw [hv, scan_snoc, h0, hagree, hafter]
              · intro y hys hry
                by_cases hyx : y = x
                · subst hyx; exact List.mem_append_right _ (List.mem_singleton.mpr rfl)
                · exfalso
                  rcases hone with h | h <;> rcases hys with hy1 | hy1 <;> rcases hxs with hx1 | hx1
                  all_goals first
                    | (subst hy1; exact hry h)
                    | (subst hy1; subst hx1; exact hyx rfl)
                    | (subst hx1; exact hrx h)
        · -- every registered single slot was scanned already, so this one is empty in every state
          right
          have hrx : r0 x = none := by
            cases hr : r0 x with
            | none => rfl
            | some w => exact absurd (hocc x hxs (by rw [hr]; simp)) hx
          have hv : valAt r0 (conversionMods sM sV sS mv) k' x = none := by
            rcases conv_val_single r0 sM sV sS mv hMV hMS k' x hxs with hv | ⟨_, hv⟩
            · rw [hv, hrx]
            · exact hv
          refine ⟨by rw [hv, scan_snoc, h3, hafter], by omega, fun y hys hry => List.mem_append_left _ (hocc y hys hry)⟩
      · -- any other slot: the same in every state
        have hv := conv_val_other r0 sM sV sS mv hMV hMS k' x hxM (fun e => hxs (Or.inl e)) (fun e => hxs (Or.inr e))
        have ha := conv_after_other r0 sM sV sS mv hMV hMS x hxM (fun e => hxs (Or.inl e)) (fun e => hxs (Or.inr e))
        have hb : bothRegs r0 sM mv x = r0 x := setReg_ne _ _ _ _ hxM
        have hmem : sM ∈ sl ++ [x] ↔ sM ∈ sl := by
          constructor
          · intro hm
            rcases List.mem_append.mp hm with h | h
            · exact h
            · exact absurd (List.mem_singleton.mp h).symm hxM
          · exact fun hm => List.mem_append_left _ hm
        rw [hv]
        constructor
        · intro hn
          rcases ih1 (fun hm => hn (hmem.mpr hm)) with h0 | ⟨h3, hk1, hocc⟩
          · left; rw [scan_snoc, h0]
          · right
            exact ⟨by rw [scan_snoc, h3, ha], by omega, fun y hys hry => List.mem_append_left _ (hocc y hys hry)⟩
        · intro hm
          rcases ih2 (hmem.mp hm) with h0 | h1 | h3
          · left; rw [scan_snoc, h0]
          · right; left; rw [scan_snoc, h1, hb]
          · right; right; rw [scan_snoc, h3, ha]

/-- the three possible results of a lookup overlapping a register-first multiview conversion -/
theorem MM_conv_three (hone : r0 sV = none ∨ r0 sS = none) {sl : List Slot} {k : Nat} {acc : List View}
    (h : MM r0 (conversionMods sM sV sS mv) sl k acc) (hnd : sl.Nodup)
    (hord : sl.Pairwise (fun a b => a = sM → b ≠ sV ∧ b ≠ sS)) :
    acc = scan r0 sl ∨ acc = scan (bothRegs r0 sM mv) sl ∨ acc = scan (applyMods r0 (conversionMods sM sV sS mv)) sl := by
  obtain ⟨h1, h2⟩ := MM_conv r0 sM sV sS mv hMV hMS hone h hnd hord
  by_cases hm : sM ∈ sl
  · exact h2 hm
  · rcases h1 hm with h0 | ⟨h3, _, _⟩
    · exact Or.inl h0
    · exact Or.inr (Or.inr h3)

end Conversion

end Pyr.Cache
