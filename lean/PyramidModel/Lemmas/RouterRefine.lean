import PyramidModel.Lemmas.RouterLookup
import PyramidModel.Lemmas.RouterRoute
import PyramidModel.Props.C02
import PyramidModel.Props.C14
/-! X01 helper lemmas: the excview tween of the composed model against `specFinish` / `specMain` / `specRender`, through
C14's `errorHandler_spec` and C03's `lookup_eq_spec`; `handle_request` up to the lookup against the route and traversal
specs, through `routeStage_eq_spec` and C02's `traverser_no_vroot`. -/
namespace Pyr.Router
open Pyr.ViewLookup
open Pyr.ExcView (Exc Resp clsView clsExc bodyOf excRequest)

theorem excRequest_permitted_swap (r0 : Request) (b : Bool) (e : Exc) (c : List Nat) :
    excRequest { r0 with permitted := b } e c = { excRequest r0 e c with permitted := b } := rfl

theorem allRegs_eq (app : App) : ExcView.allRegs app.world.sec app.stmts = app.regs := rfl

/-- C14's declarative rendering, read with the composed model's per-view verdict, is `specRender` -/
theorem render_eq_spec (app : App) (r0 : Request) (comb : List Nat) (e : Exc) (hc : Coherent app.regs)
    (hw : app.world.ok = true) :
    Final.ofExcept (ExcView.errorHandler app.world app.registry app.stmts
      (excRequest { r0 with permitted := verdict app clsExc (.exc e.sro) (excRequest r0 e comb) } e comb) e []).2.2
      = specRender app r0 comb e := by
  have h := (ExcView.errorHandler_spec app.world app.stmts
    { r0 with permitted := verdict app clsExc (.exc e.sro) (excRequest r0 e comb) } e comb [] hc hw).1
  rw [allRegs_eq] at h
  rw [show app.registry = registerAll app.regs from rfl, h]
  simp only [ExcView.specRender, ExcView.excWinner, excRequest_permitted_swap, allRegs_eq, specRender, specView]
  generalize excRequest r0 e comb = rx
  simp only [candidates_permitted, holds_permitted, verdict_eq app clsExc (.exc e.sro) rx hc]
  cases (candidates app.regs clsExc rx).find? (fun x => x.holds rx) with
  | none =>
    simp only []
    by_cases ha : anyRegistered app.regs clsExc rx = true
    · simp only [ha, if_true]; rfl
    · simp only [ha, Bool.false_eq_true, if_false]; rfl
  | some v =>
    by_cases hs : v.secured = true
    · by_cases hp : app.permits (.exc e.sro) v.tag = true
      · simp only [hs, hp, Bool.true_and, Bool.not_true, Bool.false_eq_true, if_false]
        cases bodyOf app.stmts v.tag <;> rfl
      · simp only [hs, hp, Bool.true_and, Bool.not_false, if_true]
        rfl
    · simp only [hs, Bool.false_and, Bool.false_eq_true, if_false]
      cases bodyOf app.stmts v.tag <;> rfl

/-- an exception that ended `handle_request` early is rendered as the spec says -/
theorem tween_early (app : App) (rq : Req) (a : Attrs) (hooks : List Pipeline.Point) (e : Exc) (hc : Coherent app.regs)
    (hw : app.world.ok = true) :
    tween app rq a hooks (some e) = specFinish app rq a hooks (.error e) := by
  simp only [tween, ExcView.handler, specFinish, render_eq_spec app _ _ e hc hw]

/-- the main lookup with the composed verdict: the body of `specView`'s choice, or what the lookup raises -/
theorem handler_lookup (app : App) (key : CtxKey) (r0 : Request) (hc : Coherent app.regs) :
    ExcView.handler app.world app.registry app.stmts .lookup { r0 with permitted := verdict app clsView key r0 } 0 =
      specMain app key r0 := by
  simp only [ExcView.handler, lookup_with_verdict app clsView key r0 hc, specMain]
  cases specView app clsView key r0 <;> rfl

theorem raisedWhenNoView_present (app : App) (rq : Req) (hp : rq.pathInfo.isSome = true) :
    raisedWhenNoView app rq = app.world.notFound := by
  unfold raisedWhenNoView
  cases h : rq.pathInfo with
  | none => rw [h] at hp; cases hp
  | some _ => rfl

/-- the request reached the lookup (`PATH_INFO` present): the tween does what `specMain` + `specFinish` say -/
theorem tween_lookup (app : App) (rq : Req) (a : Attrs) (hooks : List Pipeline.Point) (hc : Coherent app.regs)
    (hw : app.world.ok = true) (hp : rq.pathInfo.isSome = true) :
    tween app rq a hooks none = specFinish app rq a hooks (specMain app (mainKey a) (record app rq a)) := by
  simp only [tween, raisedWhenNoView_present app rq hp]
  rw [show ({ app.world with notFound := app.world.notFound } : ExcView.World) = app.world from rfl,
    handler_lookup app (mainKey a) (record app rq a) hc]
  cases specMain app (mainKey a) (record app rq a) with
  | ok resp => rfl
  | error e => simp only [specFinish, render_eq_spec app _ _ e hc hw]

/-- `handle_request` after the route stage, then the tween: the reading's steps 2-4 -/
theorem afterRoute_eq_spec (app : App) (rq : Req) (a : Attrs) (d : Option RouteDecl) (hc : Coherent app.regs)
    (hw : app.world.ok = true) (hp : rq.pathInfo.isSome = true) :
    tween app rq (afterRoute app rq a d).1 (afterRoute app rq a d).2.1 (afterRoute app rq a d).2.2
      = specAfterRoute app rq a d := by
  unfold afterRoute specAfterRoute
  cases rootIndex app d with
  | mk ri hook =>
    dsimp only
    cases app.roots[ri]? with
    | none => exact tween_early app rq _ _ _ hc hw
    | some root =>
      dsimp only
      cases root.raises with
      | some e => exact tween_early app rq _ _ _ hc hw
      | none =>
        dsimp only
        rw [Trav.traverser_no_vroot root.tree ⟨rq.pathInfo, none, a.matchdict.map travMatchdict⟩ rfl]
        cases Trav.specTraverser root.tree ⟨rq.pathInfo, none, a.matchdict.map travMatchdict⟩ with
        | error _ => exact tween_early app rq _ _ _ hc hw
        | ok t => exact tween_lookup app rq _ _ hc hw hp

end Pyr.Router
