import PyramidModel.Lemmas.RouterLookup
import PyramidModel.Lemmas.RouterRoute
import PyramidModel.Props.C02
import PyramidModel.Props.C14
/-! X01 helper lemmas: the excview tween of the composed model against `specFinish` / `specMain` / `specRender`, through
C14's `errorHandler_spec` and C03's `lookup_eq_spec`; `handle_request` up to the lookup against the route and traversal
specs, through `routeStage_eq_spec` and C02's `traverser_no_vroot`. -/
namespace Pyr.Router
open Pyr.ViewLookup
open Pyr.ExcView (Exc Resp clsView clsExc bodyOf excRequest)

theorem excRequest_permitted_swap (r0 : Request) (b : Bool) (e : Exc) (c : List Nat) :
    excRequest { r0 with permitted := b } e c = { excRequest r0 e c with permitted := b } := rfl

theorem allRegs_eq (app : App) : ExcView.allRegs app.world.sec app.stmts = app.regs := rfl

/-- C14's declarative rendering, read with the composed model's per-view verdict, is `specRender` -/
theorem render_eq_spec (app : App) (r0 : Request) (comb : List Nat) (e : Exc) (hc : Coherent app.regs)
    (hw : app.world.ok = true) :
    Final.ofExcept (ExcView.errorHandler app.world app.registry app.stmts
      (excRequest { r0 with permitted := verdict app clsExc (.exc e.sro) (excRequest r0 e comb) } e comb) e []).2.2
      = specRender app r0 comb e := by
  have h := (ExcView.errorHandler_spec app.world app.stmts
    { r0 with permitted := verdict app clsExc (.exc e.sro) (excRequest r0 e comb) } e comb [] hc hw).1
  rw [allRegs_eq] at h
  rw [show app.registry = registerAll app.regs from rfl, h]
  simp only [ExcView.specRender, ExcView.excWinner, excRequest_permitted_swap, allRegs_eq, specRender, specView]
  generalize excRequest r0 e comb = rx
  simp only [candidates_permitted, holds_permitted, verdict_eq app clsExc (.exc e.sro) rx hc]
  cases (candidates app.regs clsExc rx).find? (fun x => x.holds rx) with
  | none =>
    simp only []
    by_cases ha : anyRegistered app.regs clsExc rx = true
    · simp only [ha, if_true]; rfl
    · simp only [ha, Bool.false_eq_true, if_false]; rfl
  | some v =>
    by_cases hs : v.secured = true
    · by_cases hp : app.permits (.exc e.sro) v.tag = true
      · simp only [hs, hp, Bool.true_and, Bool.not_true, Bool.false_eq_true, if_false]
        cases bodyOf app.stmts v.tag <;> rfl
      · simp only [hs, hp, Bool.true_and, Bool.not_false, if_true]
        rfl
    · simp only [hs, Bool.false_and, Bool.false_eq_true, if_false]
      cases bodyOf app.stmts v.tag <;> rfl

/-- what the exception view saw (C14's `errorHandler_spec`, second component) is `specSeen` -/
theorem seen_eq_spec (app : App) (r0 : Request) (comb : List Nat) (e : Exc) (hc : Coherent app.regs)
    (hw : app.world.ok = true) :
    (ExcView.errorHandler app.world app.registry app.stmts
      (excRequest { r0 with permitted := verdict app clsExc (.exc e.sro) (excRequest r0 e comb) } e comb) e []).2.1
      = specSeen app r0 comb e := by
  have h := (ExcView.errorHandler_spec app.world app.stmts
    { r0 with permitted := verdict app clsExc (.exc e.sro) (excRequest r0 e comb) } e comb [] hc hw).2.1
  rw [allRegs_eq] at h
  rw [show app.registry = registerAll app.regs from rfl, h]
  simp only [ExcView.specRender, ExcView.excWinner, excRequest_permitted_swap, allRegs_eq, specSeen, specView]
  generalize excRequest r0 e comb = rx
  simp only [candidates_permitted, holds_permitted, verdict_eq app clsExc (.exc e.sro) rx hc]
  cases (candidates app.regs clsExc rx).find? (fun x => x.holds rx) with
  | none =>
    simp only []
    by_cases ha : anyRegistered app.regs clsExc rx = true
    · simp only [ha, if_true]
    · simp only [ha, Bool.false_eq_true, if_false]
  | some v =>
    by_cases hs : v.secured = true
    · by_cases hp : app.permits (.exc e.sro) v.tag = true
      · simp only [hs, hp, Bool.true_and, Bool.not_true, Bool.false_eq_true, if_false]
        cases bodyOf app.stmts v.tag <;> rfl
      · simp only [hs, hp, Bool.true_and, Bool.not_false, if_true]
    · simp only [hs, Bool.false_and, Bool.false_eq_true, if_false]
      cases bodyOf app.stmts v.tag <;> rfl

/-- an exception that ended `handle_request` early is rendered as the spec says -/
theorem tween_early (app : App) (rq : Req) (a : Attrs) (hooks : List Hook) (e : Exc) (hc : Coherent app.regs)
    (hw : app.world.ok = true) :
    tween app rq a hooks (some e) = specFinish app rq a hooks (.error e) := by
  simp only [tween, ExcView.handler, specFinish, render_eq_spec app _ _ e hc hw, seen_eq_spec app _ _ e hc hw]

/-- the main lookup with the composed verdict: the body of `specView`'s choice, or what the lookup raises (`nf` when
nothing is registered) -/
theorem handler_lookup (app : App) (nf : Exc) (key : CtxKey) (r0 : Request) (hc : Coherent app.regs) :
    ExcView.handler { app.world with notFound := nf } app.registry app.stmts .lookup
        { r0 with permitted := verdict app clsView key r0 } 0 = specMain app nf key r0 := by
  simp only [ExcView.handler, lookup_with_verdict app clsView key r0 hc, specMain]
  cases specView app clsView key r0 <;> rfl

theorem raisedWhenNoView_eq (app : App) (rq : Req) : raisedWhenNoView app rq = specNotFound app rq := by
  unfold raisedWhenNoView specNotFound
  cases rq.pathInfo <;> rfl

/-- the request reached the lookup: the tween does what `specMain` + `specFinish` say -/
theorem tween_lookup (app : App) (rq : Req) (a : Attrs) (hooks : List Hook) (hc : Coherent app.regs)
    (hw : app.world.ok = true) :
    tween app rq a hooks none =
      specFinish app rq a hooks (specMain app (specNotFound app rq) (mainKey a) (record app rq a)) := by
  simp only [tween, raisedWhenNoView_eq]
  rw [handler_lookup app (specNotFound app rq) (mainKey a) (record app rq a) hc]
  cases specMain app (specNotFound app rq) (mainKey a) (record app rq a) with
  | ok resp => rfl
  | error e => simp only [specFinish, render_eq_spec app _ _ e hc hw, seen_eq_spec app _ _ e hc hw]

/-- `handle_request` after the route stage, then the tween: the reading's steps 2-4 (no virtual-root header) -/
theorem afterRoute_eq_spec (app : App) (rq : Req) (a : Attrs) (d : Option RouteDecl) (hc : Coherent app.regs)
    (hw : app.world.ok = true) (hv : rq.vroot = none) :
    tween app rq (afterRoute app rq a d).1 (afterRoute app rq a d).2.1 (afterRoute app rq a d).2.2
      = specAfterRoute app rq a d := by
  unfold afterRoute specAfterRoute
  cases rootIndex app d with
  | mk ri hook =>
    dsimp only
    cases app.roots[ri]? with
    | none => exact tween_early app rq _ _ _ hc hw
    | some root =>
      dsimp only
      cases root.raises with
      | some e => exact tween_early app rq _ _ _ hc hw
      | none =>
        dsimp only
        rw [Trav.traverser_no_vroot root.tree ⟨rq.pathInfo, rq.vroot, a.matchdict.map travMatchdict⟩ hv]
        cases Trav.specTraverser root.tree ⟨rq.pathInfo, rq.vroot, a.matchdict.map travMatchdict⟩ with
        | error _ => exact tween_early app rq _ _ _ hc hw
        | ok t => exact tween_lookup app rq _ _ hc hw

/-- two attribute sets that differ at most in `traversed` finish alike up to `traversed` -/
theorem specFinish_erase (app : App) (rq : Req) (a a' : Attrs) (hooks hooks' : List Hook) (main : Except Exc Resp)
    (ha : a.eraseTraversed = a'.eraseTraversed)
    (hh : hooks.map (fun h => (h.1, h.2.eraseTraversed)) = hooks'.map (fun h => (h.1, h.2.eraseTraversed)))
    (hr : record app rq a = record app rq a') (hcomb : a.combinedSro = a'.combinedSro) :
    (specFinish app rq a hooks main).eraseTraversed = (specFinish app rq a' hooks' main).eraseTraversed := by
  cases main with
  | ok resp => simp only [specFinish, Outcome.eraseTraversed, ha, hh]
  | error e => simp only [specFinish, Outcome.eraseTraversed, ha, hh, hr, hcomb]

/-- … and with a virtual-root header: the same up to `traversed` (C02's `traverser_agrees_with_spec`) -/
theorem afterRoute_eq_spec_erased (app : App) (rq : Req) (a : Attrs) (d : Option RouteDecl) (hc : Coherent app.regs)
    (hw : app.world.ok = true) :
    (tween app rq (afterRoute app rq a d).1 (afterRoute app rq a d).2.1 (afterRoute app rq a d).2.2).eraseTraversed
      = (specAfterRoute app rq a d).eraseTraversed := by
  unfold afterRoute specAfterRoute
  cases rootIndex app d with
  | mk ri hook =>
    dsimp only
    cases app.roots[ri]? with
    | none => rw [tween_early app rq _ _ _ hc hw]
    | some root =>
      dsimp only
      cases root.raises with
      | some e => rw [tween_early app rq _ _ _ hc hw]
      | none =>
        dsimp only
        have hag := Trav.traverser_agrees_with_spec root.tree ⟨rq.pathInfo, rq.vroot, a.matchdict.map travMatchdict⟩
        cases hm : Trav.traverser root.tree ⟨rq.pathInfo, rq.vroot, a.matchdict.map travMatchdict⟩ with
        | error x =>
          cases hs : Trav.specTraverser root.tree ⟨rq.pathInfo, rq.vroot, a.matchdict.map travMatchdict⟩ with
          | error y =>
            rw [hm, hs] at hag
            dsimp only at hag
            subst hag
            dsimp only
            rw [tween_early app rq _ _ _ hc hw]
          | ok e => rw [hm, hs] at hag; exact absurd hag (by simp)
        | ok r =>
          cases hs : Trav.specTraverser root.tree ⟨rq.pathInfo, rq.vroot, a.matchdict.map travMatchdict⟩ with
          | error y => rw [hm, hs] at hag; exact absurd hag (by simp)
          | ok e =>
            rw [hm, hs] at hag
            dsimp only at hag ⊢
            obtain ⟨h1, h2, h3, h4, h5, _⟩ := hag
            rw [tween_lookup app rq _ _ hc hw]
            have hr : r = { e with traversed := r.traversed } := by
              cases r; cases e; simp_all
            rw [hr]
            exact specFinish_erase app rq _ _ _ _ _ rfl rfl rfl rfl

end Pyr.Router
