import PyramidModel.Lemmas.ResourceUrlSpec
/-! C07 helper lemmas, part 1: percent-quoting, percent-unquoting (urllib's and WebOb's), UTF-8.
Property theorems are in `Props/C07.lean`. -/
namespace Pyr.ResUrl
open Pyr.Trav

/-! ### bytes, one at a time (finite facts, decided over all 256 bytes) -/

/-- `str.encode('ascii')` of a text known to be ASCII -/
def enc (t : Text) : Bytes := t.map fun c => UInt8.ofNat c.toNat

def keptByte (b : UInt8) : Bool := isUnreserved b || pathSegmentSafe.contains b

theorem byte_eq_ofNat (b : UInt8) : b = UInt8.ofNat b.toNat := by simp

theorem kept_facts_nat : ∀ n, n < 256 → keptByte (UInt8.ofNat n) = true →
    UInt8.ofNat n ≠ 37 ∧ UInt8.ofNat n ≠ 47 ∧ UInt8.ofNat n ≠ 63 ∧ n < 128 ∧
      UInt8.ofNat (Char.ofNat n).toNat = UInt8.ofNat n ∧ (Char.ofNat n).toNat = n := by
  decide +kernel

theorem kept_facts (b : UInt8) (h : keptByte b = true) :
    b ≠ 37 ∧ b ≠ 47 ∧ b ≠ 63 ∧ b.toNat < 128 ∧ UInt8.ofNat (Char.ofNat b.toNat).toNat = b ∧
      (Char.ofNat b.toNat).toNat = b.toNat := by
  have hb := byte_eq_ofNat b
  have := kept_facts_nat b.toNat (UInt8.toNat_lt b) (by rw [← hb]; exact h)
  rw [← hb] at this
  exact this

theorem hex_facts_nat : ∀ n, n < 256 →
    hexVal (UInt8.ofNat (hexDigit (n / 16)).toNat) = some (n / 16) ∧
    hexVal (UInt8.ofNat (hexDigit (n % 16)).toNat) = some (n % 16) ∧
    (hexDigit (n / 16)).toNat < 128 ∧ (hexDigit (n % 16)).toNat < 128 ∧
    hexDigit (n / 16) ≠ '/' ∧ hexDigit (n % 16) ≠ '/' ∧ hexDigit (n / 16) ≠ '?' ∧ hexDigit (n % 16) ≠ '?' ∧
    UInt8.ofNat (16 * (n / 16) + n % 16) = UInt8.ofNat n := by
  decide +kernel

theorem hex_facts (b : UInt8) :
    hexVal (UInt8.ofNat (hexDigit (b.toNat / 16)).toNat) = some (b.toNat / 16) ∧
    hexVal (UInt8.ofNat (hexDigit (b.toNat % 16)).toNat) = some (b.toNat % 16) ∧
    (hexDigit (b.toNat / 16)).toNat < 128 ∧ (hexDigit (b.toNat % 16)).toNat < 128 ∧
    hexDigit (b.toNat / 16) ≠ '/' ∧ hexDigit (b.toNat % 16) ≠ '/' ∧
    hexDigit (b.toNat / 16) ≠ '?' ∧ hexDigit (b.toNat % 16) ≠ '?' ∧
    UInt8.ofNat (16 * (b.toNat / 16) + b.toNat % 16) = b := by
  have := hex_facts_nat b.toNat (UInt8.toNat_lt b)
  rw [← byte_eq_ofNat b] at this
  exact this

/-! ### quoting -/

theorem quoteBytes_cons_kept (b : UInt8) (bs : Bytes) (h : keptByte b = true) :
    quoteBytes pathSegmentSafe (b :: bs) = Char.ofNat b.toNat :: quoteBytes pathSegmentSafe bs := by
  have h' : (isUnreserved b || pathSegmentSafe.contains b) = true := h
  simp only [quoteBytes, h', if_true]

theorem quoteBytes_cons_esc (b : UInt8) (bs : Bytes) (h : keptByte b = false) :
    quoteBytes pathSegmentSafe (b :: bs) =
      '%' :: hexDigit (b.toNat / 16) :: hexDigit (b.toNat % 16) :: quoteBytes pathSegmentSafe bs := by
  have h' : (isUnreserved b || pathSegmentSafe.contains b) = false := h
  simp only [quoteBytes, h']
  simp

/-- every character the quoter emits is ASCII and is neither `/` nor `?` -/
theorem quoteBytes_chars (bs : Bytes) (c : Char) (h : c ∈ quoteBytes pathSegmentSafe bs) :
    c.toNat < 128 ∧ c ≠ '/' ∧ c ≠ '?' := by
  induction bs with
  | nil => simp [quoteBytes] at h
  | cons b bs ih =>
    cases hk : keptByte b with
    | true =>
      rw [quoteBytes_cons_kept b bs hk] at h
      obtain ⟨h1, h2, h3, h4, h5, h6⟩ := kept_facts b hk
      rcases List.mem_cons.mp h with e | m
      · subst e
        refine ⟨by omega, ?_, ?_⟩
        · intro e; apply h2; rw [← h5, e]; decide
        · intro e; apply h3; rw [← h5, e]; decide
      · exact ih m
    | false =>
      rw [quoteBytes_cons_esc b bs hk] at h
      obtain ⟨_, _, g1, g2, g3, g4, g5, g6, _⟩ := hex_facts b
      simp only [List.mem_cons] at h
      rcases h with e | e | e | m
      · subst e; decide
      · subst e; exact ⟨g1, g3, g5⟩
      · subst e; exact ⟨g2, g4, g6⟩
      · exact ih m

theorem quoteSegment_chars (s : Seg) (c : Char) (h : c ∈ quoteSegment s) : c.toNat < 128 ∧ c ≠ '/' ∧ c ≠ '?' :=
  quoteBytes_chars _ c h

theorem slash_not_mem_quoteSegment (s : Seg) : '/' ∉ quoteSegment s :=
  fun h => (quoteSegment_chars s '/' h).2.1 rfl

theorem quoteBytes_ne_nil (bs : Bytes) (h : bs ≠ []) : quoteBytes pathSegmentSafe bs ≠ [] := by
  cases bs with
  | nil => exact absurd rfl h
  | cons b bs =>
    cases hk : keptByte b with
    | true => rw [quoteBytes_cons_kept b bs hk]; simp
    | false => rw [quoteBytes_cons_esc b bs hk]; simp

theorem utf8EncodeChar_ne_nil (c : Char) : String.utf8EncodeChar c ≠ [] := by
  intro h
  have := String.length_utf8EncodeChar c
  rw [h] at this
  have := Char.utf8Size_pos c
  simp at *

theorem utf8Enc_ne_nil (s : Seg) (h : s ≠ []) : utf8Enc s ≠ [] := by
  cases s with
  | nil => exact absurd rfl h
  | cons c cs =>
    simp only [utf8Enc, List.flatMap_cons]
    intro e
    exact utf8EncodeChar_ne_nil c (List.append_eq_nil_iff.mp e).1

theorem quoteSegment_ne_nil (s : Seg) (h : s ≠ []) : quoteSegment s ≠ [] :=
  quoteBytes_ne_nil _ (utf8Enc_ne_nil s h)

theorem quoteSegment_nil : quoteSegment [] = [] := by simp [quoteSegment, utf8Enc, quoteBytes]

/-! ### unquoting: urllib's `unquote_to_bytes` and WebOb's `unquote` agree on what the quoter emits -/

/-- what both unquoters do on input that the quoter produced -/
structure IsUnquoter (U : Bytes → Bytes) : Prop where
  nil : U [] = []
  pass : ∀ a l, a ≠ 37 → U (a :: l) = a :: U l
  esc : ∀ h l r x y, hexVal h = some x → hexVal l = some y → U (37 :: h :: l :: r) = UInt8.ofNat (16 * x + y) :: U r

theorem unquoteToBytes_isUnquoter : IsUnquoter unquoteToBytes where
  nil := by simp [unquoteToBytes]
  pass := by
    intro a l ha
    match l with
    | [] => simp [unquoteToBytes]
    | [b] => simp [unquoteToBytes]
    | b :: c :: rest => simp [unquoteToBytes, ha]
  esc := by
    intro h l r x y hx hy
    simp [unquoteToBytes, hx, hy]

theorem unquoteWebob_isUnquoter : IsUnquoter unquoteWebob where
  nil := by simp [unquoteWebob]
  pass := by
    intro a l ha
    match l with
    | [] => simp [unquoteWebob]
    | [b] => simp [unquoteWebob, ha]
    | b :: c :: rest => simp [unquoteWebob, ha]
  esc := by
    intro h l r x y hx hy
    simp [unquoteWebob, hx, hy]

theorem enc_append (a b : Text) : enc (a ++ b) = enc a ++ enc b := by simp [enc]

theorem enc_cons (c : Char) (t : Text) : enc (c :: t) = UInt8.ofNat c.toNat :: enc t := by simp [enc]

/-- unquoting what the quoter emitted gives the bytes back, whatever follows -/
theorem unquote_quoteBytes {U : Bytes → Bytes} (hU : IsUnquoter U) (bs rest : Bytes) :
    U (enc (quoteBytes pathSegmentSafe bs) ++ rest) = bs ++ U rest := by
  induction bs with
  | nil => simp [quoteBytes, enc]
  | cons b bs ih =>
    cases hk : keptByte b with
    | true =>
      obtain ⟨h1, _, _, _, h5, _⟩ := kept_facts b hk
      rw [quoteBytes_cons_kept b bs hk, enc_cons, h5, List.cons_append, hU.pass b _ h1, ih]
      simp
    | false =>
      obtain ⟨g1, g2, _, _, _, _, _, _, g9⟩ := hex_facts b
      rw [quoteBytes_cons_esc b bs hk, enc_cons, enc_cons, enc_cons]
      have e37 : UInt8.ofNat '%'.toNat = 37 := by decide
      rw [e37]
      simp only [List.cons_append]
      rw [hU.esc _ _ _ _ _ g1 g2, g9, ih]

theorem asciiEncode_of_ascii (t : Text) (h : ∀ c ∈ t, c.toNat < 128) : asciiEncode t = some (enc t) := by
  have : t.all (fun c => decide (c.toNat < 128)) = true := by
    simp only [List.all_eq_true, decide_eq_true_eq]
    exact h
  simp [asciiEncode, this, enc]

/-! ### UTF-8 -/

theorem utf8Dec_utf8Enc (t : Text) : utf8Dec (utf8Enc t) = some t := by
  have h := List.utf8Decode?_utf8Encode (l := t)
  have e : ByteArray.mk (utf8Enc t).toArray = t.utf8Encode := by
    simp only [List.utf8Encode, utf8Enc]
    apply ByteArray.ext
    simp [List.data_toByteArray]
  simp [utf8Dec, e, h]

theorem utf8Enc_append (a b : Text) : utf8Enc (a ++ b) = utf8Enc a ++ utf8Enc b := by
  simp [utf8Enc]

theorem utf8Enc_cons (c : Char) (t : Text) : utf8Enc (c :: t) = String.utf8EncodeChar c ++ utf8Enc t := by
  simp [utf8Enc]

theorem utf8Enc_slash : String.utf8EncodeChar '/' = [47] := by decide

theorem utf8EncodeChar_ascii (c : Char) (h : c.toNat < 128) : String.utf8EncodeChar c = [UInt8.ofNat c.toNat] := by
  have h1 : c.utf8Size = 1 := by
    have hle : c.val ≤ 127 := by
      rw [UInt32.le_iff_toNat_le]
      have : c.val.toNat = c.toNat := rfl
      simp
      omega
    simp [Char.utf8Size, hle]
  rw [String.utf8EncodeChar_eq_singleton h1]
  congr 1

/-- the whole round trip for one segment: quote, ASCII-encode, unquote, UTF-8 decode -/
theorem quoteSegment_roundtrip {U : Bytes → Bytes} (hU : IsUnquoter U) (s : Seg) :
    asciiEncode (quoteSegment s) = some (enc (quoteSegment s)) ∧ U (enc (quoteSegment s)) = utf8Enc s ∧
      utf8Dec (U (enc (quoteSegment s))) = some s := by
  have h1 := asciiEncode_of_ascii (quoteSegment s) (fun c hc => (quoteSegment_chars s c hc).1)
  have h2 : U (enc (quoteSegment s)) = utf8Enc s := by
    have := unquote_quoteBytes hU (utf8Enc s) []
    simpa [quoteSegment, hU.nil] using this
  exact ⟨h1, h2, by rw [h2]; exact utf8Dec_utf8Enc s⟩

/-- hence quoting is injective -/
theorem quoteSegment_injective (s t : Seg) (h : quoteSegment s = quoteSegment t) : s = t := by
  have hs := (quoteSegment_roundtrip unquoteToBytes_isUnquoter s).2.2
  have ht := (quoteSegment_roundtrip unquoteToBytes_isUnquoter t).2.2
  rw [h] at hs
  rw [hs] at ht
  exact Option.some.inj ht

end Pyr.ResUrl
