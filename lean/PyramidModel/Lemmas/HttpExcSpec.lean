/-
C19 — the declarative side: specifications written independently of the model's algorithms.

  * `htmlUnescape`, `entitiesOk`   an HTML character-reference reader / validator (inverse of `htmlEscape`)
  * `fill`, `detok`                 substitution and re-assembly over the token list of a template
  * `Piece`, `specRender`           the rendering as a list of pieces tagged with where each piece came from
  * `readJsonString`, `readJsonObject`   a JSON reader for objects whose members are strings (RFC 8259 subset)
  * `bestForm`                      the arg-max of the q-values over the three forms, ties in server order
Core Lean only (linked into the driver, which prints these next to the model's output).
-/
import PyramidModel.HttpExc

set_option linter.unusedVariables false

namespace Pyr.HttpExc

instance instDecEqExcept {ε α : Type} [DecidableEq ε] [DecidableEq α] : DecidableEq (Except ε α) := fun a b =>
  match a, b with
  | .ok x, .ok y => if h : x = y then isTrue (by rw [h]) else isFalse (fun e => by cases e; exact h rfl)
  | .error x, .error y => if h : x = y then isTrue (by rw [h]) else isFalse (fun e => by cases e; exact h rfl)
  | .ok _, .error _ => isFalse (fun e => by cases e)
  | .error _, .ok _ => isFalse (fun e => by cases e)

/-! ## HTML character references -/

def isDigit (c : Char) : Bool := '0' ≤ c && c ≤ '9'

/-- read decimal digits: value (on top of `acc`) and the rest -/
def readDec : Nat → Text → Nat × Text
  | acc, [] => (acc, [])
  | acc, c :: r => if isDigit c then readDec (acc * 10 + (c.toNat - 48)) r else (acc, c :: r)

theorem readDec_length (acc : Nat) (t : Text) : (readDec acc t).2.length ≤ t.length := by
  induction t generalizing acc with
  | nil => simp [readDec]
  | cons c r ih =>
    simp only [readDec]
    split
    · have := ih (acc * 10 + (c.toNat - 48)); simp only [List.length_cons]; omega
    · simp

/-- `stripPrefix p t = some rest` iff `t = p ++ rest` -/
def stripPrefix : Text → Text → Option Text
  | [], t => some t
  | _ :: _, [] => none
  | p :: ps, c :: t => if p = c then stripPrefix ps t else none

theorem stripPrefix_length {p t rest : Text} (h : stripPrefix p t = some rest) : rest.length + p.length = t.length := by
  induction p generalizing t with
  | nil => simp only [stripPrefix, Option.some.injEq] at h; subst h; simp
  | cons a ps ih =>
    cases t with
    | nil => simp [stripPrefix] at h
    | cons c t =>
      simp only [stripPrefix] at h
      split at h
      · have := ih h; simp only [List.length_cons]; omega
      · cases h

theorem stripPrefix_append (p rest : Text) : stripPrefix p (p ++ rest) = some rest := by
  induction p with
  | nil => simp [stripPrefix]
  | cons a ps ih => simp [stripPrefix, ih]

/-- a decimal character reference body `N;` (after `&#`) for a non-ASCII scalar value `N` -/
def numericRef (r1 : Text) : Option (Char × Text) :=
  match r1 with
  | [] => none
  | d :: _ =>
    if isDigit d then
      match readDec 0 r1 with
      | (n, e :: rest) => if e = ';' ∧ 128 ≤ n ∧ n.isValidChar then some (Char.ofNat n, rest) else none
      | (_, []) => none
    else none

/-- the character reference at the head of `r` (the text after an `&`): the character and the rest.
Known references: `amp; lt; gt; quot; #x27;` and decimal `#N;` for a non-ASCII scalar value `N`. -/
def entity (r : Text) : Option (Char × Text) :=
  match stripPrefix ['a', 'm', 'p', ';'] r with
  | some rest => some ('&', rest)
  | none =>
  match stripPrefix ['l', 't', ';'] r with
  | some rest => some ('<', rest)
  | none =>
  match stripPrefix ['g', 't', ';'] r with
  | some rest => some ('>', rest)
  | none =>
  match stripPrefix ['q', 'u', 'o', 't', ';'] r with
  | some rest => some ('"', rest)
  | none =>
  match stripPrefix ['#', 'x', '2', '7', ';'] r with
  | some rest => some ('\'', rest)
  | none =>
  match stripPrefix ['#'] r with
  | some r1 => numericRef r1
  | none => none

theorem numericRef_length {r : Text} {c : Char} {rest : Text} (h : numericRef r = some (c, rest)) :
    rest.length < r.length := by
  cases r with
  | nil => simp [numericRef] at h
  | cons d r' =>
    simp only [numericRef] at h
    split at h
    · split at h
      · rename_i heq
        split at h
        · simp only [Option.some.injEq, Prod.mk.injEq] at h
          obtain ⟨_, rfl⟩ := h
          have := readDec_length 0 (d :: r')
          rw [heq] at this
          simp only [List.length_cons] at this ⊢
          omega
        · cases h
      · cases h
    · cases h

theorem entity_length {r : Text} {c : Char} {rest : Text} (h : entity r = some (c, rest)) :
    rest.length < r.length := by
  unfold entity at h
  repeat' split at h
  all_goals first
    | (cases h; done)
    | (rename_i hp; simp only [Option.some.injEq, Prod.mk.injEq] at h; obtain ⟨_, rfl⟩ := h
       have := stripPrefix_length hp; simp only [List.length_cons, List.length_nil] at this; omega)
    | (rename_i hp; have h1 := numericRef_length h
       have := stripPrefix_length hp; simp only [List.length_cons, List.length_nil] at this; omega)

/-- replace every known character reference by its character (unknown `&…` stay as they are) -/
def htmlUnescape : Text → Text
  | [] => []
  | c :: r =>
    if c = '&' then
      match h : entity r with
      | some (ch, rest) => ch :: htmlUnescape rest
      | none => c :: htmlUnescape r
    else c :: htmlUnescape r
termination_by t => t.length
decreasing_by
  all_goals simp_wf
  · have := entity_length h; omega

/-- every `&` begins a known character reference -/
def entitiesOk : Text → Bool
  | [] => true
  | c :: r =>
    if c = '&' then
      match h : entity r with
      | some (_, rest) => entitiesOk rest
      | none => false
    else entitiesOk r
termination_by t => t.length
decreasing_by
  all_goals simp_wf
  · have := entity_length h; omega

/-- the characters HTML treats as markup delimiters / attribute quotes -/
def isMeta (c : Char) : Bool := c = '<' || c = '>' || c = '"' || c = '\''

/-! ## templates over tokens -/

/-- substitution over a token list: literals and `$$` are copied, a placeholder is replaced by its WHOLE value,
which is not looked at again -/
def fill (env : Text → Option Text) : List Tok → Except Err Text
  | [] => .ok []
  | .lit c :: ts => (fill env ts).map (c :: ·)
  | .esc :: ts => (fill env ts).map ('$' :: ·)
  | .named n :: ts | .braced n :: ts =>
    match env n with
    | none => .error (.key n)
    | some v => (fill env ts).map (v ++ ·)
  | .invalid _ :: _ => .error .invalid

/-- the source text of a token list -/
def detok : List Tok → Text
  | [] => []
  | .lit c :: ts => c :: detok ts
  | .esc :: ts => '$' :: '$' :: detok ts
  | .named n :: ts => '$' :: (n ++ detok ts)
  | .braced n :: ts => '$' :: '{' :: (n ++ '}' :: detok ts)
  | .invalid r :: _ => r

/-- placeholders a template refers to -/
def tokVars : List Tok → List Text
  | [] => []
  | .named n :: ts | .braced n :: ts => n :: tokVars ts
  | _ :: ts => tokVars ts

def tokValid : List Tok → Bool
  | [] => true
  | .invalid _ :: _ => false
  | _ :: ts => tokValid ts

/-! ## rendering as tagged pieces -/

inductive Origin where
  | pageLit            -- a literal character of the page template (html_template_obj / plain_template_obj)
  | bodyLit            -- a literal character of the body template
  | br                 -- the `br` value (`<br/>` or a newline)
  | commentOpen        -- `<!-- `
  | commentClose       -- ` -->`
  | status             -- self.status
  | user (raw : Text)  -- the rendering of a supplied text: explanation, detail, comment, environ / header value
  | markup (raw : Text) -- what the `__html__` of a markup object returned (inserted verbatim in the HTML form)
deriving Repr, DecidableEq

structure Piece where
  origin : Origin
  text : Text
deriving Repr, DecidableEq

def flattenPieces (ps : List Piece) : Text := ps.flatMap (·.text)

/-- `fill`, with every output character accounted for -/
def fillP (litOrigin : Origin) (env : Text → Option (List Piece)) : List Tok → Except Err (List Piece)
  | [] => .ok []
  | .lit c :: ts => (fillP litOrigin env ts).map (⟨litOrigin, [c]⟩ :: ·)
  | .esc :: ts => (fillP litOrigin env ts).map (⟨litOrigin, ['$']⟩ :: ·)
  | .named n :: ts | .braced n :: ts =>
    match env n with
    | none => .error (.key n)
    | some v => (fillP litOrigin env ts).map (v ++ ·)
  | .invalid _ :: _ => .error .invalid

def lookupLastP (k : Text) : List (Text × List Piece) → Option (List Piece)
  | [] => none
  | (k', v) :: rest =>
    match lookupLastP k rest with
    | some w => some w
    | none => if k' = k then some v else none

def userPiece (f : Form) (raw : Text) : Piece := ⟨.user raw, escapeOf f raw⟩

/-- the piece for a value that may be a markup object -/
def valPiece (f : Form) (raw : Text) (html : Option Text) : Piece :=
  match f, html with
  | .html, some h => ⟨.markup raw, h⟩
  | _, _ => userPiece f raw

def htmlCommentP (f : Form) (comment : Text) (html : Option Text := none) : List Piece :=
  if comment.isEmpty then []
  else match f with
    | .html => [⟨.commentOpen, ['<', '!', '-', '-', ' ']⟩, valPiece .html comment html, ⟨.commentClose, [' ', '-', '-', '>']⟩]
    | _ => [userPiece f comment]

/-- the five standard values of `args`, as pieces -/
def specBase (f : Form) (e : Exc) : List (Text × List Piece) :=
  let comment := orEmpty e.comment
  let commentHtml := orHtml comment e.commentHtml
  [(['b', 'r'], [⟨.br, brOf f⟩]),
   (['e', 'x', 'p', 'l', 'a', 'n', 'a', 't', 'i', 'o', 'n'], [valPiece f e.explanation e.explanationHtml]),
   (['d', 'e', 't', 'a', 'i', 'l'], [valPiece f (orEmpty e.detail) (orHtml (orEmpty e.detail) e.detailHtml)]),
   (['c', 'o', 'm', 'm', 'e', 'n', 't'], [valPiece f comment commentHtml]),
   (['h', 't', 'm', 'l', '_', 'c', 'o', 'm', 'm', 'e', 'n', 't'], htmlCommentP f comment commentHtml)]

/-- the values of `args`, as pieces -/
def specArgs (f : Form) (e : Exc) (environ : List (Text × Text)) : List (Text × List Piece) :=
  if e.custom then
    specBase f e ++ (environ.filter (fun kv => !envKeySkipped kv.1)).map (fun kv => (kv.1, [userPiece f kv.2]))
         ++ e.headers.map (fun kv => (kv.1.map asciiLower, [userPiece f kv.2]))
  else specBase f e

def pageEnvP (status : Text) (body : List Piece) (k : Text) : Option (List Piece) :=
  if k = ['s', 't', 'a', 't', 'u', 's'] then some [⟨.status, status⟩] else if k = ['b', 'o', 'd', 'y'] then some body else none

/-- the body template filled with pieces (for the JSON form this is the `message`) -/
def specBody (f : Form) (e : Exc) (environ : List (Text × Text)) : Except Err (List Piece) :=
  fillP .bodyLit (fun k => lookupLastP k (specArgs f e environ)) (tokenize e.bodyTmpl)

/-- the whole page as pieces (HTML and plain form); for JSON: the pieces of the message -/
def specRender (f : Form) (e : Exc) (environ : List (Text × Text)) : Except Err (List Piece) :=
  match specBody f e environ with
  | .error err => .error err
  | .ok body =>
    match f with
    | .json => .ok body
    | .html => fillP .pageLit (pageEnvP e.status body) (tokenize e.htmlTmpl)
    | .plain => fillP .pageLit (pageEnvP e.status body) (tokenize e.plainTmpl)

/-- executable check used by the driver: every piece that renders supplied text is that text escaped for the
form (HTML: and free of markup characters) -/
def userPiecesClean (f : Form) (ps : List Piece) : Bool :=
  ps.all fun p =>
    match p.origin with
    | .user raw => p.text == escapeOf f raw && (f != .html || (p.text.all (fun c => !isMeta c) && entitiesOk p.text))
    | .markup _ => f == .html
    | _ => true

/-! ## JSON reader (objects whose members are strings) -/

def hexVal (c : Char) : Option Nat :=
  if '0' ≤ c ∧ c ≤ '9' then some (c.toNat - 48)
  else if 'a' ≤ c ∧ c ≤ 'f' then some (c.toNat - 87)
  else if 'A' ≤ c ∧ c ≤ 'F' then some (c.toNat - 55)
  else none

def hex4 (a b c d : Char) : Option Nat :=
  match hexVal a, hexVal b, hexVal c, hexVal d with
  | some x, some y, some z, some w => some (x * 4096 + y * 256 + z * 16 + w)
  | _, _, _, _ => none

/-- `\"  \\  \/  \b  \f  \n  \r  \t` -/
def simpleEsc (x : Char) : Option Char :=
  if x = '"' then some '"' else if x = '\\' then some '\\' else if x = '/' then some '/'
  else if x = 'b' then some (Char.ofNat 8) else if x = 'f' then some (Char.ofNat 12)
  else if x = 'n' then some '\n' else if x = 'r' then some '\r' else if x = 't' then some '\t' else none

/-- after the opening quote: the decoded string and what follows the closing quote.  Strict: raw control
characters, unknown escapes and unpaired surrogates are rejected. -/
def readStrBody : Text → Text → Option (Text × Text)
  | [], _ => none
  | c :: r, acc =>
    if c = '"' then some (acc.reverse, r)
    else if c = '\\' then
      match r with
      | [] => none
      | x :: r1 =>
        if x = 'u' then
          match r1 with
          | a :: b :: c2 :: d :: r2 =>
            match hex4 a b c2 d with
            | none => none
            | some n =>
              if 55296 ≤ n ∧ n < 56320 then
                match r2 with
                | b1 :: u1 :: e :: f :: g :: h :: r3 =>
                  if b1 = '\\' ∧ u1 = 'u' then
                    match hex4 e f g h with
                    | some m =>
                      if 56320 ≤ m ∧ m < 57344 then
                        readStrBody r3 (Char.ofNat (65536 + (n - 55296) * 1024 + (m - 56320)) :: acc)
                      else none
                    | none => none
                  else none
                | _ => none
              else if 56320 ≤ n ∧ n < 57344 then none
              else readStrBody r2 (Char.ofNat n :: acc)
          | _ => none
        else
          match simpleEsc x with
          | some ch => readStrBody r1 (ch :: acc)
          | none => none
    else if c.toNat < 32 then none
    else readStrBody r (c :: acc)
termination_by t _ => t.length
decreasing_by all_goals (simp_wf; try omega)

def skipWs : Text → Text
  | [] => []
  | c :: r => if c = ' ' ∨ c = '\n' ∨ c = '\r' ∨ c = '\t' then skipWs r else c :: r

/-- a JSON string at the head of the text -/
def readJsonString (t : Text) : Option (Text × Text) :=
  match t with
  | c :: r => if c = '"' then readStrBody r [] else none
  | [] => none

theorem readStrBody_length {t acc : Text} {s rest : Text} (h : readStrBody t acc = some (s, rest)) :
    rest.length < t.length := by
  fun_induction readStrBody t acc
  all_goals first
    | (cases h; done)
    | (simp only [Option.some.injEq, Prod.mk.injEq] at h; obtain ⟨_, rfl⟩ := h; simp)
    | (rename_i ih; have := ih h; simp only [List.length_cons] at this ⊢; omega)

theorem skipWs_length (t : Text) : (skipWs t).length ≤ t.length := by
  induction t with
  | nil => simp [skipWs]
  | cons c r ih => simp only [skipWs]; split <;> simp <;> omega

theorem readJsonString_length {t s rest : Text} (h : readJsonString t = some (s, rest)) :
    rest.length < t.length := by
  unfold readJsonString at h
  split at h
  · split at h
    · have := readStrBody_length h; simp; omega
    · cases h
  · cases h

/-- members `"k" : "v" , …` up to the closing brace; nothing but white space may follow -/
def readMembers (t : Text) (acc : List (Text × Text)) : Option (List (Text × Text)) :=
    match h1 : readJsonString t with
    | none => none
    | some (k, r1) =>
      match h2 : skipWs r1 with
      | [] => none
      | c1 :: r2 =>
        if c1 = ':' then
          match h3 : readJsonString (skipWs r2) with
          | none => none
          | some (v, r3) =>
            match h4 : skipWs r3 with
            | [] => none
            | c2 :: r4 =>
              if c2 = ',' then readMembers (skipWs r4) ((k, v) :: acc)
              else if c2 = '}' then (if skipWs r4 = [] then some ((k, v) :: acc).reverse else none)
              else none
        else none
termination_by t.length
decreasing_by
  have a1 := readJsonString_length h1
  have a2 := skipWs_length r1
  have a3 := readJsonString_length h3
  have a4 := skipWs_length r2
  have a5 := skipWs_length r3
  have a6 := skipWs_length r4
  rw [h2] at a2; rw [h4] at a5
  simp only [List.length_cons] at a2 a5
  omega

/-- a JSON text that is one object whose members are all strings -/
def readJsonObject (t : Text) : Option (List (Text × Text)) :=
  match skipWs t with
  | c :: r =>
    if c = '{' then
      match skipWs r with
      | c2 :: r2 => if c2 = '}' then (if skipWs r2 = [] then some [] else none) else readMembers (c2 :: r2) []
      | [] => none
    else none
  | [] => none

/-! ## negotiation spec -/

/-- the best acceptable of HTML, JSON, plain text: the largest q, ties in the order html, json, plain; plain text
when nothing is acceptable -/
def bestForm (q : Text → Nat) : Form :=
  let h := q mimeHtml
  let j := q mimeJson
  let p := q mimePlain
  if h ≠ 0 ∧ j ≤ h ∧ p ≤ h then .html
  else if j ≠ 0 ∧ p ≤ j then .json
  else .plain

end Pyr.HttpExc
