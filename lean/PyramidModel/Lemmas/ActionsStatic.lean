import PyramidModel.Lemmas.ActionsGroup
/-! Helper lemmas for C04, part 3: the machine on programs whose actions add nothing and carry no
thunks runs phase by phase like `specPhases`. -/
namespace Pyr.Actions

def Plain (l : List Act) : Prop := ∀ a ∈ l, a.disc.isPlain = true

theorem eval_plain {d : Disc} (h : d.isPlain = true) (done : List Nat) : d.eval done = d := by
  cases d <;> simp_all [Disc.eval, Disc.isPlain]

theorem undeferAt_plain {l : List Act} (h : Plain l) (done : List Nat) (o : Int) : undeferAt done o l = l := by
  unfold undeferAt
  conv => rhs; rw [← List.map_id l]
  apply List.map_congr_left
  intro a ha
  split
  · rw [eval_plain (h a ha)]; rfl
  · rfl

theorem eraseId_eq_filter {l : List Act} (h : IdsNodup l) (i : Nat) :
    eraseId i l = l.filter (fun a => a.id != i) := by
  induction l with
  | nil => rfl
  | cons a rest ih =>
    simp only [IdsNodup, List.map_cons, List.nodup_cons, List.mem_map, not_exists, not_and] at h
    simp only [eraseId, List.filter_cons]
    by_cases e : a.id = i
    · subst e
      simp only [beq_self_eq_true, if_true, bne_self_eq_false, Bool.false_eq_true, if_false]
      symm
      rw [List.filter_eq_self]
      intro b hb
      simpa using h.1 b hb
    · have : (a.id == i) = false := by simpa using e
      simp only [this, Bool.false_eq_true, if_false, bne, Bool.not_false, if_true]
      congr 1
      exact ih h.2

/-- one `yield` of the queue head followed by running it (it appends nothing) -/
def popSt (a : Act) (q : List Act) (st : St) : St :=
  { st with queue := q, minOrder := some a.order, remaining := eraseId a.id st.remaining, log := a :: st.log, pending := [] }

/-- state after the suspended generator has yielded the whole queue `q` and each action was run
(no action appends anything) -/
def drainSt : List Act → St → St
  | [], st => { st with queue := [] }
  | a :: q, st => drainSt q (popSt a q st)

theorem exec_drain (q : List Act) (f : Nat) (st : St) (hp : st.pending = []) (hq : st.queue = q) :
    exec noKids (q.length + f) st = exec noKids f (drainSt q st) := by
  induction q generalizing st with
  | nil =>
    simp only [List.length_nil, Nat.zero_add, drainSt]
    have : { st with queue := [] } = st := by cases st; simp_all
    rw [this]
  | cons a q ih =>
    have : (a :: q).length + f = (q.length + f) + 1 := by simp; omega
    rw [this]
    simp only [exec]
    have habs : absorb st = st := by simp [absorb, hp]
    rw [habs]
    simp only [next, hq, yieldHead, noKids, drainSt]
    exact ih (popSt a q st) rfl rfl

/-- `min_order` after yielding the queue -/
def lastOrd : List Act → Option Int → Option Int
  | [], m => m
  | a :: q, _ => lastOrd q (some a.order)

theorem lastOrd_const {q : List Act} {o : Int} (h : ∀ x ∈ q, x.order = o) (hne : q ≠ []) (m : Option Int) :
    lastOrd q m = some o := by
  induction q generalizing m with
  | nil => exact absurd rfl hne
  | cons a q ih =>
    simp only [lastOrd]
    cases q with
    | nil => simp [lastOrd, h a (by simp)]
    | cons b q' => exact ih (fun x hx => h x (by simp [hx])) (by simp) _

theorem drainSt_fields (q : List Act) (st : St) (hn : IdsNodup st.remaining) :
    (drainSt q st).queue = [] ∧ (drainSt q st).log = q.reverse ++ st.log ∧
    (drainSt q st).remaining = st.remaining.filter (fun a => !(q.map (·.id)).contains a.id) ∧
    (drainSt q st).pending = (if q = [] then st.pending else []) ∧
    (drainSt q st).minOrder = lastOrd q st.minOrder := by
  induction q generalizing st with
  | nil =>
    simp only [drainSt, List.reverse_nil, List.nil_append, List.map_nil, List.contains_nil, Bool.not_false,
      if_true, lastOrd, true_and]
    exact ⟨(List.filter_eq_self.mpr (fun _ _ => rfl)).symm, trivial⟩
  | cons a q ih =>
    simp only [drainSt]
    have hn' : IdsNodup (popSt a q st).remaining := by
      simp only [popSt]; rw [eraseId_eq_filter hn]; exact hn.filter _
    obtain ⟨h1, h2, h3, h4, h5⟩ := ih (popSt a q st) hn'
    refine ⟨h1, ?_, ?_, ?_, ?_⟩
    · rw [h2]; simp [popSt]
    · rw [h3]; simp only [popSt]; rw [eraseId_eq_filter hn, List.filter_filter]
      apply List.filter_congr
      intro x _
      simp only [List.map_cons, List.contains_cons, Bool.not_or, bne]
      rw [Bool.and_comm]
    · rw [h4]; simp [popSt]
    · rw [h5]; simp [popSt, lastOrd]

end Pyr.Actions

namespace Pyr.Actions

theorem mem_of_filter {p : Act → Bool} {l : List Act} {a : Act} (h : a ∈ l.filter p) : a ∈ l :=
  (List.mem_filter.mp h).1

/-- the actions of order `o` -/
def atOrd (o : Int) (l : List Act) : List Act := l.filter (fun a => a.order == o)

structure SInv (st : St) : Prop where
  pend : st.pending = []
  que : st.queue = []
  nodup : IdsNodup st.remaining
  plain : Plain st.remaining
  noreg : ∀ m, st.minOrder = some m → ∀ y ∈ st.remaining, m ≤ y.order
  below : ∀ x ∈ st.log, ∀ y ∈ st.remaining, x.order < y.order

theorem prevOf_some {L : List Act} {d : Nat} {p : Act} (h : prevOf L d = some p) : p ∈ L ∧ p.key = some d := by
  unfold prevOf at h
  exact ⟨List.mem_of_find?_eq_some h, by simpa using List.find?_some h⟩

/-- the state after the whole lowest phase `o` has been processed -/
def nextSt (st : St) (o : Int) : St :=
  let runs := groupRuns st.log (atOrd o st.remaining)
  { st with remaining := st.remaining.filter (fun a => a.order != o),
            log := runs.reverse ++ st.log,
            minOrder := lastOrd runs st.minOrder }

theorem groupRuns_sub {L g : List Act} {a : Act} (h : a ∈ groupRuns L g) : a ∈ g :=
  (groupRuns_mem.mp h).1

theorem mem_atOrd {o : Int} {l : List Act} {a : Act} : a ∈ atOrd o l ↔ a ∈ l ∧ a.order = o := by
  simp [atOrd, List.mem_filter]

theorem SInv.next {st : St} (h : SInv st) {o : Int} (ho : minOrd st.remaining = some o) : SInv (nextSt st o) := by
  obtain ⟨⟨y0, hy0, hy0o⟩, hmin⟩ := minOrd_spec ho
  have hlt : ∀ y ∈ st.remaining.filter (fun a => a.order != o), o < y.order := by
    intro y hy
    simp only [List.mem_filter, bne_iff_ne, ne_eq] at hy
    have := hmin y hy.1
    omega
  refine ⟨h.pend, h.que, h.nodup.filter _, fun a ha => h.plain a (mem_of_filter ha), ?_, ?_⟩
  · intro m hm y hy
    simp only [nextSt] at hm hy
    by_cases hr : groupRuns st.log (atOrd o st.remaining) = []
    · rw [hr] at hm
      exact h.noreg m hm y (mem_of_filter hy)
    · rw [lastOrd_const (fun x hx => (mem_atOrd.mp (groupRuns_sub hx)).2) hr] at hm
      cases hm
      exact Int.le_of_lt (hlt y hy)
  · intro x hx y hy
    simp only [nextSt, List.mem_append, List.mem_reverse] at hx hy
    rcases hx with hx | hx
    · rw [(mem_atOrd.mp (groupRuns_sub hx)).2]; exact hlt y hy
    · exact h.below x hx y (mem_of_filter hy)

/-- the state after the overridden actions of the lowest phase `o` have been forgotten -/
def keepSt (st : St) (o : Int) : St :=
  { st with remaining := st.remaining.filter (fun a => a.order != o || (groupRuns st.log (atOrd o st.remaining)).contains a) }

theorem advance_succ (n : Nat) (st : St) :
    advance (n + 1) st =
      match minOrd st.remaining with
      | none => (.done, st)
      | some o =>
        match regressAt st.minOrder o with
        | some m => (.regress o m, st)
        | none =>
          match groupStep o st with
          | .error ks => (.conflict ks, st)
          | .ok (out, st') =>
            match out with
            | [] => advance n st'
            | a :: q => yieldHead a q st' := by
  rw [advance]
  rfl

/-- one unfolding of the generator body on a static state, in terms of the declarative notions -/
theorem advance_step {st : St} (h : SInv st) (n : Nat) :
    advance (n + 1) st =
      match minOrd st.remaining with
      | none => (.done, st)
      | some o =>
        match contested st.log (atOrd o st.remaining) with
        | [] =>
          match groupRuns st.log (atOrd o st.remaining) with
          | [] => advance n (keepSt st o)
          | a :: q => yieldHead a q (keepSt st o)
        | k :: ks => (.conflict (k :: ks), st) := by
  rw [advance_succ]
  cases ho : minOrd st.remaining with
  | none => rfl
  | some o =>
    simp only
    have hreg : regressAt st.minOrder o = none := by
      unfold regressAt
      cases hm : st.minOrder with
      | none => rfl
      | some m =>
        obtain ⟨⟨y, hy, hyo⟩, _⟩ := minOrd_spec ho
        have := h.noreg m hm y hy
        have : ¬ o < m := by omega
        simp [this]
    rw [hreg]
    simp only [groupStep, undeferAt_plain h.plain]
    have hn : IdsNodup (atOrd o st.remaining) := h.nodup.filter _
    change (match (match resolveGroup st.log (atOrd o st.remaining) with
      | .error ks => Except.error ks
      | .ok (out, ov) => Except.ok (out, { st with remaining := st.remaining.filter (fun a => !ov.contains a.id) })) with
      | .error ks => _
      | .ok (out, st') => _) = _
    cases hr : resolveGroup st.log (atOrd o st.remaining) with
    | error ks =>
      obtain ⟨hne, _, _, heq⟩ := resolveGroup_error hn hr
      rw [← heq]
      cases ks with
      | nil => exact absurd rfl hne
      | cons k ks => rfl
    | ok r =>
      obtain ⟨out, ov⟩ := r
      obtain ⟨hc, hout, hov⟩ := resolveGroup_ok hn hr
      rw [hc]
      simp only
      have hrem : st.remaining.filter (fun a => !ov.contains a.id) =
          st.remaining.filter (fun a => a.order != o || (groupRuns st.log (atOrd o st.remaining)).contains a) := by
        apply List.filter_congr
        intro a ha
        rw [Bool.eq_iff_iff]
        simp only [Bool.not_eq_true', Bool.or_eq_true, bne_iff_ne, ne_eq, List.contains_iff_mem]
        constructor
        · intro hno
          by_cases e : a.order = o
          · right
            apply Classical.byContradiction
            intro hnr
            have : a.id ∈ ov := (hov a.id).mpr ⟨a, mem_atOrd.mpr ⟨ha, e⟩, rfl, hnr⟩
            rw [← List.contains_iff_mem] at this
            rw [this] at hno; cases hno
          · exact Or.inl e
        · intro hor
          cases hcn : ov.contains a.id with
          | false => rfl
          | true =>
            exfalso
            obtain ⟨x, hx, hxi, hxn⟩ := (hov a.id).mp (List.contains_iff_mem.mp hcn)
            have hxa : x = a := eq_of_id_eq h.nodup (mem_atOrd.mp hx).1 ha hxi
            subst hxa
            rcases hor with hor | hor
            · exact hor (mem_atOrd.mp hx).2
            · exact hxn hor
      rw [hrem]
      subst hout
      rfl

end Pyr.Actions

namespace Pyr.Actions

theorem St_ext {s t : St} (h1 : s.pending = t.pending) (h2 : s.remaining = t.remaining)
    (h3 : s.queue = t.queue) (h4 : s.log = t.log) (h5 : s.minOrder = t.minOrder) : s = t := by
  cases s; cases t; simp_all

theorem length_split (o : Int) (l : List Act) :
    (l.filter (fun a => a.order != o)).length + (atOrd o l).length = l.length := by
  induction l with
  | nil => rfl
  | cons a rest ih =>
    simp only [atOrd, List.filter_cons] at ih ⊢
    by_cases e : a.order = o <;> simp [e] <;> omega

/-- one iteration of the `while True` loop of `execute_actions` with explicit generator fuel -/
def stepFrom (n f : Nat) (st : St) : Outcome × St :=
  match advance n st with
  | (.yielded a, st') => exec noKids f { st' with log := a :: st'.log, pending := [] }
  | (ev, st') => (ev.outcome, st')

theorem exec_succ_static {st : St} (h : SInv st) (f : Nat) :
    exec noKids (f + 1) st = stepFrom (st.remaining.length + 1) f st := by
  have habs : absorb st = st := by simp [absorb, h.pend]
  simp only [exec, habs, next, h.que, stepFrom, noKids]
  rfl

theorem keepSt_nil {st : St} {o : Int} (hr : groupRuns st.log (atOrd o st.remaining) = []) :
    keepSt st o = nextSt st o := by
  apply St_ext <;> simp [keepSt, nextSt, hr, lastOrd]

theorem drain_keepSt {st : St} (h : SInv st) {o : Int} {a : Act} {q : List Act}
    (hr : groupRuns st.log (atOrd o st.remaining) = a :: q) :
    drainSt (a :: q) (keepSt st o) = nextSt st o := by
  have hn : IdsNodup (keepSt st o).remaining := h.nodup.filter _
  obtain ⟨h1, h2, h3, h4, h5⟩ := drainSt_fields (a :: q) (keepSt st o) hn
  apply St_ext
  · rw [h4]; simp [nextSt, h.pend]
  · rw [h3]
    simp only [keepSt, nextSt, List.filter_filter]
    apply List.filter_congr
    intro x hx
    rw [hr, Bool.eq_iff_iff]
    simp only [Bool.and_eq_true, Bool.not_eq_true', Bool.or_eq_true, bne_iff_ne, ne_eq, List.contains_iff_mem]
    constructor
    · rintro ⟨hnot, hor⟩
      rcases hor with hor | hor
      · exact hor
      · exfalso
        have : x.id ∈ (a :: q).map (·.id) := List.mem_map.mpr ⟨x, hor, rfl⟩
        rw [← List.contains_iff_mem] at this
        rw [this] at hnot; cases hnot
    · intro hne
      refine ⟨?_, Or.inl hne⟩
      cases hc : ((a :: q).map (·.id)).contains x.id with
      | false => rfl
      | true =>
        exfalso
        obtain ⟨y, hy, hyi⟩ := List.mem_map.mp (List.contains_iff_mem.mp hc)
        rw [← hr] at hy
        have hyR := mem_atOrd.mp (groupRuns_sub hy)
        have : y = x := eq_of_id_eq h.nodup hyR.1 hx hyi
        subst this
        exact hne hyR.2
  · rw [h1]; simp [nextSt, h.que]
  · rw [h2]; simp [nextSt, keepSt, hr]
  · rw [h5]; simp [nextSt, keepSt, hr]

def Agree (r : Outcome × St) (s : Outcome × List Act) : Prop := r.1 = s.1 ∧ r.2.log = s.2

theorem specPhases_succ (n : Nat) (L R : List Act) :
    specPhases (n + 1) L R =
      match minOrd R with
      | none => (.ok, L)
      | some o =>
        match contested L (atOrd o R) with
        | [] => specPhases n ((groupRuns L (atOrd o R)).reverse ++ L) (R.filter (fun a => a.order != o))
        | k :: ks => (.conflict (k :: ks), L) := by
  rw [specPhases]
  cases minOrd R with
  | none => rfl
  | some o =>
    simp only [atOrd]
    cases contested L (List.filter (fun a => a.order == o) R) <;> rfl

/-- The loop on a static state agrees with the phase specification, for every sufficient fuel. -/
theorem stepFrom_agree : ∀ (k : Nat) (st : St), st.remaining.length = k → SInv st →
    ∀ n f m, k < n → k ≤ f → k < m →
      Agree (stepFrom n f st) (specPhases m st.log st.remaining) := by
  intro k
  induction k using Nat.strongRecOn with
  | _ k ih =>
    intro st hk h n f m hn hf hm
    obtain ⟨n, rfl⟩ : ∃ n', n = n' + 1 := ⟨n - 1, by omega⟩
    obtain ⟨m, rfl⟩ : ∃ m', m = m' + 1 := ⟨m - 1, by omega⟩
    rw [specPhases_succ]
    unfold stepFrom
    rw [advance_step h]
    cases ho : minOrd st.remaining with
    | none => exact ⟨rfl, rfl⟩
    | some o =>
      simp only
      obtain ⟨⟨y, hy, hyo⟩, _⟩ := minOrd_spec ho
      have hgpos : 0 < (atOrd o st.remaining).length :=
        List.length_pos_of_mem (mem_atOrd.mpr ⟨hy, hyo⟩)
      have hsplit := length_split o st.remaining
      have hinv := h.next ho
      have hnr : (nextSt st o).remaining.length = (List.filter (fun a => a.order != o) st.remaining).length := rfl
      have hnl : (nextSt st o).remaining.length < k := by omega
      cases hc : contested st.log (atOrd o st.remaining) with
      | cons k' ks => exact ⟨rfl, rfl⟩
      | nil =>
        simp only
        cases hr : groupRuns st.log (atOrd o st.remaining) with
        | nil =>
          simp only
          rw [keepSt_nil hr]
          have := ih _ hnl (nextSt st o) rfl hinv n f m (by omega) (by omega) (by omega)
          simp only [stepFrom, nextSt, hr, List.reverse_nil, List.nil_append] at this ⊢
          exact this
        | cons a q =>
          simp only [yieldHead]
          have hqle : (a :: q).length ≤ (atOrd o st.remaining).length := by
            rw [← hr]; exact List.length_filter_le _ _
          simp only [List.length_cons] at hqle
          obtain ⟨f', rfl⟩ : ∃ f', f = q.length + f' := ⟨f - q.length, by omega⟩
          have e1 : exec noKids (q.length + f')
              { remaining := eraseId a.id (keepSt st o).remaining, queue := q, log := a :: (keepSt st o).log,
                minOrder := some a.order, pending := [] } = exec noKids f' (drainSt (a :: q) (keepSt st o)) :=
            exec_drain q f' (popSt a q (keepSt st o)) rfl rfl
          rw [e1, drain_keepSt h hr]
          obtain ⟨f'', rfl⟩ : ∃ f'', f' = f'' + 1 := ⟨f' - 1, by omega⟩
          rw [exec_succ_static hinv]
          have := ih _ hnl (nextSt st o) rfl hinv ((nextSt st o).remaining.length + 1) f'' m (by omega) (by omega) (by omega)
          simp only [nextSt, hr] at this ⊢
          exact this

end Pyr.Actions

namespace Pyr.Actions

/-- Static programs: the machine is the phase specification. -/
theorem run_static (top : List Act) (hn : IdsNodup top) (hp : Plain top)
    (fuel : Nat) (hf : top.length < fuel) : run noKids fuel top = specRun top := by
  obtain ⟨f, rfl⟩ : ∃ f, fuel = f + 1 := ⟨fuel - 1, by omega⟩
  let st0 : St := { remaining := top }
  have habs : absorb (initSt top) = st0 := by
    cases top with
    | nil => rfl
    | cons a as => simp [absorb, initSt, st0]
  have hinv : SInv st0 := ⟨rfl, rfl, hn, hp, (by intro m hm; cases hm), (by intro x hx; cases hx)⟩
  have hexec : exec noKids (f + 1) (initSt top) = stepFrom (top.length + 1) f st0 := by
    rw [← exec_succ_static hinv]
    simp only [exec, habs]
    have : absorb st0 = st0 := rfl
    rw [this]
  have := stepFrom_agree top.length st0 rfl hinv (top.length + 1) f (top.length + 1) (by omega) (by omega) (by omega)
  simp only [run, specRun, hexec]
  obtain ⟨h1, h2⟩ := this
  simp only [st0] at h1 h2
  rw [h1, h2]

/-! ### conflict-free programs -/

/-- pairwise distinct discriminators -/
def DistinctKeys (l : List Act) : Prop :=
  ∀ a ∈ l, ∀ b ∈ l, a.key = b.key → a.key ≠ none → a.id = b.id

/-- stable sort by phase, written as selection of the lowest phase (declaration order kept inside) -/
def phaseSortAux : Nat → List Act → List Act
  | 0, _ => []
  | n + 1, R =>
    match minOrd R with
    | none => []
    | some o => atOrd o R ++ phaseSortAux n (R.filter (fun a => a.order != o))

def phaseSort (top : List Act) : List Act := phaseSortAux (top.length + 1) top

theorem groupRuns_all {L g : List Act} (hd : DistinctKeys (L ++ g)) (hn : IdsNodup (L ++ g)) :
    contested L g = [] ∧ groupRuns L g = g := by
  have hprev : ∀ x ∈ g, ∀ d, x.key = some d → prevOf L d = none := by
    intro x hx d hk
    cases hp : prevOf L d with
    | none => rfl
    | some p =>
      exfalso
      obtain ⟨hpL, hpk⟩ := prevOf_some hp
      have hid := hd p (List.mem_append_left _ hpL) x (List.mem_append_right _ hx) (by rw [hpk, hk]) (by rw [hpk]; simp)
      simp only [IdsNodup, List.map_append] at hn
      have := (List.nodup_append.mp hn).2.2 p.id (List.mem_map.mpr ⟨p, hpL, rfl⟩) x.id (List.mem_map.mpr ⟨x, hx, rfl⟩)
      exact this hid
  have hwin : ∀ x ∈ g, ∀ d, x.key = some d → isWinner g x = true := by
    intro x hx d hk
    rw [isWinner_iff hk]
    intro y hy
    left
    have hy' := mem_withKey.mp hy
    exact hd y (List.mem_append_right _ hy'.1) x (List.mem_append_right _ hx) (by rw [hy'.2, hk]) (by rw [hy'.2]; simp)
  constructor
  · simp only [contested, List.filter_eq_nil_iff, Bool.not_eq_true', Bool.not_eq_false]
    intro d hd'
    obtain ⟨a, as, hG⟩ := exists_cons_of_ne_nil (mem_discsOf.mp hd')
    have ha : a ∈ withKey g d := by rw [hG]; simp
    have ha' := mem_withKey.mp ha
    simp only [settled, hprev a ha'.1 d ha'.2, List.any_eq_true]
    exact ⟨a, ha, hwin a ha'.1 d ha'.2⟩
  · simp only [groupRuns]
    rw [List.filter_eq_self]
    intro x hx
    cases hk : x.key with
    | none => rfl
    | some d => simp [hprev x hx d hk, hwin x hx d hk]

/-- with pairwise distinct discriminators the phase specification runs everything, phase by phase -/
theorem specPhases_conflict_free : ∀ (n : Nat) (L R : List Act), DistinctKeys (L ++ R) → IdsNodup (L ++ R) →
    R.length < n → specPhases n L R = (.ok, (phaseSortAux n R).reverse ++ L) := by
  intro n
  induction n with
  | zero => intro L R _ _ h; omega
  | succ n ih =>
    intro L R hd hn hlen
    rw [specPhases_succ]
    simp only [phaseSortAux]
    cases ho : minOrd R with
    | none => simp
    | some o =>
      simp only
      obtain ⟨⟨y, hy, hyo⟩, _⟩ := minOrd_spec ho
      have hsub : ∀ x, x ∈ L ++ atOrd o R → x ∈ L ++ R := by
        intro x hx
        rcases List.mem_append.mp hx with h | h
        · exact List.mem_append_left _ h
        · exact List.mem_append_right _ (mem_atOrd.mp h).1
      have hd1 : DistinctKeys (L ++ atOrd o R) := fun a ha b hb => hd a (hsub a ha) b (hsub b hb)
      have hn1 : IdsNodup (L ++ atOrd o R) :=
        hn.sublist (List.Sublist.append_left List.filter_sublist L)
      obtain ⟨hc, hr⟩ := groupRuns_all hd1 hn1
      rw [hc, hr]
      simp only
      have hgpos : 0 < (atOrd o R).length := List.length_pos_of_mem (mem_atOrd.mpr ⟨hy, hyo⟩)
      have hsplit := length_split o R
      have hperm : ∀ x, x ∈ ((atOrd o R).reverse ++ L) ++ R.filter (fun a => a.order != o) → x ∈ L ++ R := by
        intro x hx
        simp only [List.mem_append, List.mem_reverse] at hx ⊢
        rcases hx with (h | h) | h
        · exact Or.inr (mem_atOrd.mp h).1
        · exact Or.inl h
        · exact Or.inr (mem_of_filter h)
      rw [ih _ _ (fun a ha b hb => hd a (hperm a ha) b (hperm b hb)) ?_ (by omega)]
      · simp
      · -- ids stay distinct: the new arrangement is a permutation of a sublist
        simp only [IdsNodup, List.map_append, List.map_reverse] at hn ⊢
        have hnL := (List.nodup_append.mp hn).1
        have hnR := (List.nodup_append.mp hn).2.1
        have hdis := (List.nodup_append.mp hn).2.2
        rw [List.nodup_append]
        refine ⟨?_, ?_, ?_⟩
        · rw [List.nodup_append]
          refine ⟨(List.reverse_perm _).nodup_iff.mpr (List.Nodup.sublist (List.Sublist.map _ List.filter_sublist) hnR), hnL, ?_⟩
          intro i hi j hj e
          subst e
          rw [List.mem_reverse] at hi
          obtain ⟨x, hx, rfl⟩ := List.mem_map.mp hi
          exact hdis _ hj _ (List.mem_map.mpr ⟨x, (mem_atOrd.mp hx).1, rfl⟩) rfl
        · exact List.Nodup.sublist (List.Sublist.map _ List.filter_sublist) hnR
        · intro i hi j hj e
          subst e
          rcases List.mem_append.mp hi with hi | hi
          · rw [List.mem_reverse] at hi
            obtain ⟨x, hx, rfl⟩ := List.mem_map.mp hi
            obtain ⟨z, hz, hzi⟩ := List.mem_map.mp hj
            have : z = x := eq_of_id_eq (by exact hnR) (mem_of_filter hz) (mem_atOrd.mp hx).1 hzi
            subst this
            have h1 := (mem_atOrd.mp hx).2
            have h2 := (List.mem_filter.mp hz).2
            simp [h1] at h2
          · obtain ⟨z, hz, hzi⟩ := List.mem_map.mp hj
            exact hdis _ hi _ (List.mem_map.mpr ⟨z, mem_of_filter hz, rfl⟩) hzi.symm

end Pyr.Actions

namespace Pyr.Actions

instance (l : List Act) : Decidable (IdsNodup l) := by unfold IdsNodup; exact inferInstance
instance (l : List Act) : Decidable (Plain l) := by unfold Plain; exact inferInstance
instance (l : List Act) : Decidable (DistinctKeys l) := by unfold DistinctKeys; exact inferInstance

end Pyr.Actions
