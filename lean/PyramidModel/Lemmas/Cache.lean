import PyramidModel.Cache
/-!
Helper lemmas for C15 (core Lean only): the association-list dict, the scan spec, and the invariant
`Inv` of the machine under the protocol as designed (`Proto.good`), preserved by every step of every
schedule.
-/
namespace Pyr.Cache

/-! ### dict -/

theorem Dict.get_nil (k : Key) : Dict.get [] k = none := rfl

theorem Dict.get_cons (k' : Key) (v' : List View) (d : Dict) (k : Key) :
    Dict.get ((k', v') :: d) k = if k = k' then some v' else Dict.get d k := by
  simp only [Dict.get, List.lookup]
  by_cases h : k = k'
  · simp [h]
  · have : (k == k') = false := by simp [h]
    simp [this, h]

theorem Dict.get_set_same (d : Dict) (k : Key) (v : List View) : (Dict.set d k v).get k = some v := by
  induction d with
  | nil => simp [Dict.set, Dict.get_cons]
  | cons e d ih =>
    obtain ⟨k', v'⟩ := e
    simp only [Dict.set]
    by_cases h : k' = k
    · simp [h, Dict.get_cons]
    · have h' : k ≠ k' := fun x => h x.symm
      simp [h, h', Dict.get_cons, ih]

theorem Dict.get_set_other (d : Dict) (k k' : Key) (v : List View) (hk : k' ≠ k) :
    (Dict.set d k v).get k' = d.get k' := by
  induction d with
  | nil => simp [Dict.set, Dict.get_cons, hk, Dict.get_nil]
  | cons e d ih =>
    obtain ⟨k0, v0⟩ := e
    simp only [Dict.set]
    by_cases h : k0 = k
    · subst h
      simp [Dict.get_cons, hk]
    · simp [h, Dict.get_cons, ih]

theorem Dict.get_set (d : Dict) (k k' : Key) (v : List View) :
    (Dict.set d k v).get k' = if k' = k then some v else d.get k' := by
  by_cases h : k' = k
  · subst h; simp [Dict.get_set_same]
  · simp [h, Dict.get_set_other _ _ _ _ h]

theorem Dict.keys_set (d : Dict) (k : Key) (v : List View) :
    ∀ x, x ∈ (Dict.set d k v).keys ↔ x = k ∨ x ∈ d.keys := by
  induction d with
  | nil => intro x; simp [Dict.set, Dict.keys]
  | cons e d ih =>
    obtain ⟨k0, v0⟩ := e
    intro x
    simp only [Dict.set]
    by_cases h : k0 = k
    · subst h; simp [Dict.keys]
    · have := ih x
      simp only [Dict.keys] at this
      simp [h, Dict.keys, this]
      constructor
      · rintro (h1 | h1 | h1)
        · exact Or.inr (Or.inl h1)
        · exact Or.inl h1
        · exact Or.inr (Or.inr h1)
      · rintro (h1 | h1 | h1)
        · exact Or.inr (Or.inl h1)
        · exact Or.inl h1
        · exact Or.inr (Or.inr h1)

theorem Dict.keys_nodup_set (d : Dict) (k : Key) (v : List View) (h : d.keys.Nodup) :
    (Dict.set d k v).keys.Nodup := by
  induction d with
  | nil => simp [Dict.set, Dict.keys]
  | cons e d ih =>
    obtain ⟨k0, v0⟩ := e
    simp only [Dict.set]
    by_cases hk : k0 = k
    · subst hk
      simpa [Dict.keys] using h
    · simp only [hk, if_false]
      have h' : k0 ∉ Dict.keys d ∧ (Dict.keys d).Nodup := by simpa [Dict.keys] using h
      have hmem := Dict.keys_set d k v k0
      have : (Dict.keys ((k0, v0) :: Dict.set d k v)) = k0 :: (Dict.set d k v).keys := rfl
      rw [this, List.nodup_cons]
      refine ⟨?_, ih h'.2⟩
      intro hx
      rcases (hmem.mp hx) with h1 | h1
      · exact hk h1
      · exact h'.1 h1

theorem Dict.mem_keys_of_get {d : Dict} {k : Key} {v : List View} (h : d.get k = some v) : k ∈ d.keys := by
  induction d with
  | nil => simp [Dict.get_nil] at h
  | cons e d ih =>
    obtain ⟨k0, v0⟩ := e
    rw [Dict.get_cons] at h
    by_cases hk : k = k0
    · subst hk; simp [Dict.keys]
    · simp only [hk, if_false] at h
      have := ih h
      simp only [Dict.keys] at this ⊢
      exact List.mem_cons_of_mem _ this

theorem Dict.get_of_mem_keys {d : Dict} {k : Key} (h : k ∈ d.keys) : ∃ v, d.get k = some v := by
  induction d with
  | nil => simp [Dict.keys] at h
  | cons e d ih =>
    obtain ⟨k0, v0⟩ := e
    rw [Dict.get_cons]
    by_cases hk : k = k0
    · exact ⟨v0, by simp [hk]⟩
    · simp only [hk, if_false]
      apply ih
      simp only [Dict.keys, List.map_cons, List.mem_cons] at h
      rcases h with h1 | h1
      · exact absurd h1 hk
      · exact h1

theorem Dict.length_keys (d : Dict) : d.keys.length = d.length := by simp [Dict.keys]

theorem Dict.length_set_le (d : Dict) (k : Key) (v : List View) :
    (Dict.set d k v).length ≤ d.length + 1 := by
  induction d with
  | nil => simp [Dict.set]
  | cons e d ih =>
    obtain ⟨k0, v0⟩ := e
    simp only [Dict.set]
    by_cases hk : k0 = k
    · simp [hk]
    · simp [hk]; omega

/-- a duplicate-free list contained in another is not longer -/
theorem nodup_subset_length_le {α} [DecidableEq α] :
    ∀ (l m : List α), l.Nodup → (∀ x ∈ l, x ∈ m) → l.length ≤ m.length := by
  intro l
  induction l with
  | nil => intro m _ _; simp
  | cons a l ih =>
    intro m hn hs
    have hn' := List.nodup_cons.mp hn
    have ha : a ∈ m := hs a (List.mem_cons_self ..)
    have hsub : ∀ x ∈ l, x ∈ m.erase a := by
      intro x hx
      have hxa : x ≠ a := fun e => hn'.1 (e ▸ hx)
      exact (List.mem_erase_of_ne hxa).mpr (hs x (List.mem_cons_of_mem _ hx))
    have := ih (m.erase a) hn'.2 hsub
    rw [List.length_erase_of_mem ha] at this
    have hpos : 0 < m.length := List.length_pos_of_mem ha
    simp only [List.length_cons]
    omega

/-! ### the scan spec -/

theorem scan_append (r : Regs) (a b : List Slot) : scan r (a ++ b) = scan r a ++ scan r b := by
  simp [scan, List.filterMap_append]

theorem scan_single (r : Regs) (x : Slot) : scan r [x] = (r x).toList := by
  simp only [scan, List.filterMap_cons, List.filterMap_nil]
  cases r x <;> rfl

theorem take_succ_of_get {α} (l : List α) (i : Nat) (x : α) (h : l[i]? = some x) :
    l.take (i + 1) = l.take i ++ [x] := by
  rw [List.take_add_one, h]; rfl

theorem take_of_get_none {α} (l : List α) (i : Nat) (h : l[i]? = none) : l.take i = l := by
  apply List.take_of_length_le
  exact List.getElem?_eq_none_iff.mp h

theorem scan_take_succ (r : Regs) (l : List Slot) (i : Nat) (x : Slot) (h : l[i]? = some x) :
    scan r (l.take (i + 1)) = scan r (l.take i) ++ (r x).toList := by
  rw [take_succ_of_get l i x h, scan_append, scan_single]

/-- registrations that agree on the scanned slots give the same scan -/
theorem scan_congr (r r' : Regs) (l : List Slot) (h : ∀ x ∈ l, r x = r' x) : scan r l = scan r' l := by
  induction l with
  | nil => rfl
  | cons a l ih =>
    have ha := h a (List.mem_cons_self ..)
    have := ih (fun x hx => h x (List.mem_cons_of_mem _ hx))
    simp only [scan, List.filterMap_cons] at this ⊢
    rw [ha, this]

/-! ### the invariant -/

/-- what a thread that holds a reference to the CURRENT dict has computed so far is consistent with the
current registrations (prefix-consistent partial scan; finished scans and results are the spec) -/
def PcOk (cfg : Cfg) (r : Regs) (t : Thread) : Prop :=
  match t.pc with
  | .scan _ i acc => acc = scan r ((cfg.slots t.q).take i)
  | .holding _ acc => acc = scan r (cfg.slots t.q)
  | .written _ acc => acc = scan r (cfg.slots t.q)
  | .done _ v => v = scan r (cfg.slots t.q)
  | _ => True

/-- a thread in the critical section carries a non-empty list -/
def HoldOk (t : Thread) : Prop :=
  match t.pc with
  | .holding _ acc => acc ≠ []
  | .written _ acc => acc ≠ []
  | _ => True

structure Inv (cfg : Cfg) (s : St) : Prop where
  /-- no thread holds a reference to a dict that was not yet allocated -/
  refs : ∀ t ∈ s.threads, ∀ c, t.pc.ref? = some c → c ≤ s.cur
  /-- when no registration is pending, every entry of the CURRENT dict is the spec scan of the current registrations -/
  dictOk : s.busy = false → ∀ q v, (s.heap s.cur).get (cfg.ck q) = some v → v = scan s.regs (cfg.slots q)
  /-- … and every in-flight lookup holding the current dict is prefix-consistent -/
  pcOk : s.busy = false → ∀ t ∈ s.threads, t.pc.ref? = some s.cur → PcOk cfg s.regs t
  holdOk : ∀ t ∈ s.threads, HoldOk t
  /-- no dict ever holds an empty list (misses are not cached) -/
  nonempty : ∀ c k v, (s.heap c).get k = some v → v ≠ []
  /-- dict keys are distinct -/
  nodup : ∀ c, (s.heap c).keys.Nodup
  /-- every dict key is the cache key of some query -/
  keyOf : ∀ c k, k ∈ (s.heap c).keys → ∃ q, cfg.ck q = k

theorem inv_init (cfg : Cfg) (r : Regs) : Inv cfg (init r) where
  refs := by intro t ht; simp [init] at ht
  dictOk := by intro _ q v h; simp [init, Dict.get_nil] at h
  pcOk := by intro _ t ht; simp [init] at ht
  holdOk := by intro t ht; simp [init] at ht
  nonempty := by intro c k v h; simp [init, Dict.get_nil] at h
  nodup := by intro c; simp [init, Dict.keys]
  keyOf := by intro c k h; simp [init, Dict.keys] at h

theorem mem_setPc {s : St} {tid : Nat} {q : Query} {pc : PC} {t : Thread}
    (h : t ∈ (setPc s tid q pc).threads) : t ∈ s.threads ∨ t = ⟨q, pc⟩ :=
  List.mem_or_eq_of_mem_set h

/-- replacing the program counter of one thread preserves the invariant when the new counter meets its
own obligations (shared state untouched) -/
theorem inv_setPc {cfg : Cfg} {s : St} (h : Inv cfg s) (tid : Nat) (q : Query) (pc : PC)
    (href : ∀ c, pc.ref? = some c → c ≤ s.cur)
    (hok : s.busy = false → pc.ref? = some s.cur → PcOk cfg s.regs ⟨q, pc⟩)
    (hho : HoldOk ⟨q, pc⟩) : Inv cfg (setPc s tid q pc) where
  refs := by
    intro t ht
    rcases mem_setPc ht with h1 | h1
    · exact h.refs t h1
    · subst h1; exact href
  dictOk := h.dictOk
  pcOk := by
    intro hb t ht hr
    rcases mem_setPc ht with h1 | h1
    · exact h.pcOk hb t h1 hr
    · subst h1; exact hok hb hr
  holdOk := by
    intro t ht
    rcases mem_setPc ht with h1 | h1
    · exact h.holdOk t h1
    · subst h1; exact hho
  nonempty := h.nonempty
  nodup := h.nodup
  keyOf := h.keyOf

theorem inv_lock {cfg : Cfg} {s : St} (h : Inv cfg s) (l : Option Nat) : Inv cfg { s with lock := l } :=
  ⟨h.refs, h.dictOk, h.pcOk, h.holdOk, h.nonempty, h.nodup, h.keyOf⟩

/-- the write step: the thread's list goes into the dict it holds -/
theorem inv_write {cfg : Cfg} (hkf : cfg.KeyFaithful) {s : St} (h : Inv cfg s) (t : Thread) (ht : t ∈ s.threads)
    (c : Nat) (acc : List View) (hpc : t.pc = .holding c acc) :
    Inv cfg { s with heap := updHeap s.heap c ((s.heap c).set (cfg.ck t.q) acc) } where
  refs := h.refs
  dictOk := by
    intro hb q v hg
    simp only [updHeap] at hg
    by_cases hc : s.cur = c
    · simp only [hc, if_true] at hg
      rw [Dict.get_set] at hg
      by_cases hk : cfg.ck q = cfg.ck t.q
      · simp only [hk, if_true] at hg
        have hv : acc = v := Option.some.inj hg
        have hp := h.pcOk hb t ht (by rw [hpc]; simp [PC.ref?, hc])
        simp only [PcOk, hpc] at hp
        rw [← hv, hp, hkf q t.q hk]
      · simp only [hk, if_false] at hg
        exact h.dictOk hb q v (by rw [hc]; exact hg)
    · simp only [hc, if_false] at hg
      exact h.dictOk hb q v hg
  pcOk := h.pcOk
  holdOk := h.holdOk
  nonempty := by
    intro c' k v hg
    simp only [updHeap] at hg
    by_cases hc : c' = c
    · simp only [hc, if_true] at hg
      rw [Dict.get_set] at hg
      by_cases hk : k = cfg.ck t.q
      · simp only [hk, if_true] at hg
        have hv : acc = v := Option.some.inj hg
        have := h.holdOk t ht
        simp only [HoldOk, hpc] at this
        exact hv ▸ this
      · simp only [hk, if_false] at hg
        exact h.nonempty c k v hg
    · simp only [hc, if_false] at hg
      exact h.nonempty c' k v hg
  nodup := by
    intro c'
    simp only [updHeap]
    by_cases hc : c' = c
    · simp only [hc, if_true]
      exact Dict.keys_nodup_set _ _ _ (h.nodup c)
    · simp only [hc, if_false]
      exact h.nodup c'
  keyOf := by
    intro c' k hk
    simp only [updHeap] at hk
    by_cases hc : c' = c
    · simp only [hc, if_true] at hk
      rcases (Dict.keys_set _ _ _ k).mp hk with h1 | h1
      · exact ⟨t.q, h1.symm⟩
      · exact h.keyOf c k h1
    · simp only [hc, if_false] at hk
      exact h.keyOf c' k hk

/-- one step of a lookup thread preserves the invariant -/
theorem inv_stepThread {cfg : Cfg} (hkf : cfg.KeyFaithful) {s : St} (h : Inv cfg s) (tid : Nat) :
    Inv cfg (stepThread Proto.good cfg s tid) := by
  unfold stepThread
  cases hget : s.threads[tid]? with
  | none => exact h
  | some t =>
    have htm : t ∈ s.threads := List.mem_of_getElem? hget
    simp only
    cases hpc : t.pc with
    | start =>
      simp only
      exact inv_setPc h tid t.q _ (by intro c hc; simp [PC.ref?] at hc; omega)
        (by intro _ _; simp [PcOk]) (by simp [HoldOk])
    | probe c =>
      simp only
      have hc : c ≤ s.cur := h.refs t htm c (by rw [hpc]; rfl)
      cases hg : (s.heap c).get (cfg.ck t.q) with
      | some v =>
        simp only
        refine inv_setPc h tid t.q _ (by intro c' hc'; simp [PC.ref?] at hc'; omega) ?_ (by simp [HoldOk])
        intro hb hr
        simp only [PC.ref?, Option.some.injEq] at hr
        subst hr
        simp only [PcOk]
        exact h.dictOk hb t.q v hg
      | none =>
        simp only
        exact inv_setPc h tid t.q _ (by intro c' hc'; simp [PC.ref?] at hc'; omega)
          (by intro _ _; simp [PcOk, scan]) (by simp [HoldOk])
    | scan c i acc =>
      simp only
      have hc : c ≤ s.cur := h.refs t htm c (by rw [hpc]; rfl)
      cases hsl : (cfg.slots t.q)[i]? with
      | some sl =>
        simp only
        refine inv_setPc h tid t.q _ (by intro c' hc'; simp [PC.ref?] at hc'; omega) ?_ (by simp [HoldOk])
        intro hb hr
        simp only [PC.ref?, Option.some.injEq] at hr
        have hp := h.pcOk hb t htm (by rw [hpc]; simp [PC.ref?, hr])
        simp only [PcOk, hpc] at hp
        simp only [PcOk]
        rw [scan_take_succ _ _ _ _ hsl, hp]
      | none =>
        simp only [Proto.good, Bool.not_false, Bool.and_true]
        have hfull : (cfg.slots t.q).take i = cfg.slots t.q := take_of_get_none _ _ hsl
        by_cases he : acc.isEmpty = true
        · simp only [he, if_true]
          refine inv_setPc h tid t.q _ (by intro c' hc'; simp [PC.ref?] at hc'; omega) ?_ (by simp [HoldOk])
          intro hb hr
          simp only [PC.ref?, Option.some.injEq] at hr
          have hp := h.pcOk hb t htm (by rw [hpc]; simp [PC.ref?, hr])
          simp only [PcOk, hpc, hfull] at hp
          simpa [PcOk] using hp
        · simp only [he]
          by_cases hl : s.lock.isNone = true
          · simp only [hl, if_true]
            refine inv_setPc (inv_lock h (some tid)) tid t.q _ (by intro c' hc'; simp [PC.ref?] at hc'; show c' ≤ s.cur; omega) ?_ ?_
            · intro hb hr
              simp only [PC.ref?, Option.some.injEq] at hr
              have hp := h.pcOk hb t htm (by rw [hpc]; simp only [PC.ref?]; rw [hr])
              simp only [PcOk, hpc, hfull] at hp
              simpa [PcOk] using hp
            · simp only [HoldOk]
              intro hnil
              exact he (by simp [hnil])
          · simp only [hl]
            exact h
    | holding c acc =>
      simp only [Proto.good, if_true]
      have hc : c ≤ s.cur := h.refs t htm c (by rw [hpc]; rfl)
      have hw := inv_write hkf h t htm c acc hpc
      refine inv_setPc hw tid t.q _ (by intro c' hc'; simp [PC.ref?] at hc'; show c' ≤ s.cur; omega) ?_ ?_
      · intro hb hr
        simp only [PC.ref?, Option.some.injEq] at hr
        have hp := h.pcOk hb t htm (by rw [hpc]; simp only [PC.ref?]; rw [hr])
        simp only [PcOk, hpc] at hp
        simpa [PcOk] using hp
      · have := h.holdOk t htm
        simp only [HoldOk, hpc] at this
        simpa [HoldOk] using this
    | written c acc =>
      simp only
      have hc : c ≤ s.cur := h.refs t htm c (by rw [hpc]; rfl)
      refine inv_setPc (inv_lock h none) tid t.q _ (by intro c' hc'; simp [PC.ref?] at hc'; show c' ≤ s.cur; omega) ?_ (by simp [HoldOk])
      intro hb hr
      simp only [PC.ref?, Option.some.injEq] at hr
      have hp := h.pcOk hb t htm (by rw [hpc]; simp only [PC.ref?]; rw [hr])
      simp only [PcOk, hpc] at hp
      simpa [PcOk] using hp
    | done c v => exact h

/-- the swap: a fresh, empty dict nobody holds a reference to becomes current; the registrar is done -/
theorem inv_finish_swap {cfg : Cfg} {s : St} (h : Inv cfg s) :
    Inv cfg { s with cur := s.cur + 1, heap := updHeap s.heap (s.cur + 1) [], busy := false } where
  refs := by
    intro t ht c hc
    have := h.refs t ht c hc
    show c ≤ s.cur + 1
    omega
  dictOk := by
    intro _ q v hg
    simp [updHeap, Dict.get_nil] at hg
  pcOk := by
    intro _ t ht hr
    have := h.refs t ht (s.cur + 1) hr
    omega
  holdOk := h.holdOk
  nonempty := by
    intro c k v hg
    simp only [updHeap] at hg
    by_cases hc : c = s.cur + 1
    · simp [hc, Dict.get_nil] at hg
    · simp only [hc, if_false] at hg
      exact h.nonempty c k v hg
  nodup := by
    intro c
    simp only [updHeap]
    by_cases hc : c = s.cur + 1
    · simp [hc, Dict.keys]
    · simp only [hc, if_false]
      exact h.nodup c
  keyOf := by
    intro c k hk
    simp only [updHeap] at hk
    by_cases hc : c = s.cur + 1
    · simp [hc, Dict.keys] at hk
    · simp only [hc, if_false] at hk
      exact h.keyOf c k hk

/-- while the registrar is busy the quiescent clauses are vacuous: any change of registrations is allowed -/
theorem inv_busy {cfg : Cfg} {s : St} (h : Inv cfg s) (r : Regs) (p : Mods) :
    Inv cfg { s with regs := r, pending := p, busy := true } where
  refs := h.refs
  dictOk := by intro hb; simp at hb
  pcOk := by intro hb; simp at hb
  holdOk := h.holdOk
  nonempty := h.nonempty
  nodup := h.nodup
  keyOf := h.keyOf

/-- every step of the machine preserves the invariant (protocol as designed) -/
theorem inv_step {cfg : Cfg} (hkf : cfg.KeyFaithful) {s : St} (h : Inv cfg s) (l : Lbl) :
    Inv cfg (step Proto.good cfg s l) := by
  cases l with
  | spawn q =>
    simp only [step]
    exact {
      refs := by
        intro t ht
        rcases List.mem_append.mp ht with h1 | h1
        · exact h.refs t h1
        · simp only [List.mem_singleton] at h1; subst h1; intro c hc; simp [PC.ref?] at hc
      dictOk := h.dictOk
      pcOk := by
        intro hb t ht hr
        rcases List.mem_append.mp ht with h1 | h1
        · exact h.pcOk hb t h1 hr
        · simp only [List.mem_singleton] at h1; subst h1; simp [PC.ref?] at hr
      holdOk := by
        intro t ht
        rcases List.mem_append.mp ht with h1 | h1
        · exact h.holdOk t h1
        · simp only [List.mem_singleton] at h1; subst h1; simp [HoldOk]
      nonempty := h.nonempty
      nodup := h.nodup
      keyOf := h.keyOf }
  | thread tid => exact inv_stepThread hkf h tid
  | «begin» mods =>
    simp only [step, Proto.good, Bool.not_true, Bool.and_false]
    by_cases hb : s.busy = true
    · simp only [hb, if_true]; exact h
    · simp only [hb]
      exact inv_busy h s.regs mods
  | modify =>
    simp only [step]
    split
    · next sl v ms hb hp =>
      exact inv_busy h _ _ |> fun x => by simpa [hb] using x
    · exact h
  | finish =>
    simp only [step, Proto.good, Bool.and_self, if_true, swap]
    by_cases hc : (s.busy && s.pending.isEmpty) = true
    · simp only [hc, if_true]
      exact inv_finish_swap h
    · simp only [hc]
      exact h

theorem inv_run {cfg : Cfg} (hkf : cfg.KeyFaithful) (sched : List Lbl) :
    ∀ {s : St}, Inv cfg s → Inv cfg (run Proto.good cfg s sched) := by
  induction sched with
  | nil => intro s h; exact h
  | cons l ls ih =>
    intro s h
    simp only [run, List.foldl_cons]
    exact ih (inv_step hkf h l)

end Pyr.Cache
