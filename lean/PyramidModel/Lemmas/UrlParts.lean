import PyramidModel.Lemmas.UrlQuery
/-
Helper lemmas for C17, part 3: extra elements, the override rules, and the grammar of every generated part.
-/
namespace Pyr.Url
open Pyr Pyr.Trav Pyr.Pct

/-! ### extra path elements -/

/-- the slash byte is not in the set, so a quoted text has no `/` -/
theorem slash_not_mem_quote (safe : List UInt8) (h : safe.contains 47 = false) (t : Text) : '/' ∉ quote safe t := by
  unfold quote
  apply not_mem_quoteBytes
  · decide
  · decide
  · intro b hb e
    have h1 := congrArg Char.toNat e
    rw [byteChar_toNat] at h1
    have : b = 47 := UInt8.toNat_inj.mp (by simpa using h1.symm)
    subst this
    have : safe.contains 47 = true := by simpa using hb
    rw [h] at this; exact absurd this (by decide)

theorem mapM_unquote_quote (safe : List UInt8) (hs : SafeOk safe) (es : List Text) :
    (es.map (quote safe)).mapM unquote = some es := by
  induction es with
  | nil => simp
  | cons x r ih => simp [List.mapM_cons, unquote_quote safe hs x, ih]

/-- the last `n` segments of `a/` followed by `n` quoted elements joined by `/` decode to the elements -/
theorem lastSegments_joined (safe : List UInt8) (hs : SafeOk safe) (h47 : safe.contains 47 = false)
    (a : Text) (es : List Text) (hes : es ≠ []) :
    lastSegments (a ++ '/' :: joinWith '/' (es.map (quote safe))) es.length = some es := by
  unfold lastSegments
  have hne : es.map (quote safe) ≠ [] := by simpa using hes
  have hno : ∀ s ∈ es.map (quote safe), '/' ∉ s := by
    intro s hs'
    obtain ⟨x, _, e⟩ := List.mem_map.mp hs'
    subst e; exact slash_not_mem_quote safe h47 x
  rw [splitOn_append_sep, splitOn_joinWith '/' _ hne hno]
  simp only [List.length_append, List.length_map, Nat.add_sub_cancel]
  rw [List.drop_left]
  exact mapM_unquote_quote safe hs es

theorem endsWithSlash_iff (p : Text) (h : endsWithSlash p = true) : ∃ a, p = a ++ ['/'] := by
  unfold endsWithSlash at h
  have h' : p.getLast? = some '/' := by simpa using h
  refine ⟨p.dropLast, ?_⟩
  cases hp : p with
  | nil => rw [hp] at h'; simp at h'
  | cons c r =>
    rw [hp] at h'
    have hne : c :: r ≠ [] := by simp
    have hl : (c :: r).getLast hne = '/' := by
      rw [List.getLast?_eq_some_getLast hne] at h'
      exact Option.some.inj h'
    rw [← hl]
    exact (List.dropLast_concat_getLast hne).symm

/-! ### scheme / host / port overrides: the code computes the declarative priority list -/

theorem cut_fst_of_none (sep : Char) (t : Text) (h : (cut sep t).2 = none) : (cut sep t).1 = t := by
  induction t with
  | nil => rfl
  | cons c r ih =>
    unfold cut at h ⊢
    split
    · rename_i hc; simp [hc] at h
    · rename_i hc; simp only [hc, if_false] at h; simp [ih h]

theorem partialParts_eq_wanted (e : Env) (scheme host port : Option Text) :
    partialParts e scheme host port = wanted e scheme host port := by
  have hne : sHttps ≠ sHttp := by decide
  have hne' : sHttp ≠ sHttps := by decide
  have h1 : p443 ≠ p80 := by decide
  unfold partialParts wanted effPort defaultPort
  dsimp only
  generalize splitHostPort (effHostText e host) = C at *
  obtain ⟨a, ob⟩ := C
  cases ob with
  | none =>
    cases scheme with
    | none =>
      cases port <;> simp only [Option.getD, Option.bind] <;>
        (by_cases e1 : e.scheme = sHttps
         · simp [e1, eq_comm]
         · by_cases e2 : e.scheme = sHttp
           · simp [e1, e2, hne', eq_comm]
           · simp [e1, e2])
    | some s =>
      cases port <;> simp only [Option.getD, Option.bind] <;>
        (by_cases e1 : s = sHttps
         · simp [e1, hne, eq_comm]
         · by_cases e2 : s = sHttp
           · simp [e1, e2, hne', eq_comm]
           · simp [e1, e2])
  | some b =>
    cases scheme with
    | none =>
      cases port <;> simp only [Option.getD, Option.bind] <;>
        (by_cases e1 : e.scheme = sHttps
         · simp [e1, eq_comm]
         · by_cases e2 : e.scheme = sHttp
           · simp [e1, e2, hne', eq_comm]
           · simp [e1, e2])
    | some s =>
      cases port <;> simp only [Option.getD, Option.bind] <;>
        (by_cases e1 : s = sHttps
         · simp [e1, hne, eq_comm]
         · by_cases e2 : s = sHttp
           · simp [e1, e2, hne', eq_comm]
           · simp [e1, e2])

end Pyr.Url
