import PyramidModel.Dotted
import PyramidModel.Lemmas.Dotted
/-! X09: idempotence of the zope-style walk — a successful resolution, repeated in the state it left, finds every segment by
getattr alone. -/
namespace Pyr.Dotted

theorem callImport_loaded_mono (U : Univ) (p : Path) (st : St) (x : Path) (hx : x ∈ st.loaded) :
    x ∈ (callImport U p st).2.loaded := by
  unfold callImport
  exact importPath_loaded_mono U p _ x hx

theorem walk_loaded_mono (U : Univ) (found : Obj) (used ns : Path) (st : St) (x : Path) (hx : x ∈ st.loaded) :
    x ∈ (walk U found used ns st).2.loaded := by
  induction ns generalizing found used st with
  | nil => exact hx
  | cons n ns ih =>
    unfold walk
    split
    · exact ih _ _ _ hx
    · split
      · rename_i e st1 hi
        have := callImport_loaded_mono U (used ++ [n]) st x hx
        rw [hi] at this; exact this
      · rename_i st1 hi
        have h1 := callImport_loaded_mono U (used ++ [n]) st x hx
        rw [hi] at h1
        split
        · exact ih _ _ _ h1
        · exact h1

/-- getattr on a plain object does not depend on what is imported -/
theorem getattr_att (U : Univ) (L L' : List Path) (i : Nat) (n : Seg) : getattr U L (.att i) n = getattr U L' (.att i) n := rfl

theorem getattr_att_is_att (U : Univ) (L : List Path) (i : Nat) (n : Seg) (o : Obj) (h : getattr U L (.att i) n = some o) :
    ∃ j, o = .att j := by
  simp only [getattr, Option.map_eq_some_iff] at h
  obtain ⟨j, _, hj⟩ := h
  exact ⟨j, hj.symm⟩

/-- below a plain object a successful walk imports nothing -/
theorem walk_att_ok (U : Univ) (i : Nat) (used ns : Path) (st st1 : St) (o : Obj)
    (h : walk U (.att i) used ns st = (.ok o, st1)) : st1 = st := by
  induction ns generalizing i used with
  | nil => simp only [walk, Prod.mk.injEq] at h; exact h.2.symm
  | cons n ns ih =>
    unfold walk at h
    split at h
    · rename_i o' hg
      obtain ⟨j, hj⟩ := getattr_att_is_att U _ i n o' hg
      subst hj
      exact ih j _ h
    · rename_i hg
      split at h
      · simp at h
      · rename_i sA hi
        rw [getattr_att U sA.loaded st.loaded i n, hg] at h
        simp at h

theorem walk_step_attr' (U : Univ) (found o : Obj) (used ns : Path) (n : Seg) (st : St)
    (h : getattr U st.loaded found n = some o) : walk U found used (n :: ns) st = walk U o (used ++ [n]) ns st := by
  simp [walk, h]

/-- zope-style walk, idempotence: if the walk succeeded and left `st1`, then in ANY state with the same loaded modules every
segment is found by getattr: same object, no call, no import -/
theorem walk_idem (U : Univ) (found : Obj) (used ns : Path) (st st1 : St) (o : Obj)
    (h : walk U found used ns st = (.ok o, st1)) (st2 : St) (h2 : st2.loaded = st1.loaded) :
    walk U found used ns st2 = (.ok o, st2) := by
  induction ns generalizing found used st with
  | nil =>
    simp only [walk, Prod.mk.injEq, Except.ok.injEq] at h
    simp [walk, h.1]
  | cons n ns ih =>
    have hmono : ∀ x, x ∈ st.loaded → x ∈ st1.loaded := by
      intro x hx
      have := walk_loaded_mono U found used (n :: ns) st x hx
      rw [h] at this; exact this
    unfold walk at h
    split at h
    · rename_i o' hg
      -- getattr succeeded at once
      have hg2 : getattr U st2.loaded found n = some o' := by
        rw [h2]
        cases found with
        | att i => exact hg
        | mod p =>
          simp only [getattr] at hg ⊢
          by_cases hin : (p ++ [n]) ∈ st.loaded
          · rw [if_pos hin] at hg
            rw [if_pos (hmono _ hin)]; exact hg
          · rw [if_neg hin] at hg
            obtain ⟨j, hj1, hj2⟩ := Option.map_eq_some_iff.mp hg
            subst hj2
            have := walk_att_ok U j _ ns st st1 o h
            rw [this, if_neg hin]; exact hg
      rw [walk_step_attr' U found o' used ns n st2 hg2]
      exact ih o' _ st h
    · rename_i hg
      split at h
      · simp at h
      · rename_i sA hi
        split at h
        · rename_i o' hgA
          have hmonoA : ∀ x, x ∈ sA.loaded → x ∈ st1.loaded := by
            intro x hx
            have := walk_loaded_mono U o' (used ++ [n]) ns sA x hx
            rw [h] at this; exact this
          have hg2 : getattr U st2.loaded found n = some o' := by
            rw [h2]
            cases found with
            | att i => rw [getattr_att U sA.loaded st.loaded i n, hg] at hgA; cases hgA
            | mod p =>
              simp only [getattr] at hg hgA ⊢
              by_cases hinA : (p ++ [n]) ∈ sA.loaded
              · rw [if_pos hinA] at hgA
                rw [if_pos (hmonoA _ hinA)]; exact hgA
              · rw [if_neg hinA] at hgA
                by_cases hin : (p ++ [n]) ∈ st.loaded
                · rw [if_pos hin] at hg; cases hg
                · rw [if_neg hin] at hg; rw [hg] at hgA; cases hgA
          rw [walk_step_attr' U found o' used ns n st2 hg2]
          exact ih o' _ sA h
        · simp at h

/-- the object a successful walk returns is the one reached by getattr along the segments in the state the walk leaves -/
theorem walk_ok_getattrs (U : Univ) (found : Obj) (used ns : Path) (st st1 : St) (o : Obj)
    (h : walk U found used ns st = (.ok o, st1)) (st2 : St) (h2 : st2.loaded = st1.loaded) :
    getattrs U st2.loaded found ns = some o := by
  induction ns generalizing found used st with
  | nil =>
    simp only [walk, Prod.mk.injEq, Except.ok.injEq] at h
    simp [getattrs, h.1]
  | cons n ns ih =>
    have hmono : ∀ x, x ∈ st.loaded → x ∈ st1.loaded := by
      intro x hx
      have := walk_loaded_mono U found used (n :: ns) st x hx
      rw [h] at this; exact this
    unfold walk at h
    split at h
    · rename_i o' hg
      -- getattr succeeded at once
      have hg2 : getattr U st2.loaded found n = some o' := by
        rw [h2]
        cases found with
        | att i => exact hg
        | mod p =>
          simp only [getattr] at hg ⊢
          by_cases hin : (p ++ [n]) ∈ st.loaded
          · rw [if_pos hin] at hg
            rw [if_pos (hmono _ hin)]; exact hg
          · rw [if_neg hin] at hg
            obtain ⟨j, hj1, hj2⟩ := Option.map_eq_some_iff.mp hg
            subst hj2
            have := walk_att_ok U j _ ns st st1 o h
            rw [this, if_neg hin]; exact hg
      simp only [getattrs, hg2]
      exact ih o' _ st h
    · rename_i hg
      split at h
      · simp at h
      · rename_i sA hi
        split at h
        · rename_i o' hgA
          have hmonoA : ∀ x, x ∈ sA.loaded → x ∈ st1.loaded := by
            intro x hx
            have := walk_loaded_mono U o' (used ++ [n]) ns sA x hx
            rw [h] at this; exact this
          have hg2 : getattr U st2.loaded found n = some o' := by
            rw [h2]
            cases found with
            | att i => rw [getattr_att U sA.loaded st.loaded i n, hg] at hgA; cases hgA
            | mod p =>
              simp only [getattr] at hg hgA ⊢
              by_cases hinA : (p ++ [n]) ∈ sA.loaded
              · rw [if_pos hinA] at hgA
                rw [if_pos (hmonoA _ hinA)]; exact hgA
              · rw [if_neg hinA] at hgA
                by_cases hin : (p ++ [n]) ∈ st.loaded
                · rw [if_pos hin] at hg; cases hg
                · rw [if_neg hin] at hg; rw [hg] at hgA; cases hgA
          simp only [getattrs, hg2]
          exact ih o' _ sA h
        · simp at h

theorem importPath_single_loaded (U : Univ) (u : Seg) (st sA : St) (h : importPath U [u] st = (none, sA)) :
    [u] ∈ sA.loaded := by
  unfold importPath at h
  split at h
  · simp at h
  · simp only [importFrom, List.nil_append, ne_eq, not_true_eq_false, false_and, if_false] at h
    split at h
    · rename_i hin
      simp only [Prod.mk.injEq, true_and] at h
      rw [← h]; exact hin
    · split at h
      · simp only [Prod.mk.injEq, true_and] at h
        rw [← h]; simp
      · simp only [Prod.mk.injEq, true_and] at h
        rw [← h]; simp
      · simp at h

end Pyr.Dotted
