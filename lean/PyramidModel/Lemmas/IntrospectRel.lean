import PyramidModel.Lemmas.Introspect
/-!
Helper lemmas for C20, part 3: the Introspector as a state machine — operation sequences, the two invariants
(`CatsWF`: bindings of a category are in last-add order with distinct discriminators; `RelInv`: `_refs` is a
symmetric, irreflexive, duplicate-free relation) and their preservation by every operation.
-/
namespace Pyr.Introspect

/-! ### operation sequences -/

inductive Op where
  | add (o : Obj) (info : Nat)
  | get (c d : Nat)
  | remove (c d : Nat)
  | relate (rel : Bool) (ks : List (Nat × Nat))
deriving Repr, DecidableEq

/-- one public operation; an operation that raises leaves the state as it was (`relate`/`unrelate` look
everything up before they change anything; `remove` cannot raise on a well-formed state: `remove_total`) -/
def step (S : IState) : Op → IState
  | .add o info => add S o info
  | .get c d => (get S c d).2
  | .remove c d => match remove S c d with
    | .ok S' => S'
    | .error _ => S
  | .relate rel ks => match relate S rel ks with
    | .ok S' => S'
    | .error _ => S

def runOps (S : IState) (ops : List Op) : IState := ops.foldl step S

/-- the introspectables an operation sequence adds -/
def addedObjs : List Op → List Obj
  | [] => []
  | .add o _ :: r => o :: addedObjs r
  | _ :: r => addedObjs r

/-- contents determine the introspectable: no two *different* slots ever hold equal dict contents, and a slot
is not re-added with different contents… precisely: equal `val` ⇒ equal `Obj` -/
def ValInj (U : List Obj) : Prop := ∀ a ∈ U, ∀ b ∈ U, a.val = b.val → a = b

instance (U : List Obj) : Decidable (ValInj U) := by unfold ValInj; infer_instance

/-! ### categories -/

structure CatsWF (S : IState) : Prop where
  mem : ∀ c e, e ∈ S.entries c → e.obj.cat = c ∧ e.order < S.counter
  sorted : ∀ c, (S.entries c).Pairwise (fun a b => a.order < b.order ∧ a.obj.discr ≠ b.obj.discr)

theorem catsWF_empty : CatsWF IState.empty := by
  constructor
  · intro c e h; simp [IState.entries, IState.empty, alookup] at h
  · intro c; simp [IState.entries, IState.empty, alookup]

theorem catsWF_of_cats_eq {S S' : IState} (h : CatsWF S) (hc : S'.cats = S.cats) (hn : S'.counter = S.counter) : CatsWF S' := by
  have he : ∀ c, S'.entries c = S.entries c := by intro c; simp [IState.entries, hc]
  constructor
  · intro c e hm; rw [he] at hm; rw [hn]; exact h.mem c e hm
  · intro c; rw [he]; exact h.sorted c

theorem catsWF_add {S : IState} (h : CatsWF S) (o : Obj) (info : Nat) : CatsWF (add S o info) := by
  have hcnt : (add S o info).counter = S.counter + 1 := rfl
  constructor
  · intro c e hm
    by_cases hc : c = o.cat
    · subst hc
      rw [entries_add_same] at hm
      simp only [putE, List.mem_append, List.mem_filter, List.mem_singleton] at hm
      rcases hm with ⟨hm, _⟩ | hm
      · have := h.mem _ e hm
        exact ⟨this.1, by rw [hcnt]; omega⟩
      · subst hm
        exact ⟨rfl, by rw [hcnt]; simp⟩
    · rw [entries_add_other _ _ _ _ hc] at hm
      have := h.mem _ e hm
      exact ⟨this.1, by rw [hcnt]; omega⟩
  · intro c
    by_cases hc : c = o.cat
    · subst hc
      rw [entries_add_same]
      simp only [putE]
      rw [List.pairwise_append]
      refine ⟨List.Pairwise.sublist List.filter_sublist (h.sorted _), by simp, ?_⟩
      intro a ha b hb
      simp only [List.mem_singleton] at hb
      subst hb
      have ha' := List.mem_filter.mp ha
      have := (h.mem _ a ha'.1).2
      refine ⟨this, ?_⟩
      simpa using ha'.2
    · rw [entries_add_other _ _ _ _ hc]
      exact h.sorted c

theorem catsWF_touch {S : IState} (h : CatsWF S) (c : Nat) : CatsWF (touch S c) := by
  constructor
  · intro c' e hm; rw [entries_touch] at hm; exact h.mem c' e hm
  · intro c'; rw [entries_touch]; exact h.sorted c'

theorem entries_aset_same (S : IState) (c : Nat) (es : List Entry) (refs : List (Obj × List Obj)) :
    ({ S with refs := refs, cats := aset c es S.cats } : IState).entries c = es := by
  simp [IState.entries, alookup_aset_same]

theorem entries_aset_other (S : IState) (c c' : Nat) (es : List Entry) (refs : List (Obj × List Obj)) (h : c' ≠ c) :
    ({ S with refs := refs, cats := aset c es S.cats } : IState).entries c' = S.entries c' := by
  simp [IState.entries, alookup_aset_other _ _ _ _ h]

theorem catsWF_remove {S S' : IState} (h : CatsWF S) {c d : Nat} (hr : remove S c d = .ok S') : CatsWF S' := by
  simp only [remove] at hr
  have h1 := catsWF_touch h c
  split at hr
  · cases hr; exact h1
  · split at hr
    · cases hr
    · cases hr
      constructor
      · intro c' e hm
        by_cases hc : c' = c
        · subst hc
          rw [entries_aset_same] at hm
          exact h1.mem _ e (List.mem_filter.mp hm).1
        · rw [entries_aset_other _ _ _ _ _ hc] at hm
          exact h1.mem _ e hm
      · intro c'
        by_cases hc : c' = c
        · subst hc
          rw [entries_aset_same]
          exact List.Pairwise.sublist List.filter_sublist (h1.sorted _)
        · rw [entries_aset_other _ _ _ _ _ hc]
          exact h1.sorted c'

theorem catsWF_step {S : IState} (h : CatsWF S) (op : Op) : CatsWF (step S op) := by
  cases op with
  | add o info => exact catsWF_add h o info
  | get c d => exact catsWF_touch h c
  | remove c d =>
    simp only [step]
    split
    · rename_i S' hr; exact catsWF_remove h hr
    · exact h
  | relate rel ks =>
    simp only [step]
    split
    · rename_i S' hr
      have := relate_cats hr
      exact catsWF_of_cats_eq h this.1 this.2
    · exact h

theorem catsWF_runOps (ops : List Op) : ∀ {S : IState}, CatsWF S → CatsWF (runOps S ops) := by
  induction ops with
  | nil => intro S h; exact h
  | cons op r ih => intro S h; exact ih (catsWF_step h op)

theorem insertO_of_le_all (e : Entry) : ∀ (l : List Entry), (∀ x ∈ l, e.order < x.order) → insertO e l = e :: l
  | [], _ => rfl
  | x :: r, h => by
    have : e.order ≤ x.order := Nat.le_of_lt (h x List.mem_cons_self)
    simp [insertO, this]

theorem sortO_of_sorted : ∀ (l : List Entry), l.Pairwise (fun a b => a.order < b.order) → sortO l = l
  | [], _ => rfl
  | e :: r, h => by
    have h' := List.pairwise_cons.mp h
    simp only [sortO]
    rw [sortO_of_sorted r h'.2]
    exact insertO_of_le_all e r h'.1

/-! ### relations -/

def relOfRefs (r : List (Obj × List Obj)) (x : Obj) : List Obj := (alookup x r).getD []

theorem relatedOf_eq (S : IState) (x : Obj) : relatedOf S x = relOfRefs S.refs x := rfl

def RefsWF (U : List Obj) (r : List (Obj × List Obj)) : Prop :=
  (r.map Prod.fst).Nodup ∧ ∀ k L, alookup k r = some L → k ∈ U ∧ (∀ y ∈ L, y ∈ U) ∧ L.Nodup ∧ k ∉ L

theorem map_fst_aset {β} (k : Obj) (v : β) : ∀ (r : List (Obj × β)),
    (aset k v r).map Prod.fst = if k ∈ r.map Prod.fst then r.map Prod.fst else r.map Prod.fst ++ [k]
  | [] => by simp [aset]
  | (k', v') :: r => by
    by_cases h : k' = k
    · subst h; simp [aset]
    · have ih := map_fst_aset k v r
      have hne : ¬ k = k' := fun e => h e.symm
      simp only [aset, h, if_false, List.map_cons, ih, List.mem_cons, hne, false_or]
      split <;> simp

theorem keys_aset {β} (k : Obj) (v : β) (r : List (Obj × β)) (h : (r.map Prod.fst).Nodup) :
    ((aset k v r).map Prod.fst).Nodup := by
  rw [map_fst_aset]
  split
  · exact h
  · rename_i hk
    rw [List.nodup_append]
    exact ⟨h, by simp, by intro a ha b hb; simp at hb; subst hb; intro e; exact hk (e ▸ ha)⟩

theorem aerase_sublist {β} (k : Obj) : ∀ (r : List (Obj × β)), (aerase k r).Sublist r
  | [] => by simp [aerase]
  | (k', v') :: r => by
    by_cases h : k' = k
    · simp [aerase, h]
    · simp only [aerase, h, if_false]
      exact (aerase_sublist k r).cons₂ _

theorem keys_aerase {β} (k : Obj) (r : List (Obj × β)) (h : (r.map Prod.fst).Nodup) :
    ((aerase k r).map Prod.fst).Nodup :=
  List.Nodup.sublist ((aerase_sublist k r).map Prod.fst) h

theorem alookup_none_of_not_mem {β} (k : Obj) : ∀ (r : List (Obj × β)), k ∉ r.map Prod.fst → alookup k r = none
  | [], _ => rfl
  | (k', v') :: r, h => by
    simp only [List.map_cons, List.mem_cons, not_or] at h
    have : ¬ k' = k := fun e => h.1 e.symm
    simp only [alookup, this, if_false]
    exact alookup_none_of_not_mem k r h.2

theorem alookup_aerase_same {β} (k : Obj) : ∀ (r : List (Obj × β)), (r.map Prod.fst).Nodup → alookup k (aerase k r) = none
  | [], _ => rfl
  | (k', v') :: r, h => by
    simp only [List.map_cons, List.nodup_cons] at h
    by_cases hk : k' = k
    · subst hk
      simp only [aerase, if_true]
      exact alookup_none_of_not_mem _ r h.1
    · simp only [aerase, hk, if_false, alookup]
      exact alookup_aerase_same k r h.2

theorem memV_iff {U : List Obj} (hU : ValInj U) {y : Obj} (hy : y ∈ U) {L : List Obj} (hL : ∀ z ∈ L, z ∈ U) :
    memV y L = true ↔ y ∈ L := by
  unfold memV
  rw [List.any_eq_true]
  constructor
  · rintro ⟨z, hz, hv⟩
    have : z.val = y.val := by simpa using hv
    have := hU z (hL z hz) y hy this
    exact this ▸ hz
  · intro h
    exact ⟨y, h, by simp⟩

theorem mem_eraseV {U : List Obj} (hU : ValInj U) {y : Obj} (hy : y ∈ U) :
    ∀ {L : List Obj}, (∀ z ∈ L, z ∈ U) → L.Nodup → ∀ w, w ∈ eraseV y L ↔ (w ∈ L ∧ w ≠ y) := by
  intro L
  induction L with
  | nil => intro _ _ w; simp [eraseV]
  | cons o r ih =>
    intro hL hnd w
    have hnd' := List.nodup_cons.mp hnd
    by_cases ho : o.val = y.val
    · have hoy : o = y := hU o (hL o List.mem_cons_self) y hy ho
      subst hoy
      simp only [eraseV, beq_self_eq_true, if_true, List.mem_cons]
      constructor
      · intro hw
        exact ⟨Or.inr hw, fun e => hnd'.1 (e ▸ hw)⟩
      · rintro ⟨hw | hw, hne⟩
        · exact absurd hw hne
        · exact hw
    · have hne : o ≠ y := fun e => ho (e ▸ rfl)
      have hb : (o.val == y.val) = false := by simpa using ho
      simp only [eraseV, hb, Bool.false_eq_true, ↓reduceIte, List.mem_cons]
      have := ih (fun z hz => hL z (List.mem_cons_of_mem _ hz)) hnd'.2 w
      rw [this]
      constructor
      · rintro (hw | ⟨hw, hn⟩)
        · exact ⟨Or.inl hw, hw ▸ hne⟩
        · exact ⟨Or.inr hw, hn⟩
      · rintro ⟨hw | hw, hn⟩
        · exact Or.inl hw
        · exact Or.inr ⟨hw, hn⟩

theorem nodup_eraseV (y : Obj) : ∀ {L : List Obj}, L.Nodup → (eraseV y L).Nodup ∧ ∀ w, w ∈ eraseV y L → w ∈ L := by
  intro L
  induction L with
  | nil => intro _; simp [eraseV]
  | cons o r ih =>
    intro hnd
    have hnd' := List.nodup_cons.mp hnd
    by_cases hb : (o.val == y.val) = true
    · simp only [eraseV, hb, if_true]
      exact ⟨hnd'.2, fun w hw => List.mem_cons_of_mem _ hw⟩
    · have hb' : (o.val == y.val) = false := by simpa using hb
      simp only [eraseV, hb', Bool.false_eq_true, ↓reduceIte]
      have := ih hnd'.2
      refine ⟨?_, ?_⟩
      · rw [List.nodup_cons]
        exact ⟨fun hm => hnd'.1 (this.2 o hm), this.1⟩
      · intro w hw
        rcases List.mem_cons.mp hw with hw | hw
        · exact hw ▸ List.mem_cons_self
        · exact List.mem_cons_of_mem _ (this.2 w hw)

theorem relOfRefs_aset (r : List (Obj × List Obj)) (x : Obj) (L : List Obj) (z : Obj) :
    relOfRefs (aset x L r) z = if z = x then L else relOfRefs r z := by
  unfold relOfRefs
  by_cases h : z = x
  · subst h; simp [alookup_aset_same]
  · simp [alookup_aset_other _ _ _ _ h, h]

theorem refsWF_aset {U : List Obj} {r : List (Obj × List Obj)} (h : RefsWF U r) {x : Obj} {L : List Obj}
    (hx : x ∈ U) (hL : ∀ y ∈ L, y ∈ U) (hnd : L.Nodup) (hxs : x ∉ L) : RefsWF U (aset x L r) := by
  refine ⟨keys_aset x L r h.1, ?_⟩
  intro k L' hk
  by_cases hkx : k = x
  · subst hkx
    rw [alookup_aset_same] at hk
    cases hk
    exact ⟨hx, hL, hnd, hxs⟩
  · rw [alookup_aset_other _ _ _ _ hkx] at hk
    exact h.2 k L' hk

theorem refsWF_rel {U : List Obj} {r : List (Obj × List Obj)} (h : RefsWF U r) (x : Obj) :
    (∀ y ∈ relOfRefs r x, y ∈ U) ∧ (relOfRefs r x).Nodup ∧ x ∉ relOfRefs r x := by
  unfold relOfRefs
  cases hl : alookup x r with
  | none => simp
  | some L =>
    have := h.2 x L hl
    exact ⟨this.2.1, this.2.2.1, this.2.2.2⟩

/-- one iteration of the double loop of `relate`: exactly the link x→y is added -/
theorem relStep_true {U : List Obj} (hU : ValInj U) {r : List (Obj × List Obj)} (h : RefsWF U r) {x y : Obj}
    (hx : x ∈ U) (hy : y ∈ U) :
    RefsWF U (relStep true r x y) ∧
    ∀ z w, w ∈ relOfRefs (relStep true r x y) z ↔ (w ∈ relOfRefs r z ∨ (z = x ∧ w = y ∧ x ≠ y)) := by
  have hr := refsWF_rel h x
  have hm := memV_iff hU hy hr.1
  have hL : (alookup x r).getD [] = relOfRefs r x := rfl
  simp only [relStep, if_true, hL]
  by_cases hc : x ≠ y ∧ (!memV y (relOfRefs r x)) = true
  · have hny : y ∉ relOfRefs r x := by
      intro hin
      have := hm.mpr hin
      simp [this] at hc
    rw [if_pos hc]
    constructor
    · apply refsWF_aset h hx
      · intro w hw
        rcases List.mem_append.mp hw with hw | hw
        · exact hr.1 w hw
        · have : w = y := by simpa using hw
          exact this ▸ hy
      · rw [List.nodup_append]
        refine ⟨hr.2.1, by simp, ?_⟩
        intro a ha b hb
        have hb' : b = y := by simpa using hb
        subst hb'
        intro e
        exact hny (e ▸ ha)
      · intro hin
        rcases List.mem_append.mp hin with hin | hin
        · exact hr.2.2 hin
        · have : x = y := by simpa using hin
          exact hc.1 this
    · intro z w
      rw [relOfRefs_aset]
      by_cases hz : z = x
      · rw [if_pos hz, hz]
        simp only [List.mem_append, List.mem_singleton]
        constructor
        · rintro (hw | hw)
          · exact Or.inl hw
          · exact Or.inr ⟨trivial, hw, hc.1⟩
        · rintro (hw | ⟨_, hw, _⟩)
          · exact Or.inl hw
          · exact Or.inr hw
      · rw [if_neg hz]
        constructor
        · intro hw; exact Or.inl hw
        · rintro (hw | ⟨hz', _⟩)
          · exact hw
          · exact absurd hz' hz
  · rw [if_neg hc]
    constructor
    · exact refsWF_aset h hx hr.1 hr.2.1 hr.2.2
    · intro z w
      rw [relOfRefs_aset]
      by_cases hz : z = x
      · rw [if_pos hz, hz]
        constructor
        · intro hw; exact Or.inl hw
        · rintro (hw | ⟨_, hw, hne⟩)
          · exact hw
          · rw [hw]
            have : memV y (relOfRefs r x) = true := by
              cases hmv : memV y (relOfRefs r x) with
              | true => rfl
              | false => exact absurd ⟨hne, by simp [hmv]⟩ hc
            exact hm.mp this
      · rw [if_neg hz]
        constructor
        · intro hw; exact Or.inl hw
        · rintro (hw | ⟨hz', _⟩)
          · exact hw
          · exact absurd hz' hz

/-- one iteration of the double loop of `unrelate`: exactly the link x→y is removed -/
theorem relStep_false {U : List Obj} (hU : ValInj U) {r : List (Obj × List Obj)} (h : RefsWF U r) {x y : Obj}
    (hx : x ∈ U) (hy : y ∈ U) :
    RefsWF U (relStep false r x y) ∧
    ∀ z w, w ∈ relOfRefs (relStep false r x y) z ↔ (w ∈ relOfRefs r z ∧ ¬ (z = x ∧ w = y)) := by
  have hr := refsWF_rel h x
  have hm := memV_iff hU hy hr.1
  simp only [relStep, Bool.false_eq_true, if_false]
  cases hl : alookup x r with
  | none =>
    have hrel : relOfRefs r x = [] := by simp [relOfRefs, hl]
    refine ⟨h, ?_⟩
    intro z w
    constructor
    · intro hw
      refine ⟨hw, ?_⟩
      rintro ⟨hz, _⟩
      rw [hz, hrel] at hw
      cases hw
    · intro hw; exact hw.1
  | some L =>
    have hrel : relOfRefs r x = L := by simp [relOfRefs, hl]
    rw [hrel] at hm hr
    simp only
    by_cases hmv : memV y L = true
    · rw [if_pos hmv]
      have hme := mem_eraseV hU hy hr.1 hr.2.1
      constructor
      · apply refsWF_aset h hx
        · intro w hw; exact hr.1 w ((hme w).mp hw).1
        · exact (nodup_eraseV y hr.2.1).1
        · intro hin; exact hr.2.2 ((hme x).mp hin).1
      · intro z w
        rw [relOfRefs_aset]
        by_cases hz : z = x
        · rw [if_pos hz, hz, hme w, hrel]
          constructor
          · rintro ⟨hw, hne⟩; exact ⟨hw, fun hh => hne hh.2⟩
          · rintro ⟨hw, hne⟩; exact ⟨hw, fun hh => hne ⟨rfl, hh⟩⟩
        · rw [if_neg hz]
          constructor
          · intro hw; exact ⟨hw, fun hh => hz hh.1⟩
          · intro hw; exact hw.1
    · rw [if_neg hmv]
      refine ⟨h, ?_⟩
      intro z w
      constructor
      · intro hw
        refine ⟨hw, ?_⟩
        rintro ⟨hz, hwy⟩
        rw [hz, hwy, hrel] at hw
        exact hmv (hm.mpr hw)
      · intro hw; exact hw.1

theorem relFold_true {U : List Obj} (hU : ValInj U) (ps : List (Obj × Obj)) :
    ∀ {r : List (Obj × List Obj)}, RefsWF U r → (∀ p ∈ ps, p.1 ∈ U ∧ p.2 ∈ U) →
      RefsWF U (ps.foldl (fun r p => relStep true r p.1 p.2) r) ∧
      ∀ z w, w ∈ relOfRefs (ps.foldl (fun r p => relStep true r p.1 p.2) r) z ↔
        (w ∈ relOfRefs r z ∨ ((z, w) ∈ ps ∧ z ≠ w)) := by
  induction ps with
  | nil => intro r h _; exact ⟨h, by intro z w; simp⟩
  | cons p ps ih =>
    intro r h hp
    have hp1 := hp p List.mem_cons_self
    have s := relStep_true hU h hp1.1 hp1.2
    have := ih s.1 (fun q hq => hp q (List.mem_cons_of_mem _ hq))
    refine ⟨this.1, ?_⟩
    intro z w
    simp only [List.foldl_cons]
    rw [this.2 z w, s.2 z w]
    constructor
    · rintro ((hw | ⟨h1, h2, h3⟩) | ⟨hw, hne⟩)
      · exact Or.inl hw
      · exact Or.inr ⟨by rw [h1, h2]; exact List.mem_cons_self, by rw [h1, h2]; exact h3⟩
      · exact Or.inr ⟨List.mem_cons_of_mem _ hw, hne⟩
    · rintro (hw | ⟨hw, hne⟩)
      · exact Or.inl (Or.inl hw)
      · rcases List.mem_cons.mp hw with hw | hw
        · left; right
          have e1 : z = p.1 := congrArg Prod.fst hw
          have e2 : w = p.2 := congrArg Prod.snd hw
          exact ⟨e1, e2, by rw [← e1, ← e2]; exact hne⟩
        · exact Or.inr ⟨hw, hne⟩

theorem relFold_false {U : List Obj} (hU : ValInj U) (ps : List (Obj × Obj)) :
    ∀ {r : List (Obj × List Obj)}, RefsWF U r → (∀ p ∈ ps, p.1 ∈ U ∧ p.2 ∈ U) →
      RefsWF U (ps.foldl (fun r p => relStep false r p.1 p.2) r) ∧
      ∀ z w, w ∈ relOfRefs (ps.foldl (fun r p => relStep false r p.1 p.2) r) z ↔
        (w ∈ relOfRefs r z ∧ (z, w) ∉ ps) := by
  induction ps with
  | nil => intro r h _; exact ⟨h, by intro z w; simp⟩
  | cons p ps ih =>
    intro r h hp
    have hp1 := hp p List.mem_cons_self
    have s := relStep_false hU h hp1.1 hp1.2
    have := ih s.1 (fun q hq => hp q (List.mem_cons_of_mem _ hq))
    refine ⟨this.1, ?_⟩
    intro z w
    simp only [List.foldl_cons]
    rw [this.2 z w, s.2 z w]
    constructor
    · rintro ⟨⟨hw, hne⟩, hnp⟩
      refine ⟨hw, ?_⟩
      intro hin
      rcases List.mem_cons.mp hin with hin | hin
      · exact hne ⟨congrArg Prod.fst hin, congrArg Prod.snd hin⟩
      · exact hnp hin
    · rintro ⟨hw, hnp⟩
      refine ⟨⟨hw, ?_⟩, fun hin => hnp (List.mem_cons_of_mem _ hin)⟩
      rintro ⟨h1, h2⟩
      apply hnp
      rw [h1, h2]
      exact List.mem_cons_self

theorem mem_pairsOf {xs : List Obj} {z w : Obj} : (z, w) ∈ pairsOf xs ↔ z ∈ xs ∧ w ∈ xs := by
  unfold pairsOf
  simp only [List.mem_flatMap, List.mem_map, Prod.mk.injEq]
  constructor
  · rintro ⟨x, hx, y, hy, rfl, rfl⟩; exact ⟨hx, hy⟩
  · rintro ⟨hz, hw⟩; exact ⟨z, hz, w, hw, rfl, rfl⟩

/-! ### the relation invariant of a state -/

structure RelInv (U : List Obj) (S : IState) : Prop where
  refs : RefsWF U S.refs
  sym : ∀ x y, y ∈ relatedOf S x → x ∈ relatedOf S y
  live : ∀ c e, e ∈ S.entries c → e.obj ∈ U

theorem relInv_empty (U : List Obj) : RelInv U IState.empty := by
  constructor
  · exact ⟨by simp [IState.empty], by intro k L h; simp [IState.empty, alookup] at h⟩
  · intro x y h; simp [relatedOf, IState.empty, alookup] at h
  · intro c e h; simp [IState.entries, IState.empty, alookup] at h

theorem lookupAll_live {S : IState} : ∀ {ks : List (Nat × Nat)} {xs : List Obj}, lookupAll S ks = .ok xs →
    ∀ x ∈ xs, ∃ c e, e ∈ S.entries c ∧ e.obj = x := by
  intro ks
  induction ks with
  | nil => intro xs h x hx; simp [lookupAll] at h; cases h; cases hx
  | cons k r ih =>
    intro xs h x hx
    obtain ⟨c, d⟩ := k
    unfold lookupAll at h
    split at h
    · cases h
    · rename_i e he
      split at h
      · cases h
      · rename_i os hos
        cases h
        rcases List.mem_cons.mp hx with hx | hx
        · refine ⟨c, e, ?_, hx.symm⟩
          unfold peek findE at he
          exact List.mem_of_find?_eq_some he
        · exact ih hos x hx

theorem relInv_relate {U : List Obj} (hU : ValInj U) {S S' : IState} (h : RelInv U S) {rel : Bool}
    {ks : List (Nat × Nat)} (hr : relate S rel ks = .ok S') : RelInv U S' := by
  unfold relate at hr
  split at hr
  · cases hr
  · rename_i xs hxs
    cases hr
    have hin : ∀ p ∈ pairsOf xs, p.1 ∈ U ∧ p.2 ∈ U := by
      intro p hp
      have := (mem_pairsOf (z := p.1) (w := p.2)).mp hp
      obtain ⟨c1, e1, hm1, he1⟩ := lookupAll_live hxs p.1 this.1
      obtain ⟨c2, e2, hm2, he2⟩ := lookupAll_live hxs p.2 this.2
      exact ⟨he1 ▸ h.live c1 e1 hm1, he2 ▸ h.live c2 e2 hm2⟩
    cases rel with
    | true =>
      have f := relFold_true hU (pairsOf xs) h.refs hin
      refine ⟨f.1, ?_, h.live⟩
      intro x y hy
      simp only [relatedOf_eq, relateObjs] at hy ⊢
      rw [f.2] at hy ⊢
      rcases hy with hy | ⟨hy, hne⟩
      · exact Or.inl (h.sym x y hy)
      · have := mem_pairsOf.mp hy
        exact Or.inr ⟨mem_pairsOf.mpr ⟨this.2, this.1⟩, fun e => hne e.symm⟩
    | false =>
      have f := relFold_false hU (pairsOf xs) h.refs hin
      refine ⟨f.1, ?_, h.live⟩
      intro x y hy
      simp only [relatedOf_eq, relateObjs] at hy ⊢
      rw [f.2] at hy ⊢
      refine ⟨h.sym x y hy.1, ?_⟩
      intro hp
      have := mem_pairsOf.mp hp
      exact hy.2 (mem_pairsOf.mpr ⟨this.2, this.1⟩)

theorem relInv_add {U : List Obj} {S : IState} (h : RelInv U S) {o : Obj} (ho : o ∈ U) (info : Nat) :
    RelInv U (add S o info) := by
  refine ⟨h.refs, h.sym, ?_⟩
  intro c e hm
  by_cases hc : c = o.cat
  · subst hc
    rw [entries_add_same] at hm
    simp only [putE, List.mem_append, List.mem_filter, List.mem_singleton] at hm
    rcases hm with ⟨hm, _⟩ | hm
    · exact h.live _ e hm
    · subst hm; exact ho
  · rw [entries_add_other _ _ _ _ hc] at hm
    exact h.live c e hm

theorem relInv_touch {U : List Obj} {S : IState} (h : RelInv U S) (c : Nat) : RelInv U (touch S c) := by
  refine ⟨h.refs, h.sym, ?_⟩
  intro c' e hm
  rw [entries_touch] at hm
  exact h.live c' e hm

/-- the loop `for d in L: self._refs[d].remove(intr)` of `remove`: never raises on a symmetric relation, and
removes exactly the back links -/
theorem dropBackRefs_spec {U : List Obj} (hU : ValInj U) {o : Obj} (ho : o ∈ U) :
    ∀ (L : List Obj) {r : List (Obj × List Obj)}, RefsWF U r → L.Nodup → (∀ d ∈ L, d ∈ U) →
      (∀ d ∈ L, o ∈ relOfRefs r d) →
      ∃ r', dropBackRefs o L r = .ok r' ∧ RefsWF U r' ∧
        ∀ z w, w ∈ relOfRefs r' z ↔ (w ∈ relOfRefs r z ∧ ¬ (z ∈ L ∧ w = o)) := by
  intro L
  induction L with
  | nil =>
    intro r h _ _ _
    exact ⟨r, rfl, h, by intro z w; simp⟩
  | cons d L ih =>
    intro r h hnd hLU hback
    have hnd' := List.nodup_cons.mp hnd
    have hd := hback d List.mem_cons_self
    cases hl : alookup d r with
    | none => simp [relOfRefs, hl] at hd
    | some L2 =>
      have hrel : relOfRefs r d = L2 := by simp [relOfRefs, hl]
      have hwf := h.2 d L2 hl
      have hm := (memV_iff hU ho hwf.2.1).mpr (hrel ▸ hd)
      have hme := mem_eraseV hU ho hwf.2.1 hwf.2.2.1
      have h1 : RefsWF U (aset d (eraseV o L2) r) := by
        apply refsWF_aset h hwf.1
        · intro w hw; exact hwf.2.1 w ((hme w).mp hw).1
        · exact (nodup_eraseV o hwf.2.2.1).1
        · intro hin; exact hwf.2.2.2 ((hme d).mp hin).1
      have hback' : ∀ d' ∈ L, o ∈ relOfRefs (aset d (eraseV o L2) r) d' := by
        intro d' hd'
        rw [relOfRefs_aset]
        have : d' ≠ d := fun e => hnd'.1 (e ▸ hd')
        simp only [this, if_false]
        exact hback d' (List.mem_cons_of_mem _ hd')
      obtain ⟨r', hr', hwf', hspec⟩ := ih h1 hnd'.2 (fun x hx => hLU x (List.mem_cons_of_mem _ hx)) hback'
      refine ⟨r', ?_, hwf', ?_⟩
      · simp only [dropBackRefs, hl, hm, if_true]
        exact hr'
      · intro z w
        rw [hspec z w, relOfRefs_aset]
        by_cases hz : z = d
        · rw [if_pos hz, hz, hme w, hrel]
          constructor
          · rintro ⟨⟨hw, hne⟩, _⟩; exact ⟨hw, fun hh => hne hh.2⟩
          · rintro ⟨hw, hne⟩
            have hne' : w ≠ o := fun hh => hne ⟨List.mem_cons_self, hh⟩
            exact ⟨⟨hw, hne'⟩, fun hh => hne' hh.2⟩
        · rw [if_neg hz]
          constructor
          · rintro ⟨hw, hn⟩
            refine ⟨hw, ?_⟩
            rintro ⟨hzl, hwo⟩
            rcases List.mem_cons.mp hzl with hzl | hzl
            · exact hz hzl
            · exact hn ⟨hzl, hwo⟩
          · rintro ⟨hw, hn⟩
            exact ⟨hw, fun hh => hn ⟨List.mem_cons_of_mem _ hh.1, hh.2⟩⟩

theorem relOfRefs_aerase {r : List (Obj × List Obj)} (hk : (r.map Prod.fst).Nodup) (o z : Obj) :
    relOfRefs (aerase o r) z = if z = o then [] else relOfRefs r z := by
  unfold relOfRefs
  by_cases h : z = o
  · subst h; simp [alookup_aerase_same _ _ hk]
  · simp [alookup_aerase_other _ _ _ h, h]

theorem relInv_remove {U : List Obj} (hU : ValInj U) {S : IState} (h : RelInv U S) (c d : Nat) :
    ∃ S', remove S c d = .ok S' ∧ RelInv U S' ∧
      (∀ e, peek S c d = some e → ∀ z w, w ∈ relatedOf S' z ↔ (w ∈ relatedOf S z ∧ z ≠ e.obj ∧ w ≠ e.obj)) := by
  have ht := relInv_touch h c
  unfold remove
  simp only [peek_touch]
  cases hp : peek S c d with
  | none =>
    exact ⟨touch S c, rfl, ht, by intro e he; cases he⟩
  | some e =>
    simp only
    have hlive : e.obj ∈ U := by
      apply h.live c e
      unfold peek findE at hp
      exact List.mem_of_find?_eq_some hp
    have hrel : relatedOf (touch S c) e.obj = relOfRefs S.refs e.obj := rfl
    have hrefs : (touch S c).refs = S.refs := rfl
    have hL := refsWF_rel h.refs e.obj
    have hpop : RefsWF U (aerase e.obj S.refs) := by
      refine ⟨keys_aerase _ _ h.refs.1, ?_⟩
      intro k L hk
      by_cases hke : k = e.obj
      · subst hke
        rw [alookup_aerase_same _ _ h.refs.1] at hk
        cases hk
      · rw [alookup_aerase_other _ _ _ hke] at hk
        exact h.refs.2 k L hk
    have hback : ∀ d' ∈ relOfRefs S.refs e.obj, e.obj ∈ relOfRefs (aerase e.obj S.refs) d' := by
      intro d' hd'
      rw [relOfRefs_aerase h.refs.1]
      have : d' ≠ e.obj := fun e' => hL.2.2 (e' ▸ hd')
      simp only [this, if_false]
      exact h.sym e.obj d' hd'
    obtain ⟨r', hr', hwf', hspec⟩ := dropBackRefs_spec hU hlive _ hpop hL.2.1 hL.1 hback
    rw [hrel, hrefs, hr']
    simp only
    have hmem : ∀ z w, w ∈ relOfRefs r' z ↔ (w ∈ relOfRefs S.refs z ∧ z ≠ e.obj ∧ w ≠ e.obj) := by
      intro z w
      rw [hspec z w, relOfRefs_aerase h.refs.1]
      by_cases hz : z = e.obj
      · subst hz; simp
      · simp only [hz, if_false, ne_eq, not_false_eq_true, true_and]
        constructor
        · rintro ⟨hw, hn⟩
          refine ⟨hw, ?_⟩
          intro hwe
          subst hwe
          exact hn ⟨h.sym z e.obj hw, rfl⟩
        · rintro ⟨hw, hn⟩
          exact ⟨hw, fun hh => hn hh.2⟩
    refine ⟨_, rfl, ⟨hwf', ?_, ?_⟩, ?_⟩
    · intro x y hy
      simp only [relatedOf_eq] at hy ⊢
      rw [hmem] at hy ⊢
      exact ⟨h.sym x y hy.1, hy.2.2, hy.2.1⟩
    · intro c' e' hm
      by_cases hc : c' = c
      · subst hc
        rw [entries_aset_same] at hm
        exact ht.live _ e' (List.mem_filter.mp hm).1
      · rw [entries_aset_other _ _ _ _ _ hc] at hm
        exact ht.live c' e' hm
    · intro e' he'
      cases he'
      intro z w
      simp only [relatedOf_eq]
      exact hmem z w

theorem relInv_step {U : List Obj} (hU : ValInj U) {S : IState} (h : RelInv U S) (op : Op)
    (hop : ∀ o info, op = .add o info → o ∈ U) : RelInv U (step S op) := by
  cases op with
  | add o info => exact relInv_add h (hop o info rfl) info
  | get c d => exact relInv_touch h c
  | remove c d =>
    obtain ⟨S', hr, hinv, _⟩ := relInv_remove hU h c d
    simp only [step, hr]
    exact hinv
  | relate rel ks =>
    simp only [step]
    split
    · rename_i S' hr; exact relInv_relate hU h hr
    · exact h

theorem mem_addedObjs_cons (op : Op) (r : List Op) (o : Obj) (h : o ∈ addedObjs r) : o ∈ addedObjs (op :: r) := by
  cases op <;> simp [addedObjs, h]

theorem relInv_runOps {U : List Obj} (hU : ValInj U) (ops : List Op) :
    ∀ {S : IState}, RelInv U S → (∀ o ∈ addedObjs ops, o ∈ U) → RelInv U (runOps S ops) := by
  induction ops with
  | nil => intro S h _; exact h
  | cons op r ih =>
    intro S h hin
    apply ih
    · apply relInv_step hU h
      intro o info e
      subst e
      exact hin o (by simp [addedObjs])
    · intro o ho
      exact hin o (mem_addedObjs_cons op r o ho)

end Pyr.Introspect
