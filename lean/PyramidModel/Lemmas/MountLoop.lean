/-
X07 — helper lemmas, part 2: the `workback` loop equals its declarative reading (`workLoop_eq_spec`), facts about
`takeNe` / `decRev`, and what the joined remainder looks like.
-/
import PyramidModel.Lemmas.Mount

namespace Pyr.Mount

open Pyr.Trav (splitOn joinWith)

/-! ### the loop -/

/-- once `tmp` is at least as long as the subpath and different from it, the loop can never stop early: it decodes
every remaining non-empty element and leaves nothing -/
theorem workLoop_past (sub : List Text) : ∀ (rv tmp : List Text), sub.length ≤ tmp.length → tmp ≠ sub →
    workLoop sub rv tmp = (match decRev rv tmp with | .error e => .error e | .ok _ => .ok []) := by
  intro rv
  induction rv with
  | nil => intro tmp _ _; simp [workLoop, decRev]
  | cons el r ih =>
    intro tmp hl hne
    simp only [workLoop, hne, if_false, decRev]
    by_cases he : el = []
    · simp only [he, if_true]; exact ih tmp hl hne
    · simp only [he, if_false]
      cases hd : decodeEl el with
      | error e => rfl
      | ok t =>
        simp only []
        apply ih
        · simp only [List.length_cons]; omega
        · intro h; rw [← h] at hl; simp only [List.length_cons] at hl; omega

/-- the loop invariant, solved: with `k` elements of the subpath still to be collected, the loop cuts the list after its
`k`-th non-empty element -/
theorem workLoop_eq (sub : List Text) : ∀ (rv tmp : List Text) (k : Nat), tmp.length + k = sub.length →
    workLoop sub rv tmp =
      (match decRev (takeNe k rv).1 tmp with
       | .error e => .error e
       | .ok got =>
         if got = sub then .ok (takeNe k rv).2
         else match decRev (takeNe k rv).2 got with
           | .error e => .error e
           | .ok _ => .ok []) := by
  intro rv
  induction rv with
  | nil =>
    intro tmp k _
    cases k <;> simp [workLoop, takeNe, decRev]
  | cons el r ih =>
    intro tmp k hk
    cases k with
    | zero =>
      simp only [takeNe, decRev]
      by_cases h : tmp = sub
      · simp [workLoop, h]
      · simp only [h, if_false]
        exact workLoop_past sub (el :: r) tmp (by omega) h
    | succ k =>
      have hne : tmp ≠ sub := by intro h; rw [h] at hk; omega
      simp only [workLoop, hne, if_false, takeNe]
      by_cases he : el = []
      · simp only [he, if_true, decRev]
        exact ih tmp (k + 1) hk
      · simp only [he, if_false, decRev]
        cases hd : decodeEl el with
        | error e => rfl
        | ok t =>
          simp only []
          exact ih (t :: tmp) k (by simp only [List.length_cons]; omega)

/-- **refinement**: the loop computes the declarative reading -/
theorem workLoop_eq_spec (sub rv : List Text) : workLoop sub rv [] = specWorkback sub rv := by
  rw [workLoop_eq sub rv [] sub.length (by simp)]
  rfl

theorem newScriptName_eq_spec (sn pi : Text) (sub : List Text) : newScriptName sn pi sub = specScriptName sn pi sub := by
  unfold newScriptName specScriptName; rw [workLoop_eq_spec]; rfl

theorem rewrite_eq_spec' (e : Env) (sub : List Text) : rewrite e sub = specRewrite e sub := by
  unfold rewrite specRewrite; rw [newScriptName_eq_spec]; rfl

/-! ### takeNe -/

theorem takeNe_append (k : Nat) (l : List Text) : (takeNe k l).1 ++ (takeNe k l).2 = l := by
  induction l generalizing k with
  | nil => cases k <;> simp [takeNe]
  | cons x xs ih =>
    cases k with
    | zero => simp [takeNe]
    | succ k =>
      simp only [takeNe]
      split <;> simp [ih]

theorem nonEmpty_nil : nonEmpty [] = [] := rfl

theorem nonEmpty_cons_empty (xs : List Text) : nonEmpty ([] :: xs) = nonEmpty xs := by simp [nonEmpty]

theorem nonEmpty_cons_ne (x : Text) (xs : List Text) (h : x ≠ []) : nonEmpty (x :: xs) = x :: nonEmpty xs := by
  simp [nonEmpty, h]

theorem nonEmpty_append (a b : List Text) : nonEmpty (a ++ b) = nonEmpty a ++ nonEmpty b := by simp [nonEmpty]

theorem nonEmpty_reverse (a : List Text) : nonEmpty a.reverse = (nonEmpty a).reverse := by simp [nonEmpty]

theorem mem_nonEmpty {s : Text} {l : List Text} : s ∈ nonEmpty l ↔ s ∈ l ∧ s ≠ [] := by simp [nonEmpty]

theorem nonEmpty_id (l : List Text) (h : ∀ s ∈ l, s ≠ []) : nonEmpty l = l := by
  simp only [nonEmpty, List.filter_eq_self]
  intro s hs; simp [h s hs]

theorem nonEmpty_takeNe_fst (k : Nat) (l : List Text) : nonEmpty (takeNe k l).1 = (nonEmpty l).take k := by
  induction l generalizing k with
  | nil => cases k <;> simp [takeNe, nonEmpty]
  | cons x xs ih =>
    cases k with
    | zero => simp [takeNe, nonEmpty]
    | succ k =>
      simp only [takeNe]
      by_cases h : x = []
      · subst h; simp only [if_true, nonEmpty_cons_empty]; exact ih (k + 1)
      · simp only [h, if_false, nonEmpty_cons_ne _ _ h, List.take_succ_cons, ih k]

theorem nonEmpty_takeNe_snd (k : Nat) (l : List Text) : nonEmpty (takeNe k l).2 = (nonEmpty l).drop k := by
  induction l generalizing k with
  | nil => cases k <;> simp [takeNe, nonEmpty]
  | cons x xs ih =>
    cases k with
    | zero => simp [takeNe]
    | succ k =>
      simp only [takeNe]
      by_cases h : x = []
      · subst h; simp only [if_true, nonEmpty_cons_empty]; exact ih (k + 1)
      · simp only [h, if_false, nonEmpty_cons_ne _ _ h, List.drop_succ_cons, ih k]

theorem nonEmpty_dropWhile (l : List Text) : nonEmpty (l.dropWhile (· = [])) = nonEmpty l := by
  induction l with
  | nil => rfl
  | cons x xs ih =>
    by_cases h : x = []
    · subst h; simp only [List.dropWhile_cons, decide_true, if_true, nonEmpty_cons_empty]; exact ih
    · simp [h]

/-! ### decRev -/

/-- decode a list of elements left to right (the first failure decides) -/
def decList : List Text → Except Err (List Text)
  | [] => .ok []
  | x :: xs =>
    match decodeEl x with
    | .error e => .error e
    | .ok t =>
      match decList xs with
      | .error e => .error e
      | .ok ts => .ok (t :: ts)

/-- `decRev` only looks at the non-empty elements, in scan order, and stacks their readings in path order -/
theorem decRev_eq (c acc : List Text) :
    decRev c acc = (match decList (nonEmpty c) with | .error e => .error e | .ok ts => .ok (ts.reverse ++ acc)) := by
  induction c generalizing acc with
  | nil => simp [decRev, nonEmpty, decList]
  | cons x xs ih =>
    by_cases h : x = []
    · subst h; simp only [decRev, if_true, nonEmpty_cons_empty]; exact ih acc
    · simp only [decRev, h, if_false, nonEmpty_cons_ne _ _ h, decList]
      cases hd : decodeEl x with
      | error e => rfl
      | ok t =>
        simp only [ih]
        cases decList (nonEmpty xs) with
        | error e => rfl
        | ok ts => simp

theorem decList_wsgiOf (l : List Text) : decList (l.map wsgiOf) = .ok l := by
  induction l with
  | nil => rfl
  | cons x xs ih => simp [decList, decodeEl_wsgiOf, ih]

theorem decList_length (l ts : List Text) (h : decList l = .ok ts) : ts.length = l.length := by
  induction l generalizing ts with
  | nil => simp [decList] at h; subst h; rfl
  | cons x xs ih =>
    simp only [decList] at h
    cases hd : decodeEl x with
    | error e => simp [hd] at h
    | ok t =>
      simp only [hd] at h
      cases hl : decList xs with
      | error e => simp [hl] at h
      | ok us =>
        simp only [hl, Except.ok.injEq] at h
        subst h
        simp [ih us hl]

/-! ### the joined remainder -/

theorem getLast?_joinWith (l : List Text) (x : Text) (c : Char) :
    (joinWith '/' (l ++ [x ++ [c]])).getLast? = some c := by
  induction l with
  | nil => simp [joinWith]
  | cons y ys ih =>
    cases hys : ys ++ [x ++ [c]] with
    | nil => simp at hys
    | cons z zs =>
      simp only [List.cons_append, hys, joinWith]
      rw [hys] at ih
      rw [List.getLast?_append]
      cases hL : joinWith '/' (z :: zs) with
      | nil => rw [hL] at ih; simp at ih
      | cons b t => rw [List.getLast?_cons_cons, ← hL, ih]; rfl

/-- after the trailing empty elements are stripped the last element is not empty -/
theorem dropWhile_reverse_last (rv : List Text) :
    (rv.dropWhile (· = [])).reverse = [] ∨
    ∃ l x c, (rv.dropWhile (· = [])).reverse = l ++ [x ++ [c]] := by
  induction rv with
  | nil => left; rfl
  | cons y ys ih =>
    by_cases h : y = []
    · subst h; simpa using ih
    · right
      refine ⟨ys.reverse, y.dropLast, y.getLast h, ?_⟩
      simp [h, List.dropLast_concat_getLast h]

end Pyr.Mount
