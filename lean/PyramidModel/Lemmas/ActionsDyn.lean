import PyramidModel.Lemmas.ActionsStatic
/-! Helper lemmas for C04, part 4: invariants of the re-entrant loop for arbitrary `kids`
(actions that append actions while they execute), arbitrary discriminators (thunks included). -/
namespace Pyr.Actions

/-- states the loop of `execute_actions` goes through when committing `top` -/
inductive Reachable (kids : Nat → List Act) (top : List Act) : St → Prop
  | init : Reachable kids top (initSt top)
  | step {st st' : St} {a : Act} : Reachable kids top st → next (absorb st) = (.yielded a, st') →
      Reachable kids top { st' with log := a :: st'.log, pending := kids a.id }

theorem undeferAt_mem {done : List Nat} {o : Int} {l : List Act} {x : Act} (h : x ∈ undeferAt done o l) :
    ∃ y ∈ l, y.order = x.order ∧ y.id = x.id ∧ y.path = x.path := by
  simp only [undeferAt, List.mem_map] at h
  obtain ⟨y, hy, rfl⟩ := h
  refine ⟨y, hy, ?_⟩
  split <;> simp

theorem resolveGroup_out_sub {log g out : List Act} {ov : List Nat} (h : resolveGroup log g = .ok (out, ov)) :
    ∀ a ∈ out, a ∈ g := by
  simp only [resolveGroup] at h
  split at h
  · simp only [Except.ok.injEq, Prod.mk.injEq] at h
    intro a ha
    rw [← h.1] at ha
    exact mem_of_filter ha
  · cases h

theorem groupStep_ok {o : Int} {st st1 : St} {out : List Act} (h : groupStep o st = .ok (out, st1)) :
    (∀ a ∈ out, a.order = o) ∧ (∀ x ∈ st1.remaining, ∃ y ∈ st.remaining, y.order = x.order) ∧
      st1.log = st.log ∧ st1.minOrder = st.minOrder ∧ st1.pending = st.pending ∧ st1.queue = st.queue := by
  simp only [groupStep] at h
  split at h
  · cases h
  · rename_i out' ov hr
    simp only [Except.ok.injEq, Prod.mk.injEq] at h
    obtain ⟨rfl, rfl⟩ := h
    refine ⟨?_, ?_, rfl, rfl, rfl, rfl⟩
    · intro a ha
      have := resolveGroup_out_sub hr a ha
      simpa using (List.mem_filter.mp this).2
    · intro x hx
      obtain ⟨y, hy, hyo, _⟩ := undeferAt_mem (mem_of_filter hx)
      exact ⟨y, hy, hyo⟩

theorem eraseId_sub {i : Nat} {l : List Act} {x : Act} (h : x ∈ eraseId i l) : x ∈ l := by
  induction l with
  | nil => simp [eraseId] at h
  | cons y ys ih =>
    simp only [eraseId] at h
    split at h
    · exact List.mem_cons_of_mem _ h
    · rcases List.mem_cons.mp h with rfl | h
      · simp
      · exact List.mem_cons_of_mem _ (ih h)

/-- what a `yield` out of the generator body guarantees -/
theorem advance_yield : ∀ (n : Nat) (st : St) (a : Act) (st' : St), advance n st = (.yielded a, st') →
    st'.log = st.log ∧ st'.pending = st.pending ∧ st'.minOrder = some a.order ∧
      (∀ b ∈ st'.queue, b.order = a.order) ∧ (∀ x ∈ st'.remaining, a.order ≤ x.order) ∧
      (∀ m, st.minOrder = some m → m ≤ a.order) := by
  intro n
  induction n with
  | zero => intro st a st' h; simp [advance] at h
  | succ n ih =>
    intro st a st' h
    rw [advance_succ] at h
    cases ho : minOrd st.remaining with
    | none => rw [ho] at h; cases h
    | some o =>
      rw [ho] at h
      simp only at h
      obtain ⟨_, hmin⟩ := minOrd_spec ho
      cases hr : regressAt st.minOrder o with
      | some m => rw [hr] at h; cases h
      | none =>
        rw [hr] at h
        simp only at h
        have hm : ∀ m, st.minOrder = some m → m ≤ o := by
          intro m hm
          simp only [regressAt, hm] at hr
          split at hr
          · cases hr
          · omega
        cases hg : groupStep o st with
        | error ks => rw [hg] at h; cases h
        | ok r =>
          obtain ⟨out, st1⟩ := r
          rw [hg] at h
          simp only at h
          obtain ⟨hout, hrem, hlog, hmo, hpend, _⟩ := groupStep_ok hg
          have hrem' : ∀ x ∈ st1.remaining, o ≤ x.order := by
            intro x hx
            obtain ⟨y, hy, hyo⟩ := hrem x hx
            rw [← hyo]; exact hmin y hy
          cases out with
          | nil =>
            simp only at h
            obtain ⟨h1, h2, h3, h4, h5, h6⟩ := ih st1 a st' h
            refine ⟨h1.trans hlog, h2.trans hpend, h3, h4, h5, ?_⟩
            intro m hm'
            exact h6 m (hmo.trans hm')
          | cons b q =>
            simp only [yieldHead, Prod.mk.injEq, Ev.yielded.injEq] at h
            obtain ⟨rfl, rfl⟩ := h
            have hbo : b.order = o := hout b (by simp)
            refine ⟨hlog, hpend, rfl, ?_, ?_, ?_⟩
            · intro c hc; rw [hbo]; exact hout c (by simp [hc])
            · intro x hx
              rw [hbo]
              exact hrem' x (eraseId_sub hx)
            · intro m hm'; rw [hbo]; exact hm m hm'

/-- what a refusal out of the generator body means -/
theorem advance_regress : ∀ (n : Nat) (st : St) (o m : Int) (st' : St), advance n st = (.regress o m, st') →
    st.minOrder = some m ∧ o < m ∧ ∃ x ∈ st.remaining, x.order = o := by
  intro n
  induction n with
  | zero => intro st o m st' h; simp [advance] at h
  | succ n ih =>
    intro st o m st' h
    rw [advance_succ] at h
    cases ho : minOrd st.remaining with
    | none => rw [ho] at h; cases h
    | some o' =>
      rw [ho] at h
      simp only at h
      obtain ⟨hex, _⟩ := minOrd_spec ho
      cases hr : regressAt st.minOrder o' with
      | some m' =>
        rw [hr] at h
        simp only [Prod.mk.injEq, Ev.regress.injEq] at h
        obtain ⟨⟨rfl, rfl⟩, _⟩ := h
        simp only [regressAt] at hr
        cases hmo : st.minOrder with
        | none => rw [hmo] at hr; cases hr
        | some m'' =>
          rw [hmo] at hr
          simp only at hr
          split at hr
          · simp only [Option.some.injEq] at hr; subst hr; exact ⟨rfl, by assumption, hex⟩
          · cases hr
      | none =>
        rw [hr] at h
        simp only at h
        cases hg : groupStep o' st with
        | error ks => rw [hg] at h; cases h
        | ok r =>
          obtain ⟨out, st1⟩ := r
          rw [hg] at h
          simp only at h
          obtain ⟨_, hrem, _, hmo, _, _⟩ := groupStep_ok hg
          cases out with
          | nil =>
            simp only at h
            obtain ⟨h1, h2, x, hx, hxo⟩ := ih st1 o m st' h
            obtain ⟨y, hy, hyo⟩ := hrem x hx
            exact ⟨hmo ▸ h1, h2, y, hy, hyo.trans hxo⟩
          | cons b q => simp [yieldHead] at h

/-- the generator never touches the log -/
theorem advance_log : ∀ (n : Nat) (st : St), (advance n st).2.log = st.log := by
  intro n
  induction n with
  | zero => intro st; rfl
  | succ n ih =>
    intro st
    rw [advance_succ]
    cases minOrd st.remaining with
    | none => rfl
    | some o =>
      simp only
      cases regressAt st.minOrder o with
      | some m => rfl
      | none =>
        simp only
        cases hg : groupStep o st with
        | error ks => rfl
        | ok r =>
          obtain ⟨out, st1⟩ := r
          simp only
          obtain ⟨_, _, hlog, _⟩ := groupStep_ok hg
          cases out with
          | nil => simp only; rw [ih st1, hlog]
          | cons b q => simp only [yieldHead]; exact hlog

theorem next_log (st : St) : (next (absorb st)).2.log = st.log := by
  have habs : (absorb st).log = st.log := by
    unfold absorb; cases st.pending <;> rfl
  unfold next
  cases (absorb st).queue with
  | nil => simp only; rw [advance_log, habs]
  | cons a q => simp only [yieldHead]; exact habs

/-- the phase bookkeeping of a reachable state -/
structure OInv (st : St) : Prop where
  minIsHead : st.minOrder = st.log.head?.map (·.order)
  sorted : st.log.Pairwise (fun a b => b.order ≤ a.order)
  remGe : ∀ m, st.minOrder = some m → ∀ x ∈ st.remaining, m ≤ x.order
  queueLe : ∀ a ∈ st.queue, ∀ x ∈ st.remaining, a.order ≤ x.order
  queueGe : ∀ a ∈ st.queue, ∀ m, st.minOrder = some m → m ≤ a.order
  queueSame : ∀ a ∈ st.queue, ∀ b ∈ st.queue, a.order = b.order

theorem log_le_min {st : St} (h : OInv st) : ∀ b ∈ st.log, ∀ m, st.minOrder = some m → b.order ≤ m := by
  intro b hb m hm
  have h1 := h.minIsHead
  have h2 := h.sorted
  cases hl : st.log with
  | nil => rw [hl] at hb; cases hb
  | cons c cs =>
    rw [hl] at h1 h2 hb
    rw [hm] at h1
    simp only [List.head?_cons, Option.map_some, Option.some.injEq] at h1
    subst h1
    rcases List.mem_cons.mp hb with rfl | hb
    · exact Int.le_refl _
    · exact (List.pairwise_cons.mp h2).1 b hb

theorem OInv.step {kids : Nat → List Act} {st st' : St} {a : Act} (h : OInv st)
    (hn : next (absorb st) = (.yielded a, st')) :
    OInv { st' with log := a :: st'.log, pending := kids a.id } := by
  have key : st'.log = st.log ∧ st'.minOrder = some a.order ∧
      (∀ b ∈ st'.queue, b.order = a.order) ∧ (∀ x ∈ st'.remaining, a.order ≤ x.order) ∧
      (∀ m, st.minOrder = some m → m ≤ a.order) := by
    unfold absorb at hn
    cases hp : st.pending with
    | nil =>
      rw [hp] at hn
      simp only at hn
      unfold next at hn
      cases hq : st.queue with
      | nil =>
        rw [hq] at hn
        simp only at hn
        obtain ⟨h1, _, h3, h4, h5, h6⟩ := advance_yield _ _ _ _ hn
        exact ⟨h1, h3, h4, h5, h6⟩
      | cons b q =>
        rw [hq] at hn
        simp only [yieldHead, Prod.mk.injEq, Ev.yielded.injEq] at hn
        obtain ⟨rfl, rfl⟩ := hn
        have hb : b ∈ st.queue := by rw [hq]; simp
        refine ⟨rfl, rfl, ?_, ?_, ?_⟩
        · intro c hc; exact h.queueSame c (by rw [hq]; simp [hc]) b hb
        · intro x hx; exact h.queueLe b hb x (eraseId_sub hx)
        · intro m hm; exact h.queueGe b hb m hm
    | cons p ps =>
      rw [hp] at hn
      simp only at hn
      unfold next at hn
      simp only at hn
      obtain ⟨h1, _, h3, h4, h5, h6⟩ := advance_yield _ _ _ _ hn
      exact ⟨h1, h3, h4, h5, h6⟩
  obtain ⟨hlog, hmin, hq, hrem, hge⟩ := key
  refine ⟨?_, ?_, ?_, ?_, ?_, ?_⟩
  · simp [hmin]
  · simp only
    rw [List.pairwise_cons, hlog]
    refine ⟨?_, h.sorted⟩
    intro b hb
    cases hm : st.minOrder with
    | none =>
      have := h.minIsHead
      rw [hm] at this
      cases hl : st.log with
      | nil => rw [hl] at hb; cases hb
      | cons c cs => rw [hl] at this; simp at this
    | some m => exact Int.le_trans (log_le_min h b hb m hm) (hge m hm)
  · intro m hm x hx
    simp only at hm hx
    rw [hmin] at hm; cases hm
    exact hrem x hx
  · intro b hb x hx
    simp only at hb hx
    rw [hq b hb]; exact hrem x hx
  · intro b hb m hm
    simp only at hb hm
    rw [hmin] at hm; cases hm
    rw [hq b hb]; exact Int.le_refl _
  · intro b hb c hc
    simp only at hb hc
    rw [hq b hb, hq c hc]

theorem OInv.init (top : List Act) : OInv (initSt top) :=
  ⟨rfl, List.Pairwise.nil, (by intro m hm; cases hm), (by intro a ha; cases ha), (by intro a ha; cases ha),
    (by intro a ha; cases ha)⟩

theorem Reachable.oinv {kids : Nat → List Act} {top : List Act} {st : St} (h : Reachable kids top st) : OInv st := by
  induction h with
  | init => exact OInv.init top
  | step _ hn ih => exact ih.step hn

/-- the loop only visits reachable states; its final log is the log of one of them -/
theorem exec_reachable {kids : Nat → List Act} {top : List Act} : ∀ (f : Nat) (st : St), Reachable kids top st →
    ∃ st'', Reachable kids top st'' ∧ (exec kids f st).2.log = st''.log ∧
      ((exec kids f st).1 = .fuel ∨ (exec kids f st) = ((next (absorb st'')).1.outcome, (next (absorb st'')).2)) := by
  intro f
  induction f with
  | zero => intro st h; exact ⟨st, h, rfl, Or.inl rfl⟩
  | succ f ih =>
    intro st h
    simp only [exec]
    cases hn : next (absorb st) with
    | mk ev st' =>
      cases ev with
      | yielded a => exact ih _ (Reachable.step h hn)
      | done | conflict _ | regress _ _ | stuck =>
        refine ⟨st, h, ?_, Or.inr (by rw [hn])⟩
        have := next_log st
        rw [hn] at this
        exact this

end Pyr.Actions
