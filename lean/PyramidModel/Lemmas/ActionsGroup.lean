import PyramidModel.Lemmas.ActionsBasic
/-! Helper lemmas for C04, part 2: one discriminator, one order group: `resolveDisc`/`resolveGroup`
against the declarative `settled`/`contested`/`groupRuns`. -/
namespace Pyr.Actions

theorem mem_withKey {g : List Act} {d : Nat} {x : Act} : x ∈ withKey g d ↔ x ∈ g ∧ x.key = some d := by
  simp [withKey, List.mem_filter]

/-- `f` heads the actions of `g` with discriminator `d`: every other one lies strictly below it -/
def Heads (g : List Act) (d : Nat) (f : Act) : Prop :=
  ∀ x ∈ withKey g d, x.id = f.id ∨ StrictPrefix f.path x.path

theorem isWinner_iff {g : List Act} {d : Nat} {w : Act} (hw : w.key = some d) :
    isWinner g w = true ↔ Heads g d w := by
  simp only [isWinner, Heads, List.all_eq_true, Bool.or_eq_true, beq_iff_eq, bne_iff_ne, ne_eq,
    strictExt_iff, mem_withKey, hw]
  constructor
  · intro h x hx
    rcases h x hx.1 with (h | h) | h
    · exact Or.inl h
    · exact absurd hx.2 h
    · exact Or.inr h
  · intro h x hx
    by_cases hk : x.key = some d
    · rcases h x ⟨hx, hk⟩ with h | h
      · exact Or.inl (Or.inl h)
      · exact Or.inr h
    · exact Or.inl (Or.inr hk)

theorem IdsNodup.withKey {g : List Act} (h : IdsNodup g) (d : Nat) : IdsNodup (withKey g d) :=
  h.filter _

/-- a head is the action `pickFirst` selects -/
theorem pickFirst_of_heads {g : List Act} (hn : IdsNodup g) {d : Nat} {a : Act} {as : List Act}
    (hG : withKey g d = a :: as) {w : Act} (hw : w ∈ withKey g d) (hh : Heads g d w) :
    pickFirst a as = w := by
  have hf : pickFirst a as ∈ withKey g d := by rw [hG]; exact pickFirst_mem a as
  have hmin := pickFirst_min a as w (by rw [← hG]; exact hw)
  rcases hh _ hf with h | h
  · exact eq_of_id_eq (hn.withKey d) hf hw h
  · rw [pathLt_of_strictPrefix h] at hmin; cases hmin

theorem heads_unique {g : List Act} (hn : IdsNodup g) {d : Nat} {w w' : Act}
    (hw : w ∈ withKey g d) (hh : Heads g d w) (hw' : w' ∈ withKey g d) (hh' : Heads g d w') : w = w' := by
  cases hG : withKey g d with
  | nil => rw [hG] at hw; cases hw
  | cons a as => rw [← pickFirst_of_heads hn hG hw hh, ← pickFirst_of_heads hn hG hw' hh']

/-- explicit form of `resolveDisc` once the discriminator's actions are named -/
theorem resolveDisc_eq {log g : List Act} {d : Nat} {a : Act} {as : List Act} (hG : withKey g d = a :: as) :
    resolveDisc log g d =
      (let first := pickFirst a as
       let rest := (a :: as).filter (fun r => r.id != first.id)
       match prevOf log d with
       | some p =>
         let restO := (rest.filter (fun r => strictExt p.path r.path)).map (·.id)
         let restC := rest.any (fun r => !strictExt p.path r.path)
         if strictExt p.path first.path then ⟨restC, first.id :: restO, none⟩
         else ⟨true, restO, none⟩
       | none =>
         let restO := (rest.filter (fun r => strictExt first.path r.path)).map (·.id)
         let restC := rest.any (fun r => !strictExt first.path r.path)
         ⟨restC, restO, some first.id⟩) := by
  unfold resolveDisc
  have : List.filter (fun a => a.key == some d) g = a :: as := hG
  rw [this]
  rfl

/-- the `rest` loop raises nothing iff every action other than `f` lies strictly below the base path -/
theorem restC_false_iff_base {g : List Act} {d : Nat} {a : Act} {as : List Act} (hG : withKey g d = a :: as)
    (f : Act) (b : List Nat) :
    ((a :: as).filter (fun r => r.id != f.id)).any (fun r => !strictExt b r.path) = false ↔
      ∀ x ∈ withKey g d, x.id = f.id ∨ StrictPrefix b x.path := by
  rw [hG]
  simp only [List.any_eq_false, List.mem_filter, bne_iff_ne, ne_eq, Bool.not_eq_true', Bool.not_eq_false', and_imp]
  constructor
  · intro h x hx
    by_cases e : x.id = f.id
    · exact Or.inl e
    · exact Or.inr ((strictExt_iff _ _).mp (by simpa using h x hx e))
  · intro h x hx e
    rcases h x hx with h | h
    · exact absurd h e
    · simpa using (strictExt_iff _ _).mpr h

theorem restC_false_iff {g : List Act} {d : Nat} {a : Act} {as : List Act} (hG : withKey g d = a :: as) (f : Act) :
    ((a :: as).filter (fun r => r.id != f.id)).any (fun r => !strictExt f.path r.path) = false ↔ Heads g d f := by
  rw [Heads, hG]
  simp only [List.any_eq_false, List.mem_filter, bne_iff_ne, ne_eq, Bool.not_eq_true', Bool.not_eq_false', and_imp]
  constructor
  · intro h x hx
    by_cases e : x.id = f.id
    · exact Or.inl e
    · exact Or.inr ((strictExt_iff _ _).mp (by simpa using h x hx e))
  · intro h x hx e
    rcases h x hx with h | h
    · exact absurd h e
    · simpa using (strictExt_iff _ _).mpr h

theorem mem_restO {G : List Act} (f x : Act) :
    x.id ∈ ((G.filter (fun r => r.id != f.id)).filter (fun r => strictExt f.path r.path)).map (·.id) ↔
      ∃ y ∈ G, y.id = x.id ∧ y.id ≠ f.id ∧ StrictPrefix f.path y.path := by
  simp only [List.mem_map, List.mem_filter, bne_iff_ne, ne_eq, strictExt_iff]
  constructor
  · rintro ⟨y, ⟨⟨hy, h1⟩, h2⟩, e⟩; exact ⟨y, hy, e, h1, h2⟩
  · rintro ⟨y, hy, e, h1, h2⟩; exact ⟨y, ⟨⟨hy, h1⟩, h2⟩, e⟩

theorem settled_none {log g : List Act} {d : Nat} (hp : prevOf log d = none) :
    settled log g d = true ↔ ∃ w ∈ withKey g d, Heads g d w := by
  simp only [settled, hp, List.any_eq_true]
  constructor
  · rintro ⟨w, hw, h⟩; exact ⟨w, hw, (isWinner_iff (mem_withKey.mp hw).2).mp h⟩
  · rintro ⟨w, hw, h⟩; exact ⟨w, hw, (isWinner_iff (mem_withKey.mp hw).2).mpr h⟩

theorem settled_some {log g : List Act} {d : Nat} {p : Act} (hp : prevOf log d = some p) :
    settled log g d = true ↔ ∀ x ∈ withKey g d, StrictPrefix p.path x.path := by
  simp only [settled, hp, List.all_eq_true, strictExt_iff]

/-- the group has, for discriminator `d`, an action heading the others (always true of a group
with a single action for `d`) -/
def Headed (g : List Act) (d : Nat) : Prop := ∃ w ∈ withKey g d, Heads g d w

/-- Soundness of the model's per-discriminator verdict: no conflict ⇒ the discriminator is settled. -/
theorem resolveDisc_sound {log g : List Act} (hn : IdsNodup g) {d : Nat} (hne : withKey g d ≠ [])
    (h : (resolveDisc log g d).conflict = false) : settled log g d = true := by
  cases hG : withKey g d with
  | nil => exact absurd hG hne
  | cons a as =>
    rw [resolveDisc_eq hG] at h
    have hf : pickFirst a as ∈ withKey g d := by rw [hG]; exact pickFirst_mem a as
    cases hp : prevOf log d with
    | none =>
      simp only [hp] at h
      exact (settled_none hp).mpr ⟨_, hf, (restC_false_iff hG _).mp h⟩
    | some p =>
      simp only [hp] at h
      split at h
      · rename_i hs
        have hh := (restC_false_iff_base hG _ p.path).mp h
        have hs' := (strictExt_iff _ _).mp hs
        refine (settled_some hp).mpr ?_
        intro x hx
        rcases hh x hx with e | e
        · have : x = pickFirst a as := eq_of_id_eq (hn.withKey d) hx hf e
          subst this; exact hs'
        · exact e
      · cases h

end Pyr.Actions

namespace Pyr.Actions

/-- Completeness of the verdict: a settled discriminator gives no conflict.  (Before d8099dc this failed
for "late siblings", F-C04b: `rest` was compared with the group's first action although the discriminator had
already run.) -/
theorem resolveDisc_complete {log g : List Act} (hn : IdsNodup g) {d : Nat} (hne : withKey g d ≠ [])
    (hs : settled log g d = true) : (resolveDisc log g d).conflict = false := by
  cases hG : withKey g d with
  | nil => exact absurd hG hne
  | cons a as =>
    rw [resolveDisc_eq hG]
    have hf : pickFirst a as ∈ withKey g d := by rw [hG]; exact pickFirst_mem a as
    cases hp : prevOf log d with
    | none =>
      simp only [hp]
      obtain ⟨w, hw, hhw⟩ := (settled_none hp).mp hs
      rw [pickFirst_of_heads hn hG hw hhw]
      exact (restC_false_iff hG _).mpr hhw
    | some p =>
      simp only [hp]
      have hall := (settled_some hp).mp hs
      have : strictExt p.path (pickFirst a as).path = true := (strictExt_iff _ _).mpr (hall _ hf)
      simp only [this, if_true]
      exact (restC_false_iff_base hG _ p.path).mpr (fun x hx => Or.inr (hall x hx))

theorem exists_cons_of_ne_nil {l : List Act} (h : l ≠ []) : ∃ a as, l = a :: as := by
  cases l with
  | nil => exact absurd rfl h
  | cons a as => exact ⟨a, as, rfl⟩

/-- what a conflict-free verdict contains -/
theorem resolveDisc_shape {log g : List Act} (hn : IdsNodup g) {d : Nat} (hne : withKey g d ≠ [])
    (h : (resolveDisc log g d).conflict = false) :
    ∃ f ∈ withKey g d, ((prevOf log d).isNone → Heads g d f) ∧
      (resolveDisc log g d).winner = (if (prevOf log d).isNone then some f.id else none) ∧
      ∀ i, i ∈ (resolveDisc log g d).overridden ↔
        ∃ x ∈ withKey g d, x.id = i ∧ ¬ ((prevOf log d).isNone ∧ x.id = f.id) := by
  obtain ⟨a, as, hG⟩ := exists_cons_of_ne_nil hne
  rw [resolveDisc_eq hG] at h ⊢
  have hf : pickFirst a as ∈ withKey g d := by rw [hG]; exact pickFirst_mem a as
  have hmem : ∀ x, x ∈ a :: as ↔ x ∈ withKey g d := by intro x; rw [hG]
  refine ⟨pickFirst a as, hf, ?_⟩
  cases hp : prevOf log d with
  | none =>
    simp only [hp] at h ⊢
    have hh := (restC_false_iff hG _).mp h
    refine ⟨fun _ => hh, by simp, ?_⟩
    intro i
    constructor
    · intro hi
      obtain ⟨x, hx, rfl⟩ := List.mem_map.mp hi
      simp only [List.mem_filter, bne_iff_ne, ne_eq] at hx
      exact ⟨x, (hmem x).mp hx.1.1, rfl, fun c => hx.1.2 c.2⟩
    · rintro ⟨x, hx, rfl, hc⟩
      have hne' : x.id ≠ (pickFirst a as).id := fun e => hc ⟨by simp, e⟩
      rcases hh x hx with e | e
      · exact absurd e hne'
      · exact (mem_restO _ x).mpr ⟨x, (hmem x).mpr hx, rfl, hne', e⟩
  | some p =>
    simp only [hp] at h ⊢
    split at h
    · rename_i hs
      simp only [hs, if_true]
      have hh := (restC_false_iff_base hG _ p.path).mp h
      refine ⟨by simp, by simp, ?_⟩
      intro i
      simp only [List.mem_cons, Option.isNone_some, Bool.false_eq_true, false_and, not_false_eq_true, and_true]
      constructor
      · rintro (rfl | hi)
        · exact ⟨_, hf, rfl⟩
        · obtain ⟨x, hx, rfl⟩ := List.mem_map.mp hi
          simp only [List.mem_filter] at hx
          exact ⟨x, (hmem x).mp hx.1.1, rfl⟩
      · rintro ⟨x, hx, rfl⟩
        by_cases e : x.id = (pickFirst a as).id
        · exact Or.inl e
        · rcases hh x hx with e' | e'
          · exact absurd e' e
          · refine Or.inr (List.mem_map.mpr ⟨x, ?_, rfl⟩)
            simp only [List.mem_filter, bne_iff_ne, ne_eq, strictExt_iff]
            exact ⟨⟨(hmem x).mpr hx, e⟩, e'⟩
    · cases h

theorem mem_discsOf {g : List Act} {d : Nat} : d ∈ discsOf g ↔ withKey g d ≠ [] := by
  simp only [discsOf, List.mem_eraseDups, List.mem_filterMap, ne_eq]
  constructor
  · rintro ⟨a, ha, hk⟩ hnil
    have : a ∈ withKey g d := mem_withKey.mpr ⟨ha, hk⟩
    rw [hnil] at this; cases this
  · intro h
    cases hG : withKey g d with
    | nil => exact absurd hG h
    | cons a as =>
      have : a ∈ withKey g d := by rw [hG]; simp
      exact ⟨a, (mem_withKey.mp this).1, (mem_withKey.mp this).2⟩

/-- The conflict keys of the model are exactly the contested discriminators. -/
theorem resolveGroup_error {log g : List Act} (hn : IdsNodup g) {ks : List Nat}
    (h : resolveGroup log g = .error ks) :
    ks ≠ [] ∧ ks = (discsOf g).filter (fun d => (resolveDisc log g d).conflict) ∧
      (∀ d ∈ contested log g, d ∈ ks) ∧ ks = contested log g := by
  simp only [resolveGroup] at h
  split at h
  · cases h
  · rename_i hne
    simp only [Except.error.injEq] at h
    have hks : ks = (discsOf g).filter (fun d => (resolveDisc log g d).conflict) := by
      rw [← h]; simp [List.filter_map, Function.comp_def]
    refine ⟨?_, hks, ?_, ?_⟩
    · intro e; rw [← h] at e; simp [e] at hne
    · intro d hd
      simp only [contested, List.mem_filter, Bool.not_eq_true'] at hd
      rw [hks, List.mem_filter]
      refine ⟨hd.1, ?_⟩
      cases hc : (resolveDisc log g d).conflict with
      | true => rfl
      | false => rw [resolveDisc_sound hn (mem_discsOf.mp hd.1) hc] at hd; cases hd.2
    · rw [hks, contested]
      apply List.filter_congr
      intro d hd
      have hne' := mem_discsOf.mp hd
      cases hc : (resolveDisc log g d).conflict with
      | true =>
        cases hs : settled log g d with
        | false => rfl
        | true => rw [resolveDisc_complete hn hne' hs] at hc; cases hc
      | false => rw [resolveDisc_sound hn hne' hc]; rfl

end Pyr.Actions

namespace Pyr.Actions

theorem groupRuns_mem {log g : List Act} {a : Act} :
    a ∈ groupRuns log g ↔ a ∈ g ∧ (a.key = none ∨ ∃ d, a.key = some d ∧ prevOf log d = none ∧ isWinner g a = true) := by
  simp only [groupRuns, List.mem_filter]
  constructor
  · rintro ⟨ha, h⟩
    refine ⟨ha, ?_⟩
    cases hk : a.key with
    | none => exact Or.inl rfl
    | some d =>
      rw [hk] at h
      simp only [Bool.and_eq_true, Option.isNone_iff_eq_none] at h
      exact Or.inr ⟨d, rfl, h.1, h.2⟩
  · rintro ⟨ha, h⟩
    refine ⟨ha, ?_⟩
    rcases h with h | ⟨d, hk, hp, hw⟩
    · rw [h]
    · rw [hk]; simp [hp, hw]

/-- membership of an action's id among the model's per-discriminator winners -/
theorem winners_mem {log g : List Act} (hn : IdsNodup g)
    (hall : ∀ d ∈ discsOf g, (resolveDisc log g d).conflict = false)
    {a : Act} (ha : a ∈ g) {d : Nat} (hk : a.key = some d) :
    a.id ∈ ((discsOf g).map (fun d => (d, resolveDisc log g d))).filterMap (fun r => r.2.winner) ↔
      prevOf log d = none ∧ isWinner g a = true := by
  have haG : a ∈ withKey g d := mem_withKey.mpr ⟨ha, hk⟩
  have hd : d ∈ discsOf g := mem_discsOf.mpr (by intro e; rw [e] at haG; cases haG)
  simp only [List.mem_filterMap, List.mem_map]
  constructor
  · rintro ⟨r, ⟨d', hd', rfl⟩, hw⟩
    obtain ⟨f, hf, hh, hwin, _⟩ := resolveDisc_shape hn (mem_discsOf.mp hd') (hall d' hd')
    simp only at hw
    rw [hwin] at hw
    split at hw
    · rename_i hpn
      simp only [Option.some.injEq] at hw
      have hfa : f = a := eq_of_id_eq hn (mem_withKey.mp hf).1 ha hw
      subst hfa
      have : d' = d := by
        have := (mem_withKey.mp hf).2; rw [hk] at this; exact (Option.some.inj this).symm
      subst this
      exact ⟨by simpa using hpn, (isWinner_iff hk).mpr (hh hpn)⟩
    · cases hw
  · rintro ⟨hp, hw⟩
    obtain ⟨f, hf, hh, hwin, _⟩ := resolveDisc_shape hn (mem_discsOf.mp hd) (hall d hd)
    have hfa : a = f := heads_unique hn haG ((isWinner_iff hk).mp hw) hf (hh (by simp [hp]))
    subst hfa
    exact ⟨(d, resolveDisc log g d), ⟨d, hd, rfl⟩, by simp [hwin, hp]⟩

/-- A conflict-free group: the model's output is `groupRuns` (declaration order kept), the
overridden ids are exactly the group's other actions, and no discriminator is contested. -/
theorem resolveGroup_ok {log g : List Act} (hn : IdsNodup g) {out : List Act} {ov : List Nat}
    (h : resolveGroup log g = .ok (out, ov)) :
    contested log g = [] ∧ out = groupRuns log g ∧
      ∀ i, i ∈ ov ↔ ∃ x ∈ g, x.id = i ∧ x ∉ groupRuns log g := by
  simp only [resolveGroup] at h
  split at h
  · rename_i hemp
    simp only [Except.ok.injEq, Prod.mk.injEq] at h
    have hall : ∀ d ∈ discsOf g, (resolveDisc log g d).conflict = false := by
      intro d hd
      cases hc : (resolveDisc log g d).conflict with
      | false => rfl
      | true =>
        have : d ∈ List.map (fun r : Nat × DiscRes => r.1)
            (((discsOf g).map (fun d => (d, resolveDisc log g d))).filter (fun r => r.2.conflict)) := by
          simp only [List.mem_map, List.mem_filter]
          exact ⟨(d, resolveDisc log g d), ⟨⟨d, hd, rfl⟩, hc⟩, rfl⟩
        rw [List.isEmpty_iff.mp hemp] at this; cases this
    refine ⟨?_, ?_, ?_⟩
    · simp only [contested, List.filter_eq_nil_iff, Bool.not_eq_true', Bool.not_eq_false]
      intro d hd
      simpa using resolveDisc_sound hn (mem_discsOf.mp hd) (hall d hd)
    · rw [← h.1, groupRuns]
      apply List.filter_congr
      intro a ha
      cases hk : a.key with
      | none => simp
      | some d =>
        have := winners_mem hn hall ha hk
        simp only [Option.isNone_some, Bool.false_or]
        rw [Bool.eq_iff_iff]
        simp only [List.contains_iff_mem, Bool.and_eq_true, Option.isNone_iff_eq_none]
        exact this
    · intro i
      rw [← h.2]
      simp only [List.mem_flatMap, List.mem_map]
      constructor
      · rintro ⟨r, ⟨d, hd, rfl⟩, hi⟩
        obtain ⟨f, hf, hh, _, hov⟩ := resolveDisc_shape hn (mem_discsOf.mp hd) (hall d hd)
        obtain ⟨x, hx, rfl, hc⟩ := (hov i).mp hi
        refine ⟨x, (mem_withKey.mp hx).1, rfl, ?_⟩
        intro hr
        rcases (groupRuns_mem.mp hr).2 with hk | ⟨d', hk, hp, hw⟩
        · rw [(mem_withKey.mp hx).2] at hk; cases hk
        · have : d' = d := by have := (mem_withKey.mp hx).2; rw [hk] at this; exact Option.some.inj this
          subst this
          have : x = f := heads_unique hn hx ((isWinner_iff hk).mp hw) hf (hh (by simp [hp]))
          exact hc ⟨by simp [hp], by rw [this]⟩
      · rintro ⟨x, hx, rfl, hnr⟩
        cases hk : x.key with
        | none => exact absurd (groupRuns_mem.mpr ⟨hx, Or.inl hk⟩) hnr
        | some d =>
          have hxG : x ∈ withKey g d := mem_withKey.mpr ⟨hx, hk⟩
          have hd : d ∈ discsOf g := mem_discsOf.mpr (by intro e; rw [e] at hxG; cases hxG)
          obtain ⟨f, hf, hh, _, hov⟩ := resolveDisc_shape hn (mem_discsOf.mp hd) (hall d hd)
          refine ⟨(d, resolveDisc log g d), ⟨d, hd, rfl⟩, (hov x.id).mpr ⟨x, hxG, rfl, ?_⟩⟩
          rintro ⟨hp, he⟩
          have : x = f := eq_of_id_eq hn hx (mem_withKey.mp hf).1 he
          subst this
          exact hnr (groupRuns_mem.mpr ⟨hx, Or.inr ⟨d, hk, by simpa using hp, (isWinner_iff hk).mpr (hh hp)⟩⟩)
  · cases h

/-- the model accepts exactly the uncontested groups -/
theorem resolveGroup_ok_of_uncontested {log g : List Act} (hn : IdsNodup g)
    (hc : contested log g = []) : ∃ ov, resolveGroup log g = .ok (groupRuns log g, ov) := by
  cases h : resolveGroup log g with
  | error ks =>
    obtain ⟨hne, _, _, heq⟩ := resolveGroup_error hn h
    rw [heq] at hne; exact absurd hc hne
  | ok r =>
    obtain ⟨out, ov⟩ := r
    obtain ⟨_, ho, _⟩ := resolveGroup_ok hn h
    exact ⟨ov, by rw [ho]⟩

end Pyr.Actions
