import PyramidModel.Security
/-!
C05 helper lemmas, part 1: the trace invariant.

`Inv views pol prev (trace, outcome)` bundles what every run of the model maintains:
* `good`     — every body event whose derived view carries a guard `p` is *immediately* preceded by
               `permits ctx p ↦ true` (`prev` is the event standing before the trace);
* `tight`    — a refusal (`permits … ↦ false`) is the last event of its trace and the outcome is HTTPForbidden;
* `truthful` — every recorded answer is the policy's answer for that (context, permission);
* `src`      — every body event belongs to a registered derived view (tag, variant and guard agree).
It is preserved by appending a run after a run that did not end in HTTPForbidden, which is the only way the
model ever concatenates traces inside one phase.
-/
namespace Pyr.Security

def Event.isRefusal : Event → Bool
  | .permits _ _ false => true
  | _ => false

def Event.isBody : Event → Bool
  | .body .. => true
  | _ => false

/-- the check for one event given the event before it -/
def okStep (prev : Option Event) : Event → Bool
  | .body t _ c (some p) => prev == some (.permits c p true) || prev == some (.deco t c (some p))
  | .deco t c (some p) => prev == some (.permits c p true) || prev == some (.deco t c (some p))
  | _ => true

/-- does the chain reach the permission check before any user decorator code? -/
def securedFirst : List Layer → Bool
  | [] => false
  | .secured :: _ => true
  | .decorated :: _ => false
  | _ :: rest => securedFirst rest

/-- the event standing before a guarded piece of user code of view `d` is its grant, or that view's decorator
(which itself stands after the grant) -/
def Armed (prev : Option Event) (d : DView) (ctx p : Nat) : Prop :=
  prev = some (.permits ctx p true) ∨ prev = some (.deco d.tag ctx (some p))

def okFrom (prev : Option Event) : List Event → Bool
  | [] => true
  | e :: es => okStep prev e && okFrom (some e) es

def tight : List Event → Outcome → Bool
  | [], _ => true
  | e :: es, o => if e.isRefusal then es.isEmpty && o == .raised kForbidden else tight es o

def refusalFree (l : List Event) : Bool := l.all fun e => !e.isRefusal

def truthfulEv (pol : Nat → Nat → Bool) : Event → Bool
  | .permits c p a => a == pol c p
  | _ => true

def truthful (pol : Nat → Nat → Bool) (l : List Event) : Bool := l.all (truthfulEv pol)

def FromViews (views : List DView) (l : List Event) : Prop :=
  ∀ tag exc c g, Event.body tag exc c g ∈ l → ∃ d ∈ views, d.tag = tag ∧ d.exc = exc ∧ d.guard = g

/-- the policy is only ever asked about a permission some registered view is guarded by -/
def AskedFor (views : List DView) (l : List Event) : Prop :=
  ∀ c p a, Event.permits c p a ∈ l → ∃ d ∈ views, d.guard = some p

structure Inv (views : List DView) (pol : Nat → Nat → Bool) (prev : Option Event) (r : Res) : Prop where
  good : okFrom prev r.1 = true
  tgt : tight r.1 r.2 = true
  tru : truthful pol r.1 = true
  src : FromViews views r.1
  asked : AskedFor views r.1

theorem okStep_of_none {prev : Option Event} {e : Event} (h : okStep none e = true) : okStep prev e = true := by
  cases e with
  | body t x c g =>
    cases g with
    | none => rfl
    | some p => simp [okStep] at h
  | deco t c g =>
    cases g with
    | none => rfl
    | some p => simp [okStep] at h
  | _ => rfl

theorem okStep_armed {prev : Option Event} {d : DView} {ctx p : Nat} (h : Armed prev d ctx p) :
    okStep prev (.deco d.tag ctx (some p)) = true ∧ ∀ x, okStep prev (.body d.tag x ctx (some p)) = true := by
  rcases h with h | h <;> subst h <;> simp [okStep]

theorem okFrom_of_none {prev : Option Event} {l : List Event} (h : okFrom none l = true) : okFrom prev l = true := by
  cases l with
  | nil => rfl
  | cons e es =>
    simp only [okFrom, Bool.and_eq_true] at h ⊢
    exact ⟨okStep_of_none h.1, h.2⟩

theorem okFrom_append {a b : List Event} : ∀ {prev : Option Event}, okFrom prev a = true → okFrom none b = true →
    okFrom prev (a ++ b) = true := by
  induction a with
  | nil => intro prev _ hb; exact okFrom_of_none hb
  | cons e es ih =>
    intro prev ha hb
    simp only [List.cons_append, okFrom, Bool.and_eq_true] at ha ⊢
    exact ⟨ha.1, ih ha.2 hb⟩

theorem refusalFree_of_tight {l : List Event} {o : Outcome} (h : tight l o = true) (ho : o ≠ .raised kForbidden) :
    refusalFree l = true := by
  induction l with
  | nil => rfl
  | cons e es ih =>
    simp only [tight] at h
    by_cases he : e.isRefusal = true
    · simp only [he, if_true, Bool.and_eq_true, beq_iff_eq] at h
      exact absurd h.2 ho
    · simp only [he] at h
      have := ih h
      simp only [refusalFree, List.all_cons, Bool.and_eq_true] at this ⊢
      exact ⟨by simpa using he, this⟩

theorem tight_append_of_refusalFree {a b : List Event} {o : Outcome} (h : refusalFree a = true) :
    tight (a ++ b) o = tight b o := by
  induction a with
  | nil => rfl
  | cons e es ih =>
    simp only [refusalFree, List.all_cons, Bool.and_eq_true] at h
    have he : e.isRefusal = false := by simpa using h.1
    simp only [List.cons_append, tight, he]
    exact ih (by simpa [refusalFree] using h.2)

theorem tight_of_refusalFree {l : List Event} {o : Outcome} (h : refusalFree l = true) : tight l o = true := by
  have := tight_append_of_refusalFree (b := []) (o := o) h
  simpa [tight] using this

theorem truthful_append {pol : Nat → Nat → Bool} {a b : List Event} :
    truthful pol (a ++ b) = (truthful pol a && truthful pol b) := by
  simp [truthful, List.all_append]

theorem FromViews.append {views : List DView} {a b : List Event} (ha : FromViews views a) (hb : FromViews views b) :
    FromViews views (a ++ b) := by
  intro tag exc c g hm
  rcases List.mem_append.mp hm with h | h
  · exact ha tag exc c g h
  · exact hb tag exc c g h

theorem FromViews.nil {views : List DView} : FromViews views [] := by
  intro tag exc c g hm; cases hm

theorem AskedFor.append {views : List DView} {a b : List Event} (ha : AskedFor views a) (hb : AskedFor views b) :
    AskedFor views (a ++ b) := by
  intro c p x hm
  rcases List.mem_append.mp hm with h | h
  · exact ha c p x h
  · exact hb c p x h

theorem AskedFor.nil {views : List DView} : AskedFor views [] := by
  intro c p a hm; cases hm

theorem Inv.nil {views : List DView} {pol : Nat → Nat → Bool} {prev : Option Event} {o : Outcome} :
    Inv views pol prev ([], o) :=
  ⟨rfl, rfl, rfl, FromViews.nil, AskedFor.nil⟩

/-- a run followed by another run, when the first did not end in HTTPForbidden -/
theorem Inv.append {views : List DView} {pol : Nat → Nat → Bool} {prev : Option Event} {a b : List Event} {oa ob : Outcome}
    (ha : Inv views pol prev (a, oa)) (hne : oa ≠ .raised kForbidden) (hb : Inv views pol none (b, ob)) :
    Inv views pol prev (a ++ b, ob) := by
  refine ⟨okFrom_append ha.good hb.good, ?_, ?_, ha.src.append hb.src, ha.asked.append hb.asked⟩
  · have hf := refusalFree_of_tight ha.tgt hne
    show tight (a ++ b) ob = true
    rw [tight_append_of_refusalFree hf]; exact hb.tgt
  · show truthful pol (a ++ b) = true
    rw [truthful_append]
    simp only [Bool.and_eq_true]
    exact ⟨ha.tru, hb.tru⟩

/-- the outcome of a run that did not end in HTTPForbidden may be replaced (`None` ⇒ `HTTPNotFound`, …) -/
theorem Inv.outcome {views : List DView} {pol : Nat → Nat → Bool} {prev : Option Event} {a : List Event} {o o' : Outcome}
    (ha : Inv views pol prev (a, o)) (hne : o ≠ .raised kForbidden) : Inv views pol prev (a, o') :=
  ⟨ha.good, tight_of_refusalFree (refusalFree_of_tight ha.tgt hne), ha.tru, ha.src, ha.asked⟩

theorem Inv.weaken {views : List DView} {pol : Nat → Nat → Bool} {prev : Option Event} {r : Res}
    (h : Inv views pol none r) : Inv views pol prev r :=
  ⟨okFrom_of_none h.good, h.tgt, h.tru, h.src, h.asked⟩

/-! ### one derived view -/

theorem runLayers_inv {views : List DView} {pol : Nat → Nat → Bool} {truePreds : List Nat} {ctx : Nat} {d : DView}
    (hd : d ∈ views) {wrap : Nat → Res} (hw : ∀ w, Inv views pol none (wrap w)) :
    ∀ (layers : List Layer) (prev : Option Event),
      (∀ p, d.guard = some p → Armed prev d ctx p ∨ securedFirst layers = true) →
      Inv views pol prev (runLayers wrap pol truePreds ctx d layers) := by
  intro layers
  induction layers with
  | nil =>
    intro prev harm
    simp only [runLayers]
    refine ⟨?_, ?_, ?_, ?_, ?_⟩
    · simp only [okFrom, Bool.and_true]
      cases hg : d.guard with
      | none => rfl
      | some p =>
        rcases harm p hg with h | h
        · exact (okStep_armed h).2 _
        · simp [securedFirst] at h
    · simp [tight, Event.isRefusal]
    · simp [truthful, truthfulEv]
    · intro tag exc c g hm
      simp only [List.mem_singleton] at hm
      injection hm with h1 h2 h3 h4
      exact ⟨d, hd, h1.symm, h2.symm, h4.symm⟩
    · intro c p a hm
      simp only [List.mem_singleton] at hm
      cases hm
  | cons l rest ih =>
    intro prev harm
    cases l with
    | predicated =>
      simp only [runLayers]
      split
      · exact ih prev (fun p hp => (harm p hp).imp id (fun h => by simpa [securedFirst] using h))
      · exact Inv.nil
    | secured =>
      simp only [runLayers]
      split
      · next hg => exact ih prev (fun p hp => by rw [hg] at hp; cases hp)
      · next p hg =>
        split
        · next hpol =>
          have hin := ih (some (.permits ctx p true)) (fun p' hp' => by
            rw [hg] at hp'; injection hp' with hp'; subst hp'; exact Or.inl (Or.inl rfl))
          refine ⟨?_, ?_, ?_, ?_, ?_⟩
          · simp only [okFrom, okStep, Bool.true_and]; exact hin.good
          · simp only [tight, Event.isRefusal]; exact hin.tgt
          · have := hin.tru
            simp only [truthful, List.all_cons, truthfulEv, Bool.and_eq_true, beq_iff_eq] at this ⊢
            exact ⟨hpol.symm, this⟩
          · intro tag exc c g hm
            rcases List.mem_cons.mp hm with h | h
            · cases h
            · exact hin.src tag exc c g h
          · intro c p' a hm
            rcases List.mem_cons.mp hm with h | h
            · injection h with h1 h2 h3
              exact ⟨d, hd, by rw [hg, h2]⟩
            · exact hin.asked c p' a h
        · next hpol =>
          refine ⟨?_, ?_, ?_, ?_, ?_⟩
          · simp [okFrom, okStep]
          · simp [tight, Event.isRefusal]
          · simp only [truthful, List.all_cons, truthfulEv, List.all_nil, Bool.and_true, beq_iff_eq]
            simpa using hpol
          · intro tag exc c g hm
            rcases List.mem_cons.mp hm with h | h
            · cases h
            · cases h
          · intro c p' a hm
            rcases List.mem_cons.mp hm with h | h
            · injection h with h1 h2 h3
              exact ⟨d, hd, by rw [hg, h2]⟩
            · cases h
    | owrapped =>
      have harm' : ∀ p, d.guard = some p → Armed prev d ctx p ∨ securedFirst rest = true :=
        fun p hp => (harm p hp).imp id (fun h => by simpa [securedFirst] using h)
      have hin := ih prev harm'
      simp only [runLayers]
      split
      · exact hin
      · next w hwr =>
        split
        · next t hr =>
          have h1 : Inv views pol prev ((runLayers wrap pol truePreds ctx d rest).1, Outcome.resp t) := by
            rw [← hr]; exact hin
          have h2 := Inv.append h1 (by intro h; cases h) (hw w)
          cases hw2 : (wrap w).2 with
          | none =>
            rw [hw2] at h2
            exact h2.outcome (by intro h; cases h)
          | resp t' => simpa [hw2] using h2
          | mismatch => simpa [hw2] using h2
          | raised k => simpa [hw2] using h2
          | perm b => simpa [hw2] using h2
        · exact hin
    | decorated =>
      simp only [runLayers]
      split
      · -- the user's decorator code is entered here: it must already be armed
        have harmed : ∀ p, d.guard = some p → Armed prev d ctx p :=
          fun p hp => (harm p hp).resolve_right (by simp [securedFirst])
        have hin := ih (some (.deco d.tag ctx d.guard)) (fun p hp => by
          left; right; rw [hp])
        refine ⟨?_, ?_, ?_, ?_, ?_⟩
        · simp only [okFrom, Bool.and_eq_true]
          refine ⟨?_, hin.good⟩
          cases hg : d.guard with
          | none => rfl
          | some p => exact (okStep_armed (harmed p hg)).1
        · simp only [tight, Event.isRefusal]; exact hin.tgt
        · have := hin.tru
          simp only [truthful, List.all_cons, truthfulEv, Bool.true_and] at this ⊢
          exact this
        · intro tag exc c g hm
          rcases List.mem_cons.mp hm with h | h
          · cases h
          · exact hin.src tag exc c g h
        · intro c p' a hm
          rcases List.mem_cons.mp hm with h | h
          · cases h
          · exact hin.asked c p' a h
      · exact ih prev (fun p hp => (harm p hp).imp id (fun h => by simp [securedFirst] at h))
    | other =>
      simp only [runLayers]
      exact ih prev (fun p hp => (harm p hp).imp id (fun h => by simpa [securedFirst] using h))

/-! ### the loops -/

theorem callMulti_inv {views : List DView} {pol : Nat → Nat → Bool} {run : DView → Res} :
    ∀ (ds : List DView), (∀ d ∈ ds, Inv views pol none (run d)) → Inv views pol none (callMulti run ds) := by
  intro ds
  induction ds with
  | nil => intro _; exact Inv.nil
  | cons d ds ih =>
    intro h
    have hd := h d (List.mem_cons_self ..)
    have hrest := ih (fun x hx => h x (List.mem_cons_of_mem _ hx))
    simp only [callMulti]
    split
    · next hm =>
      have h1 : Inv views pol none ((run d).1, Outcome.mismatch) := by rw [← hm]; exact hd
      exact Inv.append h1 (by intro h; cases h) hrest
    · exact hd

theorem callSlots_inv {views : List DView} {pol : Nat → Nat → Bool} {call : List DView → Res} :
    ∀ (ss : List (List DView)) (pme : Bool), (∀ s ∈ ss, Inv views pol none (call s)) →
      Inv views pol none (callSlots call ss pme) := by
  intro ss
  induction ss with
  | nil => intro pme _; exact Inv.nil
  | cons s ss ih =>
    intro pme h
    have hs := h s (List.mem_cons_self ..)
    have hrest := ih true (fun x hx => h x (List.mem_cons_of_mem _ hx))
    simp only [callSlots]
    split
    · next hm =>
      have h1 : Inv views pol none ((call s).1, Outcome.mismatch) := by rw [← hm]; exact hs
      exact Inv.append h1 (by intro h; cases h) hrest
    · exact hs

/-! ### lookup returns registered views -/

theorem mem_insertByOrder {x y : DView} {l : List DView} : y ∈ insertByOrder x l ↔ y = x ∨ y ∈ l := by
  induction l with
  | nil => simp [insertByOrder]
  | cons z zs ih =>
    simp only [insertByOrder]
    split
    · simp only [List.mem_cons, ih]
      constructor
      · rintro (h | h | h)
        · exact Or.inr (Or.inl h)
        · exact Or.inl h
        · exact Or.inr (Or.inr h)
      · rintro (h | h | h)
        · exact Or.inr (Or.inl h)
        · exact Or.inl h
        · exact Or.inr (Or.inr h)
    · simp [List.mem_cons]

theorem mem_foldl_insertByOrder {y : DView} : ∀ (l acc : List DView),
    y ∈ l.foldl (fun acc x => insertByOrder x acc) acc ↔ y ∈ acc ∨ y ∈ l := by
  intro l
  induction l with
  | nil => intro acc; simp
  | cons x xs ih =>
    intro acc
    simp only [List.foldl_cons, ih, mem_insertByOrder, List.mem_cons]
    constructor
    · rintro ((h | h) | h)
      · exact Or.inr (Or.inl h)
      · exact Or.inl h
      · exact Or.inr (Or.inr h)
    · rintro (h | h | h)
      · exact Or.inl (Or.inr h)
      · exact Or.inl (Or.inl h)
      · exact Or.inr h

theorem mem_sortByOrder {y : DView} {l : List DView} : y ∈ sortByOrder l ↔ y ∈ l := by
  simp [sortByOrder, mem_foldl_insertByOrder]

theorem mem_slotViews {views : List DView} {exc : Bool} {route cls name : Nat} {d : DView}
    (h : d ∈ slotViews views exc route cls name) : d ∈ views ∧ inSlot exc route cls name d = true := by
  simp only [slotViews, mem_sortByOrder, List.mem_filter] at h
  exact h

theorem mem_findViews {views : List DView} {exc : Bool} {ifaces sro : List Nat} {name : Nat} {s : List DView}
    (hs : s ∈ findViews views exc ifaces sro name) : ∀ d ∈ s, d ∈ views ∧ d.exc = exc ∧ d.name = name := by
  intro d hd
  simp only [findViews, List.mem_filter, List.mem_flatMap, List.mem_map] at hs
  obtain ⟨⟨r, _, c, _, rfl⟩, _⟩ := hs
  have := mem_slotViews hd
  refine ⟨this.1, ?_⟩
  have h2 := this.2
  simp only [inSlot, Bool.and_eq_true, beq_iff_eq] at h2
  exact ⟨h2.1.1.1, h2.2⟩

/-! ### `_call_view` with `secure=True` -/

theorem callView_inv {ch : List Layer} (hch : securedFirst ch = true) {views : List DView} {w : World}
    {wrapIfaces truePreds : List Nat} :
    ∀ (fuel : Nat) (exc : Bool) (ifaces sro : List Nat) (name ctx : Nat),
      Inv views w.pol none (callView ch views w wrapIfaces truePreds fuel exc ifaces sro name ctx true) := by
  intro fuel
  induction fuel with
  | zero =>
    intro exc ifaces sro name ctx
    simp only [callView]
    exact Inv.nil
  | succ fuel ih =>
    intro exc ifaces sro name ctx
    simp only [callView]
    apply callSlots_inv
    intro s hs
    simp only [callSlot, if_true]
    apply callMulti_inv
    intro d hd
    have hmem := (mem_findViews hs d hd).1
    exact runLayers_inv hmem (fun wn => ih false wrapIfaces sro wn ctx) ch none (fun _ _ => Or.inr hch)

end Pyr.Security
