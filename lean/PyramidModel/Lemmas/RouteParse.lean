import PyramidModel.Lemmas.Route
/-! The pattern parser (`parseRoute`: old-style test, `*name` detection, `route_re.split`, name/regex split) reads back
what the documented grammar writes.  Helper lemmas for `Props/C01.lean` §4. -/
namespace Pyr.Route
open Pyr.Rx (Ucd isWord asciiAlpha asciiAlnum asciiDigit)

/-! ### the pattern parser reads back what was written (new-style patterns) -/

def renderPh (p : RawPh) : Text := p.name ++ (match p.reg with | none => [] | some r => ':' :: r)

def renderPieces : List (RawPh × Text) → Text
  | [] => []
  | (p, l) :: rest => '{' :: (renderPh p ++ '}' :: (l ++ renderPieces rest))

def renderRest : Option Text → Text
  | none => []
  | some n => '*' :: n

/-- the pattern text of a parsed route -/
def renderRaw (pfx : Text) (pieces : List (RawPh × Text)) (rem : Option Text) : Text :=
  pfx ++ renderPieces pieces ++ renderRest rem

/-- braces nest at most one level deep and are closed (what `route_re` tolerates inside `{name:regex}`) -/
def braceOk : Bool → Text → Bool
  | inner, [] => !inner
  | inner, c :: cs =>
    if c = '}' then inner && braceOk false cs
    else if c = '{' then !inner && braceOk true cs
    else braceOk inner cs

def plainChar (c : Char) : Bool := c ≠ ':' && c ≠ '{' && c ≠ '}'

/-- a placeholder as the documented grammar allows it: an identifier-like name (no colon, no brace) and a regex
text whose braces are balanced one level deep -/
def phWf (p : RawPh) : Bool :=
  (match p.name with
    | [] => false
    | c :: cs => idStartA c && cs.all plainChar) &&
  (match p.reg with
    | none => true
    | some r => braceOk false r)

def piecesWf : List (RawPh × Text) → Bool
  | [] => true
  | (p, l) :: rest => phWf p && !l.contains '{' && piecesWf rest

theorem scanBody_closed : ∀ (t : Text) (inner : Bool) (rest : Text), braceOk inner t = true →
    scanBody inner (t ++ '}' :: rest) = some (t, rest)
  | [], inner, rest, h => by
    simp only [braceOk, Bool.not_eq_true'] at h
    subst h
    simp [scanBody]
  | c :: cs, inner, rest, h => by
    simp only [braceOk] at h
    simp only [List.cons_append, scanBody]
    by_cases h1 : c = '}'
    · simp only [h1, ite_true, Bool.and_eq_true] at h ⊢
      rw [h.1]
      simp [scanBody_closed cs false rest h.2]
    · by_cases h2 : c = '{'
      · subst h2
        have hne : ('{' : Char) ≠ '}' := by decide
        simp only [hne, ite_false, ite_true, Bool.and_eq_true, Bool.not_eq_true'] at h ⊢
        obtain ⟨hi, hb⟩ := h
        subst hi
        simp [scanBody_closed cs true rest hb]
      · simp only [h1, h2, ite_false] at h ⊢
        simp [scanBody_closed cs inner rest h]

theorem braceOk_plain : ∀ (cs t : Text), cs.all plainChar = true → braceOk false (cs ++ t) = braceOk false t
  | [], _, _ => rfl
  | c :: cs, t, h => by
    simp only [List.all_cons, Bool.and_eq_true, plainChar, decide_eq_true_eq] at h
    simp only [List.cons_append, braceOk, h.1.1.2, h.1.2, ite_false]
    exact braceOk_plain cs t (by simpa [plainChar] using h.2)

theorem phAtHead_ne (c : Char) (cs : Text) (h : c ≠ '{') : phAtHead (c :: cs) = none := by
  unfold phAtHead
  split
  · rename_i heq; injection heq with h1 _; exact absurd h1 h
  · rfl

theorem nextPh_lit : ∀ (l t : Text), l.contains '{' = false →
    nextPh (l ++ t) = (nextPh t).map fun x => (l ++ x.1, x.2.1, x.2.2)
  | [], t, _ => by simp only [List.nil_append]; cases nextPh t <;> rfl
  | c :: cs, t, h => by
    simp only [List.contains_cons, Bool.or_eq_false_iff, beq_eq_false_iff_ne, ne_eq] at h
    have hc : c ≠ '{' := fun e => h.1 e.symm
    simp only [List.cons_append, nextPh, phAtHead_ne c _ hc]
    rw [nextPh_lit cs t h.2]
    cases nextPh t <;> simp

theorem nextPh_none (l : Text) (h : l.contains '{' = false) : nextPh l = none := by
  have := nextPh_lit l [] h
  simpa [nextPh] using this

theorem renderPh_shape (p : RawPh) (h : phWf p = true) :
    ∃ d ds, renderPh p = d :: ds ∧ idStartA d = true ∧ braceOk false ds = true := by
  unfold phWf at h
  simp only [Bool.and_eq_true] at h
  obtain ⟨hn, hr⟩ := h
  cases hname : p.name with
  | nil => simp [hname] at hn
  | cons d ds =>
    simp only [hname, Bool.and_eq_true] at hn
    refine ⟨d, ds ++ (match p.reg with | none => [] | some r => ':' :: r), by simp [renderPh, hname], hn.1, ?_⟩
    rw [braceOk_plain ds _ hn.2]
    cases hreg : p.reg with
    | none => rfl
    | some r =>
      simp only [hreg] at hr
      have : (':' : Char) ≠ '}' ∧ (':' : Char) ≠ '{' := by decide
      simp only [braceOk, this.1, this.2, ite_false, hr]

theorem nextPh_at (p : RawPh) (h : phWf p = true) (rest : Text) :
    nextPh ('{' :: (renderPh p ++ '}' :: rest)) = some ([], renderPh p, rest) := by
  obtain ⟨d, ds, e, hd, hb⟩ := renderPh_shape p h
  rw [e]
  simp only [List.cons_append, nextPh, phAtHead, hd, ite_true, scanBody_closed ds false rest hb, Option.map_some]

/-- what `route_re.split` yields after the first placeholder -/
def chain : Text → Text → List (RawPh × Text) → List (Text × Text)
  | ct, l, [] => [(ct, l)]
  | ct, l, (p, l') :: rest => (ct, l) :: chain (renderPh p) l' rest

theorem splitRest_chain : ∀ (pieces : List (RawPh × Text)) (f : Nat) (ct l : Text),
    pieces.length ≤ f → l.contains '{' = false → piecesWf pieces = true →
    splitRest f ct (l ++ renderPieces pieces) = chain ct l pieces
  | [], f, ct, l, _, hl, _ => by
    cases f <;> simp [splitRest, renderPieces, chain, nextPh_none l hl]
  | (p, l') :: rest, 0, ct, l, hf, _, _ => by simp at hf
  | (p, l') :: rest, f + 1, ct, l, hf, hl, hw => by
    simp only [piecesWf, Bool.and_eq_true, Bool.not_eq_true'] at hw
    simp only [splitRest, renderPieces]
    rw [nextPh_lit l _ hl, nextPh_at p hw.1.1]
    simp only [Option.map_some, List.append_nil, chain]
    rw [splitRest_chain rest f (renderPh p) l' (by simpa using hf) hw.1.2 hw.2]

theorem rawPh_renderPh (p : RawPh) (h : phWf p = true) : rawPh (renderPh p) = p := by
  unfold phWf at h
  simp only [Bool.and_eq_true] at h
  obtain ⟨hn, _⟩ := h
  have hnc : ∀ c ∈ p.name, c ≠ ':' := by
    cases hname : p.name with
    | nil => simp [hname] at hn
    | cons d ds =>
      simp only [hname, Bool.and_eq_true, List.all_eq_true] at hn
      intro c hc
      rcases List.mem_cons.mp hc with rfl | hc
      · intro e; subst e; exact absurd hn.1 (by decide)
      · have := hn.2 c hc
        simp only [plainChar, Bool.and_eq_true, decide_eq_true_eq] at this
        exact this.1.1
  have tw : ∀ (n t : Text), (∀ c ∈ n, c ≠ ':') → (n ++ ':' :: t).takeWhile (· ≠ ':') = n ∧
      (n ++ ':' :: t).dropWhile (· ≠ ':') = ':' :: t := by
    intro n t hn
    induction n with
    | nil => simp
    | cons a as ih =>
      have ha : a ≠ ':' := hn a (List.mem_cons_self ..)
      have := ih (fun c hc => hn c (List.mem_cons_of_mem _ hc))
      have hd : decide (a ≠ ':') = true := by simpa using ha
      simp only [List.cons_append, List.takeWhile_cons, List.dropWhile_cons, hd, ite_true]
      exact ⟨by rw [this.1], this.2⟩
  cases hreg : p.reg with
  | none =>
    have : (renderPh p).contains ':' = false := by
      simp only [renderPh, hreg, List.append_nil]
      rw [Bool.eq_false_iff]
      intro hc
      simp only [List.contains_iff_mem] at hc
      exact hnc _ hc rfl
    simp only [rawPh, this, Bool.false_eq_true, ite_false]
    cases p; simp_all [renderPh]
  | some r =>
    have hc : (renderPh p).contains ':' = true := by
      simp [renderPh, hreg]
    have := tw p.name r hnc
    simp only [rawPh, renderPh, hreg, this.1, this.2, List.drop_succ_cons, List.drop_zero]
    cases p; simp_all

theorem chain_map : ∀ (rest : List (RawPh × Text)) (p : RawPh) (l : Text), phWf p = true → piecesWf rest = true →
    (chain (renderPh p) l rest).map (fun x => (rawPh x.1, x.2)) = (p, l) :: rest
  | [], p, l, hp, _ => by simp [chain, rawPh_renderPh p hp]
  | (p', l') :: rest, p, l, hp, hw => by
    simp only [piecesWf, Bool.and_eq_true] at hw
    simp only [chain, List.map_cons, rawPh_renderPh p hp, chain_map rest p' l' hw.1.1 hw.2]

theorem renderPieces_length : ∀ (pieces : List (RawPh × Text)), pieces.length ≤ (renderPieces pieces).length
  | [] => Nat.le_refl _
  | (p, l) :: rest => by
    have := renderPieces_length rest
    simp only [renderPieces, List.length_cons, List.length_append]
    omega

theorem isWord_star (u : Ucd) : isWord u '*' = false := rfl
theorem isWord_lf (u : Ucd) : isWord u '\n' = false := rfl

theorem span_until (q : Char → Bool) : ∀ (l : Text) (x : Char) (t : Text), (∀ c ∈ l, q c = true) → q x = false →
    (l ++ x :: t).dropWhile q = x :: t ∧ (l ++ x :: t).takeWhile q = l
  | [], x, t, _, hx => by simp [hx]
  | a :: as, x, t, hl, hx => by
    have ha : q a = true := hl a (List.mem_cons_self ..)
    have := span_until q as x t (fun c hc => hl c (List.mem_cons_of_mem _ hc)) hx
    simp only [List.cons_append, List.dropWhile_cons, List.takeWhile_cons, ha, ite_true]
    exact ⟨this.1, by rw [this.2]⟩

theorem splitLastStar_append (body n : Text) (hn : ∀ c ∈ n, c ≠ '*') : splitLastStar (body ++ '*' :: n) = some (body, n) := by
  have hr : (body ++ '*' :: n).reverse = n.reverse ++ '*' :: body.reverse := by simp
  have := span_until (· ≠ '*') n.reverse '*' body.reverse
    (by intro c hc; simpa using hn c (List.mem_reverse.mp hc)) (by simp)
  simp only [splitLastStar, hr, this.1, this.2, List.reverse_reverse]

theorem starAtEnd_rest (u : Ucd) (body n : Text) (hn : n.all (isWord u) = true) :
    starAtEnd u (body ++ '*' :: n) = some (body, n) := by
  have hw : ∀ c ∈ n, isWord u c = true := by simpa [List.all_eq_true] using hn
  have hstar : ∀ c ∈ n, c ≠ '*' := by
    intro c hc e; subst e
    have := hw _ hc; rw [isWord_star] at this; cases this
  have hlast : n.getLast? ≠ some '\n' := by
    intro h
    have := hw _ (List.mem_of_getLast? h)
    rw [isWord_lf] at this; cases this
  simp only [starAtEnd, splitLastStar_append body n hstar, hlast, ite_false, hn, ite_true]

/-- `route_re.split` of the body, after the prefix -/
def chainOf : List (RawPh × Text) → List (Text × Text)
  | [] => []
  | (p, l) :: rest => chain (renderPh p) l rest

/-- the remainder marker is what it looks like: a `*name` made of word characters, or no `*word` ending at all -/
def restWf (u : Ucd) (body : Text) : Option Text → Bool
  | some n => n.all (isWord u)
  | none => (starAtEnd u body).isNone

/-- a pattern as the documented grammar writes it: `/`-led prefix without `{`, well-formed placeholders each followed
by `{`-free literal text, and either a `*name` with a word-character name or no `*word` ending at all; new style
(at least one `{…}`) or free of old-style `:name` markers -/
structure RawWf (u : Ucd) (pfx : Text) (pieces : List (RawPh × Text)) (rem : Option Text) : Prop where
  lead : pfx.head? = some '/'
  pfxPlain : pfx.contains '{' = false
  piecesOk : piecesWf pieces = true
  newStyle : pieces ≠ [] ∨ hasOld (renderRaw pfx pieces rem) = false
  restName : restWf u (pfx ++ renderPieces pieces) rem = true

theorem splitRoute_body (pfx : Text) (pieces : List (RawPh × Text)) (hplain : pfx.contains '{' = false)
    (hpieces : piecesWf pieces = true) : splitRoute (pfx ++ renderPieces pieces) = (pfx, chainOf pieces) := by
  cases pieces with
  | nil =>
    have : nextPh (pfx ++ renderPieces []) = none := by simpa [renderPieces] using nextPh_none pfx hplain
    simp only [splitRoute, this]
    simp [renderPieces, chainOf]
  | cons pl rest =>
    obtain ⟨p, l⟩ := pl
    simp only [piecesWf, Bool.and_eq_true, Bool.not_eq_true'] at hpieces
    have hn : nextPh (pfx ++ renderPieces ((p, l) :: rest)) = some (pfx, renderPh p, l ++ renderPieces rest) := by
      simp only [renderPieces]
      rw [nextPh_lit pfx _ hplain, nextPh_at p hpieces.1.1]
      simp
    simp only [splitRoute, hn, chainOf]
    rw [splitRest_chain rest _ (renderPh p) l ?_ hpieces.1.2 hpieces.2]
    have := renderPieces_length rest
    simp only [renderPieces, List.length_append, List.length_cons]
    omega

theorem chainOf_map (pieces : List (RawPh × Text)) (hpieces : piecesWf pieces = true) :
    (chainOf pieces).map (fun x => (rawPh x.1, x.2)) = pieces := by
  cases pieces with
  | nil => rfl
  | cons pl rest =>
    obtain ⟨p, l⟩ := pl
    simp only [piecesWf, Bool.and_eq_true] at hpieces
    exact chain_map rest p l hpieces.1.1 hpieces.2

theorem parse_render_raw (u : Ucd) (pfx : Text) (pieces : List (RawPh × Text)) (rem : Option Text)
    (h : RawWf u pfx pieces rem) :
    parseRoute u (renderRaw pfx pieces rem) = { pfx := pfx, pieces := pieces, remainder := rem } := by
  obtain ⟨hlead, hplain, hpieces, hnew, hrest⟩ := h
  have hsplit := splitRoute_body pfx pieces hplain hpieces
  have hmap := chainOf_map pieces hpieces
  -- no old-style rewriting
  have hold : (hasOld (renderRaw pfx pieces rem) && (nextPh (renderRaw pfx pieces rem)).isNone) = false := by
    rcases hnew with hne | ho
    · cases pieces with
      | nil => exact absurd rfl hne
      | cons pl rest =>
        obtain ⟨p, l⟩ := pl
        simp only [piecesWf, Bool.and_eq_true] at hpieces
        have : nextPh (renderRaw pfx ((p, l) :: rest) rem) =
            some (pfx, renderPh p, l ++ renderPieces rest ++ renderRest rem) := by
          simp only [renderRaw, renderPieces, List.append_assoc, List.cons_append]
          rw [nextPh_lit pfx _ hplain, nextPh_at p hpieces.1.1]
          simp
        simp [this]
    · simp [ho]
  have hhead : (renderRaw pfx pieces rem).head? = some '/' := by
    cases pfx with
    | nil => simp at hlead
    | cons c cs => simpa [renderRaw] using hlead
  have hstar : starAtEnd u (renderRaw pfx pieces rem) = rem.map fun n => (pfx ++ renderPieces pieces, n) := by
    cases rem with
    | none =>
      simp only [restWf, Option.isNone_iff_eq_none] at hrest
      simpa [renderRaw, renderRest] using hrest
    | some n =>
      simp only [restWf] at hrest
      simpa [renderRaw, renderRest] using starAtEnd_rest u (pfx ++ renderPieces pieces) n hrest
  unfold parseRoute
  simp only [hold, Bool.false_eq_true, ite_false, hhead, ite_true, hstar]
  cases rem with
  | none => simp only [Option.map_none, renderRaw, renderRest, List.append_nil, hsplit, hmap]
  | some n => simp only [Option.map_some, hsplit, hmap]

theorem ascii_of_alpha (c : Char) (h : asciiAlpha c = true) : c.toNat < 128 := by
  simp only [asciiAlpha, Bool.or_eq_true, Bool.and_eq_true, decide_eq_true_eq] at h
  omega

theorem ascii_of_alnum (c : Char) (h : asciiAlnum c = true) : c.toNat < 128 := by
  simp only [asciiAlnum, asciiDigit, Bool.or_eq_true, Bool.and_eq_true, decide_eq_true_eq] at h
  rcases h with h | h
  · exact ascii_of_alpha c h
  · omega

theorem isIdentA_ascii (n : Text) (h : isIdentA n = true) : isAscii n = true := by
  cases n with
  | nil => simp [isIdentA] at h
  | cons c cs =>
    simp only [isIdentA, Bool.and_eq_true, List.all_eq_true, idStartA, Bool.or_eq_true, decide_eq_true_eq] at h
    simp only [isAscii, List.all_cons, Bool.and_eq_true, decide_eq_true_eq, List.all_eq_true]
    refine ⟨?_, ?_⟩
    · rcases h.1 with h1 | h1
      · exact ascii_of_alpha c h1
      · subst h1; decide
    · intro x hx
      rcases h.2 x hx with h2 | h2
      · exact ascii_of_alnum x h2
      · subst h2; decide

/-- `_compile_route` on the text of a well-formed pattern yields exactly the tokens it was written from. -/
theorem compile_render_raw (u : Ucd) (lib : Lib) (pfx : Text) (pieces : List (RawPh × Text)) (rem : Option Text)
    (h : RawWf u pfx pieces rem) (ts : List Tok) (hres : piecesToks lib pieces = some ts)
    (hnames : (tokNames (.lit pfx :: ts ++ restToks rem)).all isIdentA = true ∧
      dupFree (tokNames (.lit pfx :: ts ++ restToks rem)) = true) :
    compileRoute u lib (renderRaw pfx pieces rem) = .ok (.lit pfx :: ts ++ restToks rem) := by
  have hascii : (tokNames (.lit pfx :: ts ++ restToks rem)).all isAscii = true := by
    rw [List.all_eq_true]
    intro n hn
    exact isIdentA_ascii n ((List.all_eq_true.mp hnames.1) n hn)
  unfold compileRoute
  rw [parse_render_raw u pfx pieces rem h]
  simp only [hres]
  unfold checkNames
  rw [hascii, hnames.1, hnames.2]
  rfl

end Pyr.Route
