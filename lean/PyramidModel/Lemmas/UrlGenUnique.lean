import PyramidModel.Lemmas.UrlGenMatch
/-! C06 helper lemmas, part 3: under `sepOk` the intended path has *only* the intended reading — whatever
`re`'s backtracking does, it can only find the supplied values.  Property theorems are in `Props/C06.lean`. -/
namespace Pyr.UrlGen

open Pyr Pyr.Trav Pyr.Pct Pyr.Route
open Pyr.Rx (Rx Ucd Lang)

/-! ### combinatorics of words -/

/-- if the word `l` occurs again `|x| ≥ 1` characters later in `l ++ w ++ A`, and no character of `l` occurs in `w`,
then the second occurrence lies wholly behind `w` -/
theorem overlap {l w x A B : Text} (hx : x ≠ []) (hl : l ≠ []) (hw : w ≠ []) (hd : ∀ c ∈ l, c ∉ w)
    (h : l ++ (w ++ A) = x ++ (l ++ B)) : ∃ y, x = l ++ w ++ y ∧ A = y ++ (l ++ B) := by
  by_cases hlen : (l ++ w).length ≤ x.length
  · have h' : (l ++ w) ++ A = x ++ (l ++ B) := by simpa using h
    rcases List.append_eq_append_iff.mp h' with ⟨as, hxe, hA⟩ | ⟨bs, hlw, hB⟩
    · exact ⟨as, hxe, hA⟩
    · have hb : bs = [] := by
        have := congrArg List.length hlw
        simp only [List.length_append] at this hlen
        exact List.length_eq_zero_iff.mp (by omega)
      subst hb
      exact ⟨[], by simpa using hlw.symm, by simpa using hB.symm⟩
  · exfalso
    simp only [List.length_append, Nat.not_le] at hlen
    have hxl : 0 < x.length := List.length_pos_iff.mpr hx
    have hll : 0 < l.length := List.length_pos_iff.mpr hl
    have hwl : 0 < w.length := List.length_pos_iff.mpr hw
    let i := max x.length l.length
    have hi1 : l.length ≤ i := Nat.le_max_right _ _
    have hi2 : i - l.length < w.length := by
      have : i < l.length + w.length := Nat.max_lt.mpr ⟨hlen, by omega⟩
      omega
    have hi3 : x.length ≤ i := Nat.le_max_left _ _
    have hi4 : i - x.length < l.length := by
      have : i < x.length + l.length := Nat.max_lt.mpr ⟨by omega, by omega⟩
      omega
    have e1 : (l ++ (w ++ A))[i]? = some (w[i - l.length]'hi2) := by
      rw [List.getElem?_append_right hi1, List.getElem?_append_left hi2, List.getElem?_eq_getElem hi2]
    have e2 : (x ++ (l ++ B))[i]? = some (l[i - x.length]'hi4) := by
      rw [List.getElem?_append_right hi3, List.getElem?_append_left hi4, List.getElem?_eq_getElem hi4]
    rw [h, e2] at e1
    have e := Option.some.inj e1
    exact hd _ (List.getElem_mem hi4) (e ▸ List.getElem_mem hi2)

def notSl (c : Char) : Bool := c != '/'

theorem tw_mem (l A : Text) (h : '/' ∈ l) : (l ++ A).takeWhile notSl = l.takeWhile notSl := by
  induction l with
  | nil => simp at h
  | cons c l ih =>
    by_cases hc : c = '/'
    · subst hc; simp [List.takeWhile, notSl]
    · have hm : '/' ∈ l := by
        rcases List.mem_cons.mp h with e | m
        · exact absurd e.symm hc
        · exact m
      have hn : notSl c = true := by simpa [notSl] using hc
      simp [List.takeWhile, hn, ih hm]

theorem tw_not_mem (z R : Text) (h : '/' ∉ z) : (z ++ R).takeWhile notSl = z ++ R.takeWhile notSl :=
  List.takeWhile_append_of_pos (fun a ha => by
    simp only [notSl, bne_iff_ne, ne_eq]
    rintro rfl; exact h ha)

/-- a `/`-free word cannot be put in front of a word containing `/` without moving its first `/` -/
theorem slash_first {l z A B : Text} (hl : '/' ∈ l) (hz : '/' ∉ z) (h : l ++ A = z ++ (l ++ B)) : z = [] := by
  have := congrArg (List.takeWhile notSl) h
  rw [tw_mem l A hl, tw_not_mem z _ hz, tw_mem l B hl] at this
  have hlen := congrArg List.length this
  simp only [List.length_append] at hlen
  exact List.length_eq_zero_iff.mp (by omega)

/-- two `/`-free words followed by the same word containing `/`: the words are equal -/
theorem slash_cut {l t c A B : Text} (hl : '/' ∈ l) (ht : '/' ∉ t) (hc : '/' ∉ c)
    (h : t ++ (l ++ A) = c ++ (l ++ B)) : t = c := by
  have := congrArg (List.takeWhile notSl) h
  rw [tw_not_mem t _ ht, tw_not_mem c _ hc, tw_mem l A hl, tw_mem l B hl] at this
  exact List.append_cancel_right this

theorem disjoint_iff (l w : Text) : disjoint l w = true ↔ ∀ c ∈ l, c ∉ w := by
  simp [disjoint]

/-! ### the remainder's entry -/

theorem expectVal_rest (n : Text) (v : KVal) (t : Text) (hv : restValueOk v = true) (ht : restText v = some t) :
    expectVal (.rest n) v = some (.segs (splitPathInfo t)) := by
  cases v with
  | one a =>
    simp only [restText] at ht
    simp [expectVal, ht]
  | many xs =>
    simp only [restText] at ht
    cases hxs : atomTexts xs with
    | none => simp [hxs] at ht
    | some tl =>
      simp only [hxs, Option.map_some, Option.some.injEq] at ht
      subst ht
      simp only [restValueOk, hxs] at hv
      simp [expectVal, hxs, split_joined tl hv]

/-- unfolding `sepOk` at a placeholder -/
theorem sepOk_ph (kw : Kw) (n : Text) (rx : Rx) (ts : List Tok) (h : sepOk kw (.ph n rx :: ts) = true) :
    rx = Rx.notSlashPlus ∧
    (∃ a t, kw.lookup n = some (.one a) ∧ atomText a = some t ∧ t ≠ [] ∧ '/' ∉ t) ∧ sepOk kw ts = true := by
  simp only [sepOk, Bool.and_eq_true, decide_eq_true_eq] at h
  obtain ⟨⟨⟨hrx, hv⟩, _⟩, hts⟩ := h
  refine ⟨hrx, ?_, hts⟩
  cases hl : kw.lookup n with
  | none => simp [hl] at hv
  | some v =>
    cases v with
    | many xs => simp [hl, phValueOk] at hv
    | one a =>
      simp only [hl, phValueOk] at hv
      cases ha : atomText a with
      | none => simp [ha] at hv
      | some t =>
        simp only [ha, Bool.and_eq_true, decide_eq_true_eq, Bool.not_eq_true', List.contains_eq_mem,
          decide_eq_false_iff_not] at hv
        exact ⟨a, t, rfl, ha, hv.1, hv.2⟩

/-- the separator clause of `sepOk` -/
theorem sepOk_sep (kw : Kw) (n : Text) (rx : Rx) (l : Text) (ts : List Tok) (a : Atom) (t : Text)
    (hl : kw.lookup n = some (.one a)) (ha : atomText a = some t)
    (h : sepOk kw (.ph n rx :: .lit l :: ts) = true) :
    l ≠ [] ∧ ('/' ∈ l ∨ ts = [] ∨ (l.headD '/' ∉ t ∧ ∃ w, nextValue kw ts = some w ∧ disjoint l w = true)) := by
  simp only [sepOk, Bool.and_eq_true, decide_eq_true_eq, hl, ha, Bool.or_eq_true, List.contains_eq_mem,
    List.isEmpty_iff, Bool.not_eq_true', decide_eq_false_iff_not] at h
  obtain ⟨⟨⟨_, _⟩, hne, hsep⟩, _⟩ := h
  refine ⟨hne, ?_⟩
  rcases hsep with (h1 | h2) | ⟨h3, h4⟩
  · exact .inl h1
  · exact .inr (.inl h2)
  · refine .inr (.inr ⟨h3, ?_⟩)
    cases hw : nextValue kw ts with
    | none => simp [hw] at h4
    | some w => exact ⟨w, rfl, by simpa [hw] using h4⟩

theorem intended_ph (kw : Kw) (n : Text) (rx : Rx) (ts : List Tok) (a : Atom) (t I : Text)
    (hl : kw.lookup n = some (.one a)) (ha : atomText a = some t) (h : intended kw (.ph n rx :: ts) = some I) :
    ∃ I', intended kw ts = some I' ∧ I = t ++ I' := by
  simp only [intended, hl, ha] at h
  cases hi : intended kw ts with
  | none => simp [hi] at h
  | some I' => exact ⟨I', rfl, by simpa [hi] using h.symm⟩

theorem intended_lit (kw : Kw) (l : Text) (ts : List Tok) (I : Text) (h : intended kw (.lit l :: ts) = some I) :
    ∃ I', intended kw ts = some I' ∧ I = l ++ I' := by
  simp only [intended] at h
  cases hi : intended kw ts with
  | none => simp [hi] at h
  | some I' => exact ⟨I', rfl, by simpa [hi] using h.symm⟩

/-! ### no later occurrence of a separator can be used -/

/-- Suppose a `/`-free separator `l` is followed by the tokens `ts` (which begin with a value `w` in which no
character of `l` occurs) and `J` is their intended text.  Then `ts` has no reading of a text `p'` obtained by moving
`l` to the right over a non-empty `/`-free stretch `x`. -/
theorem noLate (u : Ucd) (R : Text → Prop) (kw : Kw) : ∀ (ts : List Tok) (l J w x p' : Text) (e' : Env),
    sepOk kw ts = true → intended kw ts = some J → nextValue kw ts = some w → disjoint l w = true →
    l ≠ [] → x ≠ [] → '/' ∉ x → '/' ∉ l → l ++ J = x ++ (l ++ p') → Splits u R ts p' e' → False
  | [], _, _, _, _, _, _, _, _, hw, _, _, _, _, _, _, _ => by simp [nextValue] at hw
  | .lit _ :: _, _, _, _, _, _, _, _, _, hw, _, _, _, _, _, _, _ => by simp [nextValue] at hw
  | .rest n :: ts, l, J, w, x, p', e', hs, hi, hw, hd, hl, hx, _, _, heq, hsp => by
    simp only [sepOk, Bool.and_eq_true, List.isEmpty_iff] at hs
    obtain ⟨hts, _⟩ := hs
    subst hts
    simp only [nextValue] at hw
    simp only [intended] at hi
    cases hlk : kw.lookup n with
    | none => simp [hlk] at hw
    | some v =>
      simp only [hlk, Option.bind_some] at hw
      simp only [hlk, hw, Option.some.injEq] at hi
      obtain ⟨c, p1, e1, rfl, _, _, h1⟩ := splits_rest_inv hsp
      obtain ⟨rfl, _⟩ := splits_nil_inv h1
      subst hi
      by_cases hwe : w = []
      · subst hwe
        have := congrArg List.length heq
        simp only [List.length_append, List.length_nil] at this
        have : x.length = 0 := by omega
        exact hx (List.length_eq_zero_iff.mp this)
      · obtain ⟨y, _, hA⟩ := overlap hx hl hwe ((disjoint_iff l w).mp hd) heq
        have := congrArg List.length hA
        simp only [List.length_append, List.length_nil] at this
        have : l.length = 0 := by omega
        exact hl (List.length_eq_zero_iff.mp this)
  | [.ph n rx], l, J, w, x, p', e', hs, hi, hw, hd, hl, hx, _, _, heq, hsp => by
    obtain ⟨_, ⟨a, t, hlk, ha, hne, _⟩, _⟩ := sepOk_ph kw n rx [] hs
    simp only [nextValue, hlk, ha, Option.some.injEq] at hw
    subst hw
    obtain ⟨I', hi', rfl⟩ := intended_ph kw n rx [] a t J hlk ha hi
    simp only [intended, Option.some.injEq] at hi'
    subst hi'
    obtain ⟨c, p1, e1, rfl, _, _, h1⟩ := splits_ph_inv hsp
    obtain ⟨rfl, _⟩ := splits_nil_inv h1
    obtain ⟨y, _, hA⟩ := overlap hx hl hne ((disjoint_iff l t).mp hd) heq
    have := congrArg List.length hA
    simp only [List.length_append, List.length_nil] at this
    have : l.length = 0 := by omega
    exact hl (List.length_eq_zero_iff.mp this)
  | .ph n rx :: .ph _ _ :: _, _, _, _, _, _, _, hs, _, _, _, _, _, _, _, _, _ => by
    simp [sepOk] at hs
  | .ph n rx :: .rest _ :: _, _, _, _, _, _, _, hs, _, _, _, _, _, _, _, _, _ => by
    simp [sepOk] at hs
  | .ph n rx :: .lit l2 :: ts, l, J, w, x, p', e', hs, hi, hw, hd, hl, hx, hxs, hls, heq, hsp => by
    obtain ⟨hrx, ⟨a, t, hlk, ha, hne, hts⟩, hs'⟩ := sepOk_ph kw n rx _ hs
    subst hrx
    obtain ⟨hl2, hsep⟩ := sepOk_sep kw n _ l2 ts a t hlk ha hs
    have hs'' : sepOk kw ts = true := by simpa [sepOk] using hs'
    simp only [nextValue, hlk, ha, Option.some.injEq] at hw
    subst hw
    obtain ⟨I1, hi1, rfl⟩ := intended_ph kw n _ _ a t J hlk ha hi
    obtain ⟨J2, hi2, rfl⟩ := intended_lit kw l2 ts I1 hi1
    obtain ⟨c2, p1, e1, rfl, _, hlang, h1⟩ := splits_ph_inv hsp
    obtain ⟨p2, rfl, h2⟩ := splits_lit_inv h1
    obtain ⟨hc2ne, hc2s⟩ := (lang_notSlashPlus u c2).mp hlang
    obtain ⟨y, hxe, hA⟩ := overlap hx hl hne ((disjoint_iff l t).mp hd) heq
    -- the next separator has moved to the right over `z = y ++ l ++ c2`
    have hz : l2 ++ J2 = (y ++ l ++ c2) ++ (l2 ++ p2) := by simpa using hA
    have hzne : y ++ l ++ c2 ≠ [] := by simp [hl]
    have hzs : '/' ∉ y ++ l ++ c2 := by
      subst hxe
      simp only [List.mem_append, not_or] at hxs ⊢
      exact ⟨⟨hxs.2, hls⟩, hc2s⟩
    rcases hsep with h | h | ⟨_, w2, hw2, hd2⟩
    · exact hzne (slash_first h hzs hz)
    · subst h
      simp only [intended, Option.some.injEq] at hi2
      subst hi2
      obtain ⟨rfl, _⟩ := splits_nil_inv h2
      have := congrArg List.length hz
      simp only [List.length_append, List.length_nil] at this
      have hl0 : l.length = 0 := by omega
      exact hl (List.length_eq_zero_iff.mp hl0)
    · have hl2s : '/' ∉ l2 := by
        -- the separator clause with a following value was chosen, but `l2` may still contain `/`: then use it
        intro hm
        exact hzne (slash_first hm hzs hz)
      exact noLate u R kw ts l2 J2 w2 (y ++ l ++ c2) p2 e1 hs'' hi2 hw2 hd2 hl2 hzne hzs hl2s hz h2

/-! ### uniqueness of the reading -/

/-- **Under `sepOk` the intended path has only the intended reading.** -/
theorem unique_reading (u : Ucd) (R : Text → Prop) (kw : Kw) : ∀ (toks : List Tok) (I : Text) (E e : Env),
    sepOk kw toks = true → intended kw toks = some I → expectEnv kw toks = some E → Splits u R toks I e → e = E
  | [], I, E, e, _, _, he, hsp => by
    obtain ⟨_, rfl⟩ := splits_nil_inv hsp
    simp only [expectEnv, Option.some.injEq] at he
    exact he
  | .lit l :: ts, I, E, e, hs, hi, he, hsp => by
    obtain ⟨I', hi', rfl⟩ := intended_lit kw l ts I hi
    obtain ⟨p, hp, h1⟩ := splits_lit_inv hsp
    have := List.append_cancel_left hp
    subst this
    exact unique_reading u R kw ts _ E e (by simpa [sepOk] using hs) hi' (by simpa [expectEnv] using he) h1
  | .rest n :: ts, I, E, e, hs, hi, he, hsp => by
    simp only [sepOk, Bool.and_eq_true, List.isEmpty_iff] at hs
    obtain ⟨hts, hv⟩ := hs
    subst hts
    simp only [intended] at hi
    simp only [expectEnv] at he
    cases hl : kw.lookup n with
    | none => simp [hl] at hi
    | some v =>
      simp only [hl] at hi he hv
      cases ht : restText v with
      | none => simp [ht] at hi
      | some t =>
        simp only [ht, Option.some.injEq] at hi
        obtain ⟨c, p1, e1, hI, rfl, _, h1⟩ := splits_rest_inv hsp
        obtain ⟨rfl, rfl⟩ := splits_nil_inv h1
        have hc : c = t := by
          have : t ++ [] = c ++ [] := by rw [hi, hI]
          simpa using this.symm
        subst hc
        rw [expectVal_rest n v c hv ht] at he
        simp only [Option.some.injEq] at he
        exact he
  | .ph n rx :: ts, I, E, e, hs, hi, he, hsp => by
    obtain ⟨hrx, ⟨a, t, hlk, ha, hne, hts⟩, hs'⟩ := sepOk_ph kw n rx ts hs
    subst hrx
    obtain ⟨I', hi', rfl⟩ := intended_ph kw n _ ts a t I hlk ha hi
    obtain ⟨c, p, e1, hp, rfl, hlang, h1⟩ := splits_ph_inv hsp
    obtain ⟨hcne, hcs⟩ := (lang_notSlashPlus u c).mp hlang
    -- the dictionary wanted
    simp only [expectEnv, hlk, expectVal, ha, Option.map_some] at he
    cases he' : expectEnv kw ts with
    | none => simp [he'] at he
    | some E' =>
      simp only [he', Option.some.injEq] at he
      subst he
      -- it is enough to show that the capture is the value
      suffices hct : c = t by
        subst hct
        have := List.append_cancel_left hp
        subst this
        rw [unique_reading u R kw ts _ E' e1 hs' hi' he' h1]
      match ts, hs, hs', hi', h1, hp with
      | [], _, _, hi', h1, hp =>
        simp only [intended, Option.some.injEq] at hi'
        subst hi'
        obtain ⟨rfl, _⟩ := splits_nil_inv h1
        simpa using hp.symm
      | .ph _ _ :: _, hs, _, _, _, _ => simp [sepOk] at hs
      | .rest _ :: _, hs, _, _, _, _ => simp [sepOk] at hs
      | .lit l :: ts', hs, hs', hi', h1, hp =>
        obtain ⟨hl, hsep⟩ := sepOk_sep kw n _ l ts' a t hlk ha hs
        obtain ⟨I2, hi2, rfl⟩ := intended_lit kw l ts' _ hi'
        obtain ⟨p2, rfl, h2⟩ := splits_lit_inv h1
        rcases hsep with hsl | hend | ⟨hhead, w, hw, hd⟩
        · exact (slash_cut hsl hts hcs hp).symm
        · subst hend
          simp only [intended, Option.some.injEq] at hi2
          subst hi2
          obtain ⟨rfl, _⟩ := splits_nil_inv h2
          have : t ++ l = c ++ l := by simpa using hp
          exact (List.append_cancel_right this).symm
        · by_cases hsl : '/' ∈ l
          · exact (slash_cut hsl hts hcs hp).symm
          · rcases List.append_eq_append_iff.mp hp with ⟨as, hce, hrest⟩ | ⟨bs, hte, hrest⟩
            · -- the capture is longer: c = t ++ as
              cases as with
              | nil => simpa using hce
              | cons d as =>
                exfalso
                have hxs : '/' ∉ d :: as := by
                  intro hm; exact hcs (by rw [hce]; exact List.mem_append_right _ hm)
                have hs2 : sepOk kw ts' = true := by simpa [sepOk] using hs'
                exact noLate u R kw ts' l I2 w (d :: as) p2 e1 hs2 hi2 hw hd hl (by simp) hxs hsl hrest h2
            · -- the capture is shorter: t = c ++ bs
              cases bs with
              | nil => simpa using hte.symm
              | cons d bs =>
                exfalso
                -- then the separator's first character is `d`, a character of the value
                cases l with
                | nil => exact hl rfl
                | cons l0 l' =>
                  have : l0 = d := by
                    have := congrArg List.head? hrest
                    simpa using this
                  subst this
                  apply hhead
                  rw [hte]
                  simp

end Pyr.UrlGen
