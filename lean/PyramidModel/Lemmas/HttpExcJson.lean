/-
C19 — the JSON string encoder of the model against the JSON reader of the spec.
-/
import PyramidModel.HttpExc
import PyramidModel.Lemmas.HttpExcSpec

namespace Pyr.HttpExc

theorem hexVal_hexDigit : ∀ d, d < 16 → hexVal (hexDigit d) = some d := by decide

theorem hex4_u4 (n : Nat) (h : n < 65536) :
    hex4 (hexDigit (n / 4096 % 16)) (hexDigit (n / 256 % 16)) (hexDigit (n / 16 % 16)) (hexDigit (n % 16)) = some n := by
  simp only [hex4, hexVal_hexDigit _ (Nat.mod_lt _ (by omega : 16 > 0))]
  congr 1
  omega

theorem readStrBody_u4_bmp (n : Nat) (h : n < 65536) (hs : ¬ (55296 ≤ n ∧ n < 57344)) (rest acc : Text) :
    readStrBody (u4 n ++ rest) acc = readStrBody rest (Char.ofNat n :: acc) := by
  simp only [u4, List.cons_append, List.nil_append]
  rw [readStrBody.eq_def]
  simp only [show ¬ ('\\' = '"') by decide, if_false, if_true, hex4_u4 n h]
  have h1 : ¬ (55296 ≤ n ∧ n < 56320) := by omega
  have h2 : ¬ (56320 ≤ n ∧ n < 57344) := by omega
  simp only [h1, h2, if_false]

theorem readStrBody_u4_pair (hi lo : Nat) (h1 : 55296 ≤ hi ∧ hi < 56320) (h2 : 56320 ≤ lo ∧ lo < 57344) (rest acc : Text) :
    readStrBody (u4 hi ++ u4 lo ++ rest) acc
      = readStrBody rest (Char.ofNat (65536 + (hi - 55296) * 1024 + (lo - 56320)) :: acc) := by
  simp only [u4, List.cons_append, List.nil_append]
  rw [readStrBody.eq_def]
  simp only [show ¬ ('\\' = '"') by decide, if_false, if_true, hex4_u4 hi (by omega), h1, and_self,
    hex4_u4 lo (by omega), h2]

theorem readStrBody_simple (x ch : Char) (hx : x ≠ 'u') (hs : simpleEsc x = some ch) (rest acc : Text) :
    readStrBody ('\\' :: x :: rest) acc = readStrBody rest (ch :: acc) := by
  rw [readStrBody.eq_def]
  simp only [show ¬ ('\\' = '"') by decide, if_false, if_true, hx, hs]

theorem readStrBody_plain (c : Char) (h1 : c ≠ '"') (h2 : c ≠ '\\') (h3 : ¬ c.toNat < 32) (rest acc : Text) :
    readStrBody (c :: rest) acc = readStrBody rest (c :: acc) := by
  rw [readStrBody.eq_def]
  simp only [h1, h2, h3, if_false]

/-- one encoded character is read back as that character -/
theorem readStrBody_enc (c : Char) (rest acc : Text) :
    readStrBody (jsonEncChar c ++ rest) acc = readStrBody rest (c :: acc) := by
  unfold jsonEncChar
  split
  · rename_i h; subst h; exact readStrBody_simple _ _ (by decide) (by decide) _ _
  split
  · rename_i h; subst h; exact readStrBody_simple _ _ (by decide) (by decide) _ _
  split
  · rename_i h; subst h; exact readStrBody_simple _ _ (by decide) (by decide) _ _
  split
  · rename_i h; subst h; exact readStrBody_simple _ _ (by decide) (by decide) _ _
  split
  · rename_i h; subst h; exact readStrBody_simple _ _ (by decide) (by decide) _ _
  split
  · rename_i h; subst h; exact readStrBody_simple _ _ (by decide) (by decide) _ _
  split
  · rename_i h; subst h; exact readStrBody_simple _ _ (by decide) (by decide) _ _
  split
  · rename_i h1 h2 _ _ _ _ _ h8
    exact readStrBody_plain c h1 h2 (by omega) _ _
  have hv : c.toNat.isValidChar := c.valid
  simp only [Nat.isValidChar] at hv
  split
  · rename_i h9
    rw [readStrBody_u4_bmp c.toNat h9 (by omega), Char.ofNat_toNat]
  · rename_i h9
    rw [readStrBody_u4_pair _ _ (by omega) (by omega)]
    have : 65536 + (55296 + (c.toNat - 65536) / 1024 - 55296) * 1024 + (56320 + (c.toNat - 65536) % 1024 - 56320) = c.toNat := by
      omega
    rw [this, Char.ofNat_toNat]

theorem readStrBody_encoded (t rest acc : Text) :
    readStrBody (t.flatMap jsonEncChar ++ '"' :: rest) acc = some (acc.reverse ++ t, rest) := by
  induction t generalizing acc with
  | nil =>
    simp only [List.flatMap_nil, List.nil_append, List.append_nil]
    rw [readStrBody.eq_def]
    simp
  | cons c t ih =>
    simp only [List.flatMap_cons, List.append_assoc]
    rw [readStrBody_enc, ih]
    simp

/-- the reader inverts the encoder -/
theorem readJsonString_jsonStr (t rest : Text) : readJsonString (jsonStr t ++ rest) = some (t, rest) := by
  simp only [jsonStr, List.cons_append, List.append_assoc, readJsonString, if_true]
  rw [readStrBody_encoded]
  simp

theorem readMembers_comma {t r1 r2 r3 r4 k v : Text} (acc : List (Text × Text))
    (h1 : readJsonString t = some (k, r1)) (h2 : skipWs r1 = ':' :: r2)
    (h3 : readJsonString (skipWs r2) = some (v, r3)) (h4 : skipWs r3 = ',' :: r4) :
    readMembers t acc = readMembers (skipWs r4) ((k, v) :: acc) := by
  rw [readMembers.eq_def]
  split
  · rename_i heq; rw [h1] at heq; cases heq
  · rename_i k' r1' heq
    rw [h1] at heq; cases heq
    split
    · rename_i heq2; rw [h2] at heq2; cases heq2
    · rename_i c1 r2' heq2
      rw [h2] at heq2; cases heq2
      simp only [if_true]
      split
      · rename_i heq3; rw [h3] at heq3; cases heq3
      · rename_i v' r3' heq3
        rw [h3] at heq3; cases heq3
        split
        · rename_i heq4; rw [h4] at heq4; cases heq4
        · rename_i c2 r4' heq4
          rw [h4] at heq4; cases heq4
          simp only [if_true]

theorem readMembers_end {t r1 r2 r3 r4 k v : Text} (acc : List (Text × Text))
    (h1 : readJsonString t = some (k, r1)) (h2 : skipWs r1 = ':' :: r2)
    (h3 : readJsonString (skipWs r2) = some (v, r3)) (h4 : skipWs r3 = '}' :: r4) (h5 : skipWs r4 = []) :
    readMembers t acc = some ((k, v) :: acc).reverse := by
  rw [readMembers.eq_def]
  split
  · rename_i heq; rw [h1] at heq; cases heq
  · rename_i k' r1' heq
    rw [h1] at heq; cases heq
    split
    · rename_i heq2; rw [h2] at heq2; cases heq2
    · rename_i c1 r2' heq2
      rw [h2] at heq2; cases heq2
      simp only [if_true]
      split
      · rename_i heq3; rw [h3] at heq3; cases heq3
      · rename_i v' r3' heq3
        rw [h3] at heq3; cases heq3
        split
        · rename_i heq4; rw [h4] at heq4; cases heq4
        · rename_i c2 r4' heq4
          rw [h4] at heq4; cases heq4
          simp only [show ¬ ('}' = ',') by decide, if_false, if_true, h5]

theorem skipWs_quote (r : Text) : skipWs ('"' :: r) = '"' :: r := by simp [skipWs]
theorem skipWs_jsonStr (t r : Text) : skipWs (jsonStr t ++ r) = jsonStr t ++ r := by simp [jsonStr, skipWs]

/-- the JSON reader accepts the body `json.dumps` writes and returns the three members, strings decoded -/
theorem readJsonObject_jsonBody (b s t : Text) :
    readJsonObject (jsonBody b s t) = some [(keyMessage, b), (keyCode, s), (keyTitle, t)] := by
  unfold jsonBody
  have hq : ∀ (x r : Text), ∃ tl, jsonStr x ++ r = '"' :: tl := fun x r => ⟨x.flatMap jsonEncChar ++ '"' :: r, by simp [jsonStr]⟩
  simp only [readJsonObject, skipWs, show ¬ ('{' = ' ' ∨ '{' = '\n' ∨ '{' = '\r' ∨ '{' = '\t') by decide, if_false, if_true]
  rw [skipWs_jsonStr]
  obtain ⟨tl, htl⟩ := hq keyMessage (':' :: ' ' :: (jsonStr b ++ ',' :: ' ' :: (jsonStr keyCode ++ ':' :: ' ' ::
      (jsonStr s ++ ',' :: ' ' :: (jsonStr keyTitle ++ ':' :: ' ' :: (jsonStr t ++ ['}']))))))
  rw [htl]
  simp only [show ¬ ('"' = '}') by decide, if_false]
  rw [← htl]
  have ws1 : ∀ r : Text, skipWs (':' :: r) = ':' :: r := fun r => by simp [skipWs]
  have ws2 : ∀ (x r : Text), skipWs (' ' :: (jsonStr x ++ r)) = jsonStr x ++ r := fun x r => by
    rw [skipWs]; simp only [true_or, if_true]; exact skipWs_jsonStr x r
  have ws3 : ∀ r : Text, skipWs (',' :: r) = ',' :: r := fun r => by simp [skipWs]
  have ws4 : skipWs ['}'] = ['}'] := by simp [skipWs]
  rw [readMembers_comma [] (readJsonString_jsonStr _ _) (ws1 _) (by rw [ws2]; exact readJsonString_jsonStr _ _) (ws3 _)]
  rw [ws2]
  rw [readMembers_comma _ (readJsonString_jsonStr _ _) (ws1 _) (by rw [ws2]; exact readJsonString_jsonStr _ _) (ws3 _)]
  rw [ws2]
  rw [readMembers_end _ (readJsonString_jsonStr _ _) (ws1 _) (by rw [ws2]; exact readJsonString_jsonStr _ _) ws4 (by simp [skipWs])]
  simp

end Pyr.HttpExc
